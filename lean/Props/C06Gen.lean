import Bridge.Serdes
import Bridge.CodecSer
import Props.C06BitIO
import Props.C06WireIO
/-!
# C06 over the bit-level writer generated from `_serdes.py`

`Gen/Serdes.lean` is translated from `_BitWriter` of the working tree of /repo on every run (byte buffer as `List Nat`, the object
state passed explicitly, `write_bits`' call of itself bounded by CPython's recursion limit).  `Bridge/Serdes.lean` proves that the
generated methods never raise and compute what `Model/BitIO.lean` computes, path by path; the theorems here restate the
writer theorems of `Props/C06BitIO.lean` over the generated code: whatever path `write_bits` takes, from every state whose
buffer is the written bits zero-padded to a whole byte it appends exactly the `n` low bits of the value.
-/
open BitIO Bridge

/-- **The generated `write_bits` appends the `n` low bits.**  From every writer state whose buffer consists of bytes and is
    exactly the bits written so far, zero-padded to a byte (`W.ok` of its bit view), the generated method returns normally; the
    new buffer again consists of bytes and satisfies the invariant, the position advances by `n`, and the bits written are the old
    ones followed by the `n` low bits of `v`, least significant first. -/
theorem C06.gen_write_bits_appends (g : Gen.WriterS) (v n : ℕ) (hb : IsBytes g.buffer) (hok : (toW g).ok = true) :
    ∃ g', Gen.BitWriter.write_bits g v n = .ok g' ∧ IsBytes g'.buffer ∧ (toW g').ok = true ∧
      g'.bit_offset = g.bit_offset + n ∧ (toW g').logical = (toW g).logical ++ natBits n v := by
  obtain ⟨g', e1, e2, e3⟩ := gen_write_bits g v n (winv_of_ok g hb hok)
  obtain ⟨s1, s2, s3⟩ := C06.write_bits_appends (toW g) v n hok
  refine ⟨g', e1, e3.1, by rw [e2]; exact s1, ?_, by rw [e2]; exact s3⟩
  have : (toW g').off = (toW g).off + n := by rw [e2]; exact s2
  exact this

example : IsBytes [5] ∧ (toW ⟨[5], 3⟩).ok = true :=
  ⟨fun b hb => by simp at hb; omega, by decide⟩
/-- evaluated: 16 bits at bit 3 (bit-wise path), then 19 bits at a byte boundary (aligned path + 3 bits bit-wise) -/
example : (do let w ← Gen.BitWriter.write_bits ⟨[5], 3⟩ 0xABCD 16
              let w ← Gen.BitWriter.align_to w 8
              Gen.BitWriter.write_bits w 0x54321 19) = .ok ⟨[0x6D, 0x5E, 0x05, 0x21, 0x43, 0x05], 43⟩ := by
  decide +kernel

/-- **The generated code equals the model path by path**, from every state whose position is not behind the end of its
    buffer (`WInv`, weaker than the invariant; it covers the overwrite branches of the byte-aligned path, which the
    invariant makes unreachable): same bit-level buffer, same position, and `WInv` again. -/
theorem C06.gen_write_bits_is_model (g : Gen.WriterS) (v n : ℕ) (hg : WInv g) :
    ∃ g', Gen.BitWriter.write_bits g v n = .ok g' ∧ toW g' = writeBits (toW g) v n ∧ WInv g' :=
  gen_write_bits g v n hg

/-- a state that violates the invariant (two stale bytes behind the position) but satisfies `WInv`: the aligned path
    overwrites one byte and keeps the other -/
example : WInv ⟨[1, 2, 3], 8⟩ ∧ (toW ⟨[1, 2, 3], 8⟩).ok = false :=
  ⟨⟨fun b hb => by simp at hb; omega, by decide⟩, by decide⟩

/-- **`align_to`** of the generated writer pads with zero bits up to the alignment. -/
theorem C06.gen_align_to_pads (g : Gen.WriterS) (a : ℕ) (hb : IsBytes g.buffer) (hok : (toW g).ok = true) :
    ∃ g', Gen.BitWriter.align_to g a = .ok g' ∧ IsBytes g'.buffer ∧ (toW g').ok = true ∧
      (a > 0 → g'.bit_offset % a = 0) ∧ ∃ k, (toW g').logical = (toW g).logical ++ zeros k ∧ (a > 0 → k < a) := by
  obtain ⟨g', e1, e2, e3⟩ := gen_writer_align_to g a (winv_of_ok g hb hok)
  obtain ⟨s1, s2, s3⟩ := C06.align_to_pads (toW g) a hok
  refine ⟨g', e1, e3.1, by rw [e2]; exact s1, ?_, by rw [e2]; exact s3⟩
  intro ha
  have : (toW g').off % a = 0 := by rw [e2]; exact s2 ha
  exact this

/-- **Every history of `write_bits` calls on a fresh `_BitWriter()`**: no call raises, and what `finish()` returns is, as
    bits, the concatenation of the written fields zero-padded to a whole byte; the position is the total width. -/
theorem C06.gen_writer_history (ops : List (ℕ × ℕ)) :
    ∃ g bytes, (do let w ← Gen.BitWriter.init
                   ops.foldlM (fun w (op : ℕ × ℕ) => Gen.BitWriter.write_bits w op.1 op.2) w) = .ok g ∧
      Gen.BitWriter.finish g = .ok bytes ∧ IsBytes bytes ∧
      bytesToBits bytes = pad8 (ops.flatMap fun op => natBits op.2 op.1) ∧
      g.bit_offset = (ops.map Prod.snd).sum := by
  have key : ∀ (ops : List (ℕ × ℕ)) (g0 : Gen.WriterS), WInv g0 →
      ∃ g, ops.foldlM (fun w op => Gen.BitWriter.write_bits w op.1 op.2) g0 = .ok g ∧
        toW g = ops.foldl (fun w op => writeBits w op.1 op.2) (toW g0) ∧ WInv g := by
    intro ops
    induction ops with
    | nil => intro g0 h; exact ⟨g0, rfl, rfl, h⟩
    | cons op ops ih =>
      intro g0 h
      obtain ⟨g1, e1, e2, e3⟩ := gen_write_bits g0 op.1 op.2 h
      obtain ⟨g, f1, f2, f3⟩ := ih g1 e3
      refine ⟨g, ?_, ?_, f3⟩
      · rw [List.foldlM_cons, e1]; exact f1
      · rw [f2, e2]; rfl
  obtain ⟨i1, i2, i3, _⟩ := gen_writer_init
  obtain ⟨g, e1, e2, e3⟩ := key ops ⟨[], 0⟩ i2
  obtain ⟨_, h2, h3⟩ := C06.writer_history ops
  rw [i3] at e2
  refine ⟨g, g.buffer, by rw [i1]; exact e1, rfl, e3.1, ?_, ?_⟩
  · have : (toW g).buf = pad8 (ops.flatMap fun op => natBits op.2 op.1) := by rw [e2]; exact h2
    exact this
  · have : (toW g).off = (ops.map Prod.snd).sum := by rw [e2]; exact h3
    exact this

example : (do let w ← Gen.BitWriter.init
              [(5, 3), (0xABCD, 16)].foldlM (fun w (op : ℕ × ℕ) => Gen.BitWriter.write_bits w op.1 op.2) w)
    = .ok ⟨[0x6D, 0x5E, 0x05], 19⟩ := by decide +kernel

/-!
# C06 over the SERIALIZER generated from `_serdes.py`

`Gen/Codec.lean` also contains the translation of `serialize`, `_serialize_primitive`, `_serialize_array`, `_serialize_element`,
`_serialize_composite`, `_serialize_field_value` and `_default_value` (tools/py2lean_codec.py: Python values inspected dynamically
-- `isinstance`, `len`, iteration, dict access --, Python ints as `Int` with `&` on two's complement, the writer state threaded
explicitly incl. the temporary writer of delimited types, the union search loop with `break`, `_DEFAULT_SENTINEL`).  The float
conversion inside `_serialize_primitive` (`float()`, saturation, `struct.pack` with its OverflowError handling) is outside the
translated fragment and appears as an uninterpreted function (`Py.opaqueBytes`); `_normalize_relaxed_value` is an uninterpreted
external function (`relaxed=True` is not covered).

`Bridge/CodecSer.lean` proves, by recursion over the schema object graph, that on every well-formed schema object WITHOUT FLOAT
TYPES and with pairwise distinct field names (`serOk`), every writer state whose position is not behind its buffer (`WInv`), and every
`plain` Python value (no float objects, `str` carrying valid UTF-8), the generated functions write exactly what the model writes
(`Wire.coerce` followed by `WireIO.encW`) or raise the exception of the model's error class.  The theorems here restate C06 over the
generated code, and combine it with the generated deserializer (`Props/C07Gen.lean`) to the round trip.
-/
open Py in
/-- **Saturation, generated code**: a saturated unsigned field given the int `i` writes `min(max(i, 0), 2^n - 1)`. -/
theorem C06.gen_sat_unsigned (w : Gen.WriterS) (hw : WInv w) (n : ℕ) (i : ℤ) :
    ∃ g', Gen.Codec.serialize_primitive w (.unsigned n .saturated) (.int i) = .ok g' ∧
      toW g' = writeBits (toW w) (max 0 (min ((2 : ℤ) ^ n - 1) i)).toNat n ∧ WInv g' := by
  have h := ser_unsigned w hw n .saturated (.int i) rfl
  simp only [modelSer, inpOf, Wire.coerce, Wire.Inp.num?, castOf] at h
  obtain ⟨g', h1, h2, h3⟩ := h
  exact ⟨g', h1, by rw [h2]; simp only [WireIO.encW]; rw [toTwos_castU]; simp only [Wire.castU, Wire.clamp], h3⟩

open Py in
/-- **Truncation, generated code**: a truncated unsigned field given the int `i` writes `i mod 2^n` (also for negative `i`). -/
theorem C06.gen_trunc_unsigned (w : Gen.WriterS) (hw : WInv w) (n : ℕ) (i : ℤ) :
    ∃ g', Gen.Codec.serialize_primitive w (.unsigned n .truncated) (.int i) = .ok g' ∧
      toW g' = writeBits (toW w) (i % (2 : ℤ) ^ n).toNat n ∧ WInv g' := by
  have h := ser_unsigned w hw n .truncated (.int i) rfl
  simp only [modelSer, inpOf, Wire.coerce, Wire.Inp.num?, castOf] at h
  obtain ⟨g', h1, h2, h3⟩ := h
  exact ⟨g', h1, by rw [h2]; simp only [WireIO.encW]; rw [toTwos_castU]; simp only [Wire.castU], h3⟩

open Py in
/-- **Saturation of signed fields, generated code**: the two's complement pattern of `min(max(i, -2^(n-1)), 2^(n-1) - 1)`. -/
theorem C06.gen_sat_signed (w : Gen.WriterS) (hw : WInv w) (n : ℕ) (i : ℤ) :
    ∃ g', Gen.Codec.serialize_primitive w (.signed n .saturated) (.int i) = .ok g' ∧
      toW g' = writeBits (toW w) ((max (-(2 : ℤ) ^ (n - 1)) (min ((2 : ℤ) ^ (n - 1) - 1) i)) % (2 : ℤ) ^ n).toNat n ∧ WInv g' := by
  have h := ser_signed w hw n (.int i) rfl
  simp only [modelSer, inpOf, Wire.coerce, Wire.Inp.num?] at h
  obtain ⟨g', h1, h2, h3⟩ := h
  exact ⟨g', h1, by rw [h2]; simp only [WireIO.encW, Wire.toTwos, Wire.castS, Wire.clamp], h3⟩

/-- evaluated: 300 into a saturated uint8 gives 255, 41 into a truncated uint5 gives 9, -9 into int3 gives -4 = 0b100 -/
example : (do let w ← Gen.Codec.serialize_primitive ⟨[], 0⟩ (.unsigned 8 .saturated) (.int 300)
              let w ← Gen.Codec.serialize_primitive w (.unsigned 5 .truncated) (.int 41)
              Gen.Codec.serialize_primitive w (.signed 3 .saturated) (.int (-9))) = .ok ⟨[255, 0x89], 16⟩ := by
  decide +kernel

open Py in
/-- **Defaults, generated code**: `_default_value` returns `defaultOf` -- False / 0 / 0.0 / empty string, bytes, list / a list of
    element defaults / a dict of all field defaults / the first variant's default. -/
theorem C06.gen_default_value (s : Obj) (hs : okT s = true) (hw : (tyOf s).wf = true) (hd : depth s + 1 ≤ Py.recursionLimit) :
    Gen.Codec.default_value s = .ok (defaultOf s) := Bridge.gen_default_value s hs hw hd

theorem C06.tyOf_isComposite (s : Py.Obj) (hs : okT s = true) (hc : isCompObj s = true) : (tyOf s).isComposite = true := by
  match s, hs, hc with
  | .structure fs a n, _, _ => simp only [tyOf, Wire.Ty.isComposite]
  | .union fs t a n, _, _ => simp only [tyOf, Wire.Ty.isComposite]
  | .delimited i h x a, hs, _ =>
    obtain ⟨_, _, _, h1 | h1⟩ := tyOf_delimited i h x a hs
    · obtain ⟨fs, al, n, _, e2⟩ := h1; rw [e2]; rfl
    · obtain ⟨fs, t, al, n, _, e2⟩ := h1; rw [e2]; rfl

open Py in
/-- **The generated `serialize` is the model's `serialize`** (strict mode, float-free types): the same bytes -- as bits, the
    model's bit string -- or the exception of the model's error class (ValueError / TypeError / ArrayLengthError /
    UnionFieldError). -/
theorem C06.gen_serialize_is_model (s : Obj) (hs : okT s = true) (hc : isCompObj s = true) (hw : (tyOf s).wf = true)
    (hso : serOk s = true) (hd : depth s ≤ Py.recursionLimit) (pv : Value) (hp : plain pv = true) (hdr : Bool) :
    match Wire.serialize (tyOf s) (inpOf pv s) hdr false with
    | .ok (_, bits) => ∃ bytes, Gen.Codec.serialize s pv hdr false = .ok bytes ∧ IsBytes bytes ∧ bytesToBits bytes = bits
    | .error e => Gen.Codec.serialize s pv hdr false = .error (errOf e) := by
  have h := gen_serialize s hs hc hw hso hd pv hp hdr
  unfold Wire.serialize
  by_cases hh : (hdr && !(tyOf s).isDelimited) = true
  · rw [if_pos hh] at h ⊢
    exact h
  · rw [if_neg hh] at h ⊢
    have hcomp := C06.tyOf_isComposite s hs hc
    have ht' : (if hdr = true then tyOf s else (tyOf s).inner).wf = true := by
      cases hdr
      · exact Wire.wf_inner _ hw
      · exact hw
    have hc' : (if hdr = true then tyOf s else (tyOf s).inner).isComposite = true := by
      cases hdr
      · simpa [WireIO.isComposite_inner] using hcomp
      · exact hcomp
    have hco : Wire.coerce (if hdr = true then tyOf s else (tyOf s).inner) (inpOf pv s) = Wire.coerce (tyOf s) (inpOf pv s) := by
      cases hdr
      · exact coerce_inner _ _
      · rfl
    unfold modelSer at h
    rw [hco] at h
    simp only [Bool.false_eq_true, if_false, pure_eq_ok, ok_bind]
    cases hcv : Wire.coerce (tyOf s) (inpOf pv s) with
    | error e => rw [hcv] at h; exact h
    | ok v =>
      rw [hcv] at h
      obtain ⟨bytes, h1, h2, h3⟩ := h
      refine ⟨bytes, h1, h2, ?_⟩
      rw [h3, WireIO.encW_buf _ v ht', WireIO.pad8_of_mod _ (WireIO.enc_composite_mod8 _ v hc')]

open Py in
/-- **Round trip over generated encoder + generated decoder**: whatever plain value the generated `serialize` accepts, the bytes
    it returns -- followed by anything -- are decoded by the generated `deserialize` (same header flag) to the Python value of
    the canonical value the input denotes (numbers saturated / truncated, omitted fields filled with defaults). -/
theorem C06.gen_roundtrip (s : Obj) (hs : okT s = true) (hc : isCompObj s = true) (hw : (tyOf s).wf = true)
    (hso : serOk s = true) (hd : depth s ≤ Py.recursionLimit) (pv : Value) (hp : plain pv = true) (hdr : Bool)
    (bytes junk : List ℕ) (hj : IsBytes junk) (h : Gen.Codec.serialize s pv hdr false = .ok bytes) :
    ∃ v, Wire.coerce (tyOf s) (inpOf pv s) = .ok v ∧ Wire.valid (tyOf s) v = true ∧
      Gen.Codec.deserialize s (bytes ++ junk) hdr = .ok (valueOf s v) := by
  have hm := C06.gen_serialize_is_model s hs hc hw hso hd pv hp hdr
  cases hser : Wire.serialize (tyOf s) (inpOf pv s) hdr false with
  | error e => rw [hser] at hm; rw [hm] at h; cases h
  | ok p =>
    obtain ⟨v, bits⟩ := p
    rw [hser] at hm
    obtain ⟨bytes', h1, h2, h3⟩ := hm
    rw [h1] at h; cases h
    have hco : Wire.coerce (tyOf s) (inpOf pv s) = .ok v := by
      unfold Wire.serialize at hser
      split at hser
      · cases hser
      · simp only [Bool.false_eq_true, if_false, pure_eq_ok, ok_bind] at hser
        cases hcv : Wire.coerce (tyOf s) (inpOf pv s) with
        | error e => rw [hcv] at hser; cases hser
        | ok v' => rw [hcv] at hser; simp only [ok_bind, Except.ok.injEq, Prod.mk.injEq] at hser; rw [hser.1]
    refine ⟨v, hco, Wire.coerce_valid _ _ _ hw hco, ?_⟩
    rw [gen_deserialize s hs hc hw hd _ (isBytes_append h2 hj) hdr, C07.deserialize_bytes _ _ _ hw, bytesToBits_append, h3,
      C06.serialize_roundtrip _ _ _ _ _ _ _ hw hser]
    rfl

/-- a float-free schema object with every kind of member (cf. `C07.exObj`) -/
def C06.exObj : Py.Obj :=
  .structure
    [.field (.unsigned 8 .saturated) "a", .paddingField (.void 3),
     .field (.varArray (.signed 3 .saturated) 5 (.unsigned 8 .truncated)) "b",
     .field (.fixedArray (.union [.field .boolean "p", .field (.unsigned 5 .truncated) "q"] (.unsigned 8 .truncated) 8 "ns.V") 2) "w",
     .field (.delimited (.union [.field .boolean "x", .field (.varArray .utf8 4 (.unsigned 8 .truncated)) "s",
        .field (.varArray .byte 2 (.unsigned 8 .truncated)) "y"] (.unsigned 8 .truncated) 8 "ns.U")
        (.unsigned 32 .truncated) 64 8) "u"] 8 "ns.S"

example : okT C06.exObj = true ∧ isCompObj C06.exObj = true ∧ (tyOf C06.exObj).wf = true ∧ serOk C06.exObj = true ∧
    depth C06.exObj ≤ Py.recursionLimit := by decide
example : plain (.dict [("a", .int 300), ("b", .list [.int (-9), .int 2, .int 3]),
    ("w", .list [.dict [("q", .int 41)], .dict [("p", .bool true)]]), ("u", .dict [("s", .str [65, 195, 169])])]) = true := by
  decide
/-- evaluated (CPython returns the same bytes for the same dict): saturation of 300 and -9, truncation of 41, a str in a delimited
    union; omitted fields; the exceptions -/
example : Gen.Codec.serialize C06.exObj (.dict [("a", .int 300), ("b", .list [.int (-9), .int 2, .int 3]),
    ("w", .list [.dict [("q", .int 41)], .dict [("p", .bool true)]]), ("u", .dict [("s", .str [65, 195, 169])])]) false false
    = .ok [255, 24, 160, 6, 1, 9, 0, 1, 5, 0, 0, 0, 1, 3, 65, 195, 169] := by decide +kernel
example : Gen.Codec.serialize C06.exObj (.dict [("a", .int 7)]) false false = .ok [7, 0, 0, 0, 0, 0, 0, 2, 0, 0, 0, 0, 0] := by
  decide +kernel
example : Gen.Codec.serialize C06.exObj (.dict [("a", .int 7), ("zz", .int 1)]) false false = .error .valueError := by
  decide +kernel
example : Gen.Codec.serialize C06.exObj (.dict [("u", .dict [("nope", .int 1)])]) false false
    = .error (.other "UnionFieldError") := by decide +kernel
example : Gen.Codec.serialize C06.exObj (.dict [("b", .list [.int 1, .int 1, .int 1, .int 1, .int 1, .int 1])]) false false
    = .error (.other "ArrayLengthError") := by decide +kernel
