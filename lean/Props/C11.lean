import Proofs.NamespaceC11
import Proofs.NamespaceBook
import Proofs.NamespaceExample
/-! C11 - port-ID and minor-version consistency: the checks of `_namespace.py` (`Ns.checkPortIdCollisions`,
    `Ns.checkMinorVersions`, composed as `Ns.crossCheck` exactly like `_complete_read_function` does) accept a list of
    definitions iff the declarative rule `Ns.Spec.consistent` (Proofs/NamespaceC11.lean, written from the property text)
    holds; every rejection is of the `InvalidDefinitionError` class. -/
open Ns

/-- pairwise port-ID check = "same kind never shares a fixed port-ID unless same full name and (same major or a
    major 0 on at least one side)"; no hypothesis. -/
theorem C11.ports_iff (ds : List TyInfo) : checkPortIdCollisions ds = .ok () ↔ Spec.portIdsConsistent ds :=
  checkPortIdCollisions_ok_iff ds

/-- minor-version check = "under one major: same kind, port-ID may be added in a newer minor but not changed or
    removed, and for major >= 1 equal extent and sealing, request and response separately". -/
theorem C11.minor_iff (ds : List TyInfo) (hd : Spec.distinctKeys ds) :
    checkMinorVersions ds = .ok () ↔ Spec.minorConsistent ds :=
  checkMinorVersions_ok_iff ds hd

/-- every conforming set is accepted and every violating set is rejected -/
theorem C11.iff (direct all : List TyInfo) (hd : Spec.distinctKeys all) :
    crossCheck direct all = .ok () ↔ Spec.consistent direct all := by
  unfold crossCheck Spec.consistent
  cases h : checkPortIdCollisions direct with
  | error e =>
    have : ¬ Spec.portIdsConsistent direct := by rw [← checkPortIdCollisions_ok_iff, h]; simp
    simp [this]
  | ok u =>
    cases u
    have : Spec.portIdsConsistent direct := (checkPortIdCollisions_ok_iff direct).mp h
    simp [this, checkMinorVersions_ok_iff all hd]

/-- a rejection is always of the InvalidDefinitionError class (no assert of the library can fire) -/
theorem C11.rejected_invalid (direct all : List TyInfo) (hd : Spec.distinctKeys all) (e : Err)
    (h : crossCheck direct all = .error e) : e.isInvalid = true := by
  unfold crossCheck at h
  split at h
  · rename_i e' he; cases h; exact checkPortIdCollisions_error_invalid he
  · exact checkMinorVersions_error_invalid hd h

/-- without the hypothesis the library's own `assert a.version.minor != b.version.minor` is reachable -/
theorem C11.duplicate_key_hits_assert (a : TyInfo) : checkMinorVersions [a, a] = .error .assertion := by
  simp [checkMinorVersions, List.zipIdx, firstErr, minorPair]

/-- End to end: whatever `read_namespace` returns satisfies the declarative rule - no two returned types (direct or
    transitive) have the same (name, version), the direct types respect the port-ID rule and all returned types the
    minor-version rule.  No hypothesis on the enumeration: a result in which two types share a (name, version) does not
    pass the minor-version check (`C11.duplicate_key_hits_assert`). -/
theorem C11.result_consistent (files : List FileEntry) (root : Path) (lookups : List Path) (ac au : Bool) (d t : List Ty)
    (p : List Nat) (h : readNamespace files root lookups ac au = ⟨.ok (d, t), p⟩) :
    Spec.distinctKeys ((t ++ d).map Ty.info) ∧ Spec.consistent (d.map Ty.info) ((t ++ d).map Ty.info) :=
  crossCheck_ok_consistent (readNamespace_crossCheck h)

/-- ... and the same for `read_files` -/
theorem C11.result_consistent_files (files targets : List FileEntry) (roots lookups : List Path) (au : Bool) (d t : List Ty)
    (p : List Nat) (h : readFiles files targets roots lookups au = ⟨.ok (d, t), p⟩) :
    Spec.distinctKeys ((t ++ d).map Ty.info) ∧ Spec.consistent (d.map Ty.info) ((t ++ d).map Ty.info) :=
  crossCheck_ok_consistent (readFiles_crossCheck h)

section NonVacuity
private def sec (s : Bool) (e : Nat) : SecInfo := ⟨s, e, []⟩
private def ti (n : String) (ma mi : Nat) (p : Option Nat) (srv : Bool) (a b : SecInfo) : TyInfo :=
  ⟨n, ma, mi, p, srv, a, b, [], []⟩
/-- port-ID added in a newer minor, shared with major 0, a service with the same number, different extents under major 0 -/
private def good : List TyInfo :=
  [ti "ns.A" 1 0 none false (sec true 8) (sec true 8), ti "ns.A" 1 1 (some 6200) false (sec true 8) (sec true 8),
   ti "ns.A" 0 1 (some 6200) false (sec false 64) (sec false 64), ti "ns.A" 0 2 (some 6200) false (sec true 16) (sec true 16),
   ti "ns.S" 1 0 (some 300) true (sec true 0) (sec false 64), ti "ns.S" 1 1 (some 300) true (sec true 0) (sec false 64)]
example : Spec.distinctKeys good := Spec.distinctKeys_of_pairwise (by decide)
example : crossCheck good good = .ok () := by decide
example : Spec.consistent good good := (C11.iff good good (Spec.distinctKeys_of_pairwise (by decide))).mp (by decide)
/-- port-ID removed in the newer minor -/
private def bad1 : List TyInfo := [ti "ns.A" 1 0 (some 6200) false (sec true 8) (sec true 8), ti "ns.A" 1 1 none false (sec true 8) (sec true 8)]
example : Spec.distinctKeys bad1 ∧ ¬ Spec.consistent bad1 bad1 :=
  ⟨Spec.distinctKeys_of_pairwise (by decide), fun h => by
    have := (C11.iff bad1 bad1 (Spec.distinctKeys_of_pairwise (by decide))).mpr h
    revert this; decide⟩
/-- two released majors sharing a port-ID; response extents differing under major 1 -/
private def bad2 : List TyInfo := [ti "ns.A" 1 0 (some 6200) false (sec true 8) (sec true 8), ti "ns.A" 2 0 (some 6200) false (sec true 8) (sec true 8)]
private def bad3 : List TyInfo := [ti "ns.S" 1 0 none true (sec true 0) (sec false 64), ti "ns.S" 1 1 none true (sec true 0) (sec false 72)]
example : crossCheck bad2 bad2 = .error .portCollision ∧ crossCheck bad3 bad3 = .error .minorExtent := by decide
open Ns.Example in
example := C11.result_consistent_files Example.fs [eA] [] [["w", "other"]] false [TA] [TB] [] evalFiles
end NonVacuity
