import Proofs.WireLayout
import Proofs.WireEncLen
import Props.C08
/-!
# C08 ∩ C06 — the offset sets contain the real bit positions of the encoder

Joins the wire model (where bits are actually written) with the layout model (where
`iterate_fields_with_offsets` is modelled): the absolute bit position at which the encoder of the wire model
starts writing each field of a structure — for every valid value and every origin — is an element of the
corresponding offset set of `C08spec.fieldStarts`, which `C08.field_offsets_exact` proves to be what the library's
offset expressions denote.  (Soundness of the offset sets with respect to the codec; that every element is
realised by some value is not proved — it is observed by the wire correspondence only.)
-/
open scoped Pointwise
open Bls WireLayout C08spec

/-- absolute bit positions at which `Wire.encFields` starts writing each field (after its alignment padding) when
    the structure body starts at offset `off` -/
def fieldPositions : List Wire.Ty → List Wire.Val → ℕ → List ℕ
  | t :: ts, v :: vs, off =>
      let p := Wire.padLen off t.align
      (off + p) :: fieldPositions ts vs (off + p + (Wire.enc t v (off + p)).length)
  | _, _, _ => []

theorem positions_in_structStarts : ∀ (fs : List Wire.Ty) (vs : List Wire.Val) (off : ℕ) (S : Finset ℕ),
    Wire.wfFields fs = true → Wire.validFields fs vs = true → off ∈ S →
    List.Forall₂ (fun pos (O : Finset ℕ) => pos ∈ O) (fieldPositions fs vs off) (structStarts S (toLayouts fs))
  | [], [], _, _, _, _, _ => by simp [fieldPositions, toLayouts, structStarts]
  | [], _ :: _, _, _, _, hv, _ => by simp [Wire.validFields] at hv
  | _ :: _, [], _, _, _, hv, _ => by simp [Wire.validFields] at hv
  | t :: ts, v :: vs, off, S, hw, hv, hoff => by
      simp only [Wire.wfFields, Bool.and_eq_true] at hw
      simp only [Wire.validFields, Bool.and_eq_true] at hv
      have hal : 0 < t.align := by rcases Wire.align_cases t with ha | ha <;> omega
      simp only [fieldPositions, toLayouts, structStarts]
      have hpos : off + Wire.padLen off t.align ∈ S.image (padTo (toLayout t).align) := by
        rw [align_eq, ← padTo_eq _ _ hal]
        exact Finset.mem_image_of_mem _ hoff
      refine List.Forall₂.cons hpos ?_
      apply positions_in_structStarts ts vs _ _ hw.2 hv.2
      refine Finset.add_mem_add hpos ?_
      rw [← hasLen_iff t hw.1.1]
      exact Wire.enc_len t v _ hw.1.1 hv.1 (Wire.padLen_dvd off t.align hal)

/-- **Structures.** For every origin `b` of the base offset set, every field of a sealed structure is written at
    a position that belongs to the offset set handed out for that field. -/
theorem C08.struct_field_positions_in_offsets (fs : List Wire.Ty) (vs : List Wire.Val) (B : Finset ℕ) (b : ℕ)
    (hw : Wire.wfFields fs = true) (hv : Wire.validFields fs vs = true) (hb : b ∈ B) :
    List.Forall₂ (fun pos (O : Finset ℕ) => pos ∈ O)
      (fieldPositions fs vs (padTo 8 b)) (fieldStarts B (.struct (toLayouts fs))) := by
  simp only [fieldStarts]
  exact positions_in_structStarts fs vs _ _ hw hv (Finset.mem_image_of_mem _ hb)

/-- **Delimited structures**: the same after the 32-bit header. -/
theorem C08.delimited_field_positions_in_offsets (fs : List Wire.Ty) (vs : List Wire.Val) (B : Finset ℕ) (b x : ℕ)
    (hw : Wire.wfFields fs = true) (hv : Wire.validFields fs vs = true) (hb : b ∈ B) :
    List.Forall₂ (fun pos (O : Finset ℕ) => pos ∈ O)
      (fieldPositions fs vs (padTo 8 (b + 32))) (fieldStarts B (.delim (.struct (toLayouts fs)) x)) := by
  simp only [fieldStarts]
  exact positions_in_structStarts fs vs _ _ hw hv
    (Finset.mem_image_of_mem _ (Finset.add_mem_add hb (Finset.mem_singleton_self 32)))

/-- **Unions**: the selected variant is written right after the tag, at base + tag width — the one offset shared
    by all variants. -/
theorem C08.union_variant_position_in_offsets (fs : List Wire.Ty) (B : Finset ℕ) (b : ℕ)
    (h2 : 2 ≤ fs.length) (hn : fs.length ≤ 2 ^ 64) (hb : b ∈ B) :
    ∀ O ∈ fieldStarts B (.union (toLayouts fs)), padTo 8 b + Wire.tagBits fs.length ∈ O := by
  intro O hO
  simp only [fieldStarts, List.mem_map] at hO
  obtain ⟨_, _, rfl⟩ := hO
  rw [toLayouts_length, tag_eq fs.length h2 hn]
  exact Finset.add_mem_add (Finset.mem_image_of_mem _ hb) (Finset.mem_singleton_self _)

/-! ### Non-vacuity -/
example : Wire.wfFields [.uint 3 .sat, .varr (.uint 8 .sat) 3, .bool] = true ∧
    Wire.validFields [.uint 3 .sat, .varr (.uint 8 .sat) 3, .bool] [.int 5, .arr [.int 1, .int 2], .bool true] = true := by
  decide
