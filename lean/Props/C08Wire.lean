import Proofs.WireLayout
import Proofs.WireEncLen
import Proofs.WireComplete
import Proofs.WireInput
import Props.C08
/-!
# C08 ∩ C06 — the offset sets contain the real bit positions of the encoder

Joins the wire model (where bits are actually written) with the layout model (where
`iterate_fields_with_offsets` is modelled): the absolute bit position at which the encoder of the wire model
starts writing each field of a structure — for every valid value and every origin — is an element of the
corresponding offset set of `C08spec.fieldStarts`, which `C08.field_offsets_exact` proves to be what the library's
offset expressions denote.  (Soundness of the offset sets with respect to the codec.)  Conversely, for structures without delimited members
every element of every offset set is the position at which some VALID value has that field written
(`C08.struct_field_offsets_realised`): the offset sets are exact with respect to the codec.
-/
open scoped Pointwise
open Bls WireLayout C08spec

/-- absolute bit positions at which `Wire.encFields` starts writing each field (after its alignment padding) when
    the structure body starts at offset `off` -/
def fieldPositions : List Wire.Ty → List Wire.Val → ℕ → List ℕ
  | t :: ts, v :: vs, off =>
      let p := Wire.padLen off t.align
      (off + p) :: fieldPositions ts vs (off + p + (Wire.enc t v (off + p)).length)
  | _, _, _ => []

theorem positions_in_structStarts : ∀ (fs : List Wire.Ty) (vs : List Wire.Val) (off : ℕ) (S : Finset ℕ),
    Wire.wfFields fs = true → Wire.validFields fs vs = true → off ∈ S →
    List.Forall₂ (fun pos (O : Finset ℕ) => pos ∈ O) (fieldPositions fs vs off) (structStarts S (toLayouts fs))
  | [], [], _, _, _, _, _ => by simp [fieldPositions, toLayouts, structStarts]
  | [], _ :: _, _, _, _, hv, _ => by simp [Wire.validFields] at hv
  | _ :: _, [], _, _, _, hv, _ => by simp [Wire.validFields] at hv
  | t :: ts, v :: vs, off, S, hw, hv, hoff => by
      simp only [Wire.wfFields, Bool.and_eq_true] at hw
      simp only [Wire.validFields, Bool.and_eq_true] at hv
      have hal : 0 < t.align := by rcases Wire.align_cases t with ha | ha <;> omega
      simp only [fieldPositions, toLayouts, structStarts]
      have hpos : off + Wire.padLen off t.align ∈ S.image (padTo (toLayout t).align) := by
        rw [align_eq, ← padTo_eq _ _ hal]
        exact Finset.mem_image_of_mem _ hoff
      refine List.Forall₂.cons hpos ?_
      apply positions_in_structStarts ts vs _ _ hw.2 hv.2
      refine Finset.add_mem_add hpos ?_
      rw [← hasLen_iff t hw.1.1]
      exact Wire.enc_len t v _ hw.1.1 hv.1 (Wire.padLen_dvd off t.align hal)

/-- **Structures.** For every origin `b` of the base offset set, every field of a sealed structure is written at
    a position that belongs to the offset set handed out for that field. -/
theorem C08.struct_field_positions_in_offsets (fs : List Wire.Ty) (vs : List Wire.Val) (B : Finset ℕ) (b : ℕ)
    (hw : Wire.wfFields fs = true) (hv : Wire.validFields fs vs = true) (hb : b ∈ B) :
    List.Forall₂ (fun pos (O : Finset ℕ) => pos ∈ O)
      (fieldPositions fs vs (padTo 8 b)) (fieldStarts B (.struct (toLayouts fs))) := by
  simp only [fieldStarts]
  exact positions_in_structStarts fs vs _ _ hw hv (Finset.mem_image_of_mem _ hb)

/-- **Delimited structures**: the same after the 32-bit header. -/
theorem C08.delimited_field_positions_in_offsets (fs : List Wire.Ty) (vs : List Wire.Val) (B : Finset ℕ) (b x : ℕ)
    (hw : Wire.wfFields fs = true) (hv : Wire.validFields fs vs = true) (hb : b ∈ B) :
    List.Forall₂ (fun pos (O : Finset ℕ) => pos ∈ O)
      (fieldPositions fs vs (padTo 8 (b + 32))) (fieldStarts B (.delim (.struct (toLayouts fs)) x)) := by
  simp only [fieldStarts]
  exact positions_in_structStarts fs vs _ _ hw hv
    (Finset.mem_image_of_mem _ (Finset.add_mem_add hb (Finset.mem_singleton_self 32)))

/-- **Unions**: the selected variant is written right after the tag, at base + tag width — the one offset shared
    by all variants. -/
theorem C08.union_variant_position_in_offsets (fs : List Wire.Ty) (B : Finset ℕ) (b : ℕ)
    (h2 : 2 ≤ fs.length) (hn : fs.length ≤ 2 ^ 64) (hb : b ∈ B) :
    ∀ O ∈ fieldStarts B (.union (toLayouts fs)), padTo 8 b + Wire.tagBits fs.length ∈ O := by
  intro O hO
  simp only [fieldStarts, List.mem_map] at hO
  obtain ⟨_, _, rfl⟩ := hO
  rw [toLayouts_length, tag_eq fs.length h2 hn]
  exact Finset.add_mem_add (Finset.mem_image_of_mem _ hb) (Finset.mem_singleton_self _)

/-- Converse of `positions_in_structStarts` for field lists without delimited members: every element of the `j`-th
    offset set is the position of field `j` in the encoding of some valid value, for some origin of the set. -/
theorem positions_realised : ∀ (fs : List Wire.Ty) (S : Finset ℕ) (j : ℕ) (O : Finset ℕ) (pos : ℕ),
    Wire.wfFields fs = true → Wire.noDelims fs = true → (structStarts S (toLayouts fs))[j]? = some O → pos ∈ O →
    ∃ off ∈ S, ∃ vs, Wire.validFields fs vs = true ∧ (fieldPositions fs vs off)[j]? = some pos
  | [], _, j, _, _, _, _, hO, _ => by simp [toLayouts, structStarts] at hO
  | t :: ts, S, j, O, pos, hw, hn, hO, hpos => by
      simp only [Wire.wfFields, Bool.and_eq_true] at hw
      simp only [Wire.noDelims, Bool.and_eq_true] at hn
      have hal : 0 < t.align := by rcases Wire.align_cases t with ha | ha <;> omega
      simp only [toLayouts, structStarts] at hO
      cases j with
      | zero =>
        simp only [List.getElem?_cons_zero, Option.some.injEq] at hO
        subst hO
        obtain ⟨off, hoff, rfl⟩ := Finset.mem_image.mp hpos
        refine ⟨off, hoff, Wire.dflt t :: Wire.dfltFields ts, ?_, ?_⟩
        · simp only [Wire.validFields, Bool.and_eq_true]
          exact ⟨Wire.dflt_valid t hw.1.1, Wire.dfltFields_valid ts hw.2⟩
        · simp only [fieldPositions, List.getElem?_cons_zero, align_eq, padTo_eq _ _ hal]
      | succ j =>
        simp only [List.getElem?_cons_succ] at hO
        obtain ⟨off', hoff', vs, hvs, hp⟩ := positions_realised ts _ j O pos hw.2 hn.2 hO hpos
        obtain ⟨p, hp', L, hL, rfl⟩ := Finset.mem_add.mp hoff'
        obtain ⟨off, hoff, rfl⟩ := Finset.mem_image.mp hp'
        rw [align_eq, padTo_eq _ _ hal] at hp
        rw [← hasLen_iff t hw.1.1] at hL
        obtain ⟨v, hv, hl⟩ := Wire.enc_complete t L (off + Wire.padLen off t.align) hw.1.1 hn.1 hL
          (Wire.padLen_dvd off t.align hal)
        refine ⟨off, hoff, v :: vs, ?_, ?_⟩
        · simp only [Wire.validFields, Bool.and_eq_true]; exact ⟨hv, hvs⟩
        · simp only [fieldPositions, List.getElem?_cons_succ, hl]
          exact hp

/-- **Exactness, reverse direction.**  For a sealed structure without delimited members, every element of the offset
    set of field `j` is realised: some origin `b` of the base set and some valid value have field `j` written exactly
    there.  With `C08.struct_field_positions_in_offsets` the offset sets are exactly the sets of real positions. -/
theorem C08.struct_field_offsets_realised (fs : List Wire.Ty) (B : Finset ℕ) (j : ℕ) (O : Finset ℕ) (pos : ℕ)
    (hw : Wire.wfFields fs = true) (hn : Wire.noDelims fs = true)
    (hO : (fieldStarts B (.struct (toLayouts fs)))[j]? = some O) (hpos : pos ∈ O) :
    ∃ b ∈ B, ∃ vs, Wire.validFields fs vs = true ∧ (fieldPositions fs vs (padTo 8 b))[j]? = some pos := by
  simp only [fieldStarts] at hO
  obtain ⟨off, hoff, vs, hv, hp⟩ := positions_realised fs _ j O pos hw hn hO hpos
  obtain ⟨b, hb, rfl⟩ := Finset.mem_image.mp hoff
  exact ⟨b, hb, vs, hv, hp⟩

/-- the same behind the header of a delimited structure (whose fields contain no delimited member) -/
theorem C08.delimited_field_offsets_realised (fs : List Wire.Ty) (B : Finset ℕ) (x j : ℕ) (O : Finset ℕ) (pos : ℕ)
    (hw : Wire.wfFields fs = true) (hn : Wire.noDelims fs = true)
    (hO : (fieldStarts B (.delim (.struct (toLayouts fs)) x))[j]? = some O) (hpos : pos ∈ O) :
    ∃ b ∈ B, ∃ vs, Wire.validFields fs vs = true ∧ (fieldPositions fs vs (padTo 8 (b + 32)))[j]? = some pos := by
  simp only [fieldStarts] at hO
  obtain ⟨off, hoff, vs, hv, hp⟩ := positions_realised fs _ j O pos hw hn hO hpos
  obtain ⟨c, hc, rfl⟩ := Finset.mem_image.mp hoff
  obtain ⟨b, hb, d, hd, rfl⟩ := Finset.mem_add.mp hc
  rw [Finset.mem_singleton] at hd
  subst hd
  exact ⟨b, hb, vs, hv, hp⟩

/-! ### Non-vacuity -/
example : Wire.wfFields [.uint 3 .sat, .varr (.uint 8 .sat) 3, .bool] = true ∧
    Wire.validFields [.uint 3 .sat, .varr (.uint 8 .sat) 3, .bool] [.int 5, .arr [.int 1, .int 2], .bool true] = true := by
  decide
example : Wire.noDelims [.uint 3 .sat, .varr (.uint 8 .sat) 3, .bool] = true := by decide
