import Proofs.LayoutAlign
/-!
# C14 (layout half) — delimited types evolve without breaking their containers

`erase` forgets everything about a nested delimited type except its extent.  A container's bit length set
expression, alignment, extent and the offsets of all its fields are functions of the erased type only, so
replacing a nested delimited type `D` by any revision `D'` with the same extent (fields appended, removed or
changed — at any position: field, array element, union variant, nested delimited) leaves them unchanged.
-/
open scoped Pointwise
open Bls Layout

namespace C14

mutual
/-- forget the contents of every delimited member, keep its extent -/
def erase : Ty → Ty
  | .prim n => .prim n
  | .void n => .void n
  | .farr e cap => .farr (erase e) cap
  | .varr e cap => .varr (erase e) cap
  | .struct fs => .struct (eraseList fs)
  | .union fs => .union (eraseList fs)
  | .delim _ ext => .delim (.struct []) ext
def eraseList : List Ty → List Ty
  | [] => []
  | f :: fs => erase f :: eraseList fs
end

theorem eraseList_eq (fs : List Ty) : eraseList fs = fs.map erase := by
  induction fs with
  | nil => rfl
  | cons f fs ih => simp [eraseList, ih]

end C14
open C14

theorem maxAlign_congr (fs gs : List Ty) (h : fs.map Ty.align = gs.map Ty.align) : maxAlign fs = maxAlign gs := by
  induction fs generalizing gs with
  | nil => cases gs with
    | nil => rfl
    | cons g gs => simp at h
  | cons f fs ih =>
    cases gs with
    | nil => simp at h
    | cons g gs =>
      simp only [List.map_cons, List.cons.injEq] at h
      simp [maxAlign, h.1, ih gs h.2]

theorem aggStructFrom_congr (fs gs : List Ty) (h : fs.map (fun f => (f.align, f.bls)) = gs.map (fun f => (f.align, f.bls)))
    (acc : Op) : aggStructFrom acc fs = aggStructFrom acc gs := by
  induction fs generalizing gs acc with
  | nil => cases gs with
    | nil => rfl
    | cons g gs => simp at h
  | cons f fs ih =>
    cases gs with
    | nil => simp at h
    | cons g gs =>
      simp only [List.map_cons, List.cons.injEq, Prod.mk.injEq] at h
      simp only [aggStructFrom, h.1.1, h.1.2]
      exact ih gs h.2 _

theorem structOffsetsFrom_congr (fs gs : List Ty) (h : fs.map (fun f => (f.align, f.bls)) = gs.map (fun f => (f.align, f.bls)))
    (cur : Op) : structOffsetsFrom cur fs = structOffsetsFrom cur gs := by
  induction fs generalizing gs cur with
  | nil => cases gs with
    | nil => rfl
    | cons g gs => simp at h
  | cons f fs ih =>
    cases gs with
    | nil => simp at h
    | cons g gs =>
      simp only [List.map_cons, List.cons.injEq, Prod.mk.injEq] at h
      simp only [structOffsetsFrom, h.1.1, h.1.2]
      rw [ih gs h.2]

/-- The layout-relevant data of a list of field types. -/
def sigs (fs : List Ty) : List (ℕ × Op) := fs.map fun f => (f.align, f.bls)

theorem sigs_align (fs gs : List Ty) (h : sigs fs = sigs gs) : fs.map Ty.align = gs.map Ty.align := by
  have := congrArg (List.map Prod.fst) h
  simp only [sigs, List.map_map] at this
  exact this

theorem sigs_bls (fs gs : List Ty) (h : sigs fs = sigs gs) : blsList fs = blsList gs := by
  have := congrArg (List.map Prod.snd) h
  simp only [sigs, List.map_map] at this
  rw [blsList_eq, blsList_eq]
  exact this

theorem sigs_length (fs gs : List Ty) (h : sigs fs = sigs gs) : fs.length = gs.length := by
  have := congrArg List.length h
  simpa [sigs] using this

theorem struct_bls_congr (fs gs : List Ty) (h : sigs fs = sigs gs) : (Ty.struct fs).bls = (Ty.struct gs).bls := by
  simp only [Ty.bls, maxAlign_congr fs gs (sigs_align fs gs h)]
  congr 1
  cases fs with
  | nil => cases gs with
    | nil => rfl
    | cons g gs => simp [sigs] at h
  | cons f fs =>
    cases gs with
    | nil => simp [sigs] at h
    | cons g gs =>
      simp only [sigs, List.map_cons, List.cons.injEq, Prod.mk.injEq] at h
      simp only [aggStruct, h.1.2]
      exact aggStructFrom_congr fs gs h.2 _

theorem union_bls_congr (fs gs : List Ty) (h : sigs fs = sigs gs) : (Ty.union fs).bls = (Ty.union gs).bls := by
  have ha := maxAlign_congr fs gs (sigs_align fs gs h)
  have hb := sigs_bls fs gs h
  have hl := sigs_length fs gs h
  simp only [Ty.bls, ha]
  congr 1
  match fs, gs, hl with
  | [], [], _ => rfl
  | [f], [g], _ =>
    simp only [sigs, List.map_cons, List.cons.injEq, Prod.mk.injEq] at h
    simp [aggUnion, h.1.2]
  | f :: f2 :: fs, g :: g2 :: gs, hl' =>
    simp only [aggUnion, tagBits, ha, hb, hl']

/-- Erasing the contents of delimited members changes neither the bit length set expression nor the alignment. -/
theorem erase_sig : ∀ t : Ty, t.wf = true → (erase t).bls = t.bls ∧ (erase t).align = t.align := by
  intro t
  induction t using Ty.induct with
  | prim n => intro _; exact ⟨rfl, rfl⟩
  | void n => intro _; exact ⟨rfl, rfl⟩
  | farr e cap ih =>
    intro h; simp only [Ty.wf, Bool.and_eq_true] at h
    obtain ⟨h1, h2⟩ := ih h.1
    exact ⟨by simp [erase, Ty.bls, h1], by simp [erase, Ty.align, h2]⟩
  | varr e cap ih =>
    intro h; simp only [Ty.wf, Bool.and_eq_true] at h
    obtain ⟨h1, h2⟩ := ih h.1.1
    exact ⟨by simp [erase, Ty.bls, lenBits, h1, h2], by simp [erase, Ty.align, h2]⟩
  | struct fs ih =>
    intro h; simp only [Ty.wf, wfList_iff] at h
    have hs : sigs (eraseList fs) = sigs fs := by
      rw [eraseList_eq]; simp only [sigs, List.map_map]
      apply List.map_congr_left
      intro f hf
      obtain ⟨h1, h2⟩ := ih f hf (h f hf)
      simp [Function.comp, h1, h2]
    exact ⟨by simp only [erase]; exact struct_bls_congr _ _ hs,
      by simp only [erase, Ty.align, maxAlign_congr _ _ (sigs_align _ _ hs)]⟩
  | union fs ih =>
    intro h; simp only [Ty.wf, Bool.and_eq_true, wfList_iff] at h
    have hs : sigs (eraseList fs) = sigs fs := by
      rw [eraseList_eq]; simp only [sigs, List.map_map]
      apply List.map_congr_left
      intro f hf
      obtain ⟨h1, h2⟩ := ih f hf (h.1.1 f hf)
      simp [Function.comp, h1, h2]
    exact ⟨by simp only [erase]; exact union_bls_congr _ _ hs,
      by simp only [erase, Ty.align, maxAlign_congr _ _ (sigs_align _ _ hs)]⟩
  | delim inner ext _ =>
    intro h
    have ha : inner.align = 8 := by
      have := composite_align (.delim inner ext) h rfl
      simpa [Ty.align] using this
    exact ⟨by simp [erase, Ty.bls, hdrBits, Ty.align, maxAlign, ha], by simp [erase, Ty.align, maxAlign, ha]⟩

/-- **Container invariance.**  Two containers that agree after erasing the contents of their delimited members —
    in particular a container before and after replacing a nested delimited type by a revision with the same
    extent — have the same bit length set expression, alignment and extent. -/
theorem C14.container_layout_invariant (c c' : Ty) (hc : c.wf = true) (hc' : c'.wf = true)
    (h : erase c = erase c') : c.bls = c'.bls ∧ c.align = c'.align ∧ c.extent = c'.extent := by
  obtain ⟨h1, h2⟩ := erase_sig c hc
  obtain ⟨h1', h2'⟩ := erase_sig c' hc'
  have hb : c.bls = c'.bls := by rw [← h1, ← h1', h]
  refine ⟨hb, by rw [← h2, ← h2', h], ?_⟩
  cases c <;> cases c' <;> simp [erase] at h <;> simp [Ty.extent, hb]
  exact h

/-- … and every field of the container keeps its offset, for every base offset set. -/
theorem C14.field_offsets_invariant (base : Op) (fs fs' : List Ty)
    (hf : ∀ f ∈ fs, f.wf = true) (hf' : ∀ f ∈ fs', f.wf = true) (h : fs.map erase = fs'.map erase) :
    fieldOffsets base (.struct fs) = fieldOffsets base (.struct fs') ∧
    fieldOffsets base (.union fs) = fieldOffsets base (.union fs') ∧
    (∀ e, fieldOffsets base (.delim (.struct fs) e) = fieldOffsets base (.delim (.struct fs') e)) ∧
    (∀ e, fieldOffsets base (.delim (.union fs) e) = fieldOffsets base (.delim (.union fs') e)) := by
  have hs : sigs fs = sigs fs' := by
    have e1 : sigs fs = sigs (fs.map erase) := by
      simp only [sigs, List.map_map]
      apply List.map_congr_left
      intro f hf1
      obtain ⟨h1, h2⟩ := erase_sig f (hf f hf1)
      simp [Function.comp, h1, h2]
    have e2 : sigs fs' = sigs (fs'.map erase) := by
      simp only [sigs, List.map_map]
      apply List.map_congr_left
      intro f hf1
      obtain ⟨h1, h2⟩ := erase_sig f (hf' f hf1)
      simp [Function.comp, h1, h2]
    rw [e1, e2, h]
  have ha := maxAlign_congr fs fs' (sigs_align fs fs' hs)
  have hl := sigs_length fs fs' hs
  have hso : ∀ cur, structOffsetsFrom cur fs = structOffsetsFrom cur fs' := structOffsetsFrom_congr fs fs' hs
  have hm : ∀ (o : Op), (fs.map fun _ => o) = (fs'.map fun _ => o) := by
    intro o
    rw [List.map_const', List.map_const', hl]
  refine ⟨?_, ?_, ?_, ?_⟩
  · simp only [fieldOffsets, ha, hso]
  · simp only [fieldOffsets, ha, tagBits, hl, hm]
  · intro e; simp only [fieldOffsets, ha, hso, hdrBits, Ty.align]
  · intro e; simp only [fieldOffsets, ha, tagBits, hl, hm, hdrBits, Ty.align]

/-- A revision that appends (or removes) trailing fields and keeps the extent is such a replacement. -/
theorem C14.revision_same_erasure (fs extra : List Ty) (kind : Bool) (ext : ℕ) :
    erase (.delim (if kind then .struct (fs ++ extra) else .union (fs ++ extra)) ext)
      = erase (.delim (if kind then .struct fs else .union fs) ext) := by
  cases kind <;> rfl

/-! ### Non-vacuity: a container with a nested delimited type and a longer revision of it -/
example :
    let d  := Ty.delim (.struct [.prim 8]) 64
    let d' := Ty.delim (.struct [.prim 8, .prim 16, .varr (.prim 8) 3]) 64
    erase (.struct [.prim 3, .farr d 4, .prim 7]) = erase (.struct [.prim 3, .farr d' 4, .prim 7]) := by
  rfl
