import Proofs.LayoutAlign
import Props.C01
/-!
# C02 — every type's layout (lengths, alignment, extent, prefixes) is the Specification

`Layout.specLens` (Proofs/LayoutDen.lean) is the Specification's set of serialized bit lengths of a type, written
by recursion on the type; `Layout.Ty.bls` is the operator tree the library builds.  All theorems hold for every
type tree the constructors accept (`Ty.wf`): any nesting depth, any capacity, any number of fields.
-/
open scoped Pointwise
open Bls Layout

/-- The bit length set expression of every type denotes exactly the Specification's length set … -/
theorem C02.bls_is_spec (t : Ty) (h : t.wf = true) : den t.bls = specLens t := den_bls t h

/-- … and therefore the analytic answers of the library about a type's bit length set (C01) are answers about the
    Specification's set: residues for every divisor, minimum, maximum. -/
theorem C02.analytic_answers_exact (t : Ty) (h : t.wf = true) (d : ℕ) (hd : 1 ≤ d) :
    (t.bls.modulo d).toFinset = (specLens t).image (· % d) ∧
    (t.bls.min ∈ specLens t ∧ ∀ l ∈ specLens t, t.bls.min ≤ l) ∧
    (t.bls.max ∈ specLens t ∧ ∀ l ∈ specLens t, l ≤ t.bls.max) := by
  have hw := bls_wf t h
  rw [← den_bls t h]
  exact ⟨Bls.modulo_exact _ hw d hd, min_exact _ hw, max_exact _ hw⟩

/-- Every possible length is a multiple of the type's alignment requirement. -/
theorem C02.length_multiple_of_alignment (t : Ty) (h : t.wf = true) : ∀ l ∈ specLens t, t.align ∣ l :=
  align_dvd_len t h

/-- Composites are byte aligned and every one of their lengths is a whole number of bytes. -/
theorem C02.composite_byte_aligned (t : Ty) (h : t.wf = true) (hc : t.isComposite = true) :
    t.align = 8 ∧ ∀ l ∈ specLens t, 8 ∣ l := by
  have ha := composite_align t h hc
  exact ⟨ha, fun l hl => ha ▸ align_dvd_len t h l hl⟩

/-- `smallestStd x = some w`: `w` is the least of 8/16/32/64 whose unsigned range holds `x`. -/
theorem C02.smallestStd_is_least (x w : ℕ) (h : smallestStd x = some w) :
    w ∈ [8, 16, 32, 64] ∧ x < 2 ^ w ∧ ∀ w' ∈ [8, 16, 32, 64], x < 2 ^ w' → w ≤ w' := by
  unfold smallestStd at h
  split at h
  · cases h; refine ⟨by simp, by assumption, ?_⟩; intro w' hw' _; simp at hw'; omega
  · split at h
    · cases h; refine ⟨by simp, by assumption, ?_⟩
      intro w' hw' hx; simp at hw'; rcases hw' with rfl | rfl | rfl | rfl <;> omega
    · split at h
      · cases h; refine ⟨by simp, by assumption, ?_⟩
        intro w' hw' hx; simp at hw'; rcases hw' with rfl | rfl | rfl | rfl <;> omega
      · split at h
        · cases h; refine ⟨by simp, by assumption, ?_⟩
          intro w' hw' hx; simp at hw'; rcases hw' with rfl | rfl | rfl | rfl <;> omega
        · cases h

/-- The implicit array-length prefix is the smallest standard width that holds the capacity (never below the
    element alignment), and a capacity that needs more than 64 bits is rejected. -/
theorem C02.length_prefix (e : Ty) (cap : ℕ) :
    ((Ty.varr e cap).wf = true → ∃ w, smallestStd cap = some w ∧ lenBits e cap = max w e.align) ∧
    (2 ^ 64 ≤ cap → (Ty.varr e cap).wf = false) := by
  obtain ⟨h1, h2⟩ := stdWidth_spec cap
  constructor
  · intro h
    simp only [Ty.wf, Bool.and_eq_true, decide_eq_true_eq] at h
    cases hs : smallestStd cap with
    | none =>
      have := h2 hs
      have : stdWidth cap ≤ lenBits e cap := Nat.le_max_left _ _
      omega
    | some w => exact ⟨w, rfl, by unfold lenBits; rw [h1 w hs]⟩
  · intro hc
    have hs : smallestStd cap = none := by
      unfold smallestStd
      have h8 : ¬ cap < 2 ^ 8 := by omega
      have h16 : ¬ cap < 2 ^ 16 := by omega
      have h32 : ¬ cap < 2 ^ 32 := by omega
      have h64 : ¬ cap < 2 ^ 64 := by omega
      rw [if_neg h8, if_neg h16, if_neg h32, if_neg h64]
    have := h2 hs
    have hle : stdWidth cap ≤ lenBits e cap := Nat.le_max_left _ _
    simp only [Ty.wf, Bool.and_eq_false_iff, decide_eq_false_iff_not]
    right; omega

/-- The union tag is the smallest standard width that holds the largest variant index. -/
theorem C02.union_tag (fs : List Ty) (h : (Ty.union fs).wf = true) :
    2 ≤ fs.length ∧ ∃ w, smallestStd (fs.length - 1) = some w ∧ tagBits fs = w := by
  simp only [Ty.wf, Bool.and_eq_true, decide_eq_true_eq] at h
  obtain ⟨⟨_, hl⟩, ht⟩ := h
  refine ⟨hl, ?_⟩
  obtain ⟨h1, h2⟩ := stdWidth_spec (fs.length - 1)
  cases hs : smallestStd (fs.length - 1) with
  | none =>
    have := h2 hs
    have : stdWidth (fs.length - 1) ≤ tagBits fs := Nat.le_max_left _ _
    omega
  | some w =>
    refine ⟨w, rfl, ?_⟩
    have hw := (C02.smallestStd_is_least _ w hs).1
    have hm := maxAlign_le fs fun f _ => align_cases f
    unfold tagBits
    rw [h1 w hs]
    simp only [List.mem_cons, List.mem_nil_iff, or_false] at hw
    omega

/-- A sealed composite's extent is its longest representation. -/
theorem C02.sealed_extent (t : Ty) (h : t.wf = true) (hs : ∀ i e, t ≠ .delim i e) :
    t.extent ∈ specLens t ∧ ∀ l ∈ specLens t, l ≤ t.extent := by
  have hw := bls_wf t h
  have : t.extent = t.bls.max := by
    cases t <;> first | rfl | exact absurd rfl (hs _ _)
  rw [this, ← den_bls t h]
  exact max_exact _ hw

/-- A delimited composite's set is header + {0, 8, …, extent}, irrespective of its fields; its extent is the
    declared one; it is accepted exactly when the extent is a whole number of bytes not below the longest
    representation of the wrapped composite. -/
theorem C02.delimited (inner : Ty) (ext : ℕ) (hin : inner.wf = true)
    (hk : (∃ fs, inner = .struct fs) ∨ (∃ fs, inner = .union fs)) :
    ((Ty.delim inner ext).wf = true ↔ 8 ∣ ext ∧ inner.extent ≤ ext) ∧
    ((Ty.delim inner ext).wf = true →
      den (Ty.delim inner ext).bls = (Finset.range (ext / 8 + 1)).image (fun i => 32 + 8 * i) ∧
      (Ty.delim inner ext).extent = ext ∧ hdrBits inner = 32) := by
  have ha : inner.align = 8 := by
    rcases hk with ⟨fs, rfl⟩ | ⟨fs, rfl⟩ <;> simp [Ty.align, comp_align]
  have he : inner.extent = inner.bls.max := by
    rcases hk with ⟨fs, rfl⟩ | ⟨fs, rfl⟩ <;> rfl
  constructor
  · have hwf : (Ty.delim inner ext).wf =
        (inner.wf && true && decide (ext % inner.align = 0) && decide (inner.bls.max ≤ ext)) := by
      rcases hk with ⟨fs, rfl⟩ | ⟨fs, rfl⟩ <;> rfl
    rw [hwf, hin, ha, he]
    simp [Nat.dvd_iff_mod_eq_zero]
  · intro h
    refine ⟨?_, rfl, by simp [hdrBits, ha]⟩
    rw [den_bls _ h]; rfl

/-- None of the `assert`s in the array / union / delimited constructors can fire. -/
theorem C02.constructor_asserts (t : Ty) (h : t.wf = true) : ctorAssertsOk t = true := by
  have hw := bls_wf t h
  have hal : ∀ l ∈ den t.bls, t.align ∣ l := by rw [den_bls t h]; exact align_dvd_len t h
  cases t with
  | prim n => rfl
  | void n => rfl
  | struct fs => rfl
  | farr e cap =>
    simp only [ctorAssertsOk]
    exact (C01.aligned_exact _ hw _ (one_le_align e)).mpr hal
  | varr e cap =>
    simp only [ctorAssertsOk, Bool.and_eq_true, decide_eq_true_eq]
    refine ⟨?_, (C01.aligned_exact _ hw _ (one_le_align e)).mpr hal⟩
    obtain ⟨w, hs, hl⟩ := (C02.length_prefix e cap).1 h
    rw [hl]
    exact Nat.mod_eq_zero_of_dvd (align_dvd_std e w (C02.smallestStd_is_least _ w hs).1)
  | union fs =>
    obtain ⟨_, w, hs, ht⟩ := C02.union_tag fs h
    have := (C02.smallestStd_is_least _ w hs).1
    simp only [ctorAssertsOk, ht]
    simp only [List.mem_cons, List.mem_nil_iff, or_false] at this
    rcases this with rfl | rfl | rfl | rfl <;> decide
  | delim inner ext =>
    have ha : inner.align = 8 := by
      have := composite_align (.delim inner ext) h rfl
      simpa [Ty.align] using this
    have h' := h
    simp only [Ty.wf, Bool.and_eq_true, decide_eq_true_eq, ha] at h'
    obtain ⟨⟨⟨_, _⟩, h8⟩, hmx⟩ := h'
    have hal8 : ∀ l ∈ den (Ty.delim inner ext).bls, 8 ∣ l := by
      intro l hl; have := hal l hl; simpa [Ty.align, ha] using this
    have hmax : (Ty.delim inner ext).bls.max = hdrBits inner + 8 * (ext / 8) := by
      simp [Ty.bls, Op.max, sumMax, maxL, ha]
    simp only [ctorAssertsOk, Bool.and_eq_true, decide_eq_true_eq, ha]
    refine ⟨⟨⟨⟨⟨h8, h8⟩, hmx⟩, ?_⟩, ?_⟩, ?_⟩
    · exact (C01.aligned_exact _ hw 8 (by omega)).mpr hal8
    · exact (C01.aligned_exact _ hw 8 (by omega)).mpr hal8
    · rw [hmax]; omega

/-! ### Non-vacuity -/

example : (Ty.struct [.prim 3, .varr (.union [.prim 8, .farr (.prim 64) 2]) (2 ^ 32), .void 5]).wf = true := by
  decide +kernel
example : (Ty.delim (.union [.prim 8, .farr (.prim 64) 2]) 256).wf = true := by
  simp [Ty.wf, wfList, Ty.bls, aggUnion, blsList, Op.max, sumMax, maxMax, maxL, tagBits, maxAlign, Ty.align, padTo]
  decide +kernel
example : (Ty.varr (.prim 8) (2 ^ 64 - 1)).wf = true ∧ (Ty.varr (.prim 8) (2 ^ 64)).wf = false := by decide +kernel
