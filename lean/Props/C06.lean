import Proofs.WireInput
import Proofs.WireRev
/-! C06 — serialize/deserialize round trip and the wire format, on the model `Model/Wire.lean`
    (tied to pydsdl/_serdes.py by the correspondence suite `wire`). -/
open Wire

/-- A non-trivial instance used by the non-vacuity examples: nested sealed / delimited composites, a union,
    arrays, sub-byte fields, padding. -/
def C06.exT : Ty :=
  .struct [.uint 3 .trunc, .varr (.sint 5 .sat) 5, .void 2,
           .struct [.uint 16 .sat, .union [.bool, .float 16 .sat, .varr .utf8 4] .sealed] (.delimited 64),
           .farr (.struct [.bool] .sealed) 2] .sealed
def C06.exV : Val :=
  .recd [.int 5, .arr [.int (-16), .int 15], .unit,
         .recd [.int 65535, .var 2 (.arr [.int 0xC3, .int 0xA9])],
         .arr [.recd [.bool true], .recd [.bool false]]]

/-- Round trip with implicit truncation: decoding the encoding of a valid value, followed by anything, returns
    the value and stops exactly at the end of the encoding.  Holds at every offset that satisfies the type's
    alignment, hence for every nesting. -/
theorem C06.roundtrip (t : Ty) (v : Val) (o : Nat) (junk : List Bool)
    (hw : t.wf = true) (hv : valid t v = true) (ho : o % t.align = 0) :
    dec t ⟨o, enc t v o ++ junk⟩ = .ok (v, ⟨o + (enc t v o).length, junk⟩) :=
  dec_enc t v hw hv o junk ho

example : C06.exT.wf = true ∧ valid C06.exT C06.exV = true ∧ 16 % C06.exT.align = 0 := by decide

/-- The bit length of every encoding is an element of the type's length set, which is defined by recursion over
    the type (`HasLen`: concatenation with padding, repetition, ranged repetition, union; any whole number of
    bytes up to the extent behind the header of a delimited type) and not by the encoder. -/
theorem C06.length (t : Ty) (v : Val) (o : Nat)
    (hw : t.wf = true) (hv : valid t v = true) (ho : o % t.align = 0) :
    HasLen t (enc t v o).length :=
  enc_len t v o hw hv ho

example : C06.exT.wf = true ∧ valid C06.exT C06.exV = true := by decide

/-- Elements of the length set are multiples of the alignment and bounded by `maxLen` (= `bit_length_set.max`). -/
theorem C06.length_bounds (t : Ty) (L : Nat) (hw : t.wf = true) (h : HasLen t L) :
    L % t.align = 0 ∧ L ≤ t.maxLen :=
  ⟨hasLen_mod t L hw h, hasLen_le t L h⟩

example : HasLen (.varr (.uint 7 .sat) 3) (8 + 14) := by
  simp only [HasLen]
  exact ⟨2, 14, by decide, ⟨7, 7, rfl, ⟨7, 0, rfl, rfl, rfl⟩, rfl⟩, by decide⟩

/-- `serialize` then `deserialize` (same header flag, anything appended): whatever input `serialize` accepts —
    relaxed or explicit, out-of-range numbers, omitted fields — comes back as the canonical value it denotes. -/
theorem C06.serialize_roundtrip (t : Ty) (x : Inp) (hdr relaxed : Bool) (v : Val) (bits junk : List Bool)
    (hw : t.wf = true) (h : serialize t x hdr relaxed = .ok (v, bits)) :
    deserialize t (bits ++ junk) hdr = .ok v := by
  unfold serialize at h
  unfold deserialize
  split at h
  · cases h
  · rename_i hc
    simp only [hc, Bool.false_eq_true, if_false]
    have h' : ∃ x', coerce t x' = .ok v ∧ bits = enc (if hdr = true then t else t.inner) v 0 := by
      cases relaxed
      · simp only [Bool.false_eq_true, if_false, bind_ok] at h
        obtain ⟨x', _, w, hcoerce, hd⟩ := h
        cases hd
        exact ⟨x', hcoerce, rfl⟩
      · simp only [if_true, bind_ok] at h
        obtain ⟨x', _, w, hcoerce, hd⟩ := h
        cases hd
        exact ⟨x', hcoerce, rfl⟩
    obtain ⟨x', hcoerce, rfl⟩ := h'
    have hv := coerce_valid t x' v hw hcoerce
    cases hdr with
    | true =>
      simp only [if_true, bind_ok]
      exact ⟨_, dec_enc t v hw hv 0 junk (Nat.zero_mod _), rfl⟩
    | false =>
      simp only [Bool.false_eq_true, if_false, bind_ok]
      exact ⟨_, dec_enc t.inner v (wf_inner t hw) (by rw [valid_inner]; exact hv) 0 junk (Nat.zero_mod _), rfl⟩

example : ∃ v bits, serialize C06.exT (.dict [(0, .int 13), (3, .dict [(1, .dict [(1, .flt 0x3C00)])])]) false false
    = .ok (v, bits) := ⟨_, _, rfl⟩

/-- Saturated unsigned fields clamp to `[0, 2^n - 1]`. -/
theorem C06.sat_unsigned (n : Nat) (i : Int) :
    coerce (.uint n .sat) (.int i)
      = .ok (.int (if i < 0 then 0 else if (2:Int)^n ≤ i then (2:Int)^n - 1 else i)) := by
  simp [coerce, Inp.num?, castU_sat]

/-- Truncated unsigned fields wrap: the stored value is the representative of `i` modulo `2^n` in `[0, 2^n)`. -/
theorem C06.trunc_unsigned (n : Nat) (i : Int) :
    ∃ w, coerce (.uint n .trunc) (.int i) = .ok (.int w) ∧ 0 ≤ w ∧ w < (2:Int)^n ∧ (w - i) % (2:Int)^n = 0 :=
  ⟨castU n .trunc i, by simp [coerce, Inp.num?], (castU_trunc_range n i).1, (castU_trunc_range n i).2,
    castU_trunc_congr n i⟩

/-- Saturated signed fields clamp to `[-2^(n-1), 2^(n-1) - 1]`. -/
theorem C06.sat_signed (n : Nat) (i : Int) :
    coerce (.sint n .sat) (.int i)
      = .ok (.int (if i < -((2:Int)^(n-1)) then -((2:Int)^(n-1))
                   else if (2:Int)^(n-1) ≤ i then (2:Int)^(n-1) - 1 else i)) := by
  simp [coerce, Inp.num?, castS_sat]

/-- Truncated signed fields (not constructible through pydsdl's public constructors, which reject the
    combination, but handled by `_serdes.py`): low `n` bits read as two's complement. -/
theorem C06.trunc_signed (n : Nat) (i : Int) (hn : 1 ≤ n) :
    ∃ w, coerce (.sint n .trunc) (.int i) = .ok (.int w) ∧ -((2:Int)^(n-1)) ≤ w ∧ w < (2:Int)^(n-1) ∧
      (w - i) % (2:Int)^n = 0 :=
  ⟨castS n .trunc i, by simp [coerce, Inp.num?], (castS_range n .trunc i hn).1, (castS_range n .trunc i hn).2,
    castS_trunc_congr n i⟩

example : coerce (.uint 3 .sat) (.int 9) = .ok (.int 7) ∧ coerce (.uint 3 .trunc) (.int 9) = .ok (.int 1) ∧
    coerce (.sint 3 .sat) (.int (-9)) = .ok (.int (-4)) := ⟨rfl, rfl, rfl⟩

/-- Structure fields omitted from the input dict take the default value of their type … -/
theorem C06.defaults (fs : List Ty) (m : Mode) (kvs : List (Nat × Inp)) (vs : List Val) (j : Nat) (t : Ty)
    (h : coerce (.struct fs m) (.dict kvs) = .ok (.recd vs)) (hj : fs[j]? = some t)
    (hk : lookupKey j kvs = none) : vs[j]? = some (dflt t) := by
  simp only [coerce] at h
  split at h
  · simp only [bind_ok] at h
    obtain ⟨ws, hws, hd⟩ := h
    cases hd
    exact coerceFields_omitted fs 0 kvs vs hws j t hj (by simpa using hk)
  · cases h

/-- … and the default value of a type is exactly what an all-zero representation decodes to: zero / false /
    empty array / first variant with its own default / delimited object with an empty payload. -/
theorem C06.default_is_zero (t : Ty) (hw : t.wf = true) (o k : Nat) :
    ∃ o' k', dec t ⟨o, zeros k⟩ = .ok (dflt t, ⟨o', zeros k'⟩) :=
  dec_zeros t hw o k

theorem C06.default_valid (t : Ty) (hw : t.wf = true) : valid t (dflt t) = true := dflt_valid t hw

example : coerce (.struct [.uint 8 .sat, .void 3, .varr .byte 4] .sealed) (.dict [(0, .int 300)])
    = .ok (.recd [.int 255, .unit, .arr []]) := rfl
