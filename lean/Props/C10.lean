import Proofs.NamespaceC10
/-! C10 - namespace reading is complete, ordered and deterministic (model level).
    The enumeration of the file system is the list `files`; "enumeration order / hash seed" = a permutation of it;
    directory arguments are canonical paths (resolution of spellings and symlinks is `pathlib`: correspondence only). -/
open Ns

/-- The directory rule: accepted iff no directory lies inside another one and - when collisions are disallowed - no two
    distinct ones have the same lower-cased name. -/
theorem C10.dirs (dirs : List Path) (allow : Bool) :
    dirsCheck dirs allow = .ok () ↔
      ¬ ∃ a ∈ dirs, ∃ b ∈ dirs, a ≠ b ∧ (b <+: a ∨ (allow = false ∧ (dirName a).toLower = (dirName b).toLower)) := by
  rw [dirsCheck_ok_iff]
  constructor
  · rintro h ⟨a, ha, b, hb, hne, hbad⟩
    have := (dirPairBad_none_iff allow a b).mp (h a ha b hb)
    rcases this with e | ⟨hp, hn⟩
    · exact hne e
    · rcases hbad with hbad | ⟨hal, hl⟩
      · exact hp hbad
      · rcases hn with hn | hn
        · rw [hal] at hn; cases hn
        · exact hn hl
  · intro h a ha b hb
    rw [dirPairBad_none_iff]
    by_cases hab : a = b
    · exact Or.inl hab
    · refine Or.inr ⟨fun hp => h ⟨a, ha, b, hb, hab, Or.inl hp⟩, ?_⟩
      cases allow with
      | true => exact Or.inl rfl
      | false => exact Or.inr (fun hl => h ⟨a, ha, b, hb, hab, Or.inr ⟨rfl, hl⟩⟩)

/-- a rejected directory set is reported as NestedRootNamespaceError / RootNamespaceNameCollisionError -/
theorem C10.dirs_error_class (dirs : List Path) (allow : Bool) (e : Err) (h : dirsCheck dirs allow = .error e) :
    e = .nestedRoot ∨ e = .rootNameCollision := dirsCheck_error_invalid h

/-- the verdict depends on the set of (canonical) directories only: not on order or duplication of the arguments -/
theorem C10.dirs_invariant (d1 d2 : List Path) (allow : Bool) (h : ∀ x, x ∈ d1 ↔ x ∈ d2) :
    (dirsCheck d1 allow = .ok () ↔ dirsCheck d2 allow = .ok ()) := by
  rw [dirsCheck_ok_iff, dirsCheck_ok_iff]
  constructor
  · intro h1 a ha b hb; exact h1 a ((h a).mpr ha) b ((h b).mpr hb)
  · intro h1 a ha b hb; exact h1 a ((h a).mp ha) b ((h b).mp hb)

/-- `read_namespace` rejects the call before looking at any file when the directory rule is violated -/
theorem C10.dirs_rejected (files : List FileEntry) (root : Path) (lookups : List Path) (ac au : Bool) (e : Err)
    (h : dirsCheck (dedupPaths (lookups ++ [root])) ac = .error e) :
    readNamespace files root lookups ac au = ⟨.error e, []⟩ := by
  unfold readNamespace
  simp only [h]

/-- The target list is exactly the definition files under the root directory (none from lookup directories, `.dsdl`
    and `.uavcan`), each once, sorted by (name, -major, -minor). -/
theorem C10.targets_complete (files : List FileEntry) (root : Path) (ts : List Def) (h : collect true files [root] = .ok ts) :
    SortedByKey Def.key ts ∧
    ∃ ds, mapMDefs true (files.filter fun e => [root].contains e.dir && isDefinitionFile e.fname) = .ok ds ∧ ts.Perm ds := by
  unfold collect at h
  split at h
  · rename_i ds hds
    cases h
    exact ⟨sortDefs_sorted ds, ds, hds, sortDefs_perm ds⟩
  · cases h

/-- both result lists are sorted by full name, then major, then minor, newest first -/
theorem C10.sorted (files : List FileEntry) (root : Path) (lookups : List Path) (ac au : Bool)
    (d t : List Ty) (p : List Nat) (h : readNamespace files root lookups ac au = ⟨.ok (d, t), p⟩) :
    SortedByKey Ty.key d ∧ SortedByKey Ty.key t := by
  unfold readNamespace at h
  simp only at h
  split at h
  · cases h
  · split at h
    · cases h
    · cases h; exact ⟨List.Pairwise.nil, List.Pairwise.nil⟩
    · exact completeRead_sorted _ _ _ _ _ _ _ h

theorem C10.sorted_files (files targets : List FileEntry) (roots lookups : List Path) (au : Bool)
    (d t : List Ty) (p : List Nat) (h : readFiles files targets roots lookups au = ⟨.ok (d, t), p⟩) :
    SortedByKey Ty.key d ∧ SortedByKey Ty.key t := by
  unfold readFiles at h
  split at h
  · cases h
  · cases h; exact ⟨List.Pairwise.nil, List.Pairwise.nil⟩
  · simp only at h
    split at h
    · cases h
    · exact completeRead_sorted _ _ _ _ _ _ _ h

/-- with distinct keys a key-sorted list is determined by its set of elements: the result order is unique -/
theorem C10.sorted_unique (l1 l2 : List Def) (hp : l1.Perm l2) (hd : l2.Pairwise (fun a b => a.key ≠ b.key)) :
    sortDefs l1 = sortDefs l2 := sortDefs_perm_eq hp hd

/-- The result (types, error class, prints) does not depend on the order in which the file system enumerates the
    directories: for every permutation of the enumeration. -/
theorem C10.perm_invariant (files files' : List FileEntry) (root : Path) (lookups : List Path) (ac au : Bool)
    (hp : files'.Perm files) (hd : DistinctFileKeys files) :
    readNamespace files' root lookups ac au = readNamespace files root lookups ac au := by
  unfold readNamespace
  simp only [collect_perm [root] hp hd]
  split
  · rfl
  · split
    · rfl
    · rfl
    · rw [completeRead_perm au _ _ hp hd]

theorem C10.perm_invariant_files (files files' targets : List FileEntry) (roots lookups : List Path) (au : Bool)
    (hp : files'.Perm files) (hd : DistinctFileKeys files) :
    readFiles files' targets roots lookups au = readFiles files targets roots lookups au := by
  unfold readFiles
  split
  · rfl
  · rfl
  · simp only
    split
    · rfl
    · rw [completeRead_perm au _ _ hp hd]

/-- ... and for `read_files` not on the order in which the targets are listed -/
theorem C10.target_order_invariant (files targets targets' : List FileEntry) (roots lookups : List Path) (au : Bool)
    (hp : targets'.Perm targets) (hd : ∀ ds, mapMDefs true targets = .ok ds → ds.Pairwise (fun a b => a.key ≠ b.key))
    (hdirs : ∀ ds ds', mapMDefs true targets = .ok ds → mapMDefs true targets' = .ok ds' →
      dedupPaths (lookups ++ ds'.map Def.root ++ roots) = dedupPaths (lookups ++ ds.map Def.root ++ roots)) :
    readFiles files targets' roots lookups au = readFiles files targets roots lookups au := by
  unfold readFiles
  have hrel := mapMDefs_perm (tgt := true) hp
  cases h1 : mapMDefs true targets' with
  | error x =>
    cases h2 : mapMDefs true targets with
    | error y => rw [mapMDefs_error h1, mapMDefs_error h2]
    | ok ds => rw [h1, h2] at hrel; simp [ResRel] at hrel
  | ok ds1 =>
    cases h2 : mapMDefs true targets with
    | error y => rw [h1, h2] at hrel; simp [ResRel] at hrel
    | ok ds2 =>
      rw [h1, h2] at hrel
      simp only [ResRel] at hrel
      cases ds1 with
      | nil =>
        have : ds2 = [] := by simpa using hrel.symm.eq_nil
        subst this; rfl
      | cons a r =>
        cases ds2 with
        | nil => simp at hrel
        | cons b r2 =>
          simp only
          rw [hdirs _ _ h2 h1, sortDefs_perm_eq hrel (hd _ h2)]

/-- Full statements whose remaining part (one composite per target with the target's key; direct = targets,
    transitive = dependency closure minus targets, disjoint) is validated by the correspondence only. -/
def C10.complete_statement : Prop :=
  ∀ (files : List FileEntry) (root : Path) (lookups : List Path) (ac au : Bool) (d t : List Ty) (p : List Nat) (ts : List Def),
    DistinctFileKeys files → collect true files [root] = .ok ts →
    readNamespace files root lookups ac au = ⟨.ok (d, t), p⟩ → d.map Ty.key = ts.map Def.key

def C10.closure_statement : Prop :=
  ∀ (files targets : List FileEntry) (roots lookups : List Path) (au : Bool) (d t : List Ty) (p : List Nat) (ts : List Def),
    DistinctFileKeys files → mapMDefs true targets = .ok ts → ts.Pairwise (fun a b => a.key ≠ b.key) →
    readFiles files targets roots lookups au = ⟨.ok (d, t), p⟩ →
      d.map Ty.key = (sortDefs ts).map Def.key ∧ (∀ x ∈ t, x.key ∉ d.map Ty.key) ∧
      (∀ x ∈ d ++ t, ∀ n ∈ x.nested, ∃ y ∈ d ++ t, y.key = n.key)

section NonVacuity
/- `decide` cannot unfold the well-founded recursions (`List.mergeSort`, `readObj`): successful reads are exhibited by
   the compiled model in every correspondence run; here the decidable hypotheses are instantiated. -/
private def S : Text := ⟨false, ⟨[.prim 8], .sealed⟩, none⟩
private def fs : List FileEntry :=
  [⟨["w", "ns"], [], "B.1.0.dsdl", S⟩, ⟨["w", "ns"], ["x"], "A.1.0.dsdl", ⟨false, ⟨[.ref ⟨"ns.B", 1, 0⟩], .sealed⟩, none⟩⟩,
   ⟨["w", "ns"], [], "B.1.1.uavcan", S⟩, ⟨["w", "other"], [], "C.1.0.dsdl", S⟩, ⟨["w", "ns"], [], "README.txt", S⟩]
example : DistinctFileKeys fs := by unfold DistinctFileKeys; decide +kernel
example : keysOf fs = [("ns.B", 1, 0), ("ns.x.A", 1, 0), ("ns.B", 1, 1), ("other.C", 1, 0)] := by decide +kernel
example : readNamespace fs.reverse ["w", "ns"] [["w", "other"]] true false = readNamespace fs ["w", "ns"] [["w", "other"]] true false :=
  C10.perm_invariant fs fs.reverse _ _ _ _ (List.reverse_perm fs) (by unfold DistinctFileKeys; decide +kernel)
example : dirsCheck [["w", "ns"], ["w", "ns", "x"]] true = .error .nestedRoot := by decide +kernel
example : dirsCheck [["w", "ns"], ["v", "NS"]] false = .error .rootNameCollision ∧ dirsCheck [["w", "ns"], ["v", "NS"]] true = .ok () := by
  decide +kernel
end NonVacuity
