import Proofs.NamespaceBook
import Proofs.NamespaceExample
/-! C10 - namespace reading is complete, ordered and deterministic (model level).
    The enumeration of the file system is the list `files`; "enumeration order / hash seed" = a permutation of it;
    directory arguments are canonical paths (resolution of spellings and symlinks is `pathlib`: correspondence only).
    Completeness and closure are proved through the invariant of the target loop (`Ns.BInv`, Proofs/NamespaceBook.lean):
    `C10.complete`, `C10.none_missing`, `C10.complete_paths` (one composite per definition file under the root, built from
    that file), `C10.closure`, `C10.closure_exact` (direct = the targets, transitive = exactly the rest of the nesting
    closure, disjoint), `C10.same_types` (same types as `read_namespace`). -/
open Ns

/-- The directory rule: accepted iff no directory lies inside another one and - when collisions are disallowed - no two
    distinct ones have the same lower-cased name. -/
theorem C10.dirs (dirs : List Path) (allow : Bool) :
    dirsCheck dirs allow = .ok () ↔
      ¬ ∃ a ∈ dirs, ∃ b ∈ dirs, a ≠ b ∧ (b <+: a ∨ (allow = false ∧ (dirName a).toLower = (dirName b).toLower)) := by
  rw [dirsCheck_ok_iff]
  constructor
  · rintro h ⟨a, ha, b, hb, hne, hbad⟩
    have := (dirPairBad_none_iff allow a b).mp (h a ha b hb)
    rcases this with e | ⟨hp, hn⟩
    · exact hne e
    · rcases hbad with hbad | ⟨hal, hl⟩
      · exact hp hbad
      · rcases hn with hn | hn
        · rw [hal] at hn; cases hn
        · exact hn hl
  · intro h a ha b hb
    rw [dirPairBad_none_iff]
    by_cases hab : a = b
    · exact Or.inl hab
    · refine Or.inr ⟨fun hp => h ⟨a, ha, b, hb, hab, Or.inl hp⟩, ?_⟩
      cases allow with
      | true => exact Or.inl rfl
      | false => exact Or.inr (fun hl => h ⟨a, ha, b, hb, hab, Or.inr ⟨rfl, hl⟩⟩)

/-- a rejected directory set is reported as NestedRootNamespaceError / RootNamespaceNameCollisionError -/
theorem C10.dirs_error_class (dirs : List Path) (allow : Bool) (e : Err) (h : dirsCheck dirs allow = .error e) :
    e = .nestedRoot ∨ e = .rootNameCollision := dirsCheck_error_invalid h

/-- the verdict depends on the set of (canonical) directories only: not on order or duplication of the arguments -/
theorem C10.dirs_invariant (d1 d2 : List Path) (allow : Bool) (h : ∀ x, x ∈ d1 ↔ x ∈ d2) :
    (dirsCheck d1 allow = .ok () ↔ dirsCheck d2 allow = .ok ()) := by
  rw [dirsCheck_ok_iff, dirsCheck_ok_iff]
  constructor
  · intro h1 a ha b hb; exact h1 a ((h a).mpr ha) b ((h b).mpr hb)
  · intro h1 a ha b hb; exact h1 a ((h a).mp ha) b ((h b).mp hb)

/-- `read_namespace` rejects the call before looking at any file when the directory rule is violated -/
theorem C10.dirs_rejected (files : List FileEntry) (root : Path) (lookups : List Path) (ac au : Bool) (e : Err)
    (h : dirsCheck (dedupPaths (lookups ++ [root])) ac = .error e) :
    readNamespace files root lookups ac au = ⟨.error e, []⟩ := by
  unfold readNamespace
  simp only [h]

/-- The target list is exactly the definition files under the root directory (none from lookup directories, `.dsdl`
    and `.uavcan`), each once, sorted by (name, -major, -minor). -/
theorem C10.targets_complete (files : List FileEntry) (root : Path) (ts : List Def) (h : collect true files [root] = .ok ts) :
    SortedByKey Def.key ts ∧
    ∃ ds, mapMDefs true (files.filter fun e => [root].contains e.dir && isDefinitionFile e.fname) = .ok ds ∧ ts.Perm ds := by
  unfold collect at h
  split at h
  · rename_i ds hds
    cases h
    exact ⟨sortDefs_sorted ds, ds, hds, sortDefs_perm ds⟩
  · cases h

/-- both result lists are sorted by full name, then major, then minor, newest first -/
theorem C10.sorted (files : List FileEntry) (root : Path) (lookups : List Path) (ac au : Bool)
    (d t : List Ty) (p : List Nat) (h : readNamespace files root lookups ac au = ⟨.ok (d, t), p⟩) :
    SortedByKey Ty.key d ∧ SortedByKey Ty.key t := by
  unfold readNamespace at h
  simp only at h
  split at h
  · cases h
  · split at h
    · cases h
    · cases h; exact ⟨List.Pairwise.nil, List.Pairwise.nil⟩
    · exact completeRead_sorted _ _ _ _ _ _ _ h

theorem C10.sorted_files (files targets : List FileEntry) (roots lookups : List Path) (au : Bool)
    (d t : List Ty) (p : List Nat) (h : readFiles files targets roots lookups au = ⟨.ok (d, t), p⟩) :
    SortedByKey Ty.key d ∧ SortedByKey Ty.key t := by
  unfold readFiles at h
  split at h
  · cases h
  · cases h; exact ⟨List.Pairwise.nil, List.Pairwise.nil⟩
  · simp only at h
    split at h
    · cases h
    · exact completeRead_sorted _ _ _ _ _ _ _ h

/-- with distinct keys a key-sorted list is determined by its set of elements: the result order is unique -/
theorem C10.sorted_unique (l1 l2 : List Def) (hp : l1.Perm l2) (hd : l2.Pairwise (fun a b => a.key ≠ b.key)) :
    sortDefs l1 = sortDefs l2 := sortDefs_perm_eq hp hd

/-- The result (types, error class, prints) does not depend on the order in which the file system enumerates the
    directories: for every permutation of the enumeration. -/
theorem C10.perm_invariant (files files' : List FileEntry) (root : Path) (lookups : List Path) (ac au : Bool)
    (hp : files'.Perm files) (hd : DistinctFileKeys files) :
    readNamespace files' root lookups ac au = readNamespace files root lookups ac au := by
  unfold readNamespace
  simp only [collect_perm [root] hp hd]
  split
  · rfl
  · split
    · rfl
    · rfl
    · rw [completeRead_perm au _ _ hp hd]

theorem C10.perm_invariant_files (files files' targets : List FileEntry) (roots lookups : List Path) (au : Bool)
    (hp : files'.Perm files) (hd : DistinctFileKeys files) :
    readFiles files' targets roots lookups au = readFiles files targets roots lookups au := by
  unfold readFiles
  split
  · rfl
  · rfl
  · simp only
    split
    · rfl
    · rw [completeRead_perm au _ _ hp hd]

/-- ... and for `read_files` not on the order in which the targets are listed -/
theorem C10.target_order_invariant (files targets targets' : List FileEntry) (roots lookups : List Path) (au : Bool)
    (hp : targets'.Perm targets) (hd : ∀ ds, mapMDefs true targets = .ok ds → ds.Pairwise (fun a b => a.key ≠ b.key))
    (hdirs : ∀ ds ds', mapMDefs true targets = .ok ds → mapMDefs true targets' = .ok ds' →
      dedupPaths (lookups ++ ds'.map Def.root ++ roots) = dedupPaths (lookups ++ ds.map Def.root ++ roots)) :
    readFiles files targets' roots lookups au = readFiles files targets roots lookups au := by
  unfold readFiles
  have hrel := mapMDefs_perm (tgt := true) hp
  cases h1 : mapMDefs true targets' with
  | error x =>
    cases h2 : mapMDefs true targets with
    | error y => rw [mapMDefs_error h1, mapMDefs_error h2]
    | ok ds => rw [h1, h2] at hrel; simp [ResRel] at hrel
  | ok ds1 =>
    cases h2 : mapMDefs true targets with
    | error y => rw [h1, h2] at hrel; simp [ResRel] at hrel
    | ok ds2 =>
      rw [h1, h2] at hrel
      simp only [ResRel] at hrel
      cases ds1 with
      | nil =>
        have : ds2 = [] := by simpa using hrel.symm.eq_nil
        subst this; rfl
      | cons a r =>
        cases ds2 with
        | nil => simp at hrel
        | cons b r2 =>
          simp only
          rw [hdirs _ _ h2 h1, sortDefs_perm_eq hrel (hd _ h2)]

/-- `read_namespace` returns exactly one composite per definition file under the root directory, carrying that file's
    (name, version), in the order of the (sorted) target list - none missing, none duplicated, none from a lookup
    directory.  (No hypothesis on the enumeration is needed: two target files with the same (name, version) - finding F9 -
    are answered `Err.dupKey` by the model.) -/
theorem C10.complete (files : List FileEntry) (root : Path) (lookups : List Path) (ac au : Bool) (d t : List Ty) (p : List Nat)
    (ts : List Def) (hts : collect true files [root] = .ok ts)
    (h : readNamespace files root lookups ac au = ⟨.ok (d, t), p⟩) : d.map Ty.key = ts.map Def.key := by
  rcases readNamespace_inv hts h with ⟨rfl, rfl, _⟩ | ⟨L, hL, hc, hk, hu⟩
  · rfl
  · rw [completeRead_direct_keys hL (hypP_of_dirs hk fun x hx => (hu x hx).fromDirs) hc,
      sortDefs_keys_of_sorted (collect_sorted hts)]

/-- the statement as it was recorded -/
theorem C10.complete_statement :
    ∀ (files : List FileEntry) (root : Path) (lookups : List Path) (ac au : Bool) (d t : List Ty) (p : List Nat) (ts : List Def),
      DistinctFileKeys files → collect true files [root] = .ok ts →
      readNamespace files root lookups ac au = ⟨.ok (d, t), p⟩ → d.map Ty.key = ts.map Def.key :=
  fun files root lookups ac au d t p ts _ hts h => C10.complete files root lookups ac au d t p ts hts h

/-- ... and every definition file under the root has its composite in the result -/
theorem C10.none_missing (files : List FileEntry) (root : Path) (lookups : List Path) (ac au : Bool) (d t : List Ty) (p : List Nat)
    (h : readNamespace files root lookups ac au = ⟨.ok (d, t), p⟩) :
    ∀ e ∈ files, e.dir = root → isDefinitionFile e.fname = true →
      ∃ t0, mkDef true e = .ok t0 ∧ ∃ ty ∈ d, ty.key = t0.key := by
  intro e he hdir hdef
  obtain ⟨ts, hts⟩ := readNamespace_ok_collect h
  have hk := C10.complete files root lookups ac au d t p ts hts h
  unfold collect at hts
  split at hts
  · rename_i ds hds
    cases hts
    obtain ⟨x, hx, hm⟩ := mapMDefs_complete hds e (List.mem_filter.mpr ⟨he, by simp [hdir, hdef]⟩)
    have : x.key ∈ d.map Ty.key := by rw [hk]; exact List.mem_map.mpr ⟨x, mem_sortDefs'.mpr hx, rfl⟩
    obtain ⟨ty, hty, e'⟩ := List.mem_map.mp this
    exact ⟨x, hm, ty, hty, e'⟩
  · cases hts

/-- Each returned composite is built from its file: path, root directory (= the root argument) and port-ID are the
    file's, the type is the stand-alone type of the file's definition.  (`DistinctFileKeys`: two files with the same
    (name, version) are finding F9.) -/
theorem C10.complete_paths (files : List FileEntry) (root : Path) (lookups : List Path) (ac au : Bool) (d t : List Ty) (p : List Nat)
    (hd : DistinctFileKeys files) (h : readNamespace files root lookups ac au = ⟨.ok (d, t), p⟩) :
    ∀ ty ∈ d, ty.info.root = root ∧ ∃ e ∈ files, e.dir = root ∧ isDefinitionFile e.fname = true ∧
      ty.info.path = e.dir ++ e.sub ++ [e.fname] ∧ ∃ t0, mkDef true e = .ok t0 ∧ ty.key = t0.key ∧ ty.info.fpid = t0.fpid := by
  obtain ⟨ts, hts⟩ := readNamespace_ok_collect h
  rcases readNamespace_inv hts h with ⟨rfl, rfl, _⟩ | ⟨L, hL, hc, hk, hu⟩
  · intro ty hty; cases hty
  · intro ty hty
    obtain ⟨t0, ht0, hk, hp, hr, hf, _⟩ := completeRead_direct_paths hL (hyp_of_files hd hk hu) hc ty hty
    obtain ⟨e, he, hdir, hdef, hm⟩ := collect_mem hts t0 ht0
    simp only [List.mem_singleton] at hdir
    obtain ⟨m1, m2, _⟩ := mkDef_path hm
    exact ⟨by rw [hr, m2, hdir], e, he, hdir, hdef, by rw [hp, m1], t0, hm, hk, hf⟩

/-- `read_files`: `direct` is one composite per target file with the target's (name, version), in sorted order; no two
    returned types have the same (name, version), so `transitive` is disjoint from `direct`; and `direct ∪ transitive` is
    closed under nesting: the whole dependency closure of the targets is returned. -/
theorem C10.closure (files targets : List FileEntry) (roots lookups : List Path) (au : Bool) (d t : List Ty) (p : List Nat)
    (ts : List Def) (hts : mapMDefs true targets = .ok ts)
    (h : readFiles files targets roots lookups au = ⟨.ok (d, t), p⟩) :
    d.map Ty.key = (sortDefs ts).map Def.key ∧ (∀ x ∈ t, x.key ∉ d.map Ty.key) ∧
      (t ++ d).Pairwise (fun a b => a.key ≠ b.key) ∧
      (∀ x ∈ d ++ t, ∀ n ∈ x.nested, ∃ y ∈ d ++ t, y.key = n.key) := by
  rcases readFiles_inv hts h with ⟨rfl, rfl, rfl⟩ | ⟨L, hL, hc, hk, hu, _⟩
  · refine ⟨by simp [sortDefs], ?_, List.Pairwise.nil, ?_⟩
    · intro x hx; cases hx
    · intro x hx; cases hx
  · have H := hypP_of_dirs hk hu
    refine ⟨?_, completeRead_disjoint hL H hc, completeRead_distinct hL H hc, completeRead_closed hL H hc⟩
    rw [completeRead_direct_keys hL H hc, sortDefs_keys_of_sorted (sortDefs_sorted ts)]

/-- the statement as it was recorded -/
theorem C10.closure_statement :
    ∀ (files targets : List FileEntry) (roots lookups : List Path) (au : Bool) (d t : List Ty) (p : List Nat) (ts : List Def),
      DistinctFileKeys files → mapMDefs true targets = .ok ts → ts.Pairwise (fun a b => a.key ≠ b.key) →
      readFiles files targets roots lookups au = ⟨.ok (d, t), p⟩ →
        d.map Ty.key = (sortDefs ts).map Def.key ∧ (∀ x ∈ t, x.key ∉ d.map Ty.key) ∧
        (∀ x ∈ d ++ t, ∀ n ∈ x.nested, ∃ y ∈ d ++ t, y.key = n.key) :=
  fun files targets roots lookups au d t p ts _ hts _ h =>
    have := C10.closure files targets roots lookups au d t p ts hts h
    ⟨this.1, this.2.1, this.2.2.2⟩

/-- the same closure facts for `read_namespace` (whose caller keeps `direct`) -/
theorem C10.closure_namespace (files : List FileEntry) (root : Path) (lookups : List Path) (ac au : Bool) (d t : List Ty)
    (p : List Nat) (h : readNamespace files root lookups ac au = ⟨.ok (d, t), p⟩) :
    (∀ x ∈ t, x.key ∉ d.map Ty.key) ∧ (t ++ d).Pairwise (fun a b => a.key ≠ b.key) ∧
      (∀ x ∈ d ++ t, ∀ n ∈ x.nested, ∃ y ∈ d ++ t, y.key = n.key) := by
  obtain ⟨ts, hts⟩ := readNamespace_ok_collect h
  rcases readNamespace_inv hts h with ⟨_, rfl, rfl⟩ | ⟨L, hL, hc, hk, hu⟩
  · refine ⟨?_, List.Pairwise.nil, ?_⟩
    · intro x hx; cases hx
    · intro x hx; cases hx
  · have H := hypP_of_dirs hk fun x hx => (hu x hx).fromDirs
    exact ⟨completeRead_disjoint hL H hc, completeRead_distinct hL H hc, completeRead_closed hL H hc⟩

/-- A direct type of `read_files` is built from its target file: path, root directory, port-ID, and it is the stand-alone
    type of the target's definition.  Here the targets must be files of the enumeration (`hsub`) with pairwise distinct
    (name, version) in the enumeration (F9). -/
theorem C10.closure_paths (files targets : List FileEntry) (roots lookups : List Path) (au : Bool) (d t : List Ty) (p : List Nat)
    (ts : List Def) (hd : DistinctFileKeys files) (hsub : ∀ e ∈ targets, e ∈ files) (hts : mapMDefs true targets = .ok ts)
    (h : readFiles files targets roots lookups au = ⟨.ok (d, t), p⟩) :
    ∀ ty ∈ d, ∃ e ∈ targets, ∃ t0, mkDef true e = .ok t0 ∧ ty.key = t0.key ∧
      ty.info.path = e.dir ++ e.sub ++ [e.fname] ∧ ty.info.root = e.dir ∧ ty.info.fpid = t0.fpid := by
  rcases readFiles_inv hts h with ⟨rfl, rfl, rfl⟩ | ⟨L, hL, hc, hk, _, hu⟩
  · intro ty hty; cases hty
  · intro ty hty
    obtain ⟨t0, ht0, hk, hp, hr, hf, _⟩ := completeRead_direct_paths hL (hyp_of_files hd hk (hu hsub)) hc ty hty
    obtain ⟨e, he, hm⟩ := mapMDefs_mem hts t0 (mem_sortDefs'.mp ht0)
    obtain ⟨m1, m2, _⟩ := mkDef_path hm
    exact ⟨e, he, t0, hm, hk, by rw [hp, m1], by rw [hr, m2], hf⟩

/-- "Exactly the rest of the dependency closure": a type is returned by `read_files` (as direct or transitive) iff it is a
    direct type or nested, at some depth, in one (`NestReach`) - nothing is missing and nothing else is returned.
    (`DistinctFileKeys`, `hsub`: (name, version) identifies a file of the enumeration and the targets are among them; F9.) -/
theorem C10.closure_exact (files targets : List FileEntry) (roots lookups : List Path) (au : Bool) (d t : List Ty) (p : List Nat)
    (ts : List Def) (hd : DistinctFileKeys files) (hsub : ∀ e ∈ targets, e ∈ files) (hts : mapMDefs true targets = .ok ts)
    (h : readFiles files targets roots lookups au = ⟨.ok (d, t), p⟩) : ∀ x, x ∈ d ++ t ↔ NestReach d x := by
  rcases readFiles_inv hts h with ⟨_, rfl, rfl⟩ | ⟨L, hL, hc, hk, _, hu⟩
  · intro x
    constructor
    · intro hx; cases hx
    · intro hx
      induction hx with
      | root hy => cases hy
      | step _ _ ih => cases ih
  · exact completeRead_exact hL (hyp_of_files hd hk (hu hsub)) hc

/-- the same for `read_namespace` -/
theorem C10.closure_exact_namespace (files : List FileEntry) (root : Path) (lookups : List Path) (ac au : Bool) (d t : List Ty)
    (p : List Nat) (hd : DistinctFileKeys files) (h : readNamespace files root lookups ac au = ⟨.ok (d, t), p⟩) :
    ∀ x, x ∈ d ++ t ↔ NestReach d x := by
  obtain ⟨ts, hts⟩ := readNamespace_ok_collect h
  rcases readNamespace_inv hts h with ⟨_, rfl, rfl⟩ | ⟨L, hL, hc, hk, hu⟩
  · intro x
    constructor
    · intro hx; cases hx
    · intro hx
      induction hx with
      | root hy => cases hy
      | step _ _ ih => cases ih
  · exact completeRead_exact hL (hyp_of_files hd hk hu) hc

/-- The types `read_files` returns are equal to those `read_namespace` yields for the same files: whenever the two calls
    look at the same set of directories, two returned types (direct or transitive, either call) with the same
    (name, version) are equal. -/
theorem C10.same_types (files targets : List FileEntry) (root : Path) (roots lookups lookups' : List Path) (ac au : Bool)
    (d1 t1 d2 t2 : List Ty) (p1 p2 : List Nat) (ts : List Def)
    (hd : DistinctFileKeys files) (hsub : ∀ e ∈ targets, e ∈ files) (hts : mapMDefs true targets = .ok ts)
    (hdirs : ∀ q, q ∈ dedupPaths (lookups ++ [root]) ↔ q ∈ dedupPaths (lookups' ++ ts.map Def.root ++ roots))
    (h1 : readNamespace files root lookups ac au = ⟨.ok (d1, t1), p1⟩)
    (h2 : readFiles files targets roots lookups' au = ⟨.ok (d2, t2), p2⟩) :
    ∀ x ∈ d1 ++ t1, ∀ y ∈ d2 ++ t2, x.key = y.key → x = y := by
  obtain ⟨ns, hns⟩ := readNamespace_ok_collect h1
  rcases readNamespace_inv hns h1 with ⟨_, rfl, rfl⟩ | ⟨L, hL, hc1, hk1, hu1⟩
  · intro x hx; cases hx
  · rcases readFiles_inv hts h2 with ⟨_, rfl, rfl⟩ | ⟨L', hL', hc2, hk2, hu2', hu2⟩
    · intro x _ y hy; cases hy
    · have hLL : L' = L := by
        rw [collect_congr_dirs false files hdirs, hL'] at hL
        exact Except.ok.inj hL
      subst hLL
      intro x hx y hy hk
      have g1 := (completeRead_good hL (hypP_of_dirs hk1 fun x hx => (hu1 x hx).fromDirs) hc1 x hx).mono
        (ts' := ns ++ sortDefs ts) (fun _ h => List.mem_append_left _ h)
      have g2 := (completeRead_good hL' (hypP_of_dirs hk2 hu2') hc2 y hy).mono
        (ts' := ns ++ sortDefs ts) (fun _ h => List.mem_append_right _ h)
      refine tyUniq (hyp_of_files hd hk1 ?_) g1 g2 hk
      intro a ha
      rcases ha with ha | ha
      · exact hu1 a (Or.inl ha)
      · rcases List.mem_append.mp ha with ha | ha
        · exact hu1 a (Or.inr ha)
        · obtain ⟨e, he, tg, hdir, hm⟩ := hu2 hsub a (Or.inr ha)
          exact ⟨e, he, tg, (hdirs _).mpr hdir, hm⟩

section NonVacuity
/- `decide` cannot unfold the well-founded recursions (`List.mergeSort`, `readObj`): successful reads are exhibited by
   the compiled model in every correspondence run; here the decidable hypotheses are instantiated. -/
private def S : Text := ⟨false, ⟨[.prim 8], .sealed⟩, none⟩
private def fs : List FileEntry :=
  [⟨["w", "ns"], [], "B.1.0.dsdl", S⟩, ⟨["w", "ns"], ["x"], "A.1.0.dsdl", ⟨false, ⟨[.ref ⟨"ns.B", 1, 0⟩], .sealed⟩, none⟩⟩,
   ⟨["w", "ns"], [], "B.1.1.uavcan", S⟩, ⟨["w", "other"], [], "C.1.0.dsdl", S⟩, ⟨["w", "ns"], [], "README.txt", S⟩]
example : DistinctFileKeys fs := by unfold DistinctFileKeys; decide +kernel
example : keysOf fs = [("ns.B", 1, 0), ("ns.x.A", 1, 0), ("ns.B", 1, 1), ("other.C", 1, 0)] := by decide +kernel
example : readNamespace fs.reverse ["w", "ns"] [["w", "other"]] true false = readNamespace fs ["w", "ns"] [["w", "other"]] true false :=
  C10.perm_invariant fs fs.reverse _ _ _ _ (List.reverse_perm fs) (by unfold DistinctFileKeys; decide +kernel)
example : dirsCheck [["w", "ns"], ["w", "ns", "x"]] true = .error .nestedRoot := by decide +kernel
example : dirsCheck [["w", "ns"], ["v", "NS"]] false = .error .rootNameCollision ∧ dirsCheck [["w", "ns"], ["v", "NS"]] true = .ok () := by
  decide +kernel

/- a worked instance (Proofs/NamespaceExample.lean): `ns/A.1.0` has a field of type `ns.B.1.0`, `other/C.1.0` is unrelated;
   `read_files [A]` gives direct = [A], transitive = [B]; `read_namespace ns` gives [A, B] -/
open Ns.Example in
example : readFiles Example.fs [eA] [] [["w", "other"]] false = ⟨.ok ([TA], [TB]), []⟩ ∧
    readNamespace Example.fs ["w", "ns"] [["w", "other"]] true false = ⟨.ok ([TA, TB], []), []⟩ := ⟨evalFiles, evalNs⟩
open Ns.Example in
example : [TA, TB].map Ty.key = [dA true, dB true].map Def.key :=
  C10.complete Example.fs _ _ _ _ _ _ _ _ collectT evalNs
open Ns.Example in
example := C10.complete_paths Example.fs ["w", "ns"] [["w", "other"]] true false [TA, TB] [] [] distinct evalNs
open Ns.Example in
example := C10.closure Example.fs [eA] [] [["w", "other"]] false [TA] [TB] [] [dA true] (by simp [mapMDefs, mkA]) evalFiles
open Ns.Example in
example := C10.closure_paths Example.fs [eA] [] [["w", "other"]] false [TA] [TB] [] [dA true] distinct (by decide +kernel)
  (by simp [mapMDefs, mkA]) evalFiles
open Ns.Example in
example := C10.closure_exact Example.fs [eA] [] [["w", "other"]] false [TA] [TB] [] [dA true] distinct (by decide +kernel)
  (by simp [mapMDefs, mkA]) evalFiles
open Ns.Example in
example : ∀ x ∈ [TA, TB] ++ [], ∀ y ∈ [TA] ++ [TB], x.key = y.key → x = y :=
  C10.same_types Example.fs [eA] ["w", "ns"] [] [["w", "other"]] [["w", "other"]] true false [TA, TB] [] [TA] [TB] [] [] [dA true]
    distinct (by decide +kernel) (by simp [mapMDefs, mkA]) (by
      have h1 : dedupPaths ([["w", "other"]] ++ [["w", "ns"]]) = Example.dirs := by decide +kernel
      have h2 : dedupPaths ([["w", "other"]] ++ List.map Def.root [dA true] ++ []) = Example.dirs := by decide +kernel
      rw [h1, h2]; exact fun _ => Iff.rfl) evalNs evalFiles
end NonVacuity
