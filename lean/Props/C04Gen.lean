import Bridge.ExprOps
import Props.C04
/-!
# C04 over the operator functions generated from `pydsdl/_expression`

`Gen.Ex.add`, `Gen.Ex.divide`, `Gen.Ex.less`, `Gen.Ex.bitwise_or`, … are translated from `_operator.py` (the dispatchers with
`_auto_swap`), `_primitive.py` (`Boolean`, `Rational`, `String`), `_container.py` (`Set`) and `_any.py` of the working tree of
/repo on every run (`tools/py2lean_expr.py`); `lean/PyLib/Expr.lean` is the meaning of the Python they use.  `Bridge/ExprOps.lean`
proves that on every pair of model values they return what the model's `evalBin` returns.  Below, the operator statements of
`Props/C04.lean` are restated over the generated functions.

Notation: `ratObj q`, `boolObj b`, `strObj s` are the instances of `Rational`, `Boolean`, `String`; `setObj raw` is the instance of
`Set` with the given primitives as elements; `env` is the late-binding environment of the generated module (any environment for
the primitives; `Gen.Ex.env nfc (n + 1)` - any call budget of at least one - where sets take part).
-/
open Ex Py BridgeEx PyEx
set_option linter.unusedSimpArgs false
set_option linter.unusedVariables false

namespace C04Gen

def ratObj (q : Rat) : Obj := embS (.rat q)
def boolObj (b : Bool) : Obj := embS (.bool b)
def strObj (s : List Nat) : Obj := embS (.str s)

/-- the exception is an `InvalidDefinitionError` (by the `class` statements of `_any.py`) -/
def isInvalidDefinition (e : Exc) : Bool := Gen.Ex.excMatch e [.InvalidDefinitionError]

end C04Gen
open C04Gen

/-! ## exact arithmetic -/

/-- `+ - *` on `Rational`s are the field operations of ℚ (no rounding, no overflow). -/
theorem C04.gen_exact_ring (env : Py.Env) (a b : Rat) :
    Gen.Ex.add env (ratObj a) (ratObj b) = .ok (ratObj (a + b)) ∧
    Gen.Ex.subtract env (ratObj a) (ratObj b) = .ok (ratObj (a - b)) ∧
    Gen.Ex.multiply env (ratObj a) (ratObj b) = .ok (ratObj (a * b)) :=
  ⟨gen_scBin env .add (.rat a) (.rat b), gen_scBin env .sub (.rat a) (.rat b), gen_scBin env .mul (.rat a) (.rat b)⟩

example (env : Py.Env) : Gen.Ex.add env (ratObj (1/3)) (ratObj (1/6)) = .ok (ratObj (1/2)) := by
  rw [(C04.gen_exact_ring env (1/3) (1/6)).1]; norm_num

/-- Division is exact; division by zero raises `InvalidOperandError`, an `InvalidDefinitionError`. -/
theorem C04.gen_exact_div (env : Py.Env) (a b : Rat) :
    (b ≠ 0 → Gen.Ex.divide env (ratObj a) (ratObj b) = .ok (ratObj (a / b))) ∧
    (b = 0 → Gen.Ex.divide env (ratObj a) (ratObj b) = .error .InvalidOperandError) ∧
    isInvalidDefinition .InvalidOperandError = true := by
  have h := gen_scBin env .div (.rat a) (.rat b)
  refine ⟨fun hb => ?_, fun hb => ?_, rfl⟩
  · rw [show genBin .div env (embS (.rat a)) (embS (.rat b)) = Gen.Ex.divide env (ratObj a) (ratObj b) from rfl] at h
    rw [h]; simp [scBin, hb, convS]; rfl
  · rw [show genBin .div env (embS (.rat a)) (embS (.rat b)) = Gen.Ex.divide env (ratObj a) (ratObj b) from rfl] at h
    rw [h]; simp [scBin, hb, convS, inval, excOf]

example (env : Py.Env) : Gen.Ex.divide env (ratObj 1) (ratObj 3) = .ok (ratObj (1/3)) := by
  rw [(C04.gen_exact_div env 1 3).1 (by norm_num)]

example (env : Py.Env) : Gen.Ex.divide env (ratObj 1) (ratObj 0) = .error .InvalidOperandError :=
  (C04.gen_exact_div env 1 0).2.1 rfl

/-- `%` is the floored modulo on rationals (`a = k*b + r`, `r` between zero and the divisor, with the divisor's sign); modulo
    zero raises `InvalidOperandError`. -/
theorem C04.gen_exact_mod (env : Py.Env) (a b : Rat) :
    (b ≠ 0 → ∃ r : Rat, Gen.Ex.modulo env (ratObj a) (ratObj b) = .ok (ratObj r) ∧ (∃ k : Int, a = k * b + r) ∧
        (0 < b → 0 ≤ r ∧ r < b) ∧ (b < 0 → b < r ∧ r ≤ 0)) ∧
    (b = 0 → Gen.Ex.modulo env (ratObj a) (ratObj b) = .error .InvalidOperandError) := by
  have h : Gen.Ex.modulo env (ratObj a) (ratObj b) = convS (@scBin ⟨env.nfc⟩ .mod (.rat a) (.rat b)) :=
    gen_scBin env .mod (.rat a) (.rat b)
  constructor
  · intro hb
    refine ⟨ratMod a b, ?_, ratMod_spec a b⟩
    rw [h]; simp [scBin, hb, convS]; rfl
  · intro hb
    rw [h]; simp [scBin, hb, convS, inval, excOf]

example (env : Py.Env) : ∃ r : Rat, Gen.Ex.modulo env (ratObj (-7)) (ratObj 3) = .ok (ratObj r) ∧ 0 ≤ r ∧ r < 3 := by
  obtain ⟨r, h1, _, h3, _⟩ := (C04.gen_exact_mod env (-7) 3).1 (by norm_num)
  exact ⟨r, h1, h3 (by norm_num)⟩

/-- A power with an integral exponent is the exact power, negative exponents included; `0 ** negative` raises
    `InvalidOperandError`. -/
theorem C04.gen_exact_pow (env : Py.Env) (a : Rat) (n : Int) :
    ((a ≠ 0 ∨ 0 ≤ n) → Gen.Ex.power env (ratObj a) (ratObj (n : Rat)) = .ok (ratObj (a ^ n))) ∧
    ((a = 0 ∧ n < 0) → Gen.Ex.power env (ratObj a) (ratObj (n : Rat)) = .error .InvalidOperandError) := by
  have h : Gen.Ex.power env (ratObj a) (ratObj (n : Rat)) = convS (@scBin ⟨env.nfc⟩ .pow (.rat a) (.rat (n : Rat))) :=
    gen_scBin env .pow (.rat a) (.rat (n : Rat))
  constructor
  · intro hn
    rw [h]; simp [scBin, scPow_int a n hn, convS, Except.map]; rfl
  · rintro ⟨rfl, hn⟩
    rw [h]; simp [scBin, scPow_zero_neg n hn, convS, Except.map, excOf]

example (env : Py.Env) : Gen.Ex.power env (ratObj 2) (ratObj ((-1 : Int) : Rat)) = .ok (ratObj (2 ^ (-1 : Int))) :=
  (C04.gen_exact_pow env 2 (-1)).1 (Or.inl (by norm_num))

/-- Comparisons of `Rational`s are the order of ℚ. -/
theorem C04.gen_exact_cmp (env : Py.Env) (a b : Rat) :
    Gen.Ex.equal env (ratObj a) (ratObj b) = .ok (boolObj (decide (a = b))) ∧
    Gen.Ex.less env (ratObj a) (ratObj b) = .ok (boolObj (decide (a < b))) ∧
    Gen.Ex.less_or_equal env (ratObj a) (ratObj b) = .ok (boolObj (decide (a ≤ b))) ∧
    Gen.Ex.greater env (ratObj a) (ratObj b) = .ok (boolObj (decide (b < a))) ∧
    Gen.Ex.greater_or_equal env (ratObj a) (ratObj b) = .ok (boolObj (decide (b ≤ a))) ∧
    Gen.Ex.not_equal env (ratObj a) (ratObj b) = .ok (boolObj (decide (a ≠ b))) := by
  have h := fun op => gen_scBin env op (.rat a) (.rat b)
  refine ⟨(h .eq).trans ?_, (h .lt).trans ?_, (h .le).trans ?_, (h .gt).trans ?_, (h .ge).trans ?_, (h .ne).trans ?_⟩ <;>
    simp [scBin, convS, boolObj, beq_eq_decide, bne]

example (env : Py.Env) : Gen.Ex.less env (ratObj (1/3)) (ratObj (1/2)) = .ok (boolObj true) := by
  rw [(C04.gen_exact_cmp env (1/3) (1/2)).2.1]; norm_num

/-- `|`, `^`, `&` are defined on integers only (Python's operators on unbounded two's complement integers, `Ex.ior` …);
    a non-integral operand raises `InvalidOperandError`. -/
theorem C04.gen_bitwise (env : Py.Env) (a b : Rat) :
    (a.den = 1 ∧ b.den = 1 →
      Gen.Ex.bitwise_or env (ratObj a) (ratObj b) = .ok (ratObj ((ior a.num b.num : Int) : Rat)) ∧
      Gen.Ex.bitwise_xor env (ratObj a) (ratObj b) = .ok (ratObj ((ixor a.num b.num : Int) : Rat)) ∧
      Gen.Ex.bitwise_and env (ratObj a) (ratObj b) = .ok (ratObj ((iand a.num b.num : Int) : Rat))) ∧
    (¬ (a.den = 1 ∧ b.den = 1) →
      Gen.Ex.bitwise_or env (ratObj a) (ratObj b) = .error .InvalidOperandError ∧
      Gen.Ex.bitwise_xor env (ratObj a) (ratObj b) = .error .InvalidOperandError ∧
      Gen.Ex.bitwise_and env (ratObj a) (ratObj b) = .error .InvalidOperandError) := by
  have h := fun op => gen_scBin env op (.rat a) (.rat b)
  constructor
  · rintro ⟨ha, hb⟩
    refine ⟨(h .bor).trans ?_, (h .bxor).trans ?_, (h .band).trans ?_⟩ <;>
      simp [scBin, bitwise, Rat.isInt', ha, hb, convS, ratObj]
  · intro hn
    have : (Rat.isInt' a && Rat.isInt' b) = false := by
      rw [Bool.eq_false_iff]; intro h'; apply hn; simpa [Rat.isInt'] using h'
    refine ⟨(h .bor).trans ?_, (h .bxor).trans ?_, (h .band).trans ?_⟩ <;>
      simp [scBin, bitwise, this, convS, inval, excOf]

example (env : Py.Env) : Gen.Ex.bitwise_and env (ratObj 12) (ratObj 10) = .ok (ratObj 8) := by
  have := ((C04.gen_bitwise env 12 10).1 ⟨rfl, rfl⟩).2.2
  rw [this]; rfl

example (env : Py.Env) : Gen.Ex.bitwise_or env (ratObj (1/2)) (ratObj 1) = .error .InvalidOperandError :=
  ((C04.gen_bitwise env (1/2) 1).2 (by decide +kernel)).1

/-- … and on integers they act bit by bit on the two's complement representation with an infinite sign extension
    (`Int.testBit`), as Python's `&`, `|`, `^` do. -/
theorem C04.gen_bitwise_bits (env : Py.Env) (a b : Int) :
    ∃ x o y : Int,
      Gen.Ex.bitwise_and env (ratObj a) (ratObj b) = .ok (ratObj x) ∧
      Gen.Ex.bitwise_or env (ratObj a) (ratObj b) = .ok (ratObj o) ∧
      Gen.Ex.bitwise_xor env (ratObj a) (ratObj b) = .ok (ratObj y) ∧
      ∀ k : Nat, x.testBit k = (a.testBit k && b.testBit k) ∧ o.testBit k = (a.testBit k || b.testBit k) ∧
        y.testBit k = xor (a.testBit k) (b.testBit k) := by
  obtain ⟨h1, h2, h3⟩ := (C04.gen_bitwise env (a : Rat) (b : Rat)).1 ⟨by simp, by simp⟩
  simp only [Rat.num_intCast] at h1 h2 h3
  refine ⟨iand a b, ior a b, ixor a b, h3, h1, h2, fun k => ?_⟩
  have := testBit_int_ops a b k
  rw [intAnd_eq, intOr_eq, intXor_eq] at this
  exact this

example (env : Py.Env) : ∃ x : Int, Gen.Ex.bitwise_and env (ratObj ((-4 : Int) : Rat)) (ratObj ((6 : Int) : Rat)) = .ok (ratObj x) ∧
    x.testBit 2 = true ∧ x.testBit 1 = false := by
  obtain ⟨x, _, _, h, _, _, hk⟩ := C04.gen_bitwise_bits env (-4) 6
  exact ⟨x, h, by rw [(hk 2).1]; decide, by rw [(hk 1).1]; decide⟩

/-! ## booleans and strings -/

/-- `||`, `&&`, `!`, `==`, `!=` on `Boolean`s. -/
theorem C04.gen_booleans (env : Py.Env) (a b : Bool) :
    Gen.Ex.logical_or env (boolObj a) (boolObj b) = .ok (boolObj (a || b)) ∧
    Gen.Ex.logical_and env (boolObj a) (boolObj b) = .ok (boolObj (a && b)) ∧
    Gen.Ex.logical_not env (boolObj a) = .ok (boolObj (!a)) ∧
    Gen.Ex.equal env (boolObj a) (boolObj b) = .ok (boolObj (a == b)) ∧
    Gen.Ex.not_equal env (boolObj a) (boolObj b) = .ok (boolObj (a != b)) := by
  refine ⟨gen_scBin env .lor (.bool a) (.bool b), gen_scBin env .land (.bool a) (.bool b), ?_,
    gen_scBin env .eq (.bool a) (.bool b), gen_scBin env .ne (.bool a) (.bool b)⟩
  exact gen_evalUn env .not (.bool a)

example (env : Py.Env) : Gen.Ex.logical_or env (boolObj false) (boolObj true) = .ok (boolObj true) :=
  (C04.gen_booleans env false true).1

/-- `+` on `String`s concatenates the code points and nothing else; `==` holds exactly when the NFC forms are equal. -/
theorem C04.gen_strings (env : Py.Env) (a b : List Nat) :
    Gen.Ex.add env (strObj a) (strObj b) = .ok (strObj (a ++ b)) ∧
    Gen.Ex.equal env (strObj a) (strObj b) = .ok (boolObj (env.nfc a == env.nfc b)) ∧
    Gen.Ex.not_equal env (strObj a) (strObj b) = .ok (boolObj (env.nfc a != env.nfc b)) :=
  ⟨gen_scBin env .add (.str a) (.str b), gen_scBin env .eq (.str a) (.str b), gen_scBin env .ne (.str a) (.str b)⟩

example (env : Py.Env) : Gen.Ex.add env (strObj [97]) (strObj [98, 99]) = .ok (strObj [97, 98, 99]) :=
  (C04.gen_strings env [97] [98, 99]).1

/-! ## every operator on every pair of values -/

section
variable (nfc : List Nat → List Nat) (n : Nat)

/-- **The generated operators are the model's operators.**  For every binary operator, every two model values and every two
    Python objects that denote them (`Abs`: a primitive by the instance with exactly that value; a set by an instance whose
    elements are primitives with the given normal forms), the translated function of `_operator.py` returns an object that
    denotes the model's result, or raises the exception class of the model's error (`excOf`). -/
theorem C04.gen_operators_agree (hl : NfcLaws nfc) (op : BinOp) (oa ob : Obj) (a b : Val)
    (ha : Abs nfc oa a) (hb : Abs nfc ob b) :
    Agree nfc (genBin op (Gen.Ex.env nfc (n + 1)) oa ob) (@evalBin ⟨nfc⟩ op a b) :=
  gen_evalBin nfc n hl op oa ob a b ha hb

example : Agree id (Gen.Ex.subtract (Gen.Ex.env id 1) (ratObj 10) (setObj [.rat 1, .rat 2]))
    (@evalBin StrNorm.plain .sub (.rat 10) (.set [.rat 1, .rat 2])) :=
  C04.gen_operators_agree id 0 (nfcLaws_id) .sub _ _ _ _ (Abs.sc _) (Abs.set [.rat 1, .rat 2] (by simp))

/-- **Tokens.**  What the parser applies for an operator token (the `visit_op…` members of `_ParseTreeProcessor` with the
    terminals of grammar.parsimonious, read from the working tree) is the translated function of the model operator with that
    token; together with `C04.gen_operators_agree` / `C04.gen_unary_agree`: the function behind every operator token computes the
    model's operator. -/
theorem C04.gen_operator_tokens (env : Py.Env) :
    (∀ op : BinOp, Gen.Ex.binaryOperator env (String.ofList op.sym.text) = some (genBin op env)) ∧
    (∀ op : UnOp, Gen.Ex.unaryOperator env (String.ofList op.sym.text) = some (genUn op env)) ∧
    (∀ t : String, (∀ op : BinOp, t ≠ String.ofList op.sym.text) → Gen.Ex.binaryOperator env t = none) := by
  refine ⟨(operator_table env).1, (operator_table env).2, fun t ht => ?_⟩
  have h := fun op => ht op
  have e : ∀ (op : BinOp) (lit : String), String.ofList op.sym.text = lit → t ≠ lit := fun op lit hl => hl ▸ h op
  unfold Gen.Ex.binaryOperator
  simp only [e .lor "||" rfl, e .land "&&" rfl, e .eq "==" rfl, e .ne "!=" rfl, e .le "<=" rfl, e .ge ">=" rfl, e .lt "<" rfl,
    e .gt ">" rfl, e .bor "|" rfl, e .bxor "^" rfl, e .band "&" rfl, e .add "+" rfl, e .sub "-" rfl, e .mul "*" rfl, e .div "/" rfl,
    e .mod "%" rfl, e .pow "**" rfl, ↓reduceIte]

example (env : Py.Env) : Gen.Ex.binaryOperator env "**" = some (Gen.Ex.power env) := rfl

/-- Unary `+`, `-`, `!`. -/
theorem C04.gen_unary_agree (env : Py.Env) (op : UnOp) (oa : Obj) (a : Val) (ha : Abs nfc oa a) :
    Agree nfc (genUn op env oa) (evalUn op a) := gen_evalUn' nfc env op oa a ha

/-- every error of the model that the operators can produce is, in the generated code, an `InvalidDefinitionError` of
    `_any.py` (`UndefinedOperatorError`, `UndefinedAttributeError` or their base `InvalidOperandError`) -/
theorem C04.gen_invalid_is_invalid (k : InvKind) : isInvalidDefinition (excOf (.invalid k)) = true := by
  cases k <;> rfl

/-- **Definedness.**  On values satisfying the set invariant and integral exponents, a generated operator returns a value
    exactly for the operand combinations of the table (`Ex.defined`: Appendix E of DESIGN.md), and raises an
    `InvalidDefinitionError` for every other combination: type mismatches, division and modulo by zero, non-integral bitwise
    operands, sets of different element types, empty results. -/
theorem C04.gen_defined (hl : NfcLaws nfc) (op : BinOp) (oa ob : Obj) (a b : Val) (ha : Abs nfc oa a) (hb : Abs nfc ob b)
    (hwa : a.wf) (hwb : b.wf) (hexp : intExpV op b) :
    ((∃ o, genBin op (Gen.Ex.env nfc (n + 1)) oa ob = .ok o) ↔ Ex.defined op a b) ∧
    (∀ e, genBin op (Gen.Ex.env nfc (n + 1)) oa ob = .error e → isInvalidDefinition e = true) := by
  have hag := gen_evalBin nfc n hl op oa ob a b ha hb
  have hdef := @C04.defined ⟨nfc⟩ op a b hwa hwb hexp
  cases hm : @evalBin ⟨nfc⟩ op a b with
  | ok v =>
    rw [hm] at hag
    obtain ⟨o, ho, _⟩ := hag
    refine ⟨⟨fun _ => hdef.1.mp ⟨v, hm⟩, fun _ => ⟨o, ho⟩⟩, ?_⟩
    intro e he; rw [ho] at he; cases he
  | error e =>
    rw [hm] at hag
    have hg : genBin op (Gen.Ex.env nfc (n + 1)) oa ob = .error (excOf e) := hag
    obtain ⟨k, rfl⟩ := hdef.2 e hm
    refine ⟨⟨fun ⟨o, ho⟩ => (by rw [hg] at ho; cases ho), fun hd => ?_⟩, ?_⟩
    · obtain ⟨v, hv⟩ := hdef.1.mpr hd
      rw [hm] at hv; cases hv
    · intro e' he'
      rw [hg] at he'
      cases he'
      exact C04.gen_invalid_is_invalid k

example : ∃ e, Gen.Ex.add (Gen.Ex.env id 1) (ratObj 1) (strObj []) = .error e ∧ isInvalidDefinition e = true := by
  have h := C04.gen_defined id 0 nfcLaws_id .add (ratObj 1) (strObj []) (.rat 1) (.str []) (Abs.sc _) (Abs.sc _) trivial trivial
    (by intro h; cases h)
  have hnd : ¬ Ex.defined .add (.rat 1) (.str []) := by simp [Ex.defined, definedSc]
  cases hg : Gen.Ex.add (Gen.Ex.env id 1) (ratObj 1) (strObj []) with
  | ok o => exact absurd (h.1.mp ⟨o, hg⟩) hnd
  | error e => exact ⟨e, rfl, h.2 e hg⟩

/-! ## sets -/

local notation "env1" => Gen.Ex.env nfc (n + 1)
local notation "normS" => @normSc (StrNorm.mk nfc)

/-- Set algebra: the result of `|`, `&`, `^` on two `Set`s denotes the union, the intersection, the symmetric difference of
    the element sets (elements identified by their normal forms). -/
theorem C04.gen_sets_algebra (hl : NfcLaws nfc) (ra rb : List Scalar) (ha : ra ≠ []) (hb : rb ≠ []) (o : Obj) :
    (Gen.Ex.bitwise_or env1 (setObj ra) (setObj rb) = .ok o →
      ∃ r, Abs nfc o (.set r) ∧ ∀ x, x ∈ r ↔ x ∈ ra.map normS ∨ x ∈ rb.map normS) ∧
    (Gen.Ex.bitwise_and env1 (setObj ra) (setObj rb) = .ok o →
      ∃ r, Abs nfc o (.set r) ∧ ∀ x, x ∈ r ↔ x ∈ ra.map normS ∧ x ∈ rb.map normS) ∧
    (Gen.Ex.bitwise_xor env1 (setObj ra) (setObj rb) = .ok o →
      ∃ r, Abs nfc o (.set r) ∧
        ∀ x, x ∈ r ↔ (x ∈ ra.map normS ∧ x ∉ rb.map normS) ∨ (x ∈ rb.map normS ∧ x ∉ ra.map normS)) := by
  have key : ∀ op : BinOp, genBin op env1 (setObj ra) (setObj rb) = .ok o →
      ∃ v, @evalBin ⟨nfc⟩ op (.set (ra.map normS)) (.set (rb.map normS)) = .ok v ∧ Abs nfc o v := by
    intro op h
    have hag := gen_evalBin nfc n hl op _ _ _ _ (Abs.set ra ha) (Abs.set rb hb)
    cases hm : @evalBin ⟨nfc⟩ op (.set (ra.map normS)) (.set (rb.map normS)) with
    | ok v =>
      rw [hm] at hag
      obtain ⟨o', ho', habs⟩ := hag
      rw [h] at ho'; cases ho'
      exact ⟨v, rfl, habs⟩
    | error e =>
      rw [hm] at hag
      have : genBin op env1 (setObj ra) (setObj rb) = .error (excOf e) := hag
      rw [h] at this; cases this
  have isSet : ∀ (op : BinOp) (v : Val), (op = .bor ∨ op = .band ∨ op = .bxor) →
      @evalBin ⟨nfc⟩ op (.set (ra.map normS)) (.set (rb.map normS)) = .ok v → ∃ r, v = .set r := by
    intro op v hop hv
    have hv' : setSet op (ra.map normS) (rb.map normS) = .ok v := hv
    rcases hop with rfl | rfl | rfl <;>
    · simp only [setSet] at hv'
      split at hv'
      · cases hv'
      · obtain ⟨_, _, rfl⟩ := (mkSetS_ok_iff _ v).mp hv'
        exact ⟨_, rfl⟩
  refine ⟨fun h => ?_, fun h => ?_, fun h => ?_⟩
  · obtain ⟨v, hv, habs⟩ := key .bor h
    obtain ⟨r, rfl⟩ := isSet .bor v (by simp) hv
    exact ⟨r, habs, (@C04.sets_algebra ⟨nfc⟩ _ _ r).1 hv⟩
  · obtain ⟨v, hv, habs⟩ := key .band h
    obtain ⟨r, rfl⟩ := isSet .band v (by simp) hv
    exact ⟨r, habs, (@C04.sets_algebra ⟨nfc⟩ _ _ r).2.1 hv⟩
  · obtain ⟨v, hv, habs⟩ := key .bxor h
    obtain ⟨r, rfl⟩ := isSet .bxor v (by simp) hv
    exact ⟨r, habs, (@C04.sets_algebra ⟨nfc⟩ _ _ r).2.2 hv⟩

example : ∃ o, Gen.Ex.bitwise_xor (Gen.Ex.env id 1) (setObj [.rat 1, .rat 2]) (setObj [.rat 2, .rat 3]) = .ok o := by
  have := gen_evalBin id 0 nfcLaws_id .bxor _ _ _ _ (Abs.set [.rat 1, .rat 2] (by simp)) (Abs.set [.rat 2, .rat 3] (by simp))
  have hm : @evalBin StrNorm.plain .bxor (.set ([Scalar.rat 1, .rat 2].map (@normSc StrNorm.plain)))
      (.set ([Scalar.rat 2, .rat 3].map (@normSc StrNorm.plain))) = .ok (.set [.rat 1, .rat 3]) := by decide +kernel
  rw [hm] at this
  obtain ⟨o, ho, _⟩ := this
  exact ⟨o, ho⟩

/-- Set comparison: `==` / `!=` extensional equality, `<=` / `>=` sub- / superset, `<` / `>` proper sub- / superset of the
    element sets; sets of different element types are rejected with `InvalidOperandError`. -/
theorem C04.gen_sets_compare (ra rb : List Scalar) (ha : ra ≠ []) (hb : rb ≠ []) (op : BinOp)
    (hop : op = .eq ∨ op = .ne ∨ op = .le ∨ op = .ge ∨ op = .lt ∨ op = .gt) :
    (setKind ra ≠ setKind rb → genBin op env1 (setObj ra) (setObj rb) = .error .InvalidOperandError) ∧
    (setKind ra = setKind rb → ∃ r : Bool, genBin op env1 (setObj ra) (setObj rb) = .ok (boolObj r) ∧
      (op = .eq → (r = true ↔ ∀ x, x ∈ ra.map normS ↔ x ∈ rb.map normS)) ∧
      (op = .ne → (r = true ↔ ¬ ∀ x, x ∈ ra.map normS ↔ x ∈ rb.map normS)) ∧
      (op = .le → (r = true ↔ ∀ x ∈ ra.map normS, x ∈ rb.map normS)) ∧
      (op = .ge → (r = true ↔ ∀ x ∈ rb.map normS, x ∈ ra.map normS)) ∧
      (op = .lt → (r = true ↔ (∀ x ∈ ra.map normS, x ∈ rb.map normS) ∧ ¬ ∀ x, x ∈ ra.map normS ↔ x ∈ rb.map normS)) ∧
      (op = .gt → (r = true ↔ (∀ x ∈ rb.map normS, x ∈ ra.map normS) ∧ ¬ ∀ x, x ∈ ra.map normS ↔ x ∈ rb.map normS))) := by
  have hg := gen_set_cmp nfc n ra rb ha hb op hop
  constructor
  · intro hk
    have : (setKind ra != setKind rb) = true := by simpa using hk
    rw [hg]; unfold homoRes; rw [if_pos this]
  · intro hk
    have hk' : (setKind ra != setKind rb) = false := by simpa using hk
    refine ⟨cmpRes nfc op ra rb, ?_, ?_⟩
    · rw [hg]; unfold homoRes; simp only [hk', Bool.false_eq_true, ↓reduceIte]; rfl
    · have hm : @evalBin ⟨nfc⟩ op (.set (ra.map normS)) (.set (rb.map normS)) = .ok (.bool (cmpRes nfc op ra rb)) := by
        show setSet op (ra.map normS) (rb.map normS) = _
        rcases hop with rfl | rfl | rfl | rfl | rfl | rfl <;>
          simp only [setSet, setKind_map, hk', Bool.false_eq_true, ↓reduceIte, setEq, subsetL_map, cmpRes]
      exact @C04.sets_compare ⟨nfc⟩ op _ _ _ hm

example : genBin .le (Gen.Ex.env id 1) (setObj [.rat 1]) (setObj [.rat 2, .rat 1]) = .ok (boolObj true) := by
  obtain ⟨r, hr, _, _, hle, _⟩ := (C04.gen_sets_compare id 0 [.rat 1] [.rat 2, .rat 1] (by simp) (by simp) .le (by simp)).2 rfl
  have : r = true := (hle rfl).mpr (by simp [normSc])
  rw [hr, this]

/-- Element-wise application of the arithmetic operators with a primitive on either side, operand order preserved: the
    elements of the result are the (normal forms of the) results of the operator on the elements. -/
theorem C04.gen_sets_elementwise (hl : NfcLaws nfc) (op : BinOp) (raw : List Scalar) (hne : raw ≠ []) (c : Scalar) (o : Obj) :
    (genBin op env1 (setObj raw) (embS c) = .ok o →
      ∃ r, Abs nfc o (.set r) ∧ ∀ y, y ∈ r ↔ ∃ x ∈ raw.map normS, ∃ z, @scBin ⟨nfc⟩ op x c = .ok z ∧ y = normS z) ∧
    (genBin op env1 (embS c) (setObj raw) = .ok o →
      ∃ r, Abs nfc o (.set r) ∧ ∀ y, y ∈ r ↔ ∃ x ∈ raw.map normS, ∃ z, @scBin ⟨nfc⟩ op c x = .ok z ∧ y = normS z) := by
  constructor
  · intro h
    have hag := gen_evalBin nfc n hl op _ _ _ _ (Abs.set raw hne) (Abs.sc c)
    cases hm : @evalBin ⟨nfc⟩ op (.set (raw.map normS)) (.sc c) with
    | error e =>
      rw [hm] at hag
      have : genBin op env1 (setObj raw) (embS c) = .error (excOf e) := hag
      rw [h] at this; cases this
    | ok v =>
      rw [hm] at hag
      obtain ⟨o', ho', habs⟩ := hag
      rw [h] at ho'; cases ho'
      have hv : ∃ r, v = .set r := by
        have hm' : (if op.isArith then (mapR (fun x => @scBinEl ⟨nfc⟩ op x c) (raw.map normS)).bind mkSetS else inval .undefinedOp) = .ok v := hm
        split at hm'
        · cases hx : mapR (fun x => @scBinEl ⟨nfc⟩ op x c) (raw.map normS) with
          | error e => rw [hx] at hm'; cases hm'
          | ok ys =>
            rw [hx] at hm'
            obtain ⟨_, _, rfl⟩ := (mkSetS_ok_iff ys v).mp hm'
            exact ⟨_, rfl⟩
        · cases hm'
      obtain ⟨r, rfl⟩ := hv
      exact ⟨r, habs, (@C04.sets_elementwise ⟨nfc⟩ op _ c r).1 hm⟩
  · intro h
    have hag := gen_evalBin nfc n hl op _ _ _ _ (Abs.sc c) (Abs.set raw hne)
    cases hm : @evalBin ⟨nfc⟩ op (.sc c) (.set (raw.map normS)) with
    | error e =>
      rw [hm] at hag
      have : genBin op env1 (embS c) (setObj raw) = .error (excOf e) := hag
      rw [h] at this; cases this
    | ok v =>
      rw [hm] at hag
      obtain ⟨o', ho', habs⟩ := hag
      rw [h] at ho'; cases ho'
      have hv : ∃ r, v = .set r := by
        have hm' : (if op.isArith then (mapR (fun x => @scBinEl ⟨nfc⟩ op c x) (raw.map normS)).bind mkSetS else inval .undefinedOp) = .ok v := hm
        split at hm'
        · cases hx : mapR (fun x => @scBinEl ⟨nfc⟩ op c x) (raw.map normS) with
          | error e => rw [hx] at hm'; cases hm'
          | ok ys =>
            rw [hx] at hm'
            obtain ⟨_, _, rfl⟩ := (mkSetS_ok_iff ys v).mp hm'
            exact ⟨_, rfl⟩
        · cases hm'
      obtain ⟨r, rfl⟩ := hv
      exact ⟨r, habs, (@C04.sets_elementwise ⟨nfc⟩ op _ c r).2 hm⟩

example : ∃ o, genBin .sub (Gen.Ex.env id 1) (ratObj 10) (setObj [.rat 1, .rat 2]) = .ok o ∧
    Abs id o (.set [.rat 9, .rat 8]) := by
  have := gen_evalBin id 0 nfcLaws_id .sub _ _ _ _ (Abs.sc (.rat 10)) (Abs.set [.rat 1, .rat 2] (by simp))
  have hm : @evalBin StrNorm.plain .sub (.sc (.rat 10)) (.set ([Scalar.rat 1, .rat 2].map (@normSc StrNorm.plain))) =
      .ok (.set [.rat 9, .rat 8]) := by decide +kernel
  rw [hm] at this
  exact this

/-- `.count` of a `Set` is the number of its elements; `.min` / `.max` of a `Set` of `Rational`s are its least / greatest
    element; any other attribute, and any attribute of a primitive, raises `UndefinedAttributeError`. -/
theorem C04.gen_sets_attributes (a : Rat) (l : List Scalar) (hl : ∀ x ∈ l, ∃ q, x = .rat q) :
    (∃ m : Rat, Gen.Ex.attribute env1 (setObj (.rat a :: l)) (nameObj "min") = .ok (ratObj m) ∧
        Scalar.rat m ∈ (Scalar.rat a :: l) ∧ ∀ q, Scalar.rat q ∈ (Scalar.rat a :: l) → m ≤ q) ∧
    (∃ m : Rat, Gen.Ex.attribute env1 (setObj (.rat a :: l)) (nameObj "max") = .ok (ratObj m) ∧
        Scalar.rat m ∈ (Scalar.rat a :: l) ∧ ∀ q, Scalar.rat q ∈ (Scalar.rat a :: l) → q ≤ m) ∧
    Gen.Ex.attribute env1 (setObj (.rat a :: l)) (nameObj "count") = .ok (ratObj ((l.length + 1 : Nat) : Rat)) := by
  have hnorm : ∀ x ∈ (Scalar.rat a :: l), normS x = x := by
    intro x hx
    rcases List.mem_cons.mp hx with rfl | h
    · rfl
    · obtain ⟨q, rfl⟩ := hl x h; rfl
  have hmap : (Scalar.rat a :: l).map normS = Scalar.rat a :: l := map_normS_id nfc _ hnorm
  have hag := fun name => gen_attr_set nfc n (.rat a :: l) (by simp) name (fun _ => hnorm)
  obtain ⟨⟨m1, h1, hm1, hle1⟩, ⟨m2, h2, hm2, hle2⟩, h3⟩ := @C04.sets_attributes ⟨nfc⟩ a l hl
  have conv : ∀ (name : String) (q : Rat), @evalAttr ⟨nfc⟩ (.set (.rat a :: l)) name = .ok (.rat q) →
      Gen.Ex.attribute env1 (setObj (.rat a :: l)) (nameObj name) = .ok (ratObj q) := by
    intro name q hq
    have := hag name
    rw [hmap, hq] at this
    obtain ⟨o, ho, habs⟩ := this
    rw [ho]
    cases habs with
    | sc s => rfl
  exact ⟨⟨m1, conv _ _ h1, hm1, hle1⟩, ⟨m2, conv _ _ h2, hm2, hle2⟩, conv _ _ h3⟩

example : ∃ m : Rat, Gen.Ex.attribute (Gen.Ex.env id 1) (setObj [.rat 3, .rat 1, .rat 2]) (nameObj "min") = .ok (ratObj m) ∧
    ∀ q, Scalar.rat q ∈ [Scalar.rat 3, .rat 1, .rat 2] → m ≤ q := by
  obtain ⟨m, h, _, hle⟩ := (C04.gen_sets_attributes id 0 3 [.rat 1, .rat 2] (by simp)).1
  exact ⟨m, h, hle⟩

/-- an unknown attribute of a set, and every attribute of a primitive, is `UndefinedAttributeError` -/
theorem C04.gen_attributes_undefined (raw : List Scalar) (hne : raw ≠ []) (s : Scalar) (name : String)
    (h1 : name ≠ "min") (h2 : name ≠ "max") (h3 : name ≠ "count") :
    Gen.Ex.attribute env1 (setObj raw) (nameObj name) = .error .UndefinedAttributeError ∧
    Gen.Ex.attribute env1 (embS s) (nameObj name) = .error .UndefinedAttributeError := by
  constructor
  · have := gen_attr_set nfc n raw hne name (by rintro (h | h) <;> contradiction)
    have hm : @evalAttr ⟨nfc⟩ (.set (raw.map normS)) name = inval .undefinedAttr := by
      unfold evalAttr
      split <;> first | rfl | exact absurd rfl h1 | exact absurd rfl h2 | exact absurd rfl h3
    rw [hm] at this
    exact this
  · exact attr_scalar nfc n s _

example : Gen.Ex.attribute (Gen.Ex.env id 1) (setObj [.rat 1]) (nameObj "size") = .error .UndefinedAttributeError :=
  (C04.gen_attributes_undefined id 0 [.rat 1] (by simp) (.rat 0) "size" (by decide) (by decide) (by decide)).1

/-- Set literals: an empty literal and a literal of mixed kinds are rejected (`InvalidOperandError`); otherwise `Set([...])`
    denotes the set of its elements, a string identified by its normal form. -/
theorem C04.gen_sets_literal (vs : List Scalar) :
    (vs = [] → Gen.Ex.Set.__new__ env1 (.list (vs.map embS)) = .error .InvalidOperandError) ∧
    ((∃ x ∈ vs, ∃ y ∈ vs, x.kind ≠ y.kind) → Gen.Ex.Set.__new__ env1 (.list (vs.map embS)) = .error .InvalidOperandError) ∧
    (vs ≠ [] → (∀ x ∈ vs, ∀ y ∈ vs, x.kind = y.kind) →
      ∃ o r, Gen.Ex.Set.__new__ env1 (.list (vs.map embS)) = .ok o ∧ Abs nfc o (.set r) ∧ ∀ x, x ∈ r ↔ ∃ y ∈ vs, x = normS y) := by
  have hag := gen_set_literal nfc n vs
  obtain ⟨l1, l2, l3⟩ := @C04.sets_literal ⟨nfc⟩ vs
  refine ⟨fun h => ?_, fun h => ?_, fun h1 h2 => ?_⟩
  · rw [l1 h] at hag; exact hag
  · rw [l2 h] at hag; exact hag
  · obtain ⟨r, hr, hmem⟩ := l3 h1 h2
    rw [hr] at hag
    obtain ⟨o, ho, habs⟩ := hag
    exact ⟨o, r, ho, habs, hmem⟩

example : Gen.Ex.Set.__new__ (Gen.Ex.env id 1) (.list ([Scalar.rat 1, .bool true].map embS)) = .error .InvalidOperandError :=
  (C04.gen_sets_literal id 0 [.rat 1, .bool true]).2.1 ⟨.rat 1, by simp, .bool true, by simp, by simp [Scalar.kind]⟩

end
