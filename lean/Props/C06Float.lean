import Proofs.WireFloat
/-! C06 — the numeric conversion number → IEEE-754 bit pattern of a float field, on the model `Model/Float.lean`
    (`WireFloat.roundBinary`, to be tied to `_serialize_primitive` / `struct.pack` of pydsdl/_serdes.py by the
    correspondence suite `wire`: input sign + exact fraction + width + cast mode, output the pattern).

    A format is `(eb, mb)` = (exponent bits, stored mantissa bits): binary16 = (5, 10), binary32 = (8, 23),
    binary64 = (11, 52).  All theorems are generic in the format; they need `2 ≤ eb` where the top of the exponent
    range matters and `1 ≤ mb` where the parity of the last mantissa bit matters.

    `decodeBinary eb mb bits : Option ℚ` is the exact value of a finite pattern (`none` for infinities and NaNs),
    `roundBinary eb mb c neg n d` the pattern written for the number `(-1)^neg * n / d`,
    `roundRat eb mb c q` the same for a rational `q` (zero is `+0`), `sgn neg = ∓1`,
    `maxFinite` / `overflowThreshold` the largest finite number and that plus half a unit in its last place. -/
open WireFloat
open Wire (Cast)

/-! ### exactness: round ∘ decode = id, decode ∘ round = id -/

/-- round ∘ decode = id on every finite pattern, the sign carried explicitly (so `-0` is covered): if `n / d` is the
    magnitude of the pattern `bits` (its value in quanta `2^-Q` is `decodeScaled mb (magOf eb mb bits)`), then
    rounding it with the sign of `bits` gives `bits` back, in both cast modes. -/
theorem C06.float_exact (eb mb : Nat) (c : Cast) (bits n d : Nat)
    (hf : isFinite eb mb bits = true) (hd : 0 < d)
    (hnd : n * 2 ^ scaleExp eb mb = decodeScaled mb (magOf eb mb bits) * d) :
    roundBinary eb mb c (isNeg eb mb bits) n d = bits :=
  roundBinary_exact mb c bits hf n d hd hnd

-- binary16: 0x8001 is minus the smallest subnormal, -1 / 2^24; 0xFBFF is -65504; 0x8000 is -0
example : isFinite 5 10 0x8001 = true ∧ isNeg 5 10 0x8001 = true ∧
    1 * 2 ^ scaleExp 5 10 = decodeScaled 10 (magOf 5 10 0x8001) * 2 ^ 24 := by decide +kernel
example : roundBinary 5 10 .sat true 1 (2 ^ 24) = 0x8001 ∧ roundBinary 5 10 .trunc true 65504 1 = 0xFBFF ∧
    roundBinary 5 10 .trunc true 0 1 = 0x8000 := by decide +kernel

/-- The same over the rationals: a finite pattern other than `-0` is recovered from its exact value. -/
theorem C06.float_exact_rat (eb mb : Nat) (c : Cast) (bits : Nat) (q : ℚ)
    (hq : decodeBinary eb mb bits = some q) (hz : bits ≠ signBit eb mb) :
    roundRat eb mb c q = bits :=
  roundRat_exact mb c bits q hq hz

example : decodeBinary 5 10 0x3555 = some (1365 / 4096) ∧ 0x3555 ≠ signBit 5 10 := by decide +kernel
example : decodeBinary 8 23 0x00000001 = some (1 / 2 ^ 149) := by decide +kernel
example : decodeBinary 11 52 0x7FEFFFFFFFFFFFFF = some ((2 ^ 53 - 1) * 2 ^ 971) := by decide +kernel

/-- decode ∘ round = id on the representable numbers (`-0` decodes to `0`, which is rounded to `+0`). -/
theorem C06.float_decode_round (eb mb : Nat) (c : Cast) (q : ℚ)
    (hq : ∃ bits, decodeBinary eb mb bits = some q) :
    decodeBinary eb mb (roundRat eb mb c q) = some q := by
  obtain ⟨bits, hb⟩ := hq
  by_cases hz : bits = signBit eb mb
  · -- the value of -0 is 0, and 0 is the value of the pattern 0
    subst hz
    obtain ⟨hf, hv⟩ := decodeBinary_some eb mb _ q hb
    have hm : magOf eb mb (signBit eb mb) = 0 := by unfold magOf; exact Nat.mod_self _
    have hq0 : q = 0 := by
      rw [hv, hm]; unfold decodeScaled; simp
    have h0 : decodeBinary eb mb 0 = some q := by
      have hfin : isFinite eb mb 0 = true := by
        unfold isFinite at hf ⊢
        rw [hm] at hf
        simp only [Bool.and_eq_true, decide_eq_true_eq] at hf ⊢
        have : magOf eb mb 0 = 0 := by unfold magOf; exact Nat.zero_mod _
        rw [this]
        exact ⟨Nat.mul_pos (by decide) (Nat.pow_pos (by decide)), hf.2⟩
      rw [decodeBinary_finite eb mb 0 hfin, hq0]
      have : magOf eb mb 0 = 0 := by unfold magOf; exact Nat.zero_mod _
      rw [this]; unfold decodeScaled; simp
    have hne : (0 : Nat) ≠ signBit eb mb := Nat.ne_of_lt (Nat.pow_pos (by decide))
    rw [roundRat_exact mb c 0 q h0 hne]; exact h0
  · rw [roundRat_exact mb c bits q hb hz]; exact hb

example : ∃ bits, decodeBinary 5 10 bits = some (-(3 : ℚ) / 2 ^ 24) := ⟨0x8003, by decide +kernel⟩

/-! ### round to nearest, ties to even -/

/-- **Nearest**: below the overflow threshold the result is a finite pattern in both cast modes, and no finite
    pattern of the format has a value closer to the input than the value of the result. -/
theorem C06.float_nearest (eb mb : Nat) (c : Cast) (neg : Bool) (n d : Nat) (heb : 2 ≤ eb) (hd : 0 < d)
    (h : (n : ℚ) / d < overflowThreshold eb mb) :
    ∃ v, decodeBinary eb mb (roundBinary eb mb c neg n d) = some v ∧
      ∀ b' v', decodeBinary eb mb b' = some v' → |v - sgn neg * n / d| ≤ |v' - sgn neg * n / d| :=
  roundBinary_nearest mb c neg n d heb hd h

/-- The same for a rational input. -/
theorem C06.float_nearest_rat (eb mb : Nat) (c : Cast) (q : ℚ) (heb : 2 ≤ eb)
    (h : |q| < overflowThreshold eb mb) :
    ∃ v, decodeBinary eb mb (roundRat eb mb c q) = some v ∧
      ∀ b' v', decodeBinary eb mb b' = some v' → |v - q| ≤ |v' - q| :=
  roundRat_nearest mb c q heb h

-- 1/3 is not representable; 65519.99 is above the largest finite binary16 number and still rounds to it
example : overflowThreshold 5 10 = 65520 ∧ maxFinite 5 10 = 65504 ∧
    overflowThreshold 8 23 = 2 ^ 128 - 2 ^ 103 ∧ overflowThreshold 11 52 = 2 ^ 1024 - 2 ^ 970 := by decide +kernel
example : roundRat 5 10 .sat (1 / 3) = 0x3555 ∧ roundRat 8 23 .sat (1 / 3) = 0x3EAAAAAB ∧
    roundRat 11 52 .trunc (-1 / 3) = 0xBFD5555555555555 ∧
    roundRat 5 10 .trunc (6551999 / 100) = 0x7BFF := by decide +kernel

/-- **Half an ulp**: the magnitude `n / d` of the input lies in the binade whose spacing is `2^k` quanta (`k = 0`:
    below the second normal binade, which includes the whole subnormal range, where the spacing is one quantum
    `2^-Q`), and the error is at most half of that spacing. -/
theorem C06.float_half_ulp (eb mb : Nat) (c : Cast) (neg : Bool) (n d : Nat) (heb : 2 ≤ eb) (hd : 0 < d)
    (h : (n : ℚ) / d < overflowThreshold eb mb) :
    ∃ v k, decodeBinary eb mb (roundBinary eb mb c neg n d) = some v ∧
      (k ≠ 0 → (2 : ℚ) ^ (mb + k) / 2 ^ scaleExp eb mb ≤ (n : ℚ) / d) ∧
      (n : ℚ) / d < (2 : ℚ) ^ (mb + 1 + k) / 2 ^ scaleExp eb mb ∧
      2 * |v - sgn neg * n / d| ≤ (2 : ℚ) ^ k / 2 ^ scaleExp eb mb :=
  roundBinary_half_ulp mb c neg n d heb hd h

example : ((1 : ℕ) : ℚ) / (3 : ℕ) < overflowThreshold 5 10 := by
  have : overflowThreshold 5 10 = 65520 := by decide +kernel
  rw [this]; norm_num

/-- **Ties to even**: if another finite pattern has a different value that is exactly as close to the input as the
    value of the result, then the result is the one whose last mantissa bit is 0. -/
theorem C06.float_tie_even (eb mb : Nat) (c : Cast) (neg : Bool) (n d : Nat) (heb : 2 ≤ eb) (hmb : 1 ≤ mb)
    (hd : 0 < d) (h : (n : ℚ) / d < overflowThreshold eb mb) (v : ℚ) (b' : Nat) (v' : ℚ)
    (hv : decodeBinary eb mb (roundBinary eb mb c neg n d) = some v)
    (hb' : decodeBinary eb mb b' = some v') (hne : v' ≠ v)
    (htie : |v' - sgn neg * n / d| = |v - sgn neg * n / d|) :
    roundBinary eb mb c neg n d % 2 = 0 :=
  roundBinary_tie_even mb c neg n d heb hmb hd h v b' v' hv hb' hne htie

theorem C06.float_tie_even_rat (eb mb : Nat) (c : Cast) (q : ℚ) (heb : 2 ≤ eb) (hmb : 1 ≤ mb)
    (h : |q| < overflowThreshold eb mb) (v : ℚ) (b' : Nat) (v' : ℚ)
    (hv : decodeBinary eb mb (roundRat eb mb c q) = some v)
    (hb' : decodeBinary eb mb b' = some v') (hne : v' ≠ v) (htie : |v' - q| = |v - q|) :
    roundRat eb mb c q % 2 = 0 :=
  roundRat_tie_even mb c q heb hmb h v b' v' hv hb' hne htie

-- binary16 has spacing 2 between 2048 and 4096: 2049 is a tie between 2048 (0x6800) and 2050 (0x6801),
-- 2051 a tie between 2050 and 2052 (0x6802); half the smallest subnormal is a tie between 0 and 1 / 2^24
example : roundRat 5 10 .sat 2049 = 0x6800 ∧ roundRat 5 10 .sat 2051 = 0x6802 ∧
    decodeBinary 5 10 0x6800 = some 2048 ∧ decodeBinary 5 10 0x6801 = some 2050 ∧
    roundRat 5 10 .sat (1 / 2 ^ 24) = 1 ∧ roundRat 5 10 .sat (1 / 2 ^ 25) = 0 ∧
    roundRat 5 10 .sat (3 / 2 ^ 25) = 2 ∧ roundRat 5 10 .trunc (-1 / 2 ^ 25) = 0x8000 := by decide +kernel

/-! ### overflow and saturation -/

/-- **Saturated mode**: every magnitude above the largest finite number gives ± the largest finite pattern … -/
theorem C06.float_saturate (eb mb : Nat) (neg : Bool) (n d : Nat) (heb : 2 ≤ eb) (hd : 0 < d)
    (h : maxFinite eb mb < (n : ℚ) / d) :
    roundBinary eb mb .sat neg n d = (if neg then signBit eb mb else 0) + maxPat eb mb :=
  roundBinary_saturate mb neg n d heb hd h

/-- … and the result of the saturated mode is a finite pattern for every input. -/
theorem C06.float_saturate_finite (eb mb : Nat) (neg : Bool) (n d : Nat) (heb : 2 ≤ eb) (hd : 0 < d) :
    isFinite eb mb (roundBinary eb mb .sat neg n d) = true :=
  roundBinary_sat_finite mb neg n d heb hd

/-- **Truncated mode**: at and above the overflow threshold the result is ± infinity … -/
theorem C06.float_overflow (eb mb : Nat) (neg : Bool) (n d : Nat) (heb : 2 ≤ eb) (hd : 0 < d)
    (h : overflowThreshold eb mb ≤ (n : ℚ) / d) :
    roundBinary eb mb .trunc neg n d = (if neg then signBit eb mb else 0) + infPat eb mb :=
  roundBinary_overflow mb neg n d heb hd h

/-- … and below it a finite pattern (in both modes). -/
theorem C06.float_finite_below (eb mb : Nat) (c : Cast) (neg : Bool) (n d : Nat) (heb : 2 ≤ eb) (hd : 0 < d)
    (h : (n : ℚ) / d < overflowThreshold eb mb) :
    isFinite eb mb (roundBinary eb mb c neg n d) = true :=
  roundBinary_finite mb c neg n d heb hd h

theorem C06.float_saturate_rat (eb mb : Nat) (q : ℚ) (heb : 2 ≤ eb) (h : maxFinite eb mb < |q|) :
    roundRat eb mb .sat q = (if q < 0 then signBit eb mb else 0) + maxPat eb mb :=
  roundRat_saturate mb q heb h

theorem C06.float_overflow_rat (eb mb : Nat) (q : ℚ) (heb : 2 ≤ eb) (h : overflowThreshold eb mb ≤ |q|) :
    roundRat eb mb .trunc q = (if q < 0 then signBit eb mb else 0) + infPat eb mb :=
  roundRat_overflow mb q heb h

-- 65520 = overflowThreshold of binary16: +inf (0x7C00) when truncated, 65504 (0x7BFF) when saturated
example : roundRat 5 10 .trunc 65520 = 0x7C00 ∧ roundRat 5 10 .sat 65520 = 0x7BFF ∧
    roundRat 5 10 .trunc (-65520) = 0xFC00 ∧ roundRat 5 10 .sat (-(10 : ℚ) ^ 40) = 0xFBFF ∧
    infPat 5 10 = 0x7C00 ∧ maxPat 5 10 = 0x7BFF ∧ signBit 5 10 = 0x8000 ∧
    roundRat 8 23 .trunc (2 ^ 128 - 2 ^ 103) = 0x7F800000 ∧
    roundRat 8 23 .trunc (2 ^ 128 - 2 ^ 103 - 1) = 0x7F7FFFFF := by decide +kernel

/-! ### sign and order -/

/-- The sign bit of the result is the sign of the input — also when the result is zero (`-0`) or an infinity. -/
theorem C06.float_sign (eb mb : Nat) (c : Cast) (neg : Bool) (n d : Nat) (heb : 2 ≤ eb) (hd : 0 < d) :
    isNeg eb mb (roundBinary eb mb c neg n d) = neg :=
  roundBinary_sign mb c neg n d heb hd

example : roundBinary 5 10 .sat true 1 (2 ^ 30) = 0x8000 := by decide +kernel

/-- **Monotone**: a larger magnitude never gives a smaller pattern (in both modes; `n / d ≤ n' / d'`). -/
theorem C06.float_monotone (eb mb : Nat) (c : Cast) (n d n' d' : Nat) (heb : 2 ≤ eb) (hd : 0 < d) (hd' : 0 < d')
    (h : n * d' ≤ n' * d) :
    roundBinary eb mb c false n d ≤ roundBinary eb mb c false n' d' :=
  roundBinary_mono mb c n d n' d' heb hd hd' h

/-- The order of non-negative finite patterns is the order of their values, so monotone in the patterns means
    monotone in the values. -/
theorem C06.float_pattern_order (mb a b : Nat) (h : a < b) : decodeScaled mb a < decodeScaled mb b :=
  decodeScaled_strictMono mb h

example : roundBinary 5 10 .trunc false 1 3 ≤ roundBinary 5 10 .trunc false 2 5 := by decide +kernel

/-! ### how the fraction is written; Python ints -/

/-- The result depends on the number only, not on how the fraction is written. -/
theorem C06.float_fraction_invariant (eb mb : Nat) (c : Cast) (neg : Bool) (n d k : Nat) (hk : 0 < k) :
    roundBinary eb mb c neg (n * k) (d * k) = roundBinary eb mb c neg n d :=
  roundBinary_scale eb mb c neg n d k hk

example : roundBinary 5 10 .sat false 2 6 = roundBinary 5 10 .sat false 1 3 := by decide +kernel

/-- A Python `int` given for a float field goes through `float(int)` first (`roundInt`: two roundings).  For an
    integer that is a double — the value of a finite binary64 pattern `bits`, in particular every `|i| ≤ 2^53` —
    the result is the correctly rounded pattern of the integer itself. -/
theorem C06.float_int_exact (eb mb : Nat) (c : Cast) (n bits : Nat)
    (hf : isFinite 11 52 bits = true) (hv : n * 2 ^ scaleExp 11 52 = decodeScaled 52 (magOf 11 52 bits)) :
    roundInt eb mb c (isNeg 11 52 bits) n = roundBinary eb mb c (isNeg 11 52 bits) n 1 :=
  roundInt_of_double eb mb c n bits hf hv

-- 2049 = value of the double 0x40A0020000000000
example : isFinite 11 52 0x40A0020000000000 = true ∧
    2049 * 2 ^ scaleExp 11 52 = decodeScaled 52 (magOf 11 52 0x40A0020000000000) := by decide +kernel

/-- The hypothesis cannot be dropped: for integers that are not doubles the two roundings can differ from the
    correctly rounded result (the same happens in pydsdl: `float(2**60 + 2**36 + 1)` is the binary32 tie
    `2**60 + 2**36`), and an integer just below the overflow threshold of binary32 becomes infinity. -/
theorem C06.float_int_double_rounding :
    roundInt 8 23 .trunc false (2 ^ 60 + 2 ^ 36 + 1) = 0x5D800000 ∧
    roundBinary 8 23 .trunc false (2 ^ 60 + 2 ^ 36 + 1) 1 = 0x5D800001 ∧
    roundInt 8 23 .trunc false (2 ^ 128 - 2 ^ 103 - 1) = 0x7F800000 ∧
    roundBinary 8 23 .trunc false (2 ^ 128 - 2 ^ 103 - 1) 1 = 0x7F7FFFFF := by decide +kernel
