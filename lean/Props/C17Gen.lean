import Bridge.Reader
import Props.C17
/-!
# C17 over the line-number automaton generated from `_parser.py`, `_data_type_builder.py`, `_error.py`

`Gen/Reader.lean` is translated from the working tree of /repo on every run (see `Props/C03Gen.lean`); here: the line counter
(`visit_end_of_line`, the line breaks inside string literals), the line of the attribute statement that awaits its doc comment
(`_last_attribute_line_number`, set by the statement visitors, used by the handler of `_flush_comment`), the handler of `parse`
that attaches the current line only to an error that names no file yet, `Error.set_error_location_if_unknown`, and the line
number `on_directive` / the print handler receive.

Two kinds of statements: (1) facts about the generated code for EVERY instantiation of its opaque parts (no model involved):
the location rule, the line counter, "an attribute statement records its own line", "a failed lazy commit carries that line";
(2) the C17 theorems of `Props/C17.lean` restated over `genRead` (= `DSDLDefinition.read` with the generated `parse` in the middle),
through `Bridge.Rd.genRead_eq`.
-/
open Reader Gen.Reader Bridge.Rd
open Py hiding M Err

/-! ### (1) the generated code, for every instantiation -/

/-- **`Error.set_error_location_if_unknown`**: an entry that is already known (a path; a line other than 0) is left unchanged,
    an unknown one is filled in -- innermost first. -/
theorem C17.gen_location_rule {P : Type} (e : ErrorS P) (p : Option P) (l : Option Nat) :
    (Error.set_error_location_if_unknown p l : SM (ErrorS P) (Gen.Reader.Exc P) Unit).run e =
      (.ok (), { path := if e.path.isSome then e.path else p,
                 line := if truthyOptInt e.line then e.line else if truthyOptInt l then l else e.line }) :=
  run_set_location e p l

/-- **The line counter**: `visit_end_of_line` advances it by one plus the line breaks seen inside the string literals of the line
    and forgets those; nothing else changes. -/
theorem C17.gen_end_of_line {P T V A L H : Type} (en : Env P T V A H) (g : ParserS P T V A L H) :
    (ParseTreeProcessor.visit_end_of_line en).run g =
      (.ok (), { g with current_line_number := g.current_line_number + (1 + g.line_breaks_inside_literals),
                        line_breaks_inside_literals := 0 }) := by
  simp [ParseTreeProcessor.visit_end_of_line, py_helper]
  all_goals omega

/-- … and a string literal adds the number of its raw line breaks (the statement keeps the number of its first line). -/
theorem C17.gen_literal_line_breaks {P T V A L H : Type} (en : Env P T V A H) (g : ParserS P T V A L H) (t : Str) (v : V)
    (h : en.parse_string_literal t = .ok v) :
    (ParseTreeProcessor.visit_literal_string en t).run g =
      (.ok v, { g with line_breaks_inside_literals := g.line_breaks_inside_literals + t.count '\n' }) := by
  simp [ParseTreeProcessor.visit_literal_string, h, strCountChar, py_helper]

/-- `_flush_comment` never moves the line counter, the recorded attribute line or the literal line-break count -/
theorem C17.gen_flush_keeps_lines {P T V A L H : Type} (en : Env P T V A H) (g : ParserS P T V A L H) :
    ((ParseTreeProcessor.flush_comment en).run g).2.current_line_number = g.current_line_number ∧
    ((ParseTreeProcessor.flush_comment en).run g).2.last_attribute_line_number = g.last_attribute_line_number :=
  ⟨(flush_comment_book en g).1, (flush_comment_book en g).2.1⟩

/-- **A field statement records its own line.**  When `visit_statement_field` returns, the field is queued (not committed:
    its doc comment is not known yet), `_last_attribute_line_number` is the line the visitor is on, the line counter has not moved. -/
theorem C17.gen_field_records_own_line {P T V A L H : Type} (en : Env P T V A H) (g g' : ParserS P T V A L H) (t : T) (name : Str)
    (h : (ParseTreeProcessor.visit_statement_field en t name).run g = (.ok (), g')) :
    g'.last_attribute_line_number = g.current_line_number ∧ g'.current_line_number = g.current_line_number ∧
      g'.statement_stream_processor.element_callback = some (.on_field t name) := by
  cases hn : name.isEmpty with
  | true => simp [ParseTreeProcessor.visit_statement_field, hn, py_helper] at h
  | false =>
    refine attr_statement_line en g g' (DataTypeBuilder.on_field en t name) _ rfl ?_
    simpa [ParseTreeProcessor.visit_statement_field, hn, py_helper] using h

/-- … a constant statement too … -/
theorem C17.gen_constant_records_own_line {P T V A L H : Type} (en : Env P T V A H) (g g' : ParserS P T V A L H) (t : T) (name : Str) (v : V)
    (h : (ParseTreeProcessor.visit_statement_constant en t name v).run g = (.ok (), g')) :
    g'.last_attribute_line_number = g.current_line_number ∧ g'.current_line_number = g.current_line_number ∧
      g'.statement_stream_processor.element_callback = some (.on_constant t name v) := by
  cases hn : name.isEmpty with
  | true => simp [ParseTreeProcessor.visit_statement_constant, hn, py_helper] at h
  | false =>
    refine attr_statement_line en g g' (DataTypeBuilder.on_constant en t name v) _ rfl ?_
    simpa [ParseTreeProcessor.visit_statement_constant, hn, py_helper] using h

/-- … and a padding statement. -/
theorem C17.gen_padding_records_own_line {P T V A L H : Type} (en : Env P T V A H) (g g' : ParserS P T V A L H) (t : T)
    (h : (ParseTreeProcessor.visit_statement_padding_field en t).run g = (.ok (), g')) :
    g'.last_attribute_line_number = g.current_line_number ∧ g'.current_line_number = g.current_line_number ∧
      g'.statement_stream_processor.element_callback = some (.on_padding_field t) := by
  refine attr_statement_line en g g' (DataTypeBuilder.on_padding_field en t) _ rfl ?_
  simpa [ParseTreeProcessor.visit_statement_padding_field, py_helper] using h

/-- **A failed lazy commit carries the recorded line of the attribute, not the line where it surfaces.**  If committing the
    queued attribute raises an `_error.Error` without a line, `_flush_comment` -- on whatever later line it runs: the first
    identifier of the next statement, the next statement visitor, an empty line, the end of the text -- re-raises it with
    `_last_attribute_line_number`; path and bookkeeping untouched.  With the three theorems above: with the attribute's OWN line. -/
theorem C17.gen_commit_error_line {P T V A L H : Type} (en : Env P T V A H) (g : ParserS P T V A L H) (e0 : ErrorS P)
    (b' : BuilderS P T V A L H) (hh : g.comment_is_header = false) (hl : truthyOptInt e0.line = false)
    (hla : g.last_attribute_line_number ≠ 0)
    (h : (DataTypeBuilder.on_attribute_comment en g.comment).run g.statement_stream_processor = (.error (.dsdl e0), b')) :
    (ParseTreeProcessor.flush_comment en).run g =
      (.error (.dsdl ⟨e0.path, some g.last_attribute_line_number⟩), { g with statement_stream_processor := b' }) :=
  flush_comment_commit_error en g e0 b' hh hl hla h

/-- **`@print` gets the line of its own statement**: the directive visitor passes the line counter to `on_directive`, and the
    print handler is called with exactly that number. -/
theorem C17.gen_print_line {P T V A L H : Type} (en : Env P T V A H) (b : BuilderS P T V A L H) (k : Nat) (v : Option V) :
    (DataTypeBuilder.on_directive en k "print".toList v).run b =
      (.ok (), { b with print_output_handler := en.call_print_output_handler b.print_output_handler k (strOfOpt en.str v) }) := by
  simp [DataTypeBuilder.on_directive, DataTypeBuilder.on_print_directive, py_helper]

/-! ### (2) the C17 theorems over `read` with the generated `parse` -/

/-- A failed read over the generated automaton reports the untouched error of a referenced definition, or the own path and no
    line (finalize), or the own path and the number of a line that holds a statement (or does not match the grammar). -/
theorem C17.gen_line (c : Ctx) (strict : Bool) (ls : List Line) (w w' : W) (e : Err) (hls : ∀ l ∈ ls, LineOk l)
    (h : genRead c strict ls w = .error (e, w')) :
    (∃ l ∈ ls, DepErr c l e) ∨ e = ⟨c.self, none⟩ ∨ ∃ n, e = ⟨c.self, some n⟩ ∧ n ∈ culpritLineNos 1 ls := by
  rw [genRead_eq c strict ls w hls] at h
  exact C17.line c ls w w' e h

/-- **The lazily committed attribute, end to end, over the generated automaton.**  The text is `pre`, the attribute statement `l`
    whose constructor will raise, statement-less lines `gap`, then nothing or a statement that does not fail before its first
    flush: the read fails with the own path and the number of `l`'s OWN line, whatever line the commit happens on, and nothing
    behind `l` has been delivered or read. -/
theorem C17.gen_commit_fault_line (c : Ctx) (strict : Bool) (w : W) (pre gap rest : List Line) (l : Line) (core : Core) (s0 s1 : St)
    (hls : ∀ x ∈ pre ++ l :: (gap ++ rest), LineOk x)
    (hsyn : ∀ x ∈ pre ++ l :: (gap ++ rest), x.fault ≠ some .syn)
    (hpre : runLines c 1 (St.init w) pre = .ok s0)
    (hvis : visitStmt c (lineAfter 1 pre) l (.attr core) s0 = .ok s1)
    (hl : l.stmt = some (.attr core)) (hbad : l.fault = some .commit)
    (hgap : ∀ x ∈ gap, x.stmt = none) (hrest : RestOk rest) :
    genRead c strict (pre ++ l :: (gap ++ rest)) w = .error (⟨c.self, some (lineAfter 1 pre)⟩, s1.w) := by
  rw [genRead_eq c strict _ w hls]
  exact C17.commit_fault_line c w pre gap rest l core s0 s1 hsyn hpre hvis hl hbad hgap hrest

/-- … the same for the commit that fails because the attribute is a field of a union whose `_offset_` was evaluated. -/
theorem C17.gen_commit_union_offset_line (c : Ctx) (strict : Bool) (w : W) (pre gap rest : List Line) (l : Line) (core : Core) (s0 s1 : St)
    (hls : ∀ x ∈ pre ++ l :: (gap ++ rest), LineOk x)
    (hsyn : ∀ x ∈ pre ++ l :: (gap ++ rest), x.fault ≠ some .syn)
    (hpre : runLines c 1 (St.init w) pre = .ok s0)
    (hvis : visitStmt c (lineAfter 1 pre) l (.attr core) s0 = .ok s1)
    (hl : l.stmt = some (.attr core)) (hk : core.kind ≠ .const) (hu : (s1.cur.union && s1.cur.offsetUsed) = true)
    (hgap : ∀ x ∈ gap, x.stmt = none) (hrest : RestOk rest) :
    genRead c strict (pre ++ l :: (gap ++ rest)) w = .error (⟨c.self, some (lineAfter 1 pre)⟩, s1.w) := by
  rw [genRead_eq c strict _ w hls]
  exact C17.commit_union_offset_line c w pre gap rest l core s0 s1 hsyn hpre hvis hl hk hu hgap hrest

/-- `@print` over the generated automaton: a definition without references that is read successfully delivers every `@print`
    exactly once, in source order, with its own line. -/
theorem C17.gen_print_once (c : Ctx) (strict : Bool) (ls : List Line) (w w' : W) (comp : Composite) (hls : ∀ l ∈ ls, LineOk l)
    (hd : ∀ l ∈ ls, l.deps = []) (h : genRead c strict ls w = .ok (comp, w')) :
    w'.prints = w.prints ++ specPrints c.printFile 1 ls := by
  rw [genRead_eq c strict ls w hls] at h
  exact C17.print_once_partial c ls w w' comp hd h

/-- … and a failed read has delivered exactly the `@print` statements in front of the reported line (none on a syntax error,
    all on a finalize error). -/
theorem C17.gen_prints_before_error (c : Ctx) (strict : Bool) (ls : List Line) (w w' : W) (e : Err) (hls : ∀ l ∈ ls, LineOk l)
    (hd : ∀ l ∈ ls, l.deps = []) (h : genRead c strict ls w = .error (e, w')) :
    e.file = c.self ∧ w'.cached = w.cached ∧
    (∀ k, firstSyntaxError 1 ls = some k → e.line = some k ∧ w' = w) ∧
    (firstSyntaxError 1 ls = none →
      (∀ n, e.line = some n → w'.prints = w.prints ++ specPrints c.printFile 1 (linesBefore n 1 ls)) ∧
      (e.line = none → w'.prints = w.prints ++ specPrints c.printFile 1 ls)) := by
  rw [genRead_eq c strict ls w hls] at h
  exact C17.prints_before_error c ls w w' e hd h

/-- why an error carries line `n`, over the generated automaton (the converse of `gen_commit_fault_line`) -/
theorem C17.gen_line_cause (c : Ctx) (strict : Bool) (ls : List Line) (w w' : W) (e : Err) (hls : ∀ l ∈ ls, LineOk l)
    (hsyn : firstSyntaxError 1 ls = none) (h : genRead c strict ls w = .error (e, w')) :
    (∃ l ∈ ls, DepErr c l e) ∨ e = ⟨c.self, none⟩ ∨ ∃ n, e = ⟨c.self, some n⟩ ∧ LineCause c w ls n w' := by
  rw [genRead_eq c strict ls w hls] at h
  exact C17.line_cause c ls w w' e hsyn h

namespace C17.GenExamples
open C17.Examples
/-- the generated `parse` on `uint8 a`, `uint8 _b_`, `# c1`, `# c2`, ``, ``, `@sealed`, `` -/
def runF5 : Res GParser GExc Unit := parse (env ctx) (ext ctx) (docEvents 1 f5) (ofB ctx (St.init W.init)) false
/-- … on `@print 1`, `uint8 _b_`, `# c`, `@print 2`, `@sealed` -/
def runPb1 : Res GParser GExc Unit := parse (env ctx) (ext ctx) (docEvents 1 pb1) (ofB ctx (St.init W.init)) false
/-- … on `@print 'a⏎b'` (two physical lines), `@assert false`, `@sealed` -/
def runMl : Res GParser GExc Unit := parse (env ctx) (ext ctx) (docEvents 1 ml) (ofB ctx (St.init W.init)) false
end C17.GenExamples

open C17.Examples C17.GenExamples in
/-- non-vacuity: the generated `parse` itself raises with the attribute's own line 2 although the commit happens while the
    visitor is on the empty line 5; with line 2 and only the first `@print` delivered when the commit happens at line 4; a failed
    assertion behind a statement that spans two physical lines is reported on line 3, with the own path -/
example : (∀ l ∈ f5, LineOk l) ∧ (∀ l ∈ pb1, LineOk l) ∧ (∀ l ∈ ml, LineOk l) ∧
    runF5.1 = .error (.dsdl ⟨none, some 2⟩) ∧ runF5.2.current_line_number = 5 ∧
    runPb1.1 = .error (.dsdl ⟨none, some 2⟩) ∧ runPb1.2.current_line_number = 4 ∧
    runPb1.2.statement_stream_processor.print_output_handler = [⟨0, 1, "1"⟩] ∧
    runMl.1 = .error (.dsdl ⟨some 0, some 3⟩) ∧
    errPart (genRead ctx false f5 W.init) = some (⟨0, some 2⟩, W.init) ∧
    errPart (genRead ctx false pb1 W.init) = some (⟨0, some 2⟩, ⟨[], [⟨0, 1, "1"⟩]⟩) := by
  refine ⟨by decide, by decide, by decide, by decide +kernel, by decide +kernel, by decide +kernel, by decide +kernel, by decide +kernel,
    by decide +kernel, by decide +kernel, by decide +kernel⟩

open C17.Examples in
/-- non-vacuity of `gen_commit_fault_line`: its hypotheses hold for the example of `Props/C17.lean` (all lines well formed) -/
example : (∀ x ∈ cfPre ++ cfL :: (cfGap ++ cfRest1), LineOk x) ∧ (∀ x ∈ cfPre ++ cfL :: (cfGap ++ cfRest2), LineOk x) ∧
    errPart (genRead ctx false (cfPre ++ cfL :: (cfGap ++ cfRest1)) W.init) = some (⟨0, some 2⟩, ⟨[], [⟨0, 1, "1"⟩]⟩) := by
  refine ⟨by decide, by decide, by decide +kernel⟩

open C17.Examples in
/-- non-vacuity of `gen_print_once`: two `@print`s delivered with lines 1 and 3 by the generated code -/
example : (∀ l ∈ pr, LineOk l) ∧ (okPart (genRead ctx false pr W.init)).map (·.2.prints) = some [⟨0, 1, "1"⟩, ⟨0, 3, "2"⟩] := by
  refine ⟨by decide, by decide +kernel⟩
