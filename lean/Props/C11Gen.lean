import Bridge.Namespace
import Props.C11
/-!
# C11 over the code generated from `_namespace.py`

`_ensure_no_fixed_port_id_collisions` and `_ensure_minor_version_compatibility_pairwise` are translated from the working
tree of /repo on every run.  For every list of definitions (`compI` presents a definition the way the Python code reads
it: name, version, kind, port-ID, extent, sealing, request / response sections) the generated code accepts exactly the
sets the Specification's rule accepts, and raises the exception class the model predicts.
-/
open Ns Bridge

/-- The generated port-ID collision check accepts a set of definitions iff no two of them that must have different
    port-IDs share one. -/
theorem C11.gen_ports_iff (ds : List TyInfo) :
    Gen.Namespace.ensure_no_fixed_port_id_collisions (ds.map compI) = .ok () ↔ Spec.portIdsConsistent ds := by
  rw [collisions_ok, ← C11.ports_iff]
  cases h : checkPortIdCollisions ds with
  | ok u => cases u; simp [lift]
  | error e => simp [lift]

/-- ... and otherwise raises `FixedPortIDCollisionError`. -/
theorem C11.gen_ports_error (ds : List TyInfo) (e : Py.Err)
    (h : Gen.Namespace.ensure_no_fixed_port_id_collisions (ds.map compI) = .error e) :
    e = .other "FixedPortIDCollisionError" := by
  rw [collisions_ok] at h
  unfold checkPortIdCollisions at h
  split at h <;> simp [lift, errOf] at h
  exact h.symm

/-- The generated pairwise minor-version check (with its recursion into request and response) computes the model's
    verdict for every two definitions of one name and major version, exception class included. -/
theorem C11.gen_pairwise (a b : TyInfo) (hn : a.name = b.name) (hm : a.major = b.major) :
    genPair (compI a) (compI b) = lift (minorPair a b) := pair_ok a b hn hm

theorem C11.gen_pairwise_accepts_iff (a b : TyInfo) (hn : a.name = b.name) (hm : a.major = b.major) :
    genPair (compI a) (compI b) = .ok () ↔ minorPair a b = .ok () := by
  rw [pair_ok a b hn hm]
  cases h : minorPair a b with
  | ok u => cases u; simp [lift]
  | error e => simp [lift]

section NonVacuity
private def sec (s : Bool) (e : Nat) : SecInfo := ⟨s, e, []⟩
example : genPair (compI ⟨"ns.T", 1, 0, none, false, sec true 8, sec true 8, [], []⟩)
                  (compI ⟨"ns.T", 1, 1, some 7000, false, sec true 8, sec true 8, [], []⟩) = .ok () := by decide
example : genPair (compI ⟨"ns.T", 1, 0, none, false, sec true 8, sec true 8, [], []⟩)
                  (compI ⟨"ns.T", 1, 1, none, false, sec true 16, sec true 16, [], []⟩)
            = .error (.other "ExtentConsistencyError") := by decide
end NonVacuity
