import Bridge.Layout
/-!
# C02 over the code generated from `_serializable/_array.py` and `_composite.py`

`Gen/Layout.lean` is rewritten from the working tree of /repo by `tools/py2lean.py` on every run: the constructor
slices that compute the bit length set of fixed / variable-length arrays, structures, unions and delimited types,
`CompositeType.alignment_requirement`, `UnionType._compute_tag_bit_length`, both `aggregate_bit_length_sets`.
`Bridge.genTy` builds a type tree with them, the way the Python constructors nest.  The theorems are therefore about
what the source says now, for every constructible type (no bound on nesting, capacities up to 2⁶⁴−1, any extent).
-/
open scoped Pointwise
open Bls Layout Bridge

/-- Building any constructible type with the generated constructor code succeeds — no `if …: raise` guard and no
    `assert` fires — and yields exactly the model's alignment, bit length set expression and extent. -/
theorem C02.gen_constructors_refine_model (t : Ty) (h : t.wf = true) : genTy t = .ok (tyI t) := genTy_ok t h

/-- The set denoted by the generated bit length set expression of a type is the Specification's set of lengths,
    and all of them are multiples of the generated alignment. -/
theorem C02.gen_bls_is_spec (t : Ty) (h : t.wf = true) :
    ∃ ti, genTy t = .ok ti ∧ den ti.bit_length_set = specLens t ∧ ∀ l ∈ specLens t, ti.alignment_requirement ∣ l :=
  ⟨tyI t, genTy_ok t h, den_bls t h, align_dvd_len t h⟩

/-- The generated length-prefix computation (`2 ** ceil(log2(max(8, capacity.bit_length())))`, then `max` with the
    alignment) yields the smallest standard width that can hold the capacity. -/
theorem C02.gen_length_prefix (e : Ty) (cap : ℕ) (h : (Ty.varr e cap).wf = true) :
    ∃ w, Gen.VariableLengthArrayType.length_field_length (tyI e) cap = .ok (max w e.align) ∧ smallestStd cap = some w := by
  obtain ⟨w, hw, hl⟩ := (C02.length_prefix e cap).1 h
  exact ⟨w, by rw [length_field_ok e cap h, hl], hw⟩

/-- The generated `_compute_tag_bit_length` yields the smallest standard width that can hold the largest tag. -/
theorem C02.gen_union_tag (fs : List Ty) (h : (Ty.union fs).wf = true) :
    Gen.UnionType.compute_tag_bit_length (fs.map tyI) = .ok (tagBits fs) ∧ tagBits fs ∈ [8, 16, 32, 64] := by
  simp only [Ty.wf, Bool.and_eq_true, decide_eq_true_eq] at h
  refine ⟨compute_tag_ok fs h.1.2 h.2, ?_⟩
  have hs : stdWidth (fs.length - 1) ≤ 64 := le_trans (Nat.le_max_left _ _) h.2
  have := stdWidth_mem _ hs
  have hm : maxAlign fs ≤ 8 := maxAlign_le fs (fun f _ => align_cases f)
  simp only [tagBits, List.mem_cons, List.not_mem_nil, or_false] at this ⊢
  omega

/-- The generated constructor of a delimited type: accepted extents give `header + {0, a, 2a, …, extent}`, irrespective of
    the fields of the inner type. -/
theorem C02.gen_delimited (inner : Ty) (ext : ℕ) (h : (Ty.delim inner ext).wf = true) :
    Gen.DelimitedType.bls inner.align (tyI inner) ext
      = .ok (.cat [.leaf [hdrBits inner], .rrep (.leaf [inner.align]) (ext / inner.align)]) := by
  rw [delim_bls_ok inner ext h]; simp only [Ty.bls]

/-! ### Non-vacuity -/
example : (Ty.struct [.prim 3, .varr (.union [.prim 8, .farr (.prim 64) 2]) (2 ^ 32), .void 5]).wf = true := by decide +kernel
example : (Ty.delim (.union [.prim 8, .farr (.prim 64) 2]) 256).wf = true := by
  simp [Ty.wf, wfList, Ty.bls, aggUnion, blsList, Op.max, sumMax, maxMax, maxL, tagBits, maxAlign, Ty.align, padTo]
  decide +kernel
