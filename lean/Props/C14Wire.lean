import Proofs.WireCtxRt
import Props.C06
/-! C14, wire half — data written with one revision of a delimited structure and read with another
    (same extent or not: the wire does not depend on it), on the model `Model/Wire.lean`. -/
open Wire

/-- Fields appended (`D' = D ++ gs`), old writer, new reader: common leading fields keep their values, fields
    unknown to the writer read as their defaults, and the reader ends exactly where the writer's representation
    ends — at any byte-aligned offset, with anything following (so every later field or array element of any
    container is read from the right position). -/
theorem C14.wire_appended (fs gs : List Ty) (x x' : Nat) (vs : List Val) (o : Nat) (junk : List Bool)
    (hw : (Ty.struct fs (.delimited x)).wf = true) (hw' : (Ty.struct (fs ++ gs) (.delimited x')).wf = true)
    (hv : valid (.struct fs (.delimited x)) (.recd vs) = true) (ho : o % 8 = 0) :
    dec (.struct (fs ++ gs) (.delimited x')) ⟨o, enc (.struct fs (.delimited x)) (.recd vs) o ++ junk⟩
      = .ok (.recd (vs ++ dfltFields gs),
             ⟨o + (enc (.struct fs (.delimited x)) (.recd vs) o).length, junk⟩) :=
  rev_appended fs gs x x' vs o junk hw hw' hv ho

example : (Ty.struct [.uint 3 .sat] (.delimited 64)).wf = true ∧
    (Ty.struct ([.uint 3 .sat] ++ [.sint 16 .sat, .varr .utf8 3]) (.delimited 64)).wf = true ∧
    valid (.struct [.uint 3 .sat] (.delimited 64)) (.recd [.int 5]) = true := by decide

/-- Fields removed, new writer, old reader: common leading fields keep their values, fields unknown to the
    reader are skipped, and the reader again ends exactly where the writer's representation ends. -/
theorem C14.wire_removed (fs gs : List Ty) (x x' : Nat) (vs ws : List Val) (o : Nat) (junk : List Bool)
    (hw : (Ty.struct (fs ++ gs) (.delimited x)).wf = true) (hlen : vs.length = fs.length)
    (hv : valid (.struct (fs ++ gs) (.delimited x)) (.recd (vs ++ ws)) = true) (ho : o % 8 = 0) :
    dec (.struct fs (.delimited x')) ⟨o, enc (.struct (fs ++ gs) (.delimited x)) (.recd (vs ++ ws)) o ++ junk⟩
      = .ok (.recd vs, ⟨o + (enc (.struct (fs ++ gs) (.delimited x)) (.recd (vs ++ ws)) o).length, junk⟩) :=
  rev_removed fs gs x x' vs ws o junk hw hlen hv ho

example : (Ty.struct ([.uint 3 .sat] ++ [.sint 16 .sat]) (.delimited 64)).wf = true ∧
    valid (.struct ([.uint 3 .sat] ++ [.sint 16 .sat]) (.delimited 64)) (.recd ([.int 5] ++ [.int (-2)])) = true := by
  decide

/-- "Zero / empty" made precise: the default of a type is what an exhausted (all-zero) window decodes to. -/
theorem C14.unknown_fields_read_as_zero (gs : List Ty) (hw : wfFields gs = true) (o k : Nat) :
    ∃ o' k', decFields gs ⟨o, zeros k⟩ = .ok (dfltFields gs, ⟨o', zeros k'⟩) :=
  decFields_zeros gs hw o k

/-- The full statement: the same at every nesting position `C` (field, variant, array element, nested in
    sealed or delimited composites, to any depth). -/
def C14.wire_statement : Prop :=
  ∀ (C : Ctx) (fs gs : List Ty) (x x' : Nat) (v : Val) (o : Nat) (junk : List Bool),
    (C.fill (.struct fs (.delimited x))).wf = true → (C.fill (.struct (fs ++ gs) (.delimited x'))).wf = true →
    o % 8 = 0 →
    (valid (C.fill (.struct fs (.delimited x))) v = true →
      dec (C.fill (.struct (fs ++ gs) (.delimited x'))) ⟨o, enc (C.fill (.struct fs (.delimited x))) v o ++ junk⟩
        = .ok (C.map (appendDefaults gs) v, ⟨o + (enc (C.fill (.struct fs (.delimited x))) v o).length, junk⟩)) ∧
    (valid (C.fill (.struct (fs ++ gs) (.delimited x'))) v = true →
      dec (C.fill (.struct fs (.delimited x))) ⟨o, enc (C.fill (.struct (fs ++ gs) (.delimited x'))) v o ++ junk⟩
        = .ok (C.map (dropFields fs.length) v,
               ⟨o + (enc (C.fill (.struct (fs ++ gs) (.delimited x'))) v o).length, junk⟩))

/-- C14, wire half, at full strength: both directions, at every nesting position. -/
theorem C14.wire : C14.wire_statement := by
  intro C fs gs x x' v o junk hw hw' ho
  have hD : (Ty.struct fs (.delimited x)).align = 8 := rfl
  have hD' : (Ty.struct (fs ++ gs) (.delimited x')).align = 8 := rfl
  constructor
  · intro hv
    have hR : Reads (.struct fs (.delimited x)) (.struct (fs ++ gs) (.delimited x')) (appendDefaults gs) := by
      intro u hu o junk ho
      cases u with
      | recd vs => exact rev_appended fs gs x x' vs o junk (wf_fill C _ hw) (wf_fill C _ hw') hu ho
      | _ => simp [valid] at hu
    exact reads_fill _ _ _ hD hD' hR C hw hw' v hv o junk ho
  · intro hv
    have hR : Reads (.struct (fs ++ gs) (.delimited x')) (.struct fs (.delimited x)) (dropFields fs.length) := by
      intro u hu o junk ho
      cases u with
      | recd us =>
        have hlen : us.length = (fs ++ gs).length := validFields_length _ _ (by simpa [valid] using hu)
        obtain ⟨vs, ws, rfl, hvl⟩ : ∃ vs ws, us = vs ++ ws ∧ vs.length = fs.length :=
          ⟨us.take fs.length, us.drop fs.length, (List.take_append_drop _ _).symm, by
            simp only [List.length_take, List.length_append] at hlen ⊢; omega⟩
        have := rev_removed fs gs x' x vs ws o junk (wf_fill C _ hw') hvl hu ho
        simpa only [dropFields, ← hvl, List.take_left'] using this
      | _ => simp [valid] at hu
    exact reads_fill _ _ _ hD' hD hR C hw' hw v hv o junk ho

/-- a nested instance of the hypotheses: `D` as element of a variable array that is the second field of a
    structure, followed by another field -/
example :
    let C : Ctx := .field [.uint 3 .sat] (.varr .hole 3) [.uint 8 .sat] .sealed
    (C.fill (.struct [.uint 8 .sat] (.delimited 64))).wf = true ∧
    (C.fill (.struct ([.uint 8 .sat] ++ [.sint 16 .sat]) (.delimited 64))).wf = true ∧
    valid (C.fill (.struct [.uint 8 .sat] (.delimited 64)))
      (.recd [.int 5, .arr [.recd [.int 1], .recd [.int 2]], .int 77]) = true := by decide
