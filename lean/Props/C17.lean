import Proofs.ReaderLoc
import Proofs.ReaderPrint
/-!
C17 — errors and @print output are attributed to the right file and line.

Statements about `Reader.readText` / `Reader.readTargets` (lean/Model/Reader.lean): the reader with the line counter of
`_parser.py`, the rule of `Error.set_error_location_if_unknown` ("only if unknown, innermost first") as applied by
`_parser.parse` and `DSDLDefinition.read`, and the print handler bound to a target path.

Three parts of the property are false for the real code and therefore for the model that mirrors it; each is kept as a
`…_statement` with a decided counterexample, and the part that holds is proved as `…_partial`:
  * lazily committed attributes (bad name, bad constant, field after `_offset_` in a union) report the line of the commit;
  * a finalize-time error of a referenced definition gets the line of the referring statement;
  * a `@print` in a referenced definition is delivered with the referrer's path, and twice if the definition was read
    as a target before.
-/
open Reader

/-- Full statement (false): a reported line of the own file is a line that holds a statement. -/
def C17.line_statement : Prop :=
  ∀ (c : Ctx) (ls : List Line) (w w' : W) (e : Err), readText c ls w = .error (e, w') → e.file = c.self →
    ∀ n, e.line = some n → ∃ l, ls[n - 1]? = some l ∧ (l.stmt.isSome ∨ l.fault = some .syn)

/-- Proved part: in a text without lazily failing attributes (no constructor fault of a queued attribute, no `_offset_`),
    a failed read reports
      * no line and the own path (a finalize-time error), or
      * the own path and the number of the first line whose visit raises — a line that holds a statement (or the first
        line that does not match the grammar); all earlier lines passed; or
      * the located error of a referenced definition of that line (`DepErr`: path kept, known line kept).
    Blank lines, comments, line endings and whatever follows the statement have no influence. -/
theorem C17.line_partial (c : Ctx) (ls : List Line) (w w' : W) (e : Err)
    (hn : ∀ l ∈ ls, l.noLazy) (h : readText c ls w = .error (e, w')) :
    e = ⟨c.self, none⟩ ∨
    ∃ ls₁ l ls₂, ls = ls₁ ++ l :: ls₂ ∧ (l.stmt.isSome ∨ l.fault = some .syn) ∧
      (e = ⟨c.self, some (ls₁.length + 1)⟩ ∨ DepErr c (ls₁.length + 1) l e) := by
  unfold readText at h
  split at h
  · rename_i k hk
    obtain ⟨ls₁, l, ls₂, e1, e2, _, e4⟩ := firstSyntaxError_some _ _ hk
    right
    refine ⟨ls₁, l, ls₂, e1, Or.inr e2, Or.inl ?_⟩
    simp at h
    rw [← h.1, e4, Nat.add_comm]
  · rw [bind_err] at h
    rcases h with h | ⟨s, hs, h⟩
    · obtain ⟨ls₁, l, ls₂, s₁, e1, _, e3, e4⟩ := runLines_err ls 1 _ e w' hn (Safe_init w) h
      right
      refine ⟨ls₁, l, ls₂, e1, Or.inl e3, ?_⟩
      rw [Nat.add_comm] at e4
      exact e4
    · have hsafe := runLines_safe ls _ _ _ hn (Safe_init w) hs
      rw [bind_err] at h
      rcases h with h | ⟨s', hf, h⟩
      · obtain ⟨s2, h2, _⟩ := flush_safe (c := c) (k := max 1 ls.length) hsafe
        rw [h2] at h; cases h
      · left
        rw [map_err] at h
        simp only [finalize] at h
        split at h
        · simp [raise] at h; exact h.1.symm
        · cases h

/-- Unconditionally: whatever is raised while line `k` is visited leaves with line `k` and the own path, or is a located
    error of a referenced definition; a line that is already known is never overwritten. -/
theorem C17.line_current (c : Ctx) (k : Nat) (s : St) (l : Line) (w' : W) (e : Err)
    (h : stepLine c k s l = .error (e, w')) : e = ⟨c.self, some k⟩ ∨ DepErr c k l e :=
  stepLine_err h

theorem C17.dependency_line_kept (c : Ctx) (k : Nat) (l : Line) (e : Err) (h : DepErr c k l e) :
    ∃ e0 : Err, e.file = e0.file ∧ (∀ n, e0.line = some n → e.line = some n) ∧ (e0.line = none → e.line = some k) := by
  obtain ⟨_, _, e0, _, _, _, he⟩ := h
  refine ⟨e0, by rw [he], ?_, ?_⟩
  · intro n hn; rw [he]; simp [hn]
  · intro hn; rw [he]; simp [hn]

/-- `@print`: a definition without references that is read successfully delivers every `@print` statement exactly once,
    in source order, with its own line and the path the handler is bound to, and nothing else. -/
theorem C17.print_once_partial (c : Ctx) (ls : List Line) (w w' : W) (comp : Composite)
    (hd : ∀ l ∈ ls, l.deps = []) (h : readText c ls w = .ok (comp, w')) :
    w'.prints = w.prints ++ specPrints c.printFile 1 ls :=
  (readText_prints hd h).2

/-- … and for a whole namespace whose definitions do not refer to each other: every `@print` of every target exactly
    once, with the target's own path. -/
theorem C17.print_once_namespace_partial (defs : List Def) (ts : List Nat) (res : List (Nat × Composite)) (w' : W)
    (hd : ∀ d ∈ defs, d.noDeps) (h : readTargets defs ts W.init [] = .ok (res, w')) :
    w'.prints = ts.flatMap (fun t => specPrints t 1 ((defs[t]?.map (·.lines)).getD [])) := by
  have := (readTargets_prints defs hd ts W.init [] res w' rfl h).2
  simpa [W.init] using this

/-- is `p` the delivery of a `@print` statement that stands at path `p.file`, line `p.line`? -/
def C17.printAt (defs : List Def) (p : Print) : Bool :=
  match defs[p.file]? with
  | some d => match d.lines[p.line - 1]? with
    | some l => decide (linePrints p.file p.line l = [p])
    | none => false
  | none => false

/-- Full statement (false): every delivery is a `@print` statement at the delivered path and line, and no delivery
    happens twice. -/
def C17.print_once_statement : Prop :=
  ∀ (defs : List Def) (ts : List Nat) (res : List (Nat × Composite)) (w' : W),
    readTargets defs ts W.init [] = .ok (res, w') →
    w'.prints.Nodup ∧ ∀ p ∈ w'.prints, C17.printAt defs p = true

/-- Full statement (false): a reported line exists in the reported file. -/
def C17.dependency_line_statement : Prop :=
  ∀ (defs : List Def) (ts : List Nat) (e : Err) (w' : W), readTargets defs ts W.init [] = .error (e, w') →
    ∀ n, e.line = some n → ∃ d, defs[e.file]? = some d ∧ n ≤ d.lines.length

namespace C17.Examples
def ctx : Ctx := ⟨0, 0, 1, fun w _ => (w, none), false⟩
def ln (s : Option Stmt) (c : Option String := none) (e : Bool := false) (f : Option Phase := none) (deps : List Nat := []) : Line :=
  ⟨s, [], deps, false, f, c, e, false⟩
def fld (n : String) (f : Option Phase := none) : Line := ln (some (.attr ⟨.field, n, "saturated uint8", ""⟩)) none false f
def dir (n : String) (e : Option EVal := none) (t : String := "") : Line := ln (some (.directive n e t))
/-- `uint8 a`, `uint8 _b_`, `# c1`, `# c2`, ``, ``, `@sealed`, `` -/
def f5 : List Line := [fld "a", fld "_b_" (some .commit), ln none (some " c1"), ln none (some " c2"), ln none none true, ln none none true, dir "sealed", ln none none true]
/-- A = ``, `# …`, `# …`, `# …`, `ns.B.1.0 b`, `@sealed`;  B = `uint8 a`, `uint8 a`, `@sealed` -/
def f6 : List Def :=
  [⟨[ln none none true, ln none (some " 1"), ln none (some " 2"), ln none (some " 3"), ln (some (.attr ⟨.field, "b", "ns.B.1.0", ""⟩)) none false none [1], dir "sealed"], false⟩,
   ⟨[fld "a", fld "a", dir "sealed"], false⟩]
/-- B(0) = ``, `ns.A.1.0 b`, `@sealed`;  A(1) = `uint8 a`, ``, `@print 1`, `@sealed`; A is read first as a target -/
def f7 : List Def :=
  [⟨[ln none none true, ln (some (.attr ⟨.field, "b", "ns.A.1.0", ""⟩)) none false none [1], dir "sealed"], false⟩,
   ⟨[fld "a", ln none none true, dir "print" (some (.rational 1)) "1", dir "sealed"], false⟩]
/-- `uint8 a`, `int1 x` (line 2, the type constructor raises), `@sealed` -/
def pre : List Line := [fld "a", fld "x" (some .pre), dir "sealed"]
/-- `@print 1`, ``, `@print 2`, `@sealed` -/
def pr : List Line := [dir "print" (some (.rational 1)) "1", ln none none true, dir "print" (some (.rational 2)) "2", dir "sealed"]
end C17.Examples

open C17.Examples in
/-- the invalid attribute of line 2 is reported at line 5, an empty line -/
theorem C17.line_commit_counterexample : ¬ C17.line_statement := by
  intro hs
  have h : errPart (readText ctx f5 W.init) = some (⟨0, some 5⟩, W.init) := by decide
  cases hr : readText ctx f5 W.init with
  | ok r => rw [hr] at h; simp [errPart] at h
  | error e =>
    rw [hr] at h; simp [errPart] at h
    have := hs ctx f5 W.init e.2 e.1 (by rw [hr]) (by rw [h]; rfl) 5 (by rw [h])
    revert this
    decide

open C17.Examples in
/-- the duplicate field of B (3 lines) is reported with B's path and line 5 — the referring line of A -/
theorem C17.dependency_line_counterexample : ¬ C17.dependency_line_statement := by
  intro hs
  have h : (match readTargets f6 [0, 1] W.init [] with | .error (e, _) => some e | .ok _ => none) = some ⟨1, some 5⟩ := by decide
  cases hr : readTargets f6 [0, 1] W.init [] with
  | ok r => rw [hr] at h; simp at h
  | error e =>
    rw [hr] at h; simp at h
    have := hs f6 [0, 1] e.1 e.2 (by rw [hr]) 5 (by rw [h])
    rw [h] at this
    revert this
    decide

open C17.Examples in
/-- the `@print` on line 3 of A is delivered as (A, 3) and again as (B, 3) -/
theorem C17.print_counterexample : ¬ C17.print_once_statement := by
  intro hs
  have h : (match readTargets f7 [1, 0] W.init [] with | .ok (_, w) => some w.prints | .error _ => none) = some [⟨1, 3, "1"⟩, ⟨0, 3, "1"⟩] := by decide
  cases hr : readTargets f7 [1, 0] W.init [] with
  | error e => rw [hr] at h; simp at h
  | ok r =>
    rw [hr] at h; simp at h
    have := (hs f7 [1, 0] r.1 r.2 (by rw [hr])).2 ⟨0, 3, "1"⟩ (by rw [h]; simp)
    revert this
    decide

open C17.Examples in
/-- non-vacuity of `line_partial`: a text without lazy faults that fails at its line 2 with the own path -/
example : (∀ l ∈ pre, l.noLazy) ∧ errPart (readText ctx pre W.init) = some (⟨0, some 2⟩, W.init) := by
  refine ⟨?_, by decide⟩
  intro l hl
  simp [pre, fld, dir, ln] at hl
  rcases hl with rfl | rfl | rfl <;> simp [Line.noLazy]

open C17.Examples in
/-- non-vacuity of `print_once_partial`: an accepted text with two `@print`s, delivered as (path, 1) and (path, 3) -/
example : (∀ l ∈ pr, l.deps = []) ∧ (okPart (readText ctx pr W.init)).map (·.2.prints) = some [⟨0, 1, "1"⟩, ⟨0, 3, "2"⟩] ∧
    specPrints 0 1 pr = [⟨0, 1, "1"⟩, ⟨0, 3, "2"⟩] := by
  refine ⟨?_, by decide, by decide⟩
  intro l hl
  simp [pr, dir, ln] at hl
  rcases hl with rfl | rfl | rfl | rfl <;> rfl
