import Proofs.ReaderLoc
import Proofs.ReaderPrint
import Proofs.ReaderCommit
import Proofs.ReaderPrintErr
import Proofs.ReaderCause
import Proofs.ReaderCulprit
import Proofs.ReaderPrintDeps
/-!
C17 — errors and @print output are attributed to the right file and line.

Statements about `Reader.readText` / `Reader.readTargets` (lean/Model/Reader.lean): the reader with the line counter of
`_parser.py` (line breaks inside string literals included), the line of the attribute statement that awaits its doc
comment (`_last_attribute_line_number`), the rule "a line is attached only to an error that names no file yet" of
`_parser.parse`, `Error.set_error_location_if_unknown`, `DSDLDefinition.read`, and the print handler bound to a target
path.

One part of the property is false for the real code and therefore for the model that mirrors it: a `@print` in a
referenced definition is delivered with the referrer's path, and twice if the definition was read as a target before.
It is kept as `C17.print_once_statement` with a decided counterexample; the part that holds is proved as `…_partial`.
-/
open Reader

/-- A failed read reports
      * the untouched error of a referenced definition (its path, its line), or
      * the own path and no line (an error found when the definition is finalized), or
      * the own path and the number of a line that holds a statement (or does not match the grammar) — never a blank
        line, a comment line or a line number that does not exist.
    For every document, every line shape, every continuation of statements over several physical lines. -/
theorem C17.line (c : Ctx) (ls : List Line) (w w' : W) (e : Err) (h : readText c ls w = .error (e, w')) :
    (∃ l ∈ ls, DepErr c l e) ∨ e = ⟨c.self, none⟩ ∨ ∃ n, e = ⟨c.self, some n⟩ ∧ n ∈ culpritLineNos 1 ls :=
  readText_err h

/-- Which line: whatever is raised while line `k` is visited is the untouched error of a referenced definition, or
    carries line `k` itself — then `k` holds a statement —, or the line of the attribute statement that was waiting for
    its doc comment (`P` = what is known about that line). -/
theorem C17.line_current (P : Nat → Prop) (c : Ctx) (k : Nat) (s : St) (l : Line) (w' : W) (e : Err)
    (hk : 0 < k) (hl : LInv P s) (h : stepLine c k s l = .error (e, w')) :
    DepErr c l e ∨ (e = ⟨c.self, some k⟩ ∧ l.stmt.isSome) ∨ (∃ n, e = ⟨c.self, some n⟩ ∧ P n) :=
  stepLine_err hk hl h

/-- Lazily committed attributes: an error raised while the queued attribute is committed (bad name, bad constant, field
    after `_offset_` in a union) — at whatever later line that happens — carries the line of the attribute's own
    statement. -/
theorem C17.line_commit (P : Nat → Prop) (c : Ctx) (k : Nat) (s : St) (w' : W) (e : Err)
    (hl : LInv P s) (h : flush c k s = .error (e, w')) :
    ∃ a bad, s.pending = some (a, bad) ∧ e = ⟨c.self, some a.line⟩ :=
  flush_err_attr hl h

/-- The path, at any dependency depth: the definition at the reported path fails on its own — reading it raises exactly
    the reported error, whose line (if any) is the number of one of its own statement lines.  (The alternative is the
    out-of-range path with which the model reports a reference chain longer than the namespace, i.e. a cycle.) -/
theorem C17.path (defs : List Def) (ts : List Nat) (w w' : W) (acc : List (Nat × Composite)) (e : Err)
    (ht : ∀ t ∈ ts, t < defs.length) (h : readTargets defs ts w acc = .error (e, w')) :
    FailsItself defs e ∨ e = ⟨defs.length, none⟩ :=
  readTargets_path defs ts w acc e w' ht h

/-- `@print`: a definition without references that is read successfully delivers every `@print` statement exactly once,
    in source order, with its own line and the path the handler is bound to, and nothing else. -/
theorem C17.print_once_partial (c : Ctx) (ls : List Line) (w w' : W) (comp : Composite)
    (hd : ∀ l ∈ ls, l.deps = []) (h : readText c ls w = .ok (comp, w')) :
    w'.prints = w.prints ++ specPrints c.printFile 1 ls :=
  (readText_prints hd h).2

/-- … and for a whole namespace whose definitions do not refer to each other: every `@print` of every target exactly
    once, with the target's own path. -/
theorem C17.print_once_namespace_partial (defs : List Def) (ts : List Nat) (res : List (Nat × Composite)) (w' : W)
    (hd : ∀ d ∈ defs, d.noDeps) (h : readTargets defs ts W.init [] = .ok (res, w')) :
    w'.prints = ts.flatMap (fun t => specPrints t 1 ((defs[t]?.map (·.lines)).getD [])) := by
  have := (readTargets_prints defs hd ts W.init [] res w' rfl h).2
  simpa [W.init] using this

/-- is `p` the delivery of a `@print` statement that stands at path `p.file`, line `p.line`? (lines without embedded
    line breaks) -/
def C17.printAt (defs : List Def) (p : Print) : Bool :=
  match defs[p.file]? with
  | some d => match d.lines[p.line - 1]? with
    | some l => decide (linePrints p.file p.line l = [p])
    | none => false
  | none => false

/-- Full statement (false): every delivery is a `@print` statement at the delivered path and line, and no delivery
    happens twice. -/
def C17.print_once_statement : Prop :=
  ∀ (defs : List Def) (ts : List Nat) (res : List (Nat × Composite)) (w' : W),
    readTargets defs ts W.init [] = .ok (res, w') →
    w'.prints.Nodup ∧ ∀ p ∈ w'.prints, C17.printAt defs p = true

namespace C17.Examples
def ctx : Ctx := ⟨0, 0, 1, fun w _ => (w, none), false⟩
def ln (s : Option Stmt) (c : Option String := none) (e : Bool := false) (f : Option Phase := none) (deps : List Nat := [])
    (inner : Nat := 0) : Line :=
  ⟨s, [], deps, false, f, c, e, false, inner⟩
def fld (n : String) (f : Option Phase := none) : Line := ln (some (.attr ⟨.field, n, "saturated uint8", ""⟩)) none false f
def dir (n : String) (e : Option EVal := none) (t : String := "") (inner : Nat := 0) : Line :=
  ln (some (.directive n e t)) none false none [] inner
/-- `uint8 a`, `uint8 _b_`, `# c1`, `# c2`, ``, ``, `@sealed`, `` -/
def f5 : List Line := [fld "a", fld "_b_" (some .commit), ln none (some " c1"), ln none (some " c2"), ln none none true, ln none none true, dir "sealed", ln none none true]
/-- A = ``, `# …`, `# …`, `# …`, `ns.B.1.0 b`, `@sealed`;  B = `uint8 a`, `uint8 a`, `@sealed` -/
def f6 : List Def :=
  [⟨[ln none none true, ln none (some " 1"), ln none (some " 2"), ln none (some " 3"), ln (some (.attr ⟨.field, "b", "ns.B.1.0", ""⟩)) none false none [1], dir "sealed"], false⟩,
   ⟨[fld "a", fld "a", dir "sealed"], false⟩]
/-- B(0) = ``, `ns.A.1.0 b`, `@sealed`;  A(1) = `uint8 a`, ``, `@print 1`, `@sealed`; A is read first as a target -/
def f7 : List Def :=
  [⟨[ln none none true, ln (some (.attr ⟨.field, "b", "ns.A.1.0", ""⟩)) none false none [1], dir "sealed"], false⟩,
   ⟨[fld "a", ln none none true, dir "print" (some (.rational 1)) "1", dir "sealed"], false⟩]
/-- `@print 'a⏎b'` (one statement on two physical lines), `@assert false`, `@sealed` -/
def ml : List Line := [dir "print" (some .other) "'a\\nb'" 1, dir "assert" (some (.boolean false)), dir "sealed"]
/-- `@print 1`, ``, `@print 2`, `@sealed` -/
def pr : List Line := [dir "print" (some (.rational 1)) "1", ln none none true, dir "print" (some (.rational 2)) "2", dir "sealed"]
end C17.Examples

open C17.Examples in
/-- non-vacuity of `line` / `line_commit`: the invalid attribute of line 2, committed at the empty line 5, is reported at
    line 2; the failed assertion behind a two-line string literal at line 3; a finalize-time error of a referenced
    definition with that definition's path and no line -/
example : errPart (readText ctx f5 W.init) = some (⟨0, some 2⟩, W.init) ∧ culpritLineNos 1 f5 = [1, 2, 7] ∧
    (errPart (readText ctx ml W.init)).map (·.1) = some ⟨0, some 3⟩ ∧ culpritLineNos 1 ml = [1, 3, 4] ∧
    (match readTargets f6 [0, 1] W.init [] with | .error (e, _) => some e | .ok _ => none) = some ⟨1, none⟩ := by
  decide

open C17.Examples in
/-- the `@print` on line 3 of A is delivered as (A, 3) and again as (B, 3) -/
theorem C17.print_counterexample : ¬ C17.print_once_statement := by
  intro hs
  have h : (match readTargets f7 [1, 0] W.init [] with | .ok (_, w) => some w.prints | .error _ => none) = some [⟨1, 3, "1"⟩, ⟨0, 3, "1"⟩] := by decide
  cases hr : readTargets f7 [1, 0] W.init [] with
  | error e => rw [hr] at h; simp at h
  | ok r =>
    rw [hr] at h; simp at h
    have := (hs f7 [1, 0] r.1 r.2 (by rw [hr])).2 ⟨0, 3, "1"⟩ (by rw [h]; simp)
    revert this
    decide

open C17.Examples in
/-- non-vacuity of `print_once_partial`: an accepted text with two `@print`s, delivered as (path, 1) and (path, 3) -/
example : (∀ l ∈ pr, l.deps = []) ∧ (okPart (readText ctx pr W.init)).map (·.2.prints) = some [⟨0, 1, "1"⟩, ⟨0, 3, "2"⟩] ∧
    specPrints 0 1 pr = [⟨0, 1, "1"⟩, ⟨0, 3, "2"⟩] := by
  refine ⟨?_, by decide, by decide⟩
  intro l hl
  simp [pr, dir, ln] at hl
  rcases hl with rfl | rfl | rfl | rfl <;> rfl

/-! ### the lazily committed attribute, end to end -/

/-- END TO END, every interleaving.  The text is `pre`, then the attribute statement `l` (with or without a comment of its
    own), then any number of statement-less lines `gap` (comment lines, blank lines, empty lines, in any order), then
    `rest`: nothing, or a statement `r` that does not fail before its first flush (`RestOk`: not a `pre` fault, which is
    raised before anything is flushed and legitimately wins; a `mid` fault only on a statement that has an identifier, a
    reference or a dependency, i.e. one whose children flush).  No line violates the grammar, the lines `pre` are read
    successfully and the visit of `l` succeeds (the attribute is queued), but its constructor raises when the attribute
    is committed (`commit` fault: bad name, bad constant value).
    Then the read fails with the own path and the number of `l`'s OWN line — whether the commit happens at `l`'s own line
    end, at the first empty line of `gap`, at the first identifier / reference / dependency flush of `r` (before any
    dependency of `r` is read), at the statement visitor of `r` (marker / padding without references), or at the end of the
    text — and the world (cache, `@print` deliveries) is the one `l` left: nothing behind `l` has been delivered or read. -/
theorem C17.commit_fault_line (c : Ctx) (w : W) (pre gap rest : List Line) (l : Line) (core : Core) (s0 s1 : St)
    (hsyn : ∀ x ∈ pre ++ l :: (gap ++ rest), x.fault ≠ some .syn)
    (hpre : runLines c 1 (St.init w) pre = .ok s0)
    (hvis : visitStmt c (lineAfter 1 pre) l (.attr core) s0 = .ok s1)
    (hl : l.stmt = some (.attr core)) (hbad : l.fault = some .commit)
    (hgap : ∀ x ∈ gap, x.stmt = none) (hrest : RestOk rest) :
    readText c (pre ++ l :: (gap ++ rest)) w = .error (⟨c.self, some (lineAfter 1 pre)⟩, s1.w) :=
  readText_commit_fault hsyn hpre hvis hl (Or.inl hbad) hgap hrest

namespace C17.Examples
theorem okPart_some {α β : Type} {x : M α} {f : α → β} {b : β} (h : (okPart x).map f = some b) : ∃ a, x = .ok a ∧ f a = b := by
  cases x with
  | error e => simp [okPart] at h
  | ok a => exact ⟨a, rfl, by simpa [okPart] using h⟩
def mk (r : Line) (offs : Bool) : Line := { r with offs := offs }
/-- `@print 1` -/
def cfPre : List Line := [dir "print" (some (.rational 1)) "1"]
/-- `uint8 _b_  # own` -/
def cfCore : Core := ⟨.field, "_b_", "saturated uint8", ""⟩
def cfL : Line := ln (some (.attr cfCore)) (some " own") false (some .commit)
/-- `# c`, a line of blanks, `# d` -/
def cfGap : List Line := [ln none (some " c"), ln none none false, ln none (some " d")]
/-- `---`, `@print 2`, `uint8 x`, `@sealed`: the commit happens in the statement visitor of the marker -/
def cfRest1 : List Line := [ln (some .marker), dir "print" (some (.rational 2)) "2", fld "x", dir "sealed"]
/-- `ns.B.1.0 x` (a reference to definition 1, which does not exist here), `@sealed`: the commit happens at the first
    identifier, before the dependency is read -/
def cfRest2 : List Line := [ln (some (.attr ⟨.field, "x", "ns.B.1.0", ""⟩)) none false none [1], dir "sealed"]
end C17.Examples

open C17.Examples in
/-- non-vacuity of `commit_fault_line`: the hypotheses hold for `@print 1` / `uint8 _b_ # own` / `# c` / blanks / `# d` followed by
    `---` …, by a statement with a dependency, or by nothing; the reported line is 2, the delivery of line 1 is there, the
    one of line 6 is not -/
example : (∃ s0 s1, runLines ctx 1 (St.init W.init) cfPre = .ok s0 ∧ visitStmt ctx (lineAfter 1 cfPre) cfL (.attr cfCore) s0 = .ok s1 ∧
      s1.w = ⟨[], [⟨0, 1, "1"⟩]⟩) ∧
    (∀ x ∈ cfPre ++ cfL :: (cfGap ++ cfRest1), x.fault ≠ some .syn) ∧ (∀ x ∈ cfPre ++ cfL :: (cfGap ++ cfRest2), x.fault ≠ some .syn) ∧
    cfL.stmt = some (.attr cfCore) ∧ cfL.fault = some .commit ∧ (∀ x ∈ cfGap, x.stmt = none) ∧
    RestOk cfRest1 ∧ RestOk cfRest2 ∧ RestOk [] ∧ lineAfter 1 cfPre = 2 ∧
    errPart (readText ctx (cfPre ++ cfL :: (cfGap ++ cfRest1)) W.init) = some (⟨0, some 2⟩, ⟨[], [⟨0, 1, "1"⟩]⟩) ∧
    errPart (readText ctx (cfPre ++ cfL :: (cfGap ++ cfRest2)) W.init) = some (⟨0, some 2⟩, ⟨[], [⟨0, 1, "1"⟩]⟩) := by
  refine ⟨?_, by decide, by decide, rfl, rfl, by decide, ?_, ?_, Or.inl rfl, by decide, by decide, by decide⟩
  · have h : (okPart (runLines ctx 1 (St.init W.init) cfPre >>= fun s0 => visitStmt ctx (lineAfter 1 cfPre) cfL (.attr cfCore) s0)).map
        (fun s => s.w) = some ⟨[], [⟨0, 1, "1"⟩]⟩ := by decide
    obtain ⟨s1, hr, hw⟩ := okPart_some h
    rw [bind_ok] at hr
    obtain ⟨s0, h0, h1⟩ := hr
    exact ⟨s0, s1, h0, h1, hw⟩
  · exact Or.inr ⟨_, _, .marker, rfl, rfl, by decide, by decide⟩
  · exact Or.inr ⟨_, _, _, rfl, rfl, by decide, by decide⟩

open C17.Examples in
/-- the side condition on `mid` in `RestOk` is needed in the model: a statement without identifier, reference and
    dependency (marker, padding) that carried a `mid` fault would raise with its own line before its statement visitor
    flushes.  (No text has such a fault: `---` and `voidN` contain nothing that is evaluated after parsing.) -/
example : errPart (readText ctx [fld "_b_" (some .commit), ln (some .marker) none false (some .mid)] W.init) = some (⟨0, some 2⟩, W.init) ∧
    errPart (readText ctx [fld "_b_" (some .commit), ln (some .marker) none false (some .pre)] W.init) = some (⟨0, some 2⟩, W.init) ∧
    errPart (readText ctx [fld "_b_" (some .commit), ln (some .marker) none false (some .emit)] W.init) = some (⟨0, some 1⟩, W.init) := by
  decide

/-- The second way a commit fails: the attribute `l` is a field or a padding of a union whose `_offset_` has been used
    (`BitLengthAnalysisError` of `add_field`) — a fault the model computes itself.  Same interleavings, same conclusion: the
    line of `l`'s own statement.  (Using `_offset_` again in the meantime — `markOffs` of the next statement — changes
    nothing.) -/
theorem C17.commit_union_offset_line (c : Ctx) (w : W) (pre gap rest : List Line) (l : Line) (core : Core) (s0 s1 : St)
    (hsyn : ∀ x ∈ pre ++ l :: (gap ++ rest), x.fault ≠ some .syn)
    (hpre : runLines c 1 (St.init w) pre = .ok s0)
    (hvis : visitStmt c (lineAfter 1 pre) l (.attr core) s0 = .ok s1)
    (hl : l.stmt = some (.attr core)) (hk : core.kind ≠ .const) (hu : (s1.cur.union && s1.cur.offsetUsed) = true)
    (hgap : ∀ x ∈ gap, x.stmt = none) (hrest : RestOk rest) :
    readText c (pre ++ l :: (gap ++ rest)) w = .error (⟨c.self, some (lineAfter 1 pre)⟩, s1.w) :=
  readText_commit_fault hsyn hpre hvis hl (Or.inr ⟨hk, hu⟩) hgap hrest

namespace C17.Examples
/-- `@union`, `uint8 a`, `@print _offset_` -/
def uoPre : List Line := [dir "union", fld "a", mk (dir "print" (some .other) "_offset_") true]
def uoCore : Core := ⟨.field, "b", "saturated uint8", ""⟩
/-- `uint8 b` -/
def uoL : Line := ln (some (.attr uoCore))
/-- `# comment`, `` -/
def uoGap : List Line := [ln none (some " comment"), ln none none true]
/-- `@sealed` -/
def uoRest : List Line := [dir "sealed"]
end C17.Examples

open C17.Examples in
/-- non-vacuity of `commit_union_offset_line`: `@union` / `uint8 a` / `@print _offset_` / `uint8 b` / `# comment` / `` / `@sealed` is
    reported at line 4 (raised at the empty line 6), the delivery of line 3 is there -/
example : (∃ s0 s1, runLines ctx 1 (St.init W.init) uoPre = .ok s0 ∧ visitStmt ctx (lineAfter 1 uoPre) uoL (.attr uoCore) s0 = .ok s1 ∧
      (s1.cur.union && s1.cur.offsetUsed) = true) ∧
    (∀ x ∈ uoPre ++ uoL :: (uoGap ++ uoRest), x.fault ≠ some .syn) ∧ uoL.stmt = some (.attr uoCore) ∧ uoCore.kind ≠ .const ∧
    (∀ x ∈ uoGap, x.stmt = none) ∧ RestOk uoRest ∧ lineAfter 1 uoPre = 4 ∧
    errPart (readText ctx (uoPre ++ uoL :: (uoGap ++ uoRest)) W.init) = some (⟨0, some 4⟩, ⟨[], [⟨0, 3, "_offset_"⟩]⟩) := by
  refine ⟨?_, by decide, rfl, by decide, by decide, ?_, by decide, by decide⟩
  · have h : (okPart (runLines ctx 1 (St.init W.init) uoPre >>= fun s0 => visitStmt ctx (lineAfter 1 uoPre) uoL (.attr uoCore) s0)).map
        (fun s => s.cur.union && s.cur.offsetUsed) = some true := by decide
    obtain ⟨s1, hr, hw⟩ := okPart_some h
    rw [bind_ok] at hr
    obtain ⟨s0, h0, h1⟩ := hr
    exact ⟨s0, s1, h0, h1, hw⟩
  · exact Or.inr ⟨_, _, _, rfl, rfl, by decide, by decide⟩

/-! ### `@print` deliveries in front of an error -/

/-- A failed read of a definition without references.  The error carries the own path, the cache is untouched, and
      * if the text does not match the grammar the error carries the first offending line and NOTHING has been delivered
        (the grammar fails before any visitor runs);
      * otherwise, if the error carries line `n`: exactly the `@print` statements on the lines in front of line `n`
        (`linesBefore n 1 ls`) have been delivered — each once, in source order, with its own line and the bound path — and
        none at or behind line `n`; this holds also when `n` is the line of a lazily committed attribute and the error was
        raised several lines later (no statement, hence no `@print`, can stand between a queued attribute and its commit);
      * otherwise (no line: an error of finalize) all `@print` statements have been delivered.
    No well-formedness of the lines is assumed. -/
theorem C17.prints_before_error (c : Ctx) (ls : List Line) (w w' : W) (e : Err)
    (hd : ∀ l ∈ ls, l.deps = []) (h : readText c ls w = .error (e, w')) :
    e.file = c.self ∧ w'.cached = w.cached ∧
    (∀ k, firstSyntaxError 1 ls = some k → e.line = some k ∧ w' = w) ∧
    (firstSyntaxError 1 ls = none →
      (∀ n, e.line = some n → w'.prints = w.prints ++ specPrints c.printFile 1 (linesBefore n 1 ls)) ∧
      (e.line = none → w'.prints = w.prints ++ specPrints c.printFile 1 ls)) :=
  readText_prints_err hd h

namespace C17.Examples
/-- `@print 1`, `uint8 _b_`, `# c`, `@print 2`, `@sealed` -/
def pb1 : List Line := [dir "print" (some (.rational 1)) "1", fld "_b_" (some .commit), ln none (some " c"),
  dir "print" (some (.rational 2)) "2", dir "sealed"]
/-- `@print 'a⏎b'` (two physical lines), `uint8 a`, `@print 2`, `@assert false`, `@print 3`, `@sealed` -/
def pb2 : List Line := [dir "print" (some .other) "'a\\nb'" 1, fld "a", dir "print" (some (.rational 2)) "2",
  dir "assert" (some (.boolean false)), dir "print" (some (.rational 3)) "3", dir "sealed"]
/-- `@print 1`, `uint8 a`, `@print 2`, `uint8 a`, `@print 3`, `@sealed`: the name collision is found by finalize -/
def pb3 : List Line := [dir "print" (some (.rational 1)) "1", fld "a", dir "print" (some (.rational 2)) "2", fld "a",
  dir "print" (some (.rational 3)) "3", dir "sealed"]
/-- `@print 1`, `uint8 a`, `%%%`, `@sealed` -/
def pb4 : List Line := [dir "print" (some (.rational 1)) "1", fld "a", ln none none false (some .syn), dir "sealed"]
theorem nodeps (ls : List Line) (h : (ls.all fun l => l.deps.isEmpty) = true) : ∀ l ∈ ls, l.deps = [] := by
  intro l hl
  have := List.all_eq_true.mp h l hl
  simpa using this
end C17.Examples

open C17.Examples in
/-- non-vacuity of `prints_before_error`: a commit fault of line 2 raised at line 4 (only the `@print` of line 1 has been
    delivered, not the one of line 4), a failed assertion on line 5 behind a two-line statement (deliveries of lines 1 and 4),
    a finalize-time error (all three), a syntax error (none) -/
example : (∀ l ∈ pb1, l.deps = []) ∧ (∀ l ∈ pb2, l.deps = []) ∧ (∀ l ∈ pb3, l.deps = []) ∧ (∀ l ∈ pb4, l.deps = []) ∧
    errPart (readText ctx pb1 W.init) = some (⟨0, some 2⟩, ⟨[], [⟨0, 1, "1"⟩]⟩) ∧
    specPrints 0 1 (linesBefore 2 1 pb1) = [⟨0, 1, "1"⟩] ∧ firstSyntaxError 1 pb1 = none ∧
    errPart (readText ctx pb2 W.init) = some (⟨0, some 5⟩, ⟨[], [⟨0, 1, "'a\\nb'"⟩, ⟨0, 4, "2"⟩]⟩) ∧
    specPrints 0 1 (linesBefore 5 1 pb2) = [⟨0, 1, "'a\\nb'"⟩, ⟨0, 4, "2"⟩] ∧ (linesBefore 5 1 pb2).length = 3 ∧
    errPart (readText ctx pb3 W.init) = some (⟨0, none⟩, ⟨[], [⟨0, 1, "1"⟩, ⟨0, 3, "2"⟩, ⟨0, 5, "3"⟩]⟩) ∧
    errPart (readText ctx pb4 W.init) = some (⟨0, some 3⟩, W.init) ∧ firstSyntaxError 1 pb4 = some 3 := by
  refine ⟨nodeps _ (by decide), nodeps _ (by decide), nodeps _ (by decide), nodeps _ (by decide), ?_⟩
  decide

/-! ### why an error carries line `n` -/

/-- The converse of `commit_fault_line`: a failed read of a text that matches the grammar reports the untouched error of a
    referenced definition, or the own path without a line (finalize), or the own path with a line `n` for which
    (`LineCause`) the text splits as `pre ++ l :: post` with `l` on line `n`, `pre` read successfully, and
      * the visit of `l`'s statement raises exactly this error (the statement on line `n` is the one being visited), or
      * `l` holds an ATTRIBUTE statement (not a directive, not a marker) whose visit succeeded — the attribute was queued —
        and whose commit failed later: its constructor raises (`commit` fault) or it is a field/padding of a union; the
        error leaves with the world `l` left. -/
theorem C17.line_cause (c : Ctx) (ls : List Line) (w w' : W) (e : Err)
    (hsyn : firstSyntaxError 1 ls = none) (h : readText c ls w = .error (e, w')) :
    (∃ l ∈ ls, DepErr c l e) ∨ e = ⟨c.self, none⟩ ∨ ∃ n, e = ⟨c.self, some n⟩ ∧ LineCause c w ls n w' :=
  readText_line_cause hsyn h

open C17.Examples in
/-- non-vacuity of `line_cause`: texts that match the grammar and fail with a line — by a commit (f5: line 2, raised at the
    empty line 5; pb1) and by the visited statement itself (pb2: the assertion) -/
example : firstSyntaxError 1 f5 = none ∧ errPart (readText ctx f5 W.init) = some (⟨0, some 2⟩, W.init) ∧
    firstSyntaxError 1 pb2 = none ∧ (errPart (readText ctx pb2 W.init)).map (·.1) = some ⟨0, some 5⟩ := by
  decide

/-! ### the reported line against the declarative reading of the statement sequence -/

/-- **The culprit is the first statement the declarative reading rejects.**  `aRun` / `aStepO` (lean/Proofs/ReaderFormat.lean)
    read the statement sequence of a text declaratively: every attribute is added the moment it is read, every check is
    made on what the statements in front say — no queue, no comments, no line numbers.  Let the text be
    `pre ++ l :: gap ++ rest` where the declarative reading accepts the statements of `pre` and rejects the statement of
    `l` — for whatever reason: a fault of its own, an unresolved reference, a referenced definition that cannot be read, a
    misplaced or repeated directive, an attribute behind `@extent`, a second `---`, a constructor that raises, a field
    behind an evaluated `_offset_` in a union —, `gap` holds no statement, and `rest` is empty or starts with a statement
    that does not fail before its first flush (`RestOk`).  Then the read fails and reports the own path with the number of
    `l`'s line, or the untouched error of a definition `l` refers to.  Lines are well formed (`Line.offsWf`) and the
    context line-blind (`Ctx.lineBlind`, true of every context of the namespace reader: `C03.namespace_contexts_lineBlind`). -/
theorem C17.culprit_is_first_rejected_statement (c : Ctx) (hc : c.lineBlind) (w : W) (pre gap rest : List Line) (l : Line)
    (t : ASt) (hwf : ∀ x ∈ pre ++ l :: (gap ++ rest), x.offsWf) (hsyn : ∀ x ∈ pre ++ l :: (gap ++ rest), x.fault ≠ some .syn)
    (hpre : aRun c ⟨Spec.init, false, w⟩ (items pre) = some t) (hbad : aStepO c t l.item = none)
    (hgap : ∀ x ∈ gap, x.stmt = none) (hrest : RestOk rest) :
    ∃ e w', readText c (pre ++ l :: (gap ++ rest)) w = .error (e, w') ∧
      (e = ⟨c.self, some (lineAfter 1 pre)⟩ ∨ DepErr c l e) :=
  readText_first_rejected hc hwf hsyn hpre hbad hgap hrest

namespace C17.Examples
theorem lineBlind_ctx : ctx.lineBlind := ⟨rfl, rfl, rfl, fun _ _ _ h => ⟨Iff.rfl, fun _ => h⟩⟩
/-- `uint8 a`, `@extent 64`, `@print 1` -/
def crPre : List Line := [fld "a", dir "extent" (some (.rational 64)), dir "print" (some (.rational 1)) "1"]
/-- `uint8 b  # too late` : an attribute behind `@extent` -/
def crL : Line := ln (some (.attr ⟨.field, "b", "saturated uint8", ""⟩)) (some " too late")
end C17.Examples

open C17.Examples in
/-- non-vacuity of `culprit_is_first_rejected_statement`: (1) the union field behind `_offset_` (rejected lines later, at
    the empty line 6, reported at its own line 4); (2) an attribute behind `@extent` (rejected while it is visited, line 4);
    in both cases the declarative reading accepts the statements in front and rejects this one -/
example : ctx.lineBlind ∧
    (∃ t, aRun ctx ⟨Spec.init, false, W.init⟩ (items uoPre) = some t ∧ aStepO ctx t uoL.item = none) ∧
    (∀ x ∈ uoPre ++ uoL :: (uoGap ++ uoRest), x.offsWf) ∧
    (errPart (readText ctx (uoPre ++ uoL :: (uoGap ++ uoRest)) W.init)).map (·.1) = some ⟨0, some 4⟩ ∧
    (∃ t, aRun ctx ⟨Spec.init, false, W.init⟩ (items crPre) = some t ∧ aStepO ctx t crL.item = none) ∧
    (∀ x ∈ crPre ++ crL :: (cfGap ++ uoRest), x.offsWf) ∧ lineAfter 1 crPre = 4 ∧
    (errPart (readText ctx (crPre ++ crL :: (cfGap ++ uoRest)) W.init)).map (·.1) = some ⟨0, some 4⟩ := by
  have h1 : (match aRun ctx ⟨Spec.init, false, W.init⟩ (items uoPre) with
      | some t => (aStepO ctx t uoL.item).isNone | none => false) = true := by decide
  have h2 : (match aRun ctx ⟨Spec.init, false, W.init⟩ (items crPre) with
      | some t => (aStepO ctx t crL.item).isNone | none => false) = true := by decide
  refine ⟨lineBlind_ctx, ?_, by decide, by decide, ?_, by decide, by decide, by decide⟩
  · cases h : aRun ctx ⟨Spec.init, false, W.init⟩ (items uoPre) with
    | none => rw [h] at h1; cases h1
    | some t => rw [h] at h1; exact ⟨t, rfl, by simpa using h1⟩
  · cases h : aRun ctx ⟨Spec.init, false, W.init⟩ (items crPre) with
    | none => rw [h] at h2; cases h2
    | some t => rw [h] at h2; exact ⟨t, rfl, by simpa using h2⟩

/-! ### `@print` with references: what does hold -/

/-- The part of the `@print` claim that holds for ALL namespaces, references included (the rest is the known finding,
    `C17.print_counterexample`): every delivery of a run — successful, or up to the error — is a `@print` statement of
    some definition `d` of the namespace, delivered with THAT statement's own line and text
    (`p ∈ specPrints t 1 d.lines`: on line `p.line` of `d` stands `@print` with text `p.text`); only the path is not
    `d`'s own but that of the target `t` whose read triggered the parse of `d`.  Nothing is invented, no line of a
    referenced definition is shifted or replaced by a line of the referrer. -/
theorem C17.print_line_and_text (defs : List Def) (ts : List Nat) :
    (∀ res w', readTargets defs ts W.init [] = .ok (res, w') →
      ∀ p ∈ w'.prints, ∃ t ∈ ts, ∃ (i : Nat) (d : Def), defs[i]? = some d ∧ p ∈ specPrints t 1 d.lines) ∧
    (∀ e w', readTargets defs ts W.init [] = .error (e, w') →
      ∀ p ∈ w'.prints, ∃ t ∈ ts, ∃ (i : Nat) (d : Def), defs[i]? = some d ∧ p ∈ specPrints t 1 d.lines) := by
  obtain ⟨h1, h2⟩ := readTargets_prints_deps defs ts W.init []
  constructor
  · intro res w' h p hp
    rcases h1 res w' h p hp with h | h
    · simp [W.init] at h
    · exact h
  · intro e w' h p hp
    rcases h2 e w' h p hp with h | h
    · simp [W.init] at h
    · exact h

open C17.Examples in
/-- non-vacuity of `print_line_and_text` on the namespace of the counterexample: both deliveries are the `@print` of line 3
    of definition 1, once under the path of target 1 and once under the path of target 0 -/
example : (match readTargets f7 [1, 0] W.init [] with | .ok (_, w) => some w.prints | .error _ => none) = some [⟨1, 3, "1"⟩, ⟨0, 3, "1"⟩] ∧
    (⟨1, 3, "1"⟩ : Print) ∈ specPrints 1 1 ((f7[1]?.map (·.lines)).getD []) ∧
    (⟨0, 3, "1"⟩ : Print) ∈ specPrints 0 1 ((f7[1]?.map (·.lines)).getD []) := by
  decide
