import Proofs.ReaderLoc
import Proofs.ReaderPrint
/-!
C17 — errors and @print output are attributed to the right file and line.

Statements about `Reader.readText` / `Reader.readTargets` (lean/Model/Reader.lean): the reader with the line counter of
`_parser.py` (line breaks inside string literals included), the line of the attribute statement that awaits its doc
comment (`_last_attribute_line_number`), the rule "a line is attached only to an error that names no file yet" of
`_parser.parse`, `Error.set_error_location_if_unknown`, `DSDLDefinition.read`, and the print handler bound to a target
path.

One part of the property is false for the real code and therefore for the model that mirrors it: a `@print` in a
referenced definition is delivered with the referrer's path, and twice if the definition was read as a target before.
It is kept as `C17.print_once_statement` with a decided counterexample; the part that holds is proved as `…_partial`.
-/
open Reader

/-- A failed read reports
      * the untouched error of a referenced definition (its path, its line), or
      * the own path and no line (an error found when the definition is finalized), or
      * the own path and the number of a line that holds a statement (or does not match the grammar) — never a blank
        line, a comment line or a line number that does not exist.
    For every document, every line shape, every continuation of statements over several physical lines. -/
theorem C17.line (c : Ctx) (ls : List Line) (w w' : W) (e : Err) (h : readText c ls w = .error (e, w')) :
    (∃ l ∈ ls, DepErr c l e) ∨ e = ⟨c.self, none⟩ ∨ ∃ n, e = ⟨c.self, some n⟩ ∧ n ∈ culpritLineNos 1 ls :=
  readText_err h

/-- Which line: whatever is raised while line `k` is visited is the untouched error of a referenced definition, or
    carries line `k` itself — then `k` holds a statement —, or the line of the attribute statement that was waiting for
    its doc comment (`P` = what is known about that line). -/
theorem C17.line_current (P : Nat → Prop) (c : Ctx) (k : Nat) (s : St) (l : Line) (w' : W) (e : Err)
    (hk : 0 < k) (hl : LInv P s) (h : stepLine c k s l = .error (e, w')) :
    DepErr c l e ∨ (e = ⟨c.self, some k⟩ ∧ l.stmt.isSome) ∨ (∃ n, e = ⟨c.self, some n⟩ ∧ P n) :=
  stepLine_err hk hl h

/-- Lazily committed attributes: an error raised while the queued attribute is committed (bad name, bad constant, field
    after `_offset_` in a union) — at whatever later line that happens — carries the line of the attribute's own
    statement. -/
theorem C17.line_commit (P : Nat → Prop) (c : Ctx) (k : Nat) (s : St) (w' : W) (e : Err)
    (hl : LInv P s) (h : flush c k s = .error (e, w')) :
    ∃ a bad, s.pending = some (a, bad) ∧ e = ⟨c.self, some a.line⟩ :=
  flush_err_attr hl h

/-- The path, at any dependency depth: the definition at the reported path fails on its own — reading it raises exactly
    the reported error, whose line (if any) is the number of one of its own statement lines.  (The alternative is the
    out-of-range path with which the model reports a reference chain longer than the namespace, i.e. a cycle.) -/
theorem C17.path (defs : List Def) (ts : List Nat) (w w' : W) (acc : List (Nat × Composite)) (e : Err)
    (ht : ∀ t ∈ ts, t < defs.length) (h : readTargets defs ts w acc = .error (e, w')) :
    FailsItself defs e ∨ e = ⟨defs.length, none⟩ :=
  readTargets_path defs ts w acc e w' ht h

/-- `@print`: a definition without references that is read successfully delivers every `@print` statement exactly once,
    in source order, with its own line and the path the handler is bound to, and nothing else. -/
theorem C17.print_once_partial (c : Ctx) (ls : List Line) (w w' : W) (comp : Composite)
    (hd : ∀ l ∈ ls, l.deps = []) (h : readText c ls w = .ok (comp, w')) :
    w'.prints = w.prints ++ specPrints c.printFile 1 ls :=
  (readText_prints hd h).2

/-- … and for a whole namespace whose definitions do not refer to each other: every `@print` of every target exactly
    once, with the target's own path. -/
theorem C17.print_once_namespace_partial (defs : List Def) (ts : List Nat) (res : List (Nat × Composite)) (w' : W)
    (hd : ∀ d ∈ defs, d.noDeps) (h : readTargets defs ts W.init [] = .ok (res, w')) :
    w'.prints = ts.flatMap (fun t => specPrints t 1 ((defs[t]?.map (·.lines)).getD [])) := by
  have := (readTargets_prints defs hd ts W.init [] res w' rfl h).2
  simpa [W.init] using this

/-- is `p` the delivery of a `@print` statement that stands at path `p.file`, line `p.line`? (lines without embedded
    line breaks) -/
def C17.printAt (defs : List Def) (p : Print) : Bool :=
  match defs[p.file]? with
  | some d => match d.lines[p.line - 1]? with
    | some l => decide (linePrints p.file p.line l = [p])
    | none => false
  | none => false

/-- Full statement (false): every delivery is a `@print` statement at the delivered path and line, and no delivery
    happens twice. -/
def C17.print_once_statement : Prop :=
  ∀ (defs : List Def) (ts : List Nat) (res : List (Nat × Composite)) (w' : W),
    readTargets defs ts W.init [] = .ok (res, w') →
    w'.prints.Nodup ∧ ∀ p ∈ w'.prints, C17.printAt defs p = true

namespace C17.Examples
def ctx : Ctx := ⟨0, 0, 1, fun w _ => (w, none), false⟩
def ln (s : Option Stmt) (c : Option String := none) (e : Bool := false) (f : Option Phase := none) (deps : List Nat := [])
    (inner : Nat := 0) : Line :=
  ⟨s, [], deps, false, f, c, e, false, inner⟩
def fld (n : String) (f : Option Phase := none) : Line := ln (some (.attr ⟨.field, n, "saturated uint8", ""⟩)) none false f
def dir (n : String) (e : Option EVal := none) (t : String := "") (inner : Nat := 0) : Line :=
  ln (some (.directive n e t)) none false none [] inner
/-- `uint8 a`, `uint8 _b_`, `# c1`, `# c2`, ``, ``, `@sealed`, `` -/
def f5 : List Line := [fld "a", fld "_b_" (some .commit), ln none (some " c1"), ln none (some " c2"), ln none none true, ln none none true, dir "sealed", ln none none true]
/-- A = ``, `# …`, `# …`, `# …`, `ns.B.1.0 b`, `@sealed`;  B = `uint8 a`, `uint8 a`, `@sealed` -/
def f6 : List Def :=
  [⟨[ln none none true, ln none (some " 1"), ln none (some " 2"), ln none (some " 3"), ln (some (.attr ⟨.field, "b", "ns.B.1.0", ""⟩)) none false none [1], dir "sealed"], false⟩,
   ⟨[fld "a", fld "a", dir "sealed"], false⟩]
/-- B(0) = ``, `ns.A.1.0 b`, `@sealed`;  A(1) = `uint8 a`, ``, `@print 1`, `@sealed`; A is read first as a target -/
def f7 : List Def :=
  [⟨[ln none none true, ln (some (.attr ⟨.field, "b", "ns.A.1.0", ""⟩)) none false none [1], dir "sealed"], false⟩,
   ⟨[fld "a", ln none none true, dir "print" (some (.rational 1)) "1", dir "sealed"], false⟩]
/-- `@print 'a⏎b'` (one statement on two physical lines), `@assert false`, `@sealed` -/
def ml : List Line := [dir "print" (some .other) "'a\\nb'" 1, dir "assert" (some (.boolean false)), dir "sealed"]
/-- `@print 1`, ``, `@print 2`, `@sealed` -/
def pr : List Line := [dir "print" (some (.rational 1)) "1", ln none none true, dir "print" (some (.rational 2)) "2", dir "sealed"]
end C17.Examples

open C17.Examples in
/-- non-vacuity of `line` / `line_commit`: the invalid attribute of line 2, committed at the empty line 5, is reported at
    line 2; the failed assertion behind a two-line string literal at line 3; a finalize-time error of a referenced
    definition with that definition's path and no line -/
example : errPart (readText ctx f5 W.init) = some (⟨0, some 2⟩, W.init) ∧ culpritLineNos 1 f5 = [1, 2, 7] ∧
    (errPart (readText ctx ml W.init)).map (·.1) = some ⟨0, some 3⟩ ∧ culpritLineNos 1 ml = [1, 3, 4] ∧
    (match readTargets f6 [0, 1] W.init [] with | .error (e, _) => some e | .ok _ => none) = some ⟨1, none⟩ := by
  decide

open C17.Examples in
/-- the `@print` on line 3 of A is delivered as (A, 3) and again as (B, 3) -/
theorem C17.print_counterexample : ¬ C17.print_once_statement := by
  intro hs
  have h : (match readTargets f7 [1, 0] W.init [] with | .ok (_, w) => some w.prints | .error _ => none) = some [⟨1, 3, "1"⟩, ⟨0, 3, "1"⟩] := by decide
  cases hr : readTargets f7 [1, 0] W.init [] with
  | error e => rw [hr] at h; simp at h
  | ok r =>
    rw [hr] at h; simp at h
    have := (hs f7 [1, 0] r.1 r.2 (by rw [hr])).2 ⟨0, 3, "1"⟩ (by rw [h]; simp)
    revert this
    decide

open C17.Examples in
/-- non-vacuity of `print_once_partial`: an accepted text with two `@print`s, delivered as (path, 1) and (path, 3) -/
example : (∀ l ∈ pr, l.deps = []) ∧ (okPart (readText ctx pr W.init)).map (·.2.prints) = some [⟨0, 1, "1"⟩, ⟨0, 3, "2"⟩] ∧
    specPrints 0 1 pr = [⟨0, 1, "1"⟩, ⟨0, 3, "2"⟩] := by
  refine ⟨?_, by decide, by decide⟩
  intro l hl
  simp [pr, dir, ln] at hl
  rcases hl with rfl | rfl | rfl | rfl <;> rfl
