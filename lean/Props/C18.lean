import Proofs.BlsMinMax
import Model.Values
/-!
# C18 — model objects are immutable values with a sound equality / hash contract

The equality and hash functions of bit length sets, types, attributes and expression values are modelled by the
keys they inspect (Model/Values.lean, Model/Bls.lean).  Proved for all values: equality is reflexive and
symmetric, equal objects have equal hash keys, objects that differ in class, string form or in (min, max,
residues modulo 32) of their bit length set are unequal, and `BitLengthSet.__eq__` never reports two sets that
are equal (as mathematical sets) as different.  Aliasing of accessor results and pickling are runtime notions and
are covered by the `values` correspondence only.
-/
open scoped Pointwise
open Bls Values

theorem all_mem_self (l : List ℕ) : l.all (· ∈ l) = true := by
  simp [List.all_eq_true]

/-- `BitLengthSet.__eq__` is reflexive and symmetric. -/
theorem C18.bls_eq_refl_symm (a b : Op) : blsEq a a = true ∧ blsEq a b = blsEq b a := by
  constructor
  · simp [blsEq, all_mem_self]
  · simp only [blsEq]
    rw [Bool.eq_iff_iff]
    simp only [Bool.and_eq_true, beq_iff_eq]
    constructor <;> rintro ⟨⟨⟨h1, h2⟩, h3⟩, h4⟩ <;> exact ⟨⟨⟨h1.symm, h2.symm⟩, h4⟩, h3⟩

/-- Two expressions that denote the same set are never reported as different (the comparison may only err
    towards equality). -/
theorem C18.bls_eq_sound (a b : Op) (ha : a.wf = true) (hb : b.wf = true) (h : den a = den b) :
    blsEq a b = true := by
  have hmin : a.min = b.min := by
    obtain ⟨h1, h2⟩ := min_exact a ha
    obtain ⟨h3, h4⟩ := min_exact b hb
    exact le_antisymm (h2 _ (h ▸ h3)) (h4 _ (h ▸ h1))
  have hmax : a.max = b.max := by
    obtain ⟨h1, h2⟩ := max_exact a ha
    obtain ⟨h3, h4⟩ := max_exact b hb
    exact le_antisymm (h4 _ (h ▸ h1)) (h2 _ (h ▸ h3))
  have hm : (a.modulo 32).toFinset = (b.modulo 32).toFinset := by
    rw [Bls.modulo_exact a ha 32 (by omega), Bls.modulo_exact b hb 32 (by omega), h]
  simp only [blsEq, Bool.and_eq_true, beq_iff_eq, List.all_eq_true, decide_eq_true_eq]
  refine ⟨⟨⟨hmin, hmax⟩, ?_⟩, ?_⟩
  · intro x hx
    have : x ∈ (a.modulo 32).toFinset := by simpa using hx
    rw [hm] at this; simpa using this
  · intro x hx
    have : x ∈ (b.modulo 32).toFinset := by simpa using hx
    rw [← hm] at this; simpa using this

/-- Equal bit length sets have equal hashes (the hash looks at min and max only). -/
theorem C18.bls_hash_consistent (a b : Op) (h : blsEq a b = true) : blsHashKey a = blsHashKey b := by
  simp only [blsEq, Bool.and_eq_true, beq_iff_eq] at h
  simp [blsHashKey, h.1.1.1, h.1.1.2]

/-- `BitLengthSet.__eq__` tells apart sets that differ in minimum, maximum or residues modulo 32. -/
theorem C18.bls_eq_distinguishes (a b : Op)
    (h : a.min ≠ b.min ∨ a.max ≠ b.max ∨ (a.modulo 32).toFinset ≠ (b.modulo 32).toFinset) : blsEq a b = false := by
  rw [Bool.eq_false_iff]
  intro he
  simp only [blsEq, Bool.and_eq_true, beq_iff_eq, List.all_eq_true, decide_eq_true_eq] at he
  obtain ⟨⟨⟨h1, h2⟩, h3⟩, h4⟩ := he
  rcases h with h | h | h
  · exact h h1
  · exact h h2
  · apply h
    ext x
    simp only [List.mem_toFinset]
    exact ⟨h3 x, h4 x⟩

/-- Type equality: reflexive, symmetric, consistent with the hash, and it distinguishes class, string form and
    bit length set key. -/
theorem C18.type_eq_contract (a b : TyKey) :
    tyEq a a = true ∧ tyEq a b = tyEq b a ∧ (tyEq a b = true → tyHashKey a = tyHashKey b) ∧
    (a.cls ≠ b.cls ∨ a.str ≠ b.str ∨ blsEq a.bls b.bls = false → tyEq a b = false) := by
  refine ⟨?_, ?_, ?_, ?_⟩
  · simp [tyEq, (C18.bls_eq_refl_symm a.bls a.bls).1]
  · simp only [tyEq, (C18.bls_eq_refl_symm a.bls b.bls).2]
    rw [Bool.eq_iff_iff]
    simp only [Bool.and_eq_true, beq_iff_eq]
    constructor <;> rintro ⟨⟨h1, h2⟩, h3⟩ <;> exact ⟨⟨h1.symm, h2⟩, h3.symm⟩
  · intro h
    simp only [tyEq, Bool.and_eq_true, beq_iff_eq] at h
    have := C18.bls_hash_consistent _ _ h.1.2
    simp only [blsHashKey, Prod.mk.injEq] at this
    simp [tyHashKey, h.2, this.1, this.2]
  · intro h
    rw [Bool.eq_false_iff]
    intro he
    simp only [tyEq, Bool.and_eq_true, beq_iff_eq] at he
    rcases h with h | h | h
    · exact h he.1.1
    · exact h he.2
    · rw [he.1.2] at h; cases h

theorem prim_eq_refl (p : Prim) : p.eq p = true := by
  cases p <;> simp [Prim.eq]

theorem prim_eq_symm (p q : Prim) : p.eq q = q.eq p := by
  cases p <;> cases q <;> simp [Prim.eq, eq_comm]

/-- Expression values: equality is reflexive and symmetric (rationals compare by value, sets by content). -/
theorem C18.value_eq_refl_symm (x y : EVal) : x.eq x = true ∧ x.eq y = y.eq x := by
  constructor
  · cases x with
    | prim p => exact prim_eq_refl p
    | set xs =>
      simp only [EVal.eq, subsetOf, Bool.and_self, List.all_eq_true, List.any_eq_true]
      exact fun p hp => ⟨p, hp, prim_eq_refl p⟩
  · cases x <;> cases y <;> simp only [EVal.eq]
    · exact prim_eq_symm _ _
    · exact Bool.and_comm _ _

/-- Rational values written differently (2/4 and 1/2) are equal. -/
theorem C18.rational_eq_by_value (n : Int) (d k : ℕ) : (Prim.rat (n * k) (d * k)).eq (Prim.rat n d) = true := by
  simp only [Prim.eq, beq_iff_eq]
  push_cast
  ring

/-- Attributes: reflexive, symmetric. -/
theorem C18.attr_eq_refl_symm (a b : AttrKey) : attrEq a a = true ∧ attrEq a b = attrEq b a := by
  constructor
  · simp only [attrEq, (C18.type_eq_contract a.ty a.ty).1, beq_self_eq_true, Bool.true_and]
    cases a.value with
    | none => rfl
    | some v => exact (C18.value_eq_refl_symm v v).1
  · unfold attrEq
    rw [(C18.type_eq_contract a.ty b.ty).2.1]
    have hn : (a.name == b.name) = (b.name == a.name) := by
      rw [Bool.eq_iff_iff, beq_iff_eq, beq_iff_eq]; exact eq_comm
    rw [hn]
    congr 1
    cases a.value with
    | none => cases b.value <;> rfl
    | some x =>
      cases b.value with
      | none => rfl
      | some y => exact (C18.value_eq_refl_symm x y).2

/-! ### Non-vacuity -/
example : blsEq (.cat [.leaf [16], .uni [.leaf [8], .leaf [16, 24]]]) (.leaf [24, 32, 40]) = true := by decide +kernel
example : (Prim.rat 2 4).eq (Prim.rat 1 2) = true := by decide
