import Bridge.Reader
import Props.C03
/-!
# C03 over the comment / attribute automaton generated from `_parser.py`, `_data_type_builder.py`, `_data_schema_builder.py`

`Gen/Reader.lean` is translated from the working tree of /repo on every run: the visitor `_ParseTreeProcessor` (comment
accumulation, `_flush_comment`, `visit_line`, `visit_end_of_line`, the statement visitors, `visit_identifier`, the string literal
visitors), the function `parse` (with the end-of-text flush), `DataTypeBuilder` (the lazily committed attribute, the directives, the
`---` marker), `DataSchemaBuilder`, `Error.set_error_location_if_unknown`.  `Bridge/Reader.lean` proves that running the generated
`parse` over the event stream of a document (`docEvents`: the grammar nodes the visitors react to, children first) computes what the
hand-written `Reader.runLines` + `Reader.flush` computes.  The theorems here restate the C03 theorems over the generated code.

`genRead` is `DSDLDefinition.read` with the GENERATED `parse` in the middle (grammar check and `finalize` are the model's); `LineOk` is
what the grammar guarantees of a line (names are not empty, a `@print` without expression has no text, string literals only in
statements) plus `fault ≠ emit` (a fault phase that no text and no generated case has).
-/
open Reader Gen.Reader Bridge.Rd
open Py hiding M Err

/-- **The generated `parse` computes the model.**  For every context, every initial world and every document of well-formed
    lines: the generated `parse`, run over the event stream of the document on the builder of the initial model state, returns
    exactly the visitor + builder that correspond to the model state after `runLines` and the end-of-text `flush` -- the same schemas,
    the same attributes in the same order with the same doc comments, the same header comments, the same queue, the same `@print`
    deliveries --, with the line counter on the last line; when the model fails, the generated code raises an `_error.Error` with the
    model's location and world. -/
theorem C03.gen_parse_is_model (c : Ctx) (strict : Bool) (ls : List Line) (w : W) (hls : ∀ l ∈ ls, LineOk l) :
    match runLines c 1 (St.init w) ls >>= fun s => flush c (lastLine 1 ls) s with
    | .ok s' => parse (env c) (ext c) (docEvents 1 ls) (ofB c (St.init w)) strict = (.ok (), ofSt c strict s' (lastLine 1 ls) (lastInner ls))
    | .error (e, w') => ∃ ge g', parse (env c) (ext c) (docEvents 1 ls) (ofB c (St.init w)) strict = (.error (.dsdl ge), g') ∧
        readErr c ge = e ∧ worldOf g' = w' :=
  gen_parse c strict ls w hls

/-- **`read` over the generated automaton is `readText`**, for every document of well-formed lines: same acceptance, same
    composite, same error location, same world. -/
theorem C03.gen_read_is_model (c : Ctx) (strict : Bool) (ls : List Line) (w : W) (hls : ∀ l ∈ ls, LineOk l) :
    genRead c strict ls w = readText c ls w :=
  genRead_eq c strict ls w hls

/-- the schemas of an accepted definition are the schema builders the GENERATED `DataTypeBuilder` holds when the generated
    `parse` has returned, in order (one for a message, request and response for a service) -/
theorem C03.gen_schemas_are_builders (c : Ctx) (strict : Bool) (ls : List Line) (w w' : W) (comp : Composite)
    (h : genRead c strict ls w = .ok (comp, w')) :
    ∃ g, parse (env c) (ext c) (docEvents 1 ls) (ofB c (St.init w)) strict = (.ok (), g) ∧
      comp.schemas = g.statement_stream_processor.structs.dropLast.map toSchema ++
        [(g.statement_stream_processor.structs.getLast?.map toSchema).getD Schema.empty] ∧
      comp.deprecated = g.statement_stream_processor.is_deprecated ∧ w' = worldOf g :=
  genRead_ok c strict ls w w' comp h

/-- **The generated automaton mirrors the source**: an accepted definition yields exactly its statements, per schema the
    fields / paddings in source order and the constants in source order, the flags and the request / response split as written. -/
theorem C03.gen_mirror (c : Ctx) (strict : Bool) (ls : List Line) (w w' : W) (comp : Composite) (hls : ∀ l ∈ ls, LineOk l)
    (h : genRead c strict ls w = .ok (comp, w')) :
    comp.schemas.map Schema.view = (Spec.of ls).schemas ∧ comp.deprecated = (Spec.of ls).deprecated := by
  rw [genRead_eq c strict ls w hls] at h
  exact C03.mirror c ls w w' comp h

/-- **Doc comment attachment by the generated automaton**: every attribute carries exactly the comment run that follows its
    statement (its trailing comment and the comment lines up to the next statement or empty line), every schema the run at its
    start; nothing is lost into a neighbour, nothing attached twice -- wherever blank lines and comments stand. -/
theorem C03.gen_docs (c : Ctx) (strict : Bool) (ls : List Line) (w w' : W) (comp : Composite) (hls : ∀ l ∈ ls, LineOk l)
    (hwf : ∀ l ∈ ls, l.wf) (h : genRead c strict ls w = .ok (comp, w')) :
    comp.schemas.flatMap (fun sc => sc.fields.map fun a => (a.core, a.doc)) = (attrDocs ls).filter (fun p => !isConst p) ∧
    comp.schemas.flatMap (fun sc => sc.consts.map fun a => (a.core, a.doc)) = (attrDocs ls).filter isConst ∧
    comp.schemas.map (·.doc) = commentRun "" ls :: markerDocs ls := by
  rw [genRead_eq c strict ls w hls] at h
  exact C03.docs c ls w w' comp hwf h

/-- **Presence or absence of the final newline** (the end-of-text flush of the generated `parse`): an additional empty last
    line changes neither acceptance nor the result, docs included. -/
theorem C03.gen_final_newline (c : Ctx) (strict : Bool) (ls : List Line) (w : W) (crlf : Bool) (hls : ∀ l ∈ ls, LineOk l) :
    okPart (genRead c strict (ls ++ [emptyLine crlf]) w) = okPart (genRead c strict ls w) := by
  have h2 : ∀ l ∈ ls ++ [emptyLine crlf], LineOk l := by
    intro l hl
    rcases List.mem_append.mp hl with h | h
    · exact hls l h
    · rw [List.mem_singleton.mp h]; exact lineOk_emptyLine crlf
  rw [genRead_eq c strict _ w h2, genRead_eq c strict ls w hls]
  exact C03.final_newline c ls w crlf

/-- **Extra comment / blank lines, over the generated automaton**: inserting a line without a statement -- a comment line, a
    blank line, an empty line -- anywhere changes neither acceptance nor the model up to doc strings. -/
theorem C03.gen_blank_comment_lines (c : Ctx) (strict : Bool) (hc : c.lineBlind) (ls₁ ls₂ : List Line) (l : Line) (w : W)
    (hls : ∀ x ∈ ls₁ ++ ls₂, LineOk x) (hwf : ∀ x ∈ ls₁ ++ ls₂, x.offsWf) (hl : l.stmt = none) (hf : l.fault = none) (hi : l.inner = 0) :
    C03.obs (okPart (genRead c strict (ls₁ ++ l :: ls₂) w)) = C03.obs (okPart (genRead c strict (ls₁ ++ ls₂) w)) := by
  have hlo : LineOk l := ⟨by rw [hf]; simp, fun _ => hi, by rw [hl]; trivial⟩
  have h2 : ∀ x ∈ ls₁ ++ l :: ls₂, LineOk x := by
    intro x hx
    simp only [List.mem_append, List.mem_cons] at hx
    rcases hx with h | rfl | h
    · exact hls x (List.mem_append.mpr (Or.inl h))
    · exact hlo
    · exact hls x (List.mem_append.mpr (Or.inr h))
  rw [genRead_eq c strict _ w h2, genRead_eq c strict _ w hls]
  exact C03.blank_comment_lines c hc ls₁ ls₂ l w hwf hl (by rw [hf]; simp)

/-- **Formatting independence over the generated automaton**: two documents with the same statement sequence -- whatever their
    line structure -- are both rejected, or both accepted with the same model up to doc strings. -/
theorem C03.gen_formatting_independence (c : Ctx) (strict : Bool) (hc : c.lineBlind) (ls₁ ls₂ : List Line)
    (ho₁ : ∀ l ∈ ls₁, LineOk l) (ho₂ : ∀ l ∈ ls₂, LineOk l)
    (hwf₁ : ∀ l ∈ ls₁, l.offsWf) (hwf₂ : ∀ l ∈ ls₂, l.offsWf) (hit : items ls₁ = items ls₂) (w : W) :
    C03.obs (okPart (genRead c strict ls₁ w)) = C03.obs (okPart (genRead c strict ls₂ w)) := by
  rw [genRead_eq c strict _ w ho₁, genRead_eq c strict _ w ho₂]
  exact C03.formatting_independence c hc ls₁ ls₂ hwf₁ hwf₂ hit w

/-- **The text of a doc comment**, for every instantiation of the generated code (no model involved): the comment node `#t`
    appends `t` without ONE leading blank to the pending comment, behind a line feed unless the pending comment is empty. -/
theorem C03.gen_comment_text {P T V A L H : Type} (en : Env P T V A H) (g : ParserS P T V A L H) (t : Str) :
    (ParseTreeProcessor.visit_comment en ('#' :: t)).run g =
      (.ok (), { g with comment := g.comment ++ (if g.comment = [] then [] else ['\n']) ++ stripComment t }) :=
  visit_comment_run en g t

namespace C03.GenExamples
open C03.Examples
/-- the visitor + builder after the generated `parse` has run over the example service of `Props/C03.lean` -/
def after : Res GParser GExc Unit := parse (env ctx) (ext ctx) (docEvents 1 svc) (ofB ctx (St.init W.init)) false
end C03.GenExamples

open C03.Examples C03.GenExamples in
/-- non-vacuity: the lines of the example service are well formed; the generated `parse` returns normally on its 44 events; the
    generated `DataTypeBuilder` then holds two schema builders whose fields carry the doc comments `da⏎da2`, ``, ``, `last` (the
    last one committed by the end-of-text flush: the text ends without a newline), whose constants carry `c`, whose header
    comments are `hdr` and ``; nothing is left in the queue; the line counter stands on line 12 -/
example : (∀ l ∈ svc, LineOk l) ∧ (docEvents 1 svc).length = 44 ∧ after.1 = .ok () ∧
    after.2.statement_stream_processor.structs.map (fun sc => sc.fields.map fun a => (a.core.name, a.doc)) =
      [[("a", "da\nda2"), ("", "")], [("x", ""), ("y", "last")]] ∧
    after.2.statement_stream_processor.structs.map (fun sc => sc.constants.map fun a => (a.core.name, a.doc)) = [[("B", "c")], []] ∧
    after.2.statement_stream_processor.structs.map (fun sc => String.ofList sc.doc) = ["hdr", ""] ∧
    after.2.statement_stream_processor.element_callback = none ∧ after.2.current_line_number = 12 := by
  refine ⟨by decide, by decide +kernel, by decide +kernel, by decide +kernel, by decide +kernel, by decide +kernel, by decide +kernel,
    by decide +kernel⟩

open C03.Examples in
/-- non-vacuity of `gen_read_is_model` / `gen_final_newline` / `gen_blank_comment_lines`: accepted texts -/
example : (okPart (genRead ctx false svc W.init)).isSome = true ∧
    (okPart (genRead ctx false (svc ++ [emptyLine false]) W.init)).isSome = true ∧
    (∀ x ∈ [fld "a"] ++ [dir "sealed"], LineOk x) ∧ LineOk (ln none (some " c")) ∧
    (okPart (genRead ctx false ([fld "a"] ++ ln none (some " c") :: [dir "sealed"]) W.init)).isSome = true := by
  refine ⟨by decide +kernel, by decide +kernel, by decide, by decide, by decide +kernel⟩

/-- non-vacuity of `gen_comment_text`: `# a` and `#  b` (two blanks) and `#c` on an empty pending comment and behind one -/
example : stripComment " a".toList = "a".toList ∧ stripComment "  b".toList = " b".toList ∧ stripComment "c".toList = "c".toList := by
  decide
