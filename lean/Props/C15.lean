import Proofs.NamespaceC15
import Proofs.NamespaceBook
import Proofs.NamespaceExample
import Proofs.RootInfer
/-! C15 - name, version and port-ID are exactly those encoded in the file path.
    `Ns.parseFileName` / `Ns.mkDef` model `DSDLDefinition.__init__`, `Ns.finalize` the hand-over to the composite.
    Second half of the file: the root inference of `read_files` (`Model/RootInfer.lean`: the four inferences of
    `_infer_path_to_root_from_first_found`, `from_first_in`, lexical `pathlib` resolution against a working directory over
    an abstract file system) returns the same (root, file) for every way of designating the root.
    Not under a theorem (correspondence only): symbolic links. -/
open Ns

/-- `[<port-id>.]<ShortName>.<major>.<minor>.<ext>` is parsed back to exactly its components. -/
theorem C15.roundtrip (x : FileName) (ext : List Char) (hs : '.' ∉ x.short) (he : '.' ∉ ext) :
    parseFileName (renderFileName x ext) = .ok x := by
  obtain ⟨pid, short, major, minor⟩ := x
  simp only at hs
  cases pid with
  | none =>
    have : renderFileName ⟨none, short, major, minor⟩ ext
        = short ++ '.' :: (Nat.toDigits 10 major ++ '.' :: (Nat.toDigits 10 minor ++ '.' :: ext)) := by
      simp [renderFileName]
    rw [this]
    unfold parseFileName
    rw [splitDots_append hs, splitDots_append (nodot_toDigits _), splitDots_append (nodot_toDigits _), splitDots_nodot he]
    simp [parseNat_toDigits]
  | some p =>
    have : renderFileName ⟨some p, short, major, minor⟩ ext
        = Nat.toDigits 10 p ++ '.' :: (short ++ '.' :: (Nat.toDigits 10 major ++ '.' :: (Nat.toDigits 10 minor ++ '.' :: ext))) := by
      simp [renderFileName]
    rw [this]
    unfold parseFileName
    rw [splitDots_append (nodot_toDigits _), splitDots_append hs, splitDots_append (nodot_toDigits _),
      splitDots_append (nodot_toDigits _), splitDots_nodot he]
    simp [parseNat_toDigits]

/-- The shape of every accepted file name (malformed shapes are rejected with `FileNameFormatError`): exactly three or
    four dot-separated components before the extension, the version (and the port-ID) plain decimal numerals. -/
def C15.WellShaped (s : List Char) (x : FileName) : Prop :=
  ∃ ma mi ext : List Char, isDigits ma = true ∧ isDigits mi = true ∧ x.major = Nat.ofDigitChars 10 ma 0 ∧
    x.minor = Nat.ofDigitChars 10 mi 0 ∧ '.' ∉ x.short ∧ '.' ∉ ext ∧
    match x.pid with
    | none => s = x.short ++ '.' :: (ma ++ '.' :: (mi ++ '.' :: ext))
    | some p => ∃ ps : List Char, isDigits ps = true ∧ p = Nat.ofDigitChars 10 ps 0 ∧
        s = ps ++ '.' :: (x.short ++ '.' :: (ma ++ '.' :: (mi ++ '.' :: ext)))

theorem C15.accepted_shape (s : List Char) (x : FileName) (h : parseFileName s = .ok x) : C15.WellShaped s x := by
  unfold parseFileName at h
  have hj := joinChars_splitDots s
  have hne := splitDots_ne_nil s
  have hsp : splitDots s = (splitDots s).dropLast ++ [(splitDots s).getLast hne] := (List.dropLast_concat_getLast hne).symm
  have hmem : ∀ p ∈ splitDots s, '.' ∉ p := fun p hp => nodot_of_mem_splitDots hp
  generalize hl : (splitDots s).getLast hne = ext at hsp
  split at h
  · rename_i p n ma mi hd
    rw [hd] at hsp
    split at h
    · rename_i pv mav miv hp hma hmi
      cases h
      obtain ⟨dp, ep⟩ := parseNat_isDigits hp
      obtain ⟨dma, ema⟩ := parseNat_isDigits hma
      obtain ⟨dmi, emi⟩ := parseNat_isDigits hmi
      refine ⟨ma, mi, ext, dma, dmi, ema, emi, hmem n (by rw [hsp]; simp), hmem ext (by rw [hsp]; simp), ?_⟩
      refine ⟨p, dp, ep, ?_⟩
      rw [hsp] at hj
      simpa [joinChars] using hj.symm
    · cases h
  · rename_i n ma mi hd
    rw [hd] at hsp
    split at h
    · rename_i mav miv hma hmi
      cases h
      obtain ⟨dma, ema⟩ := parseNat_isDigits hma
      obtain ⟨dmi, emi⟩ := parseNat_isDigits hmi
      refine ⟨ma, mi, ext, dma, dmi, ema, emi, hmem n (by rw [hsp]; simp), hmem ext (by rw [hsp]; simp), ?_⟩
      rw [hsp] at hj
      simpa [joinChars] using hj.symm
    · cases h
  · cases h

/-- a rejection is a `FileNameFormatError` -/
theorem C15.rejection_class (s : List Char) (e : Err) (h : parseFileName s = .error e) : e = .fileName := by
  unfold parseFileName at h
  repeat' split at h
  all_goals first | (cases h; rfl) | cases h

/-- the definition object carries exactly the identity encoded in the path below the root namespace directory -/
theorem C15.def_identity (tgt : Bool) (e : FileEntry) (d : Def) (h : mkDef tgt e = .ok d) :
    ∃ fn, parseFileName e.fname.toList = .ok fn ∧
      d.name = joinDots (dirName e.dir :: (e.sub ++ [String.ofList fn.short])) ∧
      d.major = fn.major ∧ d.minor = fn.minor ∧ d.fpid = fn.pid ∧
      d.path = e.dir ++ e.sub ++ [e.fname] ∧ d.root = e.dir := by
  unfold mkDef at h
  simp only at h
  split at h
  · cases h
  · split at h
    · cases h
    · rename_i fn hfn
      split at h
      · cases h
      · cases h
        exact ⟨fn, hfn, rfl, rfl, rfl, rfl, rfl, rfl⟩

/-- ... and the composite built from it has the same name, version, port-ID, source file and root directory -/
theorem C15.type_identity (allowUnreg : Bool) (d : Def) (req : SecInfo) (resp : Option SecInfo) (nested : List Ty) (t : Ty)
    (h : finalize allowUnreg d req resp nested = .ok t) :
    t.info.name = d.name ∧ t.info.major = d.major ∧ t.info.minor = d.minor ∧ t.info.fpid = d.fpid ∧
      t.info.path = d.path ∧ t.info.root = d.root := by
  unfold finalize at h
  simp only at h
  repeat' split at h
  all_goals first
    | (injection h with h; subst h; exact ⟨rfl, rfl, rfl, rfl, rfl, rfl⟩)
    | (injection h)

/-- End to end, through the cache and the direct / transitive book-keeping: every type `read_namespace` returns - direct or
    transitive - carries exactly the name, version, port-ID, file path and root directory of one file of the enumeration
    that lies under one of the (accepted) directories (`C15.def_identity` spells the definition's fields out in terms of
    the path). -/
theorem C15.result_identity (files : List FileEntry) (root : Path) (lookups : List Path) (ac au : Bool) (d t : List Ty)
    (p : List Nat) (h : readNamespace files root lookups ac au = ⟨.ok (d, t), p⟩) :
    ∀ x ∈ d ++ t, ∃ e ∈ files, ∃ tg y, e.dir ∈ dedupPaths (lookups ++ [root]) ∧ mkDef tg e = .ok y ∧
      x.info.name = y.name ∧ x.info.major = y.major ∧ x.info.minor = y.minor ∧ x.info.fpid = y.fpid ∧
      x.info.path = e.dir ++ e.sub ++ [e.fname] ∧ x.info.root = e.dir := by
  obtain ⟨ts, hts⟩ := readNamespace_ok_collect h
  rcases readNamespace_inv hts h with ⟨_, rfl, rfl⟩ | ⟨L, hL, hc, hk, hu⟩
  · intro x hx; cases hx
  · intro x hx
    obtain ⟨y, hy, hd⟩ := completeRead_good hL (hypP_of_dirs hk fun x hx => (hu x hx).fromDirs) hc x hx
    obtain ⟨e, he, tg, hdir, hm⟩ := hu y hy
    obtain ⟨i1, i2, i3, i4, i5, i6⟩ := hd.info
    obtain ⟨m1, m2, _⟩ := mkDef_path hm
    exact ⟨e, he, tg, y, hdir, hm, i1, i2, i3, i4, by rw [i5, m1], by rw [i6, m2]⟩

/-- the same for `read_files`; a direct type may come from a target file that is not in the enumeration -/
theorem C15.result_identity_files (files targets : List FileEntry) (roots lookups : List Path) (au : Bool) (d t : List Ty)
    (p : List Nat) (ts : List Def) (hts : mapMDefs true targets = .ok ts)
    (h : readFiles files targets roots lookups au = ⟨.ok (d, t), p⟩) :
    ∀ x ∈ d ++ t, ∃ e tg y, e.dir ∈ dedupPaths (lookups ++ ts.map Def.root ++ roots) ∧ mkDef tg e = .ok y ∧
      x.info.name = y.name ∧ x.info.major = y.major ∧ x.info.minor = y.minor ∧ x.info.fpid = y.fpid ∧
      x.info.path = e.dir ++ e.sub ++ [e.fname] ∧ x.info.root = e.dir := by
  rcases readFiles_inv hts h with ⟨_, rfl, rfl⟩ | ⟨L, hL, hc, hk, hu, _⟩
  · intro x hx; cases hx
  · intro x hx
    obtain ⟨y, hy, hd⟩ := completeRead_good hL (hypP_of_dirs hk hu) hc x hx
    obtain ⟨e, tg, hdir, hm⟩ := hu y hy
    obtain ⟨i1, i2, i3, i4, i5, i6⟩ := hd.info
    obtain ⟨m1, m2, _⟩ := mkDef_path hm
    exact ⟨e, tg, y, hdir, hm, i1, i2, i3, i4, by rw [i5, m1], by rw [i6, m2]⟩

section NonVacuity
example : parseFileName "7000.Heartbeat.1.0.dsdl".toList = .ok ⟨some 7000, "Heartbeat".toList, 1, 0⟩ := by decide
example : renderFileName ⟨some 7000, "Heartbeat".toList, 1, 0⟩ "dsdl".toList = "7000.Heartbeat.1.0.dsdl".toList := by decide
example : parseFileName "A.255.12.uavcan".toList = .ok ⟨none, ['A'], 255, 12⟩ := by decide
/-- malformed shapes, including the ones CPython's `int()` would take (finding F10) -/
example : ["A.dsdl", "A.1.dsdl", "A.x.0.dsdl", "x.A.1.0.dsdl", "1.2.A.1.0.dsdl", "A..0.dsdl", "A.1_0.0.dsdl", "A.+1.0.dsdl",
           "A. 1.0.dsdl", "A.1.-0.dsdl"].all (fun s => parseFileName s.toList == .error .fileName) = true := by decide
example : C15.WellShaped "A.1.0.dsdl".toList ⟨none, ['A'], 1, 0⟩ := C15.accepted_shape _ _ (by decide)
open Ns.Example in
example := C15.result_identity Example.fs ["w", "ns"] [["w", "other"]] true false [TA, TB] [] [] evalNs
open Ns.Example in
example := C15.result_identity_files Example.fs [eA] [] [["w", "other"]] false [TA] [TB] [] [dA true] (by simp [mapMDefs, mkA]) evalFiles
end NonVacuity

/-! ## The root inference of `read_files`: every designation of the root gives the same (root directory, file)

    `R` is the root namespace directory, the definition file is `R ++ sub ++ [fname]`; both are absolute and normalised.
    `RootInfer.fromFirstIn fs cwd target roots` models `DSDLDefinition.from_first_in` called with the working directory
    `cwd`: INFERENCE 1-4 of `_infer_path_to_root_from_first_found`, the anchoring of a relative target, and the checks of
    `DSDLDefinition.__init__` that come before the file name is parsed. -/
namespace C15
open RootInfer hiding resolve Err

/-- What is assumed of the designated file throughout: the file system is one (what has an entry is a directory), the
    file exists, its path is normalised (the working directory too is always taken normalised). -/
structure Designated (fs : FS) (R sub : List String) (fname : String) : Prop where
  wf : fs.WF
  file : fs.has (R ++ sub ++ [fname]) = true
  noDD : ".." ∉ R ++ sub ++ [fname]

end C15

open RootInfer hiding resolve Err in
/-- THE GENERAL FORM for a target that is absolute or relative to the working directory, spelled in any way (`..`, `.`):
    if the target resolves to the file, some listed root - absolute, relative to the working directory, `.`, with `..`,
    or a bare name that happens to be a directory of the working directory - resolves to `R`, and `R` is the only
    directory above the file that a listed root resolves to (no nested roots), the result is exactly (R, file);
    whatever else is listed, in whatever order. -/
theorem C15.designation_resolved {fs : FS} {R sub : List String} {fname : String} (hd : C15.Designated fs R sub fname)
    (hdot : Ns.hasDot (R.getLast?.getD "") = false) (cwd : AbsPath) (t : RootInfer.Path) (roots : List RootInfer.Path)
    (hcwd : ".." ∉ cwd) (ht : RootInfer.resolve cwd t = R ++ sub ++ [fname])
    (hmem : ∃ r ∈ roots, RootInfer.resolve cwd r = R)
    (honly : ∀ r ∈ roots, RootInfer.resolve cwd r <+: R ++ sub ++ [fname] → RootInfer.resolve cwd r = R) :
    fromFirstIn fs cwd t roots = .ok (R, R ++ sub ++ [fname]) := by
  have hRF : R <+: R ++ sub ++ [fname] := ⟨sub ++ [fname], by simp⟩
  obtain ⟨r', h2, hr'⟩ := inference2_resolved hcwd ht hRF roots hmem honly
  have hfound : foundAsGiven fs cwd t = true := by
    unfold foundAsGiven; rw [ht, hd.file]; simp
  have hne : roots.isEmpty = false := by
    obtain ⟨r, hr, _⟩ := hmem
    cases roots with
    | nil => cases hr
    | cons _ _ => rfl
  simp only [fromFirstIn, inferRoot, hne, Bool.false_eq_true, if_false, hfound, h2]
  exact finish_here hr' ht hd.file hRF hdot

open RootInfer hiding resolve Err in
/-- DESIGNATION 1 - the root as an absolute path, the target absolute; other roots may be listed before and after it as long
    as none of them resolves to another directory above the file. -/
theorem C15.designation_absolute_root {fs : FS} {R sub : List String} {fname : String} (hd : C15.Designated fs R sub fname)
    (hdot : Ns.hasDot (R.getLast?.getD "") = false) (cwd : AbsPath) (hcwd : ".." ∉ cwd) (pre post : List RootInfer.Path)
    (honly : ∀ r ∈ pre ++ post, RootInfer.resolve cwd r <+: R ++ sub ++ [fname] → RootInfer.resolve cwd r = R) :
    fromFirstIn fs cwd ⟨true, R ++ sub ++ [fname]⟩ (pre ++ ⟨true, R⟩ :: post) = .ok (R, R ++ sub ++ [fname]) := by
  have hR : ".." ∉ R := fun h => hd.noDD (by simp [h])
  have hres : RootInfer.resolve cwd ⟨true, R⟩ = R := resolve_abs_of_noDD hR cwd
  apply C15.designation_resolved hd hdot cwd _ _ hcwd (resolve_abs_of_noDD hd.noDD cwd) ⟨_, by simp, hres⟩
  intro r hr hp
  rcases List.mem_append.1 hr with h | h
  · exact honly r (List.mem_append_left _ h) hp
  · rcases List.mem_cons.1 h with rfl | h
    · exact hres
    · exact honly r (List.mem_append_right _ h) hp

open RootInfer hiding resolve Err in
/-- DESIGNATION 2 - the root as a path relative to the working directory (`cwd ++ rel = R`), the target relative to the
    working directory too (the first example of the docstring of `read_files`). -/
theorem C15.designation_relative_root {fs : FS} {sub : List String} {fname : String} (cwd rel : List String)
    (hd : C15.Designated fs (cwd ++ rel) sub fname) (hdot : Ns.hasDot ((cwd ++ rel).getLast?.getD "") = false)
    (pre post : List RootInfer.Path)
    (honly : ∀ r ∈ pre ++ post, RootInfer.resolve cwd r <+: cwd ++ rel ++ sub ++ [fname] → RootInfer.resolve cwd r = cwd ++ rel) :
    fromFirstIn fs cwd ⟨false, rel ++ sub ++ [fname]⟩ (pre ++ ⟨false, rel⟩ :: post) = .ok (cwd ++ rel, cwd ++ rel ++ sub ++ [fname]) := by
  have hcwd : ".." ∉ cwd := fun h => hd.noDD (by simp [h])
  have hrel : ".." ∉ rel := fun h => hd.noDD (by simp [h])
  have ht' : ".." ∉ rel ++ sub ++ [fname] := fun h => hd.noDD (by
    simp only [List.mem_append] at h ⊢; grind)
  have hres : RootInfer.resolve cwd ⟨false, rel⟩ = cwd ++ rel := resolve_rel_noDD hrel cwd
  have ht : RootInfer.resolve cwd ⟨false, rel ++ sub ++ [fname]⟩ = cwd ++ rel ++ sub ++ [fname] := by
    rw [resolve_rel_noDD ht']; simp
  apply C15.designation_resolved hd hdot cwd _ _ hcwd ht ⟨_, by simp, hres⟩
  intro r hr hp
  rcases List.mem_append.1 hr with h | h
  · exact honly r (List.mem_append_left _ h) hp
  · rcases List.mem_cons.1 h with rfl | h
    · exact hres
    · exact honly r (List.mem_append_right _ h) hp

open RootInfer hiding resolve Err in
/-- DESIGNATION 3 - the target relative to the directory that holds the root (`n/sub/fname`, `R = Rp ++ [n]`), the root as a
    path (absolute or relative to the working directory, without `..`), the working directory elsewhere.
    Side conditions the code needs: the target does not exist as given in the working directory (`hnot`; otherwise it is
    read relative to the working directory, see `C15.designation_resolved`), and among the listed roots NAMED `n` the relative
    target exists under the parent of `R` only (`hone`; otherwise the first such root wins).  Whatever else is listed - the bare
    name of the root, relative roots that are lexical prefixes of the target (since /repo 418aff7 the lexical match of a target
    that does not exist as given is only a fallback after INFERENCE 3), roots of other names whose ancestors are named `n` and
    hold the same relative path (since /repo 772b846 the parents of a root are not tried) - does not matter. -/
theorem C15.designation_root_parent_relative {fs : FS} {Rp sub : List String} {n fname : String}
    (hd : C15.Designated fs (Rp ++ [n]) sub fname) (hdot : Ns.hasDot n = false) (cwd : AbsPath) (roots : List RootInfer.Path)
    (hnot : fs.has (cwd ++ n :: (sub ++ [fname])) = false)
    (hmem : ∃ r ∈ roots, r.parts ≠ [] ∧ ".." ∉ r.parts ∧ RootInfer.resolve cwd r = Rp ++ [n])
    (hone : ∀ r ∈ roots, r.pyParts.getLast? = some n →
      fs.has (RootInfer.resolve cwd (r.parent.join ⟨false, n :: (sub ++ [fname])⟩)) = true → RootInfer.resolve cwd r = Rp ++ [n]) :
    fromFirstIn fs cwd ⟨false, n :: (sub ++ [fname])⟩ roots = .ok (Rp ++ [n], Rp ++ [n] ++ sub ++ [fname]) := by
  have hF : fs.has (Rp ++ n :: (sub ++ [fname])) = true := by simpa using hd.file
  have hn : n ≠ ".." := fun e => hd.noDD (by simp [e])
  have hrest : ".." ∉ sub ++ [fname] := fun h => hd.noDD (by simp only [List.mem_append] at h ⊢; grind)
  have hnr : ".." ∉ n :: (sub ++ [fname]) := by
    intro hm; rcases List.mem_cons.1 hm with e | e
    · exact hn e.symm
    · exact hrest e
  have hres : RootInfer.resolve cwd ⟨false, n :: (sub ++ [fname])⟩ = cwd ++ n :: (sub ++ [fname]) := resolve_rel_noDD hnr cwd
  have hnot : fs.has (RootInfer.resolve cwd ⟨false, n :: (sub ++ [fname])⟩) = false := by rw [hres]; exact hnot
  have hfound : foundAsGiven fs cwd ⟨false, n :: (sub ++ [fname])⟩ = false := by simp [foundAsGiven, hnot]
  obtain ⟨p, h3, hp, hj⟩ := inference3_welded hd.wf hn hrest hF roots hone hmem
  have hne' : roots.isEmpty = false := by
    obtain ⟨r, hr, _⟩ := hmem
    cases roots with
    | nil => cases hr
    | cons _ _ => rfl
  simp only [fromFirstIn, inferRoot, inference3IfRelative, hne', hfound, inference2_not_found, Bool.false_eq_true,
    Bool.false_and, Bool.or_self, if_false, h3]
  have hRF : Rp ++ [n] <+: Rp ++ [n] ++ sub ++ [fname] := ⟨sub ++ [fname], by simp⟩
  exact finish_anchored hp rfl hnot (by rw [hj]; simp) hd.file hRF (by simpa using hdot)

open RootInfer hiding resolve Err in
/-- DESIGNATION 4 - the root by its bare name `n`; the target (absolute: `a = true`, or relative to the working directory)
    has the components `pre ++ [n] ++ sub ++ [fname]`, the directory `pre ++ [n]` being `R`.
    Side conditions the code needs: no listed bare name occurs in `pre` (the FIRST bare name on the typed path wins) and no
    listed root read as a path lies above the file (`hno`; then INFERENCE 2 decides, see `C15.designation_resolved`).  Other
    roots may be listed as paths of any shape (since /repo 866a874 a relative target that exists as given and has a bare
    root name on its path is not welded onto the parents of those paths). -/
theorem C15.designation_bare_name {fs : FS} {R sub : List String} {fname : String} (hd : C15.Designated fs R sub fname)
    (hdot : Ns.hasDot (R.getLast?.getD "") = false) (cwd : AbsPath) (a : Bool) (pre : List String) (n : String)
    (roots : List RootInfer.Path) (hR : (if a then [] else cwd) ++ pre ++ [n] = R)
    (hbare : (⟨false, [n]⟩ : RootInfer.Path) ∈ roots)
    (hno : ∀ r ∈ roots, ¬ RootInfer.resolve cwd r <+: R ++ sub ++ [fname])
    (hfirst : ∀ c ∈ pre, c ∉ rootNames roots) (hslash : a = true → "/" ∉ rootNames roots) :
    fromFirstIn fs cwd ⟨a, pre ++ n :: (sub ++ [fname])⟩ roots = .ok (R, R ++ sub ++ [fname]) := by
  have hRF : R <+: R ++ sub ++ [fname] := ⟨sub ++ [fname], by simp⟩
  have hF : (if a then [] else cwd) ++ (pre ++ n :: (sub ++ [fname])) = R ++ sub ++ [fname] := by rw [← hR]; simp
  have htp : ".." ∉ pre ++ n :: (sub ++ [fname]) := fun h => hd.noDD (by rw [← hF]; exact List.mem_append_right _ h)
  have hpn : ".." ∉ pre ++ [n] := fun h => hd.noDD (by
    rw [← hR]; simp only [List.mem_append] at h ⊢; grind)
  have ht : RootInfer.resolve cwd ⟨a, pre ++ n :: (sub ++ [fname])⟩ = R ++ sub ++ [fname] := by
    rw [resolve_noDD htp]; exact hF
  have hfound : foundAsGiven fs cwd ⟨a, pre ++ n :: (sub ++ [fname])⟩ = true := by
    unfold foundAsGiven; rw [ht, hd.file]; simp
  have h2 : inference2 true cwd ⟨a, pre ++ n :: (sub ++ [fname])⟩ roots = none :=
    inference2_none true roots (by rw [ht]; exact hno)
  have hpar : (pre ++ n :: (sub ++ [fname])).dropLast = pre ++ n :: sub := by
    rw [show pre ++ n :: (sub ++ [fname]) = (pre ++ n :: sub) ++ [fname] by simp, List.dropLast_concat]
  have hnm : n ∈ rootNames roots := bare_mem_rootNames hbare (fun e => hpn (by simp [e]))
  have h3 : inference3IfRelative fs cwd true ⟨a, pre ++ n :: (sub ++ [fname])⟩ roots = .ok none := by
    unfold inference3IfRelative
    rw [if_pos]
    cases a with
    | true => rfl
    | false =>
      simp only [Bool.false_or, Bool.true_and, Path.parent, Path.pyParts, Bool.false_eq_true, if_false, hpar,
        List.any_eq_true, List.contains_eq_mem, decide_eq_true_eq]
      exact ⟨n, by simp, hnm⟩
  have h4 : inference4 ⟨a, pre ++ n :: (sub ++ [fname])⟩ roots = some ⟨a, pre ++ [n]⟩ := by
    have hs : (a && (rootNames roots).contains "/") = false := by
      cases a with
      | false => rfl
      | true => simpa using hslash rfl
    simp only [inference4, hs, Bool.false_eq_true, if_false, Path.parent, hpar]
    rw [firstHit_spec hnm pre sub [] hfirst]
    simp
  have hne : roots.isEmpty = false := by
    cases roots with
    | nil => cases hbare
    | cons _ _ => rfl
  have hroot : RootInfer.resolve cwd ⟨a, pre ++ [n]⟩ = R := by
    rw [resolve_noDD hpn, ← hR]; simp
  simp only [fromFirstIn, inferRoot, hne, Bool.false_eq_true, if_false, hfound, h2, h3, lexicalMatch, if_true, h4]
  exact finish_here hroot ht hd.file hRF hdot

open RootInfer hiding resolve Err in
/-- DESIGNATION 5 - no roots at all; the working directory is the directory that holds the root, the target starts with the
    root's name (INFERENCE 1). -/
theorem C15.designation_no_roots {fs : FS} {Rp sub : List String} {n fname : String}
    (hd : C15.Designated fs (Rp ++ [n]) sub fname) (hdot : Ns.hasDot n = false) :
    fromFirstIn fs Rp ⟨false, n :: (sub ++ [fname])⟩ [] = .ok (Rp ++ [n], Rp ++ [n] ++ sub ++ [fname]) := by
  have hn : n ≠ ".." := fun e => hd.noDD (by simp [e])
  have hnr : ".." ∉ n :: (sub ++ [fname]) := fun h => hd.noDD (by
    simp only [List.mem_append, List.mem_cons] at h ⊢; grind)
  have hdir : fs.isDir (Rp ++ [n]) = true := hd.wf.isDir_prefix (Rp ++ [n]) (sub ++ [fname]) (by simp) (by simpa using hd.file)
  have hex : physExists fs Rp ⟨false, [n]⟩ = true := by
    unfold physExists
    exact walk_noDD hd.wf (by simpa using hn.symm) Rp (hd.wf.dirHas _ hdir)
  simp only [fromFirstIn, inferRoot, List.isEmpty_nil, if_true, Bool.false_eq_true, if_false, hex]
  have hRF : Rp ++ [n] <+: Rp ++ [n] ++ sub ++ [fname] := ⟨sub ++ [fname], by simp⟩
  refine finish_here (R := Rp ++ [n]) ?_ ?_ hd.file hRF (by simpa using hdot)
  · exact resolve_rel_noDD (by simpa using hn.symm) Rp
  · rw [resolve_rel_noDD hnr]; simp

/-- The designations covered by the five theorems, as a relation between a working directory, a target and a root list. -/
inductive C15.Designates (fs : RootInfer.FS) (R sub : List String) (fname : String) :
    RootInfer.AbsPath → RootInfer.Path → List RootInfer.Path → Prop
  | resolved (cwd t roots) (hcwd : ".." ∉ cwd) (ht : RootInfer.resolve cwd t = R ++ sub ++ [fname])
      (hmem : ∃ r ∈ roots, RootInfer.resolve cwd r = R)
      (honly : ∀ r ∈ roots, RootInfer.resolve cwd r <+: R ++ sub ++ [fname] → RootInfer.resolve cwd r = R) :
      C15.Designates fs R sub fname cwd t roots
  | rootParentRelative (Rp n cwd roots) (hR : R = Rp ++ [n]) (hnot : fs.has (cwd ++ n :: (sub ++ [fname])) = false)
      (hmem : ∃ r ∈ roots, r.parts ≠ [] ∧ ".." ∉ r.parts ∧ RootInfer.resolve cwd r = Rp ++ [n])
      (hone : ∀ r ∈ roots, r.pyParts.getLast? = some n →
        fs.has (RootInfer.resolve cwd (r.parent.join ⟨false, n :: (sub ++ [fname])⟩)) = true → RootInfer.resolve cwd r = Rp ++ [n]) :
      C15.Designates fs R sub fname cwd ⟨false, n :: (sub ++ [fname])⟩ roots
  | bareName (cwd a pre n roots) (hR : (if a then [] else cwd) ++ pre ++ [n] = R)
      (hbare : (⟨false, [n]⟩ : RootInfer.Path) ∈ roots)
      (hno : ∀ r ∈ roots, ¬ RootInfer.resolve cwd r <+: R ++ sub ++ [fname])
      (hfirst : ∀ c ∈ pre, c ∉ RootInfer.rootNames roots) (hslash : a = true → "/" ∉ RootInfer.rootNames roots) :
      C15.Designates fs R sub fname cwd ⟨a, pre ++ n :: (sub ++ [fname])⟩ roots
  | noRoots (Rp n) (hR : R = Rp ++ [n]) : C15.Designates fs R sub fname Rp ⟨false, n :: (sub ++ [fname])⟩ []

open RootInfer hiding resolve Err in
/-- every covered designation yields exactly the root directory and the file -/
theorem C15.designation_sound {fs : FS} {R sub : List String} {fname : String} (hd : C15.Designated fs R sub fname)
    (hdot : Ns.hasDot (R.getLast?.getD "") = false) {cwd : AbsPath} {t : RootInfer.Path} {roots : List RootInfer.Path}
    (h : C15.Designates fs R sub fname cwd t roots) : fromFirstIn fs cwd t roots = .ok (R, R ++ sub ++ [fname]) := by
  cases h with
  | resolved _ _ _ hcwd ht hmem honly => exact C15.designation_resolved hd hdot cwd t roots hcwd ht hmem honly
  | rootParentRelative Rp n _ _ hR hnot hmem hone =>
    subst hR
    exact C15.designation_root_parent_relative hd (by simpa using hdot) cwd roots hnot hmem hone
  | bareName _ a pre n _ hR hbare hno hfirst hslash =>
    exact C15.designation_bare_name hd hdot cwd a pre n roots hR hbare hno hfirst hslash
  | noRoots Rp n hR =>
    subst hR
    exact C15.designation_no_roots hd (by simpa using hdot)

open RootInfer hiding resolve Err in
/-- THE MAPPING IS THE SAME HOWEVER THE ROOT IS DESIGNATED: any two covered designations of one file - from different working
    directories, with different spellings of the target and different root lists - give the same outcome, which is the
    root directory and the file. -/
theorem C15.designations_agree {fs : FS} {R sub : List String} {fname : String} (hd : C15.Designated fs R sub fname)
    (hdot : Ns.hasDot (R.getLast?.getD "") = false) {cwd₁ cwd₂ : AbsPath} {t₁ t₂ : RootInfer.Path}
    {roots₁ roots₂ : List RootInfer.Path} (h₁ : C15.Designates fs R sub fname cwd₁ t₁ roots₁)
    (h₂ : C15.Designates fs R sub fname cwd₂ t₂ roots₂) :
    fromFirstIn fs cwd₁ t₁ roots₁ = fromFirstIn fs cwd₂ t₂ roots₂ ∧ fromFirstIn fs cwd₁ t₁ roots₁ = .ok (R, R ++ sub ++ [fname]) := by
  rw [C15.designation_sound hd hdot h₁, C15.designation_sound hd hdot h₂]; exact ⟨rfl, rfl⟩

open RootInfer hiding resolve Err in
/-- ... and so is the identity: the definition object built for the designated target is the one `DSDLDefinition.__init__`
    builds from the file's path relative to `R` - full name, version, port-ID, file path and root directory as spelled out by
    `C15.def_identity` - for every covered designation. -/
theorem C15.designation_identity {fs : FS} {R sub : List String} {fname : String} (hd : C15.Designated fs R sub fname)
    {cwd : AbsPath} {t : RootInfer.Path} {roots : List RootInfer.Path} (h : C15.Designates fs R sub fname cwd t roots)
    (text : Ns.Text) (d : Ns.Def) (hm : Ns.mkDef true ⟨R, sub, String.ofList fname.toList, text⟩ = .ok d) :
    definitionOf fs cwd t roots text = .ok d ∧ d.path = R ++ sub ++ [fname] ∧ d.root = R := by
  have hfn : String.ofList fname.toList = fname := by simp
  rw [hfn] at hm
  have hdot : Ns.hasDot (R.getLast?.getD "") = false := by
    unfold Ns.mkDef at hm
    simp only at hm
    split at hm
    · cases hm
    · rename_i hnd; simpa using hnd
  obtain ⟨_, _, _, _, _, _, hp, hr⟩ := C15.def_identity true _ d hm
  refine ⟨?_, by simpa using hp, hr⟩
  simp only [definitionOf, C15.designation_sound hd hdot h, entryOf_spec, hm]

/-- every target of a `read_files` call designates its file in one of the covered ways (all with the one root list) and
    that file has a well-formed name: `ds` are the definitions of those files under their root directories -/
inductive C15.AllDesignate (fs : RootInfer.FS) (cwd : RootInfer.AbsPath) (roots : List RootInfer.Path) (text : Ns.Text) :
    List RootInfer.Path → List Ns.Def → Prop
  | nil : C15.AllDesignate fs cwd roots text [] []
  | cons {t ts d ds} (R sub fname) (hd : C15.Designated fs R sub fname) (h : C15.Designates fs R sub fname cwd t roots)
      (hm : Ns.mkDef true ⟨R, sub, String.ofList fname.toList, text⟩ = .ok d) (rest : C15.AllDesignate fs cwd roots text ts ds) :
      C15.AllDesignate fs cwd roots text (t :: ts) (d :: ds)

open RootInfer hiding resolve Err in
/-- `_construct_dsdl_definitions_from_files`: the definitions built for the targets are exactly the definitions of the
    designated files under their root directories - the `targets : List FileEntry` "with the root inferred" that
    `Ns.readFiles` starts from. -/
theorem C15.read_files_targets {fs : FS} {cwd : AbsPath} {roots : List RootInfer.Path} (text : Ns.Text)
    {targets : List RootInfer.Path} {ds : List Ns.Def} (h : C15.AllDesignate fs cwd roots text targets ds) :
    mapDefs fs cwd roots text targets = .ok ds := by
  induction h with
  | nil => rfl
  | cons R sub fname h1 h2 h3 _ ih =>
    simp only [mapDefs, (C15.designation_identity h1 h2 text _ h3).1, ih]

/-! ### The tree of the docstring of `read_files` (below a directory `T`): the two designations that were NOT handled
    uniformly before /repo 418aff7, 866a874 and 772b846 (former findings F15, F14, F16) as positive statements, and examples -/
namespace C15.Doc
open RootInfer hiding resolve Err

def types : List String := ["T", "workspace", "project", "types"]
def animals : List String := types ++ ["animals"]
def plants : List String := types ++ ["plants"]
def tabby : List String := animals ++ ["felines", "Tabby.1.0.dsdl"]
def fs : FS := FS.ofLists
  [[], ["T"], ["T", "workspace"], ["T", "workspace", "project"], types, animals, animals ++ ["felines"], plants, plants ++ ["trees"]]
  [tabby, plants ++ ["trees", "DouglasFir.1.0.dsdl"]]

theorem designated : C15.Designated fs animals ["felines"] "Tabby.1.0.dsdl" :=
  ⟨FS.ofLists_WF (by decide), by decide, by decide⟩
theorem nodot : Ns.hasDot (animals.getLast?.getD "") = false := by decide

end C15.Doc

open RootInfer hiding resolve Err in
open C15.Doc in
/-- UNIFORM NOW (was finding F14, repaired by /repo 866a874): the working-directory-relative target of the docstring of
    `read_files` with each of the three documented root forms - both roots as bare names, both as paths, a bare name for one
    root and a path for the other (in both orders, the other path existing or not) - gives `.../types/animals` and the file.
    Before the repair the mixed form returned `T/workspace` (INFERENCE 3 welded the target onto a parent of the `plants` path).
    Instances of `C15.designation_bare_name` (which lost its hypothesis `hweld`) and `C15.designation_relative_root`. -/
theorem C15.mixed_names_and_paths_uniform :
    fromFirstIn fs ["T"] ⟨false, tabby.drop 1⟩ [⟨false, ["animals"]⟩, ⟨false, ["plants"]⟩] = .ok (animals, tabby) ∧
    fromFirstIn fs ["T"] ⟨false, tabby.drop 1⟩ [⟨false, animals.drop 1⟩, ⟨false, plants.drop 1⟩] = .ok (animals, tabby) ∧
    fromFirstIn fs ["T"] ⟨false, tabby.drop 1⟩ [⟨false, ["animals"]⟩, ⟨false, plants.drop 1⟩] = .ok (animals, tabby) ∧
    fromFirstIn fs ["T"] ⟨false, tabby.drop 1⟩ [⟨false, plants.drop 1⟩, ⟨false, ["animals"]⟩] = .ok (animals, tabby) ∧
    fromFirstIn fs ["T"] ⟨false, tabby.drop 1⟩ [⟨false, ["animals"]⟩, ⟨false, ["workspace", "project", "types", "nonexistent"]⟩]
      = .ok (animals, tabby) := by
  have bare := fun roots h1 h2 h3 h4 h5 =>
    C15.designation_bare_name designated nodot ["T"] false ["workspace", "project", "types"] "animals" roots h1 h2 h3 h4 h5
  refine ⟨bare _ (by decide) (by decide) (by decide) (by decide) (by decide), ?_,
    bare _ (by decide) (by decide) (by decide) (by decide) (by decide),
    bare _ (by decide) (by decide) (by decide) (by decide) (by decide),
    bare _ (by decide) (by decide) (by decide) (by decide) (by decide)⟩
  exact C15.designation_relative_root ["T"] (animals.drop 1) designated nodot [] [⟨false, plants.drop 1⟩] (by decide)

open RootInfer hiding resolve Err in
open C15.Doc in
/-- UNIFORM NOW (was finding F15, repaired by /repo 418aff7): a target relative to the directory that holds its root, the root
    given as a path - alone, or with the bare name of the root listed as well, before or after it.  Before the repair the
    bare name won the "as-is" match of INFERENCE 2 and the call failed with "file that doesn't exist".
    Instances of `C15.designation_root_parent_relative` (which lost its hypothesis `hlex`). -/
theorem C15.bare_name_with_root_path_uniform :
    fromFirstIn fs ["T"] ⟨false, tabby.drop 4⟩ [⟨false, animals.drop 1⟩] = .ok (animals, tabby) ∧
    fromFirstIn fs ["T"] ⟨false, tabby.drop 4⟩ [⟨false, animals.drop 1⟩, ⟨false, ["animals"]⟩] = .ok (animals, tabby) ∧
    fromFirstIn fs ["T"] ⟨false, tabby.drop 4⟩ [⟨false, ["animals"]⟩, ⟨false, animals.drop 1⟩] = .ok (animals, tabby) ∧
    fromFirstIn fs ["T"] ⟨false, tabby.drop 4⟩ [⟨false, ["animals"]⟩, ⟨false, ["animals", "felines"]⟩, ⟨true, animals⟩] = .ok (animals, tabby) := by
  have rp := fun roots h1 h2 =>
    C15.designation_root_parent_relative (Rp := types) (n := "animals") designated (by decide) ["T"] roots (by decide) h1 h2
  exact ⟨rp _ ⟨⟨false, animals.drop 1⟩, by decide, by decide, by decide, by decide⟩ (by decide),
    rp _ ⟨⟨false, animals.drop 1⟩, by decide, by decide, by decide, by decide⟩ (by decide),
    rp _ ⟨⟨false, animals.drop 1⟩, by decide, by decide, by decide, by decide⟩ (by decide),
    rp _ ⟨⟨true, animals⟩, by decide, by decide, by decide, by decide⟩ (by decide)⟩

/-- What is still NOT uniform, on purpose (documented "first match wins" / pure-path fallback): a target relative to the
    directory that holds its root when the root is given by its bare name ONLY and the working directory is elsewhere - the
    lexical fallback takes the name for a directory of the working directory. -/
theorem C15.bare_name_alone_is_relative_to_cwd :
    RootInfer.fromFirstIn C15.Doc.fs ["T"] ⟨false, C15.Doc.tabby.drop 4⟩ [⟨false, ["animals"]⟩] = .error .notFound ∧
    RootInfer.fromFirstIn C15.Doc.fs C15.Doc.types ⟨false, C15.Doc.tabby.drop 4⟩ [⟨false, ["animals"]⟩] = .ok (C15.Doc.animals, C15.Doc.tabby) := by
  decide

namespace C15.Nested
open RootInfer hiding resolve Err
/-- `x/ns/ns/animals/D.1.0.dsdl` (root `x/ns/ns`) and `x/ns/animals/D.1.0.dsdl` (root `x/ns/animals`): a directory named like
    the root namespace above another root -/
def fs : FS := FS.ofLists
  [[], ["x"], ["x", "ns"], ["x", "ns", "ns"], ["x", "ns", "ns", "animals"], ["x", "ns", "animals"], ["x", "cwd"]]
  [["x", "ns", "ns", "animals", "D.1.0.dsdl"], ["x", "ns", "animals", "D.1.0.dsdl"]]
theorem designated : C15.Designated fs (["x", "ns"] ++ ["ns"]) ["animals"] "D.1.0.dsdl" :=
  ⟨FS.ofLists_WF (by decide), by decide, by decide⟩
end C15.Nested

open RootInfer hiding resolve Err in
open C15.Nested in
/-- UNIFORM NOW (was finding F16, repaired by /repo 772b846): the target `ns/animals/D.1.0.dsdl` given relative to `x/ns`, the
    directory that holds the root `x/ns/ns`, with the other root `x/ns/animals` listed after it, before it, or a missing
    directory below it listed first: always `x/ns/ns` and its file.  Before the repair INFERENCE 3 walked up the parents of the
    other root, found its parent `x/ns` named like the first component of the target and returned `x/ns` - no listed root -
    with the file `x/ns/animals/D.1.0.dsdl`.  Instances of `C15.designation_root_parent_relative` (whose `huniq` shrank to `hone`). -/
theorem C15.welded_onto_listed_roots_only :
    fromFirstIn fs ["x", "cwd"] ⟨false, ["ns", "animals", "D.1.0.dsdl"]⟩ [⟨true, ["x", "ns", "ns"]⟩, ⟨true, ["x", "ns", "animals"]⟩]
      = .ok (["x", "ns", "ns"], ["x", "ns", "ns", "animals", "D.1.0.dsdl"]) ∧
    fromFirstIn fs ["x", "cwd"] ⟨false, ["ns", "animals", "D.1.0.dsdl"]⟩ [⟨true, ["x", "ns", "animals"]⟩, ⟨true, ["x", "ns", "ns"]⟩]
      = .ok (["x", "ns", "ns"], ["x", "ns", "ns", "animals", "D.1.0.dsdl"]) ∧
    fromFirstIn fs ["x", "cwd"] ⟨false, ["ns", "animals", "D.1.0.dsdl"]⟩ [⟨true, ["x", "ns", "animals", "none"]⟩, ⟨false, ["..", "ns", "ns"]⟩, ⟨true, ["x", "ns", "ns"]⟩]
      = .ok (["x", "ns", "ns"], ["x", "ns", "ns", "animals", "D.1.0.dsdl"]) := by
  have rp := fun roots h1 h2 =>
    C15.designation_root_parent_relative (Rp := ["x", "ns"]) (n := "ns") designated (by decide) ["x", "cwd"] roots (by decide) h1 h2
  exact ⟨rp _ ⟨⟨true, ["x", "ns", "ns"]⟩, by decide, by decide, by decide, by decide⟩ (by decide),
    rp _ ⟨⟨true, ["x", "ns", "ns"]⟩, by decide, by decide, by decide, by decide⟩ (by decide),
    rp _ ⟨⟨true, ["x", "ns", "ns"]⟩, by decide, by decide, by decide, by decide⟩ (by decide)⟩

/-- What `hone` still excludes, on purpose (documented: "the order of the valid_dsdl_roots list matters"): two listed roots of
    one NAME under whose parents the same relative target exists - the first listed wins. -/
theorem C15.two_roots_of_one_name_first_wins :
    let fs := RootInfer.FS.ofLists
      [[], ["a"], ["a", "ns"], ["b"], ["b", "ns"], ["cwd"]] [["a", "ns", "D.1.0.dsdl"], ["b", "ns", "D.1.0.dsdl"]]
    RootInfer.fromFirstIn fs ["cwd"] ⟨false, ["ns", "D.1.0.dsdl"]⟩ [⟨true, ["a", "ns"]⟩, ⟨true, ["b", "ns"]⟩] = .ok (["a", "ns"], ["a", "ns", "D.1.0.dsdl"]) ∧
    RootInfer.fromFirstIn fs ["cwd"] ⟨false, ["ns", "D.1.0.dsdl"]⟩ [⟨true, ["b", "ns"]⟩, ⟨true, ["a", "ns"]⟩] = .ok (["b", "ns"], ["b", "ns", "D.1.0.dsdl"]) := by
  decide

section NonVacuityDesignations
open RootInfer hiding resolve Err
open C15.Doc

/-- absolute root among a missing directory and another root; absolute target; working directory anywhere -/
example : fromFirstIn fs ["T", "workspace"] ⟨true, tabby⟩ ([⟨false, ["nope"]⟩] ++ ⟨true, animals⟩ :: [⟨true, plants⟩]) = .ok (animals, tabby) :=
  C15.designation_absolute_root designated nodot ["T", "workspace"] (by decide) _ _ (by decide)
/-- the first docstring example: everything relative to the working directory -/
example : fromFirstIn fs ["T"] ⟨false, animals.drop 1 ++ ["felines"] ++ ["Tabby.1.0.dsdl"]⟩
    ([] ++ ⟨false, animals.drop 1⟩ :: [⟨false, plants.drop 1⟩]) = .ok (animals, tabby) :=
  C15.designation_relative_root ["T"] (animals.drop 1) designated nodot [] _ (by decide)
/-- `..`, `.` and a bare name that is a directory of the working directory, through the general form -/
example : fromFirstIn fs types ⟨false, ["plants", "..", "animals", "felines", "Tabby.1.0.dsdl"]⟩
    [⟨false, ["..", "types", "plants"]⟩, ⟨false, ["animals"]⟩] = .ok (animals, tabby) :=
  C15.designation_resolved designated nodot types _ _ (by decide) (by decide) ⟨⟨false, ["animals"]⟩, by decide, by decide⟩ (by decide)
/-- the second docstring example: targets relative to the directory of the roots, roots as paths (relative and absolute) -/
example : fromFirstIn fs ["T"] ⟨false, "animals" :: (["felines"] ++ ["Tabby.1.0.dsdl"])⟩ [⟨true, plants⟩, ⟨false, animals.drop 1⟩] = .ok (animals, tabby) :=
  C15.designation_root_parent_relative (Rp := types) designated (by decide) ["T"] _ (by decide)
    ⟨⟨false, animals.drop 1⟩, by decide, by decide, by decide, by decide⟩ (by decide)
/-- bare names, relative target -/
example : fromFirstIn fs ["T"] ⟨false, ["workspace", "project", "types"] ++ "animals" :: (["felines"] ++ ["Tabby.1.0.dsdl"])⟩
    [⟨false, ["plants"]⟩, ⟨false, ["animals"]⟩] = .ok (animals, tabby) :=
  C15.designation_bare_name designated nodot ["T"] false _ "animals" _ (by decide) (by decide) (by decide) (by decide) (by decide)
/-- bare names, absolute target -/
example : fromFirstIn fs ["T", "workspace"] ⟨true, types ++ "animals" :: (["felines"] ++ ["Tabby.1.0.dsdl"])⟩
    [⟨false, ["animals"]⟩, ⟨false, plants.drop 1⟩] = .ok (animals, tabby) :=
  C15.designation_bare_name designated nodot ["T", "workspace"] true _ "animals" _ (by decide) (by decide) (by decide) (by decide) (by decide)
/-- no roots -/
example : fromFirstIn fs types ⟨false, "animals" :: (["felines"] ++ ["Tabby.1.0.dsdl"])⟩ [] = .ok (animals, tabby) :=
  C15.designation_no_roots (Rp := types) designated (by decide)
/-- two designations from two working directories agree -/
example := C15.designations_agree designated nodot
  (C15.Designates.noRoots types "animals" rfl)
  (C15.Designates.rootParentRelative types "animals" ["T"] [⟨true, plants⟩, ⟨false, animals.drop 1⟩] rfl (by decide)
    ⟨⟨false, animals.drop 1⟩, by decide, by decide, by decide, by decide⟩ (by decide))
/-- the identity of the designated definition -/
example : definitionOf fs types ⟨false, "animals" :: (["felines"] ++ ["Tabby.1.0.dsdl"])⟩ [] Ns.Example.S =
    .ok { tgt := true, path := tabby, root := animals, comps := ["animals", "felines", "Tabby"], name := "animals.felines.Tabby",
          major := 1, minor := 0, fpid := none, text := Ns.Example.S } :=
  (C15.designation_identity designated (C15.Designates.noRoots types "animals" rfl) Ns.Example.S _ (by decide)).1
/-- the targets of one `read_files` call -/
example := C15.read_files_targets (fs := fs) (cwd := types) (roots := []) Ns.Example.S
  (.cons animals ["felines"] "Tabby.1.0.dsdl" designated (C15.Designates.noRoots types "animals" rfl) (by decide :
    Ns.mkDef true ⟨animals, ["felines"], String.ofList "Tabby.1.0.dsdl".toList, Ns.Example.S⟩ = .ok
      { tgt := true, path := tabby, root := animals, comps := ["animals", "felines", "Tabby"], name := "animals.felines.Tabby",
        major := 1, minor := 0, fpid := none, text := Ns.Example.S }) .nil)
end NonVacuityDesignations
