import Proofs.NamespaceC15
import Proofs.NamespaceBook
import Proofs.NamespaceExample
/-! C15 - name, version and port-ID are exactly those encoded in the file path.
    `Ns.parseFileName` / `Ns.mkDef` model `DSDLDefinition.__init__`, `Ns.finalize` the hand-over to the composite.
    Not under a theorem (correspondence only): the four root-inference strategies of
    `_infer_path_to_root_from_first_found`, `pathlib` resolution, the working directory. -/
open Ns

/-- `[<port-id>.]<ShortName>.<major>.<minor>.<ext>` is parsed back to exactly its components. -/
theorem C15.roundtrip (x : FileName) (ext : List Char) (hs : '.' ∉ x.short) (he : '.' ∉ ext) :
    parseFileName (renderFileName x ext) = .ok x := by
  obtain ⟨pid, short, major, minor⟩ := x
  simp only at hs
  cases pid with
  | none =>
    have : renderFileName ⟨none, short, major, minor⟩ ext
        = short ++ '.' :: (Nat.toDigits 10 major ++ '.' :: (Nat.toDigits 10 minor ++ '.' :: ext)) := by
      simp [renderFileName]
    rw [this]
    unfold parseFileName
    rw [splitDots_append hs, splitDots_append (nodot_toDigits _), splitDots_append (nodot_toDigits _), splitDots_nodot he]
    simp [parseNat_toDigits]
  | some p =>
    have : renderFileName ⟨some p, short, major, minor⟩ ext
        = Nat.toDigits 10 p ++ '.' :: (short ++ '.' :: (Nat.toDigits 10 major ++ '.' :: (Nat.toDigits 10 minor ++ '.' :: ext))) := by
      simp [renderFileName]
    rw [this]
    unfold parseFileName
    rw [splitDots_append (nodot_toDigits _), splitDots_append hs, splitDots_append (nodot_toDigits _),
      splitDots_append (nodot_toDigits _), splitDots_nodot he]
    simp [parseNat_toDigits]

/-- The shape of every accepted file name (malformed shapes are rejected with `FileNameFormatError`): exactly three or
    four dot-separated components before the extension, the version (and the port-ID) plain decimal numerals. -/
def C15.WellShaped (s : List Char) (x : FileName) : Prop :=
  ∃ ma mi ext : List Char, isDigits ma = true ∧ isDigits mi = true ∧ x.major = Nat.ofDigitChars 10 ma 0 ∧
    x.minor = Nat.ofDigitChars 10 mi 0 ∧ '.' ∉ x.short ∧ '.' ∉ ext ∧
    match x.pid with
    | none => s = x.short ++ '.' :: (ma ++ '.' :: (mi ++ '.' :: ext))
    | some p => ∃ ps : List Char, isDigits ps = true ∧ p = Nat.ofDigitChars 10 ps 0 ∧
        s = ps ++ '.' :: (x.short ++ '.' :: (ma ++ '.' :: (mi ++ '.' :: ext)))

theorem C15.accepted_shape (s : List Char) (x : FileName) (h : parseFileName s = .ok x) : C15.WellShaped s x := by
  unfold parseFileName at h
  have hj := joinChars_splitDots s
  have hne := splitDots_ne_nil s
  have hsp : splitDots s = (splitDots s).dropLast ++ [(splitDots s).getLast hne] := (List.dropLast_concat_getLast hne).symm
  have hmem : ∀ p ∈ splitDots s, '.' ∉ p := fun p hp => nodot_of_mem_splitDots hp
  generalize hl : (splitDots s).getLast hne = ext at hsp
  split at h
  · rename_i p n ma mi hd
    rw [hd] at hsp
    split at h
    · rename_i pv mav miv hp hma hmi
      cases h
      obtain ⟨dp, ep⟩ := parseNat_isDigits hp
      obtain ⟨dma, ema⟩ := parseNat_isDigits hma
      obtain ⟨dmi, emi⟩ := parseNat_isDigits hmi
      refine ⟨ma, mi, ext, dma, dmi, ema, emi, hmem n (by rw [hsp]; simp), hmem ext (by rw [hsp]; simp), ?_⟩
      refine ⟨p, dp, ep, ?_⟩
      rw [hsp] at hj
      simpa [joinChars] using hj.symm
    · cases h
  · rename_i n ma mi hd
    rw [hd] at hsp
    split at h
    · rename_i mav miv hma hmi
      cases h
      obtain ⟨dma, ema⟩ := parseNat_isDigits hma
      obtain ⟨dmi, emi⟩ := parseNat_isDigits hmi
      refine ⟨ma, mi, ext, dma, dmi, ema, emi, hmem n (by rw [hsp]; simp), hmem ext (by rw [hsp]; simp), ?_⟩
      rw [hsp] at hj
      simpa [joinChars] using hj.symm
    · cases h
  · cases h

/-- a rejection is a `FileNameFormatError` -/
theorem C15.rejection_class (s : List Char) (e : Err) (h : parseFileName s = .error e) : e = .fileName := by
  unfold parseFileName at h
  repeat' split at h
  all_goals first | (cases h; rfl) | cases h

/-- the definition object carries exactly the identity encoded in the path below the root namespace directory -/
theorem C15.def_identity (tgt : Bool) (e : FileEntry) (d : Def) (h : mkDef tgt e = .ok d) :
    ∃ fn, parseFileName e.fname.toList = .ok fn ∧
      d.name = joinDots (dirName e.dir :: (e.sub ++ [String.ofList fn.short])) ∧
      d.major = fn.major ∧ d.minor = fn.minor ∧ d.fpid = fn.pid ∧
      d.path = e.dir ++ e.sub ++ [e.fname] ∧ d.root = e.dir := by
  unfold mkDef at h
  simp only at h
  split at h
  · cases h
  · split at h
    · cases h
    · rename_i fn hfn
      split at h
      · cases h
      · cases h
        exact ⟨fn, hfn, rfl, rfl, rfl, rfl, rfl, rfl⟩

/-- ... and the composite built from it has the same name, version, port-ID, source file and root directory -/
theorem C15.type_identity (allowUnreg : Bool) (d : Def) (req : SecInfo) (resp : Option SecInfo) (nested : List Ty) (t : Ty)
    (h : finalize allowUnreg d req resp nested = .ok t) :
    t.info.name = d.name ∧ t.info.major = d.major ∧ t.info.minor = d.minor ∧ t.info.fpid = d.fpid ∧
      t.info.path = d.path ∧ t.info.root = d.root := by
  unfold finalize at h
  simp only at h
  repeat' split at h
  all_goals first
    | (injection h with h; subst h; exact ⟨rfl, rfl, rfl, rfl, rfl, rfl⟩)
    | (injection h)

/-- End to end, through the cache and the direct / transitive book-keeping: every type `read_namespace` returns - direct or
    transitive - carries exactly the name, version, port-ID, file path and root directory of one file of the enumeration
    that lies under one of the (accepted) directories (`C15.def_identity` spells the definition's fields out in terms of
    the path). -/
theorem C15.result_identity (files : List FileEntry) (root : Path) (lookups : List Path) (ac au : Bool) (d t : List Ty)
    (p : List Nat) (h : readNamespace files root lookups ac au = ⟨.ok (d, t), p⟩) :
    ∀ x ∈ d ++ t, ∃ e ∈ files, ∃ tg y, e.dir ∈ dedupPaths (lookups ++ [root]) ∧ mkDef tg e = .ok y ∧
      x.info.name = y.name ∧ x.info.major = y.major ∧ x.info.minor = y.minor ∧ x.info.fpid = y.fpid ∧
      x.info.path = e.dir ++ e.sub ++ [e.fname] ∧ x.info.root = e.dir := by
  obtain ⟨ts, hts⟩ := readNamespace_ok_collect h
  rcases readNamespace_inv hts h with ⟨_, rfl, rfl⟩ | ⟨L, hL, hc, hk, hu⟩
  · intro x hx; cases hx
  · intro x hx
    obtain ⟨y, hy, hd⟩ := completeRead_good hL (hypP_of_dirs hk fun x hx => (hu x hx).fromDirs) hc x hx
    obtain ⟨e, he, tg, hdir, hm⟩ := hu y hy
    obtain ⟨i1, i2, i3, i4, i5, i6⟩ := hd.info
    obtain ⟨m1, m2, _⟩ := mkDef_path hm
    exact ⟨e, he, tg, y, hdir, hm, i1, i2, i3, i4, by rw [i5, m1], by rw [i6, m2]⟩

/-- the same for `read_files`; a direct type may come from a target file that is not in the enumeration -/
theorem C15.result_identity_files (files targets : List FileEntry) (roots lookups : List Path) (au : Bool) (d t : List Ty)
    (p : List Nat) (ts : List Def) (hts : mapMDefs true targets = .ok ts)
    (h : readFiles files targets roots lookups au = ⟨.ok (d, t), p⟩) :
    ∀ x ∈ d ++ t, ∃ e tg y, e.dir ∈ dedupPaths (lookups ++ ts.map Def.root ++ roots) ∧ mkDef tg e = .ok y ∧
      x.info.name = y.name ∧ x.info.major = y.major ∧ x.info.minor = y.minor ∧ x.info.fpid = y.fpid ∧
      x.info.path = e.dir ++ e.sub ++ [e.fname] ∧ x.info.root = e.dir := by
  rcases readFiles_inv hts h with ⟨_, rfl, rfl⟩ | ⟨L, hL, hc, hk, hu, _⟩
  · intro x hx; cases hx
  · intro x hx
    obtain ⟨y, hy, hd⟩ := completeRead_good hL (hypP_of_dirs hk hu) hc x hx
    obtain ⟨e, tg, hdir, hm⟩ := hu y hy
    obtain ⟨i1, i2, i3, i4, i5, i6⟩ := hd.info
    obtain ⟨m1, m2, _⟩ := mkDef_path hm
    exact ⟨e, tg, y, hdir, hm, i1, i2, i3, i4, by rw [i5, m1], by rw [i6, m2]⟩

section NonVacuity
example : parseFileName "7000.Heartbeat.1.0.dsdl".toList = .ok ⟨some 7000, "Heartbeat".toList, 1, 0⟩ := by decide
example : renderFileName ⟨some 7000, "Heartbeat".toList, 1, 0⟩ "dsdl".toList = "7000.Heartbeat.1.0.dsdl".toList := by decide
example : parseFileName "A.255.12.uavcan".toList = .ok ⟨none, ['A'], 255, 12⟩ := by decide
/-- malformed shapes, including the ones CPython's `int()` would take (finding F10) -/
example : ["A.dsdl", "A.1.dsdl", "A.x.0.dsdl", "x.A.1.0.dsdl", "1.2.A.1.0.dsdl", "A..0.dsdl", "A.1_0.0.dsdl", "A.+1.0.dsdl",
           "A. 1.0.dsdl", "A.1.-0.dsdl"].all (fun s => parseFileName s.toList == .error .fileName) = true := by decide
example : C15.WellShaped "A.1.0.dsdl".toList ⟨none, ['A'], 1, 0⟩ := C15.accepted_shape _ _ (by decide)
open Ns.Example in
example := C15.result_identity Example.fs ["w", "ns"] [["w", "other"]] true false [TA, TB] [] [] evalNs
open Ns.Example in
example := C15.result_identity_files Example.fs [eA] [] [["w", "other"]] false [TA] [TB] [] [dA true] (by simp [mapMDefs, mkA]) evalFiles
end NonVacuity
