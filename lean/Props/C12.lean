import Proofs.Const
/-!
# C12 — constants are always compliant with their declared type

`Ex.constCheck` mirrors `Constant.__init__` (pydsdl/_serializable/_attribute.py) on top of the constructor checks and
`inclusive_value_range` of the primitive types (pydsdl/_serializable/_primitive.py).  `Spec.constOk` is the rule of the
property, stated without reference to the code.
-/
open Ex

namespace Spec

/-- largest finite value of IEEE 754 binary16 / binary32 / binary64: `(2 - 2^(1-p)) * 2^emax` -/
def maxFinite : Nat → Rat
  | 16 => 65504
  | 32 => ((2:Rat)^24 - 1) * 2^104
  | 64 => ((2:Rat)^53 - 1) * 2^971
  | _ => 0

/-- `constOk ty v v'`: the initializer value `v` is acceptable for a constant of type `ty`, and `v'` is what the
    model stores.  Nothing else is acceptable. -/
def constOk (ty : CTy) (v v' : Val) : Prop :=
  match ty, v with
  | .bool, .sc (.bool _) => v' = v
  | .uint n _, .sc (.rat q) =>
      1 ≤ n ∧ n ≤ 64 ∧ (∃ z : Int, q = z ∧ 0 ≤ z ∧ z ≤ 2 ^ n - 1) ∧ v' = v
  | .int n m, .sc (.rat q) =>
      2 ≤ n ∧ n ≤ 64 ∧ m = .saturated ∧ (∃ z : Int, q = z ∧ -2 ^ (n - 1) ≤ z ∧ z ≤ 2 ^ (n - 1) - 1) ∧ v' = v
  | .float n _, .sc (.rat q) =>
      (n = 16 ∨ n = 32 ∨ n = 64) ∧ -maxFinite n ≤ q ∧ q ≤ maxFinite n ∧ v' = v
  | .uint n _, .sc (.str cs) =>
      n = 8 ∧ ∃ c : Nat, cs = [c] ∧ c < 128 ∧ v' = .rat (c : Nat)
  | _, _ => False

end Spec

/-- The value range of a signed integer type, as the code computes it (`((1 << n) - 1) // 2`), is the two's
    complement range, for every width `n ≥ 1`. -/
theorem C12.ranges_signed (n : Nat) (h : 1 ≤ n) : intRange n = (-(2:Int) ^ (n - 1), (2:Int) ^ (n - 1) - 1) :=
  intRange_eq n h

example : intRange 8 = (-128, 127) := by decide

/-- The value range of an unsigned integer type is `[0, 2^n - 1]` for every width. -/
theorem C12.ranges_unsigned (n : Nat) : uintRange n = (0, (2:Int) ^ n - 1) := uintRange_eq n

example : uintRange 64 = (0, 18446744073709551615) := by decide

/-- The float ranges are `± largest finite value` of the three IEEE formats, as exact rationals. -/
theorem C12.ranges_float :
    floatMagnitude 16 = Spec.maxFinite 16 ∧ floatMagnitude 32 = Spec.maxFinite 32 ∧ floatMagnitude 64 = Spec.maxFinite 64 :=
  ⟨floatMagnitude_16, floatMagnitude_32, floatMagnitude_64⟩

example : Spec.maxFinite 32 = 340282346638528859811704183484516925440 := by norm_num [Spec.maxFinite]

private theorem inRange_uint (n : Nat) (m : CastMode) (z : Int) :
    inRange (.uint n m) (z : Rat) = true ↔ 0 ≤ z ∧ z ≤ 2 ^ n - 1 := by
  simp only [inRange, CTy.range, uintRange_eq, decide_eq_true_eq]
  constructor
  · rintro ⟨h1, h2⟩; exact ⟨by exact_mod_cast h1, by exact_mod_cast h2⟩
  · rintro ⟨h1, h2⟩; exact ⟨by exact_mod_cast h1, by exact_mod_cast h2⟩

private theorem inRange_int (n : Nat) (hn : 1 ≤ n) (m : CastMode) (z : Int) :
    inRange (.int n m) (z : Rat) = true ↔ -2 ^ (n - 1) ≤ z ∧ z ≤ 2 ^ (n - 1) - 1 := by
  simp only [inRange, CTy.range, intRange_eq n hn, decide_eq_true_eq]
  constructor
  · rintro ⟨h1, h2⟩; exact ⟨by exact_mod_cast h1, by exact_mod_cast h2⟩
  · rintro ⟨h1, h2⟩; exact ⟨by exact_mod_cast h1, by exact_mod_cast h2⟩

private theorem magnitude_eq (n : Nat) (h : n = 16 ∨ n = 32 ∨ n = 64) : floatMagnitude n = Spec.maxFinite n := by
  rcases h with rfl | rfl | rfl
  · exact floatMagnitude_16
  · exact floatMagnitude_32
  · exact floatMagnitude_64

private theorem ok_ite (p : Prop) [Decidable p] (a v' : Val) (e : Ex.R Val) (he : ∀ x, e ≠ .ok x) :
    ((if p then (Except.ok a : Ex.R Val) else e) = Except.ok v') ↔ (p ∧ v' = a) := by
  by_cases h : p <;> simp [h, eq_comm, he]

private theorem inval_ne_ok (k : InvKind) (x : Val) : (inval k : Ex.R Val) ≠ .ok x := by simp [inval]

private theorem err_ne_ok (e : Err) (v' : Val) : ((Except.error e : Ex.R Val) = Except.ok v') ↔ False := by simp

private theorem wf_uint (n : Nat) (m : CastMode) : (CTy.uint n m).wf = true ↔ 1 ≤ n ∧ n ≤ 64 := by simp [CTy.wf]
private theorem wf_int (n : Nat) (m : CastMode) : (CTy.int n m).wf = true ↔ (2 ≤ n ∧ n ≤ 64) ∧ m = .saturated := by
  cases m <;> simp [CTy.wf]
private theorem wf_float (n : Nat) (m : CastMode) : (CTy.float n m).wf = true ↔ (n = 16 ∨ n = 32 ∨ n = 64) := by
  simp [CTy.wf, or_assoc]

/-- unfolding of `constCheck` on a scalar: the type parameters are checked first -/
private theorem constCheck_wf_false (ty : CTy) (v v' : Val) (h : ty.wf = false) : ¬ constCheck ty v = .ok v' := by
  simp [constCheck, h, inval]

/-- A constant initializer is accepted if and only if it satisfies the rule of the property, and what is stored is
    the initializer itself (never rounded or converted) — except that a one-character ASCII string on an 8-bit
    unsigned type is stored as its code point.  Only bool / integer / float types carry constants; the constructor
    constraints of the type (widths 1..64, signed ≥ 2 and saturated only, float 16/32/64) are part of the rule. -/
theorem C12.iff (ty : CTy) (v v' : Val) : constCheck ty v = .ok v' ↔ Spec.constOk ty v v' := by
  by_cases hwf : ty.wf = true
  swap
  · -- ill-formed type parameters: rejected, and the rule demands well-formed parameters
    have hwf' : ty.wf = false := by simpa using hwf
    refine ⟨fun h => absurd h (constCheck_wf_false ty v v' hwf'), fun h => ?_⟩
    exfalso
    cases ty with
    | bool => simp [CTy.wf] at hwf
    | other => simp [CTy.wf] at hwf
    | uint n m =>
      rcases v with (_ | _ | _) | _ <;> simp only [Spec.constOk] at h
      · exact hwf ((wf_uint n m).mpr ⟨h.1, h.2.1⟩)
      · obtain ⟨rfl, _⟩ := h; exact hwf ((wf_uint 8 m).mpr (by omega))
    | int n m =>
      rcases v with (_ | _ | _) | _ <;> simp only [Spec.constOk] at h
      exact hwf ((wf_int n m).mpr ⟨⟨h.1, h.2.1⟩, h.2.2.1⟩)
    | float n m =>
      rcases v with (_ | _ | _) | _ <;> simp only [Spec.constOk] at h
      exact hwf ((wf_float n m).mpr h.1)
  · cases v with
    | set es => cases ty <;> simp [constCheck, Spec.constOk, inval, hwf]
    | sc s =>
      cases ty with
      | bool => cases s <;> simp [constCheck, Spec.constOk, inval, hwf, eq_comm]
      | other => cases s <;> simp [constCheck, Spec.constOk, inval, hwf]
      | uint n m =>
        have hn := (wf_uint n m).mp hwf
        cases s with
        | bool b => simp [constCheck, Spec.constOk, inval, hwf]
        | rat q =>
          simp only [constCheck, hwf, Bool.not_true, Bool.false_eq_true, ↓reduceIte, Spec.constOk,
            ok_ite _ _ _ _ (inval_ne_ok _), Bool.and_eq_true, isInt'_iff]
          constructor
          · rintro ⟨⟨⟨z, rfl⟩, hr⟩, rfl⟩
            exact ⟨hn.1, hn.2, ⟨z, rfl, (inRange_uint n m z).mp hr⟩, rfl⟩
          · rintro ⟨_, _, ⟨z, rfl, hz⟩, rfl⟩
            exact ⟨⟨⟨z, rfl⟩, (inRange_uint n m z).mpr hz⟩, rfl⟩
        | str cs =>
          simp only [constCheck, hwf, Bool.not_true, Bool.false_eq_true, ↓reduceIte, Spec.constOk]
          by_cases hl : (cs.map utf8Len).sum = 1
          · obtain ⟨c, rfl, hc⟩ := (utf8_sum_eq_one cs).mp hl
            have hl' : (([c].map utf8Len).sum != 1) = false := by simpa using hl
            simp only [hl', Bool.false_eq_true, ↓reduceIte]
            by_cases h8 : n = 8
            · subst h8
              simp only [bne_self_eq_false, Bool.false_eq_true, ↓reduceIte, Except.ok.injEq, true_and]
              constructor
              · rintro rfl; exact ⟨c, rfl, hc, rfl⟩
              · rintro ⟨c', hc', _, rfl⟩
                simp only [List.cons.injEq, and_true] at hc'; subst hc'; rfl
            · have h8' : (n != 8) = true := by simpa using h8
              simp only [h8', ↓reduceIte, inval, err_ne_ok, false_iff, not_and]
              intro h; exact absurd h h8
          · have hl' : ((cs.map utf8Len).sum != 1) = true := by simpa using hl
            simp only [hl', ↓reduceIte, inval, err_ne_ok, false_iff, not_and, not_exists]
            rintro _ c rfl hc _
            exact hl ((utf8_sum_eq_one [c]).mpr ⟨c, rfl, hc⟩)
      | int n m =>
        obtain ⟨hn, rfl⟩ := (wf_int n m).mp hwf
        have hn1 : 1 ≤ n := by omega
        cases s with
        | bool b => simp [constCheck, Spec.constOk, inval, hwf]
        | str cs => simp [constCheck, Spec.constOk, inval, hwf]
        | rat q =>
          simp only [constCheck, hwf, Bool.not_true, Bool.false_eq_true, ↓reduceIte, Spec.constOk,
            ok_ite _ _ _ _ (inval_ne_ok _), Bool.and_eq_true, isInt'_iff]
          constructor
          · rintro ⟨⟨⟨z, rfl⟩, hr⟩, rfl⟩
            exact ⟨hn.1, hn.2, trivial, ⟨z, rfl, (inRange_int n hn1 _ z).mp hr⟩, rfl⟩
          · rintro ⟨_, _, _, ⟨z, rfl, hz⟩, rfl⟩
            exact ⟨⟨⟨z, rfl⟩, (inRange_int n hn1 _ z).mpr hz⟩, rfl⟩
      | float n m =>
        have hn := (wf_float n m).mp hwf
        cases s with
        | bool b => simp [constCheck, Spec.constOk, inval, hwf]
        | str cs => simp [constCheck, Spec.constOk, inval, hwf]
        | rat q =>
          simp only [constCheck, hwf, Bool.not_true, Bool.false_eq_true, ↓reduceIte, Spec.constOk,
            ok_ite _ _ _ _ (inval_ne_ok _), inRange, CTy.range, magnitude_eq n hn, decide_eq_true_eq]
          constructor
          · rintro ⟨⟨h1, h2⟩, rfl⟩; exact ⟨hn, h1, h2, rfl⟩
          · rintro ⟨_, h1, h2, rfl⟩; exact ⟨⟨h1, h2⟩, rfl⟩

example : Spec.constOk (.uint 8 .saturated) (.str [97]) (.rat 97) := ⟨rfl, 97, rfl, by omega, rfl⟩
example : constCheck (.int 8 .saturated) (.rat (-128)) = .ok (.rat (-128)) := by decide +kernel
example : ¬ Spec.constOk (.int 8 .saturated) (.rat 128) (.rat 128) := by
  rintro ⟨_, _, _, ⟨z, hz, _, h2⟩, _⟩
  have : z = 128 := by exact_mod_cast hz.symm
  omega
