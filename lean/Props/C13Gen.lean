import Proofs.FileNameGen
import Props.C13
/-!
# C13 over the file-name rules generated from `DSDLDefinition.__init__`

"... and the same holds for arbitrary file names under a namespace directory": the slice of `DSDLDefinition.__init__` that
interprets a path (translated from the working tree of /repo on every run, `Gen/FileName.lean`) ends, for every root
directory name, base name and list of directory names - any Unicode text of any length - with a value or with
`FileNameFormatError` (an `InvalidDefinitionError` constructed with the path of the file); no `ValueError` of `int()` or of
tuple unpacking, and none of the "outside the fragment" failures of `PyLib`, ever leaves it.
-/
open Ns Bridge.FileName

/-- `_parse_decimal` returns a non-negative integer or raises `ValueError`, nothing else, for every string -/
theorem C13.gen_parse_decimal_total (s : String) :
    (∃ n : Nat, Gen.parse_decimal s = .ok (n : Int)) ∨ Gen.parse_decimal s = .error .valueError := by
  rw [parse_decimal_eq]
  split
  · exact Or.inl ⟨_, rfl⟩
  · exact Or.inr rfl

example : Gen.parse_decimal "0255" = .ok 255 ∧ Gen.parse_decimal "+1" = .error .valueError ∧
    Gen.parse_decimal "١" = .error .valueError ∧ Gen.parse_decimal "" = .error .valueError := by decide +kernel

/-- totality of the file-name rules: a value or `FileNameFormatError`, never another exception -/
theorem C13.gen_filename_total (root basename : String) (parts : List String) :
    (∃ v, Gen.DSDLDefinition.init root basename parts = .ok v) ∨
      Gen.DSDLDefinition.init root basename parts = .error (.other "FileNameFormatError") := by
  rw [init_eq_spec]
  exact initSpec_total root basename parts

example : Gen.DSDLDefinition.init "ns" "A.1.0.dsdl" ["ns"] = .ok ⟨"ns.A", 1, 0, none⟩ ∧
    Gen.DSDLDefinition.init "ns" "\t.².-.dsdl" ["ns"] = .error (.other "FileNameFormatError") ∧
    Gen.DSDLDefinition.init "ns" "" [] = .error (.other "FileNameFormatError") := by decide +kernel

/-- The file-name outcome that the model of this group predicts (`Ex.fileNameOutcome`, compared with the library by the
    `garbage` suite) is the outcome of the generated code, for every base name of at most 4300 characters below directories
    without separators in their names. -/
theorem C13.gen_filename_outcome (root n : String) (parts : List String) (hroot : hasDot root = false)
    (hparts : parts.any hasDot = false) (hlen : n.length ≤ 4300) :
    Ex.fileNameOutcome n = match Gen.DSDLDefinition.init root n parts with
      | .ok v => .parsed v.fixed_port_id.isSome
      | .error _ => .formatError := by
  rw [init_eq_spec]
  exact FileNameGen.fileNameOutcome_eq root n parts hroot hparts fun p hp => by
    have := length_le_of_mem_splitDots (List.mem_of_mem_dropLast hp)
    rw [String.length_toList] at this
    exact Nat.le_trans this hlen

example : Ex.fileNameOutcome "7000.A.1.0.dsdl" = .parsed true ∧ Ex.fileNameOutcome "A.+1.0.dsdl" = .formatError := by
  decide +kernel
