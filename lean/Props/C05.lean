import Proofs.RulesMono
import Proofs.RulesCase
import Props.C02
/-!
C05 — a definition is accepted if and only if it obeys the static rules of DSDL.

`Rules.accept` (lean/Model/Rules.lean) is the model of the checks pydsdl performs on a definition whose expressions
are valid: type constructors, `check_name`, attribute constructors, the directive / marker handlers of the builder,
`CompositeType`/`UnionType`/`DelimitedType`/`ServiceType` constructors with the aggregation checks, the rejection of
non-serializable (service) types as attribute types, and the regulated
port-ID ranges.  `C05.Valid` is the conjunction of the named declarative rules (lean/Proofs/RulesSpec.lean).
-/
open Rules Rules.Spec

/-- what `finalize` has to find, stated on what the statements say (`summ`) -/
def C05.FinalValid (h : Header) (b : BState) : Prop :=
  VersionOk h.major h.minor ∧
  match b.done with
  | [] => SchemaValid (h.ns ++ [h.short]) b.deprecated b.cur ∧ PortOk h false
  | req :: _ =>
      SchemaValid (h.ns ++ [h.short] ++ ["Request"]) b.deprecated req ∧
      SchemaValid (h.ns ++ [h.short] ++ ["Response"]) b.deprecated b.cur ∧
      NameRule (h.ns ++ [h.short]) ∧ PortOk h true

/-- The static rules:
    * `statements`: every statement may stand where it stands (attribute rules: widths, capacities, names, constant type,
      no attribute after `@extent`; `@union` once and before the first attribute of its schema; `@deprecated` once, in the
      first schema, before the first attribute; at most one of `@sealed`/`@extent` per schema; at most one `---`);
    * `final`: version 0..255 and not 0.0; per schema: name syntax, reserved words and length of the full name, unique
      attribute names, void/utf8/byte placement and deprecation (through arrays), union arity, exactly one of
      `@sealed`/`@extent`, the extent a multiple of 8 not below the longest representation; fixed port-ID in range and, unless
      allowed, in the regulated range of the root namespace;
    * `noServiceField`: a service type is not a field type. -/
structure C05.Valid (d : Defn) : Prop where
  statements : ∀ pre st post, d.stmts = pre ++ st :: post → StmtOk pre st
  final : C05.FinalValid d.header (summ d.stmts)
  noServiceField : usesService (summ d.stmts) = false

theorem C05.finalOk_iff (h : Header) (b : BState) : finalOk h b = true ↔ C05.FinalValid h b := by
  unfold finalOk C05.FinalValid
  simp only [Bool.and_eq_true, versionOk_iff]
  cases b.done with
  | nil => simp [schemaOk_iff, portOk_iff]
  | cons req rest => simp [schemaOk_iff, portOk_iff, compositeNameOk_iff, and_assoc]

theorem C05.statements_iff (stmts : List RStmt) :
    Admissible [] stmts ↔ ∀ pre st post, stmts = pre ++ st :: post → StmtOk pre st := by
  rw [Admissible_iff]
  constructor
  · intro h pre st post e; have := h pre st post e; rw [List.nil_append, admissible_iff] at this; exact this
  · intro h a st b e; rw [List.nil_append, admissible_iff]; exact h a st b e

/-- accepted ⇔ every static rule holds -/
theorem C05.iff (d : Defn) : accept d = .ok ↔ C05.Valid d := by
  unfold accept
  cases hb : brun BState.init d.stmts with
  | none =>
    simp only
    constructor
    · intro h; cases h
    · intro hv
      have : brun BState.init d.stmts = some (summ d.stmts) :=
        (brun_init_iff d.stmts _).mpr ⟨(C05.statements_iff d.stmts).mpr hv.statements, rfl⟩
      rw [hb] at this; cases this
  | some b =>
    obtain ⟨hadm, rfl⟩ := (brun_init_iff d.stmts b).mp hb
    simp only
    constructor
    · intro h
      by_cases hf : finalOk d.header (summ d.stmts) = true
      · by_cases hs : usesService (summ d.stmts) = true
        · simp [hf, hs] at h
        · exact ⟨(C05.statements_iff d.stmts).mp hadm, (C05.finalOk_iff _ _).mp hf, by simpa using hs⟩
      · simp [hf] at h
    · intro hv
      have hf := (C05.finalOk_iff _ _).mpr hv.final
      simp [hf, hv.noServiceField]

/-- … and every rejection is an `InvalidDefinitionError`: a definition that breaks a rule is rejected -/
theorem C05.rejection (d : Defn) (h : ¬ C05.Valid d) : accept d = .invalid := by
  cases ha : accept d with
  | ok => exact absurd ((C05.iff d).mp ha) h
  | invalid => rfl

/-! ### per-rule kernels, for all values -/

theorem C05.width_rule (s : Scalar) : s.ctorOk = true ↔ WidthOk s := Scalar.ctorOk_iff s
theorem C05.capacity_rule (t : Ty) : t.ctorOk = true ↔ TypeOk t := Ty.ctorOk_iff t
theorem C05.name_rule (s : String) : checkName s = true ↔ NameOk s := checkName_iff s
theorem C05.attribute_rule (st : RStmt) : attrCtorOk st = true ↔ AttrOk st := attrCtorOk_iff st
theorem C05.aggregation_rule (t : Ty) (union deprecated : Bool) :
    t.aggOk (if union then .union deprecated else .structure deprecated) = true ↔ PlaceOk t union deprecated :=
  Ty.aggOk_iff t union deprecated
theorem C05.unique_names_rule (names : List String) : namesUnique names = true ↔ (names.filter (· ≠ "")).Nodup :=
  namesUnique_iff names
theorem C05.version_rule (a b : Nat) : versionOk a b = true ↔ VersionOk a b := versionOk_iff a b
theorem C05.port_rule (h : Header) (service : Bool) : portOk h service = true ↔ PortOk h service := portOk_iff h service
theorem C05.schema_rule (comps : List String) (deprecated : Bool) (sc : RSchema) :
    schemaOk comps deprecated sc = true ↔ SchemaValid comps deprecated sc := schemaOk_iff comps deprecated sc
/-- the builder accepts a statement list exactly when every statement may stand where it stands, and then it has
    collected what the statements say -/
theorem C05.placement_rule (stmts : List RStmt) (b : BState) :
    brun BState.init stmts = some b ↔ (∀ pre st post, stmts = pre ++ st :: post → StmtOk pre st) ∧ b = summ stmts := by
  rw [brun_init_iff, C05.statements_iff]

namespace C05.Examples
def u8 : Ty := .scalar (.uint 8 .saturated)
def hdr : Header := ⟨["vendor", "node"], "Status", 1, 0, some 6144, false⟩
/-- `@deprecated`, `@union`, `uint8 a`, `vendor.X.1.0[<=2] b` (X deprecated), `float32 K = …`, `@extent 64`, `---`, `void3`, `utf8[<=9] s`, `@sealed` -/
def svc : Defn :=
  ⟨⟨["vendor", "node"], "GetStatus", 1, 0, some 256, false⟩,
   [.deprecated, .union, .field u8 "a", .field (.varArr (.comp ⟨true, false, 16⟩) 2) "b", .const (.scalar (.float 32 .saturated)) "K",
    .extent 64, .marker, .padding 3, .field (.varArr .utf8 9) "s", .sealed]⟩
/-- `dep.S.1.0 x`, `@sealed` where S is a service type -/
def serviceField : Defn := ⟨⟨["vendor"], "A", 1, 0, none, false⟩, [.field (.scalar (.comp ⟨false, true, 0⟩)) "x", .sealed]⟩
end C05.Examples

open C05.Examples in
/-- non-vacuity: a deprecated service with a union request (deprecated dependency through an array, extent exactly the
    longest representation 8 + 8 + 2*16 = 48 ≤ 64) and a structure response with padding and a string is valid -/
example : C05.Valid svc := (C05.iff svc).mp (by decide)

open C05.Examples in
/-- both sides of boundaries: extent 40 is below the longest representation (48); port 255 is outside the vendor
    service range; version 0.0 -/
example : ¬ C05.Valid { svc with stmts := svc.stmts.map fun s => if s = .extent 64 then .extent 40 else s } ∧
    C05.Valid { svc with stmts := svc.stmts.map fun s => if s = .extent 64 then .extent 48 else s } ∧
    ¬ C05.Valid { svc with header := { svc.header with port := some 255 } } ∧
    ¬ C05.Valid { svc with header := { svc.header with major := 0, minor := 0 } } := by
  refine ⟨fun h => ?_, (C05.iff _).mp (by decide), fun h => ?_, fun h => ?_⟩
  · exact absurd ((C05.iff _).mpr h) (by decide)
  · exact absurd ((C05.iff _).mpr h) (by decide)
  · exact absurd ((C05.iff _).mpr h) (by decide)

/-- reserved words and patterns in any letter case; near misses are allowed -/
example : ¬ NameOk "uInt7" ∧ ¬ NameOk "Bool" ∧ ¬ NameOk "Q1_2" ∧ ¬ NameOk "COM1" ∧ ¬ NameOk "_a_" ∧ ¬ NameOk "void" ∧ ¬ NameOk "9a" ∧ ¬ NameOk "" ∧
    NameOk "com10" ∧ NameOk "lpt" ∧ NameOk "q1_" ∧ NameOk "_a" ∧ NameOk "Bool1" ∧ NameOk "uintx" := by
  simp only [← checkName_iff]
  decide

open C05.Examples in
/-- a service type as a field type breaks a rule and is rejected -/
example : ¬ C05.Valid serviceField ∧ accept serviceField = .invalid :=
  ⟨fun hv => absurd ((C05.iff _).mpr hv) (by decide), by decide⟩


/-! ## The extent rule against the layout of C02 -/

/-! ### arithmetic kernels of the longest representation, for all values -/

/-- `padTo a x` (`pad_to_alignment`) is the least multiple of `a` that is not below `x` -/
theorem C05.padTo_spec (a x : Nat) (ha : 0 < a) :
    a ∣ padTo a x ∧ x ≤ padTo a x ∧ padTo a x < x + a ∧ ∀ m, a ∣ m → x ≤ m → padTo a x ≤ m :=
  Rules.padTo_spec a x ha

example : padTo 8 41 = 48 ∧ padTo 8 48 = 48 ∧ padTo 1 41 = 41 := by decide

/-- `bitLength n` (`int.bit_length()`) is the number of binary digits of `n` -/
theorem C05.bitLength_spec (n : Nat) : n < 2 ^ bitLength n ∧ (n ≠ 0 → 2 ^ (bitLength n - 1) ≤ n) :=
  Rules.bitLength_spec n

example : bitLength 0 = 0 ∧ bitLength 255 = 8 ∧ bitLength 256 = 9 := by decide

/-- for a width that fits 64 bits, `pow2ceil8 b` is the least power of two that is ≥ 8 and ≥ b -/
theorem C05.pow2ceil8_spec (b : Nat) (hb : b ≤ 64) :
    (∃ k, pow2ceil8 b = 2 ^ k) ∧ 8 ≤ pow2ceil8 b ∧ b ≤ pow2ceil8 b ∧
    ∀ k, 8 ≤ 2 ^ k → b ≤ 2 ^ k → pow2ceil8 b ≤ 2 ^ k :=
  Rules.pow2ceil8_spec b hb

example : pow2ceil8 0 = 8 ∧ pow2ceil8 9 = 16 ∧ pow2ceil8 33 = 64 := by decide

/-- the implicit length prefix / union tag before the alignment adjustment: for a capacity / variant index that fits
    64 bits, the smallest of the standard widths 8/16/32/64 whose unsigned range holds it -/
theorem C05.prefix_width_spec (cap : Nat) (h : cap < 2 ^ 64) :
    pow2ceil8 (bitLength cap) ∈ [8, 16, 32, 64] ∧ cap < 2 ^ pow2ceil8 (bitLength cap) ∧
    ∀ w ∈ [8, 16, 32, 64], cap < 2 ^ w → pow2ceil8 (bitLength cap) ≤ w :=
  Rules.pow2ceil8_bitLength_spec cap h

example : pow2ceil8 (bitLength 255) = 8 ∧ pow2ceil8 (bitLength 256) = 16 ∧ pow2ceil8 (bitLength (2 ^ 32)) = 64 := by decide

/-! ### the bridge -/

/-- The stand-in composite (a sealed structure of `maxBits / 8` bytes) interprets a reference faithfully whenever the
    recorded longest representation is a whole number of bytes — the hypotheses of the bridge are satisfiable. -/
theorem C05.standIn_faithful (i : CompInfo) (h : 8 ∣ i.maxBits) : Faithful standIn i := Rules.standIn_faithful i h

example : Faithful standIn ⟨true, false, 16⟩ ∧ Faithful standIn ⟨false, false, 0⟩ :=
  ⟨C05.standIn_faithful _ (by decide), C05.standIn_faithful _ (by decide)⟩

/-- **The number the extent rule compares against is the maximum of the length set of C02.**
    For every schema whose field types pass the constructor checks (widths, capacity ≥ 1), whose variable-length
    capacities fit the 64-bit length prefix, whose references are interpreted by any faithful `ρ`, and — for unions —
    that has 2 … 2^64 variants (`RSchema.LayoutOk`): the translated sealed composite is accepted by the layout
    constructors, `Spec.longest` is its `bit_length_set.max`, and that is the greatest element of the Specification's
    length set `specLens` (C02.bls_is_spec). -/
theorem C05.longest_is_layout_max (ρ : CompInfo → Layout.Ty) (sc : RSchema) (h : sc.LayoutOk ρ) :
    (sc.toLayout ρ).wf = true ∧ longest sc = (sc.toLayout ρ).bls.max ∧
    longest sc ∈ Layout.specLens (sc.toLayout ρ) ∧ ∀ l ∈ Layout.specLens (sc.toLayout ρ), l ≤ longest sc := by
  have hw := RSchema.toLayout_wf ρ sc h
  refine ⟨hw, longest_eq_bls_max ρ sc h, ?_⟩
  rw [longest_eq_bls_max ρ sc h, ← C02.bls_is_spec _ hw]
  exact Bls.max_exact _ (Layout.bls_wf _ hw)

/-- The extent rule in declarative form: `longest ≤ e` says that every possible serialized length of the sealed
    composite (per the Specification, C02) fits the extent. -/
theorem C05.extent_rule (ρ : CompInfo → Layout.Ty) (sc : RSchema) (h : sc.LayoutOk ρ) (e : Int) :
    (longest sc : Int) ≤ e ↔ ∀ l ∈ Layout.specLens (sc.toLayout ρ), (l : Int) ≤ e := by
  obtain ⟨_, _, hmem, hmax⟩ := C05.longest_is_layout_max ρ sc h
  constructor
  · intro hle l hl
    exact Int.le_trans (Int.ofNat_le.mpr (hmax l hl)) hle
  · intro hall
    exact hall _ hmem

namespace C05.Examples
def dep16 : CompInfo := ⟨true, false, 16⟩
/-- the request schema of `svc`: `@union`, `uint8 a`, `vendor.X.1.0[<=2] b`, a constant, `@extent 64` -/
def req : RSchema :=
  ⟨[.field u8 "a", .field (.varArr (.comp dep16) 2) "b", .const (.scalar (.float 32 .saturated)) "K"], true, some (.extent 64)⟩
/-- the response schema of `svc`: `void3`, `utf8[<=9] s`, `@sealed` -/
def resp : RSchema := ⟨[.padding 3, .field (.varArr .utf8 9) "s"], false, some .sealed⟩

theorem req_layoutOk : req.LayoutOk standIn := by
  refine ⟨?_, fun _ => by decide⟩
  intro t ht
  have : t = u8 ∨ t = .varArr (.comp dep16) 2 := by
    have e : req.fieldTys = [u8, .varArr (.comp dep16) 2] := by decide
    simpa [e] using ht
  rcases this with rfl | rfl
  · exact ⟨⟨by decide, by decide⟩, trivial⟩
  · exact ⟨trivial, Rules.standIn_faithful _ (by decide), by decide, by decide⟩

theorem resp_layoutOk : resp.LayoutOk standIn := by
  refine ⟨?_, fun h => by cases h⟩
  intro t ht
  have : t = .scalar (.void 3) ∨ t = .varArr .utf8 9 := by
    have e : resp.fieldTys = [.scalar (.void 3), .varArr .utf8 9] := by decide
    simpa [e] using ht
  rcases this with rfl | rfl
  · exact ⟨⟨by decide, by decide⟩, trivial⟩
  · exact ⟨trivial, trivial, by decide, by decide⟩
end C05.Examples

open C05.Examples in
/-- non-vacuity: a union with a variable-length array of a referenced composite (tag 8 + prefix 8 + 2·16 = 48) and a
    structure with padding and a string (3 + prefix 8 + 9·8 = 83, padded to 88); the layout maxima are the same numbers -/
example : longest req = 48 ∧ (req.toLayout standIn).bls.max = 48 ∧ longest resp = 88 ∧ (resp.toLayout standIn).bls.max = 88 := by
  have h1 := (C05.longest_is_layout_max standIn req req_layoutOk).2.1
  have h2 := (C05.longest_is_layout_max standIn resp resp_layoutOk).2.1
  have e1 : longest req = 48 := by decide
  have e2 : longest resp = 88 := by decide
  exact ⟨e1, by rw [← h1, e1], e2, by rw [← h2, e2]⟩

open C05.Examples in
example : ((longest req : Int) ≤ 64 ↔ ∀ l ∈ Layout.specLens (req.toLayout standIn), (l : Int) ≤ 64) :=
  C05.extent_rule standIn req req_layoutOk 64

/-- every schema of a definition that obeys the rules obeys the schema rules (under the name it is checked with) -/
theorem C05.schemas_valid (d : Defn) (hv : C05.Valid d) (sc : RSchema) (hsc : sc ∈ (summ d.stmts).schemas) :
    ∃ comps, SchemaValid comps (summ d.stmts).deprecated sc := by
  obtain ⟨_, hf⟩ := hv.final
  simp only [BState.schemas, List.mem_append, List.mem_singleton] at hsc
  by_cases hm : d.stmts.contains .marker = true
  · have hd : (summ d.stmts).done = [segSummary (firstSeg d.stmts)] := by unfold summ; rw [if_pos hm]
    rw [hd] at hf hsc
    rcases hsc with hsc | rfl
    · simp only [List.mem_singleton] at hsc; subst hsc; exact ⟨_, hf.1⟩
    · exact ⟨_, hf.2.1⟩
  · have hd : (summ d.stmts).done = [] := by unfold summ; rw [if_neg hm]
    rw [hd] at hf hsc
    rcases hsc with hsc | rfl
    · cases hsc
    · exact ⟨_, hf.1⟩

open C05.Examples in
example : req ∈ (summ svc.stmts).schemas ∧ resp ∈ (summ svc.stmts).schemas ∧ C05.Valid svc :=
  ⟨by decide, by decide, (C05.iff svc).mp (by decide)⟩

/-- **End to end**: in every accepted definition, for every schema (request / response / message) whose references are
    interpreted faithfully and whose variant count fits 64 bits, the translated sealed
    composite is one the layout constructors accept, and the schema is either `@sealed` or carries an extent that is a
    whole number of bytes and is not below ANY serialized length the Specification (C02) gives that composite. -/
theorem C05.accepted_extent_covers_layout (d : Defn) (ha : accept d = .ok) (ρ : CompInfo → Layout.Ty) (sc : RSchema)
    (hsc : sc ∈ (summ d.stmts).schemas) (hfit : ∀ t ∈ sc.fieldTys, t.Fits ρ) (hlen : sc.fieldTys.length ≤ 2 ^ 64) :
    (sc.toLayout ρ).wf = true ∧
    (sc.mode = some .sealed ∨
      ∃ e, sc.mode = some (.extent e) ∧ e % 8 = 0 ∧ ∀ l ∈ Layout.specLens (sc.toLayout ρ), (l : Int) ≤ e) := by
  have hv := (C05.iff d).mp ha
  obtain ⟨comps, hsv⟩ := C05.schemas_valid d hv sc hsc
  have hok : sc.LayoutOk ρ :=
    RSchema.layoutOk_of ρ sc (schemas_typeOk hv.statements hsc) hfit hsv.unionArity hlen
  refine ⟨(C05.longest_is_layout_max ρ sc hok).1, ?_⟩
  rcases hsv.mode with hm | ⟨e, hm, h8, hle⟩
  · exact Or.inl hm
  · exact Or.inr ⟨e, hm, h8, (C05.extent_rule ρ sc hok e).mp hle⟩

open C05.Examples in
/-- non-vacuity on the service `svc`: its schemas are `req` and `resp`, all hypotheses hold with the stand-in
    interpretation -/
example : (summ svc.stmts).schemas = [req, resp] ∧ accept svc = .ok ∧
    (∀ t ∈ req.fieldTys, t.Fits standIn) ∧ (∀ t ∈ resp.fieldTys, t.Fits standIn) := by
  refine ⟨by decide, by decide, ?_, ?_⟩
  · intro t ht
    have : t = u8 ∨ t = .varArr (.comp dep16) 2 := by
      have e : req.fieldTys = [u8, .varArr (.comp dep16) 2] := by decide
      simpa [e] using ht
    rcases this with rfl | rfl
    · trivial
    · exact Rules.standIn_faithful _ (by decide)
  · intro t ht
    have : t = .scalar (.void 3) ∨ t = .varArr .utf8 9 := by
      have e : resp.fieldTys = [.scalar (.void 3), .varArr .utf8 9] := by decide
      simpa [e] using ht
    rcases this with rfl | rfl
    · trivial
    · trivial

/-- The capacity of a variable-length array has to fit the widest length prefix: the rules model (`Ty.ctorOk`, like the
    real library: `UnsignedIntegerType(128)` → `InvalidBitLengthError`, an `InvalidDefinitionError`) accepts it exactly when
    the element type is legal and `1 ≤ cap < 2 ^ 64`; a fixed-length array has no prefix and no upper bound.  (This used to
    be a gap of the model - `C05.model_gap_varArr_capacity` - and a hypothesis of the layout bridge; both are gone.) -/
theorem C05.varArr_capacity_rule (e : Scalar) (cap : Int) :
    ((Ty.varArr e cap).ctorOk = true ↔ WidthOk e ∧ 1 ≤ cap ∧ cap < 2 ^ 64) ∧
    ((Ty.fixedArr e cap).ctorOk = true ↔ WidthOk e ∧ 1 ≤ cap) :=
  ⟨Ty.ctorOk_iff (.varArr e cap), Ty.ctorOk_iff (.fixedArr e cap)⟩

/-- … which is exactly when the length prefix `2 ** ceil(log2(max(8, bit_length(cap))))` has a legal unsigned width -/
theorem C05.varArr_capacity_prefix (cap : Nat) : pow2ceil8 (bitLength cap) ≤ 64 ↔ cap < 2 ^ 64 := by
  constructor
  · intro h
    by_contra hc
    have := pow2ceil8_bitLength_big cap (by omega)
    omega
  · exact pow2ceil8_le cap

/-- both sides of the boundary, in the rules model and in the layout model of C02 -/
theorem C05.varArr_capacity_boundary :
    accept ⟨⟨["vendor"], "A", 1, 0, none, false⟩, [.field (.varArr (.uint 8 .saturated) (2 ^ 64)) "a", .sealed]⟩ = .invalid ∧
    (Layout.Ty.varr (.prim 8) (2 ^ 64)).wf = false ∧
    accept ⟨⟨["vendor"], "A", 1, 0, none, false⟩, [.field (.varArr (.uint 8 .saturated) (2 ^ 64 - 1)) "a", .sealed]⟩ = .ok ∧
    (Layout.Ty.varr (.prim 8) (2 ^ 64 - 1)).wf = true ∧
    accept ⟨⟨["vendor"], "A", 1, 0, none, false⟩, [.field (.fixedArr (.uint 8 .saturated) (2 ^ 70)) "a", .sealed]⟩ = .ok := by
  refine ⟨by decide, by decide +kernel, by decide, by decide +kernel, by decide⟩

/-- … and beyond 128 bits even the prefix widths of the two models differ (both far outside what is accepted) -/
example : pow2ceil8 (bitLength (2 ^ 128)) = 128 ∧ Layout.stdWidth (2 ^ 128) = 256 := by decide +kernel

/-! ## Letter case -/

/-- `lowerChar` is ASCII lower-casing: `A..Z` move by 32 code points, every other character (of all of Unicode) is
    unchanged -/
theorem C05.lowerChar_spec (c : Char) :
    (isUpper c = true → lowerChar c = Char.ofNat (c.toNat + 32)) ∧ (isUpper c = false → lowerChar c = c) :=
  Rules.lowerChar_spec c

example : lowerChar 'Q' = 'q' ∧ lowerChar 'q' = 'q' ∧ lowerChar '_' = '_' ∧ lowerChar 'İ' = 'İ' ∧ lowerChar '\u212A' = '\u212A' := by decide

/-- lowering is idempotent, so "reserved in any letter case" is a property of the lowered name alone -/
theorem C05.lower_idempotent (n : List Char) : lower (lower n) = lower n ∧ (Reserved (lower (lower n)) ↔ Reserved (lower n)) :=
  ⟨lower_idem n, by rw [lower_idem]⟩

example : lower "uInT8".toList = "uint8".toList ∧ Reserved (lower "uInT8".toList) :=
  ⟨by decide, (reserved_iff _).mp (by decide)⟩

/-- **`check_name` does not look at the letter case**: two names of the same length that agree position by position up
    to ASCII letter case get the same verdict, the same `NameOk`, and the same reservedness. -/
theorem C05.name_case_insensitive (a b : String) (h : sameUpToCase a.toList b.toList) :
    checkName a = checkName b ∧ (NameOk a ↔ NameOk b) ∧ (Reserved (lower a.toList) ↔ Reserved (lower b.toList)) :=
  ⟨checkName_sameUpToCase a b h, NameOk_sameUpToCase a b h, Reserved_sameUpToCase _ _ h⟩

example : sameUpToCase "OpTiOnAl".toList "optional".toList ∧ sameUpToCase "Abc_9".toList "aBC_9".toList ∧
    ¬ sameUpToCase "abc".toList "abd".toList := by
  simp only [sameUpToCase_iff]; decide

/-- … in particular writing ANY subset of the letters of a name in the other case (`recase p`, `p` selects positions)
    does not change the verdict -/
theorem C05.name_recase (p : Nat → Bool) (s : String) : checkName (String.ofList (recase p s.toList)) = checkName s :=
  checkName_recase p s

example : recase (fun i => i % 2 == 0) "uint8_x".toList = "UiNt8_X".toList ∧ checkName "uint8_x" = true := by decide

/-- the verdict of `check_name` is the character-set check plus the reserved words / patterns, both evaluated on the
    lowered name -/
theorem C05.name_factors_through_lower (s : String) : checkName s = checkName (String.ofList (lower s.toList)) :=
  checkName_eq_lower s

example : checkName "Bool" = false ∧ checkName (String.ofList (lower "Bool".toList)) = false ∧ checkName "Bool1" = true := by decide

/-! ## Further rule kernels and monotonicity -/

/-- "a service type is not a field type", read on the schemas: no attribute type is a service type or an array of one -/
theorem C05.no_service_rule (b : BState) : usesService b = false ↔ ServiceFree b := usesService_eq_false_iff b

open C05.Examples in
example : ServiceFree (summ svc.stmts) ∧ ¬ ServiceFree (summ serviceField.stmts) :=
  ⟨(C05.no_service_rule _).mp (by decide), fun h => absurd ((C05.no_service_rule _).mpr h) (by decide)⟩

/-- the length of a full name is the components plus one separator between neighbours (the 255 limit counts this) -/
theorem C05.fullName_length (comps : List String) :
    (fullName comps).length = (comps.map String.length).sum + (comps.length - 1) := Rules.fullName_length comps

example : (fullName ["vendor", "node", "Status"]).length = 6 + 4 + 6 + 2 := by decide

/-- a larger extent (still a whole number of bytes) keeps a schema valid; a sealed schema stays valid with any
    byte-multiple extent that covers its longest representation; `@deprecated` on the enclosing type keeps it valid -/
theorem C05.schema_monotone (comps : List String) (sc : RSchema) :
    (∀ dep e e', SchemaValid comps dep { sc with mode := some (.extent e) } → e ≤ e' → e' % 8 = 0 →
      SchemaValid comps dep { sc with mode := some (.extent e') }) ∧
    (∀ dep e, SchemaValid comps dep { sc with mode := some .sealed } → (longest sc : Int) ≤ e → e % 8 = 0 →
      SchemaValid comps dep { sc with mode := some (.extent e) }) ∧
    (SchemaValid comps false sc → SchemaValid comps true sc) :=
  ⟨fun _ _ _ h hle h8 => h.extent_mono hle h8, fun _ _ h hle h8 => h.sealed_to_extent hle h8, fun h => h.deprecate⟩

open C05.Examples in
example : SchemaValid ["vendor", "node", "Status"] false { resp with mode := some (.extent 88) } ∧
    SchemaValid ["vendor", "node", "Status"] false { resp with mode := some .sealed } :=
  ⟨(C05.schema_rule _ _ _).mp (by decide), (C05.schema_rule _ _ _).mp (by decide)⟩

/-- appending a field never shortens the longest representation, for structures and for unions -/
theorem C05.longest_monotone (fs : List Ty) (t : Ty) :
    structMax fs ≤ structMax (fs ++ [t]) ∧ unionMax fs ≤ unionMax (fs ++ [t]) :=
  ⟨structMax_append fs t, unionMax_append fs t⟩

open C05.Examples in
example : structMax [u8] = 8 ∧ structMax ([u8] ++ [.scalar .bool]) = 16 ∧ unionMax [u8, u8] = 16 ∧
    unionMax ([u8, u8] ++ [.scalar .bool]) = 16 := by decide
