import Proofs.RulesSpec
/-!
C05 — a definition is accepted if and only if it obeys the static rules of DSDL.

`Rules.accept` (lean/Model/Rules.lean) is the model of the checks pydsdl performs on a definition whose expressions
are valid: type constructors, `check_name`, attribute constructors, the directive / marker handlers of the builder,
`CompositeType`/`UnionType`/`DelimitedType`/`ServiceType` constructors with the aggregation checks, the rejection of
non-serializable (service) types as attribute types, and the regulated
port-ID ranges.  `C05.Valid` is the conjunction of the named declarative rules (lean/Proofs/RulesSpec.lean).
-/
open Rules Rules.Spec

/-- what `finalize` has to find, stated on what the statements say (`summ`) -/
def C05.FinalValid (h : Header) (b : BState) : Prop :=
  VersionOk h.major h.minor ∧
  match b.done with
  | [] => SchemaValid (h.ns ++ [h.short]) b.deprecated b.cur ∧ PortOk h false
  | req :: _ =>
      SchemaValid (h.ns ++ [h.short] ++ ["Request"]) b.deprecated req ∧
      SchemaValid (h.ns ++ [h.short] ++ ["Response"]) b.deprecated b.cur ∧
      NameRule (h.ns ++ [h.short]) ∧ PortOk h true

/-- The static rules:
    * `statements`: every statement may stand where it stands (attribute rules: widths, capacities, names, constant type,
      no attribute after `@extent`; `@union` once and before the first attribute of its schema; `@deprecated` once, in the
      first schema, before the first attribute; at most one of `@sealed`/`@extent` per schema; at most one `---`);
    * `final`: version 0..255 and not 0.0; per schema: name syntax, reserved words and length of the full name, unique
      attribute names, void/utf8/byte placement and deprecation (through arrays), union arity, exactly one of
      `@sealed`/`@extent`, the extent a multiple of 8 not below the longest representation; fixed port-ID in range and, unless
      allowed, in the regulated range of the root namespace;
    * `noServiceField`: a service type is not a field type. -/
structure C05.Valid (d : Defn) : Prop where
  statements : ∀ pre st post, d.stmts = pre ++ st :: post → StmtOk pre st
  final : C05.FinalValid d.header (summ d.stmts)
  noServiceField : usesService (summ d.stmts) = false

theorem C05.finalOk_iff (h : Header) (b : BState) : finalOk h b = true ↔ C05.FinalValid h b := by
  unfold finalOk C05.FinalValid
  simp only [Bool.and_eq_true, versionOk_iff]
  cases b.done with
  | nil => simp [schemaOk_iff, portOk_iff]
  | cons req rest => simp [schemaOk_iff, portOk_iff, compositeNameOk_iff, and_assoc]

theorem C05.statements_iff (stmts : List RStmt) :
    Admissible [] stmts ↔ ∀ pre st post, stmts = pre ++ st :: post → StmtOk pre st := by
  rw [Admissible_iff]
  constructor
  · intro h pre st post e; have := h pre st post e; rw [List.nil_append, admissible_iff] at this; exact this
  · intro h a st b e; rw [List.nil_append, admissible_iff]; exact h a st b e

/-- accepted ⇔ every static rule holds -/
theorem C05.iff (d : Defn) : accept d = .ok ↔ C05.Valid d := by
  unfold accept
  cases hb : brun BState.init d.stmts with
  | none =>
    simp only
    constructor
    · intro h; cases h
    · intro hv
      have : brun BState.init d.stmts = some (summ d.stmts) :=
        (brun_init_iff d.stmts _).mpr ⟨(C05.statements_iff d.stmts).mpr hv.statements, rfl⟩
      rw [hb] at this; cases this
  | some b =>
    obtain ⟨hadm, rfl⟩ := (brun_init_iff d.stmts b).mp hb
    simp only
    constructor
    · intro h
      by_cases hf : finalOk d.header (summ d.stmts) = true
      · by_cases hs : usesService (summ d.stmts) = true
        · simp [hf, hs] at h
        · exact ⟨(C05.statements_iff d.stmts).mp hadm, (C05.finalOk_iff _ _).mp hf, by simpa using hs⟩
      · simp [hf] at h
    · intro hv
      have hf := (C05.finalOk_iff _ _).mpr hv.final
      simp [hf, hv.noServiceField]

/-- … and every rejection is an `InvalidDefinitionError`: a definition that breaks a rule is rejected -/
theorem C05.rejection (d : Defn) (h : ¬ C05.Valid d) : accept d = .invalid := by
  cases ha : accept d with
  | ok => exact absurd ((C05.iff d).mp ha) h
  | invalid => rfl

/-! ### per-rule kernels, for all values -/

theorem C05.width_rule (s : Scalar) : s.ctorOk = true ↔ WidthOk s := Scalar.ctorOk_iff s
theorem C05.capacity_rule (t : Ty) : t.ctorOk = true ↔ TypeOk t := Ty.ctorOk_iff t
theorem C05.name_rule (s : String) : checkName s = true ↔ NameOk s := checkName_iff s
theorem C05.attribute_rule (st : RStmt) : attrCtorOk st = true ↔ AttrOk st := attrCtorOk_iff st
theorem C05.aggregation_rule (t : Ty) (union deprecated : Bool) :
    t.aggOk (if union then .union deprecated else .structure deprecated) = true ↔ PlaceOk t union deprecated :=
  Ty.aggOk_iff t union deprecated
theorem C05.unique_names_rule (names : List String) : namesUnique names = true ↔ (names.filter (· ≠ "")).Nodup :=
  namesUnique_iff names
theorem C05.version_rule (a b : Nat) : versionOk a b = true ↔ VersionOk a b := versionOk_iff a b
theorem C05.port_rule (h : Header) (service : Bool) : portOk h service = true ↔ PortOk h service := portOk_iff h service
theorem C05.schema_rule (comps : List String) (deprecated : Bool) (sc : RSchema) :
    schemaOk comps deprecated sc = true ↔ SchemaValid comps deprecated sc := schemaOk_iff comps deprecated sc
/-- the builder accepts a statement list exactly when every statement may stand where it stands, and then it has
    collected what the statements say -/
theorem C05.placement_rule (stmts : List RStmt) (b : BState) :
    brun BState.init stmts = some b ↔ (∀ pre st post, stmts = pre ++ st :: post → StmtOk pre st) ∧ b = summ stmts := by
  rw [brun_init_iff, C05.statements_iff]

namespace C05.Examples
def u8 : Ty := .scalar (.uint 8 .saturated)
def hdr : Header := ⟨["vendor", "node"], "Status", 1, 0, some 6144, false⟩
/-- `@deprecated`, `@union`, `uint8 a`, `vendor.X.1.0[<=2] b` (X deprecated), `float32 K = …`, `@extent 64`, `---`, `void3`, `utf8[<=9] s`, `@sealed` -/
def svc : Defn :=
  ⟨⟨["vendor", "node"], "GetStatus", 1, 0, some 256, false⟩,
   [.deprecated, .union, .field u8 "a", .field (.varArr (.comp ⟨true, false, 16⟩) 2) "b", .const (.scalar (.float 32 .saturated)) "K",
    .extent 64, .marker, .padding 3, .field (.varArr .utf8 9) "s", .sealed]⟩
/-- `dep.S.1.0 x`, `@sealed` where S is a service type -/
def serviceField : Defn := ⟨⟨["vendor"], "A", 1, 0, none, false⟩, [.field (.scalar (.comp ⟨false, true, 0⟩)) "x", .sealed]⟩
end C05.Examples

open C05.Examples in
/-- non-vacuity: a deprecated service with a union request (deprecated dependency through an array, extent exactly the
    longest representation 8 + 8 + 2*16 = 48 ≤ 64) and a structure response with padding and a string is valid -/
example : C05.Valid svc := (C05.iff svc).mp (by decide)

open C05.Examples in
/-- both sides of boundaries: extent 40 is below the longest representation (48); port 255 is outside the vendor
    service range; version 0.0 -/
example : ¬ C05.Valid { svc with stmts := svc.stmts.map fun s => if s = .extent 64 then .extent 40 else s } ∧
    C05.Valid { svc with stmts := svc.stmts.map fun s => if s = .extent 64 then .extent 48 else s } ∧
    ¬ C05.Valid { svc with header := { svc.header with port := some 255 } } ∧
    ¬ C05.Valid { svc with header := { svc.header with major := 0, minor := 0 } } := by
  refine ⟨fun h => ?_, (C05.iff _).mp (by decide), fun h => ?_, fun h => ?_⟩
  · exact absurd ((C05.iff _).mpr h) (by decide)
  · exact absurd ((C05.iff _).mpr h) (by decide)
  · exact absurd ((C05.iff _).mpr h) (by decide)

/-- reserved words and patterns in any letter case; near misses are allowed -/
example : ¬ NameOk "uInt7" ∧ ¬ NameOk "Bool" ∧ ¬ NameOk "Q1_2" ∧ ¬ NameOk "COM1" ∧ ¬ NameOk "_a_" ∧ ¬ NameOk "void" ∧ ¬ NameOk "9a" ∧ ¬ NameOk "" ∧
    NameOk "com10" ∧ NameOk "lpt" ∧ NameOk "q1_" ∧ NameOk "_a" ∧ NameOk "Bool1" ∧ NameOk "uintx" := by
  simp only [← checkName_iff]
  decide

open C05.Examples in
/-- a service type as a field type breaks a rule and is rejected -/
example : ¬ C05.Valid serviceField ∧ accept serviceField = .invalid :=
  ⟨fun hv => absurd ((C05.iff _).mpr hv) (by decide), by decide⟩
