import Proofs.NamespaceC09
import Proofs.NamespaceBook
import Proofs.NamespaceErr
import Proofs.NamespaceExample
/-! C09 - versioned references resolve to exactly the named definition or fail cleanly (model level).
    `Ns.resolve` = `resolve_versioned_data_type`, `Ns.readObj` = `DSDLDefinition.read` (cache, lookup list minus self),
    `Ns.Den au Lb t d` = "t is the type of d read on its own against the lookup list Lb" (Proofs/NamespaceC09.lean). -/
open Ns

/-- A successful resolution returns a member of the lookup list whose full name equals the completed reference and
    whose version is exactly M.m; it is the only case-insensitive match. -/
theorem C09.exact (L : List Def) (d : Def) (r : Ref) (x : Def) (h : resolve L d r = .ok x) :
    x ∈ L ∧ x.name = completeName d r.name ∧ x.major = r.major ∧ x.minor = r.minor ∧
      ∀ y ∈ L, refMatches (completeName d r.name) r.major r.minor y = true → y = x := resolve_ok h

/-- a relative name is completed with the referrer's own namespace, an absolute one is taken as written -/
theorem C09.completion (d : Def) (n : String) :
    completeName d n = if hasDot n then n else joinDots [d.namespace, n] := rfl

/-- missing, duplicated and case-only-different references are reported with an InvalidDefinitionError class -/
theorem C09.bad_reference_class (L : List Def) (d : Def) (r : Ref) (e : Err) (h : resolve L d r = .error e) :
    (e = .undefinedType ∨ e = .nameCollision ∨ e = .collision) ∧ e.isInvalid = true := by
  have := pick_error_class h
  refine ⟨this, ?_⟩
  rcases this with rfl | rfl | rfl <;> rfl

theorem C09.missing (L : List Def) (d : Def) (r : Ref)
    (h : ∀ y ∈ L, refMatches (completeName d r.name) r.major r.minor y = false) : resolve L d r = .error .undefinedType := by
  unfold resolve
  have : L.filter (refMatches (completeName d r.name) r.major r.minor) = [] := by
    apply List.filter_eq_nil_iff.mpr
    intro y hy; simp [h y hy]
  rw [this]; rfl

/-- two lookup definitions with the same name and version (or names differing by case only) are never resolved arbitrarily -/
theorem C09.duplicate (L : List Def) (d : Def) (r : Ref) (x y : Def) (rest : List Def)
    (h : L.filter (refMatches (completeName d r.name) r.major r.minor) = x :: y :: rest) :
    resolve L d r = .error .collision ∨ resolve L d r = .error .nameCollision := by
  unfold resolve
  rw [h]
  by_cases hn : (x.name != y.name) = true <;> simp [pick, hn]

/-- a single match that differs from the reference by letter case is a name collision, not a resolution -/
theorem C09.case_only (L : List Def) (d : Def) (r : Ref) (x : Def)
    (h : L.filter (refMatches (completeName d r.name) r.major r.minor) = [x]) (hc : x.name ≠ completeName d r.name) :
    resolve L d r = .error .nameCollision := by
  unfold resolve
  rw [h]
  have : (x.name != completeName d r.name) = true := by simpa using hc
  simp [pick, this]

/-- The termination measure of `read`: removing the definition being read makes the lookup list strictly shorter for
    everything it can resolve to (the recursion `readObj` is accepted by Lean with exactly this measure, so `read` is
    total: a cycle cannot loop). -/
theorem C09.terminates (L : List Def) (x : Def) (hx : x ∈ L) : (dropKey L x).length < L.length := dropKey_length_lt hx

/-- Below a definition `d` nothing with the key of `d` can be resolved, at any depth of the reference chain: a
    self-referential or cyclic reference therefore ends in one of the errors of `C09.bad_reference_class`. -/
theorem C09.cycle_error (L : List Def) (d : Def) (chain : List Def) (x : Def)
    (hx : x ∈ chain.foldl dropKey (dropKey L d)) : x.key ≠ d.key := by
  have mono : ∀ (c : List Def) (M : List Def), x ∈ c.foldl dropKey M → x ∈ M := by
    intro c
    induction c with
    | nil => intro M h; exact h
    | cons y ys ih =>
      intro M h
      have := ih (dropKey M y) h
      exact (List.mem_filter.mp this).1
  have := mono chain _ hx
  have hk := (List.mem_filter.mp this).2
  simpa using hk

theorem C09.self_reference (L : List Def) (d : Def) (r : Ref) (x : Def) (h : resolve (dropKey L d) d r = .ok x) :
    x.key ≠ d.key := C09.cycle_error L d [] x (resolve_mem h)

/-- Whatever `read` returns - for whichever referrer (lookup list with any set of keys removed) and whatever was cached
    before - is the stand-alone type of the definition. -/
theorem C09.standalone (au : Bool) (Lb L : List Def) (d : Def) (st : St) (t : Ty) (hL : KeySub Lb L)
    (hc : CacheOk (DenR au Lb) st) (h : (readObj au L d st).1 = .ok t) : Den au Lb t d :=
  (readObj_den au Lb L d st hL hc).2 t h

/-- ... and the cache stays sound, so the statement holds along any history of reads -/
theorem C09.cache_sound (au : Bool) (Lb L : List Def) (d : Def) (st : St) (hL : KeySub Lb L)
    (hc : CacheOk (DenR au Lb) st) : CacheOk (DenR au Lb) (readObj au L d st).2 :=
  (readObj_den au Lb L d st hL hc).1

/-- The type obtained for a definition does not depend on the referrer, the order of targets or the cache history:
    two successful reads give equal types. -/
theorem C09.order_independent (au : Bool) (Lb L1 L2 : List Def) (d : Def) (st1 st2 : St) (t1 t2 : Ty)
    (h1 : KeySub Lb L1) (h2 : KeySub Lb L2) (c1 : CacheOk (DenR au Lb) st1) (c2 : CacheOk (DenR au Lb) st2)
    (r1 : (readObj au L1 d st1).1 = .ok t1) (r2 : (readObj au L2 d st2).1 = .ok t2) : t1 = t2 :=
  Den.unique (C09.standalone au Lb L1 d st1 t1 h1 c1 r1) (C09.standalone au Lb L2 d st2 t2 h2 c2 r2)

/-- The nested types of a result are the stand-alone types of exactly the definitions its references name
    (`ExactRef`: full name = completed reference, version = M.m, unique in the lookup list), in order. -/
theorem C09.nested_standalone (au : Bool) (Lb : List Def) (t : Ty) (d : Def) (h : Den au Lb t d) :
    ∃ xs1 xs2, RefsTo Lb d d.text.req.stmts xs1 ∧
      (match d.text.resp with | none => xs2 = [] | some rs => RefsTo Lb d rs.stmts xs2) ∧
      DenList au Lb t.nested (xs1 ++ xs2) := by
  cases t with
  | mk info nested =>
    simp only [Den] at h
    obtain ⟨_, xs1, xs2, hr1, hr2, hl, _⟩ := h
    exact ⟨xs1, xs2, hr1, hr2, hl⟩

/-- The cache is transparent for a whole call, whatever the order of the targets (`targets` is an arbitrary list here):
    every type `_complete_read_function` returns - direct or transitive, read first-hand, taken from the cache, promoted or
    reached through any referrer - is the stand-alone type of a definition object of the call, and every successful read
    of that definition, in any state with a sound cache and against the lookup list with any keys removed, returns
    exactly this type.  (`HypP`: the path of a file determines its (name, version); it follows from the accepted
    directory rule, see `C09.files_transparent`.) -/
theorem C09.history_transparent (au : Bool) (files : List FileEntry) (targets : List Def) (dirs : List Path) (L : List Def)
    (d t : List Ty) (p : List Nat) (hL : collect false files dirs = .ok L) (H : HypP L targets)
    (h : completeRead au files targets dirs = ⟨.ok (d, t), p⟩) :
    ∀ x ∈ d ++ t, ∃ y, (y ∈ L ∨ y ∈ targets) ∧ Den au L x y ∧
      ∀ (L' : List Def) (st : St) (t' : Ty), KeySub L L' → CacheOk (DenR au L) st → (readObj au L' y st).1 = .ok t' → t' = x := by
  intro x hx
  obtain ⟨y, hy, hd⟩ := completeRead_good hL H h x hx
  exact ⟨y, hy, hd, fun L' st t' hL' hc hr => Den.unique (C09.standalone au L L' y st t' hL' hc hr) hd⟩

/-- the same for `read_files` as it is called (no hypothesis: the directory rule has been checked by the call) -/
theorem C09.files_transparent (files targets : List FileEntry) (roots lookups : List Path) (au : Bool) (d t : List Ty)
    (p : List Nat) (ts : List Def) (hts : mapMDefs true targets = .ok ts)
    (h : readFiles files targets roots lookups au = ⟨.ok (d, t), p⟩) :
    ∀ x ∈ d ++ t, ∃ L y, collect false files (dedupPaths (lookups ++ ts.map Def.root ++ roots)) = .ok L ∧
      (y ∈ L ∨ y ∈ ts) ∧ Den au L x y ∧
      ∀ (L' : List Def) (st : St) (t' : Ty), KeySub L L' → CacheOk (DenR au L) st → (readObj au L' y st).1 = .ok t' → t' = x := by
  rcases readFiles_inv hts h with ⟨_, rfl, rfl⟩ | ⟨L, hL, hc, hk, hu, _⟩
  · intro x hx; cases hx
  · intro x hx
    obtain ⟨y, hy, hd, hr⟩ := C09.history_transparent au files _ _ L d t p hL (hypP_of_dirs hk hu) hc x hx
    refine ⟨L, y, hL, ?_, hd, hr⟩
    rcases hy with hy | hy
    · exact Or.inl hy
    · exact Or.inr (mem_sortDefs'.mp hy)

/-- ... and for `read_namespace` -/
theorem C09.namespace_transparent (files : List FileEntry) (root : Path) (lookups : List Path) (ac au : Bool) (d t : List Ty)
    (p : List Nat) (ts : List Def) (hts : collect true files [root] = .ok ts)
    (h : readNamespace files root lookups ac au = ⟨.ok (d, t), p⟩) :
    ∀ x ∈ d ++ t, ∃ L y, collect false files (dedupPaths (lookups ++ [root])) = .ok L ∧
      (y ∈ L ∨ y ∈ ts) ∧ Den au L x y ∧
      ∀ (L' : List Def) (st : St) (t' : Ty), KeySub L L' → CacheOk (DenR au L) st → (readObj au L' y st).1 = .ok t' → t' = x := by
  rcases readNamespace_inv hts h with ⟨_, rfl, rfl⟩ | ⟨L, hL, hc, hk, hu⟩
  · intro x hx; cases hx
  · intro x hx
    obtain ⟨y, hy, hd, hr⟩ := C09.history_transparent au files _ _ L d t p hL
      (hypP_of_dirs hk fun x hx => (hu x hx).fromDirs) hc x hx
    exact ⟨L, y, hL, hy, hd, hr⟩

/-- The order in which the targets are read does not matter: for two target lists that are permutations of each other, two
    successful runs of `_complete_read_function` over the same lookup list return the same direct and the same transitive
    list.  (`Hyp`: path determines (name, version), and (name, version) identifies a definition; both follow from the
    accepted directory rule and `DistinctFileKeys`, `hyp_of_files`.) -/
theorem C09.target_order_independent (au : Bool) (files : List FileEntry) (ts1 ts2 : List Def) (dirs : List Path) (L : List Def)
    (d1 t1 d2 t2 : List Ty) (p1 p2 : List Nat) (hL : collect false files dirs = .ok L) (H : Hyp L (ts1 ++ ts2))
    (hp : ts1.Perm ts2) (h1 : completeRead au files ts1 dirs = ⟨.ok (d1, t1), p1⟩)
    (h2 : completeRead au files ts2 dirs = ⟨.ok (d2, t2), p2⟩) : d1 = d2 ∧ t1 = t2 :=
  completeRead_order hL H hp h1 h2

/-- An error of `read`, at whatever depth of the dependency chain it is raised, is a fault of one definition `y` reached
    from the definition being read through a chain of exactly resolved references (`RefChain`), and it is a fault of
    `y`'s own file (`LocalFault`: unparsable text, a statement violating a local rule, a reference of `y` that does not
    resolve or names a service, a rule violated by the type assembled from `y`'s own fields) - the analogue, on error
    classes, of `C17.path`: the blamed definition fails on its own. -/
theorem C09.error_origin (au : Bool) (Lb L : List Def) (d : Def) (st : St) (e : Err) (hL : KeySub Lb L)
    (h : (readObj au L d st).1 = .error e) : ∃ y, RefChain Lb d y ∧ LocalFault au Lb y e :=
  readObj_err au Lb L d st hL e h

section NonVacuity
private def S : Text := ⟨false, ⟨[.prim 8], .sealed⟩, none⟩
private def mk (n : String) (ma mi : Nat) : Def := ⟨false, ["w", n], ["w"], [n], n, ma, mi, none, S⟩
private def L : List Def := [mk "ns.A" 1 0, mk "ns.A" 1 1, mk "ns.B" 1 0, mk "ns.b" 1 0, mk "ns.C" 2 0, mk "ns.C" 2 0]
example : resolve L (mk "ns.Z" 1 0) ⟨"ns.A", 1, 1⟩ = .ok (mk "ns.A" 1 1) := by decide +kernel
example : resolve L (mk "ns.Z" 1 0) ⟨"ns.A", 1, 2⟩ = .error .undefinedType := by decide +kernel
example : resolve L (mk "ns.Z" 1 0) ⟨"ns.a", 1, 0⟩ = .error .nameCollision := by decide +kernel
example : resolve L (mk "ns.Z" 1 0) ⟨"ns.B", 1, 0⟩ = .error .nameCollision := by decide +kernel
example : resolve L (mk "ns.Z" 1 0) ⟨"ns.C", 2, 0⟩ = .error .collision := by decide +kernel
example : resolve (dropKey L (mk "ns.A" 1 0)) (mk "ns.A" 1 0) ⟨"ns.A", 1, 0⟩ = .error .undefinedType := by decide +kernel
example : KeySub L (dropKey L (mk "ns.A" 1 0)) ∧ CacheOk (DenR false L) {} := ⟨(KeySub.refl L).drop _, fun _ _ h => by cases h⟩
open Ns.Example in
example := C09.files_transparent Example.fs [eA] [] [["w", "other"]] false [TA] [TB] [] [dA true] (by simp [mapMDefs, mkA]) evalFiles
open Ns.Example in
example := C09.namespace_transparent Example.fs ["w", "ns"] [["w", "other"]] true false [TA, TB] [] [] _ collectT evalNs
open Ns.Example in
example := C09.target_order_independent false Example.fs [dA true, dB true] [dB true, dA true] Example.dirs L3 _ _ _ _ _ _
  collectL hypAB (List.Perm.swap _ _ _) evalFwd evalRev
open Ns.Example in
example : ∃ y, RefChain [dBg] (dA true) y ∧ LocalFault false [dBg] y .localInvalid :=
  C09.error_origin false [dBg] [dBg] (dA true) {} _ (KeySub.refl _) evalErr
end NonVacuity
