import Bridge.Offset
import Props.C08
/-!
# C08 over the code generated from the `iterate_fields_with_offsets` generators

The three `iterate_fields_with_offsets` (structure, union, delimited) and `enumerate_elements_with_offsets` are translated
from the working tree of /repo on every run (`Gen/Layout.lean`; `yield f, offset` appends `offset`).  For every field
list / element type, every well-formed base offset expression: the generated code returns normally — the alignment
`assert`s cannot fire — with exactly the offset expressions of the model, about which `Props/C08.lean` proves that they
denote the real start positions.
-/
open scoped Pointwise
open Bls Layout Bridge

theorem C08.gen_struct_offsets (fs : List Ty) (base : Op) :
    Gen.StructureType.iterate_fields_with_offsets (max 8 (maxAlign fs)) (fs.map tyI) base
      = .ok (fieldOffsets base (.struct fs)) := struct_iterate_ok fs base

theorem C08.gen_union_offsets (fs : List Ty) (base : Op) (hb : base.wf = true) (h : (Ty.union fs).wf = true) :
    Gen.UnionType.iterate_fields_with_offsets (max 8 (maxAlign fs)) (tagBits fs) (fs.map tyI) base
      = .ok (fieldOffsets base (.union fs)) := by
  simp only [Ty.wf, Bool.and_eq_true, decide_eq_true_eq] at h
  exact union_iterate_ok fs base hb h.2

theorem C08.gen_delimited_struct_offsets (fs : List Ty) (ext : ℕ) (base : Op) :
    Gen.DelimitedType.iterate_fields_with_offsets (Op.leaf [hdrBits (.struct fs)])
        (Gen.StructureType.iterate_fields_with_offsets (max 8 (maxAlign fs)) (fs.map tyI)) base
      = .ok (fieldOffsets base (.delim (.struct fs) ext)) := delim_struct_iterate_ok fs ext base

theorem C08.gen_delimited_union_offsets (fs : List Ty) (ext : ℕ) (base : Op) (hb : base.wf = true)
    (h : (Ty.union fs).wf = true) :
    Gen.DelimitedType.iterate_fields_with_offsets (Op.leaf [hdrBits (.union fs)])
        (Gen.UnionType.iterate_fields_with_offsets (max 8 (maxAlign fs)) (tagBits fs) (fs.map tyI)) base
      = .ok (fieldOffsets base (.delim (.union fs) ext)) := by
  simp only [Ty.wf, Bool.and_eq_true, decide_eq_true_eq] at h
  exact delim_union_iterate_ok fs ext base hb h.2

theorem C08.gen_element_offsets (e : Ty) (cap : ℕ) (base : Op) (he : e.wf = true) (hb : base.wf = true) :
    Gen.FixedLengthArrayType.enumerate_elements_with_offsets (tyI e) cap base = .ok (elementOffsets base e cap) :=
  elements_ok e cap base he hb

/-- The `_offset_` intrinsic is `aggregate_bit_length_sets` of the fields so far (DataSchemaBuilder.offset): the generated
    aggregation functions return the model's expressions. -/
theorem C08.gen_offset_intrinsic (fs : List Ty) :
    Gen.StructureType.aggregate_bit_length_sets (fs.map tyI) = .ok (offsetIntrinsic false fs) ∧
    (2 ≤ fs.length → tagBits fs ≤ 64 → Gen.UnionType.aggregate_bit_length_sets (fs.map tyI) = .ok (offsetIntrinsic true fs)) :=
  ⟨by simpa [offsetIntrinsic] using aggStruct_ok fs, fun h2 h64 => by simpa [offsetIntrinsic] using aggUnion_ok fs h2 h64⟩

/-- `DataSchemaBuilder.offset` itself (class choice by the union flag, aggregation, the `len(out) > 0` assert) returns the model's
    `_offset_` expression for the fields declared so far. -/
theorem C08.gen_offset_builder (fs : List Ty) (h : ∀ f ∈ fs, f.wf = true) :
    Gen.DataSchemaBuilder.offset false (fs.map tyI) = .ok (offsetIntrinsic false fs) ∧
    (2 ≤ fs.length → tagBits fs ≤ 64 → Gen.DataSchemaBuilder.offset true (fs.map tyI) = .ok (offsetIntrinsic true fs)) :=
  ⟨offset_struct_ok fs h, fun h2 h64 => offset_union_ok fs h h2 h64⟩

/-! ### Non-vacuity -/
example : (Ty.union [.prim 8, .farr (.prim 64) 2]).wf = true ∧ (Op.leaf [0, 4]).wf = true := by decide +kernel
