import Proofs.BlsMinMax
/-!
# C01 — bit length set algebra is exact for every composition and every divisor

`Bls.den : Op → Finset ℕ` (Proofs/BlsSpec.lean) is the mathematically defined set of an operator tree:
element-wise sums over cartesian products (`cat`), unions (`uni`), k-fold multiset sums (`rep`), their union
over `0..k` (`rrep`), every element rounded up to a multiple of the alignment (`pad`, characterised by
`C01.pad_is_round_up`).  The theorems below hold for every well-formed tree (non-empty leaves and child lists,
alignment ≥ 1 — exactly what the Python constructors accept) and every divisor `d ≥ 1`: no bound on nesting,
repetition counts, values or divisors.
-/
open scoped Pointwise
open Bls

/-- `pad` really is "round up to a multiple of the alignment": the least multiple of `a` not below `x`. -/
theorem C01.pad_is_round_up (a x : ℕ) (ha : 1 ≤ a) :
    a ∣ padTo a x ∧ x ≤ padTo a x ∧ ∀ m, a ∣ m → x ≤ m → padTo a x ≤ m :=
  ⟨padTo_dvd a x, le_padTo a x ha, fun m hm hx => padTo_least a x m ha hm hx⟩

/-- The residue set `% d` is exactly the set of residues of the defined set (no duplicates, so `len` is exact too). -/
theorem C01.modulo_exact (o : Op) (h : o.wf = true) (d : ℕ) (hd : 1 ≤ d) :
    (o.modulo d).toFinset = (den o).image (· % d) ∧ (o.modulo d).Nodup :=
  ⟨Bls.modulo_exact o h d hd, modulo_nodup o d⟩

/-- `min` and `max` are the least and the greatest element of the defined set. -/
theorem C01.min_max_exact (o : Op) (h : o.wf = true) :
    o.min = (den o).min' (den_nonempty o h) ∧ o.max = (den o).max' (den_nonempty o h) := by
  obtain ⟨h1, h2⟩ := min_exact o h
  obtain ⟨h3, h4⟩ := max_exact o h
  refine ⟨le_antisymm ?_ ?_, le_antisymm ?_ ?_⟩
  · exact (Finset.le_min'_iff _ _).mpr fun y hy => h2 y hy
  · exact Finset.min'_le _ _ h1
  · exact Finset.le_max' _ _ h3
  · exact (Finset.max'_le_iff _ _).mpr fun y hy => h4 y hy

/-- `fixed_length` (`min == max`) holds exactly when the defined set has one element. -/
theorem C01.fixed_length_exact (o : Op) (h : o.wf = true) : fixedLength o = true ↔ (den o).card = 1 := by
  obtain ⟨h1, h2⟩ := min_exact o h
  obtain ⟨h3, h4⟩ := max_exact o h
  simp only [fixedLength, beq_iff_eq]
  constructor
  · intro heq
    rw [Finset.card_eq_one]
    refine ⟨o.min, ?_⟩
    ext x
    simp only [Finset.mem_singleton]
    constructor
    · intro hx; exact le_antisymm (heq ▸ h4 x hx) (h2 x hx)
    · rintro rfl; exact h1
  · intro hc
    obtain ⟨a, ha⟩ := Finset.card_eq_one.mp hc
    rw [ha] at h1 h3
    rw [Finset.mem_singleton.mp h1, Finset.mem_singleton.mp h3]

/-- `is_aligned_at(d)` holds exactly when every element of the defined set is a multiple of `d`. -/
theorem C01.aligned_exact (o : Op) (h : o.wf = true) (d : ℕ) (hd : 1 ≤ d) :
    isAlignedAt o d = true ↔ ∀ x ∈ den o, d ∣ x := by
  have hm := Bls.modulo_exact o h d hd
  have hne := den_nonempty o h
  simp only [isAlignedAt, Bool.and_eq_true, List.all_eq_true, beq_iff_eq, Bool.not_eq_true',
    List.isEmpty_eq_false_iff]
  constructor
  · rintro ⟨h0, _⟩ x hx
    have : x % d ∈ (o.modulo d).toFinset := by rw [hm]; exact Finset.mem_image_of_mem _ hx
    exact Nat.dvd_of_mod_eq_zero (h0 _ (by simpa using this))
  · intro hall
    refine ⟨?_, ?_⟩
    · intro r hr
      have : r ∈ (den o).image (· % d) := by rw [← hm]; simpa using hr
      obtain ⟨x, hx, rfl⟩ := Finset.mem_image.mp this
      exact Nat.mod_eq_zero_of_dvd (hall x hx)
    · obtain ⟨x, hx⟩ := hne
      have : x % d ∈ (o.modulo d).toFinset := by rw [hm]; exact Finset.mem_image_of_mem _ hx
      intro hnil
      rw [hnil] at this
      simp at this

/-- Numerical expansion (iteration, `len`) yields exactly the defined set, each element once. -/
theorem C01.expand_exact (o : Op) :
    (o.expand).toFinset = den o ∧ (o.expand).Nodup ∧ (o.expand).length = (den o).card := by
  refine ⟨Bls.expand_exact o, expand_nodup o, ?_⟩
  rw [← Bls.expand_exact o, List.card_toFinset, List.Nodup.dedup (expand_nodup o)]

/-- Neither the `equivalent_k` congruence asserts nor `x <= mx and x < lcm` can fire. -/
theorem C01.asserts_never_fire (o : Op) (h : o.wf = true) (d : ℕ) (hd : 1 ≤ d) : o.assertsOk d = true :=
  Bls.asserts_never_fire o h d hd

/-- The defined set of a well-formed tree is non-empty (so `min`/`max` are meaningful). -/
theorem C01.den_nonempty (o : Op) (h : o.wf = true) : (den o).Nonempty := Bls.den_nonempty o h

/-! ### The memoisation wrapper is transparent for every query history -/

/-- Cache invariant: every cached entry equals the child's own answer. -/
def MemoOk (o : Op) (s : MemoState) : Prop :=
  (∀ v, s.min = some v → v = o.min) ∧ (∀ v, s.max = some v → v = o.max) ∧
  (∀ d v, s.modula.lookup d = some v → v = o.modulo d) ∧ (∀ v, s.expansion = some v → v = o.expand)

theorem C01.memo_step (o : Op) (s : MemoState) (q : Query) (hs : MemoOk o s) :
    (memoStep o s q).2 = answer o q ∧ MemoOk o (memoStep o s q).1 := by
  obtain ⟨h1, h2, h3, h4⟩ := hs
  cases q with
  | qMin =>
    simp only [memoStep]
    split
    · next v hv => exact ⟨by simp [answer, h1 v hv], h1, h2, h3, h4⟩
    · next hv => exact ⟨rfl, by simp, h2, h3, h4⟩
  | qMax =>
    simp only [memoStep]
    split
    · next v hv => exact ⟨by simp [answer, h2 v hv], h1, h2, h3, h4⟩
    · next hv => exact ⟨rfl, h1, by simp, h3, h4⟩
  | qMod d =>
    simp only [memoStep]
    split
    · next v hv => exact ⟨by simp [answer, h3 d v hv], h1, h2, h3, h4⟩
    · next hv =>
      refine ⟨rfl, h1, h2, ?_, h4⟩
      intro d' v hv'
      simp only [List.lookup_cons] at hv'
      split at hv'
      · next heq => simp only [beq_iff_eq] at heq; subst heq; exact (Option.some.inj hv').symm
      · exact h3 d' v hv'
  | qExpand =>
    simp only [memoStep]
    split
    · next v hv => exact ⟨by simp [answer, h4 v hv], h1, h2, h3, h4⟩
    · next hv => exact ⟨rfl, h1, h2, h3, by simp⟩

/-- For every history of queries the memoised answers are the uncached ones. -/
theorem C01.memo_transparent (o : Op) (qs : List Query) : memoRun o {} qs = qs.map (answer o) := by
  have key : ∀ (s : MemoState), MemoOk o s → memoRun o s qs = qs.map (answer o) := by
    induction qs with
    | nil => intro s _; rfl
    | cons q qs ih =>
      intro s hs
      obtain ⟨ha, hs'⟩ := C01.memo_step o s q hs
      simp only [memoRun, List.map_cons]
      rw [ha, ih _ hs']
  exact key {} ⟨by simp, by simp, by simp, by simp⟩

/-! ### Non-vacuity: a nested tree with a huge repetition count satisfies the hypotheses -/

example : (Op.pad (.rep (.uni [.leaf [1, 3], .leaf [7]]) (2 ^ 63)) 8).wf = true ∧ (1 : ℕ) ≤ 12 := by decide
example : (Op.cat [.leaf [32], .rrep (.cat [.leaf [16], .rrep (.leaf [8]) 256]) 65536]).wf = true := by decide
