import Model.Bls
theorem C01.placeholder : Bls.padTo 8 3 = 8 := by decide
