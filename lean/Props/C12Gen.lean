import Bridge.Primitive
import Props.C12
/-!
# C12 over the code generated from `_primitive.py`

`SignedIntegerType.inclusive_value_range` and `UnsignedIntegerType.inclusive_value_range` are translated from the working
tree of /repo on every run.  For every bit length the generated code returns normally with the two's-complement /
unsigned range, i.e. the range against which `Constant.__init__` checks initializers (`C12.iff` is stated over the same
`intRange` / `uintRange`).
-/
open Ex Bridge

theorem C12.gen_signed_range (n : Nat) (h : 1 ≤ n) :
    Gen.SignedIntegerType.inclusive_value_range n = .ok (-(2:Int) ^ (n - 1), (2:Int) ^ (n - 1) - 1) := by
  rw [gen_int_range, C12.ranges_signed n h]

theorem C12.gen_unsigned_range (n : Nat) :
    Gen.UnsignedIntegerType.inclusive_value_range n = .ok (0, (2:Int) ^ n - 1) := by
  rw [gen_uint_range, C12.ranges_unsigned n]

example : Gen.SignedIntegerType.inclusive_value_range 8 = .ok (-128, 127) := by decide
