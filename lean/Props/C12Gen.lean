import Bridge.Primitive
import Bridge.Constant
import Props.C12
/-!
# C12 over the code generated from `_attribute.py`, `_primitive.py` and `_expression/_primitive.py`

Two generated modules, re-translated from the working tree of /repo on every run:

* `Gen.Primitive` (`SignedIntegerType.inclusive_value_range`, `UnsignedIntegerType.inclusive_value_range` on naturals): for every bit
  length the generated code returns normally with the two's-complement / unsigned range.
* `Gen.Constant`: `Constant.__init__` itself (which kinds of initialiser are accepted for which type, the one-character rule, the range
  check, the exceptions), the constructors of the primitive types along their `super().__init__` chain (bit length and cast mode guards,
  the table of the float limits with its `Fraction` arithmetic), `inclusive_value_range` of the three arithmetic classes, the class
  hierarchy that decides every `isinstance`, `Rational.is_integer` / `native_value`, `String.native_value`.

`Bridge.genConst ty v` runs the generated code as a definition `<type> NAME = <initialiser>` does: the constructor of the type, then
`Constant.__init__`.  The theorems below are the statements of C12 about that code: it accepts exactly the initialisers the rule of the
property admits, stores the initialiser's value itself, and every rejection is an `InvalidDefinitionError` subclass raised on purpose.
-/
open Ex Bridge

theorem C12.gen_signed_range (n : Nat) (h : 1 ≤ n) :
    Gen.SignedIntegerType.inclusive_value_range n = .ok (-(2:Int) ^ (n - 1), (2:Int) ^ (n - 1) - 1) := by
  rw [gen_int_range, C12.ranges_signed n h]

theorem C12.gen_unsigned_range (n : Nat) :
    Gen.UnsignedIntegerType.inclusive_value_range n = .ok (0, (2:Int) ^ n - 1) := by
  rw [gen_uint_range, C12.ranges_unsigned n]

example : Gen.SignedIntegerType.inclusive_value_range 8 = .ok (-128, 127) := by decide

/-- The translated `Constant.__init__` (behind the translated constructor of the type) accepts an initialiser and stores `v'` if and only
    if the rule of the property holds: for every type descriptor (all widths, both signednesses, both cast modes, legal or not), every
    value (rationals, booleans, strings, sets). -/
theorem C12.gen_iff (ty : CTy) (v v' : Val) : genConst ty v = .ok (pyVal v') ↔ Spec.constOk ty v v' := by
  rw [← C12.iff]
  constructor
  · intro h
    obtain ⟨w, hw, he⟩ := gen_const_ok_inv h
    -- the model only ever stores scalars, and `pyVal` is injective on them
    have hsc : ∃ s, w = .sc s := by
      have hk := (C12.iff ty v w).mp hw
      rcases ty with _ | ⟨n, m⟩ | ⟨n, m⟩ | ⟨n, m⟩ | _ <;> rcases v with (q | b | cs) | es <;> simp only [Spec.constOk] at hk
      · exact ⟨_, hk⟩
      · exact ⟨_, hk.2.2.2⟩
      · obtain ⟨_, c, _, _, rfl⟩ := hk; exact ⟨_, rfl⟩
      · exact ⟨_, hk.2.2.2.2⟩
      · exact ⟨_, hk.2.2.2⟩
    obtain ⟨s, rfl⟩ := hsc
    rw [hw, pyVal_sc_inj he.symm]
  · exact gen_const_ok

example : genConst (.uint 8 .truncated) (.str [97]) = .ok (pyVal (.rat 97)) := by decide +kernel

/-- Every outcome of the translated code is an accepted value or one of four pydsdl exceptions, all of them subclasses of
    `InvalidDefinitionError` raised on purpose: no `assert` of `Constant.__init__` fails, no attribute is missing, the float table raises
    no stray `KeyError`, and the translation never leaves its fragment (no float result of `**`, no unjustified narrowing). -/
theorem C12.gen_total (ty : CTy) (v : Val) :
    (∃ v', Spec.constOk ty v v' ∧ genConst ty v = .ok (pyVal v')) ∨
    ((∀ v', ¬ Spec.constOk ty v v') ∧ ∃ cls ∈ rejectionClasses, genConst ty v = .error (.other cls)) := by
  cases hc : constCheck ty v with
  | ok v' => exact Or.inl ⟨v', (C12.iff ty v v').mp hc, gen_const_ok hc⟩
  | error e =>
    refine Or.inr ⟨fun v' hk => ?_, errName ty v, errName_mem ty v, gen_const_error hc⟩
    rw [← C12.iff, hc] at hk
    cases hk

example : (∀ v', ¬ Spec.constOk (.int 8 .truncated) (.rat 1) v') := by
  intro v' h; simp [Spec.constOk] at h

/-- What an accepted constant stores is the initialiser's own value - never rounded, never converted - except that a one-character ASCII
    string (accepted for 8-bit unsigned types only) is stored as its code point. -/
theorem C12.gen_stored_exact (ty : CTy) (v : Val) (w : Py.Value) (h : genConst ty v = .ok w) :
    w = pyVal v ∨ ∃ c : Nat, ∃ m, ty = .uint 8 m ∧ v = .str [c] ∧ c < 128 ∧ w = .Rational (c : Nat) := by
  obtain ⟨v', hv', rfl⟩ := gen_const_ok_inv h
  have hk := (C12.iff ty v v').mp hv'
  rcases ty with _ | ⟨n, m⟩ | ⟨n, m⟩ | ⟨n, m⟩ | _ <;> rcases v with (q | b | cs) | es <;> simp only [Spec.constOk] at hk
  · exact Or.inl (by rw [hk])
  · exact Or.inl (by rw [hk.2.2.2])
  · obtain ⟨rfl, c, rfl, hc, rfl⟩ := hk
    exact Or.inr ⟨c, m, rfl, rfl, hc, rfl⟩
  · exact Or.inl (by rw [hk.2.2.2.2])
  · exact Or.inl (by rw [hk.2.2.2])

example : genConst (.float 32 .saturated) (.rat (1/3)) = .ok (.Rational (1/3)) := by decide +kernel

/-- The float limits the translated constructor computes (`2**emax * (2 - Fraction(2) ** Fraction(-p))`, exact rational arithmetic) and
    stores as `_magnitude` are the largest finite values of IEEE 754 binary16 / binary32 / binary64; every other width is an
    `InvalidBitLengthError`. -/
theorem C12.gen_float_limits (n : Nat) (cm : Py.CastMode) :
    Gen.Cst.FloatType.new (n : Int) cm =
      if n = 16 ∨ n = 32 ∨ n = 64 then
        .ok (.prim .FloatType { bit_length := some (n : Int), cast_mode := some cm, magnitude := some (Spec.maxFinite n) })
      else .error (.other "InvalidBitLengthError") := by
  rw [float_new]
  by_cases h : n = 16 ∨ n = 32 ∨ n = 64
  · simp only [h, if_true]
    rcases h with rfl | rfl | rfl
    · rw [C12.ranges_float.1]
    · rw [C12.ranges_float.2.1]
    · rw [C12.ranges_float.2.2]
  · simp only [h, if_false]

example : Gen.Cst.FloatType.new 16 .SATURATED =
    .ok (.prim .FloatType { bit_length := some 16, cast_mode := some .SATURATED, magnitude := some 65504 }) := by
  have := C12.gen_float_limits 16 .SATURATED
  simpa [Spec.maxFinite] using this

/-- The range against which the translated `Constant.__init__` checks a float initialiser is `± largest finite value`, both ends
    included. -/
theorem C12.gen_float_accepts (n : Nat) (m : CastMode) (q : Rat) (hn : n = 16 ∨ n = 32 ∨ n = 64) :
    genConst (.float n m) (.rat q) = .ok (.Rational q) ↔ (-Spec.maxFinite n ≤ q ∧ q ≤ Spec.maxFinite n) := by
  have := C12.gen_iff (.float n m) (.rat q) (.rat q)
  simp only [pyVal, Spec.constOk] at this
  rw [this]
  constructor
  · rintro ⟨_, h1, h2, _⟩; exact ⟨h1, h2⟩
  · rintro ⟨h1, h2⟩; exact ⟨hn, h1, h2, trivial⟩

/-- `Constant.__init__` does not tell `byte` / `utf8` from `uint8` (their rejection as constant types is the aggregation check's). -/
theorem C12.gen_byte_utf8_as_uint8 (o : Py.Obj) (v : Py.Value) :
    Gen.Cst.Constant.init (.prim .ByteType o) v = Gen.Cst.Constant.init (.prim .UnsignedIntegerType o) v ∧
    Gen.Cst.Constant.init (.prim .UTF8Type o) v = Gen.Cst.Constant.init (.prim .UnsignedIntegerType o) v :=
  ⟨init_byte o v, init_utf8 o v⟩

example : (do let t ← Gen.Cst.ByteType.new; Gen.Cst.Constant.init t (.Rational 255)) = .ok (.Rational 255) := by decide +kernel

/-! ### The boundaries, on the generated code -/

-- uint64: the largest value and the first rejected one; int64: the smallest value and the first rejected one
example : genConst (.uint 64 .saturated) (.rat 18446744073709551615) = .ok (.Rational 18446744073709551615) := by decide +kernel
example : genConst (.uint 64 .truncated) (.rat 18446744073709551616) = .error (.other "InvalidConstantValueError") := by decide +kernel
example : genConst (.uint 64 .saturated) (.rat (-1)) = .error (.other "InvalidConstantValueError") := by decide +kernel
example : genConst (.int 64 .saturated) (.rat (-9223372036854775808)) = .ok (.Rational (-9223372036854775808)) := by decide +kernel
example : genConst (.int 64 .saturated) (.rat (-9223372036854775809)) = .error (.other "InvalidConstantValueError") := by decide +kernel
example : genConst (.int 64 .saturated) (.rat 9223372036854775808) = .error (.other "InvalidConstantValueError") := by decide +kernel
example : genConst (.uint 1 .saturated) (.rat 1) = .ok (.Rational 1) := by decide +kernel
example : genConst (.uint 1 .saturated) (.rat 2) = .error (.other "InvalidConstantValueError") := by decide +kernel
-- non-integers are no integer constants
example : genConst (.int 8 .saturated) (.rat (11/10)) = .error (.other "InvalidConstantValueError") := by decide +kernel
-- float16 / float32 / float64: the largest finite value, and values just above it (by 1, and by 10^-40)
example : genConst (.float 16 .saturated) (.rat 65504) = .ok (.Rational 65504) := by decide +kernel
example : genConst (.float 16 .saturated) (.rat (65504 + 1 / 10 ^ 40)) = .error (.other "InvalidConstantValueError") := by decide +kernel
example : genConst (.float 16 .truncated) (.rat (-65504)) = .ok (.Rational (-65504)) := by decide +kernel
example : genConst (.float 16 .truncated) (.rat (-65505)) = .error (.other "InvalidConstantValueError") := by decide +kernel
example : genConst (.float 32 .saturated) (.rat 340282346638528859811704183484516925440) =
    .ok (.Rational 340282346638528859811704183484516925440) := by decide +kernel
example : genConst (.float 32 .saturated) (.rat 340282346638528859811704183484516925441) =
    .error (.other "InvalidConstantValueError") := by decide +kernel
-- the float32 limit is far outside float16 (a float16 type that took its limit from the float32 row would accept it)
example : genConst (.float 16 .saturated) (.rat 340282346638528859811704183484516925440) =
    .error (.other "InvalidConstantValueError") := by decide +kernel
example : genConst (.float 64 .saturated) (.rat (Spec.maxFinite 64)) = .ok (.Rational (Spec.maxFinite 64)) := by decide +kernel
example : genConst (.float 64 .saturated) (.rat (Spec.maxFinite 64 + 1)) = .error (.other "InvalidConstantValueError") := by decide +kernel
example : genConst (.float 64 .saturated) (.rat (Spec.maxFinite 64 + 1 / 10 ^ 40)) = .error (.other "InvalidConstantValueError") := by
  decide +kernel
-- a character: only for 8-bit unsigned types, only ASCII, exactly one
example : genConst (.uint 8 .saturated) (.str [97]) = .ok (.Rational 97) := by decide +kernel
example : genConst (.uint 7 .saturated) (.str [97]) = .error (.other "InvalidConstantValueError") := by decide +kernel
example : genConst (.uint 9 .saturated) (.str [97]) = .error (.other "InvalidConstantValueError") := by decide +kernel
example : genConst (.int 8 .saturated) (.str [97]) = .error (.other "InvalidConstantValueError") := by decide +kernel
example : genConst (.uint 8 .saturated) (.str [0x80]) = .error (.other "InvalidConstantValueError") := by decide +kernel
example : genConst (.uint 8 .saturated) (.str [0xD800]) = .error (.other "InvalidConstantValueError") := by decide +kernel
example : genConst (.uint 8 .saturated) (.str []) = .error (.other "InvalidConstantValueError") := by decide +kernel
example : genConst (.uint 8 .saturated) (.str [97, 98]) = .error (.other "InvalidConstantValueError") := by decide +kernel
-- booleans: for bool, and for bool only
example : genConst .bool (.bool true) = .ok (.Boolean true) := by decide +kernel
example : genConst .bool (.rat 1) = .error (.other "InvalidConstantValueError") := by decide +kernel
example : genConst (.uint 1 .saturated) (.bool true) = .error (.other "InvalidConstantValueError") := by decide +kernel
example : genConst (.float 16 .saturated) (.bool false) = .error (.other "InvalidConstantValueError") := by decide +kernel
-- types that cannot be constructed, types that cannot carry a constant, values that are no primitives
example : genConst (.int 1 .saturated) (.rat 0) = .error (.other "InvalidBitLengthError") := by decide +kernel
example : genConst (.int 8 .truncated) (.rat 0) = .error (.other "InvalidCastModeError") := by decide +kernel
example : genConst (.uint 65 .saturated) (.rat 0) = .error (.other "InvalidBitLengthError") := by decide +kernel
example : genConst (.float 17 .saturated) (.rat 0) = .error (.other "InvalidBitLengthError") := by decide +kernel
example : genConst .other (.rat 0) = .error (.other "InvalidTypeError") := by decide +kernel
example : genConst (.uint 8 .saturated) (.set [.rat 1]) = .error (.other "InvalidConstantValueError") := by decide +kernel
