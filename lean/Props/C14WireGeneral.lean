import Proofs.WireEvolve
/-! C14, wire half, general form — reader and writer may differ in ANY number of delimited structures at ANY
    positions at once (the one-hole statement `C14.wire` is the special case `Evolves (C.fill D) (C.fill D')`).

`Evolves t t'` (writer `t`, reader `t'`; `Proofs/WireEvolve.lean`) is the structural relation
  * primitives, `byte`, `utf8`, padding: identical;
  * arrays: same kind and capacity, element types related;
  * sealed structures: same number of fields, pairwise related;
  * delimited structures (any extents): pairwise related on the common prefix of the two field lists — either side
    may have further fields at the end (fields appended / removed), and the common fields may contain revised
    delimited members themselves;
  * unions of the same sealing and tag width: the reader may know further variants at the end; common variants related.
`adapt t t' v` is what the reader must see: common fields adapted recursively, fields unknown to the writer as their
defaults (= what an all-zero representation decodes to, `C14.unknown_fields_read_as_zero`), fields unknown to the
reader dropped. -/
open Wire

/-- The reader of `t'` decodes every representation written for `t` into the adapted value — a valid value of `t'` —
    and stops exactly where the writer's representation ends, at any aligned offset, whatever follows. -/
theorem C14.wire_general (t t' : Ty) (v : Val) (o : Nat) (junk : List Bool)
    (hw : t.wf = true) (hw' : t'.wf = true) (h : Evolves t t') (hv : valid t v = true) (ho : o % t.align = 0) :
    dec t' ⟨o, enc t v o ++ junk⟩ = .ok (adapt t t' v, ⟨o + (enc t v o).length, junk⟩) ∧
      valid t' (adapt t t' v) = true := by
  have h1 := evolve_rt t t' v hw hw' h hv o junk ho
  exact ⟨h1, dec_valid t' _ _ _ hw' h1⟩

/-- the relation contains: no change, … -/
theorem C14.evolves_refl (t : Ty) : Evolves t t := Wire.evolves_refl t

/-- … fields appended to a delimited structure whose common fields are (possibly) revised as well, … -/
theorem C14.evolves_appended (fs fs' gs : List Ty) (x x' : Nat) (h : EvolvesAll fs fs') :
    Evolves (.struct fs (.delimited x)) (.struct (fs' ++ gs) (.delimited x')) := by
  simp only [Evolves]; exact evolvesPrefix_append_right fs fs' gs h

/-- … fields removed, … -/
theorem C14.evolves_removed (fs fs' gs : List Ty) (x x' : Nat) (h : EvolvesAll fs fs') :
    Evolves (.struct (fs ++ gs) (.delimited x)) (.struct fs' (.delimited x')) := by
  simp only [Evolves]; exact evolvesPrefix_append_left fs fs' gs h

/-- … and any of these at any position of any container. -/
theorem C14.evolves_nested (C : Ctx) (X X' : Ty) (h : Evolves X X') : Evolves (C.fill X) (C.fill X') :=
  evolves_fill C X X' h

/-- the adapted value in the two basic steps: defaults appended / trailing fields dropped -/
theorem C14.adapt_appended (fs gs : List Ty) (x x' : Nat) (vs : List Val)
    (hw : wfFields fs = true) (hv : validFields fs vs = true) :
    adapt (.struct fs (.delimited x)) (.struct (fs ++ gs) (.delimited x')) (.recd vs)
      = .recd (vs ++ dfltFields gs) := by
  simp only [adapt, adaptFields_append_right fs gs vs hw hv]

theorem C14.adapt_removed (fs gs : List Ty) (x x' : Nat) (vs ws : List Val)
    (hw : wfFields fs = true) (hv : validFields fs vs = true) :
    adapt (.struct (fs ++ gs) (.delimited x)) (.struct fs (.delimited x')) (.recd (vs ++ ws)) = .recd vs := by
  simp only [adapt, adaptFields_append_left fs gs vs ws hw hv]

/-! ### Non-vacuity: two different revised types in one container, one of them revised inside a revised type -/

def C14.gW : Ty :=
  .struct [.struct [.uint 8 .sat] (.delimited 64),
           .varr (.struct [.uint 16 .sat, .struct [.bool] (.delimited 8), .bool] (.delimited 64)) 3,
           .uint 8 .sat] .sealed
def C14.gR : Ty :=
  .struct [.struct [.uint 8 .sat, .sint 16 .sat] (.delimited 64),
           .varr (.struct [.uint 16 .sat, .struct [.bool, .uint 3 .sat] (.delimited 8)] (.delimited 64)) 3,
           .uint 8 .sat] .sealed
def C14.gV : Val :=
  .recd [.recd [.int 200], .arr [.recd [.int 513, .recd [.bool true], .bool true], .recd [.int 7, .recd [.bool false], .bool false]],
         .int 77]

example : C14.gW.wf = true ∧ C14.gR.wf = true ∧ valid C14.gW C14.gV = true := by decide
example : Evolves C14.gW C14.gR := by
  simp [C14.gW, C14.gR, Evolves, EvolvesAll, EvolvesPrefix]
example : adapt C14.gW C14.gR C14.gV =
    .recd [.recd [.int 200, .int 0],
           .arr [.recd [.int 513, .recd [.bool true, .int 0]], .recd [.int 7, .recd [.bool false, .int 0]]], .int 77] := by
  simp [C14.gW, C14.gR, C14.gV, adapt, adaptFields, dfltFields, dflt]
