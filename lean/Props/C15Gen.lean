import Bridge.FileName
import Props.C15
/-!
# C15 over the file-name rules generated from `DSDLDefinition.__init__`

`Gen.DSDLDefinition.init root basename parts` is translated on every run from the working tree of /repo: the slice of
`DSDLDefinition.__init__` from the check of the root directory name to `self._name` (with `_parse_decimal`), as a function of
`self._root_namespace_path.name`, `relative_path.name` and `relative_path.parent.parts`.  The meaning of `str.split`,
`int()`, `str.isascii`, `str.isdigit`, `str.join`, tuple unpacking and `try / except ValueError` is `PyLib.lean`
(`Py.intOfStr` is CPython's rule for `int(str)` on ASCII text: blanks, sign, underscores, the 4300-digit limit; on non-ASCII
text it fails as "outside the fragment" - the translated code never reaches it there, because `_parse_decimal` tests
`text.isascii()` first, so the theorems below hold for every string).
Not under a theorem here: `pathlib` (how the three arguments are obtained from the two paths).
-/
open Ns Bridge.FileName

/-- The generated code and the model agree on every file below a root namespace directory: the same full name, version and
    port-ID, or a `FileNameFormatError` exactly where the model rejects.  (4300: CPython refuses to convert longer numerals;
    file systems limit a base name to 255 bytes.) -/
theorem C15.gen_identity (tgt : Bool) (e : FileEntry) (hlen : e.fname.length ≤ 4300) :
    Gen.DSDLDefinition.init (rootNameOf e) e.fname (rootNameOf e :: e.sub) =
      match mkDef tgt e with
      | .ok d => .ok ⟨d.name, d.major, d.minor, d.fpid.map Int.ofNat⟩
      | .error _ => .error (.other "FileNameFormatError") := by
  rw [init_eq_mkDef_of_length tgt e hlen]
  cases mkDef tgt e <;> rfl

example : Gen.DSDLDefinition.init "ns" "7000.Heartbeat.1.0.dsdl" ["ns", "node"] = .ok ⟨"ns.node.Heartbeat", 1, 0, some 7000⟩ := by
  decide +kernel

/-- Without any bound: whatever the generated code accepts has the shape the model accepts, no directory name contains a
    separator, and the result is exactly (joined directories + short name, major, minor, port-ID) of the base name. -/
theorem C15.gen_accepted (root basename : String) (parts : List String) (v : FileNameI)
    (h : Gen.DSDLDefinition.init root basename parts = .ok v) :
    hasDot root = false ∧ parts.any hasDot = false ∧ ∃ fn, parseFileName basename.toList = .ok fn ∧
      v = ⟨joinDots (parts ++ [String.ofList fn.short]), fn.major, fn.minor, fn.pid.map Int.ofNat⟩ := by
  rw [init_eq_spec] at h
  exact initSpec_ok h

/-- ... in particular the numbers are never negative (a sign is not part of a numeral) -/
theorem C15.gen_nonnegative (root basename : String) (parts : List String) (v : FileNameI)
    (h : Gen.DSDLDefinition.init root basename parts = .ok v) :
    0 ≤ v.major ∧ 0 ≤ v.minor ∧ ∀ p, v.fixed_port_id = some p → 0 ≤ p := by
  obtain ⟨_, _, fn, _, rfl⟩ := C15.gen_accepted root basename parts v h
  refine ⟨Int.natCast_nonneg _, Int.natCast_nonneg _, ?_⟩
  intro p hp
  cases hpid : fn.pid with
  | none => simp [hpid] at hp
  | some q => simp [hpid] at hp; subst hp; exact Int.natCast_nonneg _

/-- Round trip: the file name rendered from (port-ID, short name, major, minor) and an extension, below directories whose
    names contain no separator, is parsed back by the generated code to exactly these data. -/
theorem C15.gen_roundtrip (root : String) (sub : List String) (x : FileName) (ext : List Char)
    (hs : '.' ∉ x.short) (he : '.' ∉ ext) (hroot : hasDot root = false) (hsub : sub.any hasDot = false)
    (hlen : (renderFileName x ext).length ≤ 4300) :
    Gen.DSDLDefinition.init root (String.ofList (renderFileName x ext)) (root :: sub) =
      .ok ⟨joinDots (root :: (sub ++ [String.ofList x.short])), x.major, x.minor, x.pid.map Int.ofNat⟩ := by
  have h := init_eq_mkDef_of_length false ⟨[root], sub, String.ofList (renderFileName x ext), ⟨false, ⟨[], .none⟩, none⟩⟩
    (by simpa using hlen)
  have hr : rootNameOf ⟨[root], sub, String.ofList (renderFileName x ext), ⟨false, ⟨[], .none⟩, none⟩⟩ = root := rfl
  rw [hr] at h
  simp only at h
  rw [h]
  simp only [mkDef, List.getLast?_singleton, Option.getD_some, hroot, Bool.false_eq_true, if_false, String.toList_ofList,
    C15.roundtrip x ext hs he, hsub, expected, ofDef]

example : Gen.DSDLDefinition.init "ns" (String.ofList (renderFileName ⟨some 7000, "Heartbeat".toList, 1, 0⟩ "dsdl".toList)) ["ns", "node"]
    = .ok ⟨"ns.node.Heartbeat", 1, 0, some 7000⟩ :=
  C15.gen_roundtrip "ns" ["node"] ⟨some 7000, "Heartbeat".toList, 1, 0⟩ "dsdl".toList (by decide) (by decide) (by decide) (by decide)
    (by decide)

/-- Rejected: a base name that does not consist of 3 or 4 dot-separated parts in front of its extension. -/
theorem C15.gen_rejects_part_count (root basename : String) (parts : List String)
    (h3 : (splitDots basename.toList).length ≠ 4) (h4 : (splitDots basename.toList).length ≠ 5) :
    Gen.DSDLDefinition.init root basename parts = .error (.other "FileNameFormatError") := by
  rw [init_eq_spec]
  exact initSpec_bad_count (by rw [List.length_dropLast]; omega) (by rw [List.length_dropLast]; omega)

/-- Rejected: a version number or port-ID that is not a plain decimal numeral - empty, signed (so: every negative number),
    with blanks or digit separators (which `int()` alone would accept), non-numeric, non-ASCII digits. -/
theorem C15.gen_rejects_non_numeral (root basename : String) (parts : List String) (p : List Char)
    (hp : p ∈ numeralParts basename) (hd : isDigits p = false) :
    Gen.DSDLDefinition.init root basename parts = .error (.other "FileNameFormatError") := by
  rw [init_eq_spec]
  exact initSpec_bad_numeral hp hd

/-- Rejected: a separator in the name of the root namespace directory or of a directory below it. -/
theorem C15.gen_rejects_dotted_directory (root basename : String) (parts : List String)
    (h : hasDot root = true ∨ parts.any hasDot = true) :
    Gen.DSDLDefinition.init root basename parts = .error (.other "FileNameFormatError") := by
  rw [init_eq_spec]
  exact initSpec_bad_directory h

section NonVacuity
example : ["-1", "+1", "1_0", " 1", "1 ", "", "x", "0x1", "1e3", "١", "²"].all (fun s => isDigits s.toList == false) = true := by decide
example : "-1".toList ∈ numeralParts "A.-1.0.dsdl" ∧ "1_0".toList ∈ numeralParts "7000.A.1.1_0.dsdl" := by decide
example : Gen.DSDLDefinition.init "ns" "A.-1.0.dsdl" ["ns"] = .error (.other "FileNameFormatError") :=
  C15.gen_rejects_non_numeral _ _ _ "-1".toList (by decide) (by decide)
example : Gen.DSDLDefinition.init "ns" "A.1.dsdl" ["ns"] = .error (.other "FileNameFormatError") :=
  C15.gen_rejects_part_count _ _ _ (by decide) (by decide)
example : Gen.DSDLDefinition.init "ns" "A.1.0.dsdl" ["ns", "a.b"] = .error (.other "FileNameFormatError") :=
  C15.gen_rejects_dotted_directory _ _ _ (Or.inr (by decide))
end NonVacuity
