import Proofs.WireIO
import Props.C06
/-!
# C06 / C07 — the codec, written as a driver of `_BitWriter` / `_BitReader`, is the stream codec

`Model/Wire.lean` (the model the round-trip, length, truncation and zero-extension theorems of C06/C07 are about)
describes `_serialize_*` / `_deserialize_*` of pydsdl/_serdes.py over an abstract bit stream: a single function
stands for `write_bits` / `read_bits`, alignment is arithmetic on an offset, a bounded sub-reader is a prefix of a
list.  `Model/BitIO.lean` models the real byte-buffer `_BitWriter` / `_BitReader` with both of their code paths and
the limit logic.  `Model/WireIO.lean` writes the codec the way the Python code does — as a sequence of `write_bits`,
`align_to`, `finish`, `read_bits`, `remaining_bits`, `bounded_subreader` calls on those objects (floats and
delimited payloads byte by byte, a fresh writer for every delimited composite).  The theorems here prove that this
driver computes exactly the stream codec, for every type, value, writer state and reader state — so the agreement of
the fast and the slow path at every offset, the unreachability of the overwrite branches of the writer, and the
`remaining_bits` / limit arithmetic of nested bounded readers are theorems, not sampled facts.
-/
open Wire WireIO

/-- **Writer.**  For every well-formed type, every value and every writer that satisfies the buffer invariant (in
    particular every writer reached from `_BitWriter()`), `_serialize_*` leaves the invariant intact, appends exactly
    the bits `Wire.enc` produces at the writer's offset, and advances the offset by their number.  (Well-formedness
    is used for one fact only: float widths are whole bytes, because floats are written byte by byte.) -/
theorem C06.writer_refines_enc (t : Ty) (v : Val) (w : BitIO.W) (ht : t.wf = true) (hw : w.ok = true) :
    (encW t v w).ok = true ∧ (encW t v w).logical = w.logical ++ enc t v w.off ∧
      (encW t v w).off = w.off + (enc t v w.off).length :=
  have h := encW_ws t v w ht hw
  ⟨h.1, h.2, h.off hw⟩

example : C06.exT.wf = true ∧ (BitIO.writeBits ⟨[], 0⟩ 5 3).ok = true := by decide +kernel
example : (encW C06.exT C06.exV (BitIO.writeBits ⟨[], 0⟩ 5 3)).logical
    = BitIO.natBits 3 5 ++ enc C06.exT C06.exV 3 := by decide +kernel

/-- What `finish()` returns after serialising from an empty writer: the stream encoding, zero-padded to a byte. -/
theorem C06.writer_finish (t : Ty) (v : Val) (ht : t.wf = true) :
    (encW t v ⟨[], 0⟩).buf = BitIO.pad8 (enc t v 0) :=
  encW_buf t v ht

/-- **Entry point.**  The bytes `serialize` produces by driving `_BitWriter` are the bits of the model's
    `serialize` (for composites the encoding is a whole number of bytes, so no padding is added). -/
theorem C06.serialize_bytes (t : Ty) (x : Inp) (hdr relaxed : Bool) (v : Val) (bits : List Bool)
    (ht : t.wf = true) (hc : t.isComposite = true) (h : serialize t x hdr relaxed = .ok (v, bits)) :
    serializeW t v hdr = bits := by
  have hb : bits = enc (if hdr = true then t else t.inner) v 0 := by
    unfold serialize at h
    split at h
    · cases h
    · cases relaxed
      · simp only [Bool.false_eq_true, if_false, bind_ok] at h
        obtain ⟨_, _, _, _, hd⟩ := h
        cases hd; rfl
      · simp only [if_true, bind_ok] at h
        obtain ⟨_, _, _, _, hd⟩ := h
        cases hd; rfl
  have ht' : (if hdr = true then t else t.inner).wf = true := by
    cases hdr
    · exact wf_inner t ht
    · exact ht
  have hc' : (if hdr = true then t else t.inner).isComposite = true := by
    cases hdr
    · simpa [isComposite_inner] using hc
    · exact hc
  rw [hb, serializeW, encW_buf _ v ht', pad8_of_mod _ (enc_composite_mod8 _ v hc')]

example : C06.exT.wf = true ∧ C06.exT.isComposite = true := by decide
example : ∃ v bits, serialize C06.exT (.dict [(0, .int 13), (3, .dict [(1, .dict [(1, .flt 0x3C00)])])]) false false
    = .ok (v, bits) := ⟨_, _, rfl⟩

/-- **Reader.**  For every well-formed type and every reader that satisfies the reader invariant `RInv` (the position
    is not before the start; a bounded reader's limit lies within the data), `_deserialize_*` driven over
    `_BitReader` has exactly the outcome of `Wire.dec` on the reader's stream view (offset, window): the same error,
    or the same value with the resulting reader being the same reader moved forward, its stream view being
    `Wire.dec`'s resulting stream, and the invariant holding again. -/
theorem C07.reader_refines_dec (t : Ty) (r : BitIO.Rd) (ht : t.wf = true) (hr : RInv r) :
    match decR t r with
    | .ok (v, r') =>
        dec t ⟨r.off, r.window⟩ = .ok (v, ⟨r'.off, r'.window⟩) ∧ RInv r' ∧
          r'.data = r.data ∧ r'.start = r.start ∧ r'.limit = r.limit ∧ r.off ≤ r'.off
    | .error e => dec t ⟨r.off, r.window⟩ = .error e := by
  have h := decR_sim t r ht hr
  cases hx : decR t r with
  | error e => rw [hx] at h; exact h
  | ok p =>
    obtain ⟨v, r'⟩ := p
    rw [hx] at h
    exact ⟨h.1, hr.follows h.2, h.2⟩

/-- a bounded sub-reader in the middle of a byte, as `bounded_subreader` creates them -/
example : RInv ⟨enc C06.exT C06.exV 0, 3, 5, some 40⟩ :=
  ⟨by decide, fun lim h => by cases h; decide +kernel⟩
example : (decR C06.exT ⟨enc C06.exT C06.exV 0, 0, 0, none⟩).toOption.map (·.2.off) = some 120 := by
  decide +kernel

/-- The invariant cannot be dropped: a bounded reader whose limit (64) lies beyond its data (36 bits) reports
    `remaining_bits` = 32 after the header although only 4 bits are left, so it accepts a header that the stream
    codec rejects.  (`deserialize` never creates such a reader: `bounded_subreader` is called only after the
    `remaining_bits` check, which is what `RInv` records.) -/
example :
    let r : BitIO.Rd := ⟨Wire.natBits 32 1 ++ Wire.natBits 4 0, 0, 0, some 64⟩
    let t : Ty := .struct [.uint 8 .sat] (.delimited 8)
    (match decR t r with | .ok _ => true | .error _ => false) = true ∧
    (match dec t ⟨r.off, r.window⟩ with | .error e => e == .delimiterHeader | .ok _ => false) = true := by
  decide +kernel

/-- The reader `deserialize` creates (`_BitReader(bytes(data))`) satisfies the invariant. -/
theorem C07.reader_invariant_initial (bits : List Bool) : RInv ⟨bits, 0, 0, none⟩ := rinv_initial bits

/-- **Entry point.**  `deserialize` driven over `_BitReader` returns exactly what the model's `deserialize` returns
    (value or error), for every input. -/
theorem C07.deserialize_bytes (t : Ty) (bits : List Bool) (hdr : Bool) (ht : t.wf = true) :
    deserializeR t bits hdr = deserialize t bits hdr := by
  unfold deserializeR deserialize
  split
  · rfl
  · have ht' : (if hdr = true then t else t.inner).wf = true := by
      cases hdr
      · exact wf_inner t ht
      · exact ht
    have h := decR_sim _ ⟨bits, 0, 0, none⟩ ht' (rinv_initial bits)
    rw [toR_initial] at h
    cases hx : decR (if hdr = true then t else t.inner) ⟨bits, 0, 0, none⟩ with
    | error e => rw [hx] at h; have h' : dec _ _ = .error e := h; rw [h']; rfl
    | ok p =>
      obtain ⟨v, r'⟩ := p
      rw [hx] at h
      rw [h.1]; rfl

example : deserializeR C06.exT (enc C06.exT C06.exV 0 ++ [true, false, true]) false = .ok C06.exV := by
  rw [C07.deserialize_bytes _ _ _ (by decide)]; rfl
/-- evaluated directly on the byte-buffer reader: the header announces more than `remaining_bits` -/
example : (match deserializeR (.struct [.uint 8 .sat] (.delimited 8)) (Wire.natBits 32 2 ++ Wire.natBits 8 7) true with
    | .error e => e == .delimiterHeader | .ok _ => false) = true := by decide +kernel

/-- Round trip at the level of the byte-buffer objects: what `serialize` writes through `_BitWriter`, followed by
    anything, is read back through `_BitReader` as the canonical value. -/
theorem C06.bytes_roundtrip (t : Ty) (x : Inp) (hdr relaxed : Bool) (v : Val) (bits junk : List Bool)
    (ht : t.wf = true) (hc : t.isComposite = true) (h : serialize t x hdr relaxed = .ok (v, bits)) :
    deserializeR t (serializeW t v hdr ++ junk) hdr = .ok v := by
  rw [C06.serialize_bytes t x hdr relaxed v bits ht hc h, C07.deserialize_bytes t _ hdr ht]
  exact C06.serialize_roundtrip t x hdr relaxed v bits junk ht h

/-! ### The single steps (what the refinement is built from) -/

/-- `read_bits(n)` is `R.read n` on the stream view. -/
theorem C07.read_bits_is_stream_read (r : BitIO.Rd) (n : ℕ) (h : r.start ≤ r.off) :
    (BitIO.readBits r n).1 = bitsNat ((toR r).read n).1 ∧ toR (BitIO.readBits r n).2 = ((toR r).read n).2 := by
  rw [readBits_pair r n h, read_toR r n h]; exact ⟨rfl, rfl⟩

/-- `_BitReader.align_to(a)` is `R.alignTo a` on the stream view. -/
theorem C07.align_to_is_stream_align (r : BitIO.Rd) (a : ℕ) (ha : 0 < a) (h : r.start ≤ r.off) :
    toR (r.alignTo a) = (toR r).alignTo a :=
  (toR_alignTo r a ha h).1

/-- `remaining_bits` is the length of the window, and `bounded_subreader(k)` for `k ≤ remaining_bits` sees the first
    `k` bits of the window (what `unwrapDelim` hands to the body) and satisfies the invariant again. -/
theorem C07.sub_reader_is_window_prefix (r : BitIO.Rd) (k : ℕ) (hr : RInv r) (hk : k ≤ r.remaining) :
    r.remaining = (toR r).s.length ∧ toR (r.sub k).1 = ⟨(toR r).off, (toR r).s.take k⟩ ∧ RInv (r.sub k).1 ∧
      toR (r.sub k).2 = ⟨(toR r).off + k, (toR r).s.drop k⟩ :=
  ⟨remaining_eq r hr, (toR_sub r k hr hk).1, (toR_sub r k hr hk).2, toR_adv r k hr.1⟩

/-- `_BitWriter.align_to(a)` appends `padLen off a` zero bits. -/
theorem C06.align_to_is_padLen (w : BitIO.W) (a : ℕ) (ha : 0 < a) (hw : w.ok = true) :
    (BitIO.alignTo w a).ok = true ∧ (BitIO.alignTo w a).logical = w.logical ++ zeros (padLen w.off a) :=
  ws_alignTo w a ha hw

example : (BitIO.alignTo (BitIO.writeBits ⟨[], 0⟩ 5 3) 8).logical = BitIO.natBits 3 5 ++ zeros (padLen 3 8) := by
  decide +kernel
