import Proofs.LayoutAlign
import Props.C01
/-!
# C08 — field offsets and in-language layout intrinsics equal the real bit positions

Positions are specified directly: in a structure the first field starts at the origin padded to the composite's
and the field's alignment; the next field starts where the previous one ended (start + any of its lengths)
padded to its own alignment.  All variants of a union start after the tag; a delimited type first adds its
header.  `_offset_` after `j` fields is the set of lengths of everything before that point, with no padding for
the next field.  The theorems relate the operator trees built by `iterate_fields_with_offsets`,
`enumerate_elements_with_offsets` and `DataSchemaBuilder.offset` (Model/Layout.lean) to these sets, for every
composite, every base offset set and every field position.
-/
open scoped Pointwise
open Bls Layout

namespace C08spec

/-- start positions of the fields of a structure whose first field may start at any element of `cur`
    (already padded to the composite's alignment) -/
def structStarts (cur : Finset ℕ) : List Ty → List (Finset ℕ)
  | [] => []
  | f :: fs =>
      let o := cur.image (padTo f.align)
      o :: structStarts (o + specLens f) fs

/-- the specified start positions of every field, for origin set `base` -/
def fieldStarts (base : Finset ℕ) : Ty → List (Finset ℕ)
  | .struct fs => structStarts (base.image (padTo 8)) fs
  | .union fs => fs.map fun _ => base.image (padTo 8) + {max (stdOf (fs.length - 1)) 8}
  | .delim (.struct fs) _ => structStarts ((base + {32}).image (padTo 8)) fs
  | .delim (.union fs) _ => fs.map fun _ => (base + {32}).image (padTo 8) + {max (stdOf (fs.length - 1)) 8}
  | _ => []

end C08spec
open C08spec

theorem den_structOffsetsFrom (fs : List Ty) (h : ∀ f ∈ fs, f.wf = true) (cur : Op) :
    (structOffsetsFrom cur fs).map den = structStarts (den cur) fs := by
  induction fs generalizing cur with
  | nil => simp [structOffsetsFrom, structStarts]
  | cons f fs ih =>
    simp only [structOffsetsFrom, structStarts, List.map_cons]
    rw [ih (fun x hx => h x (by simp [hx]))]
    simp only [den, denSum, den_bls f (h f (by simp))]
    rw [Finset.singleton_zero, add_zero]

/-- `iterate_fields_with_offsets` yields every field exactly once, in order, with exactly the specified set of
    start positions — for every composite and every base offset set. -/
theorem C08.field_offsets_exact (t : Ty) (h : t.wf = true) (base : Op) :
    (fieldOffsets base t).map den = fieldStarts (den base) t := by
  cases t with
  | prim n => rfl
  | void n => rfl
  | farr e c => rfl
  | varr e c => rfl
  | struct fs =>
    simp only [Ty.wf, wfList_iff] at h
    simp only [fieldOffsets, fieldStarts, comp_align]
    rw [den_structOffsetsFrom fs h]; rfl
  | union fs =>
    have ht := h
    simp only [Ty.wf, Bool.and_eq_true, decide_eq_true_eq] at ht
    simp only [fieldOffsets, fieldStarts, comp_align, List.map_map]
    apply List.map_congr_left
    intro _ _
    simp only [Function.comp, den, denSum, List.toFinset_cons, List.toFinset_nil, insert_empty_eq,
      tagBits_eq fs ht.2]
    rw [Finset.singleton_zero, add_zero]
  | delim inner ext =>
    have hw := h
    simp only [Ty.wf, Bool.and_eq_true, decide_eq_true_eq] at hw
    obtain ⟨⟨⟨hin, hk⟩, _⟩, _⟩ := hw
    cases inner with
    | struct fs =>
      simp only [Ty.wf, wfList_iff] at hin
      simp only [fieldOffsets, fieldStarts, comp_align, hdrBits, Ty.align]
      rw [den_structOffsetsFrom fs hin]
      simp only [den, denSum, List.toFinset_cons, List.toFinset_nil, insert_empty_eq]
      rw [Finset.singleton_zero, add_zero]; rfl
    | union fs =>
      have ht := hin
      simp only [Ty.wf, Bool.and_eq_true, decide_eq_true_eq] at ht
      simp only [fieldOffsets, fieldStarts, comp_align, hdrBits, Ty.align, List.map_map]
      apply List.map_congr_left
      intro _ _
      simp only [Function.comp, den, denSum, List.toFinset_cons, List.toFinset_nil, insert_empty_eq,
        tagBits_eq fs ht.2]
      rw [Finset.singleton_zero, add_zero, add_zero]; rfl
    | prim n => simp at hk
    | void n => simp at hk
    | farr e c => simp at hk
    | varr e c => simp at hk
    | delim i e => simp at hk

/-- One offset per field: none missing, none duplicated. -/
theorem C08.one_offset_per_field (base : Op) (fs : List Ty) :
    (fieldOffsets base (.struct fs)).length = fs.length ∧ (fieldOffsets base (.union fs)).length = fs.length := by
  constructor
  · simp only [fieldOffsets]
    generalize (Op.pad base (max 8 (maxAlign fs))) = cur
    induction fs generalizing cur with
    | nil => rfl
    | cons f fs ih => simp [structOffsetsFrom, ih]
  · simp [fieldOffsets]

/-- All variants of a union share one offset: base padded to the union's alignment plus the tag width. -/
theorem C08.union_variants_share_offset (base : Op) (fs : List Ty) :
    ∀ o ∈ fieldOffsets base (.union fs), o = .cat [.pad base (max 8 (maxAlign fs)), .leaf [tagBits fs]] := by
  intro o ho
  simp only [fieldOffsets, List.mem_map] at ho
  obtain ⟨_, _, rfl⟩ := ho
  rfl

/-- A delimited type adds its header to the base and then behaves like the wrapped composite. -/
theorem C08.delimited_adds_header (base : Op) (inner : Ty) (ext : ℕ)
    (hk : (∃ fs, inner = .struct fs) ∨ (∃ fs, inner = .union fs)) :
    (fieldOffsets base (.delim inner ext)).map den
      = (fieldOffsets (.cat [base, .leaf [hdrBits inner]]) inner).map den := by
  rcases hk with ⟨fs, rfl⟩ | ⟨fs, rfl⟩ <;> rfl

/-- running positions of `structStarts` are the lengths of everything before (`specSeq`) -/
theorem structStarts_get (fs : List Ty) (cur : Finset ℕ) (j : ℕ) (hj : j < fs.length) :
    (structStarts cur fs)[j]? = some ((specSeq cur (fs.take j)).image (padTo (fs[j]).align)) := by
  induction fs generalizing cur j with
  | nil => simp at hj
  | cons f fs ih =>
    cases j with
    | zero => simp [structStarts, specSeq]
    | succ j =>
      simp only [structStarts, List.getElem?_cons_succ, List.take_succ_cons, specSeq, List.getElem_cons_succ]
      exact ih _ j (by simpa using hj)

/-- `_offset_` evaluated after `j` fields of a structure is the set of lengths of everything before that point
    (no padding for the next field), and the API offset of field `j` (base `{0}`) is that set padded to the
    field's alignment: the intrinsic and `iterate_fields_with_offsets` agree. -/
theorem C08.offset_intrinsic_struct (fs : List Ty) (h : ∀ f ∈ fs, f.wf = true) (j : ℕ) (hj : j < fs.length) :
    den (offsetIntrinsic false (fs.take j)) = specSeq {0} (fs.take j) ∧
    ((fieldOffsets (.leaf [0]) (.struct fs)).map den)[j]?
      = some ((den (offsetIntrinsic false (fs.take j))).image (padTo (fs[j]).align)) := by
  have h1 : den (offsetIntrinsic false (fs.take j)) = specSeq {0} (fs.take j) := by
    simp only [offsetIntrinsic, Bool.false_eq_true, if_false]
    exact den_aggStruct _ fun f hf => den_bls f (h f (List.mem_of_mem_take hf))
  refine ⟨h1, ?_⟩
  rw [C08.field_offsets_exact (.struct fs) (by simpa [Ty.wf, wfList_iff] using h), h1]
  simp only [fieldStarts, den, List.toFinset_cons, List.toFinset_nil, insert_empty_eq, Finset.image_singleton,
    padTo_zero 8 (by omega)]
  exact structStarts_get fs {0} j hj

/-- After the last field of a structure `_offset_` is the unpadded length set, whose padding to a byte is the
    structure's bit length set. -/
theorem C08.offset_intrinsic_total (fs : List Ty) (h : ∀ f ∈ fs, f.wf = true) :
    specLens (.struct fs) = (den (offsetIntrinsic false fs)).image (padTo 8) := by
  simp only [offsetIntrinsic, Bool.false_eq_true, if_false, specLens]
  rw [den_aggStruct fs fun f hf => den_bls f (h f hf)]

/-- After the last variant of a union `_offset_` is tag + union of the variants. -/
theorem C08.offset_intrinsic_union (fs : List Ty) (h : (Ty.union fs).wf = true) :
    den (offsetIntrinsic true fs) = {tagBits fs} + specUnion fs ∧
    specLens (.union fs) = (den (offsetIntrinsic true fs)).image (padTo 8) := by
  have hw := h
  simp only [Ty.wf, Bool.and_eq_true, decide_eq_true_eq, wfList_iff] at hw
  obtain ⟨⟨hf, hl⟩, ht⟩ := hw
  have h1 : den (offsetIntrinsic true fs) = {tagBits fs} + specUnion fs := by
    match fs, hl with
    | f :: g :: fs, _ =>
      simp only [offsetIntrinsic, if_true, aggUnion, den, denSum, List.toFinset_cons, List.toFinset_nil,
        insert_empty_eq]
      rw [denUnion_blsList _ fun x hx => den_bls x (hf x hx), Finset.singleton_zero, add_zero]
  refine ⟨h1, ?_⟩
  rw [h1, tagBits_eq fs ht]; rfl

/-- `T._bit_length_` is `T.bit_length_set` (both are the Specification's set) and `T._extent_` is `T.extent`
    (the intrinsics read the same attributes; stated here for the model's expansion). -/
theorem C08.bit_length_intrinsic (t : Ty) (h : t.wf = true) : (t.bls.expand).toFinset = specLens t := by
  rw [Bls.expand_exact, den_bls t h]

/-- Elements of a fixed-length array: element `i` starts at the padded base plus `i` element lengths; one offset
    per index, in order. -/
theorem C08.element_offsets_exact (base : Op) (e : Ty) (cap : ℕ) (h : e.wf = true) :
    (elementOffsets base e cap).length = cap ∧
    ∀ i (hi : i < cap), ((elementOffsets base e cap).map den)[i]?
      = some ((den base).image (padTo e.align) + i • specLens e) := by
  refine ⟨by simp [elementOffsets], ?_⟩
  intro i hi
  simp only [elementOffsets, List.map_map, List.getElem?_map, List.getElem?_range hi, Option.map_some,
    Function.comp, den, denSum, den_bls e h]
  rw [Finset.singleton_zero, add_zero]

/-- Every offset handed out for a field is aligned to that field's alignment requirement (the `assert`s in the
    iterators cannot fire). -/
theorem C08.offsets_aligned (fs : List Ty) (cur : Finset ℕ) (j : ℕ) (hj : j < fs.length) :
    ∀ s, (structStarts cur fs)[j]? = some s → ∀ x ∈ s, (fs[j]).align ∣ x := by
  intro s hs x hx
  rw [structStarts_get fs cur j hj] at hs
  cases hs
  obtain ⟨y, _, rfl⟩ := Finset.mem_image.mp hx
  exact padTo_dvd _ _

/-! ### Non-vacuity -/
example : (Ty.struct [.prim 3, .varr (.struct [.prim 8]) 300, .void 5]).wf = true := by decide +kernel
