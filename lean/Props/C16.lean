import Proofs.BlsCost
import Proofs.LayoutAlign
/-!
# C16 — layout analysis is symbolic: cost does not grow with capacities or extents

"Time" is not a Lean notion; the model counts the integers that pass through `itertools.product`,
`itertools.combinations_with_replacement` and the iteration over leaf value sets while a residue query
`modulo d` is answered (`Op.cost`, Model/Bls.lean; `min`/`max`/`extent`/`fixed_length` enumerate nothing, and
alignment, `==` and `hash` are residue queries for d = 8 / 32 plus min/max).  The cost is bounded by `Op.bound`,
a function that never inspects a repetition count or a leaf value; array capacities and extents enter a type's
bit length set expression only as repetition counts and leaf values, so the bound is the same for all types of
one shape.
-/
open scoped Pointwise
open Bls Layout

/-- The enumeration cost of any residue query is bounded by the count-blind bound. -/
theorem C16.cost_bounded (o : Op) (h : o.wf = true) (d : ℕ) (hd : 1 ≤ d) : o.cost d ≤ o.bound d :=
  cost_le_bound o h d hd

/-- No set larger than the divisor in force is ever handed to an enumeration. -/
theorem C16.residue_sets_small (o : Op) (h : o.wf = true) (d : ℕ) (hd : 1 ≤ d) : (o.modulo d).length ≤ d :=
  modulo_length_le o h d hd

namespace C16
mutual
/-- forget repetition counts and leaf values (keep the number of leaf values) -/
def skeleton : Op → Op
  | .leaf vs => .leaf (List.replicate vs.length 0)
  | .pad c a => .pad (skeleton c) a
  | .cat cs => .cat (skeletons cs)
  | .rep c _ => .rep (skeleton c) 0
  | .rrep c _ => .rrep (skeleton c) 0
  | .uni cs => .uni (skeletons cs)
def skeletons : List Op → List Op
  | [] => []
  | c :: cs => skeleton c :: skeletons cs
end
end C16
open C16

theorem skeletons_eq (cs : List Op) : skeletons cs = cs.map skeleton := by
  induction cs with
  | nil => rfl
  | cons c cs ih => simp [skeletons, ih]

/-- The bound depends on the skeleton only: it is blind to repetition counts and to the values in the leaves. -/
theorem C16.bound_blind (o : Op) : ∀ d, o.bound d = (skeleton o).bound d := by
  induction o using Op.induct with
  | leaf vs => intro d; simp [skeleton, Op.bound]
  | pad c a ih => intro d; simp [skeleton, Op.bound, ih]
  | cat cs ih =>
    intro d
    simp only [skeleton, Op.bound, bounds_eq, skeletons_eq, List.map_map, List.length_map]
    congr 2
    apply List.map_congr_left
    intro c hc; exact ih c hc d
  | rep c k ih => intro d; simp [skeleton, Op.bound, ih]
  | rrep c k ih => intro d; simp [skeleton, Op.bound, ih]
  | uni cs ih =>
    intro d
    simp only [skeleton, Op.bound, bounds_eq, skeletons_eq, List.map_map, List.length_map]
    congr 2
    apply List.map_congr_left
    intro c hc; exact ih c hc d

mutual
/-- Two types of the same shape: equal up to primitive widths, array capacities and extents. -/
inductive SameShape : Ty → Ty → Prop
  | prim (n m) : SameShape (.prim n) (.prim m)
  | void (n m) : SameShape (.void n) (.void m)
  | farr {e e'} (c c') : SameShape e e' → SameShape (.farr e c) (.farr e' c')
  | varr {e e'} (c c') : SameShape e e' → SameShape (.varr e c) (.varr e' c')
  | struct {fs fs'} : SameShapes fs fs' → SameShape (.struct fs) (.struct fs')
  | union {fs fs'} : SameShapes fs fs' → SameShape (.union fs) (.union fs')
  | delim {i i'} (x x') : SameShape i i' → SameShape (.delim i x) (.delim i' x')
inductive SameShapes : List Ty → List Ty → Prop
  | nil : SameShapes [] []
  | cons {f f' fs fs'} : SameShape f f' → SameShapes fs fs' → SameShapes (f :: fs) (f' :: fs')
end

def skelSigs (fs : List Ty) : List (ℕ × Op) := fs.map fun f => (f.align, skeleton f.bls)

theorem skel_aggStructFrom (fs gs : List Ty) (h : skelSigs fs = skelSigs gs) (a b : Op) (hab : skeleton a = skeleton b) :
    skeleton (aggStructFrom a fs) = skeleton (aggStructFrom b gs) := by
  induction fs generalizing gs a b with
  | nil => cases gs with
    | nil => simpa [aggStructFrom]
    | cons g gs => simp [skelSigs] at h
  | cons f fs ih =>
    cases gs with
    | nil => simp [skelSigs] at h
    | cons g gs =>
      simp only [skelSigs, List.map_cons, List.cons.injEq, Prod.mk.injEq] at h
      simp only [aggStructFrom]
      apply ih gs h.2
      simp [skeleton, skeletons, hab, h.1.1, h.1.2]

theorem skel_maxAlign (fs gs : List Ty) (h : skelSigs fs = skelSigs gs) : maxAlign fs = maxAlign gs := by
  apply maxAlign_congr'
  have := congrArg (List.map Prod.fst) h
  simp only [skelSigs, List.map_map] at this
  exact this
where
  maxAlign_congr' {fs gs : List Ty} (h : fs.map Ty.align = gs.map Ty.align) : maxAlign fs = maxAlign gs := by
    induction fs generalizing gs with
    | nil => cases gs with
      | nil => rfl
      | cons g gs => simp at h
    | cons f fs ih =>
      cases gs with
      | nil => simp at h
      | cons g gs =>
        simp only [List.map_cons, List.cons.injEq] at h
        simp [maxAlign, h.1, ih h.2]

theorem skel_blsList (fs gs : List Ty) (h : skelSigs fs = skelSigs gs) : skeletons (blsList fs) = skeletons (blsList gs) := by
  have := congrArg (List.map Prod.snd) h
  simp only [skelSigs, List.map_map] at this
  rw [skeletons_eq, skeletons_eq, blsList_eq, blsList_eq, List.map_map, List.map_map]
  exact this

mutual
/-- Types of the same shape get bit length set expressions with the same skeleton (and the same alignment). -/
theorem sameShape_skeleton : ∀ {t t' : Ty}, SameShape t t' → skeleton t.bls = skeleton t'.bls ∧ t.align = t'.align
  | _, _, .prim n m => ⟨by simp [Ty.bls, skeleton], rfl⟩
  | _, _, .void n m => ⟨by simp [Ty.bls, skeleton], rfl⟩
  | _, _, .farr c c' h => by
      obtain ⟨h1, h2⟩ := sameShape_skeleton h
      exact ⟨by simp [Ty.bls, skeleton, h1], by simp [Ty.align, h2]⟩
  | _, _, .varr c c' h => by
      obtain ⟨h1, h2⟩ := sameShape_skeleton h
      exact ⟨by simp [Ty.bls, skeleton, skeletons, h1], by simp [Ty.align, h2]⟩
  | _, _, .struct (fs := fs) (fs' := fs') h => by
      have hs := sameShapes_sigs h
      have ha := skel_maxAlign fs fs' hs
      refine ⟨?_, by simp [Ty.align, ha]⟩
      simp only [Ty.bls, skeleton, ha]
      congr 1
      cases fs with
      | nil => cases fs' with
        | nil => rfl
        | cons g gs => simp [skelSigs] at hs
      | cons f fs =>
        cases fs' with
        | nil => simp [skelSigs] at hs
        | cons g gs =>
          simp only [skelSigs, List.map_cons, List.cons.injEq, Prod.mk.injEq] at hs
          simp only [aggStruct]
          exact skel_aggStructFrom fs gs hs.2 _ _ hs.1.2
  | _, _, .union (fs := fs) (fs' := fs') h => by
      have hs := sameShapes_sigs h
      have ha := skel_maxAlign fs fs' hs
      have hb := skel_blsList fs fs' hs
      have hl : fs.length = fs'.length := by
        have := congrArg List.length hs; simpa [skelSigs] using this
      refine ⟨?_, by simp [Ty.align, ha]⟩
      simp only [Ty.bls, skeleton, ha]
      congr 1
      match fs, fs', hl with
      | [], [], _ => rfl
      | [f], [g], _ =>
        simp only [skelSigs, List.map_cons, List.cons.injEq, Prod.mk.injEq] at hs
        simp [aggUnion, hs.1.2]
      | f :: f2 :: fs, g :: g2 :: gs, _ =>
        simp only [aggUnion, skeleton, skeletons, hb]
        simp
  | _, _, .delim x x' h => by
      obtain ⟨_, h2⟩ := sameShape_skeleton h
      exact ⟨by simp [Ty.bls, skeleton, skeletons], by simp [Ty.align, h2]⟩
theorem sameShapes_sigs : ∀ {fs fs' : List Ty}, SameShapes fs fs' → skelSigs fs = skelSigs fs'
  | _, _, .nil => rfl
  | _, _, .cons h hs => by
      obtain ⟨h1, h2⟩ := sameShape_skeleton h
      have ih := sameShapes_sigs hs
      simp only [skelSigs] at ih ⊢
      simp [h1, h2, ih]
end

/-- **Capacity / extent independence.**  For every type the constructors accept, the enumeration cost of any
    residue query on its bit length set is bounded by a number that is the same for all types of the same
    shape — whatever the array capacities, extents and primitive widths are. -/
theorem C16.type_cost_independent_of_capacities (t t' : Ty) (h : t.wf = true) (hs : SameShape t t')
    (d : ℕ) (hd : 1 ≤ d) : t.bls.cost d ≤ t'.bls.bound d := by
  have h1 := cost_le_bound t.bls (bls_wf t h) d hd
  rw [C16.bound_blind t.bls d, (sameShape_skeleton hs).1, ← C16.bound_blind t'.bls d] at h1
  exact h1

/-! ### Non-vacuity: uint8[<=2**63] nested in a delimited struct has the shape of uint8[<=2] in the same struct -/
example : SameShape (.delim (.struct [.varr (.prim 8) (2 ^ 63), .farr (.prim 3) (2 ^ 40)]) (2 ^ 70))
                    (.delim (.struct [.varr (.prim 8) 2, .farr (.prim 3) 1]) 64) :=
  .delim _ _ (.struct (.cons (.varr _ _ (.prim _ _)) (.cons (.farr _ _ (.prim _ _)) .nil)))
