import Proofs.Reader
import Proofs.ReaderDocs
/-!
C03 — the model mirrors the source text, independent of formatting.

All statements are about `Reader.readText` (lean/Model/Reader.lean), the model of `_parser.parse` +
`DataTypeBuilder` + `finalize` for one definition text given as a list of abstract lines; they hold for every
context (any behaviour of referenced definitions), every document and every initial world.  `Spec.of ls` is the
declarative reading of the statement list (lean/Proofs/Reader.lean): attribute statements in source order, fields and
paddings in one list, constants in the other, flags as written, `---` splitting request and response.
-/
open Reader

/-- An accepted definition yields exactly its statements: per schema the field and padding statements in source
    order and the constant statements in source order, each exactly once with kind, name, type and value; the union
    flag, the serialization mode, the deprecation flag and the request/response split as written. -/
theorem C03.mirror (c : Ctx) (ls : List Line) (w w' : W) (comp : Composite)
    (h : readText c ls w = .ok (comp, w')) :
    comp.schemas.map Schema.view = (Spec.of ls).schemas ∧ comp.deprecated = (Spec.of ls).deprecated :=
  readText_mirror h

/-- … with its attached comment: in an accepted text (lines well-formed: an empty line holds neither a statement nor a
    comment) every attribute carries exactly the comment run that follows its statement — its trailing comment and the
    comments of the following lines up to the next statement or empty line (`attrDocs`) —, fields/paddings and constants
    each in source order, and every schema carries the comment run at its start (`commentRun`, `markerDocs`).
    No comment is lost into a neighbouring attribute, none is attached twice. -/
theorem C03.docs (c : Ctx) (ls : List Line) (w w' : W) (comp : Composite)
    (hwf : ∀ l ∈ ls, l.wf) (h : readText c ls w = .ok (comp, w')) :
    comp.schemas.flatMap (fun sc => sc.fields.map fun a => (a.core, a.doc)) = (attrDocs ls).filter (fun p => !isConst p) ∧
    comp.schemas.flatMap (fun sc => sc.consts.map fun a => (a.core, a.doc)) = (attrDocs ls).filter isConst ∧
    comp.schemas.map (·.doc) = commentRun "" ls :: markerDocs ls :=
  readText_docs hwf h

/-- Presence or absence of the final newline: an additional empty last line changes neither acceptance nor the
    result (docs included). -/
theorem C03.final_newline (c : Ctx) (ls : List Line) (w : W) (crlf : Bool) :
    okPart (readText c (ls ++ [emptyLine crlf]) w) = okPart (readText c ls w) :=
  readText_final_newline c ls w crlf

/-- LF vs CR LF: the line terminator is not looked at. -/
theorem C03.crlf (c : Ctx) (ls : List Line) (w : W) (b : Bool) :
    readText c (ls.map fun l => { l with crlf := b }) w = readText c ls w :=
  readText_crlf c ls w b

/-- Full statement about extra comment / blank lines: inserting a line without a statement anywhere changes neither
    acceptance nor the model up to doc strings. -/
def C03.blank_comment_lines_statement : Prop :=
  ∀ (c : Ctx) (ls₁ ls₂ : List Line) (l : Line) (w : W), l.stmt = none → l.fault = none →
    (okPart (readText c (ls₁ ++ l :: ls₂) w)).map (fun r => (r.1.schemas.map Schema.view, r.1.deprecated)) =
    (okPart (readText c (ls₁ ++ ls₂) w)).map (fun r => (r.1.schemas.map Schema.view, r.1.deprecated))

/-- Proved part: when both texts are accepted, the models are equal up to doc strings (acceptance itself is compared
    by the correspondence suite only). -/
theorem C03.blank_comment_lines_partial (c : Ctx) (ls₁ ls₂ : List Line) (l : Line) (w w₁ w₂ : W) (c₁ c₂ : Composite)
    (hl : l.stmt = none)
    (h₁ : readText c (ls₁ ++ l :: ls₂) w = .ok (c₁, w₁)) (h₂ : readText c (ls₁ ++ ls₂) w = .ok (c₂, w₂)) :
    c₁.schemas.map Schema.view = c₂.schemas.map Schema.view ∧ c₁.deprecated = c₂.deprecated := by
  have a := readText_mirror h₁
  have b := readText_mirror h₂
  rw [Spec.of_insert ls₁ ls₂ l hl] at a
  exact ⟨a.1.trans b.1.symm, a.2.trans b.2.symm⟩

namespace C03.Examples
def ctx : Ctx := ⟨0, 0, 1, fun w _ => (w, none), false⟩
def ln (s : Option Stmt) (c : Option String := none) (e : Bool := false) : Line := ⟨s, [], [], false, none, c, e, false, 0⟩
def fld (n : String) (c : Option String := none) : Line := ln (some (.attr ⟨.field, n, "saturated uint8", ""⟩)) c
def dir (n : String) (e : Option EVal := none) : Line := ln (some (.directive n e ""))
/-- `# hdr`, ``, `uint8 a # da`, `# da2`, `void3`, `uint8 B = 3 # c`, `@extent 64`, `---`, `@union`, `uint8 x`,
    `uint8 y` (last line, no newline), response not sealed -> rejected; with `@sealed` accepted -/
def svc : List Line :=
  [ln none (some " hdr"), ln none none true, fld "a" (some " da"), ln none (some " da2"),
   ln (some (.attr ⟨.padding, "", "void3", ""⟩)), ln (some (.attr ⟨.const, "B", "saturated uint8", "3"⟩)) (some " c"),
   dir "extent" (some (.rational 64)), ln (some .marker), dir "union", dir "sealed", fld "x", fld "y" (some "last")]
end C03.Examples

open C03.Examples in
/-- non-vacuity: a service with header comment, docs, padding, constant, `@extent`, a union response whose last line is
    an attribute without final newline is accepted, and the result is the one `C03.mirror` describes -/
example : ∃ comp w', readText ctx svc W.init = .ok (comp, w') ∧
    comp.schemas.map Schema.view =
      [⟨[⟨.field, "a", "saturated uint8", ""⟩, ⟨.padding, "", "void3", ""⟩], [⟨.const, "B", "saturated uint8", "3"⟩], false, some (.extent 64)⟩,
       ⟨[⟨.field, "x", "saturated uint8", ""⟩, ⟨.field, "y", "saturated uint8", ""⟩], [], true, some .sealed⟩] ∧
    comp.schemas.map (·.doc) = ["hdr", ""] ∧
    comp.schemas.map (fun s => s.fields.map (·.doc)) = [["da\nda2", ""], ["", "last"]] := by
  have h : (okPart (readText ctx svc W.init)).isSome = true := by decide
  cases hr : readText ctx svc W.init with
  | error e => rw [hr] at h; simp [okPart] at h
  | ok r =>
    refine ⟨r.1, r.2, rfl, ?_⟩
    have h2 : okPart (readText ctx svc W.init) = some r := by rw [hr]; rfl
    have h3 : ∀ r', okPart (readText ctx svc W.init) = some r' →
        r'.1.schemas.map Schema.view =
          [⟨[⟨.field, "a", "saturated uint8", ""⟩, ⟨.padding, "", "void3", ""⟩], [⟨.const, "B", "saturated uint8", "3"⟩], false, some (.extent 64)⟩,
           ⟨[⟨.field, "x", "saturated uint8", ""⟩, ⟨.field, "y", "saturated uint8", ""⟩], [], true, some .sealed⟩] ∧
        r'.1.schemas.map (·.doc) = ["hdr", ""] ∧
        r'.1.schemas.map (fun s => s.fields.map (·.doc)) = [["da\nda2", ""], ["", "last"]] := by decide
    exact h3 r h2

open C03.Examples in
/-- non-vacuity of `final_newline` / `blank_comment_lines_partial`: both sides are accepted texts -/
example : (okPart (readText ctx (svc ++ [emptyLine false]) W.init)).isSome = true ∧
    (okPart (readText ctx ([fld "a"] ++ ln none (some " c") :: [dir "sealed"]) W.init)).isSome = true ∧
    (okPart (readText ctx ([fld "a"] ++ [dir "sealed"]) W.init)).isSome = true := by decide

open C03.Examples in
/-- non-vacuity of `C03.docs`: the lines of the example are well-formed, and the declarative docs are the expected ones -/
example : (∀ l ∈ svc, l.wf) ∧
    (attrDocs svc).map (·.2) = ["da\nda2", "", "c", "", "last"] ∧ commentRun "" svc :: markerDocs svc = ["hdr", ""] := by
  refine ⟨?_, by decide, by decide⟩
  intro l hl
  simp [svc, ln, fld, dir] at hl
  rcases hl with rfl | rfl | rfl | rfl | rfl | rfl | rfl | rfl | rfl | rfl | rfl | rfl <;> simp [Line.wf]
