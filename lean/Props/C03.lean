import Proofs.Reader
import Proofs.ReaderDocs
import Proofs.ReaderFormatNs
import Proofs.ReaderDocsSchema
/-!
C03 — the model mirrors the source text, independent of formatting.

All statements are about `Reader.readText` (lean/Model/Reader.lean), the model of `_parser.parse` +
`DataTypeBuilder` + `finalize` for one definition text given as a list of abstract lines; they hold for every
context (any behaviour of referenced definitions), every document and every initial world.  `Spec.of ls` is the
declarative reading of the statement list (lean/Proofs/Reader.lean): attribute statements in source order, fields and
paddings in one list, constants in the other, flags as written, `---` splitting request and response.
-/
open Reader

/-- An accepted definition yields exactly its statements: per schema the field and padding statements in source
    order and the constant statements in source order, each exactly once with kind, name, type and value; the union
    flag, the serialization mode, the deprecation flag and the request/response split as written. -/
theorem C03.mirror (c : Ctx) (ls : List Line) (w w' : W) (comp : Composite)
    (h : readText c ls w = .ok (comp, w')) :
    comp.schemas.map Schema.view = (Spec.of ls).schemas ∧ comp.deprecated = (Spec.of ls).deprecated :=
  readText_mirror h

/-- … with its attached comment: in an accepted text (lines well-formed: an empty line holds neither a statement nor a
    comment) every attribute carries exactly the comment run that follows its statement — its trailing comment and the
    comments of the following lines up to the next statement or empty line (`attrDocs`) —, fields/paddings and constants
    each in source order, and every schema carries the comment run at its start (`commentRun`, `markerDocs`).
    No comment is lost into a neighbouring attribute, none is attached twice. -/
theorem C03.docs (c : Ctx) (ls : List Line) (w w' : W) (comp : Composite)
    (hwf : ∀ l ∈ ls, l.wf) (h : readText c ls w = .ok (comp, w')) :
    comp.schemas.flatMap (fun sc => sc.fields.map fun a => (a.core, a.doc)) = (attrDocs ls).filter (fun p => !isConst p) ∧
    comp.schemas.flatMap (fun sc => sc.consts.map fun a => (a.core, a.doc)) = (attrDocs ls).filter isConst ∧
    comp.schemas.map (·.doc) = commentRun "" ls :: markerDocs ls :=
  readText_docs hwf h

/-- … per schema — the comment-attachment rule in full: a comment line (or trailing comment) belongs to the closest
    statement in front of it that no statement and no empty line separates from it; attached to an attribute statement it
    is that attribute's doc, attached to `---` (resp. to the start of the text) it is the doc of the response (resp.
    request / message) schema; comments behind an empty line or behind a directive are dropped.  `attrDocs ls` lists every
    attribute statement with its run; the i-th schema gets the i-th piece, cut where the statements say the schemas end
    (`Spec.of ls`, see `C03.mirror`).  Together with `C03.mirror` this determines the whole composite from the text. -/
theorem C03.docs_per_schema (c : Ctx) (ls : List Line) (w w' : W) (comp : Composite)
    (hwf : ∀ l ∈ ls, l.wf) (h : readText c ls w = .ok (comp, w')) :
    comp.schemas.map (fun sc => sc.fields.map fun a => (a.core, a.doc)) =
      splitLengths ((Spec.of ls).schemas.map (·.fields.length)) ((attrDocs ls).filter (fun p => !isConst p)) ∧
    comp.schemas.map (fun sc => sc.consts.map fun a => (a.core, a.doc)) =
      splitLengths ((Spec.of ls).schemas.map (·.consts.length)) ((attrDocs ls).filter isConst) ∧
    comp.schemas.map (·.doc) = commentRun "" ls :: markerDocs ls :=
  readText_docs_schema hwf h

/-- Presence or absence of the final newline: an additional empty last line changes neither acceptance nor the
    result (docs included). -/
theorem C03.final_newline (c : Ctx) (ls : List Line) (w : W) (crlf : Bool) :
    okPart (readText c (ls ++ [emptyLine crlf]) w) = okPart (readText c ls w) :=
  readText_final_newline c ls w crlf

/-- LF vs CR LF: the line terminator is not looked at. -/
theorem C03.crlf (c : Ctx) (ls : List Line) (w : W) (b : Bool) :
    readText c (ls.map fun l => { l with crlf := b }) w = readText c ls w :=
  readText_crlf c ls w b

/-- Statement about extra comment / blank lines as it was first written down: inserting a line without a statement
    anywhere changes neither acceptance nor the model up to doc strings — for EVERY context and EVERY abstract line.
    In this generality it is false of the model (`C03.blank_comment_lines_statement_false`), for two reasons that no
    text can trigger; with the two side conditions it is `C03.blank_comment_lines`. -/
def C03.blank_comment_lines_statement : Prop :=
  ∀ (c : Ctx) (ls₁ ls₂ : List Line) (l : Line) (w : W), l.stmt = none → l.fault = none →
    (okPart (readText c (ls₁ ++ l :: ls₂) w)).map (fun r => (r.1.schemas.map Schema.view, r.1.deprecated)) =
    (okPart (readText c (ls₁ ++ ls₂) w)).map (fun r => (r.1.schemas.map Schema.view, r.1.deprecated))

/-- Proved part without side conditions: when both texts are accepted, the models are equal up to doc strings. -/
theorem C03.blank_comment_lines_partial (c : Ctx) (ls₁ ls₂ : List Line) (l : Line) (w w₁ w₂ : W) (c₁ c₂ : Composite)
    (hl : l.stmt = none)
    (h₁ : readText c (ls₁ ++ l :: ls₂) w = .ok (c₁, w₁)) (h₂ : readText c (ls₁ ++ ls₂) w = .ok (c₂, w₂)) :
    c₁.schemas.map Schema.view = c₂.schemas.map Schema.view ∧ c₁.deprecated = c₂.deprecated := by
  have a := readText_mirror h₁
  have b := readText_mirror h₂
  rw [Spec.of_insert ls₁ ls₂ l hl] at a
  exact ⟨a.1.trans b.1.symm, a.2.trans b.2.symm⟩

/-- What of an outcome C03 compares "up to doc strings": accepted or not; per schema the fields / paddings in source
    order and the constants in source order (kind, name, type, value), the union flag, the serialization mode; the
    deprecation flag; one schema for a message, two (request, response) for a service. -/
def C03.obs (r : Option (Composite × W)) : Option (List SegSpec × Bool) :=
  r.map fun r => (r.1.schemas.map Schema.view, r.1.deprecated)

theorem C03.obs_of_fmtSim {E : W → W → Prop} {x y : Option (Composite × W)} (h : FmtSim E x y) : C03.obs x = C03.obs y := by
  match x, y, h with
  | none, none, _ => rfl
  | some (a, wa), some (b, wb), h => simp [C03.obs, h.1, h.2.1]

/-- **Acceptance and the model are a function of the statement sequence.**  For a document whose lines are well formed
    (`Line.offsWf`: `_offset_` is evaluated through an identifier — true of every rendered text) and a context that does
    not look at `@print` line numbers (`Ctx.lineBlind`: true of every context the namespace reader builds,
    `C03.namespace_contexts_lineBlind`), `readText` accepts exactly when the declarative reading `aRead` of the statement
    sequence `items ls` does — every attribute added the moment it is read, every check made on the statements in front,
    no queue, no comments, no line numbers — and then the schemas (up to docs), the deprecation flag and the world
    (`@print` deliveries up to their line, cache up to docs) are the ones `aRead` gives. -/
theorem C03.statement_sequence (c : Ctx) (hc : c.lineBlind) (ls : List Line) (hwf : ∀ l ∈ ls, l.offsWf) (w : W) :
    ResSim W.sim (okPart (readText c ls w)) (aRead c (items ls) w) :=
  readText_abs W.sim_print hc ls hwf (W.sim_refl w)

/-- **Formatting independence.**  Two documents with the same statement sequence — whatever their line structure: blank
    and empty lines, comment lines, trailing comments, a final newline or none, LF or CR LF, string literals continued
    over several physical lines — are both rejected, or both accepted with the same model up to doc strings. -/
theorem C03.formatting_independence (c : Ctx) (hc : c.lineBlind) (ls₁ ls₂ : List Line)
    (hwf₁ : ∀ l ∈ ls₁, l.offsWf) (hwf₂ : ∀ l ∈ ls₂, l.offsWf) (hit : items ls₁ = items ls₂) (w : W) :
    C03.obs (okPart (readText c ls₁ w)) = C03.obs (okPart (readText c ls₂ w)) :=
  C03.obs_of_fmtSim (readText_format W.sim_print W.sim_symm W.sim_trans hc hwf₁ hwf₂ hit (W.sim_refl w))

/-- … the statement sequence of a document is that of its statement lines alone: everything else can be deleted. -/
theorem C03.only_statement_lines_matter (ls : List Line) :
    items ls = items (ls.filter fun l => l.stmt.isSome || l.fault == some .syn) :=
  items_congr_stmtLines ls

/-- … and for whole namespaces: if the definitions of two namespaces have pairwise the same statement sequences, reading
    the same targets (dependencies at any depth, cached definitions, targets that were read before as a dependency)
    fails in both, or yields in both the same composites up to doc strings, with the same `@print` deliveries up to
    their line numbers. -/
theorem C03.formatting_independence_namespace (defs₁ defs₂ : List Def) (hs : DefsSim defs₁ defs₂)
    (hwf₁ : ∀ d ∈ defs₁, d.wf) (hwf₂ : ∀ d ∈ defs₂, d.wf) (ts : List Nat) :
    NsSim (okPart (readTargets defs₁ ts W.init [])) (okPart (readTargets defs₂ ts W.init [])) :=
  readTargets_sim hs hwf₁ hwf₂ ts W.init W.init [] [] (W.sim_refl _) rfl

/-- every context the namespace reader builds is line-blind (non-vacuity of the hypothesis `Ctx.lineBlind`) -/
theorem C03.namespace_contexts_lineBlind (defs : List Def) (hwf : ∀ d ∈ defs, d.wf) (self pf fuel : Nat) (ff : Bool) :
    Ctx.lineBlind ⟨self, pf, defs.length, readDef fuel defs pf, ff⟩ :=
  readDef_lineBlind defs hwf self pf fuel ff

/-- **Extra comment / blank lines**: inserting a line without a statement — a comment line, a blank line, an empty line —
    anywhere changes neither acceptance nor the model up to doc strings. -/
theorem C03.blank_comment_lines (c : Ctx) (hc : c.lineBlind) (ls₁ ls₂ : List Line) (l : Line) (w : W)
    (hwf : ∀ x ∈ ls₁ ++ ls₂, x.offsWf) (hl : l.stmt = none) (hf : l.fault ≠ some .syn) :
    C03.obs (okPart (readText c (ls₁ ++ l :: ls₂) w)) = C03.obs (okPart (readText c (ls₁ ++ ls₂) w)) := by
  refine C03.formatting_independence c hc _ _ ?_ hwf (items_insert ls₁ ls₂ l hl hf) w
  intro x hx
  simp only [List.mem_append, List.mem_cons] at hx
  rcases hx with hx | rfl | hx
  · exact hwf x (List.mem_append.mpr (Or.inl hx))
  · intro _ st hst; rw [hl] at hst; cases hst
  · exact hwf x (List.mem_append.mpr (Or.inr hx))

namespace C03.Examples
def ctx : Ctx := ⟨0, 0, 1, fun w _ => (w, none), false⟩
def ln (s : Option Stmt) (c : Option String := none) (e : Bool := false) : Line := ⟨s, [], [], false, none, c, e, false, 0⟩
def fld (n : String) (c : Option String := none) : Line := ln (some (.attr ⟨.field, n, "saturated uint8", ""⟩)) c
def dir (n : String) (e : Option EVal := none) : Line := ln (some (.directive n e ""))
/-- `# hdr`, ``, `uint8 a # da`, `# da2`, `void3`, `uint8 B = 3 # c`, `@extent 64`, `---`, `@union`, `uint8 x`,
    `uint8 y` (last line, no newline), response not sealed -> rejected; with `@sealed` accepted -/
def svc : List Line :=
  [ln none (some " hdr"), ln none none true, fld "a" (some " da"), ln none (some " da2"),
   ln (some (.attr ⟨.padding, "", "void3", ""⟩)), ln (some (.attr ⟨.const, "B", "saturated uint8", "3"⟩)) (some " c"),
   dir "extent" (some (.rational 64)), ln (some .marker), dir "union", dir "sealed", fld "x", fld "y" (some "last")]
/-- `svc` in another layout: no comments, CR LF, blank lines between all statements, a final empty line -/
def svc' : List Line :=
  (svc.filter fun l => l.stmt.isSome).flatMap fun l => [{ l with comment := none, crlf := true }, ln none none true]
/-- `---` that "evaluates `_offset_`" — an abstract line no text produces -/
def badMarker : Line := ⟨some .marker, [], [], true, none, none, false, false, 0⟩
/-- a context whose dependency reader looks at the line numbers of earlier `@print` deliveries — no real reader does -/
def lineSensitive : Ctx :=
  ⟨0, 0, 2, fun w _ => if w.prints.any (fun p => p.line == 2) then (w, some ⟨1, none⟩) else (w, none), false⟩
/-- A = `# doc`, `ns.B.1.0 b  # the b`, ``, `@sealed`;  B = `uint8 x`, `@print 1`, `@sealed` -/
def nsA : List Def :=
  [⟨[ln none (some " doc"), ⟨some (.attr ⟨.field, "b", "ns.B.1.0", ""⟩), [], [1], false, none, some " the b", false, false, 0⟩,
     ln none none true, dir "sealed"], false⟩,
   ⟨[fld "x", ⟨some (.directive "print" none "1"), [], [], false, none, none, false, false, 0⟩, dir "sealed"], false⟩]
/-- the same namespace in another layout: A without comments and blank lines, B with a comment line in front of `@print`
    (which moves it to line 3) and CR LF -/
def nsB : List Def :=
  [⟨[⟨some (.attr ⟨.field, "b", "ns.B.1.0", ""⟩), [], [1], false, none, none, false, false, 0⟩, dir "sealed"], false⟩,
   ⟨[fld "x" (some " an x"), ln none (some " about to print"),
     ⟨some (.directive "print" none "1"), [], [], false, none, none, false, true, 0⟩, dir "sealed"], false⟩]
def prLine : Line := ⟨some (.directive "print" none "1"), [], [], false, none, none, false, false, 0⟩
def depLine : Line := ⟨some (.attr ⟨.field, "b", "ns.B.1.0", ""⟩), [], [1], false, none, none, false, false, 0⟩
end C03.Examples

open C03.Examples in
/-- non-vacuity: a service with header comment, docs, padding, constant, `@extent`, a union response whose last line is
    an attribute without final newline is accepted, and the result is the one `C03.mirror` describes -/
example : ∃ comp w', readText ctx svc W.init = .ok (comp, w') ∧
    comp.schemas.map Schema.view =
      [⟨[⟨.field, "a", "saturated uint8", ""⟩, ⟨.padding, "", "void3", ""⟩], [⟨.const, "B", "saturated uint8", "3"⟩], false, some (.extent 64)⟩,
       ⟨[⟨.field, "x", "saturated uint8", ""⟩, ⟨.field, "y", "saturated uint8", ""⟩], [], true, some .sealed⟩] ∧
    comp.schemas.map (·.doc) = ["hdr", ""] ∧
    comp.schemas.map (fun s => s.fields.map (·.doc)) = [["da\nda2", ""], ["", "last"]] := by
  have h : (okPart (readText ctx svc W.init)).isSome = true := by decide
  cases hr : readText ctx svc W.init with
  | error e => rw [hr] at h; simp [okPart] at h
  | ok r =>
    refine ⟨r.1, r.2, rfl, ?_⟩
    have h2 : okPart (readText ctx svc W.init) = some r := by rw [hr]; rfl
    have h3 : ∀ r', okPart (readText ctx svc W.init) = some r' →
        r'.1.schemas.map Schema.view =
          [⟨[⟨.field, "a", "saturated uint8", ""⟩, ⟨.padding, "", "void3", ""⟩], [⟨.const, "B", "saturated uint8", "3"⟩], false, some (.extent 64)⟩,
           ⟨[⟨.field, "x", "saturated uint8", ""⟩, ⟨.field, "y", "saturated uint8", ""⟩], [], true, some .sealed⟩] ∧
        r'.1.schemas.map (·.doc) = ["hdr", ""] ∧
        r'.1.schemas.map (fun s => s.fields.map (·.doc)) = [["da\nda2", ""], ["", "last"]] := by decide
    exact h3 r h2

open C03.Examples in
/-- non-vacuity of `final_newline` / `blank_comment_lines_partial`: both sides are accepted texts -/
example : (okPart (readText ctx (svc ++ [emptyLine false]) W.init)).isSome = true ∧
    (okPart (readText ctx ([fld "a"] ++ ln none (some " c") :: [dir "sealed"]) W.init)).isSome = true ∧
    (okPart (readText ctx ([fld "a"] ++ [dir "sealed"]) W.init)).isSome = true := by decide

open C03.Examples in
/-- non-vacuity of `C03.docs`: the lines of the example are well-formed, and the declarative docs are the expected ones -/
example : (∀ l ∈ svc, l.wf) ∧
    (attrDocs svc).map (·.2) = ["da\nda2", "", "c", "", "last"] ∧ commentRun "" svc :: markerDocs svc = ["hdr", ""] := by
  refine ⟨?_, by decide, by decide⟩
  intro l hl
  simp [svc, ln, fld, dir] at hl
  rcases hl with rfl | rfl | rfl | rfl | rfl | rfl | rfl | rfl | rfl | rfl | rfl | rfl <;> simp [Line.wf]

open C03.Examples in
/-- non-vacuity of `formatting_independence` / `statement_sequence`: the example context is line-blind, both layouts of
    the service are well formed, have the same statement sequence, and are accepted -/
example : ctx.lineBlind ∧ (∀ l ∈ svc, l.offsWf) ∧ (∀ l ∈ svc', l.offsWf) ∧ items svc = items svc' ∧ svc ≠ svc' ∧
    (okPart (readText ctx svc W.init)).isSome = true ∧ (aRead ctx (items svc) W.init).isSome = true := by
  refine ⟨⟨rfl, rfl, rfl, fun w₁ w₂ j h => ⟨Iff.rfl, fun _ => h⟩⟩, by decide, by decide, by decide, by decide, by decide, by decide⟩

open C03.Examples in
/-- The unconditional statement is false of the model, and each side condition of `C03.blank_comment_lines` is needed:
    (1) a `---` line flagged as evaluating `_offset_` (impossible in a text: `_offset_` is an identifier and identifiers
        flush) lets an empty line in front of it decide whether the last field of a union is committed before or after
        the flag is set;
    (2) a dependency reader that inspects the line numbers of earlier `@print` deliveries can tell the texts apart. -/
theorem C03.blank_comment_lines_statement_false : ¬ C03.blank_comment_lines_statement := by
  intro h
  have := h ctx [dir "union", dir "sealed", fld "a", fld "b"] [badMarker, dir "sealed"] (emptyLine false) W.init rfl rfl
  revert this
  decide

open C03.Examples in
/-- … (2): `@print 1`, `ns.B.1.0 b`, `@sealed` with and without a comment line in front: the lines are well formed, only
    the context is not line-blind -/
example : (∀ l ∈ [prLine, depLine, dir "sealed"], l.offsWf) ∧ ¬ lineSensitive.lineBlind ∧
    C03.obs (okPart (readText lineSensitive ([] ++ ln none (some " c") :: [prLine, depLine, dir "sealed"]) W.init)) ≠
    C03.obs (okPart (readText lineSensitive ([] ++ [prLine, depLine, dir "sealed"]) W.init)) := by
  refine ⟨by decide, ?_, by decide⟩
  intro h
  have := (h.2.2.2 ⟨[], [⟨0, 1, "1"⟩]⟩ ⟨[], [⟨0, 2, "1"⟩]⟩ 1 rfl).1
  revert this
  decide

open C03.Examples in
/-- non-vacuity of `formatting_independence_namespace`: two layouts of a namespace with a dependency and a `@print` that
    stands on different lines; both are read successfully -/
example : DefsSim nsA nsB ∧ (∀ d ∈ nsA, d.wf) ∧ (∀ d ∈ nsB, d.wf) ∧ nsA.map (·.lines) ≠ nsB.map (·.lines) ∧
    (okPart (readTargets nsA [0, 1] W.init [])).isSome = true ∧
    (okPart (readTargets nsA [0, 1] W.init [])).map (·.2.prints) = some [⟨0, 2, "1"⟩] ∧
    (okPart (readTargets nsB [0, 1] W.init [])).map (·.2.prints) = some [⟨0, 3, "1"⟩] := by
  refine ⟨⟨rfl, ?_⟩, ?_, ?_, by decide, by decide, by decide, by decide⟩
  · intro i d₁ d₂ h₁ h₂
    match i with
    | 0 => simp [nsA, nsB] at h₁ h₂; subst h₁; subst h₂; exact ⟨by decide, rfl⟩
    | 1 => simp [nsA, nsB] at h₁ h₂; subst h₁; subst h₂; exact ⟨by decide, rfl⟩
    | n + 2 => simp [nsA] at h₁
  · intro d hd
    simp [nsA] at hd
    rcases hd with rfl | rfl <;> (unfold Def.wf; decide)
  · intro d hd
    simp [nsB] at hd
    rcases hd with rfl | rfl <;> (unfold Def.wf; decide)

open C03.Examples in
/-- non-vacuity of `docs_per_schema`: the docs of the example service, cut into request and response -/
example : splitLengths ((Spec.of svc).schemas.map (·.fields.length)) (((attrDocs svc).filter (fun p => !isConst p)).map (·.2)) =
      [["da\nda2", ""], ["", "last"]] ∧
    splitLengths ((Spec.of svc).schemas.map (·.consts.length)) (((attrDocs svc).filter isConst).map (·.2)) = [["c"], []] := by
  decide
