import Proofs.BitIOReader
/-!
# C06 / C07 — the bit-level writer and reader refine the stream view

`Model/BitIO.lean` models `_BitWriter.write_bits` and `_BitReader.read_bits` of _serdes.py with both of their code
paths (byte-aligned fast path incl. its three buffer cases, bit-wise slow path) and the limit logic of bounded
sub-readers.  The codec model of C06/C07 (`Model/Wire.lean`) uses a single stream function; the theorems here
justify that: for every offset, width, value and operation history,

* a writer that starts empty always holds exactly the concatenation of the `n` low bits of the values written
  (least significant bit first), zero-padded to a whole byte — so the overwrite branches of the fast path are
  unreachable and both paths agree;
* a reader returns the next `n` bits of its window — the data from the current position up to the innermost limit —
  extended with zeros, advances by `n`, and leaves the rest of the window; this holds for both paths and for
  requests that cross the limit.
-/
open BitIO

/-- `write_bits`, whichever path it takes, appends the `n` low bits and keeps the invariant. -/
theorem C06.write_bits_appends (w : W) (v n : ℕ) (h : w.ok = true) :
    (writeBits w v n).ok = true ∧ (writeBits w v n).off = w.off + n ∧
      (writeBits w v n).logical = w.logical ++ natBits n v :=
  writeBits_spec w v n h

/-- Every history of writes from an empty writer: the buffer is the concatenation of the written fields padded with
    zeros to a byte (what `finish()` returns), and the offset is the total width. -/
theorem C06.writer_history (ops : List (ℕ × ℕ)) :
    let w := ops.foldl (fun w op => writeBits w op.1 op.2) ⟨[], 0⟩
    w.ok = true ∧ w.buf = pad8 (ops.flatMap fun op => natBits op.2 op.1) ∧
      w.off = (ops.map Prod.snd).sum := by
  have key : ∀ (ops : List (ℕ × ℕ)) (w0 : W), w0.ok = true →
      let w := ops.foldl (fun w op => writeBits w op.1 op.2) w0
      w.ok = true ∧ w.logical = w0.logical ++ (ops.flatMap fun op => natBits op.2 op.1) ∧
        w.off = w0.off + (ops.map Prod.snd).sum := by
    intro ops
    induction ops with
    | nil => intro w0 h; simp [h]
    | cons op ops ih =>
      intro w0 h
      obtain ⟨s1, s2, s3⟩ := writeBits_spec w0 op.1 op.2 h
      obtain ⟨t1, t2, t3⟩ := ih (writeBits w0 op.1 op.2) s1
      simp only [List.foldl_cons, List.flatMap_cons, List.map_cons, List.sum_cons]
      exact ⟨t1, by rw [t2, s3, List.append_assoc], by rw [t3, s2]; omega⟩
  have h0 : (⟨[], 0⟩ : W).ok = true := by decide
  obtain ⟨k1, k2, k3⟩ := key ops ⟨[], 0⟩ h0
  refine ⟨k1, ?_, by simpa using k3⟩
  have := (ok_iff _).mp k1
  rw [this.1, k2]; simp [W.logical]

/-- `align_to` pads with zero bits up to the alignment. -/
theorem C06.align_to_pads (w : W) (a : ℕ) (h : w.ok = true) :
    (alignTo w a).ok = true ∧ (a > 0 → (alignTo w a).off % a = 0) ∧
      ∃ k, (alignTo w a).logical = w.logical ++ zeros k ∧ (a > 0 → k < a) :=
  alignTo_spec w a h

/-- `read_bits`, whichever path it takes and whether or not a limit is crossed, returns the zero-extended next bits
    of the window. -/
theorem C07.read_bits_window (r : Rd) (n : ℕ) (hs : r.start ≤ r.off) :
    (readBits r n).1 = ofBits (takeZ n r.window) ∧
    (readBits r n).2 = { r with off := r.off + n } ∧
    (readBits r n).2.window = r.window.drop n :=
  readBits_spec r n hs

/-- Every history of reads: the values are the consecutive zero-extended segments of the initial window. -/
theorem C07.reader_history (ns : List ℕ) (r : Rd) (hs : r.start ≤ r.off) :
    (ns.foldl (fun (acc : List ℕ × Rd) n => (acc.1 ++ [(readBits acc.2 n).1], (readBits acc.2 n).2)) ([], r)).1
      = (ns.foldl (fun (acc : List ℕ × List Bool) n => (acc.1 ++ [ofBits (takeZ n acc.2)], acc.2.drop n)) ([], r.window)).1 := by
  have key : ∀ (ns : List ℕ) (r : Rd) (out : List ℕ), r.start ≤ r.off →
      (ns.foldl (fun (acc : List ℕ × Rd) n => (acc.1 ++ [(readBits acc.2 n).1], (readBits acc.2 n).2)) (out, r)).1
        = (ns.foldl (fun (acc : List ℕ × List Bool) n => (acc.1 ++ [ofBits (takeZ n acc.2)], acc.2.drop n)) (out, r.window)).1 := by
    intro ns
    induction ns with
    | nil => intro r out _; rfl
    | cons n ns ih =>
      intro r out hs
      obtain ⟨h1, h2, h3⟩ := readBits_spec r n hs
      simp only [List.foldl_cons]
      rw [h1, ← h3]
      apply ih
      rw [h2]; simp only; omega
  exact key ns r [] hs

/-- A bounded sub-reader sees exactly the next `k` bits of the data; the parent continues after them. -/
theorem C07.sub_reader_window (r : Rd) (k : ℕ) :
    (r.sub k).1.window = (r.data.drop r.off).take k ∧ (r.sub k).2 = { r with off := r.off + k } ∧
      (r.sub k).1.start ≤ (r.sub k).1.off :=
  sub_spec r k

/-! ### Non-vacuity -/
example : (writeBits (writeBits ⟨[], 0⟩ 5 3) 43981 16).ok = true := by decide +kernel
example : (readBits { data := natBits 24 0xABCDEF, start := 0, off := 3, limit := some 9 } 16).1
    = ofBits (takeZ 16 ((natBits 24 0xABCDEF).drop 3 |>.take 6)) := by decide +kernel
