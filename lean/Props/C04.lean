import Proofs.Expr
import Proofs.ExprLit
import Proofs.ExprParse
/-!
# C04 — constant expressions evaluate exactly, with the Specification's precedence

Model: `Model/Expr.lean` (`Ex.eval`, `Ex.evalBin`, `Ex.toks`, `Ex.parseTokens`, literal decoders).
The statements below are about the model; the model is tied to pydsdl by the correspondence suite `expr`.
-/
open Ex
set_option linter.unusedSimpArgs false

/-! ## exact arithmetic -/

/-- `+ - *` on rationals are the field operations (no rounding, no overflow). -/
theorem C04.exact_ring (a b : Rat) :
    evalBin .add (.rat a) (.rat b) = .ok (.rat (a + b)) ∧
    evalBin .sub (.rat a) (.rat b) = .ok (.rat (a - b)) ∧
    evalBin .mul (.rat a) (.rat b) = .ok (.rat (a * b)) := ⟨rfl, rfl, rfl⟩

example : evalBin .add (.rat (1/3)) (.rat (1/6)) = .ok (.rat (1/2)) := by decide +kernel

/-- Division is exact, and division by zero is rejected as an invalid definition. -/
theorem C04.exact_div (a b : Rat) :
    (b ≠ 0 → evalBin .div (.rat a) (.rat b) = .ok (.rat (a / b))) ∧
    (b = 0 → evalBin .div (.rat a) (.rat b) = .error (.invalid .divZero)) := by
  constructor
  · intro h; simp [evalBin, scBin, h, Except.map]
  · rintro rfl; simp [evalBin, scBin, Except.map, inval]

example : evalBin .div (.rat 1) (.rat 3) = .ok (.rat (1/3)) := by decide +kernel

/-- `%` is the floored modulo on rationals: `a = k*b + r` for an integer `k`, with `r` between zero and the divisor
    (taking the divisor's sign); modulo zero is rejected. -/
theorem C04.exact_mod (a b : Rat) :
    (b ≠ 0 → ∃ r : Rat, evalBin .mod (.rat a) (.rat b) = .ok (.rat r) ∧ (∃ k : Int, a = k * b + r) ∧
        (0 < b → 0 ≤ r ∧ r < b) ∧ (b < 0 → b < r ∧ r ≤ 0)) ∧
    (b = 0 → evalBin .mod (.rat a) (.rat b) = .error (.invalid .divZero)) := by
  constructor
  · intro h
    exact ⟨ratMod a b, by simp [evalBin, scBin, h, Except.map], ratMod_spec a b⟩
  · rintro rfl; simp [evalBin, scBin, Except.map, inval]

example : evalBin .mod (.rat (-7)) (.rat 3) = .ok (.rat 2) := by decide +kernel

/-- A power with an integral exponent is the exact power, negative exponents included; only `0 ** negative` is
    rejected. -/
theorem C04.exact_pow (a : Rat) (n : Int) :
    ((a ≠ 0 ∨ 0 ≤ n) → evalBin .pow (.rat a) (.rat (n : Rat)) = .ok (.rat (a ^ n))) ∧
    ((a = 0 ∧ n < 0) → evalBin .pow (.rat a) (.rat (n : Rat)) = .error (.invalid .divZero)) := by
  constructor
  · intro h; simp [evalBin, scBin, scPow_int a n h, Except.map]
  · rintro ⟨rfl, hn⟩; simp [evalBin, scBin, scPow_zero_neg n hn, Except.map]

example : evalBin .pow (.rat 2) (.rat (-1)) = .ok (.rat (1/2)) := by decide +kernel

/-- Comparisons of rationals are the order of ℚ. -/
theorem C04.exact_cmp (a b : Rat) :
    evalBin .eq (.rat a) (.rat b) = .ok (.bool (decide (a = b))) ∧
    evalBin .lt (.rat a) (.rat b) = .ok (.bool (decide (a < b))) ∧
    evalBin .le (.rat a) (.rat b) = .ok (.bool (decide (a ≤ b))) ∧
    evalBin .gt (.rat a) (.rat b) = .ok (.bool (decide (b < a))) ∧
    evalBin .ge (.rat a) (.rat b) = .ok (.bool (decide (b ≤ a))) ∧
    evalBin .ne (.rat a) (.rat b) = .ok (.bool (decide (a ≠ b))) := by
  refine ⟨?_, ?_, ?_, ?_, ?_, ?_⟩ <;> simp [evalBin, scBin, Except.map, beq_eq_decide, bne]

/-! ## definedness -/

/-- Exactly the operand combinations of the table (Appendix E of DESIGN.md, `Ex.defined`) produce a value, and every
    other combination is rejected as an invalid definition — never a hazard or a foreign outcome — for all operators
    and all values satisfying the set invariant, as long as exponents are integral (the bound of the property). -/
theorem C04.defined (op : BinOp) (a b : Val) (ha : a.wf) (hb : b.wf) (hexp : intExpV op b) :
    ((∃ v, evalBin op a b = .ok v) ↔ Ex.defined op a b) ∧
    (∀ e, evalBin op a b = .error e → ∃ k, e = .invalid k) :=
  evalBin_defined op a b ha hb hexp

example : Ex.defined .add (.set [.rat 1, .rat 2]) (.rat 3) := ⟨rfl, by simp [definedSc]⟩
example : ¬ Ex.defined .add (.rat 1) (.str []) := by simp [Ex.defined, definedSc]

/-- Results of the operators satisfy the set invariant again (non-empty, one element kind, duplicate-free). -/
theorem C04.defined_closed (op : BinOp) (a b v : Val) (h : evalBin op a b = .ok v) : v.wf := evalBin_wf op a b v h

/-- Unary operators: `+`/`-` on rationals, `!` on booleans, everything else rejected. -/
theorem C04.defined_unary (op : UnOp) (v : Val) :
    (∃ r, evalUn op v = .ok r) ↔ ((op = .pos ∨ op = .neg) ∧ ∃ q, v = .rat q) ∨ (op = .not ∧ ∃ b, v = .bool b) := by
  cases op <;> rcases v with (_ | _ | _) | _ <;> simp [evalUn, inval]

/-! ## sets -/

/-- Set algebra: `|`, `&`, `^` are union, intersection and symmetric difference. -/
theorem C04.sets_algebra (as bs r : List Scalar) :
    (evalBin .bor (.set as) (.set bs) = .ok (.set r) → ∀ x, x ∈ r ↔ x ∈ as ∨ x ∈ bs) ∧
    (evalBin .band (.set as) (.set bs) = .ok (.set r) → ∀ x, x ∈ r ↔ x ∈ as ∧ x ∈ bs) ∧
    (evalBin .bxor (.set as) (.set bs) = .ok (.set r) → ∀ x, x ∈ r ↔ (x ∈ as ∧ x ∉ bs) ∨ (x ∈ bs ∧ x ∉ as)) :=
  ⟨evalBin_union as bs r, evalBin_inter as bs r, evalBin_symdiff as bs r⟩

example : evalBin .bxor (.set [.rat 1, .rat 2]) (.set [.rat 2, .rat 3]) = .ok (.set [.rat 1, .rat 3]) := by decide +kernel

/-- Set comparison: `==` extensional equality, `<=`/`>=` sub/superset, `<`/`>` proper sub/superset. -/
theorem C04.sets_compare (op : BinOp) (as bs : List Scalar) (r : Bool) (h : evalBin op (.set as) (.set bs) = .ok (.bool r)) :
    (op = .eq → (r = true ↔ ∀ x, x ∈ as ↔ x ∈ bs)) ∧
    (op = .ne → (r = true ↔ ¬ ∀ x, x ∈ as ↔ x ∈ bs)) ∧
    (op = .le → (r = true ↔ ∀ x ∈ as, x ∈ bs)) ∧
    (op = .ge → (r = true ↔ ∀ x ∈ bs, x ∈ as)) ∧
    (op = .lt → (r = true ↔ (∀ x ∈ as, x ∈ bs) ∧ ¬ ∀ x, x ∈ as ↔ x ∈ bs)) ∧
    (op = .gt → (r = true ↔ (∀ x ∈ bs, x ∈ as) ∧ ¬ ∀ x, x ∈ as ↔ x ∈ bs)) :=
  evalBin_set_cmp op as bs r h

example : evalBin .lt (.set [.rat 1]) (.set [.rat 2, .rat 1]) = .ok (.bool true) := by decide +kernel
example : evalBin .lt (.set [.rat 1, .rat 2]) (.set [.rat 2, .rat 1]) = .ok (.bool false) := by decide +kernel

/-- Element-wise application of the arithmetic operators, operand order preserved on both sides. -/
theorem C04.sets_elementwise (op : BinOp) (s : List Scalar) (c : Scalar) (r : List Scalar) :
    (evalBin op (.set s) (.sc c) = .ok (.set r) → ∀ y, y ∈ r ↔ ∃ x ∈ s, scBin op x c = .ok y) ∧
    (evalBin op (.sc c) (.set s) = .ok (.set r) → ∀ y, y ∈ r ↔ ∃ x ∈ s, scBin op c x = .ok y) :=
  ⟨evalBin_elementwise_left op s c r, evalBin_elementwise_right op c s r⟩

example : evalBin .sub (.rat 10) (.set [.rat 1, .rat 2]) = .ok (.set [.rat 9, .rat 8]) := by decide +kernel

/-- Set literals: an empty literal and a literal of mixed kinds are rejected; otherwise the literal is its set of
    elements. -/
theorem C04.sets_literal (vs : List Scalar) :
    (vs = [] → mkSet (vs.map .sc) = .error (.invalid .emptySet)) ∧
    ((∃ x ∈ vs, ∃ y ∈ vs, x.kind ≠ y.kind) → mkSet (vs.map .sc) = .error (.invalid .hetero)) ∧
    (vs ≠ [] → (∀ x ∈ vs, ∀ y ∈ vs, x.kind = y.kind) →
      ∃ r, mkSet (vs.map .sc) = .ok (.set r) ∧ ∀ x, x ∈ r ↔ x ∈ vs) := by
  have hfm : ∀ g : Val → Option Scalar, (∀ s, g (.sc s) = some s) → (vs.map Val.sc).filterMap g = vs := by
    intro g hg
    induction vs with
    | nil => rfl
    | cons a as ih => simp [List.filterMap_cons, hg, ih]
  refine ⟨?_, ?_, ?_⟩
  · rintro rfl; simp [mkSet, inval]
  · rintro ⟨x, hx, y, hy, hxy⟩
    have hne : vs ≠ [] := by rintro rfl; simp at hx
    have hk : sameKinds vs = false := by
      rw [← Bool.not_eq_true, sameKinds_iff]; intro h; exact hxy (h x hx y hy)
    have hne' : (vs.map Val.sc).isEmpty = false := by cases vs <;> simp_all
    unfold mkSet
    simp only [hne', Bool.false_eq_true, ↓reduceIte]
    rw [hfm _ (fun _ => rfl)]
    have hv : vs.isEmpty = false := by cases vs <;> simp_all
    simp [mkSetS, hk, hv, inval]
  · intro hne hk
    have hk' : sameKinds vs = true := (sameKinds_iff vs).mpr hk
    have hne' : (vs.map Val.sc).isEmpty = false := by cases vs <;> simp_all
    refine ⟨dedup vs, ?_, fun x => mem_dedup x vs⟩
    unfold mkSet
    simp only [hne', Bool.false_eq_true, ↓reduceIte]
    rw [hfm _ (fun _ => rfl)]
    simp only [List.length_map, BEq.rfl, ↓reduceIte]
    exact mkSetS_ok_of vs hne hk'

example : eval [] (.setLit []) = .error (.invalid .emptySet) := by decide +kernel

/-- `.min` / `.max` of a set of rationals are its least / greatest element, `.count` its cardinality. -/
theorem C04.sets_attributes (a : Rat) (l : List Scalar) (hl : ∀ x ∈ l, ∃ q, x = .rat q) :
    (∃ m : Rat, evalAttr (.set (.rat a :: l)) "min" = .ok (.rat m) ∧ Scalar.rat m ∈ (Scalar.rat a :: l) ∧
        ∀ q, Scalar.rat q ∈ (Scalar.rat a :: l) → m ≤ q) ∧
    (∃ m : Rat, evalAttr (.set (.rat a :: l)) "max" = .ok (.rat m) ∧ Scalar.rat m ∈ (Scalar.rat a :: l) ∧
        ∀ q, Scalar.rat q ∈ (Scalar.rat a :: l) → q ≤ m) ∧
    evalAttr (.set (.rat a :: l)) "count" = .ok (.rat ((l.length + 1 : Nat) : Rat)) := by
  refine ⟨?_, ?_, ?_⟩
  · obtain ⟨m, hm, hmem, hma, hall⟩ := reduceCmp_min a l hl
    refine ⟨m, by simp [evalAttr, hm, Except.map], ?_, ?_⟩
    · rcases hmem with rfl | h
      · simp
      · simp [h]
    · intro q hq
      rcases List.mem_cons.mp hq with h | h
      · simp only [Scalar.rat.injEq] at h; subst h; exact hma
      · exact hall q h
  · obtain ⟨m, hm, hmem, hma, hall⟩ := reduceCmp_max a l hl
    refine ⟨m, by simp [evalAttr, hm, Except.map], ?_, ?_⟩
    · rcases hmem with rfl | h
      · simp
      · simp [h]
    · intro q hq
      rcases List.mem_cons.mp hq with h | h
      · simp only [Scalar.rat.injEq] at h; subst h; exact hma
      · exact hall q h
  · simp [evalAttr]

example : evalAttr (.set [.rat 3, .rat 1, .rat 2]) "min" = .ok (.rat 1) := by decide +kernel

/-! ## literals -/

/-- Integer literals in the prefixed bases, with digit separators anywhere the grammar admits them and either letter
    case, denote the number their digits denote in that base. -/
theorem C04.literals_prefixed (radix : Nat) (p : Char) (ws : List DigitW) (hne : ws ≠ [])
    (hp : (radix = 2 ∧ (p = 'b' ∨ p = 'B')) ∨ (radix = 8 ∧ (p = 'o' ∨ p = 'O')) ∨ (radix = 16 ∧ (p = 'x' ∨ p = 'X')))
    (h : ∀ w ∈ ws, w.d < radix) :
    decodeInt ('0' :: p :: writeDigits ws) = .ok (numeral radix (ws.map (·.d))) :=
  decodeInt_prefixed radix p ws hne hp h

example : decodeInt "0x_Ff_0".toList = .ok 4080 := by decide +kernel

/-- Decimal integer literals (within CPython's 4300-digit conversion limit) denote their digits in base ten. -/
theorem C04.literals_decimal (ws : List DigitW) (hne : ws ≠ []) (h : ∀ w ∈ ws, w.d < 10) (hlen : ws.length ≤ pyIntMaxDigits) :
    decodeInt (writeDigits ws) = .ok (numeral 10 (ws.map (·.d))) :=
  decodeInt_decimal ws hne h hlen

example : decodeInt "1_000_000".toList = .ok 1000000 := by decide +kernel

/-! ## precedence and associativity -/

/-- The grammar's rule layering realises exactly the precedence table by which the printer places parentheses:
    printing any expression tree with minimal parentheses and parsing the tokens with the PEG gives the tree back.
    This covers `-2**2`, `2**-1`, `!a == b`, `||`/`&&` on one level, left-associative chains and the
    right-associative `**`, for every tree. -/
theorem C04.precedence (e : Expr) : parseTokens (toks e) = some e := roundtrip_min e

example : toks (.un .neg (.bin .pow (.lit (.int "2")) (.lit (.int "2"))))
    = [.sym .minus, .lit (.int "2"), .sym .starstar, .lit (.int "2")] := by decide
example : toks (.bin .pow (.un .neg (.lit (.int "2"))) (.lit (.int "2")))
    = [.lp, .sym .minus, .lit (.int "2"), .rp, .sym .starstar, .lit (.int "2")] := by decide

/-- the same for the printer that parenthesises every compound sub-expression (checked on every generated case by the
    model driver; not proved) -/
def C04.precedence_full_statement : Prop := ∀ e : Expr, parseTokens (toksFull e) = some e
