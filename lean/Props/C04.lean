import Proofs.Expr
import Proofs.ExprLit
import Proofs.ExprParse
import Proofs.ExprParen
import Proofs.ExprLex
import Proofs.ExprLexLit
import Proofs.ExprChars
import Proofs.ExprReal
/-!
# C04 — constant expressions evaluate exactly, with the Specification's precedence

Model: `Model/Expr.lean` (`Ex.eval`, `Ex.evalBin`, `Ex.toks`, `Ex.parseTokens`, literal decoders, the character-level
lexer `Ex.lex` / `Ex.parseChars` and the renderer `Ex.renderToks`).
The statements below are about the model; the model is tied to pydsdl by the correspondence suite `expr`.
-/
open Ex
set_option linter.unusedSimpArgs false

/-! ## exact arithmetic -/

/-- `+ - *` on rationals are the field operations (no rounding, no overflow). -/
theorem C04.exact_ring [StrNorm] (a b : Rat) :
    evalBin .add (.rat a) (.rat b) = .ok (.rat (a + b)) ∧
    evalBin .sub (.rat a) (.rat b) = .ok (.rat (a - b)) ∧
    evalBin .mul (.rat a) (.rat b) = .ok (.rat (a * b)) := ⟨rfl, rfl, rfl⟩

example : @evalBin StrNorm.plain .add (.rat (1/3)) (.rat (1/6)) = .ok (.rat (1/2)) := by decide +kernel

/-- Division is exact, and division by zero is rejected as an invalid definition. -/
theorem C04.exact_div [StrNorm] (a b : Rat) :
    (b ≠ 0 → evalBin .div (.rat a) (.rat b) = .ok (.rat (a / b))) ∧
    (b = 0 → evalBin .div (.rat a) (.rat b) = .error (.invalid .divZero)) := by
  constructor
  · intro h; simp [evalBin, scBin, h, Except.map]
  · rintro rfl; simp [evalBin, scBin, Except.map, inval]

example : @evalBin StrNorm.plain .div (.rat 1) (.rat 3) = .ok (.rat (1/3)) := by decide +kernel

/-- `%` is the floored modulo on rationals: `a = k*b + r` for an integer `k`, with `r` between zero and the divisor
    (taking the divisor's sign); modulo zero is rejected. -/
theorem C04.exact_mod [StrNorm] (a b : Rat) :
    (b ≠ 0 → ∃ r : Rat, evalBin .mod (.rat a) (.rat b) = .ok (.rat r) ∧ (∃ k : Int, a = k * b + r) ∧
        (0 < b → 0 ≤ r ∧ r < b) ∧ (b < 0 → b < r ∧ r ≤ 0)) ∧
    (b = 0 → evalBin .mod (.rat a) (.rat b) = .error (.invalid .divZero)) := by
  constructor
  · intro h
    exact ⟨ratMod a b, by simp [evalBin, scBin, h, Except.map], ratMod_spec a b⟩
  · rintro rfl; simp [evalBin, scBin, Except.map, inval]

example : @evalBin StrNorm.plain .mod (.rat (-7)) (.rat 3) = .ok (.rat 2) := by decide +kernel

/-- A power with an integral exponent is the exact power, negative exponents included; only `0 ** negative` is
    rejected. -/
theorem C04.exact_pow [StrNorm] (a : Rat) (n : Int) :
    ((a ≠ 0 ∨ 0 ≤ n) → evalBin .pow (.rat a) (.rat (n : Rat)) = .ok (.rat (a ^ n))) ∧
    ((a = 0 ∧ n < 0) → evalBin .pow (.rat a) (.rat (n : Rat)) = .error (.invalid .divZero)) := by
  constructor
  · intro h; simp [evalBin, scBin, scPow_int a n h, Except.map]
  · rintro ⟨rfl, hn⟩; simp [evalBin, scBin, scPow_zero_neg n hn, Except.map]

example : @evalBin StrNorm.plain .pow (.rat 2) (.rat (-1)) = .ok (.rat (1/2)) := by decide +kernel

/-- Comparisons of rationals are the order of ℚ. -/
theorem C04.exact_cmp [StrNorm] (a b : Rat) :
    evalBin .eq (.rat a) (.rat b) = .ok (.bool (decide (a = b))) ∧
    evalBin .lt (.rat a) (.rat b) = .ok (.bool (decide (a < b))) ∧
    evalBin .le (.rat a) (.rat b) = .ok (.bool (decide (a ≤ b))) ∧
    evalBin .gt (.rat a) (.rat b) = .ok (.bool (decide (b < a))) ∧
    evalBin .ge (.rat a) (.rat b) = .ok (.bool (decide (b ≤ a))) ∧
    evalBin .ne (.rat a) (.rat b) = .ok (.bool (decide (a ≠ b))) := by
  refine ⟨?_, ?_, ?_, ?_, ?_, ?_⟩ <;> simp [evalBin, scBin, Except.map, beq_eq_decide, bne]

/-! ## definedness -/

/-- Exactly the operand combinations of the table (Appendix E of DESIGN.md, `Ex.defined`) produce a value, and every
    other combination is rejected as an invalid definition — never a hazard or a foreign outcome — for all operators
    and all values satisfying the set invariant, as long as exponents are integral (the bound of the property). -/
theorem C04.defined [StrNorm] (op : BinOp) (a b : Val) (ha : a.wf) (hb : b.wf) (hexp : intExpV op b) :
    ((∃ v, evalBin op a b = .ok v) ↔ Ex.defined op a b) ∧
    (∀ e, evalBin op a b = .error e → ∃ k, e = .invalid k) :=
  evalBin_defined op a b ha hb hexp

example : Ex.defined .add (.set [.rat 1, .rat 2]) (.rat 3) := ⟨rfl, by simp [definedSc]⟩
example : ¬ Ex.defined .add (.rat 1) (.str []) := by simp [Ex.defined, definedSc]

/-- Results of the operators satisfy the set invariant again (non-empty, one element kind, duplicate-free). -/
theorem C04.defined_closed [StrNorm] (op : BinOp) (a b v : Val) (h : evalBin op a b = .ok v) : v.wf := evalBin_wf op a b v h

/-- Unary operators: `+`/`-` on rationals, `!` on booleans, everything else rejected. -/
theorem C04.defined_unary (op : UnOp) (v : Val) :
    (∃ r, evalUn op v = .ok r) ↔ ((op = .pos ∨ op = .neg) ∧ ∃ q, v = .rat q) ∨ (op = .not ∧ ∃ b, v = .bool b) := by
  cases op <;> rcases v with (_ | _ | _) | _ <;> simp [evalUn, inval]

/-! ## strings -/

/-- Strings: `+` concatenates the code points and does nothing else to them; `==` holds exactly when the normal forms
    of the two operands are equal and `!=` is its negation - whether an operand is a literal or the result of a
    concatenation, on either side.  (The normal form is a parameter: the statement holds for every normalisation
    function; the driver runs the evaluator with `Ucd.nfc`, see below.) -/
theorem C04.strings [StrNorm] (a b c : List Nat) :
    evalBin .add (.str a) (.str b) = .ok (.str (a ++ b)) ∧
    evalBin .eq (.str a) (.str b) = .ok (.bool (decide (StrNorm.nfc a = StrNorm.nfc b))) ∧
    evalBin .ne (.str a) (.str b) = .ok (.bool (decide (StrNorm.nfc a ≠ StrNorm.nfc b))) ∧
    (∀ r, evalBin .add (.str a) (.str b) = .ok r →
      evalBin .eq r (.str c) = .ok (.bool (decide (StrNorm.nfc (a ++ b) = StrNorm.nfc c))) ∧
      evalBin .eq (.str c) r = .ok (.bool (decide (StrNorm.nfc c = StrNorm.nfc (a ++ b))))) := by
  refine ⟨?_, ?_, ?_, ?_⟩
  · simp [evalBin, scBin, Except.map]
  · simp [evalBin, scBin, Except.map, beq_eq_decide]
  · simp [evalBin, scBin, Except.map, bne, beq_eq_decide]
  · intro r h
    have hr : r = .str (a ++ b) := by simpa [evalBin, scBin, Except.map] using h.symm
    subst hr
    constructor <;> simp [evalBin, scBin, Except.map, beq_eq_decide]

/-- String `==` is an equivalence relation on texts (the kernel of the normal form). -/
theorem C04.strings_equivalence [StrNorm] (a b c : List Nat) :
    evalBin .eq (.str a) (.str a) = .ok (.bool true) ∧
    (evalBin .eq (.str a) (.str b) = .ok (.bool true) → evalBin .eq (.str b) (.str a) = .ok (.bool true)) ∧
    (evalBin .eq (.str a) (.str b) = .ok (.bool true) → evalBin .eq (.str b) (.str c) = .ok (.bool true) →
      evalBin .eq (.str a) (.str c) = .ok (.bool true)) := by
  simp only [evalBin, scBin, Except.map, Except.ok.injEq, Val.sc.injEq, Scalar.bool.injEq, beq_iff_eq, beq_self_eq_true, true_and]
  exact ⟨fun h => h.symm, fun h1 h2 => h1.trans h2⟩

/-- Hangul: the arithmetic composition inverts the arithmetic decomposition of every syllable. -/
theorem C04.hangul_roundtrip (s : Nat) :
    (∀ l v, hangulDecomp s = some [l, v] → hangulComp l v = some s) ∧
    (∀ l v t, hangulDecomp s = some [l, v, t] → ∃ lv, hangulComp l v = some lv ∧ hangulComp lv t = some s) := by
  constructor
  · intro l v h
    unfold hangulDecomp at h
    unfold hangulComp
    unfold hSBase hLBase hVBase hTBase hLCount hVCount hTCount hNCount hSCount at *
    split at h
    · simp only [Option.some.injEq] at h
      split at h
      · simp only [List.cons.injEq, and_true] at h
        obtain ⟨rfl, rfl⟩ := h
        split
        · exact congrArg some (by omega)
        · omega
      · simp at h
    · simp at h
  · intro l v t h
    unfold hangulDecomp at h
    unfold hangulComp
    unfold hSBase hLBase hVBase hTBase hLCount hVCount hTCount hNCount hSCount at *
    split at h
    · simp only [Option.some.injEq] at h
      split at h
      · simp at h
      · simp only [List.cons.injEq, and_true] at h
        obtain ⟨rfl, rfl, rfl⟩ := h
        split
        · refine ⟨_, rfl, ?_⟩
          split
          · omega
          · split
            · exact congrArg some (by omega)
            · omega
        · omega
    · simp at h

example : hangulDecomp 0xAC01 = some [0x1100, 0x1161, 0x11A8] ∧ hangulDecomp 0xD7A3 = some [0x1112, 0x1175, 0x11C2] ∧
    hangulDecomp 0xAC00 = some [0x1100, 0x1161] ∧ hangulDecomp 0xD7A4 = none := by decide

/-- The normalisation algorithm on a small extract of the character database (combining classes of three marks, the
    decompositions and primary composites of five letters): composition across a junction, three levels, canonical
    reordering, blocking, a composition exclusion, Hangul, and the evaluator on top of it. -/
def C04.ucdSample : Ucd :=
  ⟨[(0x301, 230), (0x302, 230), (0x323, 220), (0x93C, 7)],
   [(0xE9, [0x65, 0x301]), (0xF4, [0x6F, 0x302]), (0x1ED1, [0x6F, 0x302, 0x301]), (0x1EA1, [0x61, 0x323]), (0xE1, [0x61, 0x301]),
    (0x958, [0x915, 0x93C])],
   [((0x65, 0x301), 0xE9), ((0x6F, 0x302), 0xF4), ((0xF4, 0x301), 0x1ED1), ((0x61, 0x323), 0x1EA1), ((0x61, 0x301), 0xE1)]⟩

example : C04.ucdSample.nfc ([0x65] ++ [0x301]) = [0xE9] := by decide
example : C04.ucdSample.nfc [0x63, 0x61, 0x66, 0xE9] = C04.ucdSample.nfc [0x63, 0x61, 0x66, 0x65, 0x301] := by decide
example : C04.ucdSample.nfc [0x6F, 0x302, 0x301] = [0x1ED1] ∧ C04.ucdSample.nfd [0x1ED1] = [0x6F, 0x302, 0x301] := by decide
example : C04.ucdSample.nfc [0x61, 0x301, 0x323] = [0x1EA1, 0x301] := by decide          -- the dot below is ordered first
example : C04.ucdSample.nfc [0x6F, 0x302, 0x302, 0x301] = [0xF4, 0x302, 0x301] := by decide   -- the acute is blocked by a mark of its own class
example : C04.ucdSample.nfc [0x958] = [0x915, 0x93C] := by decide                       -- excluded from composition
example : Ucd.empty.nfc [0x1100, 0x1161, 0x11A8] = [0xAC01] ∧ Ucd.empty.nfd [0xAC01] = [0x1100, 0x1161, 0x11A8] := by decide
example : Ucd.empty.nfc [0x1100, 0x11A8] = [0x1100, 0x11A8] := by decide                -- a trailing consonant needs an LV syllable
example : @evalBin ⟨C04.ucdSample.nfc⟩ .eq (.str ([0x65] ++ [0x301])) (.str [0xE9]) = .ok (.bool true) := by decide
example : @eval ⟨C04.ucdSample.nfc⟩ [] (.bin .eq (.bin .add (.lit (.str "'e'")) (.lit (.str "'\\u0301'"))) (.lit (.str "'\\u00e9'"))) =
    .ok (.bool true) := by decide +kernel
example : @eval ⟨C04.ucdSample.nfc⟩ [] (.attr (.setLit [.lit (.str "'e\\u0301'"), .lit (.str "'\\u00e9'")]) "count") = .ok (.rat 1) := by
  decide +kernel                                                                        -- two spellings of one text are one element

/-! ## sets -/

/-- Set algebra: `|`, `&`, `^` are union, intersection and symmetric difference. -/
theorem C04.sets_algebra [StrNorm] (as bs r : List Scalar) :
    (evalBin .bor (.set as) (.set bs) = .ok (.set r) → ∀ x, x ∈ r ↔ x ∈ as ∨ x ∈ bs) ∧
    (evalBin .band (.set as) (.set bs) = .ok (.set r) → ∀ x, x ∈ r ↔ x ∈ as ∧ x ∈ bs) ∧
    (evalBin .bxor (.set as) (.set bs) = .ok (.set r) → ∀ x, x ∈ r ↔ (x ∈ as ∧ x ∉ bs) ∨ (x ∈ bs ∧ x ∉ as)) :=
  ⟨evalBin_union as bs r, evalBin_inter as bs r, evalBin_symdiff as bs r⟩

example : @evalBin StrNorm.plain .bxor (.set [.rat 1, .rat 2]) (.set [.rat 2, .rat 3]) = .ok (.set [.rat 1, .rat 3]) := by decide +kernel

/-- Set comparison: `==` extensional equality, `<=`/`>=` sub/superset, `<`/`>` proper sub/superset. -/
theorem C04.sets_compare [StrNorm] (op : BinOp) (as bs : List Scalar) (r : Bool) (h : evalBin op (.set as) (.set bs) = .ok (.bool r)) :
    (op = .eq → (r = true ↔ ∀ x, x ∈ as ↔ x ∈ bs)) ∧
    (op = .ne → (r = true ↔ ¬ ∀ x, x ∈ as ↔ x ∈ bs)) ∧
    (op = .le → (r = true ↔ ∀ x ∈ as, x ∈ bs)) ∧
    (op = .ge → (r = true ↔ ∀ x ∈ bs, x ∈ as)) ∧
    (op = .lt → (r = true ↔ (∀ x ∈ as, x ∈ bs) ∧ ¬ ∀ x, x ∈ as ↔ x ∈ bs)) ∧
    (op = .gt → (r = true ↔ (∀ x ∈ bs, x ∈ as) ∧ ¬ ∀ x, x ∈ as ↔ x ∈ bs)) :=
  evalBin_set_cmp op as bs r h

example : @evalBin StrNorm.plain .lt (.set [.rat 1]) (.set [.rat 2, .rat 1]) = .ok (.bool true) := by decide +kernel
example : @evalBin StrNorm.plain .lt (.set [.rat 1, .rat 2]) (.set [.rat 2, .rat 1]) = .ok (.bool false) := by decide +kernel

/-- Element-wise application of the arithmetic operators, operand order preserved on both sides; the results are
    identified as set elements (`normSc`: a string by its normal form, anything else by itself). -/
theorem C04.sets_elementwise [StrNorm] (op : BinOp) (s : List Scalar) (c : Scalar) (r : List Scalar) :
    (evalBin op (.set s) (.sc c) = .ok (.set r) → ∀ y, y ∈ r ↔ ∃ x ∈ s, ∃ z, scBin op x c = .ok z ∧ y = normSc z) ∧
    (evalBin op (.sc c) (.set s) = .ok (.set r) → ∀ y, y ∈ r ↔ ∃ x ∈ s, ∃ z, scBin op c x = .ok z ∧ y = normSc z) := by
  constructor
  · intro h y; rw [evalBin_elementwise_left op s c r h y]; simp only [scBinEl_ok]
  · intro h y; rw [evalBin_elementwise_right op c s r h y]; simp only [scBinEl_ok]

example : @evalBin StrNorm.plain .sub (.rat 10) (.set [.rat 1, .rat 2]) = .ok (.set [.rat 9, .rat 8]) := by decide +kernel

/-- Set literals: an empty literal and a literal of mixed kinds are rejected; otherwise the literal is the set of its
    elements, a string being identified by its normal form. -/
theorem C04.sets_literal [StrNorm] (vs : List Scalar) :
    (vs = [] → mkSet (vs.map .sc) = .error (.invalid .emptySet)) ∧
    ((∃ x ∈ vs, ∃ y ∈ vs, x.kind ≠ y.kind) → mkSet (vs.map .sc) = .error (.invalid .hetero)) ∧
    (vs ≠ [] → (∀ x ∈ vs, ∀ y ∈ vs, x.kind = y.kind) →
      ∃ r, mkSet (vs.map .sc) = .ok (.set r) ∧ ∀ x, x ∈ r ↔ ∃ y ∈ vs, x = normSc y) := by
  have hfm : ∀ g : Val → Option Scalar, (∀ s, g (.sc s) = some s) → (vs.map Val.sc).filterMap g = vs := by
    intro g hg
    induction vs with
    | nil => rfl
    | cons a as ih => simp [List.filterMap_cons, hg, ih]
  refine ⟨?_, ?_, ?_⟩
  · rintro rfl; simp [mkSet, inval]
  · rintro ⟨x, hx, y, hy, hxy⟩
    have hne : vs ≠ [] := by rintro rfl; simp at hx
    have hk : sameKinds (vs.map normSc) = false := by
      rw [sameKinds_map_normSc, ← Bool.not_eq_true, sameKinds_iff]; intro h; exact hxy (h x hx y hy)
    have hne' : (vs.map Val.sc).isEmpty = false := by cases vs <;> simp_all
    unfold mkSet
    simp only [hne', Bool.false_eq_true, ↓reduceIte]
    rw [hfm _ (fun _ => rfl)]
    have hv : (vs.map normSc).isEmpty = false := by cases vs <;> simp_all
    simp [mkSetS, hk, hv, inval]
  · intro hne hk
    have hk' : sameKinds (vs.map normSc) = true := by rw [sameKinds_map_normSc]; exact (sameKinds_iff vs).mpr hk
    have hne' : (vs.map Val.sc).isEmpty = false := by cases vs <;> simp_all
    have hne'' : vs.map normSc ≠ [] := by simpa using hne
    refine ⟨dedup (vs.map normSc), ?_, fun x => ?_⟩
    · unfold mkSet
      simp only [hne', Bool.false_eq_true, ↓reduceIte]
      rw [hfm _ (fun _ => rfl)]
      simp only [List.length_map, BEq.rfl, ↓reduceIte]
      exact mkSetS_ok_of _ hne'' hk'
    · rw [mem_dedup, List.mem_map]
      constructor
      · rintro ⟨y, hy, rfl⟩; exact ⟨y, hy, rfl⟩
      · rintro ⟨y, hy, rfl⟩; exact ⟨y, hy, rfl⟩

/-- Sets of strings: two spellings are one element exactly when their normal forms are equal - `{a} == {b}` holds
    exactly when `a == b` does, and `{a, b}.count` is 1 or 2 accordingly. -/
theorem C04.sets_of_strings [StrNorm] (a b : List Nat) :
    mkSet [.str a] = .ok (.set [.str (StrNorm.nfc a)]) ∧
    evalBin .eq (.set [.str (StrNorm.nfc a)]) (.set [.str (StrNorm.nfc b)]) = .ok (.bool (decide (StrNorm.nfc a = StrNorm.nfc b))) ∧
    (∀ s, mkSet [.str a, .str b] = .ok s →
      evalAttr s "count" = .ok (.rat (if StrNorm.nfc a = StrNorm.nfc b then 1 else 2))) := by
  refine ⟨?_, ?_, ?_⟩
  · simp [mkSet, mkSetS, sameKinds, normSc, dedup]
  · by_cases h : StrNorm.nfc a = StrNorm.nfc b <;>
      simp [evalBin, setSet, setKind, Scalar.kind, setEq, subsetL, h, eq_comm]
  · intro s hs
    by_cases h : StrNorm.nfc a = StrNorm.nfc b
    · have : s = .set [.str (StrNorm.nfc b)] := by
        simpa [mkSet, mkSetS, sameKinds, normSc, dedup, Scalar.kind, h] using hs.symm
      subst this; simp [evalAttr, h]
    · have : s = .set [.str (StrNorm.nfc a), .str (StrNorm.nfc b)] := by
        simpa [mkSet, mkSetS, sameKinds, normSc, dedup, Scalar.kind, h] using hs.symm
      subst this; simp [evalAttr, h]

example : @eval StrNorm.plain [] (.setLit []) = .error (.invalid .emptySet) := by decide +kernel

/-- `.min` / `.max` of a set of rationals are its least / greatest element, `.count` its cardinality. -/
theorem C04.sets_attributes [StrNorm] (a : Rat) (l : List Scalar) (hl : ∀ x ∈ l, ∃ q, x = .rat q) :
    (∃ m : Rat, evalAttr (.set (.rat a :: l)) "min" = .ok (.rat m) ∧ Scalar.rat m ∈ (Scalar.rat a :: l) ∧
        ∀ q, Scalar.rat q ∈ (Scalar.rat a :: l) → m ≤ q) ∧
    (∃ m : Rat, evalAttr (.set (.rat a :: l)) "max" = .ok (.rat m) ∧ Scalar.rat m ∈ (Scalar.rat a :: l) ∧
        ∀ q, Scalar.rat q ∈ (Scalar.rat a :: l) → q ≤ m) ∧
    evalAttr (.set (.rat a :: l)) "count" = .ok (.rat ((l.length + 1 : Nat) : Rat)) := by
  refine ⟨?_, ?_, ?_⟩
  · obtain ⟨m, hm, hmem, hma, hall⟩ := reduceCmp_min a l hl
    refine ⟨m, by simp [evalAttr, hm, Except.map], ?_, ?_⟩
    · rcases hmem with rfl | h
      · simp
      · simp [h]
    · intro q hq
      rcases List.mem_cons.mp hq with h | h
      · simp only [Scalar.rat.injEq] at h; subst h; exact hma
      · exact hall q h
  · obtain ⟨m, hm, hmem, hma, hall⟩ := reduceCmp_max a l hl
    refine ⟨m, by simp [evalAttr, hm, Except.map], ?_, ?_⟩
    · rcases hmem with rfl | h
      · simp
      · simp [h]
    · intro q hq
      rcases List.mem_cons.mp hq with h | h
      · simp only [Scalar.rat.injEq] at h; subst h; exact hma
      · exact hall q h
  · simp [evalAttr]

example : @evalAttr StrNorm.plain (.set [.rat 3, .rat 1, .rat 2]) "min" = .ok (.rat 1) := by decide +kernel

/-! ## literals -/

/-- Integer literals in the prefixed bases, with digit separators anywhere the grammar admits them and either letter
    case, denote the number their digits denote in that base. -/
theorem C04.literals_prefixed (radix : Nat) (p : Char) (ws : List DigitW) (hne : ws ≠ [])
    (hp : (radix = 2 ∧ (p = 'b' ∨ p = 'B')) ∨ (radix = 8 ∧ (p = 'o' ∨ p = 'O')) ∨ (radix = 16 ∧ (p = 'x' ∨ p = 'X')))
    (h : ∀ w ∈ ws, w.d < radix) :
    decodeInt ('0' :: p :: writeDigits ws) = .ok (numeral radix (ws.map (·.d))) :=
  decodeInt_prefixed radix p ws hne hp h

example : decodeInt "0x_Ff_0".toList = .ok 4080 := by decide +kernel

/-- Decimal integer literals (within CPython's 4300-digit conversion limit) denote their digits in base ten. -/
theorem C04.literals_decimal (ws : List DigitW) (hne : ws ≠ []) (h : ∀ w ∈ ws, w.d < 10) (hlen : ws.length ≤ pyIntMaxDigits) :
    decodeInt (writeDigits ws) = .ok (numeral 10 (ws.map (·.d))) :=
  decodeInt_decimal ws hne h hlen

example : decodeInt "1_000_000".toList = .ok 1000000 := by decide +kernel

/-! ## precedence and associativity -/

/-- The grammar's rule layering realises exactly the precedence table by which the printer places parentheses:
    printing any expression tree with minimal parentheses and parsing the tokens with the PEG gives the tree back.
    This covers `-2**2`, `2**-1`, `!a == b`, `||`/`&&` on one level, left-associative chains and the
    right-associative `**`, for every tree. -/
theorem C04.precedence (e : Expr) : parseTokens (toks e) = some e := roundtrip_min e

example : toks (.un .neg (.bin .pow (.lit (.int "2")) (.lit (.int "2"))))
    = [.sym .minus, .lit (.int "2"), .sym .starstar, .lit (.int "2")] := by decide
example : toks (.bin .pow (.un .neg (.lit (.int "2"))) (.lit (.int "2")))
    = [.lp, .sym .minus, .lit (.int "2"), .rp, .sym .starstar, .lit (.int "2")] := by decide

/-- the same for the printer that parenthesises every compound sub-expression -/
def C04.precedence_full_statement : Prop := ∀ e : Expr, parseTokens (toksFull e) = some e

theorem C04.precedence_full : C04.precedence_full_statement := roundtrip_full

example : toksFull (.un .neg (.bin .pow (.lit (.int "2")) (.lit (.int "2"))))
    = [.lp, .sym .minus, .lp, .lit (.int "2"), .sym .starstar, .lit (.int "2"), .rp, .rp] := by decide

/-- **Precedence is independent of redundant parentheses.**  `Paren 0 e ts` (Proofs/ExprParen.lean) is the family of all
    token lists obtained from the minimal rendering `toks e` by additionally wrapping any sub-expression -- compound or
    atomic, the whole expression included -- in any number of pairs of parentheses (rule `Paren.wrap`; the other rules
    are the clauses of `toksAt`, so the parentheses the precedence table requires are always present).  Every member
    of the family is parsed back to `e` by the PEG. -/
theorem C04.precedence_any_parens {e : Expr} {ts : List Tok} (h : Paren 0 e ts) : parseTokens ts = some e :=
  paren_roundtrip h

/-- the two printers of the model belong to the family, and the family is closed under wrapping the whole rendering in
    any number of pairs -/
theorem C04.precedence_family (e : Expr) :
    Paren 0 e (toks e) ∧ Paren 0 e (toksFull e) ∧
    (∀ ts, Paren 0 e ts → ∀ n, Paren 0 e (wrapN (n+1) ts)) :=
  ⟨paren_toks e, paren_toksFull 0 e, fun _ h n => h.wrapN n 0⟩

/-- `((1)) + (2 * ((3)))` is an admissible rendering of `1 + 2 * 3` -/
example : Paren 0 (.bin .add (.lit (.int "1")) (.bin .mul (.lit (.int "2")) (.lit (.int "3"))))
    [.lp, .lp, .lit (.int "1"), .rp, .rp, .sym .plus, .lp, .lit (.int "2"), .sym .star, .lp, .lp, .lit (.int "3"), .rp, .rp, .rp] :=
  Paren.bin 0 .add _ _ [.lp, .lp, .lit (.int "1"), .rp, .rp] [.lp, .lit (.int "2"), .sym .star, .lp, .lp, .lit (.int "3"), .rp, .rp, .rp]
    (by decide)
    (Paren.wrap _ _ [.lp, .lit (.int "1"), .rp] (Paren.wrap _ _ [.lit (.int "1")] (Paren.lit _ _)))
    (Paren.wrap _ _ [.lit (.int "2"), .sym .star, .lp, .lp, .lit (.int "3"), .rp, .rp]
      (Paren.bin 0 .mul _ _ [.lit (.int "2")] [.lp, .lp, .lit (.int "3"), .rp, .rp] (by decide) (Paren.lit _ _)
        (Paren.wrap _ _ [.lp, .lit (.int "3"), .rp] (Paren.wrap _ _ [.lit (.int "3")] (Paren.lit _ _)))))

/-- The parentheses the table requires cannot be dropped: no token list is an admissible rendering of two different
    trees (so `1 + 2 * 3` without parentheses is no rendering of `(1 + 2) * 3`). -/
theorem C04.precedence_unambiguous {e e' : Expr} {ts : List Tok} (h : Paren 0 e ts) (h' : Paren 0 e' ts) : e = e' :=
  paren_unique h h'

/-! ## characters -/

/-- **The terminals of the grammar, longest match included, invert the renderer.**  For every list of well-formed
    tokens (`Tok.ok`: the text of the token is one terminal that denotes it -- decidable) and every spacing `σ` (any run
    of spaces and tabs before each token and at the end; a single space is put where two neighbours would fuse into
    other terminals: `*`+`*`, `<`+`==`, `1`+`.`, name+name …), lexing the rendered characters gives the tokens back.
    This covers `<=` before `<`, `**` before `*`, `||`, `&&`, `==`, `!=`, `>=`, identifiers and `true`/`false`,
    integer literals in the four bases, real literals in every form, and both kinds of string literals. -/
theorem C04.lexer_roundtrip (σ : Spacing) (ts : List Tok) (hok : ∀ t ∈ ts, t.ok = true) :
    lex (renderToks σ ts) = some ts := lex_render σ ts hok

example : (∀ t ∈ [Tok.id "a", .sym .le, .sym .minus, .lit (.int "0x_fF"), .sym .starstar, .lit (.real "1.5e-3"), .sym .oror,
      .sym .bang, .lit (.bool true), .sym .neq, .lit (.str "'it\\'s'"), .dot, .id "count"], t.ok = true) := by decide
example : renderToks (fun _ => []) [Tok.sym .star, .sym .starstar, .sym .lt, .sym .eqeq, .lit (.int "1"), .dot, .id "a", .id "b"]
    = "* **< ==1 .a b".toList := by decide
example : renderToks (fun i => if i = 2 then [true, false] else []) [Tok.id "a", .sym .le, .sym .minus, .lit (.int "1")]
    = "a<=\t -1".toList := by decide
example : renderToks (fun _ => []) [Tok.lit (.int "0xE"), .sym .plus, .lit (.real "1e+1"), .sym .minus, .lit (.int "2")]
    = "0xE+1e+1-2".toList := by decide
/-- what is not a terminal of its kind: an identifier the grammar reads as a literal or a type, a literal with a stray
    separator -/
example : (Tok.id "trueish").ok = false ∧ (Tok.id "uint8x").ok = false ∧ (Tok.lit (.int "1_")).ok = false ∧
    (Tok.lit (.int "0x")).ok = false ∧ (Tok.lit (.real "1")).ok = false := by decide

/-- Characters → value for integer literals: the text of a prefixed literal as the grammar writes it (`0b` / `0o` / `0x`,
    either case, digit separators), followed by anything that is no name character and no `.`, is ONE terminal, lexed as
    an integer literal of exactly that text, and that text denotes the number of its digits. -/
theorem C04.lexer_literals_prefixed (radix : Nat) (p : Char) (ws : List DigitW) (hne : ws ≠ [])
    (hp : (radix = 2 ∧ (p = 'b' ∨ p = 'B')) ∨ (radix = 8 ∧ (p = 'o' ∨ p = 'O')) ∨ (radix = 16 ∧ (p = 'x' ∨ p = 'X')))
    (h : ∀ w ∈ ws, w.d < radix) (R : List Char) (hR : ∀ c ∈ R.head?, isIdentChar c = false ∧ c ≠ '.') :
    lexOne ('0' :: p :: writeDigits ws ++ R) = some (.lit (.int (String.ofList ('0' :: p :: writeDigits ws))), R) ∧
    evalLit (.int (String.ofList ('0' :: p :: writeDigits ws))) = .ok (.rat ((numeral radix (ws.map (·.d)) : Nat) : Rat)) := by
  refine ⟨lexOne_prefixed radix p ws hne hp h R (fun c hc => by simp [qNum, (hR c hc).1, (hR c hc).2]), ?_⟩
  simp [evalLit, decodeInt_prefixed radix p ws hne hp h, Except.map]

/-- … and the same for decimal literals `[1-9](_?[0-9])*` within CPython's conversion limit. -/
theorem C04.lexer_literals_decimal (w : DigitW) (ws : List DigitW) (hus : w.us = false) (h0 : w.d ≠ 0)
    (h : ∀ x ∈ w :: ws, x.d < 10) (hlen : (w :: ws).length ≤ pyIntMaxDigits)
    (R : List Char) (hR : ∀ c ∈ R.head?, isIdentChar c = false ∧ c ≠ '.') :
    lexOne (writeDigits (w :: ws) ++ R) = some (.lit (.int (String.ofList (writeDigits (w :: ws)))), R) ∧
    evalLit (.int (String.ofList (writeDigits (w :: ws)))) = .ok (.rat ((numeral 10 ((w :: ws).map (·.d)) : Nat) : Rat)) := by
  refine ⟨lexOne_decimal w ws hus h0 h R (fun c hc => by simp [qNum, (hR c hc).1, (hR c hc).2]), ?_⟩
  simp only [evalLit, String.toList_ofList, decodeInt_decimal (w :: ws) (by simp) h hlen, Except.map]

example : lexOne "0x_fF+1".toList = some (.lit (.int "0x_fF"), "+1".toList) := by decide
example : lexOne "1_000<=".toList = some (.lit (.int "1_000"), "<=".toList) := by decide
example : lexOne "1.e5)".toList = some (.lit (.real "1.e5"), ")".toList) := by decide

/-- **Characters → tree.**  Any admissible parenthesisation of any tree whose literals and names are terminals
    (`Expr.lexOk`, decidable), rendered with any blanks, is lexed and parsed back to the tree. -/
theorem C04.chars_roundtrip {e : Expr} {ts : List Tok} (h : Paren 0 e ts) (hok : e.lexOk = true) (σ : Spacing) :
    parseChars (renderToks σ ts) = some e := parseChars_render h hok σ

/-- … in particular for the two printers of the model -/
theorem C04.chars_roundtrip_printers (e : Expr) (hok : e.lexOk = true) (σ : Spacing) :
    parseChars (renderToks σ (toks e)) = some e ∧ parseChars (renderToks σ (toksFull e)) = some e :=
  ⟨parseChars_render (paren_toks e) hok σ, parseChars_render (paren_toksFull 0 e) hok σ⟩

example : (Expr.bin .lt (.lit (.int "1")) (.un .neg (.attr (.lit (.int "1")) "count"))).lexOk = true := by decide
example : renderToks (fun i => if i = 1 then [false, true] else [])
    (toks (.bin .lt (.lit (.int "1")) (.un .neg (.attr (.lit (.int "1")) "count")))) = "1 \t<-1 .count".toList := by decide

/-! ## real literals -/

/-- Point notation `digits? . digits?` (digit separators anywhere the grammar admits them): the decoded rational is
    exactly the digits' number divided by ten to the number of fraction digits. -/
theorem C04.literals_real_point (ip fp : List DigitW) (hne : ip ≠ [] ∨ fp ≠ [])
    (hi : ∀ w ∈ ip, w.d < 10) (hf : ∀ w ∈ fp, w.d < 10) (hlen : ip.length + fp.length ≤ pyIntMaxDigits) :
    decodeReal (writeDigits ip ++ '.' :: writeDigits fp)
      = .ok ((numeral 10 ((ip ++ fp).map (·.d)) : Rat) * (10 : Rat) ^ (- (fp.length : Int))) :=
  decodeReal_point_zpow ip fp hne hi hf hlen

example : decodeReal "1_0.2_5".toList = .ok (41/4) := by decide +kernel

/-- Exponent notation `(digits | point notation) (e|E) [+-] digits`: the decoded rational is exactly
    mantissa × 10^(±exponent − number of fraction digits). -/
theorem C04.literals_real_exponent (ip fp : List DigitW) (dot : Bool) (E : Char) (sign : Option Bool) (ed : List DigitW)
    (hE : E = 'e' ∨ E = 'E') (hne : ip ≠ [] ∨ (dot = true ∧ fp ≠ [])) (hdot : dot = false → fp = []) (hed : ed ≠ [])
    (hi : ∀ w ∈ ip, w.d < 10) (hf : ∀ w ∈ fp, w.d < 10) (he : ∀ w ∈ ed, w.d < 10)
    (hlen : ip.length + fp.length ≤ pyIntMaxDigits) :
    decodeReal (writeDigits ip ++ (if dot then '.' :: writeDigits fp else []) ++ E :: signChars sign ++ writeDigits ed)
      = .ok ((numeral 10 ((ip ++ fp).map (·.d)) : Rat)
          * (10 : Rat) ^ ((if sign = some true then - (numeral 10 (ed.map (·.d)) : Int) else (numeral 10 (ed.map (·.d)) : Int))
                - (fp.length : Int))) :=
  decodeReal_exp_zpow ip fp dot E sign ed hE hne hdot hed hi hf he hlen

example : decodeReal ".5e-3".toList = .ok (1/2000) := by decide +kernel
example : decodeReal "1e10".toList = .ok 10000000000 := by decide +kernel
example : decodeReal "1_0.2_5E+0_3".toList = .ok 10250 := by decide +kernel
