import Proofs.WireExt
import Proofs.WireExtConv
import Proofs.WireTotal
import Proofs.WireValid
import Props.C06
/-! C07 — deserialization is total, obeys implicit truncation and zero extension, and rejects illegal lengths,
    tags and headers.  `dec`/`deserialize` of `Model/Wire.lean` are total functions by construction (Lean
    definitions by structural recursion), and pure: the result depends on the given bits only. -/
open Wire

/-- Totality with the error classes: `deserialize` returns a value or fails with one of the four decode errors
    (ArrayLengthError / UnionTagError / DelimiterHeaderError — SerDesError — or ValueError); the model's other
    error classes (TypeError, UnionFieldError) cannot come out of it. -/
theorem C07.total (t : Ty) (bits : List Bool) (hdr : Bool) :
    (∃ v, deserialize t bits hdr = .ok v) ∨ (∃ e, deserialize t bits hdr = .error e ∧ e.isDecodeError = true) := by
  unfold deserialize
  split
  · exact Or.inr ⟨_, rfl, rfl⟩
  · cases h : dec (if hdr = true then t else t.inner) ⟨0, bits⟩ with
    | ok p => exact Or.inl ⟨p.1, rfl⟩
    | error e => exact Or.inr ⟨e, rfl, dec_err _ _ _ h⟩

example : deserialize (.struct [.varr .byte 2] .sealed) (natBits 8 3) false = .error .arrayLength := rfl

/-- Whatever `dec` returns is valid for the type and is a fixed point: encoding it and decoding again (with
    anything appended) returns it. -/
theorem C07.valid_result (t : Ty) (r : R) (v : Val) (q : R) (hw : t.wf = true) (h : dec t r = .ok (v, q)) :
    valid t v = true ∧
      ∀ (o : Nat) (junk : List Bool), o % t.align = 0 →
        dec t ⟨o, enc t v o ++ junk⟩ = .ok (v, ⟨o + (enc t v o).length, junk⟩) :=
  ⟨dec_valid t r v q hw h, fun o junk ho => dec_enc t v hw (dec_valid t r v q hw h) o junk ho⟩

/-- The same at the entry points: a deserialized object re-serializes to a representation that deserializes to
    the same object. -/
theorem C07.fixed_point (t : Ty) (bits : List Bool) (hdr : Bool) (v : Val) (hw : t.wf = true)
    (h : deserialize t bits hdr = .ok v) :
    valid t v = true ∧
      ∀ junk, deserialize t (enc (if hdr = true then t else t.inner) v 0 ++ junk) hdr = .ok v := by
  unfold deserialize at h ⊢
  split at h
  · cases h
  · rename_i hc
    simp only [hc, Bool.false_eq_true, if_false]
    simp only [bind_ok] at h
    obtain ⟨⟨w, q⟩, hd, he⟩ := h
    cases he
    cases hdr with
    | true =>
      simp only [if_true] at hd ⊢
      have hv := dec_valid t _ _ _ hw hd
      exact ⟨hv, fun junk => by simp only [bind_ok]; exact ⟨_, dec_enc t _ hw hv 0 junk (Nat.zero_mod _), rfl⟩⟩
    | false =>
      simp only [Bool.false_eq_true, if_false] at hd ⊢
      have hv := dec_valid t.inner _ _ _ (wf_inner t hw) hd
      exact ⟨by rw [← valid_inner]; exact hv,
        fun junk => by simp only [bind_ok]; exact ⟨_, dec_enc t.inner _ (wf_inner t hw) hv 0 junk (Nat.zero_mod _), rfl⟩⟩

set_option maxRecDepth 4000 in
example : deserialize C06.exT (enc C06.exT C06.exV 0 ++ [true, false, true]) false = .ok C06.exV := by rfl

/-- Implicit truncation: bits after a complete representation are ignored. -/
theorem C07.truncation (t : Ty) (v : Val) (junk : List Bool) (hw : t.wf = true) (hv : valid t v = true) :
    deserialize t (enc t.inner v 0 ++ junk) false = .ok v := by
  unfold deserialize
  simp only [Bool.false_and, Bool.false_eq_true, if_false, bind_ok]
  exact ⟨_, dec_enc t.inner v (wf_inner t hw) (by rw [valid_inner]; exact hv) 0 junk (Nat.zero_mod _), rfl⟩

/-- Implicit zero extension: if `b` decodes, `b` followed by zeros decodes to the same object. -/
theorem C07.zero_ext (t : Ty) (bits : List Bool) (k : Nat) (hdr : Bool) (v : Val)
    (h : deserialize t bits hdr = .ok v) : deserialize t (bits ++ zeros k) hdr = .ok v := by
  unfold deserialize at h ⊢
  split at h
  · cases h
  · rename_i hc
    simp only [hc, Bool.false_eq_true, if_false]
    simp only [bind_ok] at h ⊢
    obtain ⟨⟨w, q⟩, hd, he⟩ := h
    cases he
    obtain ⟨q', h1, _⟩ := dec_ext _ ⟨0, bits⟩ ⟨0, bits ++ zeros k⟩ _ _ ⟨rfl, k, rfl⟩ hd
    exact ⟨_, h1, rfl⟩

/-- Converse: if `b` followed by zeros decodes, then `b` decodes to the same object — unless a delimiter header
    exceeds the data available in `b` (the exception the property names). -/
theorem C07.zero_ext_conv (t : Ty) (bits : List Bool) (k : Nat) (hdr : Bool) (v : Val)
    (h : deserialize t (bits ++ zeros k) hdr = .ok v) :
    deserialize t bits hdr = .ok v ∨ deserialize t bits hdr = .error .delimiterHeader := by
  unfold deserialize at h ⊢
  split at h
  · cases h
  · rename_i hc
    simp only [hc, Bool.false_eq_true, if_false]
    simp only [bind_ok] at h
    obtain ⟨⟨w, q⟩, hd, he⟩ := h
    cases he
    rcases dec_extConv _ ⟨0, bits⟩ ⟨0, bits ++ zeros k⟩ _ _ ⟨rfl, k, rfl⟩ hd with ⟨q0, h1, _⟩ | herr
    · left; simp only [bind_ok]; exact ⟨_, h1, rfl⟩
    · right; simp only [bind_err]; exact Or.inl herr

example : deserialize (.struct [.uint 8 .sat] (.delimited 8)) (natBits 32 1) true = .error .delimiterHeader ∧
    deserialize (.struct [.uint 8 .sat] (.delimited 8)) (natBits 32 1 ++ zeros 8) true = .ok (.recd [.int 0]) :=
  ⟨rfl, rfl⟩

/-- … at any position inside any container: stability of every decoding step under zero extension of the
    readable window (this is what makes the bounded sub-reader of nested delimited objects consistent). -/
theorem C07.zero_ext_step (t : Ty) (r r' : R) (v : Val) (q : R) (he : Ext r r') (h : dec t r = .ok (v, q)) :
    ∃ q', dec t r' = .ok (v, q') ∧ Ext q q' :=
  dec_ext t r r' v q he h

example : Ext ⟨3, [true]⟩ ⟨3, [true, false, false]⟩ := ⟨rfl, 2, rfl⟩

/-- An array length prefix above the capacity is rejected, not clamped. -/
theorem C07.rejects_length (e : Ty) (cap : Nat) (r : R)
    (h : bitsNat (r.read (lenBits cap)).1 > cap) : dec (.varr e cap) r = .error .arrayLength := by
  simp only [dec, h, if_true]

/-- A union tag that does not name a variant is rejected (sealed union; for a delimited one the same happens
    inside the sub-reader). -/
theorem C07.rejects_tag (fs : List Ty) (r : R)
    (h : bitsNat (r.read (tagBits fs.length)).1 ≥ fs.length) : dec (.union fs .sealed) r = .error .unionTag := by
  have hv : ∀ (ts : List Ty) (n : Nat) (q : R), n ≥ ts.length → decVariant ts n q = .error .unionTag := by
    intro ts
    induction ts with
    | nil => intro n q _; simp [decVariant]
    | cons t ts ih =>
      intro n q hn
      cases n with
      | zero => simp at hn
      | succ n => simp only [decVariant]; exact ih n q (by simpa using hn)
  simp only [dec, unwrapDelim, hv _ _ _ h]
  rfl

/-- A delimiter header that announces more bytes than remain in the current window is rejected. -/
theorem C07.rejects_header (body : R → Except Err (Val × R)) (x : Nat) (r : R)
    (h : bitsNat (r.read headerBits).1 * 8 > (r.read headerBits).2.s.length) :
    unwrapDelim (.delimited x) r body = .error .delimiterHeader := by
  have : shorter (r.read headerBits).2.s (bitsNat (r.read headerBits).1 * 8) = true := by
    rw [shorter_iff]; exact decide_eq_true h
  simp only [unwrapDelim, this, if_true]

example : dec (.struct [.uint 8 .sat] (.delimited 8)) ⟨0, natBits 32 2 ++ natBits 8 7⟩ = .error .delimiterHeader := rfl
