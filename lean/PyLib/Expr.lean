/-!
  PyLib.Expr: the Lean meaning of the *dynamically typed* Python fragment that `tools/py2lean_expr.py` translates
  (`pydsdl/_expression/{_any,_primitive,_container,_operator}.py` → `Gen/ExprOps.lean`).  Import-free.

  * Every Python value is an `Obj`: the native values the fragment manipulates (`None`, `NotImplemented`, `bool`, `int`,
    `fractions.Fraction` as a normalised numerator / denominator pair, `str` as a list of code points, `list` (also the
    meaning of tuples, generators and iterators), `frozenset` / `set`, class objects) and instances of the classes the
    translated modules define (`inst cls attrs`: the class and the instance dictionary, kept sorted by attribute name).
  * Exceptions are explicit: `E = Except Exc`; an exception is identified by its class (messages are not modelled, the
    arguments of an exception constructor are not evaluated).
  * Late binding (module globals that are referenced before / across their definition, and the `__eq__` / `__hash__` /
    `__bool__` / `__iter__` protocols that the builtins call back into user classes) goes through an `Env` record of
    functions; the generated module ties the knot with a recursion budget (`Gen.env n`).
  * A `frozenset` is a duplicate-free list.  Two objects are one element when their hashes are equal and `==` holds
    (`sameElem`); hashes of native values are idealised as collision-free keys (`hash`).  CPython's iteration order is
    unspecified; this file fixes one (`fsOfList` keeps the last of several equal elements in place) — statements about
    generated code must not depend on it.
  * `float` does not exist here: the one operation of the fragment that yields a float (a power with a non-integral
    exponent) is `Exc.unmodelled` (or the `OverflowError` / complex result that CPython produces for operands outside
    the double range / a negative base).
-/
namespace Py

/-- exception classes: the builtins the fragment can raise, the four classes of `_expression/_any.py` (their base classes
    are read from the source, see `Gen.excMro`), and `unmodelled` for behaviour outside this file -/
inductive Exc where
  | ZeroDivisionError | OverflowError | ValueError | TypeError | AttributeError | AssertionError | IndexError | NameError
  | NotImplementedError | StopIteration
  | RecursionError
  | InvalidDefinitionError | InvalidOperandError | UndefinedOperatorError | UndefinedAttributeError
  | unmodelled (what : String)
  deriving DecidableEq, Repr, Inhabited

abbrev E := Except Exc

/-- classes: builtins and the classes of `pydsdl/_expression` -/
inductive Cls where
  | object | type | NoneType | NotImplementedType | bool | int | float | complex | str | list | frozenset | Fraction
  | Any | Primitive | Boolean | Rational | String | Container | Set
  deriving DecidableEq, Repr, Inhabited

inductive Obj where
  | none
  | notImplemented
  | bool (b : Bool)
  | int (i : Int)
  | frac (num : Int) (den : Nat)
  | complex
  | str (cs : List Nat)
  | list (es : List Obj)
  | fset (es : List Obj)
  | cls (c : Cls)
  | inst (c : Cls) (attrs : List (String × Obj))
  deriving Repr, Inhabited

mutual
/-- structural equality (identity of idealised hash keys, `is` on `NotImplemented` / classes) -/
def Obj.beq : Obj → Obj → Bool
  | .none, .none => true
  | .notImplemented, .notImplemented => true
  | .bool a, .bool b => a == b
  | .int a, .int b => a == b
  | .frac a c, .frac b d => a == b && c == d
  | .complex, .complex => true
  | .str a, .str b => a == b
  | .list a, .list b => Obj.beqList a b
  | .fset a, .fset b => Obj.beqList a b
  | .cls a, .cls b => a == b
  | .inst c a, .inst d b => c == d && Obj.beqAttrs a b
  | _, _ => false
def Obj.beqList : List Obj → List Obj → Bool
  | [], [] => true
  | x :: xs, y :: ys => Obj.beq x y && Obj.beqList xs ys
  | _, _ => false
def Obj.beqAttrs : List (String × Obj) → List (String × Obj) → Bool
  | [], [] => true
  | (k, x) :: xs, (l, y) :: ys => k == l && Obj.beq x y && Obj.beqAttrs xs ys
  | _, _ => false
end

instance : BEq Obj := ⟨Obj.beq⟩

/-- what the builtins call back into (user classes) and what is bound late (module globals) -/
structure Env where
  /-- `unicodedata.normalize("NFC", ·)` on code points -/
  nfc : List Nat → List Nat
  /-- `type(a).__eq__(a, b)` -/
  ueq : Obj → Obj → E Obj
  /-- `type(a).__hash__(a)` -/
  uhash : Obj → E Obj
  /-- `type(a).__bool__(a)` (`True` for a class without it) -/
  ubool : Obj → E Obj
  /-- `type(a).__iter__(a)` -/
  uiter : Obj → E Obj
  /-- a binary function that is a global of one of the translated modules, by qualified name -/
  glob : String → Obj → Obj → E Obj

def classOf : Obj → Cls
  | .none => .NoneType
  | .notImplemented => .NotImplementedType
  | .bool _ => .bool
  | .int _ => .int
  | .frac _ _ => .Fraction
  | .complex => .complex
  | .str _ => .str
  | .list _ => .list
  | .fset _ => .frozenset
  | .cls _ => .type
  | .inst c _ => c

/-- `type(x)` -/
def type_ (_env : Env) (x : Obj) : E Obj := pure (.cls (classOf x))

def clsOf? : Obj → Option Cls
  | .cls c => some c
  | _ => none

/-- a class or a tuple of classes -/
def clsList? : Obj → Option (List Cls)
  | .cls c => some [c]
  | .list es => es.mapM clsOf?
  | _ => none

/-- `isinstance(x, c)`; `mro c` = the linearised bases of `c`, itself included -/
def isinstance (mro : Cls → List Cls) (_env : Env) (x c : Obj) : E Obj :=
  match clsList? c with
  | some cs => pure (.bool (cs.any fun k => (mro (classOf x)).contains k))
  | none => throw .TypeError

/-- `issubclass(a, c)` -/
def issubclass (mro : Cls → List Cls) (_env : Env) (a c : Obj) : E Obj :=
  match clsOf? a, clsList? c with
  | some k, some cs => pure (.bool (cs.any fun c => (mro k).contains c))
  | _, _ => throw .TypeError

def lookupAttr (k : String) : List (String × Obj) → Option Obj
  | [] => none
  | (a, v) :: r => if a = k then some v else lookupAttr k r

def insertAttr (k : String) (v : Obj) : List (String × Obj) → List (String × Obj)
  | [] => [(k, v)]
  | (a, w) :: r => if a = k then (k, v) :: r else if k < a then (k, v) :: (a, w) :: r else (a, w) :: insertAttr k v r

/-- `x.name` for an instance attribute -/
def getattr (_env : Env) (x : Obj) (name : String) : E Obj :=
  match x with
  | .inst _ attrs => match lookupAttr name attrs with
    | some v => pure v
    | none => throw .AttributeError
  | _ => throw .AttributeError

/-- `x.name = v` (the updated object is the result) -/
def setattr (_env : Env) (x : Obj) (name : String) (v : Obj) : E Obj :=
  match x with
  | .inst c attrs => pure (.inst c (insertAttr name v attrs))
  | _ => throw .AttributeError

/-- `assert b` -/
def assert_ (b : Bool) : E Unit := if b then pure () else throw .AssertionError

/-- `try: x  except e: h e` -/
def try_ {α : Type} (x : E α) (h : Exc → E α) : E α :=
  match x with
  | .ok a => .ok a
  | .error e => h e

/-! ### numbers -/

/-- `bool` / `int` as an integer -/
def int? : Obj → Option Int
  | .bool b => some (if b then 1 else 0)
  | .int i => some i
  | _ => none

/-- `bool` / `int` / `Fraction` as numerator and denominator -/
def num? : Obj → Option (Int × Nat)
  | .bool b => some (if b then 1 else 0, 1)
  | .int i => some (i, 1)
  | .frac n d => some (n, d)
  | _ => none

/-- `Fraction(n, d)` for `d > 0`: lowest terms -/
def mkFrac (n : Int) (d : Nat) : Obj :=
  let g := Nat.gcd n.natAbs d
  .frac (n / (g : Int)) (d / g)

/-- `Fraction(n, d)` for integers: the sign goes to the numerator, `ZeroDivisionError` for `d = 0` -/
def mkFracI (n d : Int) : E Obj :=
  if d = 0 then throw .ZeroDivisionError
  else if d < 0 then pure (mkFrac (-n) (-d).toNat)
  else pure (mkFrac n d.toNat)

/-- `fractions.Fraction(x)` of one argument -/
def Fraction (_env : Env) (x : Obj) : E Obj :=
  match x with
  | .frac n d => pure (.frac n d)
  | .complex => throw .TypeError
  | _ => match int? x with
    | some i => pure (.frac i 1)
    | none => throw .TypeError

/-- `int(x)` -/
def int_ (_env : Env) (x : Obj) : E Obj :=
  match x with
  | .frac n d => pure (.int (Int.tdiv n d))
  | _ => match int? x with
    | some i => pure (.int i)
    | none => throw .TypeError

/-- `x.numerator` -/
def attr_numerator (_env : Env) (x : Obj) : E Obj :=
  match num? x with
  | some (n, _) => pure (.int n)
  | none => throw .AttributeError

/-- `x.denominator` -/
def attr_denominator (_env : Env) (x : Obj) : E Obj :=
  match num? x with
  | some (_, d) => pure (.int d)
  | none => throw .AttributeError

/-! Python's `|`, `^`, `&` on unbounded integers: two's complement with an infinite sign extension -/

/-- `a & ~b` on naturals -/
def natAndNot (a b : Nat) : Nat := a ^^^ (a &&& b)

def intAnd : Int → Int → Int
  | .ofNat a, .ofNat b => .ofNat (a &&& b)
  | .ofNat a, .negSucc b => .ofNat (natAndNot a b)
  | .negSucc a, .ofNat b => .ofNat (natAndNot b a)
  | .negSucc a, .negSucc b => .negSucc (a ||| b)

def intOr : Int → Int → Int
  | .ofNat a, .ofNat b => .ofNat (a ||| b)
  | .ofNat a, .negSucc b => .negSucc (natAndNot b a)
  | .negSucc a, .ofNat b => .negSucc (natAndNot a b)
  | .negSucc a, .negSucc b => .negSucc (a &&& b)

def intXor : Int → Int → Int
  | .ofNat a, .ofNat b => .ofNat (a ^^^ b)
  | .ofNat a, .negSucc b => .negSucc (a ^^^ b)
  | .negSucc a, .ofNat b => .negSucc (a ^^^ b)
  | .negSucc a, .negSucc b => .ofNat (a ^^^ b)

/-- an operator on two numbers: `fi` when both are `bool` / `int`, `ff` when a `Fraction` takes part -/
def arith (fi : Int → Int → E Obj) (ff : Int × Nat → Int × Nat → E Obj) (a b : Obj) : E Obj :=
  match int? a, int? b with
  | some i, some j => fi i j
  | _, _ => match num? a, num? b with
    | some x, some y => ff x y
    | _, _ => throw .TypeError

/-- `a + b`: numbers, or the concatenation of two `str` -/
def op_add (_env : Env) (a b : Obj) : E Obj :=
  match a, b with
  | .str x, .str y => pure (.str (x ++ y))
  | _, _ => arith (fun i j => pure (.int (i + j)))
      (fun x y => pure (mkFrac (x.1 * y.2 + y.1 * x.2) (x.2 * y.2))) a b

def op_sub (_env : Env) (a b : Obj) : E Obj :=
  arith (fun i j => pure (.int (i - j))) (fun x y => pure (mkFrac (x.1 * y.2 - y.1 * x.2) (x.2 * y.2))) a b

def op_mul (_env : Env) (a b : Obj) : E Obj :=
  arith (fun i j => pure (.int (i * j))) (fun x y => pure (mkFrac (x.1 * y.1) (x.2 * y.2))) a b

/-- `a / b`: `int / int` is a float (outside the fragment); `Fraction._div` -/
def op_truediv (_env : Env) (a b : Obj) : E Obj :=
  arith (fun _ j => if j = 0 then throw .ZeroDivisionError else throw (.unmodelled "float"))
    (fun x y => mkFracI (x.1 * y.2) (x.2 * y.1)) a b

/-- `a % b`: the sign of the divisor (`Int.fmod`); `Fraction._mod` -/
def op_mod (_env : Env) (a b : Obj) : E Obj :=
  arith (fun i j => if j = 0 then throw .ZeroDivisionError else pure (.int (Int.fmod i j)))
    (fun x y => if y.1 * x.2 = 0 then throw .ZeroDivisionError
                else pure (mkFrac (Int.fmod (x.1 * y.2) (y.1 * x.2)) (x.2 * y.2))) a b

def pow2_1024 : Int := 2 ^ 1024

/-- is `|n / d|` at least 2 ** 1024 (`float(Fraction)` raises `OverflowError`; values that round up to 2 ** 1024 are
    not distinguished) -/
def fracHuge (x : Int × Nat) : Bool := decide (pow2_1024 * x.2 ≤ x.1) || decide (x.1 ≤ -(pow2_1024 * x.2))

/-- `Fraction.__pow__`: an integral exponent is exact (`0 ** negative` raises `ZeroDivisionError`); any other exponent
    computes `float(a) ** float(b)`: `OverflowError` from the conversions of operands beyond the double range, a complex
    number for a negative base, and a float - outside this fragment - otherwise -/
def fracPow (x y : Int × Nat) : E Obj :=
  if y.2 = 1 then
    if 0 ≤ y.1 then pure (.frac (x.1 ^ y.1.toNat) (x.2 ^ y.1.toNat))
    else if 0 < x.1 then pure (.frac ((x.2 : Int) ^ (-y.1).toNat) (x.1.toNat ^ (-y.1).toNat))
    else if x.1 = 0 then throw .ZeroDivisionError
    else pure (.frac ((-(x.2 : Int)) ^ (-y.1).toNat) ((-x.1).toNat ^ (-y.1).toNat))
  else if x.1 < 0 then pure .complex
  else if fracHuge x || fracHuge y then throw .OverflowError
  else throw (.unmodelled "float")

def op_pow (_env : Env) (a b : Obj) : E Obj :=
  arith (fun i j => if 0 ≤ j then pure (.int (i ^ j.toNat)) else throw (.unmodelled "float")) fracPow a b

def op_neg (_env : Env) (a : Obj) : E Obj :=
  match a with
  | .frac n d => pure (.frac (-n) d)
  | _ => match int? a with
    | some i => pure (.int (-i))
    | none => throw .TypeError

def op_pos (_env : Env) (a : Obj) : E Obj :=
  match a with
  | .frac n d => pure (.frac n d)
  | _ => match int? a with
    | some i => pure (.int i)
    | none => throw .TypeError

def intOp (f : Int → Int → Int) (a b : Obj) : E Obj :=
  match a, b with
  | .bool x, .bool y => pure (.bool (f (if x then 1 else 0) (if y then 1 else 0) != 0))
  | _, _ => match int? a, int? b with
    | some i, some j => pure (.int (f i j))
    | _, _ => throw .TypeError


def cmpNum (f : Int → Int → Bool) (a b : Obj) : E Obj :=
  match num? a, num? b with
  | some x, some y => pure (.bool (f (x.1 * y.2) (y.1 * x.2)))
  | _, _ => throw .TypeError


/-! ### truth, equality, hashing -/

/-- `bool(x)` -/
def truthy (env : Env) (x : Obj) : E Bool :=
  match x with
  | .none => pure false
  | .notImplemented => pure true
  | .bool b => pure b
  | .int i => pure (i != 0)
  | .frac n _ => pure (n != 0)
  | .complex => pure true
  | .str cs => pure (!cs.isEmpty)
  | .list es => pure (!es.isEmpty)
  | .fset es => pure (!es.isEmpty)
  | .cls _ => pure true
  | .inst c a => do
    match ← env.ubool (.inst c a) with
    | .bool b => pure b
    | _ => throw .TypeError

/-- `not x` -/
def not_ (env : Env) (x : Obj) : E Obj := do
  let b ← truthy env x
  pure (.bool (!b))

/-- `hash(x)`: an idealised, collision-free key; numbers that are equal have one key -/
def hash (env : Env) (x : Obj) : E Obj :=
  match x with
  | .inst c a => env.uhash (.inst c a)
  | .none => pure .none
  | .bool b => pure (.int (if b then 1 else 0))
  | .int i => pure (.int i)
  | .frac n d => pure (if d = 1 then .int n else .frac n d)
  | .str cs => pure (.str cs)
  | .cls c => pure (.cls c)
  | .list _ => throw .TypeError
  | _ => throw (.unmodelled "hash")

def isInst : Obj → Bool
  | .inst _ _ => true
  | _ => false

/-- `==` on native values other than containers: numbers by value, everything else structurally -/
def eqNative (a b : Obj) : Bool :=
  match num? a, num? b with
  | some x, some y => x.1 == y.1 && x.2 == y.2
  | _, _ => a == b

/-- `a == b` when an instance of a user class takes part: `type(a).__eq__(a, b)`, then the reflected call, then identity
    (two objects that answer `NotImplemented` to each other are taken to be distinct objects) -/
def instEq (env : Env) (a b : Obj) : E Obj := do
  let r ← if isInst a then env.ueq a b else pure .notImplemented
  if r != .notImplemented then pure r
  else
    let r' ← if isInst b then env.ueq b a else pure .notImplemented
    if r' != .notImplemented then pure r' else pure (.bool false)

/-- `a == b` for the elements of a set: instances of user classes and native values that are no containers -/
def eqElem (env : Env) (a b : Obj) : E Obj :=
  if isInst a || isInst b then instEq env a b
  else match a, b with
    | .fset _, _ | _, .fset _ | .list _, _ | _, .list _ => throw (.unmodelled "container ==")
    | _, _ => pure (.bool (eqNative a b))

/-- are `a` (stored) and `b` (probe) one element of a set: equal hashes and `a == b` -/
def sameElem (env : Env) (a b : Obj) : E Bool := do
  let ha ← hash env a
  let hb ← hash env b
  if ha == hb then
    let r ← eqElem env a b
    truthy env r
  else pure false

/-- `x in s` -/
def fsContains (env : Env) (s : List Obj) (x : Obj) : E Bool :=
  match s with
  | [] => pure false
  | y :: ys => do
    if ← sameElem env y x then pure true else fsContains env ys x

/-- `a <= b` on sets -/
def fsSubset (env : Env) (a b : List Obj) : E Bool :=
  match a with
  | [] => pure true
  | x :: xs => do
    if ← fsContains env b x then fsSubset env xs b else pure false

/-- `a == b` -/
def eq (env : Env) (a b : Obj) : E Obj :=
  if isInst a || isInst b then instEq env a b
  else match a, b with
    | .fset x, .fset y => do
      let l ← fsSubset env x y
      let r ← fsSubset env y x
      pure (.bool (l && r))
    | .list _, .list _ => throw (.unmodelled "list ==")
    | _, _ => pure (.bool (eqNative a b))

/-- `a != b` (no class of the fragment defines `__ne__`) -/
def ne (env : Env) (a b : Obj) : E Obj := do
  let r ← eq env a b
  not_ env r

/-! ### iteration, containers -/

def iterNative : Obj → E (List Obj)
  | .list es => pure es
  | .fset es => pure es
  | _ => throw .TypeError

/-- the elements `for x in it` visits -/
def iterToList (env : Env) (it : Obj) : E (List Obj) :=
  match it with
  | .inst c a => do
    let r ← env.uiter (.inst c a)
    iterNative r
  | _ => iterNative it

/-- `iter(x)`: an iterator is identified with the list of the elements it has yet to yield -/
def iter (env : Env) (x : Obj) : E Obj := do
  let l ← iterToList env x
  pure (.list l)

/-- `next(it)`: the element and the advanced iterator -/
def next (_env : Env) (it : Obj) : E (Obj × Obj) :=
  match it with
  | .list (x :: xs) => pure (x, .list xs)
  | .list [] => throw .StopIteration
  | _ => throw .TypeError

/-- `for x in it: body` where `body` updates the loop-carried state `σ` -/
def forIn {σ : Type} (env : Env) (it : Obj) (init : σ) (body : σ → Obj → E σ) : E σ := do
  let l ← iterToList env it
  l.foldlM body init

/-- `list(x)` -/
def list_ (env : Env) (x : Obj) : E Obj := do
  let l ← iterToList env x
  pure (.list l)

/-- `len(x)` -/
def len (_env : Env) (x : Obj) : E Obj :=
  match x with
  | .str cs => pure (.int cs.length)
  | .list es => pure (.int es.length)
  | .fset es => pure (.int es.length)
  | _ => throw .TypeError

/-- `x[i]` on a list -/
def getitem (_env : Env) (x i : Obj) : E Obj :=
  match x, int? i with
  | .list es, some k =>
    let j : Int := if k < 0 then k + es.length else k
    if j < 0 then throw .IndexError
    else match es[j.toNat]? with
      | some v => pure v
      | none => throw .IndexError
  | _, _ => throw .TypeError

/-- the elements of `frozenset(l)`: of several equal elements the last one stays, in its place -/
def fsOfList (env : Env) : List Obj → E (List Obj)
  | [] => pure []
  | x :: xs => do
    let s ← fsOfList env xs
    if ← fsContains env s x then pure s else pure (x :: s)

/-- `frozenset(x)` / `set(x)` -/
def frozenset (env : Env) (x : Obj) : E Obj := do
  let l ← iterToList env x
  let s ← fsOfList env l
  pure (.fset s)

def filterE {α : Type} (p : α → E Bool) : List α → E (List α)
  | [] => pure []
  | x :: xs => do
    let b ← p x
    let r ← filterE p xs
    pure (if b then x :: r else r)

def fsOf : Obj → E (List Obj)
  | .fset es => pure es
  | _ => throw .AttributeError

/-- `a.issubset(b)` -/
def fs_issubset (env : Env) (a b : Obj) : E Obj := do
  let x ← fsOf a
  let y ← iterToList env b
  pure (.bool (← fsSubset env x y))

/-- `a.issuperset(b)` -/
def fs_issuperset (env : Env) (a b : Obj) : E Obj := do
  let x ← fsOf a
  let y ← iterToList env b
  pure (.bool (← fsSubset env y x))

/-- `a.union(b)` -/
def fs_union (env : Env) (a b : Obj) : E Obj := do
  let x ← fsOf a
  let y ← iterToList env b
  pure (.fset (← fsOfList env (x ++ y)))

/-- `a.intersection(b)` -/
def fs_intersection (env : Env) (a b : Obj) : E Obj := do
  let x ← fsOf a
  let y ← iterToList env b
  pure (.fset (← filterE (fun e => fsContains env y e) x))

/-- `a.symmetric_difference(b)` -/
def fs_symmetric_difference (env : Env) (a b : Obj) : E Obj := do
  let x ← fsOf a
  let y ← iterToList env b
  let l ← filterE (fun e => do pure (!(← fsContains env y e))) x
  let r ← filterE (fun e => do pure (!(← fsContains env x e))) y
  pure (.fset (← fsOfList env (l ++ r)))

/-! `|`, `^`, `&` and the order comparisons: integers / numbers, or two frozensets (union, symmetric difference, intersection;
    sub- and superset) -/

def op_or (env : Env) (a b : Obj) : E Obj :=
  match a, b with
  | .fset _, .fset _ => fs_union env a b
  | _, _ => intOp intOr a b

def op_xor (env : Env) (a b : Obj) : E Obj :=
  match a, b with
  | .fset _, .fset _ => fs_symmetric_difference env a b
  | _, _ => intOp intXor a b

def op_and (env : Env) (a b : Obj) : E Obj :=
  match a, b with
  | .fset _, .fset _ => fs_intersection env a b
  | _, _ => intOp intAnd a b

def op_le (env : Env) (a b : Obj) : E Obj :=
  match a, b with
  | .fset x, .fset y => do pure (.bool (← fsSubset env x y))
  | _, _ => cmpNum (fun i j => decide (i ≤ j)) a b

def op_ge (env : Env) (a b : Obj) : E Obj :=
  match a, b with
  | .fset x, .fset y => do pure (.bool (← fsSubset env y x))
  | _, _ => cmpNum (fun i j => decide (j ≤ i)) a b

def op_lt (env : Env) (a b : Obj) : E Obj :=
  match a, b with
  | .fset x, .fset y => do
    let l ← fsSubset env x y
    let r ← fsSubset env y x
    pure (.bool (l && !r))
  | _, _ => cmpNum (fun i j => decide (i < j)) a b

def op_gt (env : Env) (a b : Obj) : E Obj :=
  match a, b with
  | .fset x, .fset y => do
    let l ← fsSubset env y x
    let r ← fsSubset env x y
    pure (.bool (l && !r))
  | _, _ => cmpNum (fun i j => decide (j < i)) a b

/-- `map(f, it)` -/
def map_ (env : Env) (f : Obj → E Obj) (it : Obj) : E Obj := do
  let l ← iterToList env it
  pure (.list (← l.mapM f))

/-- a generator expression `(f x for x in it)` -/
def genexp (env : Env) (f : Obj → E Obj) (it : Obj) : E Obj := map_ env f it

/-- a list comprehension `[f x for x in it]` -/
def listcomp (env : Env) (f : Obj → E Obj) (it : Obj) : E Obj := map_ env f it

/-- `functools.reduce(f, it)` -/
def reduce (env : Env) (f : Obj → Obj → E Obj) (it : Obj) : E Obj := do
  match ← iterToList env it with
  | [] => throw .TypeError
  | x :: xs => xs.foldlM f x

/-- `lst.append(v)` on a list that nothing else refers to: the extended list (the translator rebinds the name) -/
def list_append (_env : Env) (lst v : Obj) : E Obj :=
  match lst with
  | .list es => pure (.list (es ++ [v]))
  | _ => throw .AttributeError

/-- objects of which there is one per value (`None`, `NotImplemented`, `True` / `False`, classes): for them identity is equality -/
def isSingleton : Obj → Bool
  | .none | .notImplemented | .bool _ | .cls _ => true
  | _ => false

/-- `a is b`: decided when one of the operands is a singleton object; the identity of other objects is not a function of
    their values and stays outside the fragment -/
def is_ (_env : Env) (a b : Obj) : E Obj :=
  if isSingleton a || isSingleton b then pure (.bool (a == b)) else throw (.unmodelled "is")

/-- `a is not b` -/
def is_not (env : Env) (a b : Obj) : E Obj := do
  let r ← is_ env a b
  not_ env r

/-- the values of an unpacking assignment `a, b, *c, d = x` (`before` names, an optional starred name that receives a list,
    `after` names): `ValueError` when the number of elements does not fit -/
def unpack (env : Env) (x : Obj) (before : Nat) (star : Bool) (after : Nat) : E (List Obj) := do
  let l ← iterToList env x
  if star then
    if l.length < before + after then throw .ValueError
    else pure (l.take before ++ [.list ((l.drop before).take (l.length - before - after))] ++ l.drop (l.length - after))
  else if l.length = before then pure l else throw .ValueError

/-- the i-th value of an unpacking -/
def nth (l : List Obj) (i : Nat) : Obj := l.getD i .none

def anyL (env : Env) (f : Obj → E Obj) : List Obj → E Obj
  | [] => pure (.bool false)
  | x :: xs => do
    let v ← f x
    if ← truthy env v then pure (.bool true) else anyL env f xs

def allL (env : Env) (f : Obj → E Obj) : List Obj → E Obj
  | [] => pure (.bool true)
  | x :: xs => do
    let v ← f x
    if ← truthy env v then allL env f xs else pure (.bool false)

/-- `any(f(x) for x in it)`: stops at the first true element (the rest is not evaluated) -/
def anyM (env : Env) (f : Obj → E Obj) (it : Obj) : E Obj := do
  let l ← iterToList env it
  anyL env f l

/-- `all(f(x) for x in it)`: stops at the first false element -/
def allM (env : Env) (f : Obj → E Obj) (it : Obj) : E Obj := do
  let l ← iterToList env it
  allL env f l

/-- `unicodedata.normalize(form, s)`; only the form "NFC" -/
def normalize (env : Env) (form s : Obj) : E Obj :=
  match form, s with
  | .str [78, 70, 67], .str cs => pure (.str (env.nfc cs))
  | .str _, .str _ => throw (.unmodelled "normalization form")
  | _, _ => throw .TypeError

end Py
