/-
  Model of the constant-expression sublanguage of pydsdl: literals, operators, evaluation, printing, parsing.
  Import-free, total, executable.  Mirrors

    pydsdl/grammar.parsimonious   (section "Expressions" and "Literals": rule layering = precedence)
    pydsdl/_parser.py             (_visit_binary_operator_chain, visit_op1_form_*, visit_literal_*, _parse_string_literal,
                                   _unwrap_array_capacity)
    pydsdl/_expression/_primitive.py  (Rational / Boolean / String operator methods)
    pydsdl/_expression/_container.py  (Set: algebra, element-wise application, min/max/count)
    pydsdl/_expression/_operator.py   (_auto_swap dispatch)
    pydsdl/_data_type_builder.py      (resolve_top_level_identifier, @print/@assert/@extent handlers)

  Scope notes (what is *not* modelled is an explicit outcome, never a silent guess):
    * a set whose elements are sets is `Err.unsupported` (the library supports it; min/max of such sets depend on the
      hash iteration order);
    * a power with a non-integral exponent goes through Python floats: `Err.inexact` (or a hazard, see `scPow`);
    * type expressions (`uint8`, `ns.T.1.0`) as atoms are not part of `Expr`;
    * strings are identified by their NFC form in the library: `String._equal` (the `==` / `!=` operators) and
      `String.__eq__` / `__hash__` (the identity of set elements) normalise, `+` and `@print` work on the raw text.  The
      evaluator is parametric in the normalisation function (`class StrNorm`); a set keeps the normal form of a string
      element as its representative (the library keeps the raw text of the first spelling it met, which no operator of
      the language can tell apart).  `Ucd.nfc` below is the algorithm of UAX #15 (canonical decomposition, canonical
      ordering, canonical composition, Hangul arithmetically) over character data handed in per case.
-/
namespace Ex

/-! ## Values -/

inductive Scalar where
  | rat (q : Rat)
  | bool (b : Bool)
  | str (cs : List Nat)      -- code points (a Python `str` may hold lone surrogates, a Lean `String` may not)
  deriving DecidableEq, Repr, Inhabited

/-- `Val := rat | bool | str | set`; sets are duplicate-free lists of scalars of one kind (never empty). -/
inductive Val where
  | sc (s : Scalar)
  | set (es : List Scalar)
  deriving DecidableEq, Repr, Inhabited

@[match_pattern] abbrev Val.rat (q : Rat) : Val := .sc (.rat q)
@[match_pattern] abbrev Val.bool (b : Bool) : Val := .sc (.bool b)
@[match_pattern] abbrev Val.str (cs : List Nat) : Val := .sc (.str cs)

inductive Kind where
  | rat | bool | str | set
  deriving DecidableEq, Repr

def Scalar.kind : Scalar → Kind
  | .rat _ => .rat
  | .bool _ => .bool
  | .str _ => .str

def Val.kind : Val → Kind
  | .sc s => s.kind
  | .set _ => .set

/-- Why a definition is rejected (soft information: all of these are `InvalidDefinitionError`s). -/
inductive InvKind where
  | undefinedOp | divZero | nonInteger | emptySet | hetero | undefinedAttr | undefinedIdent | syntax
  | directive | constant | typeParam
  deriving DecidableEq, Repr

/-- Python operations on the evaluation path that raise something that is not a pydsdl `Error`. -/
inductive Hazard where
  | powComplex        -- negative base, non-integral exponent: `float ** float` is complex, `Fraction(complex)` raises
  | powFloatOverflow  -- `float(Fraction)` of a value beyond the double range
  | chrRange          -- `chr()` of an escape above 0x10FFFF
  | surrogateEncode   -- `str.encode("utf8")` of a lone surrogate (in `Constant.__init__`)
  | intDigitLimit     -- `int()` / `Fraction()` of more than 4300 decimal digits
  | strDigitLimit     -- `str()` of an integer of more than 4300 decimal digits (`@print`)
  deriving DecidableEq, Repr

inductive Err where
  | invalid (k : InvKind)
  | hazard (h : Hazard)
  | inexact
  | unsupported
  deriving DecidableEq, Repr

abbrev R := Except Err

def inval {α} (k : InvKind) : R α := .error (.invalid k)

/-! ## Unicode normalisation form C

  `String._equal` compares `unicodedata.normalize("NFC", ·)` of both operands; everything else (`+`, set membership,
  `@print`) works on the raw code points.  The evaluator takes the normalisation as a parameter (`StrNorm`), so every
  theorem about it holds for every normalisation function.  The driver instantiates it with `Ucd.nfc`: the
  normalisation algorithm of UAX #15 / Unicode chapter 3.11 over an extract of the Unicode Character Database for the code
  points of the case (canonical combining classes, full canonical decompositions, primary composites).  Hangul
  syllables are decomposed and composed arithmetically (chapter 3.12) and need no data. -/

/-- the normalisation function behind string `==` / `!=` -/
class StrNorm where
  nfc : List Nat → List Nat

/-- no normalisation: adequate for texts that are their own normal form (ASCII, for one); used by closed examples -/
@[reducible] def StrNorm.plain : StrNorm := ⟨id⟩

/-- extract of the Unicode Character Database; a code point without an entry has class 0, no decomposition and takes
    part in no pair -/
structure Ucd where
  ccc : List (Nat × Nat)            -- Canonical_Combining_Class where it is not 0
  dec : List (Nat × List Nat)       -- full canonical decomposition (NFD of the single character), Hangul syllables left out
  comp : List ((Nat × Nat) × Nat)   -- primary composites (first, second) ↦ composite; composition exclusions left out
  deriving Repr, Inhabited

def Ucd.empty : Ucd := ⟨[], [], []⟩

def Ucd.cccOf (u : Ucd) (c : Nat) : Nat := (u.ccc.lookup c).getD 0

def hSBase : Nat := 0xAC00
def hLBase : Nat := 0x1100
def hVBase : Nat := 0x1161
def hTBase : Nat := 0x11A7
def hLCount : Nat := 19
def hVCount : Nat := 21
def hTCount : Nat := 28
def hNCount : Nat := 588      -- VCount * TCount
def hSCount : Nat := 11172    -- LCount * NCount

/-- arithmetic decomposition of a Hangul syllable into L V (T) -/
def hangulDecomp (s : Nat) : Option (List Nat) :=
  if hSBase ≤ s ∧ s < hSBase + hSCount then
    let i := s - hSBase
    let l := hLBase + i / hNCount
    let v := hVBase + (i % hNCount) / hTCount
    let t := i % hTCount
    some (if t = 0 then [l, v] else [l, v, hTBase + t])
  else none

/-- arithmetic composition: L + V, LV + T -/
def hangulComp (a b : Nat) : Option Nat :=
  if hLBase ≤ a ∧ a < hLBase + hLCount ∧ hVBase ≤ b ∧ b < hVBase + hVCount then
    some (hSBase + ((a - hLBase) * hVCount + (b - hVBase)) * hTCount)
  else if hSBase ≤ a ∧ a < hSBase + hSCount ∧ (a - hSBase) % hTCount = 0 ∧ hTBase < b ∧ b < hTBase + hTCount then
    some (a + (b - hTBase))
  else none

def Ucd.decompOf (u : Ucd) (c : Nat) : List Nat :=
  match hangulDecomp c with
  | some d => d
  | none => (u.dec.lookup c).getD [c]

def Ucd.pair (u : Ucd) (a b : Nat) : Option Nat :=
  match hangulComp a b with
  | some c => some c
  | none => u.comp.lookup (a, b)

/-- canonical ordering, one character of class `k > 0` into the reversed output: in front of every directly preceding
    character of a greater class (a starter, class 0, is a barrier; equal classes keep their order) -/
def Ucd.insertMark (u : Ucd) (c k : Nat) : List Nat → List Nat
  | [] => [c]
  | d :: r => if k < u.cccOf d then d :: u.insertMark c k r else c :: d :: r

def Ucd.orderStep (u : Ucd) (outRev : List Nat) (c : Nat) : List Nat :=
  let k := u.cccOf c
  if k = 0 then c :: outRev else u.insertMark c k outRev

/-- normalisation form D: full canonical decomposition, then canonical ordering -/
def Ucd.nfd (u : Ucd) (cs : List Nat) : List Nat :=
  ((cs.flatMap u.decompOf).foldl u.orderStep []).reverse

/-- state of the canonical composition pass -/
structure CompSt where
  done : List Nat          -- reversed: everything in front of the current starter
  starter : Option Nat     -- the last starter (possibly already a composite)
  tail : List Nat          -- reversed: the characters kept behind the current starter
  last : Nat               -- class of the last kept character, 0 directly behind the starter

def CompSt.out (s : CompSt) : List Nat :=
  (s.tail ++ (match s.starter with | some x => [x] | none => []) ++ s.done).reverse

/-- one character of a canonically ordered text: it combines with the last starter when the pair has a primary
    composite and the character is not blocked (no kept character of class 0 or of a class ≥ its own in between) -/
def Ucd.compStep (u : Ucd) (s : CompSt) (c : Nat) : CompSt :=
  let k := u.cccOf c
  let keep : CompSt :=
    if k = 0 then ⟨s.tail ++ (match s.starter with | some x => [x] | none => []) ++ s.done, some c, [], 0⟩
    else { s with tail := c :: s.tail, last := k }
  match s.starter with
  | none => keep
  | some st =>
    match u.pair st c with
    | some p => if s.last < k ∨ s.last = 0 then { s with starter := some p } else keep
    | none => keep

/-- normalisation form C: NFD, then canonical composition -/
def Ucd.nfc (u : Ucd) (cs : List Nat) : List Nat :=
  ((u.nfd cs).foldl u.compStep ⟨[], none, [], 0⟩).out

/-! ## Operators -/

inductive UnOp where
  | pos | neg | not
  deriving DecidableEq, Repr

inductive BinOp where
  | lor | land
  | eq | ne | le | ge | lt | gt
  | bor | bxor | band
  | add | sub
  | mul | div | mod
  | pow
  deriving DecidableEq, Repr

def BinOp.isArith : BinOp → Bool
  | .add | .sub | .mul | .div | .mod | .pow => true
  | _ => false

/-! ### Integers: Python's `|`, `^`, `&` on unbounded two's complement integers -/

/-- `a & ~b` on naturals -/
def natAndNot (a b : Nat) : Nat := a ^^^ (a &&& b)

def iand : Int → Int → Int
  | .ofNat a, .ofNat b => .ofNat (a &&& b)
  | .ofNat a, .negSucc b => .ofNat (natAndNot a b)
  | .negSucc a, .ofNat b => .ofNat (natAndNot b a)
  | .negSucc a, .negSucc b => .negSucc (a ||| b)

def ior : Int → Int → Int
  | .ofNat a, .ofNat b => .ofNat (a ||| b)
  | .ofNat a, .negSucc b => .negSucc (natAndNot b a)
  | .negSucc a, .ofNat b => .negSucc (natAndNot a b)
  | .negSucc a, .negSucc b => .negSucc (a &&& b)

def ixor : Int → Int → Int
  | .ofNat a, .ofNat b => .ofNat (a ^^^ b)
  | .ofNat a, .negSucc b => .negSucc (a ^^^ b)
  | .negSucc a, .ofNat b => .negSucc (a ^^^ b)
  | .negSucc a, .negSucc b => .ofNat (a ^^^ b)

/-! ### Rationals (`fractions.Fraction`) -/

def Rat.isInt' (q : Rat) : Bool := q.den == 1

/-- `Fraction.__mod__`: `a - b * floor(a / b)` (sign of the divisor) -/
def ratMod (a b : Rat) : Rat := a - b * ((a / b).floor : Int)

/-- `Fraction.__pow__` with an integral exponent (exact). `0 ** negative` raises `ZeroDivisionError`. -/
def ratPowInt (a : Rat) (n : Int) : R Rat :=
  if 0 ≤ n then .ok (a ^ n.toNat)
  else if a = 0 then inval .divZero
  else .ok ((a ^ (-n).toNat)⁻¹)

def pow2_1024 : Rat := (2 : Rat) ^ (1024 : Nat)

/-- `Rational._power`.  Integral exponent: exact.  Otherwise `float(a) ** float(b)`: a hazard for a negative base
    (complex result) or an operand outside the double range, and inexact by construction in every other case. -/
def scPow (a b : Rat) : R Rat :=
  if Rat.isInt' b then ratPowInt a b.num
  else if a < 0 then .error (.hazard .powComplex)
  else if pow2_1024 ≤ a ∨ pow2_1024 ≤ b ∨ b ≤ -pow2_1024 then .error (.hazard .powFloatOverflow)
  else .error .inexact

def bitwise (f : Int → Int → Int) (a b : Rat) : R Scalar :=
  if Rat.isInt' a && Rat.isInt' b then .ok (.rat (f a.num b.num : Int)) else inval .nonInteger

/-- `_operator.<op>(left, right)` on two primitives.  The swap rule never helps here: the mirrored method of a
    primitive rejects a primitive of another class as well, and for equal classes the error is re-raised.
    `String._add` concatenates the raw texts (nothing is normalised), `String._equal` compares the NFC forms. -/
def scBin [StrNorm] : BinOp → Scalar → Scalar → R Scalar
  | .add, .rat a, .rat b => .ok (.rat (a + b))
  | .sub, .rat a, .rat b => .ok (.rat (a - b))
  | .mul, .rat a, .rat b => .ok (.rat (a * b))
  | .div, .rat a, .rat b => if b = 0 then inval .divZero else .ok (.rat (a / b))
  | .mod, .rat a, .rat b => if b = 0 then inval .divZero else .ok (.rat (ratMod a b))
  | .pow, .rat a, .rat b => (scPow a b).map .rat
  | .eq, .rat a, .rat b => .ok (.bool (a == b))
  | .ne, .rat a, .rat b => .ok (.bool (a != b))
  | .le, .rat a, .rat b => .ok (.bool (a ≤ b))
  | .ge, .rat a, .rat b => .ok (.bool (b ≤ a))
  | .lt, .rat a, .rat b => .ok (.bool (a < b))
  | .gt, .rat a, .rat b => .ok (.bool (b < a))
  | .bor, .rat a, .rat b => bitwise ior a b
  | .bxor, .rat a, .rat b => bitwise ixor a b
  | .band, .rat a, .rat b => bitwise iand a b
  | .lor, .bool a, .bool b => .ok (.bool (a || b))
  | .land, .bool a, .bool b => .ok (.bool (a && b))
  | .eq, .bool a, .bool b => .ok (.bool (a == b))
  | .ne, .bool a, .bool b => .ok (.bool (a != b))
  | .add, .str a, .str b => .ok (.str (a ++ b))
  | .eq, .str a, .str b => .ok (.bool (StrNorm.nfc a == StrNorm.nfc b))
  | .ne, .str a, .str b => .ok (.bool (StrNorm.nfc a != StrNorm.nfc b))
  | _, _, _ => inval .undefinedOp

/-! ### Sets -/

/-- What identifies a scalar as an element of a set.  `String.__eq__` / `__hash__` compare the NFC forms, so two
    spellings of one text are one element: the model keeps the normal form as the representative. -/
def normSc [StrNorm] : Scalar → Scalar
  | .str cs => .str (StrNorm.nfc cs)
  | s => s

/-- one element of the result of an element-wise operator, as it is identified inside the new set -/
def scBinEl [StrNorm] (op : BinOp) (x y : Scalar) : R Scalar := (scBin op x y).map normSc

/-- `frozenset(l)` as a duplicate-free list (first occurrence kept) -/
def dedup : List Scalar → List Scalar
  | [] => []
  | x :: xs => if x ∈ dedup xs then dedup xs else x :: dedup xs

def sameKinds : List Scalar → Bool
  | [] => true
  | x :: xs => xs.all (fun y => y.kind == x.kind)

/-- `Set.__init__` on already evaluated primitive elements -/
def mkSetS (es : List Scalar) : R Val :=
  if es.isEmpty then inval .emptySet
  else if sameKinds es then .ok (.set (dedup es))
  else inval .hetero

/-- `Set.__init__` on evaluated elements (a set of sets is outside the model); strings are identified by their
    normal form. -/
def mkSet [StrNorm] (vs : List Val) : R Val :=
  if vs.isEmpty then inval .emptySet
  else
    let scs := vs.filterMap fun v => match v with | .sc s => some s | .set _ => none
    if scs.length == vs.length then mkSetS (scs.map normSc)
    else if vs.all (fun v => v.kind == .set) then .error .unsupported
    else inval .hetero

def setKind (es : List Scalar) : Option Kind := es.head?.map Scalar.kind

def subsetL (a b : List Scalar) : Bool := a.all (· ∈ b)
def setEq (a b : List Scalar) : Bool := subsetL a b && subsetL b a

/-- operators between two sets (`Set._equal`, `_less`, …, `_bitwise_*`; homotypic decorator first) -/
def setSet (op : BinOp) (a b : List Scalar) : R Val :=
  match op with
  | .eq | .ne | .le | .ge | .lt | .gt | .bor | .bxor | .band =>
    if setKind a != setKind b then inval .hetero
    else match op with
      | .eq => .ok (.bool (setEq a b))
      | .ne => .ok (.bool (!setEq a b))
      | .le => .ok (.bool (subsetL a b))
      | .ge => .ok (.bool (subsetL b a))
      | .lt => .ok (.bool (subsetL a b && !setEq a b))
      | .gt => .ok (.bool (subsetL b a && !setEq a b))
      | .bor => mkSetS (a ++ b)
      | .band => mkSetS (a.filter (· ∈ b))
      | .bxor => mkSetS (a.filter (· ∉ b) ++ b.filter (· ∉ a))
      | _ => inval .undefinedOp
  | _ => inval .undefinedOp

def mapR {α β} (f : α → R β) : List α → R (List β)
  | [] => .ok []
  | x :: xs => match f x with
    | .error e => .error e
    | .ok y => match mapR f xs with
      | .error e => .error e
      | .ok ys => .ok (y :: ys)

/-- The binary operators as dispatched by `_operator.py` (direct method, then the mirrored method of the right
    operand when the classes differ). -/
def evalBin [StrNorm] (op : BinOp) : Val → Val → R Val
  | .sc a, .sc b => (scBin op a b).map .sc
  | .set a, .sc b =>
      if op.isArith then (mapR (fun x => scBinEl op x b) a).bind mkSetS else inval .undefinedOp
  | .sc a, .set b =>
      if op.isArith then (mapR (fun x => scBinEl op a x) b).bind mkSetS else inval .undefinedOp
  | .set a, .set b => setSet op a b

def evalUn : UnOp → Val → R Val
  | .pos, .sc (.rat q) => .ok (.rat q)
  | .neg, .sc (.rat q) => .ok (.rat (-q))
  | .not, .sc (.bool b) => .ok (.bool (!b))
  | _, _ => inval .undefinedOp

/-- `functools.reduce(lambda a, b: a if less(a, b) else b, elements)`; `flip = true` for `greater`. -/
def reduceCmp [StrNorm] (flip : Bool) : Scalar → List Scalar → R Scalar
  | a, [] => .ok a
  | a, b :: rest =>
    match scBin (if flip then .gt else .lt) a b with
    | .ok (.bool true) => reduceCmp flip a rest
    | .ok _ => reduceCmp flip b rest
    | .error e => .error e

/-- `Set._attribute` / `Any._attribute` -/
def evalAttr [StrNorm] : Val → String → R Val
  | .set (x :: xs), "min" => (reduceCmp false x xs).map .sc
  | .set (x :: xs), "max" => (reduceCmp true x xs).map .sc
  | .set es, "count" => .ok (.rat (es.length : Nat))
  | _, _ => inval .undefinedAttr

/-! ## Literals (decoded from their source text, as the parse-tree visitors do) -/

inductive Lit where
  | int (text : String)     -- literal_integer
  | real (text : String)    -- literal_real
  | str (text : String)     -- literal_string, quotes included
  | bool (b : Bool)
  deriving DecidableEq, Repr

def digitVal (c : Char) : Option Nat :=
  if '0' ≤ c ∧ c ≤ '9' then some (c.toNat - 48)
  else if 'a' ≤ c ∧ c ≤ 'f' then some (c.toNat - 87)
  else if 'A' ≤ c ∧ c ≤ 'F' then some (c.toNat - 55)
  else none

/-- digits of a positional numeral, most significant first; `none` on a non-digit or an empty numeral -/
def digitsVal (radix : Nat) (cs : List Char) : Option Nat :=
  if cs.isEmpty then none
  else cs.foldl (fun acc c => match acc, digitVal c with
    | some a, some d => if d < radix then some (a * radix + d) else none
    | _, _ => none) (some 0)

def stripUnderscores (cs : List Char) : List Char := cs.filter (· != '_')

def pyIntMaxDigits : Nat := 4300

def optSyntax {α} : Option α → R α
  | some a => .ok a
  | none => inval .syntax

/-- `int(text.replace("_", ""), base=0)` -/
def decodeInt (cs : List Char) : R Nat :=
  match stripUnderscores cs with
  | '0' :: 'b' :: r | '0' :: 'B' :: r => optSyntax (digitsVal 2 r)
  | '0' :: 'o' :: r | '0' :: 'O' :: r => optSyntax (digitsVal 8 r)
  | '0' :: 'x' :: r | '0' :: 'X' :: r => optSyntax (digitsVal 16 r)
  | t => if t.length > pyIntMaxDigits then .error (.hazard .intDigitLimit) else optSyntax (digitsVal 10 t)

def splitAt1 (p : Char → Bool) : List Char → List Char × Option (List Char)
  | [] => ([], none)
  | c :: cs => if p c then ([], some cs) else
      let r := splitAt1 p cs
      (c :: r.1, r.2)

def pow10 (n : Nat) : Rat := ((10 ^ n : Nat) : Rat)

/-- `fractions.Fraction(text.replace("_", ""))` for the forms the grammar admits:
    `digits? [. digits?] [(e|E) [+-] digits]` -/
def decodeReal (cs : List Char) : R Rat :=
  let t := stripUnderscores cs
  let (mant, ex) := splitAt1 (fun c => c == 'e' || c == 'E') t
  let (ip, fpo) := splitAt1 (· == '.') mant
  let fp := fpo.getD []
  let ds := ip ++ fp
  if ds.length > pyIntMaxDigits then .error (.hazard .intDigitLimit) else
  match digitsVal 10 ds with
  | none => inval .syntax
  | some m =>
    let base : Rat := (m : Rat) / pow10 fp.length
    match ex with
    | none => .ok base
    | some ('-' :: ed) => (optSyntax (digitsVal 10 ed)).map fun e => base / pow10 e
    | some ('+' :: ed) => (optSyntax (digitsVal 10 ed)).map fun e => base * pow10 e
    | some ed => (optSyntax (digitsVal 10 ed)).map fun e => base * pow10 e

/-- state of `_parse_string_literal._next_symbol` -/
inductive SState where
  | normal
  | esc
  | hex (left : Nat) (acc : Nat)
  deriving Repr

def escTable (c : Char) : Option Nat :=
  match c.toLower with
  | 'r' => some 13 | 'n' => some 10 | 't' => some 9
  | '"' => some 34 | '\'' => some 39 | '\\' => some 92
  | _ => none

def strStep (st : SState × List Nat) (c : Char) : R (SState × List Nat) :=
  match st with
  | (.normal, out) => if c == '\\' then .ok (.esc, out) else .ok (.normal, c.toNat :: out)
  | (.esc, out) =>
      if c == 'u' then .ok (.hex 4 0, out)
      else if c == 'U' then .ok (.hex 8 0, out)
      else match escTable c with
        | some v => .ok (.normal, v :: out)
        | none => inval .syntax
  | (.hex left acc, out) =>
      match digitVal c with
      | none => inval .syntax
      | some d =>
        let acc' := acc * 16 + d
        if left ≤ 1 then
          if acc' > 0x10FFFF then .error (.hazard .chrRange) else .ok (.normal, acc' :: out)
        else .ok (.hex (left - 1) acc', out)

def strFold : SState × List Nat → List Char → R (SState × List Nat)
  | st, [] => .ok st
  | st, c :: cs => match strStep st c with
    | .error e => .error e
    | .ok st' => strFold st' cs

/-- `_parse_string_literal(text)`: `text` includes the enclosing quotes. -/
def decodeStr (cs : List Char) : R (List Nat) :=
  match cs with
  | [] | [_] => inval .syntax
  | _ :: rest =>
    match strFold (.normal, []) rest.dropLast with
    | .error e => .error e
    | .ok (.normal, out) => .ok out.reverse
    | .ok _ => inval .syntax      -- text ends inside an escape sequence

def evalLit : Lit → R Val
  | .int t => (decodeInt t.toList).map fun n => .rat (n : Nat)
  | .real t => (decodeReal t.toList).map .rat
  | .str t => (decodeStr t.toList).map .str
  | .bool b => .ok (.bool b)

/-! ## Expressions -/

inductive Expr where
  | lit (l : Lit)
  | ident (name : String)
  | setLit (es : List Expr)
  | un (op : UnOp) (e : Expr)
  | bin (op : BinOp) (l r : Expr)
  | attr (e : Expr) (name : String)
  deriving Repr, Inhabited

/-- constants of the definition that precede the expression (`resolve_top_level_identifier`) -/
abbrev Env := List (String × Val)

mutual
/-- Post-order, left to right, first error wins: the order in which parsimonious visits the parse tree. -/
def eval [StrNorm] (env : Env) : Expr → R Val
  | .lit l => evalLit l
  | .ident n => match env.lookup n with
      | some v => .ok v
      | none => inval .undefinedIdent
  | .setLit es => match evalList env es with
      | .error e => .error e
      | .ok vs => mkSet vs
  | .un op e => match eval env e with
      | .error x => .error x
      | .ok v => evalUn op v
  | .bin op l r => match eval env l with
      | .error x => .error x
      | .ok a => match eval env r with
        | .error x => .error x
        | .ok b => evalBin op a b
  | .attr e n => match eval env e with
      | .error x => .error x
      | .ok v => evalAttr v n
def evalList [StrNorm] (env : Env) : List Expr → R (List Val)
  | [] => .ok []
  | e :: es => match eval env e with
      | .error x => .error x
      | .ok v => match evalList env es with
        | .error x => .error x
        | .ok vs => .ok (v :: vs)
end

/-! ## Tokens, printer -/

inductive Sym where
  | bang | plus | minus
  | oror | andand
  | eqeq | neq | le | ge | lt | gt
  | bar | caret | amp
  | star | slash | percent
  | starstar
  deriving DecidableEq, Repr

inductive Tok where
  | lit (l : Lit)
  | id (s : String)
  | sym (s : Sym)
  | lp | rp | lb | rb | comma | dot
  deriving DecidableEq, Repr

def BinOp.sym : BinOp → Sym
  | .lor => .oror | .land => .andand
  | .eq => .eqeq | .ne => .neq | .le => .le | .ge => .ge | .lt => .lt | .gt => .gt
  | .bor => .bar | .bxor => .caret | .band => .amp
  | .add => .plus | .sub => .minus
  | .mul => .star | .div => .slash | .mod => .percent
  | .pow => .starstar

def UnOp.sym : UnOp → Sym
  | .pos => .plus | .neg => .minus | .not => .bang

/-- Grammar level of an operator's rule:
    0 ex_logical, 1 ex_logical_not, 2 ex_comparison, 3 ex_bitwise, 4 ex_additive, 5 ex_multiplicative,
    6 ex_inversion, 7 ex_exponential, 8 ex_attribute, 9 expression_atom. -/
def BinOp.level : BinOp → Nat
  | .lor | .land => 0
  | .eq | .ne | .le | .ge | .lt | .gt => 2
  | .bor | .bxor | .band => 3
  | .add | .sub => 4
  | .mul | .div | .mod => 5
  | .pow => 7

def UnOp.level : UnOp → Nat
  | .not => 1
  | .pos | .neg => 6

def Expr.level : Expr → Nat
  | .lit _ | .ident _ | .setLit _ => 9
  | .un op _ => op.level
  | .bin op _ _ => op.level
  | .attr _ _ => 8

/-- level the grammar requires of the left / right operand of a binary operator -/
def BinOp.leftLevel (op : BinOp) : Nat := if op == .pow then 8 else op.level
def BinOp.rightLevel (op : BinOp) : Nat := if op == .pow then 6 else op.level + 1
/-- `op1_form_log_not = "!" ex_logical_not`, `op1_form_inv_* = ("+"|"-") ex_exponential` -/
def UnOp.operandLevel : UnOp → Nat
  | .not => 1
  | .pos | .neg => 7

mutual
/-- Token sequence of `e` in a position where the grammar demands level `k`: parentheses exactly where
    `e`'s own level is lower. -/
def toksAt (k : Nat) : Expr → List Tok
  | .lit l => [.lit l]
  | .ident n => [.id n]
  | .setLit es => [.lb] ++ toksList es ++ [.rb]
  | .un op e =>
      let body := [.sym op.sym] ++ toksAt op.operandLevel e
      if op.level < k then [.lp] ++ body ++ [.rp] else body
  | .bin op l r =>
      let body := toksAt op.leftLevel l ++ [.sym op.sym] ++ toksAt op.rightLevel r
      if op.level < k then [.lp] ++ body ++ [.rp] else body
  | .attr e n =>
      toksAt 8 e ++ [.dot, .id n]
def toksList : List Expr → List Tok
  | [] => []
  | [e] => toksAt 0 e
  | e :: es => toksAt 0 e ++ [.comma] ++ toksList es
end

/-- minimal parentheses -/
def toks (e : Expr) : List Tok := toksAt 0 e

mutual
/-- every compound sub-expression in parentheses -/
def toksFull : Expr → List Tok
  | .lit l => [.lit l]
  | .ident n => [.id n]
  | .setLit es => [.lb] ++ toksFullList es ++ [.rb]
  | .un op e => [.lp, .sym op.sym] ++ toksFull e ++ [.rp]
  | .bin op l r => [.lp] ++ toksFull l ++ [.sym op.sym] ++ toksFull r ++ [.rp]
  | .attr e n => [.lp] ++ toksFull e ++ [.dot, .id n, .rp]
def toksFullList : List Expr → List Tok
  | [] => []
  | [e] => toksFull e
  | e :: es => toksFull e ++ [.comma] ++ toksFullList es
end

/-! ## Parser: the PEG of grammar.parsimonious at token level (ordered choice, greedy repetition, backtracking
    out of a failed optional/repeated group) -/

/-- binary operator tokens of a chain rule (`op2_log`, `op2_cmp`, `op2_bit`, `op2_add`, `op2_mul`) -/
def chainOp (k : Nat) (s : Sym) : Option BinOp :=
  match k, s with
  | 0, .oror => some .lor | 0, .andand => some .land
  | 2, .eqeq => some .eq | 2, .ge => some .ge | 2, .le => some .le | 2, .neq => some .ne | 2, .lt => some .lt | 2, .gt => some .gt
  | 3, .bar => some .bor | 3, .caret => some .bxor | 3, .amp => some .band
  | 4, .plus => some .add | 4, .minus => some .sub
  | 5, .star => some .mul | 5, .slash => some .div | 5, .percent => some .mod
  | _, _ => none

abbrev PRes := Option (Expr × List Tok)

mutual
/-- `parse fuel k ts`: the rule of level `k` applied at the head of `ts`. -/
def parse : Nat → Nat → List Tok → PRes
  | 0, _, _ => none
  | f+1, k, ts =>
    match k with
    | 0 | 2 | 3 | 4 | 5 =>
        match parse f (k+1) ts with
        | none => none
        | some (e, r) => chainLoop f k e r
    | 1 =>                                          -- ex_logical_not = op1_form_log_not / ex_comparison
        match ts with
        | .sym .bang :: r =>
            match parse f 1 r with
            | some (e, r') => some (.un .not e, r')
            | none => parse f 2 ts
        | _ => parse f 2 ts
    | 6 =>                                          -- ex_inversion = inv_pos / inv_neg / ex_exponential
        match ts with
        | .sym .plus :: r =>
            match parse f 7 r with
            | some (e, r') => some (.un .pos e, r')
            | none => parse f 7 ts
        | .sym .minus :: r =>
            match parse f 7 r with
            | some (e, r') => some (.un .neg e, r')
            | none => parse f 7 ts
        | _ => parse f 7 ts
    | 7 =>                                          -- ex_exponential = ex_attribute (op2_exp ex_inversion)?
        match parse f 8 ts with
        | none => none
        | some (e, .sym .starstar :: r) =>
            match parse f 6 r with
            | some (x, r') => some (.bin .pow e x, r')
            | none => some (e, .sym .starstar :: r)
        | some (e, r) => some (e, r)
    | 8 =>                                          -- ex_attribute = expression_atom (op2_attrib identifier)*
        match parse f 9 ts with
        | none => none
        | some (e, r) => attrLoop f e r
    | _ =>                                          -- expression_atom
        match ts with
        | .lp :: r =>
            match parse f 0 r with
            | some (e, .rp :: r') => some (e, r')
            | _ => none
        | .lb :: r =>
            match parseList f r with
            | (es, .rb :: r') => some (.setLit es, r')
            | _ => none
        | .lit l :: r => some (.lit l, r)
        | .id s :: r => some (.ident s, r)
        | _ => none
def chainLoop : Nat → Nat → Expr → List Tok → PRes
  | 0, _, _, _ => none
  | f+1, k, acc, ts =>
    match ts with
    | .sym s :: r =>
        match chainOp k s with
        | none => some (acc, ts)
        | some op =>
            match parse f (k+1) r with
            | some (x, r') => chainLoop f k (.bin op acc x) r'
            | none => some (acc, ts)
    | _ => some (acc, ts)
def attrLoop : Nat → Expr → List Tok → PRes
  | 0, _, _ => none
  | f+1, acc, ts =>
    match ts with
    | .dot :: .id n :: r => attrLoop f (.attr acc n) r
    | _ => some (acc, ts)
/-- expression_list = (expression ("," expression)*)? -/
def parseList : Nat → List Tok → List Expr × List Tok
  | 0, ts => ([], ts)
  | f+1, ts =>
    match parse f 0 ts with
    | none => ([], ts)
    | some (e, r) => listLoop f [e] r
def listLoop : Nat → List Expr → List Tok → List Expr × List Tok
  | 0, acc, ts => (acc, ts)
  | f+1, acc, ts =>
    match ts with
    | .comma :: r =>
        match parse f 0 r with
        | some (e, r') => listLoop f (acc ++ [e]) r'
        | none => (acc, ts)
    | _ => (acc, ts)
end

/-- fuel that suffices for any token list: every call either descends one of the ten levels or consumes a token -/
def fuelFor (ts : List Tok) : Nat := 100 * ts.length + 100

/-- The whole token list as one `expression`. -/
def parseTokens (ts : List Tok) : Option Expr :=
  match parse (fuelFor ts) 0 ts with
  | some (e, []) => some e
  | _ => none

/-! ## Contexts in which the library evaluates a constant expression -/

/-- `@print`: the value itself, but `str()` of a huge integer is a hazard -/
def digitsBound : Nat := 10 ^ 4300
def observePrint : Val → R Val
  | .sc (.rat q) =>
      if (digitsBound : Int) ≤ q.num ∨ q.num ≤ -(digitsBound : Int) ∨ digitsBound ≤ q.den then .error (.hazard .strDigitLimit)
      else .ok (.rat q)
  | .set es =>
      if es.any (fun s => match s with
        | .rat q => decide ((digitsBound : Int) ≤ q.num ∨ q.num ≤ -(digitsBound : Int) ∨ digitsBound ≤ q.den)
        | _ => false) then .error (.hazard .strDigitLimit) else .ok (.set es)
  | v => .ok v

/-- `@assert`: a boolean, and only `true` passes (`false` is reported as the value `false`) -/
def observeAssert : Val → R Val
  | .sc (.bool b) => .ok (.bool b)
  | _ => inval .directive

/-- `_unwrap_array_capacity` + the array constructors (`mode`: 0 fixed `[n]`, 1 inclusive `[<=n]`, 2 exclusive `[<n]`) -/
def observeCapacity (mode : Nat) : Val → R Val
  | .sc (.rat q) =>
      if !Rat.isInt' q then inval .nonInteger
      else
        let n : Int := if mode == 2 then q.num - 1 else q.num
        -- variable-length arrays: the length prefix `2 ** ceil(log2(max(8, bit_length(n))))` must be a legal uint width
        if n < 1 ∨ (mode != 0 ∧ (2 : Int) ^ (64 : Nat) ≤ n) then inval .typeParam else .ok (.rat (n : Int))
  | _ => inval .typeParam

/-- `@extent` on an empty structure: an integer, non-negative, a multiple of 8 -/
def observeExtent : Val → R Val
  | .sc (.rat q) =>
      if !Rat.isInt' q then inval .nonInteger
      else if q.num < 0 ∨ q.num % 8 ≠ 0 then inval .typeParam
      else .ok (.rat q)
  | _ => inval .directive

/-! ## Characters: the terminals of grammar.parsimonious as a lexer, and a renderer with arbitrary blanks

  pydsdl's PEG is scannerless; the token level of this model (`Tok`, `parse`) factors it into "terminals" and "rules".
  `lexOne` is the terminal part: at one position it tries what the grammar tries there, in the grammar's order, every
  terminal matching the way its regex / literal does:

    * operators: the two-character forms before their one-character prefixes (`op2_cmp`: `<=` before `<`; `**` is reached
      through `ex_exponential` before `op2_mul` sees `*`; `||`, `&&`, `==`, `!=`, `>=`);
    * `expression_atom = "(" … / type / literal / identifier`, `literal = set / real / integer / string / boolean`:
      real before integer (exponent notation before point notation), binary / octal / hexadecimal before decimal,
      `true` / `false` before `identifier` (so `truex` is the literal `true` followed by `x`, as in the library);
    * `_ = [ \t]+` is skipped between terminals (every place where the grammar has `_?`).

  Not recognised (explicit `none`, like everywhere in this model): `type` atoms.  A word that starts like a primitive type
  (`bool…`, `byte…`, `utf8…`, `uint8…`, `int3…`, `float1…`, `void2…`) is matched by the rule `type` first in the library,
  so it is never an identifier there; versioned type names (`ns.T.1.0`) are not detected by this lexer at all. -/

def isDigitC (c : Char) : Bool := decide ('0' ≤ c) && decide (c ≤ '9')
def isNzDigitC (c : Char) : Bool := decide ('1' ≤ c) && decide (c ≤ '9')
def isBinC (c : Char) : Bool := c == '0' || c == '1'
def isOctC (c : Char) : Bool := decide ('0' ≤ c) && decide (c ≤ '7')
def isHexC (c : Char) : Bool :=
  isDigitC c || (decide ('a' ≤ c) && decide (c ≤ 'f')) || (decide ('A' ≤ c) && decide (c ≤ 'F'))
def isZeroC (c : Char) : Bool := c == '0'
def isIdentStart (c : Char) : Bool :=
  (decide ('a' ≤ c) && decide (c ≤ 'z')) || (decide ('A' ≤ c) && decide (c ≤ 'Z')) || c == '_'
def isIdentChar (c : Char) : Bool := isIdentStart c || isDigitC c
def isBlank (c : Char) : Bool := c == ' ' || c == '\t'

/-- a scanner returns the matched text and the rest of the input -/
abbrev Scan := Option (List Char × List Char)

def headIs (p : Char → Bool) : List Char → Bool
  | [] => false
  | d :: _ => p d

/-- `(_?[p])*` -/
def scanDigitsTail (p : Char → Bool) : List Char → List Char × List Char
  | [] => ([], [])
  | c :: r =>
    if p c || (c == '_' && headIs p r) then
      let x := scanDigitsTail p r
      (c :: x.1, x.2)
    else ([], c :: r)

/-- `[p](_?[p])*` -/
def scanDigits (p : Char → Bool) : List Char → Scan
  | [] => none
  | c :: r =>
    if p c then
      let x := scanDigitsTail p r
      some (c :: x.1, x.2)
    else none

/-- `0[xX](_?[p])+` with the prefix letters given -/
def scanPrefixed (p : Char → Bool) (lo up : Char) : List Char → Scan
  | '0' :: c :: r =>
    if c == lo || c == up then
      let x := scanDigitsTail p r
      if x.1.isEmpty then none else some ('0' :: c :: x.1, x.2)
    else none
  | _ => none

/-- `literal_integer_decimal = (0(_?0)*)+ | [1-9](_?[0-9])*` -/
def scanDecimal : List Char → Scan
  | [] => none
  | c :: r =>
    if c == '0' then
      let x := scanDigitsTail isZeroC r
      some (c :: x.1, x.2)
    else if isNzDigitC c then
      let x := scanDigitsTail isDigitC r
      some (c :: x.1, x.2)
    else none

/-- `literal_integer = binary / octal / hexadecimal / decimal` -/
def scanInt (s : List Char) : Scan :=
  match scanPrefixed isBinC 'b' 'B' s with
  | some x => some x
  | none =>
    match scanPrefixed isOctC 'o' 'O' s with
    | some x => some x
    | none =>
      match scanPrefixed isHexC 'x' 'X' s with
      | some x => some x
      | none => scanDecimal s

/-- `literal_real_fraction = "." literal_real_digits` -/
def scanFraction : List Char → Scan
  | '.' :: r =>
    match scanDigits isDigitC r with
    | some x => some ('.' :: x.1, x.2)
    | none => none
  | _ => none

/-- `literal_real_point_notation = (digits? fraction) / (digits ".")` -/
def scanPoint (s : List Char) : Scan :=
  match scanDigits isDigitC s with
  | some x =>
    match scanFraction x.2 with
    | some y => some (x.1 ++ y.1, y.2)
    | none =>
      match x.2 with
      | '.' :: r => some (x.1 ++ ['.'], r)
      | _ => none
  | none => scanFraction s

/-- `literal_real_exponent = ~r"[eE][+-]?" literal_real_digits` -/
def scanExponent : List Char → Scan
  | [] => none
  | e :: r =>
    if e == 'e' || e == 'E' then
      match r with
      | [] => none
      | sg :: r' =>
        if sg == '+' || sg == '-' then
          match scanDigits isDigitC r' with
          | some x => some (e :: sg :: x.1, x.2)
          | none => none
        else
          match scanDigits isDigitC r with
          | some x => some (e :: x.1, x.2)
          | none => none
    else none

/-- `(literal_real_point_notation / literal_real_digits)` -/
def scanMantissa (s : List Char) : Scan :=
  match scanPoint s with
  | some x => some x
  | none => scanDigits isDigitC s

/-- `literal_real_exponent_notation = (point_notation / digits) exponent` -/
def scanRealExp (s : List Char) : Scan :=
  match scanMantissa s with
  | some x =>
    match scanExponent x.2 with
    | some y => some (x.1 ++ y.1, y.2)
    | none => none
  | none => none

/-- `literal_real = exponent_notation / point_notation` -/
def scanReal (s : List Char) : Scan :=
  match scanRealExp s with
  | some x => some x
  | none => scanPoint s

/-- the rest of `'[^'\\]*(\\[^\r\n][^'\\]*)*'` after the opening quote `q`, closing quote included; `esc`: the previous
    character was the backslash of an escape -/
def scanStrBody (q : Char) : Bool → List Char → Scan
  | _, [] => none
  | true, d :: r =>
    if d == '\r' || d == '\n' then none
    else match scanStrBody q false r with
      | some x => some (d :: x.1, x.2)
      | none => none
  | false, c :: r =>
    if c == q then some ([c], r)
    else match scanStrBody q (c == '\\') r with
      | some x => some (c :: x.1, x.2)
      | none => none

/-- `[a-zA-Z0-9_]*` -/
def scanWord : List Char → List Char × List Char
  | [] => ([], [])
  | c :: r =>
    if isIdentChar c then
      let x := scanWord r
      (c :: x.1, x.2)
    else ([], c :: r)

/-- a literal string at the head of the input -/
def dropPrefix : List Char → List Char → Option (List Char)
  | [], s => some s
  | _ :: _, [] => none
  | x :: w, y :: s => if x == y then dropPrefix w s else none

def nzDigitNext : Option (List Char) → Bool
  | some (c :: _) => isNzDigitC c
  | _ => false

/-- `type_primitive` / `type_void` match at the head of the input (they are tried before `literal` and `identifier`) -/
def typePrefix (s : List Char) : Bool :=
  (dropPrefix ['b','o','o','l'] s).isSome || (dropPrefix ['b','y','t','e'] s).isSome ||
  (dropPrefix ['u','t','f','8'] s).isSome ||
  nzDigitNext (dropPrefix ['u','i','n','t'] s) || nzDigitNext (dropPrefix ['i','n','t'] s) ||
  nzDigitNext (dropPrefix ['f','l','o','a','t'] s) || nzDigitNext (dropPrefix ['v','o','i','d'] s)

/-- input that starts with an identifier character that is no digit: `type` (outside the model) / `literal_boolean` /
    `identifier` -/
def lexWord (s : List Char) : Option (Tok × List Char) :=
  if typePrefix s then none
  else match dropPrefix ['t','r','u','e'] s with
    | some r => some (.lit (.bool true), r)
    | none =>
      match dropPrefix ['f','a','l','s','e'] s with
      | some r => some (.lit (.bool false), r)
      | none =>
        let x := scanWord s
        some (.id (String.ofList x.1), x.2)

/-- input that starts with a digit or with `.`: `literal_real / literal_integer`, and `op2_attrib` for a lone `.` -/
def lexNumber (s : List Char) : Option (Tok × List Char) :=
  match scanReal s with
  | some x => some (.lit (.real (String.ofList x.1)), x.2)
  | none =>
    match scanInt s with
    | some x => some (.lit (.int (String.ofList x.1)), x.2)
    | none =>
      match s with
      | '.' :: r => some (.dot, r)
      | _ => none

/-- the two-character operators -/
def sym2Table : List ((Char × Char) × Sym) :=
  [(('|','|'), .oror), (('&','&'), .andand), (('=','='), .eqeq), (('!','='), .neq), (('<','='), .le), (('>','='), .ge),
   (('*','*'), .starstar)]

def sym2 (c d : Char) : Option Sym := sym2Table.lookup (c, d)

/-- the one-character operators and punctuation (`.` is handled with the numbers: `.5` is a real literal) -/
def tok1Table : List (Char × Tok) :=
  [('(', .lp), (')', .rp), ('{', .lb), ('}', .rb), (',', .comma),
   ('!', .sym .bang), ('+', .sym .plus), ('-', .sym .minus), ('|', .sym .bar), ('^', .sym .caret), ('&', .sym .amp),
   ('<', .sym .lt), ('>', .sym .gt), ('*', .sym .star), ('/', .sym .slash), ('%', .sym .percent)]

def tok1 (c : Char) : Option Tok := tok1Table.lookup c

/-- operators and punctuation, longest first -/
def lexSym : List Char → Option (Tok × List Char)
  | [] => none
  | [c] => (tok1 c).map fun t => (t, [])
  | c :: d :: r =>
    match sym2 c d with
    | some s => some (.sym s, r)
    | none => (tok1 c).map fun t => (t, d :: r)

/-- one terminal at the head of the (blank-free) input -/
def lexOne (s : List Char) : Option (Tok × List Char) :=
  match lexSym s with
  | some x => some x
  | none =>
    match s with
    | [] => none
    | c :: r =>
      if isDigitC c || c == '.' then lexNumber s
      else if c == '\'' || c == '"' then
        match scanStrBody c false r with
        | some x => some (.lit (.str (String.ofList (c :: x.1))), x.2)
        | none => none
      else if isIdentStart c then lexWord s
      else none

def dropBlanks : List Char → List Char
  | [] => []
  | c :: r => if isBlank c then dropBlanks r else c :: r

def lexF : Nat → List Char → Option (List Tok)
  | 0, _ => none
  | f+1, cs =>
    match dropBlanks cs with
    | [] => some []
    | s =>
      match lexOne s with
      | none => none
      | some x =>
        match lexF f x.2 with
        | none => none
        | some ts => some (x.1 :: ts)

/-- the token list of an expression text; `none`: some character sequence is no terminal of the modelled grammar part -/
def lex (cs : List Char) : Option (List Tok) := lexF (cs.length + 1) cs

/-- characters → tree -/
def parseChars (cs : List Char) : Option Expr :=
  match lex cs with
  | some ts => parseTokens ts
  | none => none

def Sym.text : Sym → List Char
  | .bang => ['!'] | .plus => ['+'] | .minus => ['-']
  | .oror => ['|','|'] | .andand => ['&','&']
  | .eqeq => ['=','='] | .neq => ['!','='] | .le => ['<','='] | .ge => ['>','='] | .lt => ['<'] | .gt => ['>']
  | .bar => ['|'] | .caret => ['^'] | .amp => ['&']
  | .star => ['*'] | .slash => ['/'] | .percent => ['%']
  | .starstar => ['*','*']

def Tok.text : Tok → List Char
  | .lit (.int s) => s.toList
  | .lit (.real s) => s.toList
  | .lit (.str s) => s.toList
  | .lit (.bool true) => ['t','r','u','e']
  | .lit (.bool false) => ['f','a','l','s','e']
  | .id s => s.toList
  | .sym s => s.text
  | .lp => ['('] | .rp => [')'] | .lb => ['{'] | .rb => ['}'] | .comma => [','] | .dot => ['.']

/-- a token is well formed when its own text is one terminal that denotes it -/
def Tok.ok (t : Tok) : Bool := decide (lexOne t.text = some (t, []))

/-- may the character `c` follow the text of `t` directly without changing what `t`'s terminal matches? -/
def Tok.canFollow (t : Tok) (c : Char) : Bool :=
  match t with
  | .lp | .rp | .lb | .rb | .comma => true
  | .dot => !isDigitC c
  | .sym s =>
    match s with
    | .star => c != '*'
    | .lt | .gt | .bang => c != '='
    | .bar => c != '|'
    | .amp => c != '&'
    | _ => true
  | .lit (.str _) => true
  | .lit (.bool _) => !isIdentChar c
  | .id _ => !isIdentChar c
  | .lit (.int _) => !isIdentChar c && c != '.'
  | .lit (.real _) => !isIdentChar c && c != '.'

/-- two adjacent tokens that need a blank between them (otherwise their texts fuse into other terminals) -/
def needsBlank (t u : Tok) : Bool :=
  match u.text with
  | [] => false
  | c :: _ => !t.canFollow c

/-- the blanks in front of the i-th token (and after the last one): `false` a space, `true` a tab -/
abbrev Spacing := Nat → List Bool

def blankRun (bs : List Bool) : List Char := bs.map fun b => if b then '\t' else ' '

/-- one space where the token `t` and the next token would fuse and `σ` puts no blank between them -/
def glue (σ : Spacing) (i : Nat) (t : Tok) : List Tok → List Char
  | u :: _ => if needsBlank t u && (σ (i+1)).isEmpty then [' '] else []
  | [] => []

/-- texts of the tokens, the `i`-th one preceded by the blanks `σ i` (and `σ n` after the last one) -/
def renderFrom (σ : Spacing) : Nat → List Tok → List Char
  | i, [] => blankRun (σ i)
  | i, t :: ts => blankRun (σ i) ++ t.text ++ glue σ i t ts ++ renderFrom σ (i+1) ts

def renderToks (σ : Spacing) (ts : List Tok) : List Char := renderFrom σ 0 ts

end Ex
