import Model.Namespace
/-
  Model of the ROOT INFERENCE of `read_files` (property C15):

    pydsdl/_dsdl_definition.py   DSDLDefinition._infer_path_to_root_from_first_found   -> `inferRoot`   (INFERENCE 1-4; /repo at 772b846)
                                 DSDLDefinition.from_first_in                          -> `anchorTarget`, `fromFirstIn`
                                 DSDLDefinition.__init__ (the part before the file name is parsed: existence of the
                                 file, '.' in the root directory's name, `relative_to` the root)       -> `construct`
    pydsdl/_namespace.py         _construct_dsdl_definitions_from_files (one `from_first_in` per target, in order),
                                 read_files (existing roots + inferred roots become the lookup directories)
                                                                                       -> `readFilesIdentities`
    pydsdl/_dsdl.py              normalize_paths_argument_to_list                      -> `dedupKeepFirst`

  No imports besides `Model.Namespace` (for `Ns.hasDot`, `Ns.FileEntry`, `Ns.mkDef`, `Ns.dirsCheck`), total, executable.

  What is modelled of `pathlib` (PurePosixPath, CPython 3.12):
  * a path is a flag (absolute / relative) and the list of its components as `pathlib` stores them: empty components
    and `.` are dropped when the path is parsed (`Path.ofComponents`), `..` is kept; `Path(".")` = `Path("")` = no parts;
  * `parts` (`pyParts`: the anchor "/" is the first part of an absolute path), `parent`, `/` (`join`), `relative_to`
    (purely lexical), `is_absolute`;
  * `resolve(strict=False)` = make absolute against the working directory, then cancel `..` LEXICALLY (that is what
    `os.path.realpath` does when no component is a symbolic link; `/..` = `/`);
  * `exists()` / `resolve(strict=True)` of a path that was NOT resolved first is PHYSICAL: `a/../b` exists only if `a` is an
    existing directory (`physExists` walks the components).

  Outside the model (said here once): symbolic links (a path that goes through a symlink resolves elsewhere; the `ns`
  suite covers them by correspondence), permissions, a leading `//` (a distinct anchor in POSIX pathlib), races,
  case-insensitive file systems.  The working directory `cwd` is an absolute, normalised path of an existing directory.
-/
namespace RootInfer

/-- An absolute path without `.` / `..`: the components below `/`. -/
abbrev AbsPath := List String

structure Path where
  abs : Bool
  parts : List String      -- components without the anchor; no "" and no "." (pathlib drops them), ".." is kept
  deriving DecidableEq, Repr

/-- What `pathlib` keeps of the '/'-separated components of a string. -/
def Path.ofComponents (abs : Bool) (raw : List String) : Path := ⟨abs, raw.filter fun c => c ≠ "" ∧ c ≠ "."⟩

/-- `PurePath.parts` -/
def Path.pyParts (p : Path) : List String := if p.abs then "/" :: p.parts else p.parts
/-- `PurePath.parent` (lexical: `Path("..").parent == Path(".")`, `Path("/").parent == Path("/")`) -/
def Path.parent (p : Path) : Path := ⟨p.abs, p.parts.dropLast⟩
/-- `a / b` -/
def Path.join (a b : Path) : Path := if b.abs then b else ⟨a.abs, a.parts ++ b.parts⟩
/-- `p.relative_to(r)` does not raise `ValueError` -/
def Path.relativeTo (p r : Path) : Bool := p.abs == r.abs && r.parts.isPrefixOf p.parts

def normStep (acc : AbsPath) (c : String) : AbsPath := if c = ".." then acc.dropLast else acc ++ [c]
/-- lexical cancellation of `..` on top of an already normalised prefix -/
def norm (acc : AbsPath) (cs : List String) : AbsPath := cs.foldl normStep acc
/-- `Path.resolve(strict=False)` without symbolic links -/
def resolve (cwd : AbsPath) (p : Path) : AbsPath := norm (if p.abs then [] else cwd) p.parts

/-- The abstract file system: which normalised absolute paths exist (`has`; Python: `exists()`), which of them are
    directories.  (`exists` is a keyword of Lean, hence `has`.) -/
structure FS where
  has : AbsPath → Bool
  isDir : AbsPath → Bool

/-- A file system given by the lists of its directories and files (what the driver receives). -/
def FS.ofLists (dirs files : List AbsPath) : FS := ⟨fun p => dirs.contains p || files.contains p, fun p => dirs.contains p⟩

/-- Walking a path the way the operating system does: every step needs a directory to step from. -/
def walk (fs : FS) : AbsPath → List String → Bool
  | cur, [] => fs.has cur
  | cur, c :: cs => fs.isDir cur && walk fs (normStep cur c) cs

/-- `Path.exists()` of a path as given (relative to the working directory, `..` taken physically) -/
def physExists (fs : FS) (cwd : AbsPath) (p : Path) : Bool := walk fs (if p.abs then [] else cwd) p.parts

inductive Err where
  | pathInference    -- PathInferenceError (an UndefinedDataTypeError, hence an InvalidDefinitionError)
  | notFound         -- InvalidDefinitionError: "... file that doesn't exist"
  | fileName         -- FileNameFormatError (an InvalidDefinitionError): '.' in the name of the root directory
  | valueError       -- a bare ValueError escapes from `relative_to` in `DSDLDefinition.__init__`
  | indexError       -- a bare IndexError escapes from `dsdl_path.parts[0]` (target `.` / empty)
  deriving DecidableEq, Repr, Inhabited

def Err.isInvalid : Err → Bool
  | .pathInference | .notFound | .fileName => true
  | _ => false

/-! ## `_infer_path_to_root_from_first_found` -/

/-- the guard of the "as-is" comparison: `path_to_root.parts and ".." not in path_to_root.parts and ".." not in dsdl_path.parts` -/
def lexGuard (r t : Path) : Bool := !r.pyParts.isEmpty && !r.parts.contains ".." && !t.parts.contains ".."

/-- `found_as_given = dsdl_path.is_absolute() or resolved_dsdl_path.exists()` -/
def foundAsGiven (fs : FS) (cwd : AbsPath) (t : Path) : Bool := t.abs || fs.has (resolve cwd t)

/-- INFERENCE 2, the part that returns: for each root in order, first the lexical match (returns the root AS GIVEN), then
    the match of the resolved paths (returns the RESOLVED root); both only for a target that is `found` as given. -/
def inference2 (found : Bool) (cwd : AbsPath) (t : Path) : List Path → Option Path
  | [] => none
  | r :: rs =>
    if found && (lexGuard r t && t.relativeTo r) then some r
    else if found && (resolve cwd r).isPrefixOf (resolve cwd t) then some ⟨true, resolve cwd r⟩
    else inference2 found cwd t rs

/-- INFERENCE 2, the part that is remembered (`lexical_match = lexical_match or path_to_root`): the FIRST root that
    matches lexically when the target is not found as given (a target that is found never gets that far). -/
def lexicalMatch (found : Bool) (t : Path) (roots : List Path) : Option Path :=
  if found then none else roots.find? fun r => lexGuard r t && t.relativeTo r

/-- INFERENCE 3 (relative targets only): weld the target onto the parent of each listed root whose last part is the first
    part of the target (`path_to_root.parts and path_to_root.parts[-1] == dsdl_path.parts[0] and
    (path_to_root.parent / dsdl_path).exists()`); the parents of a root are not tried (since /repo 772b846). -/
def inference3 (fs : FS) (cwd : AbsPath) (t : Path) : List Path → Except Err (Option Path)
  | [] => .ok none
  | r :: rs =>
    if r.pyParts.isEmpty then inference3 fs cwd t rs           -- `.`: no parts
    else match t.parts with
      | [] => .error .indexError                               -- `dsdl_path.parts[0]`
      | first :: _ =>
        if r.pyParts.getLast? = some first && physExists fs cwd (r.parent.join t) then .ok (some r)
        else inference3 fs cwd t rs

/-- `[x.parts[-1] for x in valid_dsdl_roots if len(x.parts) == 1 and x.parts[-1] != ".."]` (the root `..` is a path, not a
    root namespace name: since /repo 2b41d1f) -/
def rootNames (roots : List Path) : List String :=
  roots.filterMap fun r => match r.pyParts with | [x] => if x = ".." then none else some x | _ => none

/-- the prefix of `parts` up to and including the first member of `names` -/
def firstHit (names : List String) : List String → List String → Option (List String)
  | _, [] => none
  | acc, c :: cs => if names.contains c then some (acc ++ [c]) else firstHit names (acc ++ [c]) cs

/-- `if not dsdl_path.is_absolute() and not (found_as_given and any(x in root_parts for x in parts)): <INFERENCE 3>`:
    a relative target that exists as given and has a bare root name among the parts of its parent is left to INFERENCE 4 -/
def inference3IfRelative (fs : FS) (cwd : AbsPath) (found : Bool) (t : Path) (roots : List Path) : Except Err (Option Path) :=
  if t.abs || (found && t.parent.pyParts.any (rootNames roots).contains) then .ok none else inference3 fs cwd t roots

/-- INFERENCE 4: `Path().joinpath(*parts[: i + 1])` for the first part of `dsdl_path.parent` that is a bare root name.
    (For an absolute target the first part is the anchor "/", which is a "bare name" iff the root `/` was given.) -/
def inference4 (t : Path) (roots : List Path) : Option Path :=
  let names := rootNames roots
  if t.abs && names.contains "/" then some ⟨true, []⟩
  else (firstHit names [] t.parent.parts).map fun l => ⟨t.abs, l⟩

def inferRoot (fs : FS) (cwd : AbsPath) (t : Path) (roots : List Path) : Except Err Path :=
  if roots.isEmpty then
    -- INFERENCE 1
    if t.abs then .error .pathInference
    else match t.parts with
      | [] => .error .indexError
      | c :: _ => if physExists fs cwd ⟨false, [c]⟩ then .ok ⟨false, [c]⟩ else .error .pathInference
  else
    let found := foundAsGiven fs cwd t
    match inference2 found cwd t roots with
    | some r => .ok r
    | none =>
      match inference3IfRelative fs cwd found t roots with
      | .error e => .error e
      | .ok (some r) => .ok r
      | .ok none =>
        match lexicalMatch found t roots with
        | some r => .ok r            -- `if lexical_match is not None: return lexical_match`
        | none =>
          match inference4 t roots with
          | some r => .ok r
          | none => .error .pathInference

/-! ## `from_first_in`, `__init__` -/

/-- where the target file is looked for once the root is known -/
def anchorTarget (fs : FS) (cwd : AbsPath) (t root : Path) : AbsPath :=
  if t.abs then resolve cwd t
  else if (resolve cwd root).isPrefixOf (resolve cwd t) && fs.has (resolve cwd t) then resolve cwd t
  else resolve cwd (root.parent.join t)

/-- `DSDLDefinition(file, root)` up to the point where the file name is parsed (`Ns.mkDef` continues from there) -/
def construct (fs : FS) (cwd : AbsPath) (file : AbsPath) (root : Path) : Except Err (AbsPath × AbsPath) :=
  if !fs.has file then .error .notFound
  else if Ns.hasDot ((resolve cwd root).getLast?.getD "") then .error .fileName
  else if !(resolve cwd root).isPrefixOf file then .error .valueError
  else .ok (resolve cwd root, file)

/-- `DSDLDefinition.from_first_in`: (root namespace directory, definition file), both resolved -/
def fromFirstIn (fs : FS) (cwd : AbsPath) (t : Path) (roots : List Path) : Except Err (AbsPath × AbsPath) :=
  match inferRoot fs cwd t roots with
  | .error e => .error e
  | .ok root => construct fs cwd (anchorTarget fs cwd t root) root

/-! ## The bridge to `Model.Namespace`: the target as a `FileEntry` under its inferred root -/

def entryOf (root file : AbsPath) (text : Ns.Text) : Ns.FileEntry :=
  let rel := file.drop root.length
  ⟨root, rel.dropLast, rel.getLast?.getD "", text⟩

inductive Err2 where
  | infer (e : Err)
  | ns (e : Ns.Err)
  deriving DecidableEq, Repr

/-- target designation -> definition object (name, version, port-ID, file, root) -/
def definitionOf (fs : FS) (cwd : AbsPath) (t : Path) (roots : List Path) (text : Ns.Text) : Except Err2 Ns.Def :=
  match fromFirstIn fs cwd t roots with
  | .error e => .error (.infer e)
  | .ok (root, file) =>
    match Ns.mkDef true (entryOf root file text) with
    | .error e => .error (.ns e)
    | .ok d => .ok d

/-- `normalize_paths_argument_to_list`: duplicates (equal `Path` objects) are dropped, first occurrence kept -/
def dedupKeepFirst : List Path → List Path → List Path
  | _, [] => []
  | seen, p :: ps => if seen.contains p then dedupKeepFirst seen ps else p :: dedupKeepFirst (p :: seen) ps

def mapDefs (fs : FS) (cwd : AbsPath) (roots : List Path) (text : Ns.Text) : List Path → Except Err2 (List Ns.Def)
  | [] => .ok []
  | t :: ts =>
    match definitionOf fs cwd t roots text with
    | .error e => .error e
    | .ok d =>
      match mapDefs fs cwd roots text ts with
      | .error e => .error e
      | .ok ds => .ok (d :: ds)

/-- `read_files` as far as the identity of the targets goes: one definition per target (first failure wins), then the
    directory check over the inferred roots and those designated roots that exist (as given, physically). -/
def readFilesIdentities (fs : FS) (cwd : AbsPath) (targets roots : List Path) (text : Ns.Text) : Except Err2 (List Ns.Def) :=
  let roots := dedupKeepFirst [] roots
  match mapDefs fs cwd roots text (dedupKeepFirst [] targets) with
  | .error e => .error e
  | .ok [] => .ok []
  | .ok ds =>
    let dirs := Ns.dedupPaths (ds.map Ns.Def.root ++ (roots.filter (physExists fs cwd)).map (resolve cwd))
    match Ns.dirsCheck dirs true with
    | .error e => .error (.ns e)
    | .ok () => .ok ds

end RootInfer
