/-
  Model of `_BitWriter` and `_BitReader` of pydsdl/_serdes.py with BOTH code paths of `write_bits` / `read_bits`
  (byte-aligned fast path with its three buffer cases, bit-wise slow path) and the limit logic of bounded
  sub-readers.  A byte buffer is the list of its bits, least significant bit of each byte first, so its length is a
  multiple of 8.  Import-free.

  Props/C06BitIO.lean proves that under the writer invariant (buffer = written bits zero-padded to a byte) both
  writer paths equal "append the n low bits of the value", and that both reader paths equal "read n bits of the
  zero-extended, limit-truncated stream" — the one-function reader/writer of Model/Wire.lean.
-/
namespace BitIO

def zeros (n : Nat) : List Bool := List.replicate n false

/-- the `n` low bits of `v`, least significant first -/
def natBits (n v : Nat) : List Bool := (List.range n).map fun i => v.testBit i

/-- value of a bit list, least significant bit first -/
def ofBits : List Bool → Nat
  | [] => 0
  | b :: bs => (if b then 1 else 0) + 2 * ofBits bs

/-! ## Writer -/

structure W where
  buf : List Bool
  off : Nat
  deriving Repr

/-- one iteration of the bit-wise loop: append a zero byte when the byte index is past the buffer, then set or
    clear the bit -/
def slowStep (buf : List Bool) (pos : Nat) (b : Bool) : List Bool :=
  let buf1 := if pos / 8 ≥ buf.length / 8 then buf ++ zeros 8 else buf
  buf1.set pos b

/-- the `for i in range(bit_length)` loop -/
def slowWrite (w : W) (v n : Nat) : W :=
  ⟨(List.range n).foldl (fun buf i => slowStep buf (w.off + i) (v.testBit i)) w.buf, w.off + n⟩

/-- the branch `self._bit_offset % 8 == 0 and bit_length >= 8` -/
def fastWrite (w : W) (v n : Nat) : W :=
  let fb := n / 8
  let rem := n % 8
  let data := natBits (8 * fb) (v % 2 ^ (8 * fb))
  let sb := w.off / 8
  let eb := sb + fb
  let len := w.buf.length / 8
  let buf' :=
    if sb ≥ len then w.buf ++ zeros (8 * (sb - len)) ++ data
    else if eb ≤ len then w.buf.take (8 * sb) ++ data ++ w.buf.drop (8 * eb)
    else w.buf.take (8 * sb) ++ data.take (8 * (len - sb)) ++ data.drop (8 * (len - sb))
  let w1 : W := ⟨buf', w.off + 8 * fb⟩
  -- the recursive call has fewer than 8 bits left, so it takes the bit-wise path
  if rem > 0 then slowWrite w1 (v >>> (8 * fb)) rem else w1

/-- `_BitWriter.write_bits` -/
def writeBits (w : W) (v n : Nat) : W :=
  if w.off % 8 = 0 ∧ n ≥ 8 then fastWrite w v n else slowWrite w v n

/-- `_BitWriter.align_to` -/
def alignTo (w : W) (a : Nat) : W :=
  if a = 0 then w
  else if w.off % a ≠ 0 then writeBits w 0 (a - w.off % a) else w

/-! ## Reader -/

structure Rd where
  data : List Bool
  start : Nat
  off : Nat
  limit : Option Nat
  deriving Repr

def bitAt (data : List Bool) (i : Nat) : Bool := data.getD i false

/-- the bit-wise loop of `read_bits` -/
def slowRead (r : Rd) (n : Nat) : Nat × Rd :=
  (ofBits ((List.range n).map fun i => bitAt r.data (r.off + i)), { r with off := r.off + n })

/-- the byte-aligned branch: slice whole bytes, zero-pad a short slice, recurse for the remaining < 8 bits -/
def fastRead (r : Rd) (n : Nat) : Nat × Rd :=
  let fb := n / 8
  let rem := n % 8
  let sb := r.off / 8
  let chunk := (r.data.drop (8 * sb)).take (8 * fb)
  let chunk := chunk ++ zeros (8 * fb - chunk.length)
  let result := ofBits chunk
  let r1 : Rd := { r with off := r.off + 8 * fb }
  if rem > 0 then
    let (x, r2) := slowRead r1 rem
    (result ||| (x <<< (8 * fb)), r2)
  else (result, r1)

def rawRead (r : Rd) (n : Nat) : Nat × Rd :=
  if r.off % 8 = 0 ∧ n ≥ 8 then fastRead r n else slowRead r n

/-- `_BitReader.read_bits` including the limit logic of bounded sub-readers -/
def readBits (r : Rd) (n : Nat) : Nat × Rd :=
  match r.limit with
  | none => rawRead r n
  | some lim =>
      let available := lim - (r.off - r.start)
      if available = 0 then (0, { r with off := r.off + n })
      else if n > available then
        let (x, r1) := rawRead r available
        (x, { r1 with off := r1.off + (n - available) })
      else rawRead r n

/-- `_BitReader.align_to` -/
def Rd.alignTo (r : Rd) (a : Nat) : Rd :=
  if a = 0 then r else if r.off % a ≠ 0 then { r with off := r.off + (a - r.off % a) } else r

/-- `_BitReader.bounded_subreader`: (sub-reader, advanced parent) -/
def Rd.sub (r : Rd) (k : Nat) : Rd × Rd :=
  ({ data := r.data, start := r.off, off := r.off, limit := some k }, { r with off := r.off + k })

/-- `_BitReader.remaining_bits` -/
def Rd.remaining (r : Rd) : Nat :=
  match r.limit with
  | some lim => lim - (r.off - r.start)
  | none => r.data.length - r.off

/-! ## Specification side: the stream view used by Model/Wire.lean -/

/-- zero-extended take -/
def takeZ (n : Nat) (s : List Bool) : List Bool := s.take n ++ zeros (n - s.length)

/-- the bits a reader can still deliver before zero extension sets in -/
def Rd.window (r : Rd) : List Bool :=
  match r.limit with
  | some lim => (r.data.drop r.off).take (lim - (r.off - r.start))
  | none => r.data.drop r.off

/-- `buf` is the written bits zero-padded to a whole byte -/
def pad8 (l : List Bool) : List Bool := l ++ zeros ((8 - l.length % 8) % 8)

/-- the bits written so far -/
def W.logical (w : W) : List Bool := w.buf.take w.off

/-- writer invariant: the buffer is exactly the written bits padded with zeros to a byte -/
def W.ok (w : W) : Bool := decide (w.off ≤ w.buf.length) && (w.buf == pad8 (w.buf.take w.off))

end BitIO
