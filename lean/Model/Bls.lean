/-
  Model of pydsdl/_bit_length_set/_symbolic.py (operator tree) and of the query half of
  pydsdl/_bit_length_set/_bit_length_set.py.  Import-free, total, executable.

  Sets of Python are duplicate-free lists (`dedup`), which is also what keeps the enumeration cost of the
  model the same as the cost of the Python code (`set(...)` after every step).

  Asserts of the Python code are not folded into the value functions: `Op.assertsOk` computes, by the same
  recursion as `modulo`, whether every `assert` on the way holds.  Props/C01 proves it is always `true`.
-/
namespace Bls

/-- `set(l)` -/
def dedup : List Nat → List Nat
  | [] => []
  | x :: xs => if x ∈ dedup xs then dedup xs else x :: dedup xs

/-- `itertools.combinations_with_replacement(l, k)` (same order as CPython for a duplicate-free `l`). -/
def cwr : List Nat → Nat → List (List Nat)
  | _, 0 => [[]]
  | [], _+1 => []
  | x :: xs, k+1 => (cwr (x :: xs) k).map (x :: ·) ++ cwr xs (k+1)

/-- `itertools.product(*ls)` -/
def product : List (List Nat) → List (List Nat)
  | [] => [[]]
  | l :: ls => l.flatMap fun x => (product ls).map (x :: ·)

/-- `min(l)` / `max(l)`; the empty case (a Python `ValueError`) is excluded by `Op.wf`. -/
def minL : List Nat → Nat
  | [] => 0
  | x :: xs => xs.foldl min x
def maxL : List Nat → Nat
  | [] => 0
  | x :: xs => xs.foldl max x

/-- `PaddingOperator._pad`:  `((x + r - 1) // r) * r` -/
def padTo (r x : Nat) : Nat := ((x + r - 1) / r) * r

/-- `min(k, divisor + k % divisor)` -/
def equivK (k d : Nat) : Nat := min k (d + k % d)

inductive Op where
  | leaf (vs : List Nat)
  | pad (c : Op) (a : Nat)
  | cat (cs : List Op)
  | rep (c : Op) (k : Nat)
  | rrep (c : Op) (k : Nat)
  | uni (cs : List Op)
  deriving Repr, Inhabited

mutual
/-- What the constructors of the Python classes accept (and the property quantifies over). -/
def Op.wf : Op → Bool
  | .leaf vs => !vs.isEmpty
  | .pad c a => c.wf && decide (1 ≤ a)
  | .cat cs => !cs.isEmpty && wfs cs
  | .rep c _ => c.wf
  | .rrep c _ => c.wf
  | .uni cs => !cs.isEmpty && wfs cs
def wfs : List Op → Bool
  | [] => true
  | c :: cs => c.wf && wfs cs
end

mutual
def Op.min : Op → Nat
  | .leaf vs => minL vs
  | .pad c a => padTo a c.min
  | .cat cs => sumMin cs
  | .rep c k => c.min * k
  | .rrep _ _ => 0
  | .uni cs => minMin cs
def sumMin : List Op → Nat
  | [] => 0
  | c :: cs => c.min + sumMin cs
/-- `min(x.min for x in children)`; children are non-empty by `wf`. -/
def minMin : List Op → Nat
  | [] => 0
  | [c] => c.min
  | c :: cs => min c.min (minMin cs)
end

mutual
def Op.max : Op → Nat
  | .leaf vs => maxL vs
  | .pad c a => padTo a c.max
  | .cat cs => sumMax cs
  | .rep c k => c.max * k
  | .rrep c k => c.max * k
  | .uni cs => maxMax cs
def sumMax : List Op → Nat
  | [] => 0
  | c :: cs => c.max + sumMax cs
def maxMax : List Op → Nat
  | [] => 0
  | c :: cs => max c.max (maxMax cs)
end

/-- sums of `combinations_with_replacement(s, k)` reduced modulo `d`, as a set -/
def cwrSumsMod (s : List Nat) (k d : Nat) : List Nat := dedup ((cwr s k).map fun el => el.sum % d)

/-- the double loop of `RangeRepetitionOperator.modulo` -/
def rangeCwrSumsMod (s : List Nat) (kmax d : Nat) : List Nat :=
  dedup ((List.range (kmax + 1)).flatMap fun k => (cwr s k).map fun el => el.sum % d)

def cwrSums (s : List Nat) (k : Nat) : List Nat := dedup ((cwr s k).map List.sum)
def rangeCwrSums (s : List Nat) (kmax : Nat) : List Nat :=
  dedup ((List.range (kmax + 1)).flatMap fun k => (cwr s k).map List.sum)

mutual
/-- `Operator.modulo(divisor)` -/
def Op.modulo : Op → Nat → List Nat
  | .leaf vs, d => dedup (vs.map (· % d))
  | .pad c a, d =>
      let l := Nat.lcm a d
      dedup ((c.modulo l).map fun x => padTo a x % d)
  | .cat cs, d =>
      let sums := dedup ((product (modulos cs d)).map List.sum)
      dedup (sums.map (· % d))
  | .rep c k, d => cwrSumsMod (c.modulo d) (equivK k d) d
  | .rrep c k, d => rangeCwrSumsMod (c.modulo d) (equivK k d) d
  | .uni cs, d => dedup (modulos cs d).flatten
def modulos : List Op → Nat → List (List Nat)
  | [], _ => []
  | c :: cs, d => c.modulo d :: modulos cs d
end

mutual
/-- `Operator.expand()` -/
def Op.expand : Op → List Nat
  | .leaf vs => dedup vs
  | .pad c a => dedup (c.expand.map (padTo a))
  | .cat cs => dedup ((product (expands cs)).map List.sum)
  | .rep c k => cwrSums c.expand k
  | .rrep c k => rangeCwrSums c.expand k
  | .uni cs => dedup (expands cs).flatten
def expands : List Op → List (List Nat)
  | [] => []
  | c :: cs => c.expand :: expands cs
end

mutual
/-- All `assert`s reached while computing `modulo d` hold:
    `x <= mx and x < lcm` in `PaddingOperator.modulo`, and
    `k % divisor == equivalent_k % divisor` in both repetition operators. -/
def Op.assertsOk : Op → Nat → Bool
  | .leaf _, _ => true
  | .pad c a, d =>
      let l := Nat.lcm a d
      c.assertsOk l && (c.modulo l).all fun x => decide (x ≤ padTo a c.max) && decide (x < l)
  | .cat cs, d => assertsOks cs d
  | .rep c k, d => c.assertsOk d && (k % d == equivK k d % d)
  | .rrep c k, d => c.assertsOk d && (k % d == equivK k d % d)
  | .uni cs, d => assertsOks cs d
def assertsOks : List Op → Nat → Bool
  | [], _ => true
  | c :: cs, d => c.assertsOk d && assertsOks cs d
end

/-! Query half of `BitLengthSet`. -/

def fixedLength (o : Op) : Bool := o.min == o.max

/-- `set(self % bit_length) == {0}` -/
def isAlignedAt (o : Op) (d : Nat) : Bool :=
  let m := o.modulo d
  m.all (· == 0) && !m.isEmpty

/-- `BitLengthSet.__eq__` : approximate comparison (min, max, residues modulo 32). -/
def blsEq (a b : Op) : Bool :=
  a.min == b.min && a.max == b.max &&
    (a.modulo 32).all (· ∈ b.modulo 32) && (b.modulo 32).all (· ∈ a.modulo 32)

/-- `BitLengthSet.__hash__` hashes exactly this key. -/
def blsHashKey (o : Op) : Nat × Nat := (o.min, o.max)

/-! `MemoizationOperator` as an automaton over an arbitrary pure child.
    Queries: `qMin`, `qMax`, `qMod d`, `qExpand`.  Answers are lists (singletons for min/max). -/

inductive Query where
  | qMin | qMax | qMod (d : Nat) | qExpand
  deriving Repr, DecidableEq

structure MemoState where
  min : Option Nat := none
  max : Option Nat := none
  modula : List (Nat × List Nat) := []
  expansion : Option (List Nat) := none
  deriving Repr

def answer (o : Op) : Query → List Nat
  | .qMin => [o.min]
  | .qMax => [o.max]
  | .qMod d => o.modulo d
  | .qExpand => o.expand

def memoStep (o : Op) (s : MemoState) : Query → MemoState × List Nat
  | .qMin => match s.min with
      | some v => (s, [v])
      | none => ({ s with min := some o.min }, [o.min])
  | .qMax => match s.max with
      | some v => (s, [v])
      | none => ({ s with max := some o.max }, [o.max])
  | .qMod d => match s.modula.lookup d with
      | some v => (s, v)
      | none => ({ s with modula := (d, o.modulo d) :: s.modula }, o.modulo d)
  | .qExpand => match s.expansion with
      | some v => (s, v)
      | none => ({ s with expansion := some o.expand }, o.expand)

def memoRun (o : Op) : MemoState → List Query → List (List Nat)
  | _, [] => []
  | s, q :: qs => let r := memoStep o s q; r.2 :: memoRun o r.1 qs

end Bls

/-! ### Enumeration cost of `modulo` (C16)

`Op.cost o d` = how many integers pass through `itertools.product` / `combinations_with_replacement` and through
the iteration over leaf value sets while `o.modulo d` is computed without memoisation (memoisation can only
lower it).  `min` / `max` enumerate nothing. -/
namespace Bls

def sumLens (ls : List (List Nat)) : Nat := (ls.map List.length).sum

mutual
def Op.cost : Op → Nat → Nat
  | .leaf vs, _ => vs.length
  | .pad c a, d => c.cost (Nat.lcm a d) + (c.modulo (Nat.lcm a d)).length
  | .cat cs, d => costs cs d + sumLens (product (modulos cs d))
  | .rep c k, d => c.cost d + sumLens (cwr (c.modulo d) (equivK k d))
  | .rrep c k, d => c.cost d + sumLens ((List.range (equivK k d + 1)).flatMap fun j => cwr (c.modulo d) j)
  | .uni cs, d => costs cs d + sumLens (modulos cs d)
def costs : List Op → Nat → Nat
  | [], _ => 0
  | c :: cs, d => c.cost d + costs cs d
end

end Bls
