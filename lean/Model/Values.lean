import Model.Layout
/-
  Model of the equality / hash keys of pydsdl's value objects (C18).

  * BitLengthSet.__eq__ / __hash__            -> Bls.blsEq / Bls.blsHashKey (Model/Bls.lean)
  * SerializableType.__eq__ / __hash__        -> TyKey: (class, normalised string form, bit length set)
  * Attribute / Constant __eq__ / __hash__    -> AttrKey: (type key, name, optional value)
  * expression values (Rational, Boolean, String, Set) -> EVal
-/
namespace Values
open Bls Layout

/-- What `SerializableType.__eq__` looks at: the concrete class, `str(self)` and the bit length set. -/
structure TyKey where
  cls : String
  str : String
  bls : Op

/-- `SerializableType.__eq__`: same class both ways, (approximately) equal bit length sets, equal string form. -/
def tyEq (a b : TyKey) : Bool := a.cls == b.cls && blsEq a.bls b.bls && a.str == b.str

/-- `SerializableType.__hash__` hashes `(str(self), bit_length_set)`, and a bit length set hashes `(min, max)`. -/
def tyHashKey (a : TyKey) : String × Nat × Nat := (a.str, a.bls.min, a.bls.max)

/-- A `ServiceType` is the one kind of type without a bit length set (the property raises `TypeError`):
    `SerializableType.__eq__` then replaces the comparison of the sets by `same_type`, and `__hash__` hashes
    `(str(self), BitLengthSet(0))`.  Both are what the general rule yields for the constant set `{0}`: against another
    service the set comparison is trivially true, against any other kind `cls` already differs. -/
def svcKey (str : String) : TyKey := { cls := "ServiceType", str := str, bls := .leaf [0] }

/-- Exact rationals, booleans, strings (as code points). -/
inductive Prim where
  | rat (num : Int) (den : Nat)
  | bool (b : Bool)
  | str (cps : List Nat)
  deriving Repr, Inhabited

/-- value equality: rationals by cross-multiplication -/
def Prim.eq : Prim → Prim → Bool
  | .rat n d, .rat n' d' => n * (d' : Int) == n' * (d : Int)
  | .bool b, .bool b' => b == b'
  | .str s, .str s' => s == s'
  | _, _ => false

/-- expression values: a primitive or a set of primitives (sets of sets do not occur in attribute values) -/
inductive EVal where
  | prim (p : Prim)
  | set (xs : List Prim)
  deriving Repr, Inhabited

def subsetOf (xs ys : List Prim) : Bool := xs.all fun x => ys.any fun y => x.eq y

/-- sets compare by mutual inclusion -/
def EVal.eq : EVal → EVal → Bool
  | .prim a, .prim b => a.eq b
  | .set xs, .set ys => subsetOf xs ys && subsetOf ys xs
  | _, _ => false

structure AttrKey where
  ty : TyKey
  name : String
  value : Option EVal

/-- `Attribute.__eq__` / `Constant.__eq__` for two attributes of the same class. -/
def attrEq (a b : AttrKey) : Bool :=
  tyEq a.ty b.ty && a.name == b.name &&
    match a.value, b.value with
    | none, none => true
    | some x, some y => x.eq y
    | _, _ => false

end Values
