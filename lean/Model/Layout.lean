import Model.Bls
/-
  Model of the layout half of pydsdl/_serializable: which operator tree (bit length set expression) each type
  gets, alignment, extent, implicit prefix / tag / delimiter-header widths, field offsets, and the
  `_offset_` intrinsic of pydsdl/_data_schema_builder.py.  Import-free apart from Model.Bls.

  Mirrors: PrimitiveType/VoidType.bit_length_set, ArrayType.alignment_requirement,
  FixedLengthArrayType.__init__, VariableLengthArrayType.__init__ (length_field_length),
  CompositeType.alignment_requirement, UnionType.__init__/_compute_tag_bit_length/aggregate_bit_length_sets,
  StructureType.__init__/aggregate_bit_length_sets, DelimitedType.__init__, the three
  iterate_fields_with_offsets, FixedLengthArrayType.enumerate_elements_with_offsets, DataSchemaBuilder.offset.
-/
namespace Layout
open Bls

/-- `int.bit_length()` -/
def bitLength (n : Nat) : Nat := if n = 0 then 0 else Nat.log2 n + 1

def nextPow2Aux (x : Nat) : Nat → Nat → Nat
  | 0, p => p
  | f + 1, p => if x ≤ p then p else nextPow2Aux x f (2 * p)

/-- `2 ** math.ceil(math.log2(x))` for `x ≥ 1`: the least power of two that is `≥ x`. -/
def nextPow2 (x : Nat) : Nat := nextPow2Aux x x 1

/-- `2 ** ceil(log2(max(8, n.bit_length())))` — width of an implicit length prefix / union tag before the
    alignment adjustment. -/
def stdWidth (n : Nat) : Nat := nextPow2 (max 8 (bitLength n))

/-- Layout-relevant structure of a type.  All primitives (bool, integers, floats, byte, utf8) are `prim n`:
    one length `n`, alignment 1.  Composites: `struct`/`union` are the sealed forms, `delim` is `DelimitedType`
    wrapped around one of them. -/
inductive Ty where
  | prim (bits : Nat)
  | void (bits : Nat)
  | farr (e : Ty) (cap : Nat)
  | varr (e : Ty) (cap : Nat)
  | struct (fs : List Ty)
  | union (fs : List Ty)
  | delim (inner : Ty) (extent : Nat)
  deriving Repr, Inhabited

def Ty.isComposite : Ty → Bool
  | .struct _ | .union _ | .delim _ _ => true
  | _ => false

mutual
/-- `alignment_requirement` -/
def Ty.align : Ty → Nat
  | .prim _ => 1
  | .void _ => 1
  | .farr e _ => e.align
  | .varr e _ => e.align
  | .struct fs => max 8 (maxAlign fs)
  | .union fs => max 8 (maxAlign fs)
  | .delim inner _ => inner.align
def maxAlign : List Ty → Nat
  | [] => 0
  | f :: fs => max f.align (maxAlign fs)
end

/-- `VariableLengthArrayType.length_field_type.bit_length` -/
def lenBits (e : Ty) (cap : Nat) : Nat := max (stdWidth cap) e.align

/-- `UnionType._compute_tag_bit_length` (for `len(field_types) > 1`) -/
def tagBits (fs : List Ty) : Nat := max (stdWidth (fs.length - 1)) (maxAlign fs)

/-- `DelimitedType.delimiter_header_type.bit_length` -/
def hdrBits (inner : Ty) : Nat := max 32 inner.align

mutual
/-- `bit_length_set` as the operator tree the library builds (memoisation wrappers are transparent). -/
def Ty.bls : Ty → Op
  | .prim n => .leaf [n]
  | .void n => .leaf [n]
  | .farr e cap => .rep e.bls cap
  | .varr e cap => .cat [.leaf [lenBits e cap], .rrep e.bls cap]
  | .struct fs => .pad (aggStruct fs) (max 8 (maxAlign fs))
  | .union fs => .pad (aggUnion fs) (max 8 (maxAlign fs))
  | .delim inner ext => .cat [.leaf [hdrBits inner], .rrep (.leaf [inner.align]) (ext / inner.align)]
/-- `StructureType.aggregate_bit_length_sets` (no final padding) -/
def aggStruct : List Ty → Op
  | [] => .leaf [0]
  | f :: fs => aggStructFrom f.bls fs
def aggStructFrom (acc : Op) : List Ty → Op
  | [] => acc
  | f :: fs => aggStructFrom (.cat [.pad acc f.align, f.bls]) fs
/-- `UnionType.aggregate_bit_length_sets` (no final padding) -/
def aggUnion : List Ty → Op
  | [] => .leaf [0]
  | [f] => f.bls
  | f :: g :: fs => .cat [.leaf [tagBits (f :: g :: fs)], .uni (blsList (f :: g :: fs))]
def blsList : List Ty → List Op
  | [] => []
  | f :: fs => f.bls :: blsList fs
end

/-- `extent`: explicit for delimited types, otherwise `bit_length_set.max`. -/
def Ty.extent : Ty → Nat
  | .delim _ ext => ext
  | t => t.bls.max

mutual
/-- What the constructors accept (`None` in Python = no exception):
    widths 1..64, capacity ≥ 1, the length prefix / tag fits a 64-bit unsigned integer, unions have ≥ 2
    variants, a delimited type wraps a sealed composite with a byte-multiple extent not below the inner extent. -/
def Ty.wf : Ty → Bool
  | .prim n => decide (1 ≤ n) && decide (n ≤ 64)
  | .void n => decide (1 ≤ n) && decide (n ≤ 64)
  | .farr e cap => e.wf && decide (1 ≤ cap)
  | .varr e cap => e.wf && decide (1 ≤ cap) && decide (lenBits e cap ≤ 64)
  | .struct fs => wfList fs
  | .union fs => wfList fs && decide (2 ≤ fs.length) && decide (tagBits fs ≤ 64)
  | .delim inner ext =>
      inner.wf && (match inner with | .struct _ => true | .union _ => true | _ => false) &&
        decide (ext % inner.align = 0) && decide (inner.bls.max ≤ ext)
def wfList : List Ty → Bool
  | [] => true
  | f :: fs => f.wf && wfList fs
end

/-! Offsets. -/

/-- `StructureType.iterate_fields_with_offsets` after the base has been padded: running offset `cur`. -/
def structOffsetsFrom (cur : Op) : List Ty → List Op
  | [] => []
  | f :: fs =>
      let o := Op.pad cur f.align
      o :: structOffsetsFrom (.cat [o, f.bls]) fs

/-- `iterate_fields_with_offsets(base)`: one offset expression per field, in order. -/
def fieldOffsets (base : Op) : Ty → List Op
  | .struct fs => structOffsetsFrom (.pad base (max 8 (maxAlign fs))) fs
  | .union fs =>
      let o := Op.cat [.pad base (max 8 (maxAlign fs)), .leaf [tagBits fs]]
      fs.map fun _ => o
  | .delim (.struct fs) _ =>
      structOffsetsFrom (.pad (.cat [base, .leaf [hdrBits (.struct fs)]]) (max 8 (maxAlign fs))) fs
  | .delim (.union fs) _ =>
      let o := Op.cat [.pad (.cat [base, .leaf [hdrBits (.union fs)]]) (max 8 (maxAlign fs)), .leaf [tagBits fs]]
      fs.map fun _ => o
  | _ => []

/-- `FixedLengthArrayType.enumerate_elements_with_offsets(base)` -/
def elementOffsets (base : Op) (e : Ty) (cap : Nat) : List Op :=
  (List.range cap).map fun i => Op.cat [.pad base e.align, .rep e.bls i]

/-- `DataSchemaBuilder.offset` after the fields `fs` have been added (`_offset_` in DSDL). -/
def offsetIntrinsic (isUnion : Bool) (fs : List Ty) : Op :=
  if isUnion then aggUnion fs else aggStruct fs

/-- The `assert`s in the array / composite constructors and offset iterators. -/
def ctorAssertsOk : Ty → Bool
  | .farr e cap => isAlignedAt (Ty.bls (.farr e cap)) e.align
  | .varr e cap => decide (lenBits e cap % e.align = 0) && isAlignedAt (Ty.bls (.varr e cap)) e.align
  | .union fs => [8, 16, 32, 64].contains (tagBits fs)
  | .delim inner ext =>
      decide (ext % 8 = 0) && decide (ext % inner.align = 0) && decide (inner.bls.max ≤ ext) &&
        isAlignedAt (Ty.bls (.delim inner ext)) 8 && isAlignedAt (Ty.bls (.delim inner ext)) inner.align &&
        decide ((Ty.bls (.delim inner ext)).max - hdrBits inner ≤ ext)
  | _ => true

end Layout
