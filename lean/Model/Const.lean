import Model.Expr
/-
  Model of
    pydsdl/_serializable/_primitive.py  (constructor checks and `inclusive_value_range` of the arithmetic types)
    pydsdl/_serializable/_attribute.py  (`Constant.__init__`: value kind, string-to-code conversion, range check)
  and of the exception funnel
    pydsdl/_parser.py `parse`, pydsdl/_dsdl_definition.py `DSDLDefinition.read`,
    pydsdl/_namespace_reader.py `_read_definitions`,
    pydsdl/_dsdl_definition.py `DSDLDefinition.__init__` (file name -> port-ID, name, version).
-/
namespace Ex

inductive CastMode where
  | saturated | truncated
  deriving DecidableEq, Repr

/-- the type on the left of a constant definition -/
inductive CTy where
  | bool
  | uint (n : Nat) (m : CastMode)
  | int (n : Nat) (m : CastMode)
  | float (n : Nat) (m : CastMode)
  | other            -- void, array, composite, byte, utf8: constructed fine, but cannot carry a constant
  deriving DecidableEq, Repr

/-- constructor checks of `PrimitiveType`, `SignedIntegerType`, `FloatType` -/
def CTy.wf : CTy → Bool
  | .bool => true
  | .uint n _ => decide (1 ≤ n ∧ n ≤ 64)
  | .int n m => decide (2 ≤ n ∧ n ≤ 64) && (m == .saturated)
  | .float n _ => n == 16 || n == 32 || n == 64
  | .other => true

/-- `SignedIntegerType.inclusive_value_range`: `uint_max_half = ((1 << n) - 1) // 2`, `(-uint_max_half - 1, uint_max_half)` -/
def intRange (n : Nat) : Int × Int :=
  let half : Int := (((1 <<< n : Nat) : Int) - 1) / 2
  (-half - 1, half)

/-- `UnsignedIntegerType.inclusive_value_range`: `(0, (1 << n) - 1)` -/
def uintRange (n : Nat) : Int × Int := (0, ((1 <<< n : Nat) : Int) - 1)

/-- `FloatType._magnitude`: `2**emax * (2 - Fraction(2) ** Fraction(-p))` -/
def floatMagnitude : Nat → Rat
  | 16 => (2 : Rat) ^ (0x00F : Nat) * (2 - ((2 : Rat) ^ (10 : Nat))⁻¹)
  | 32 => (2 : Rat) ^ (0x07F : Nat) * (2 - ((2 : Rat) ^ (23 : Nat))⁻¹)
  | 64 => (2 : Rat) ^ (0x3FF : Nat) * (2 - ((2 : Rat) ^ (52 : Nat))⁻¹)
  | _ => 0

def CTy.range : CTy → Option (Rat × Rat)
  | .uint n _ => some (((uintRange n).1 : Int), ((uintRange n).2 : Int))
  | .int n _ => some (((intRange n).1 : Int), ((intRange n).2 : Int))
  | .float n _ => some (-floatMagnitude n, floatMagnitude n)
  | _ => none

def inRange (ty : CTy) (q : Rat) : Bool :=
  match ty.range with
  | some (lo, hi) => decide (lo ≤ q ∧ q ≤ hi)
  | none => false

def isSurrogate (c : Nat) : Bool := decide (0xD800 ≤ c ∧ c ≤ 0xDFFF)

/-- length of `chr(c).encode("utf8", errors="surrogatepass")` -/
def utf8Len (c : Nat) : Nat := if c < 0x80 then 1 else if c < 0x800 then 2 else if c < 0x10000 then 3 else 4

/-- `Constant.__init__(data_type, name, value)`: the stored value, or the rejection. -/
def constCheck (ty : CTy) (v : Val) : R Val :=
  if !ty.wf then inval .typeParam else
  match v with
  | .set _ => inval .constant                      -- not a `Primitive`
  | .sc s =>
    match ty, s with
    | .bool, .bool b => .ok (.bool b)
    | .bool, _ => inval .constant
    | .uint n m, .rat q => if Rat.isInt' q && inRange (.uint n m) q then .ok (.rat q) else inval .constant
    | .int n m, .rat q => if Rat.isInt' q && inRange (.int n m) q then .ok (.rat q) else inval .constant
    | .uint n _, .str cs =>
        -- `encode("utf8", errors="surrogatepass")`: a lone surrogate is three bytes, i.e. not one ASCII character
        if (cs.map utf8Len).sum != 1 then inval .constant
        else if n != 8 then inval .constant
        else match cs with
          | [c] => .ok (.rat (c : Nat))
          | _ => inval .constant
    | .int _ _, .str _ => inval .constant
    | .uint _ _, .bool _ => inval .constant
    | .int _ _, .bool _ => inval .constant
    | .float n m, .rat q => if inRange (.float n m) q then .ok (.rat q) else inval .constant
    | .float _ _, _ => inval .constant
    | .other, _ => inval .constant

/-- `<type> NAME = <expression>`: the type is constructed before the expression is visited -/
def constStatement [StrNorm] (env : Env) (ty : CTy) (e : Expr) : R Val :=
  if !ty.wf then inval .typeParam else
  match eval env e with
  | .error x => .error x
  | .ok v => constCheck ty v

/-! ## The exception funnel -/

/-- What the grammar engine, the visitors and the builder can produce for one definition text. -/
inductive Inner where
  | done                                   -- a type model
  | invalidDef (hasPath : Bool)            -- an `InvalidDefinitionError` raised by a visitor or the builder (passes through parsimonious unwrapped)
  | internalDef                            -- `InternalError` raised on purpose
  | parseError                             -- `parsimonious.ParseError`
  | visitorRaised (cls : String)           -- any other exception inside a visitor: parsimonious wraps it into `VisitationError`
  | builderRaised (cls : String)           -- any other exception outside the visitors (`DataTypeBuilder(...)`, `finalize()`)
  | fatal (cls : String)                   -- MemoryError / SystemError: deliberately passed through
  deriving DecidableEq, Repr

/-- What the caller of `read_namespace` / `read_files` sees. -/
inductive Outcome where
  | ok
  | invalid (hasPath : Bool)
  | internal (hasPath : Bool)
  | foreign (cls : String)
  deriving DecidableEq, Repr

/-- result of `_parser.parse` as seen by `DSDLDefinition.read` -/
inductive AfterParse where
  | done
  | invalidDef (hasPath : Bool)
  | internalDef
  | raised (cls : String)
  | fatal (cls : String)
  deriving DecidableEq, Repr

/-- `_parser.parse`: `Error` passes (line injected), `ParseError` -> `DSDLSyntaxError`, `VisitationError` -> `InternalError` -/
def parseFunnel : Inner → AfterParse
  | .done => .done
  | .invalidDef p => .invalidDef p
  | .internalDef => .internalDef
  | .parseError => .invalidDef false
  | .visitorRaised _ => .internalDef
  | .builderRaised c => .raised c
  | .fatal c => .fatal c

/-- `DSDLDefinition.read` and `_read_definitions`: `Error` passes with `path = file`, `MemoryError`/`SystemError` pass,
    anything else becomes `InternalError(path = file)` -/
def readFunnel : AfterParse → Outcome
  | .done => .ok
  | .invalidDef _ => .invalid true
  | .internalDef => .internal true
  | .raised _ => .internal true
  | .fatal c => .foreign c

def surface (i : Inner) : Outcome := readFunnel (parseFunnel i)

def Hazard.pyClass : Hazard → String
  | .powComplex => "TypeError"          -- Fraction(complex)
  | .powFloatOverflow => "OverflowError"
  | .chrRange => "OverflowError"        -- or ValueError below 2**31
  | .surrogateEncode => "UnicodeEncodeError"
  | .intDigitLimit => "ValueError"
  | .strDigitLimit => "ValueError"

/-- how the outcome of evaluating an expression inside a visitor enters the funnel -/
def innerOf {α} : R α → Inner
  | .ok _ => .done
  | .error (.invalid _) => .invalidDef false
  | .error (.hazard h) => .visitorRaised h.pyClass
  | .error .inexact => .done
  | .error .unsupported => .done

/-! ### Literals and exponents inside the bounds of the property -/

def litBounded : Lit → Bool
  | .int t => decide ((stripUnderscores t.toList).length ≤ pyIntMaxDigits)
  | .real t => decide ((stripUnderscores t.toList).length ≤ pyIntMaxDigits)
  | .str t => match decodeStr t.toList with
      | .ok _ => true
      | .error (.invalid _) => true
      | _ => false
  | .bool _ => true

/-- an exponent that is an integer by its syntax: an integer literal, possibly signed -/
def intSyntax : Expr → Bool
  | .lit (.int _) => true
  | .un .neg (.lit (.int _)) => true
  | .un .pos (.lit (.int _)) => true
  | _ => false

mutual
/-- literals within CPython's conversion limit, escapes within Unicode, every exponent integral by syntax -/
def Expr.bounded : Expr → Bool
  | .lit l => litBounded l
  | .ident _ => true
  | .setLit es => boundedList es
  | .un _ e => e.bounded
  | .bin op l r => l.bounded && r.bounded && (op != .pow || intSyntax r)
  | .attr e _ => e.bounded
def boundedList : List Expr → Bool
  | [] => true
  | e :: es => e.bounded && boundedList es
end

/-! ### File names (`DSDLDefinition.__init__`) -/

/-- `int(s)` succeeds (ASCII part of CPython's rule: optional blanks, optional sign, digits with single inner underscores) -/
def pyIntOk (cs : List Char) : Bool :=
  let isWs (c : Char) : Bool := c == ' ' || c == '\t' || c == '\n' || c == '\r' || c == '\x0b' || c == '\x0c'
  let t := (cs.dropWhile isWs).reverse.dropWhile isWs |>.reverse
  let t := match t with
    | '+' :: r => r
    | '-' :: r => r
    | r => r
  let rec go : List Char → Bool → Bool      -- second argument: previous character was a digit
    | [], prevDigit => prevDigit
    | c :: r, prevDigit =>
      if c.isDigit then go r true
      else if c == '_' then prevDigit && go r false
      else false
  !t.isEmpty && go t false

inductive NameOutcome where
  | formatError
  | parsed (hasPortId : Bool)
  deriving DecidableEq, Repr

def splitOn (sep : Char) (cs : List Char) : List (List Char) :=
  let r := cs.foldr (fun c (acc : List Char × List (List Char)) =>
    if c == sep then ([], acc.1 :: acc.2) else (c :: acc.1, acc.2)) ([], [])
  r.1 :: r.2

/-- `_parse_decimal` succeeds: a plain decimal numeral, ASCII digits only (`text.isascii() and text.isdigit()`).  Since the
    fix of finding F10 the file-name rules no longer go through the lenient `int()` (`pyIntOk` above) alone. -/
def decimalOk (cs : List Char) : Bool := !cs.isEmpty && cs.all Char.isDigit

/-- base name of a `*.dsdl` file -> accepted shape or `FileNameFormatError` (tied to the code generated from
    `DSDLDefinition.__init__` by `C13.gen_filename_outcome`) -/
def fileNameOutcome (basename : String) : NameOutcome :=
  let comps := (splitOn '.' basename.toList).dropLast
  match comps with
  | [p, _, ma, mi] => if decimalOk p && decimalOk ma && decimalOk mi then .parsed true else .formatError
  | [_, ma, mi] => if decimalOk ma && decimalOk mi then .parsed false else .formatError
  | _ => .formatError

end Ex
