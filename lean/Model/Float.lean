import Model.Wire
/-!
  IEEE-754 binary interchange formats (binary16 / binary32 / binary64), exact arithmetic.

  Mirrors the numeric conversion number → bit pattern of `_serialize_primitive` (FloatType branch,
  pydsdl/_serdes.py): saturated cast mode clamps finite values to ± the largest finite number of the format,
  then `struct.pack('<e' | '<f' | '<d')` rounds to nearest, ties to even; when the rounded value overflows
  (`OverflowError` of `struct.pack`) the code writes ± infinity.

  A format is given by `eb` exponent bits and `mb` stored mantissa bits (5/10, 8/23, 11/52).
  Everything is done in integers: with `bias = 2^(eb-1) - 1` the smallest positive number of the format is the
  *quantum* `2^-Q`, `Q = bias - 1 + mb`, and every finite number of the format is an integer multiple of it.
  `decodeScaled` gives that multiple for a magnitude pattern; the magnitude `n / d` of the input becomes
  `N / d` quanta with `N = n * 2^Q`.

  The input of `roundBinary` is a sign flag and a non-negative fraction `n / d` (`d ≠ 0`), so that `-0.0`
  (`neg = true, n = 0`) and negative numbers that round to zero keep their sign, as `struct.pack` does.
-/
namespace WireFloat

/-- Number of binary digits of `n` (`int.bit_length`), by fuel so that it reduces in the kernel. -/
def blenAux : Nat → Nat → Nat
  | 0, _ => 0
  | fuel + 1, n => if n = 0 then 0 else blenAux fuel (n / 2) + 1

def blen (n : Nat) : Nat := blenAux n n

/-- `N / D` rounded to the nearest integer, ties to the even one (`D ≠ 0`). -/
def rhe (N D : Nat) : Nat :=
  if 2 * (N % D) < D then N / D
  else if D < 2 * (N % D) then N / D + 1
  else if N / D % 2 = 0 then N / D else N / D + 1

def bias (eb : Nat) : Nat := 2 ^ (eb - 1) - 1

/-- `Q`: the quantum (smallest positive subnormal) of the format is `2^-Q`. -/
def scaleExp (eb mb : Nat) : Nat := bias eb - 1 + mb

/-- Magnitude pattern of infinity (exponent field all ones, mantissa 0); larger magnitudes are NaNs. -/
def infPat (eb mb : Nat) : Nat := (2 ^ eb - 1) * 2 ^ mb

/-- Magnitude pattern of the largest finite number. -/
def maxPat (eb mb : Nat) : Nat := infPat eb mb - 1

def signBit (eb mb : Nat) : Nat := 2 ^ (eb + mb)

/-- Sign and magnitude of a pattern of `1 + eb + mb` bits. -/
def isNeg (eb mb bits : Nat) : Bool := decide (signBit eb mb ≤ bits)
def magOf (eb mb bits : Nat) : Nat := bits % signBit eb mb

/-- A pattern of the format that is neither an infinity nor a NaN. -/
def isFinite (eb mb bits : Nat) : Bool :=
  decide (bits < 2 * signBit eb mb) && decide (magOf eb mb bits < infPat eb mb)

/-- The value of a magnitude pattern (exponent field `E = mag / 2^mb`, mantissa field `M = mag % 2^mb`) in quanta:
    subnormal `M`, normal `(2^mb + M) * 2^(E-1)`. -/
def decodeScaled (mb mag : Nat) : Nat :=
  if mag / 2 ^ mb = 0 then mag % 2 ^ mb else (2 ^ mb + mag % 2 ^ mb) * 2 ^ (mag / 2 ^ mb - 1)

/-- The exact value of a finite pattern; `none` for infinities, NaNs and patterns that are too wide. -/
def decodeBinary (eb mb bits : Nat) : Option Rat :=
  if isFinite eb mb bits then
    let v : Int := (decodeScaled mb (magOf eb mb bits) : Nat)
    some ((if isNeg eb mb bits then -v else v : Int) / ((2 ^ scaleExp eb mb : Nat) : Rat))
  else none

/-- Spacing exponent of the top binade: the finite numbers of largest exponent are multiples of `2^topExp` quanta. -/
def topExp (eb : Nat) : Nat := 2 ^ eb - 3

/-- The largest finite number of the format, `(2 - 2^-mb) * 2^bias`. -/
def maxFinite (eb mb : Nat) : Rat :=
  (((2 ^ (mb + 1) - 1) * 2 ^ topExp eb : Nat) : Rat) / ((2 ^ scaleExp eb mb : Nat) : Rat)

/-- The IEEE overflow threshold: `maxFinite` plus half a unit in its last place, `(2 - 2^-(mb+1)) * 2^bias`. -/
def overflowThreshold (eb mb : Nat) : Rat :=
  (((2 ^ (mb + 2) - 1) * 2 ^ topExp eb : Nat) : Rat) / ((2 * 2 ^ scaleExp eb mb : Nat) : Rat)

/-- `N / d` quanta rounded to nearest-even onto the grid of the format, as a magnitude pattern that is not yet
    checked for overflow.  `k` is the exponent of the spacing of the binade of `N / d` (0 in the subnormal range and
    in the first normal binade); the significand `m = rhe (N / (d * 2^k))` is at most `2^(mb+1)`, and
    `k * 2^mb + m` is the pattern in all three cases (subnormal: `k = 0`, `m < 2^mb`; normal: exponent field `k + 1`,
    mantissa field `m - 2^mb`; carry `m = 2^(mb+1)`: exponent field `k + 2`, mantissa field 0). -/
def roundScaled (mb N d : Nat) : Nat :=
  let k := blen (N / d) - (mb + 1)
  k * 2 ^ mb + rhe N (d * 2 ^ k)

/-- The bit pattern written for the number `(-1)^neg * n / d` (`d ≠ 0`) into a float field of the format
    `(eb, mb)` with cast mode `c`. -/
def roundBinary (eb mb : Nat) (c : Wire.Cast) (neg : Bool) (n d : Nat) : Nat :=
  let N := n * 2 ^ scaleExp eb mb
  let mag :=
    match c with
    | .sat => if decodeScaled mb (maxPat eb mb) * d < N then maxPat eb mb else roundScaled mb N d
    | .trunc => min (roundScaled mb N d) (infPat eb mb)
  (if neg then signBit eb mb else 0) + mag

/-- The same for a rational number (zero is `+0`). -/
def roundRat (eb mb : Nat) (c : Wire.Cast) (q : Rat) : Nat :=
  roundBinary eb mb c (decide (q < 0)) q.num.natAbs q.den

/-- What `_serialize_primitive` does with a Python `int` (or `bool`) given for a float field: `float(value)` first —
    a rounding to binary64 that raises `OverflowError` when the rounded value is not finite, in which case the
    saturated mode writes ± the largest finite number and the truncated mode ± infinity — and then the conversion
    of that double.  (Two roundings: for integers that are not doubles the result can differ from
    `roundBinary eb mb c neg n 1`.) -/
def roundInt (eb mb : Nat) (c : Wire.Cast) (neg : Bool) (n : Nat) : Nat :=
  let b64 := roundBinary 11 52 .trunc neg n 1
  if magOf 11 52 b64 = infPat 11 52 then
    (if neg then signBit eb mb else 0) + (match c with | .sat => maxPat eb mb | .trunc => infPat eb mb)
  else
    roundBinary eb mb c neg (decodeScaled 52 (magOf 11 52 b64)) (2 ^ scaleExp 11 52)

end WireFloat
