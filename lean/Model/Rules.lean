/-
  Model of the static acceptance checks of pydsdl (C05): the parameter checks of the type constructors
  (`_serializable/_primitive.py`, `_void.py`, `_array.py`), `check_name` (`_name.py`), `Attribute.__init__`
  (`_attribute.py`), the aggregation checks (`_check_aggregation` of every type), the checks of
  `CompositeType/UnionType/DelimitedType/ServiceType.__init__` (`_composite.py`), the directive and marker
  handlers of `DataTypeBuilder` (`_data_type_builder.py`: `_on_attribute`, `_on_*_directive`,
  `on_service_response_marker`, `_make_composite`, `finalize`) and `_port_id_ranges.py`.

  An abstract definition is the header taken from the file path (namespace components, short name, version,
  fixed port-ID) plus the statement list with structured types.  The outcome is accepted / rejected
  (`InvalidDefinitionError`); a service type used as a field / constant / array element type is rejected
  (`Attribute.__init__`, `ArrayType.__init__`).  Constant values and expressions are not part of
  this model (C04/C12); `@assert`/`@print` do not influence acceptance of a definition whose expressions are valid.

  Import-free, total, executable.
-/
namespace Rules

/-! ### names (`_name.py`) -/

def isUpper (c : Char) : Bool := 'A' ≤ c && c ≤ 'Z'
def isLower (c : Char) : Bool := 'a' ≤ c && c ≤ 'z'
def isDigit (c : Char) : Bool := '0' ≤ c && c ≤ '9'

/-- `str.lower()` on the characters that can pass the checks that follow (ASCII) -/
def lowerChar (c : Char) : Char :=
  match c with
  | 'A' => 'a' | 'B' => 'b' | 'C' => 'c' | 'D' => 'd' | 'E' => 'e' | 'F' => 'f' | 'G' => 'g' | 'H' => 'h' | 'I' => 'i'
  | 'J' => 'j' | 'K' => 'k' | 'L' => 'l' | 'M' => 'm' | 'N' => 'n' | 'O' => 'o' | 'P' => 'p' | 'Q' => 'q' | 'R' => 'r'
  | 'S' => 's' | 'T' => 't' | 'U' => 'u' | 'V' => 'v' | 'W' => 'w' | 'X' => 'x' | 'Y' => 'y' | 'Z' => 'z'
  | c => c

def lower (s : List Char) : List Char := s.map lowerChar

/-- `string.ascii_letters + "_"` -/
def validFirst (c : Char) : Bool := isUpper c || isLower c || c == '_'
/-- `… + string.digits` -/
def validCont (c : Char) : Bool := validFirst c || isDigit c

def reservedWords : List String :=
  ["truncated", "saturated", "true", "false", "bool", "optional", "aligned", "const", "struct", "super", "template",
   "enum", "self", "and", "or", "not", "auto", "type", "con", "prn", "aux", "nul"]

/-- `re.compile(prefix + r"\d*$").match(name)` : the prefix, then digits only -/
def matchPrefixDigits (pre : List Char) (s : List Char) : Bool :=
  pre.isPrefixOf s && (s.drop pre.length).all isDigit

/-- `re.compile(prefix + r"\d$").match(name)` : the prefix, then exactly one digit -/
def matchPrefixDigit (pre : List Char) (s : List Char) : Bool :=
  pre.isPrefixOf s && (match s.drop pre.length with | [d] => isDigit d | _ => false)

/-- `\d+_\d+$` -/
def matchDigitsUnderscoreDigits (s : List Char) : Bool :=
  let a := s.takeWhile isDigit
  let r := s.dropWhile isDigit
  !a.isEmpty && (match r with
    | '_' :: t => !t.isEmpty && t.all isDigit
    | _ => false)

/-- `u?q\d+_\d+$` -/
def matchQ (s : List Char) : Bool :=
  match s with
  | 'u' :: 'q' :: t => matchDigitsUnderscoreDigits t
  | 'q' :: t => matchDigitsUnderscoreDigits t
  | _ => false

/-- `_.*_$` -/
def matchUnderscores (s : List Char) : Bool :=
  match s with
  | '_' :: t => (match t.getLast? with | some '_' => true | _ => false)
  | _ => false

/-- the regular expressions of `_DISALLOWED_NAME_PATTERNS`, applied to the lowered name -/
def matchesPattern (n : List Char) : Bool :=
  matchPrefixDigits "void".toList n ||
  matchPrefixDigits "uint".toList n || matchPrefixDigits "int".toList n ||
  matchQ n ||
  matchPrefixDigits "float".toList n ||
  matchPrefixDigit "com".toList n || matchPrefixDigit "lpt".toList n ||
  matchUnderscores n

/-- `check_name` : `true` iff no `InvalidNameError`.  The character set is checked on the name as written, the reserved
    words and patterns on the lower-cased name. -/
def checkName (name : String) : Bool :=
  match name.toList with
  | [] => false
  | c :: rest =>
    validFirst c && (c :: rest).all validCont &&
      !(reservedWords.any fun w => w.toList == lower (c :: rest)) && !matchesPattern (lower (c :: rest))

/-! ### types -/

inductive Cast where
  | saturated | truncated
  deriving Repr, DecidableEq, Inhabited

/-- what the checks need to know about a referenced composite -/
structure CompInfo where
  deprecated : Bool
  service : Bool
  /-- `bit_length_set.max` of the referenced type (a multiple of 8) -/
  maxBits : Nat
  deriving Repr, DecidableEq, Inhabited

/-- scalar types (`type_scalar` of the grammar) -/
inductive Scalar where
  | bool | byte | utf8
  | uint (w : Nat) (c : Cast)
  | int (w : Nat) (c : Cast)
  | float (w : Nat) (c : Cast)
  | void (w : Nat)
  | comp (i : CompInfo)
  deriving Repr, DecidableEq, Inhabited

inductive Ty where
  | scalar (s : Scalar)
  | fixedArr (e : Scalar) (cap : Int)
  | varArr (e : Scalar) (cap : Int)
  deriving Repr, DecidableEq, Inhabited

/-- the constructor checks of `PrimitiveType`, `SignedIntegerType`, `FloatType`, `VoidType` -/
def Scalar.ctorOk : Scalar → Bool
  | .bool | .byte | .utf8 => true
  | .uint w _ => decide (1 ≤ w) && decide (w ≤ 64)
  | .int w c => decide (1 ≤ w) && decide (w ≤ 64) && decide (2 ≤ w) && c == .saturated
  | .float w _ => decide (1 ≤ w) && decide (w ≤ 64) && (w == 16 || w == 32 || w == 64)
  | .void w => decide (1 ≤ w) && decide (w ≤ 64)
  | .comp _ => true

/-- `ArrayType.__init__`: `capacity < 1` is rejected.  `VariableLengthArrayType.__init__` builds the implicit length field
    `UnsignedIntegerType(2 ** ceil(log2(max(8, capacity.bit_length()))))`, whose constructor rejects a width above 64
    (`InvalidBitLengthError`): a variable-length capacity of `2 ** 64` or more is rejected, `2 ** 64 - 1` is accepted.
    A fixed-length array has no length field: `uint8[2 ** 64]`, `uint8[2 ** 70]` are accepted. -/
def Ty.ctorOk : Ty → Bool
  | .scalar s => s.ctorOk
  | .fixedArr e cap => e.ctorOk && decide (1 ≤ cap)
  | .varArr e cap => e.ctorOk && decide (1 ≤ cap) && decide (cap < 2 ^ 64)

def Scalar.deprecated : Scalar → Bool
  | .comp i => i.deprecated
  | _ => false

def Ty.deprecated : Ty → Bool
  | .scalar s => s.deprecated
  | .fixedArr e _ => e.deprecated
  | .varArr e _ => e.deprecated

def Scalar.isService : Scalar → Bool
  | .comp i => i.service
  | _ => false

def Ty.usesService : Ty → Bool
  | .scalar s => s.isService
  | .fixedArr e _ => e.isService
  | .varArr e _ => e.isService

/-- the aggregate a type is placed into, as far as `_check_aggregation` looks at it -/
inductive Agg where
  | structure (deprecated : Bool)
  | union (deprecated : Bool)
  | fixedArr (deprecated : Bool)
  | varArr (deprecated : Bool)
  deriving Repr, DecidableEq

def Agg.deprecated : Agg → Bool
  | .structure d | .union d | .fixedArr d | .varArr d => d

/-- `SerializableType._check_aggregation`: a deprecated type in a non-deprecated aggregate fails -/
def baseAgg (selfDeprecated : Bool) (a : Agg) : Bool := !(selfDeprecated && !a.deprecated)

/-- `_check_aggregation` of the scalar types (`true` = no `AggregationFailure`) -/
def Scalar.aggOk (s : Scalar) (a : Agg) : Bool :=
  match s with
  | .byte => (match a with | .fixedArr _ | .varArr _ => true | _ => false) && baseAgg false a
  | .utf8 => (match a with | .varArr _ => true | _ => false) && baseAgg false a
  | .void _ => (match a with | .structure _ => true | _ => false) && baseAgg false a
  | .comp i => baseAgg i.deprecated a
  | _ => baseAgg false a

/-- `ArrayType._check_aggregation`: the element against the array, then the array against the aggregate -/
def Ty.aggOk (t : Ty) (a : Agg) : Bool :=
  match t with
  | .scalar s => s.aggOk a
  | .fixedArr e _ => e.aggOk (.fixedArr e.deprecated) && baseAgg e.deprecated a
  | .varArr e _ => e.aggOk (.varArr e.deprecated) && baseAgg e.deprecated a

/-! ### layout: the longest representation (for the extent rule) -/

def padTo (a x : Nat) : Nat := ((x + a - 1) / a) * a

def Scalar.maxBits : Scalar → Nat
  | .bool => 1
  | .byte | .utf8 => 8
  | .uint w _ | .int w _ | .float w _ | .void w => w
  | .comp i => i.maxBits

def Scalar.align : Scalar → Nat
  | .comp _ => 8
  | _ => 1

/-- `int.bit_length()` -/
def bitLength (n : Nat) : Nat := if n = 0 then 0 else Nat.log2 n + 1

/-- `2 ** ceil(log2(max(8, b)))` for `b ≤ 64` -/
def pow2ceil8 (b : Nat) : Nat := if b ≤ 8 then 8 else if b ≤ 16 then 16 else if b ≤ 32 then 32 else if b ≤ 64 then 64 else 128

def Ty.align : Ty → Nat
  | .scalar s => s.align
  | .fixedArr e _ => e.align
  | .varArr e _ => e.align

def Ty.maxBits : Ty → Nat
  | .scalar s => s.maxBits
  | .fixedArr e cap => e.maxBits * cap.toNat
  | .varArr e cap => Nat.max (pow2ceil8 (bitLength cap.toNat)) e.align + e.maxBits * cap.toNat

/-- `StructureType.aggregate_bit_length_sets(...).pad_to_alignment(8)`, maximum only -/
def structMax (fields : List Ty) : Nat :=
  padTo 8 (fields.foldl (fun off t => padTo t.align off + t.maxBits) 0)

/-- `UnionType`: tag plus the longest variant, padded -/
def unionMax (fields : List Ty) : Nat :=
  let tag := (fields.map Ty.align).foldl Nat.max (pow2ceil8 (bitLength (fields.length - 1)))
  padTo 8 (tag + (fields.map Ty.maxBits).foldl Nat.max 0)

/-! ### statements and the builder -/

inductive RStmt where
  | field (t : Ty) (name : String)
  | padding (w : Nat)
  | const (t : Ty) (name : String)
  | union | deprecated | sealed
  | extent (e : Int)
  | marker
  deriving Repr, DecidableEq, Inhabited

inductive RMode where
  | sealed | extent (e : Int)
  deriving Repr, DecidableEq

/-- one attribute as committed to the schema builder -/
inductive RAttr where
  | field (t : Ty) (name : String)
  | padding (w : Nat)
  | const (t : Ty) (name : String)
  deriving Repr, DecidableEq

structure RSchema where
  attrs : List RAttr
  union : Bool
  mode : Option RMode
  deriving Repr, DecidableEq

def RSchema.empty : RSchema := ⟨[], false, none⟩

structure BState where
  done : List RSchema
  cur : RSchema
  deprecated : Bool
  deriving Repr, DecidableEq

def BState.init : BState := ⟨[], RSchema.empty, false⟩

/-- `Attribute.__init__` / `PaddingField` / `Constant` as far as names and type kinds go.
    A constant must be of a boolean, integer or float type (`byte`/`utf8` are integer types here). -/
def attrCtorOk : RStmt → Bool
  | .field t name =>
      t.ctorOk && (match t with
        | .scalar (.void _) => false       -- "Void-typed fields can be used only for padding and cannot be named"
        | _ => checkName name)
  | .padding w => (Scalar.void w).ctorOk
  | .const t name =>
      t.ctorOk && (match t with
        | .scalar (.void _) => false
        | .scalar (.comp _) => false
        | .scalar _ => checkName name
        | _ => false)
  | _ => true

def isExtent : Option RMode → Bool
  | some (.extent _) => true
  | _ => false

/-- one statement through `DataTypeBuilder`; `none` = an `InvalidDefinitionError` is raised -/
def bstep (s : BState) (st : RStmt) : Option BState :=
  match st with
  | .field t n =>
      if !attrCtorOk st || isExtent s.cur.mode then none
      else some { s with cur := { s.cur with attrs := s.cur.attrs ++ [.field t n] } }
  | .padding w =>
      if !attrCtorOk st || isExtent s.cur.mode then none
      else some { s with cur := { s.cur with attrs := s.cur.attrs ++ [.padding w] } }
  | .const t n =>
      if !attrCtorOk st || isExtent s.cur.mode then none
      else some { s with cur := { s.cur with attrs := s.cur.attrs ++ [.const t n] } }
  | .union =>
      if s.cur.union || !s.cur.attrs.isEmpty then none
      else some { s with cur := { s.cur with union := true } }
  | .deprecated =>
      if s.deprecated || !s.done.isEmpty || !s.cur.attrs.isEmpty then none
      else some { s with deprecated := true }
  | .sealed =>
      if s.cur.mode.isSome then none else some { s with cur := { s.cur with mode := some .sealed } }
  | .extent e =>
      if s.cur.mode.isSome then none else some { s with cur := { s.cur with mode := some (.extent e) } }
  | .marker =>
      if !s.done.isEmpty then none else some { s with done := s.done ++ [s.cur], cur := RSchema.empty }

def brun : BState → List RStmt → Option BState
  | s, [] => some s
  | s, st :: rest => match bstep s st with
    | none => none
    | some s' => brun s' rest

/-! ### finalize -/

def RAttr.name : RAttr → String
  | .field _ n => n
  | .padding _ => ""
  | .const _ n => n

def RAttr.ty : RAttr → Ty
  | .field t _ => t
  | .padding w => .scalar (.void w)
  | .const t _ => t

def RAttr.isField : RAttr → Bool
  | .const .. => false
  | _ => true

/-- "Multiple attributes under the same name" (paddings have no name) -/
def namesUnique : List String → Bool
  | [] => true
  | n :: rest => (n == "" || !rest.contains n) && namesUnique rest

structure Header where
  /-- namespace components, root first -/
  ns : List String
  short : String
  major : Nat
  minor : Nat
  port : Option Nat
  allowUnregulated : Bool
  deriving Repr, DecidableEq, Inhabited

def fullName (comps : List String) : String := ".".intercalate comps

/-- the name checks of `CompositeType.__init__` for the composite named by these components -/
def compositeNameOk (comps : List String) : Bool :=
  decide (2 ≤ comps.length) && decide ((fullName comps).length ≤ 255) && comps.all checkName

def versionOk (major minor : Nat) : Bool :=
  decide (major ≤ 255) && decide (minor ≤ 255) && decide (0 < major + minor)

/-- `CompositeType.__init__` + `UnionType.__init__` + `_make_composite` + `DelimitedType.__init__` for one schema -/
def schemaOk (comps : List String) (deprecated : Bool) (sc : RSchema) : Bool :=
  let fields := (sc.attrs.filter RAttr.isField).map RAttr.ty
  let agg : Agg := if sc.union then .union deprecated else .structure deprecated
  compositeNameOk comps &&
  namesUnique (sc.attrs.map RAttr.name) &&
  sc.attrs.all (fun a => a.ty.aggOk agg) &&
  (!sc.union || decide (2 ≤ fields.length)) &&
  (match sc.mode with
    | none => false
    | some .sealed => true
    | some (.extent e) =>
        let inner := if sc.union then unionMax fields else structMax fields
        decide (e % 8 = 0) && decide ((inner : Int) ≤ e))

def standardRoot (root : String) : Bool := root == "uavcan" || root == "cyphal"

/-- `_port_id_ranges.py` -/
def regulatedOk (service : Bool) (root : String) (p : Nat) : Bool :=
  if service then
    if standardRoot root then decide (384 ≤ p) && decide (p ≤ 511) else decide (256 ≤ p) && decide (p ≤ 383)
  else
    if standardRoot root then decide (7168 ≤ p) && decide (p ≤ 8191) else decide (6144 ≤ p) && decide (p ≤ 7167)

def portOk (h : Header) (service : Bool) : Bool :=
  match h.port with
  | none => true
  | some p =>
      (if service then decide (p ≤ 511) else decide (p ≤ 8191)) &&
      (h.allowUnregulated || regulatedOk service (h.ns.headD "") p)

def usesService (b : BState) : Bool :=
  (b.done ++ [b.cur]).any fun sc => sc.attrs.any fun a => a.ty.usesService

/-- every check of `finalize` (a service type used as an attribute type is rejected earlier, see `accept`) -/
def finalOk (h : Header) (b : BState) : Bool :=
  let comps := h.ns ++ [h.short]
  versionOk h.major h.minor &&
  (match b.done with
    | [] => schemaOk comps b.deprecated b.cur && portOk h false
    | req :: _ =>
        schemaOk (comps ++ ["Request"]) b.deprecated req && schemaOk (comps ++ ["Response"]) b.deprecated b.cur &&
        compositeNameOk comps && portOk h true)

inductive Outcome where
  | ok | invalid
  deriving Repr, DecidableEq, Inhabited

structure Defn where
  header : Header
  stmts : List RStmt
  deriving Repr, DecidableEq, Inhabited

/-- accepted or rejected -/
def accept (d : Defn) : Outcome :=
  match brun BState.init d.stmts with
  | none => .invalid
  | some b => if finalOk d.header b && !usesService b then .ok else .invalid

end Rules
