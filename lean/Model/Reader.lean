/-
  Model of the statement reader of pydsdl: the parse-tree visitor of `pydsdl/_parser.py` (comment
  accumulation, `_flush_comment`, `visit_line`, `visit_end_of_line`, the flush at the end of `parse`),
  the statement-stream consumer `pydsdl/_data_type_builder.py` (`_queue_attribute`/`_flush_attribute`,
  directives, service response marker, `finalize`) with `pydsdl/_data_schema_builder.py`, the error-location
  rule of `pydsdl/_error.py` (`set_error_location_if_unknown`) as used by `_parser.parse` and
  `_dsdl_definition.DSDLDefinition.read`, and the part of `_namespace_reader._read_definitions` that decides
  which definition object is parsed when and which path a `@print` is delivered with.

  A document is a list of abstract lines.  A line carries what the properties C03/C17 observe of its
  statement (kind, name, normalised type, value), the identifiers/definitions its expressions refer to, a
  marker of *when* the statement itself raises (the position of the `raise` relative to the flushes, the
  only thing about a fault that influences the reported location), its comment and whether its text is empty.
  Types and expression values are opaque strings here (their evaluation is C04/C05/C12).

  Import-free, total, executable.
-/
namespace Reader

/-- Where in the visitor order a statement's own fault is raised.
    `syn`    the text does not match the grammar (the whole parse fails before any visitor runs);
    `pre`    while visiting children that precede the first identifier (e.g. `int1 x`: the type constructor);
    `mid`    after the first identifier (which flushes), before the statement visitor
             (undefined type / identifier, bad expression, bad array capacity);
    `emit`   inside the `on_*` handler of the builder (only for faults the model does not compute itself);
    `commit` inside the queued attribute callback (`Field(...)`/`Constant(...)` constructor: bad name, bad value). -/
inductive Phase where
  | syn | pre | mid | emit | commit
  deriving Repr, DecidableEq, Inhabited

/-- The evaluated expression of a directive, as far as the builder inspects it. -/
inductive EVal where
  | boolean (b : Bool)
  | rational (n : Int)
  | other
  deriving Repr, DecidableEq, Inhabited

inductive AKind where
  | field | padding | const
  deriving Repr, DecidableEq, Inhabited

/-- What C03 observes of an attribute statement (`str(attribute)` = type, name, value). -/
structure Core where
  kind : AKind
  name : String
  ty : String
  value : String
  deriving Repr, DecidableEq, Inhabited

inductive Stmt where
  | attr (c : Core)
  | directive (name : String) (expr : Option EVal) (text : String)
  | marker
  deriving Repr, DecidableEq, Inhabited

structure Line where
  stmt : Option Stmt
  /-- identifiers referenced by the expressions of the statement (resolved against the committed constants
      of the current schema, `DataTypeBuilder.resolve_top_level_identifier`) -/
  refs : List String
  /-- referenced definitions (indices into the namespace), read in this order -/
  deps : List Nat
  /-- the statement refers to `_offset_` -/
  offs : Bool
  fault : Option Phase
  /-- the comment without its leading `#` -/
  comment : Option String
  /-- `len(node.text) == 0` in `visit_line` -/
  textEmpty : Bool
  /-- the line is terminated by CR LF (the reader does not distinguish; `end_of_line = ~r"\r?\n"`) -/
  crlf : Bool
  /-- raw line breaks inside string literals of the statement (`_line_breaks_inside_literals`): the statement keeps
      the number of its first physical line, the following lines are numbered after all of them -/
  inner : Nat
  deriving Repr, DecidableEq, Inhabited

structure Attr where
  core : Core
  doc : String
  /-- the line of the statement (bookkeeping for the theorems; never reported by the real code) -/
  line : Nat
  deriving Repr, DecidableEq, Inhabited

inductive Mode where
  | sealed
  | extent (n : Int)
  deriving Repr, DecidableEq, Inhabited

/-- `DataSchemaBuilder` -/
structure Schema where
  fields : List Attr
  consts : List Attr
  mode : Option Mode
  union : Bool
  doc : String
  /-- `_bit_length_computed_at_least_once` -/
  offsetUsed : Bool
  deriving Repr, DecidableEq, Inhabited

def Schema.empty : Schema := ⟨[], [], none, false, "", false⟩

/-- the outcome of `finalize`: one schema for a message, two for a service -/
structure Composite where
  deprecated : Bool
  schemas : List Schema
  deriving Repr, DecidableEq, Inhabited

structure Print where
  file : Nat
  line : Nat
  text : String
  deriving Repr, DecidableEq, Inhabited

/-- `Error.path` (index of the definition) and `Error.line` -/
structure Err where
  file : Nat
  line : Option Nat
  deriving Repr, DecidableEq, Inhabited

/-- What survives a single read: the lookup-list definition objects that hold a cached type, and the
    `@print` deliveries so far. -/
structure W where
  cached : List (Nat × Composite)
  prints : List Print
  deriving Repr, DecidableEq, Inhabited

def W.init : W := ⟨[], []⟩

abbrev M := Except (Err × W)

/-- reading a referenced definition: new world, and the error if it failed -/
abbrev DepRead := W → Nat → W × Option Err

structure Ctx where
  /-- index of the definition being read (its path is what `read` injects) -/
  self : Nat
  /-- the path the print handler was bound to (`functools.partial(print_handler, target.file_path)`) -/
  printFile : Nat
  ndefs : Nat
  depRead : DepRead
  /-- a finalize-time fault that the model does not compute (extent too small, aggregation, port-ID …) -/
  finalFault : Bool

/-- parser + builder state -/
structure St where
  done : List Schema
  cur : Schema
  /-- `_element_callback` : the queued attribute and whether its constructor will raise -/
  pending : Option (Attr × Bool)
  comment : String
  header : Bool
  deprecated : Bool
  /-- `_last_attribute_line_number`: the line of the attribute statement that awaits its doc comment (0 = none yet) -/
  lastAttrLine : Nat
  w : W
  deriving Repr, Inhabited

def St.init (w : W) : St := ⟨[], Schema.empty, none, "", true, false, 0, w⟩

def raise {α : Type} (c : Ctx) (s : St) (line : Option Nat) : M α := .error (⟨c.self, line⟩, s.w)

/-- `node.text[2:] if node.text.startswith("# ") else node.text[1:]` (the `#` is already removed) -/
def cleanComment (t : String) : String :=
  match t.toList with
  | ' ' :: r => String.ofList r
  | _ => t

/-- `visit_comment` -/
def St.addComment (s : St) (t : String) : St :=
  { s with comment := (if s.comment ≠ "" then s.comment ++ "\n" else "") ++ cleanComment t }

/-- the queued callback: `self._structs[-1].add_field(Field(...))` / `add_constant(Constant(...))`; an error leaves
    with the line `el` -/
def commitAttr (c : Ctx) (el : Nat) (s : St) (a : Attr) (bad : Bool) (doc : String) : M St :=
  if bad then raise c s (some el)
  else match a.core.kind with
    | .const => .ok { s with cur := { s.cur with consts := s.cur.consts ++ [{ a with doc := doc }] }, pending := none }
    | _ =>
      if s.cur.union && s.cur.offsetUsed then raise c s (some el)
      else .ok { s with cur := { s.cur with fields := s.cur.fields ++ [{ a with doc := doc }] }, pending := none }

/-- `_flush_attribute(comment)` -/
def flushAttr (c : Ctx) (el : Nat) (s : St) (doc : String) : M St :=
  match s.pending with
  | none => .ok s
  | some (a, bad) => commitAttr c el s a bad doc

/-- `_flush_comment` on line `k`.  An error raised while the queued attribute is committed belongs to the line of that
    attribute statement (`_last_attribute_line_number or None`; without one, `parse` injects the current line). -/
def flush (c : Ctx) (k : Nat) (s : St) : M St :=
  if s.header then
    .ok { s with cur := { s.cur with doc := s.comment }, header := false, comment := "" }
  else
    (flushAttr c (if s.lastAttrLine = 0 then k else s.lastAttrLine) s s.comment).map
      fun s' => { s' with header := false, comment := "" }

def Schema.attrNames (sc : Schema) : List String :=
  ((sc.fields ++ sc.consts).filter fun a => a.core.kind != .padding).map (·.core.name)

def Schema.hasAttrs (sc : Schema) : Bool := !(sc.fields.isEmpty && sc.consts.isEmpty)

/-- `resolve_top_level_identifier` for every referenced name -/
def resolveRefs (c : Ctx) (k : Nat) (s : St) : List String → M St
  | [] => .ok s
  | r :: rs => if (s.cur.consts.any fun a => a.core.name == r) then resolveRefs c k s rs else raise c s (some k)

/-- `resolve_versioned_data_type` for every referenced definition; the error of a referenced definition carries that
    definition's path, so `parse` attaches no line of this text to it (`if ex.path is None`): it passes unchanged -/
def readDeps (c : Ctx) (k : Nat) (s : St) : List Nat → M St
  | [] => .ok s
  | j :: js =>
    if c.ndefs ≤ j then raise c s (some k)
    else match c.depRead s.w j with
      | (w', none) => readDeps c k { s with w := w' } js
      | (w', some e) => .error (e, w')

/-- `DataTypeBuilder.on_directive` and its handlers -/
def onDirective (c : Ctx) (k : Nat) (s : St) (name : String) (e : Option EVal) (text : String) : M St :=
  if name = "print" then
    .ok { s with w := { s.w with prints := s.w.prints ++ [⟨c.printFile, k, text⟩] } }
  else if name = "assert" then
    match e with
    | some (.boolean true) => .ok s
    | _ => raise c s (some k)
  else if name = "extent" then
    if s.cur.mode.isSome then raise c s (some k)
    else match e with
      | some (.rational n) => .ok { s with cur := { s.cur with mode := some (.extent n) } }
      | _ => raise c s (some k)
  else if name = "sealed" then
    if s.cur.mode.isSome || e.isSome then raise c s (some k)
    else .ok { s with cur := { s.cur with mode := some .sealed } }
  else if name = "union" then
    if e.isSome || s.cur.union || s.cur.hasAttrs then raise c s (some k)
    else .ok { s with cur := { s.cur with union := true } }
  else if name = "deprecated" then
    if e.isSome || s.deprecated || !s.done.isEmpty || s.cur.hasAttrs then raise c s (some k)
    else .ok { s with deprecated := true }
  else raise c s (some k)

def Mode.isExtent : Option Mode → Bool
  | some (.extent _) => true
  | _ => false

/-- `on_field` / `on_constant` / `on_padding_field`: `_on_attribute`, then `_queue_attribute`; back in the statement
    visitor `_last_attribute_line_number` is set -/
def onAttr (c : Ctx) (k : Nat) (s : St) (core : Core) (bad : Bool) : M St :=
  if Mode.isExtent s.cur.mode then raise c s (some k)
  else (flushAttr c k s "").map fun s' => { s' with pending := some (⟨core, "", k⟩, bad), lastAttrLine := k }

/-- `visit_statement_service_response_marker` (after its flush) and `on_service_response_marker` -/
def onMarker (c : Ctx) (k : Nat) (s : St) : M St :=
  if !s.done.isEmpty then raise c s (some k)
  else .ok { s with done := s.done ++ [s.cur], cur := Schema.empty, header := true }

/-- does visiting the statement's children reach `visit_identifier` (which flushes the pending comment)? -/
def Stmt.hasIdent : Stmt → Bool
  | .attr c => c.kind != .padding
  | .directive .. => true
  | .marker => false

def markOffs (l : Line) (s : St) : St :=
  if l.offs then { s with cur := { s.cur with offsetUsed := true } } else s

/-- one statement on line `k`, first half: the children (identifiers flush, references are resolved, dependencies are
    read) -/
def visitChildren (c : Ctx) (k : Nat) (l : Line) (st : Stmt) (s : St) : M St :=
  if l.fault = some .pre then raise c s (some k)
  else
    (if st.hasIdent || !l.refs.isEmpty || !l.deps.isEmpty then flush c k s else .ok s) >>= fun s1 =>
    resolveRefs c k s1 l.refs >>= fun s2 =>
    readDeps c k (markOffs l s2) l.deps >>= fun s3 =>
    if l.fault = some .mid then raise c s3 (some k) else .ok s3

/-- second half: the statement visitor (flush, then the builder's handler) -/
def emitStmt (c : Ctx) (k : Nat) (l : Line) (st : Stmt) (s : St) : M St :=
  flush c k s >>= fun s4 =>
  if l.fault = some .emit then raise c s4 (some k)
  else match st with
    | .attr core => onAttr c k s4 core (l.fault == some .commit)
    | .directive name e text => onDirective c k s4 name e text
    | .marker => onMarker c k s4

def visitStmt (c : Ctx) (k : Nat) (l : Line) (st : Stmt) (s : St) : M St :=
  visitChildren c k l st s >>= emitStmt c k l st

def addLineComment (l : Line) (s : St) : St :=
  match l.comment with
  | some t => s.addComment t
  | none => s

/-- one line with number `k` : `statement? _? comment?` then `visit_line` -/
def stepLine (c : Ctx) (k : Nat) (s : St) (l : Line) : M St :=
  (match l.stmt with
    | some st => visitStmt c k l st s
    | none => .ok s) >>= fun s1 =>
  if l.textEmpty then flush c k (addLineComment l s1) else .ok (addLineComment l s1)

/-- the number of the line that follows line `l` with number `k` (`visit_end_of_line`) -/
def Line.next (l : Line) (k : Nat) : Nat := k + 1 + l.inner

/-- all lines; `k` is the number of the first of them -/
def runLines (c : Ctx) : Nat → St → List Line → M St
  | _, s, [] => .ok s
  | k, s, l :: ls => stepLine c k s l >>= fun s' => runLines c (l.next k) s' ls

/-- the number of the last line (`current_line_number` when the tree has been visited) -/
def lastLine : Nat → List Line → Nat
  | k, [] => k
  | k, [_] => k
  | k, l :: l' :: ls => lastLine (l.next k) (l' :: ls)

def Schema.namesDistinct (sc : Schema) : Bool := sc.attrNames.Nodup

/-- the checks of `_make_composite`, `CompositeType.__init__`, `UnionType.__init__` that depend only on the
    statement structure -/
def Schema.ok (sc : Schema) : Bool :=
  sc.mode.isSome && sc.namesDistinct &&
    (!sc.union || (decide (2 ≤ sc.fields.length) && sc.fields.all fun a => a.core.kind != .padding))

/-- `DataTypeBuilder.finalize`; errors raised here have no line -/
def finalize (c : Ctx) (s : St) : M Composite :=
  let schemas := s.done ++ [s.cur]
  if c.finalFault || !(schemas.all Schema.ok) then raise c s none
  else .ok ⟨s.deprecated, schemas⟩

def firstSyntaxError : Nat → List Line → Option Nat
  | _, [] => none
  | k, l :: ls => if l.fault = some .syn then some k else firstSyntaxError (l.next k) ls

/-- `_parser.parse` followed by `finalize`, as `DSDLDefinition.read` does it.  The last flush happens with the
    line counter at the last line. -/
def readText (c : Ctx) (ls : List Line) (w : W) : M (Composite × W) :=
  match firstSyntaxError 1 ls with
  | some k => .error (⟨c.self, some k⟩, w)
  | none =>
    runLines c 1 (St.init w) ls >>= fun s =>
    flush c (lastLine 1 ls) s >>= fun s' =>
    (finalize c s').map fun comp => (comp, s'.w)

structure Def where
  lines : List Line
  finalFault : Bool
  deriving Repr, Inhabited

/-- `DSDLDefinition.read` of a lookup-list object: cache hit, or parse and cache.  `fuel` bounds the depth of
    the reference chain (references are acyclic in every generated namespace; running out of fuel is reported with the
    out-of-range path `defs.length`). -/
def readDef : Nat → List Def → Nat → DepRead
  | 0, defs, _, w, _ => (w, some ⟨defs.length, none⟩)
  | fuel + 1, defs, pf, w, i =>
    if (w.cached.any fun p => p.1 == i) then (w, none)
    else match defs[i]? with
      | none => (w, some ⟨i, none⟩)
      | some d =>
        match readText ⟨i, pf, defs.length, readDef fuel defs pf, d.finalFault⟩ d.lines w with
        | .ok (comp, w') => ({ w' with cached := (i, comp) :: w'.cached }, none)
        | .error (e, w') => (w', some e)

/-- `_read_definitions`: the targets in the given (sorted) order.  A target that was already read as a
    dependency of an earlier target is taken from the pool (the cached lookup object) and not parsed again;
    any other target is parsed through its own object, its dependencies through the lookup objects. -/
def readTargets (defs : List Def) : List Nat → W → List (Nat × Composite) → Except (Err × W) (List (Nat × Composite) × W)
  | [], w, acc => .ok (acc, w)
  | t :: ts, w, acc =>
    match w.cached.find? fun p => p.1 == t with
    | some p => readTargets defs ts w (acc ++ [(t, p.2)])
    | none =>
      match defs[t]? with
      | none => .error (⟨t, none⟩, w)
      | some d =>
        match readText ⟨t, t, defs.length, readDef defs.length defs t, d.finalFault⟩ d.lines w with
        | .ok (comp, w') => readTargets defs ts w' (acc ++ [(t, comp)])
        | .error (e, w') => .error (e, w')

end Reader
