import Model.Wire
import Model.BitIO
/-
  The codec of pydsdl/_serdes.py as a DRIVER of the byte-buffer writer / reader of `Model/BitIO.lean`.

  `Model/Wire.lean` describes `_serialize_*` / `_deserialize_*` over an abstract bit stream (one stream function for
  both code paths of `_BitWriter.write_bits` / `_BitReader.read_bits`).  Here the same functions are written the way
  the Python code is: every step is a call of `write_bits`, `align_to`, `finish`, `read_bits`, `remaining_bits`,
  `bounded_subreader` on a `_BitWriter` / `_BitReader` (`BitIO.W` / `BitIO.Rd`, with the fast and the slow path and the
  limit logic), in the order in which Python issues them:

  * integers, booleans, void, length prefixes, union tags, delimiter headers: one `write_bits` / `read_bits`;
  * floats: `for byte_val in packed: writer.write_bits(byte_val, 8)` and `bytes_data.append(reader.read_bits(8))`;
  * structures: per field `align_to(field alignment)` then the field, finally `align_to(8)`;
  * unions: tag, (reader: `tag >= len(fields)` check,) variant, `align_to(8)`;
  * delimited composites, writer: a fresh `_BitWriter()`, the inner type serialised into it, `finish()`, the byte
    count as 32-bit header, then `for byte_val in inner_bytes: writer.write_bits(byte_val, 8)`;
  * delimited composites, reader: header, `payload_bit_length > reader.remaining_bits` → DelimiterHeaderError,
    `bounded_subreader(payload_bit_length)` (advances the parent), the inner type from the sub-reader.

  Proofs/WireIO.lean proves that `encW` / `decR` compute exactly `Wire.enc` / `Wire.dec`.  Import-free (Model only),
  total, executable.
-/
namespace WireIO
open Wire (Ty Val Err Mode Cast)
open BitIO (W Rd)

/-! ## Writer side -/

/-- `bytes(self._buffer)` (`_BitWriter.finish`): the buffer as a list of byte values -/
def bytesOf (buf : List Bool) : List Nat :=
  (List.range (buf.length / 8)).map fun i => BitIO.ofBits ((buf.drop (8 * i)).take 8)

/-- `for byte_val in bs: writer.write_bits(byte_val, 8)` -/
def writeBytes (w : W) (bs : List Nat) : W := bs.foldl (fun w b => BitIO.writeBits w b 8) w

/-- the bytes of `struct.pack("<e"/"<f"/"<d", x)` when the IEEE-754 bit pattern of `x` is `b` (`n` = 16/32/64):
    `b.to_bytes(n // 8, "little")` -/
def floatBytes (n b : Nat) : List Nat := (List.range (n / 8)).map fun i => (b >>> (8 * i)) % 256

/-- `for element in value: _serialize_element(writer, element_type, element)` -/
def encRepW (f : Val → W → W) : List Val → W → W
  | [], w => w
  | v :: vs, w => encRepW f vs (f v w)

/-- `_serialize_composite`: the DelimitedType branch (temporary writer, header, payload byte by byte) or the
    in-place branch -/
def wrapDelimW (m : Mode) (w : W) (body : W → W) : W :=
  match m with
  | .sealed => body w
  | .delimited _ =>
      let inner := bytesOf (body ⟨[], 0⟩).buf
      writeBytes (BitIO.writeBits w inner.length Wire.headerBits) inner

mutual
/-- `_serialize_primitive` / `_serialize_array` / `_serialize_composite` on canonical values -/
def encW : Ty → Val → W → W
  | .bool, .bool b, w => BitIO.writeBits w (if b then 1 else 0) 1
  | .uint n _, .int i, w => BitIO.writeBits w (Wire.toTwos n i) n
  | .sint n _, .int i, w => BitIO.writeBits w (Wire.toTwos n i) n
  | .float n _, .flt b, w => writeBytes w (floatBytes n b)
  | .byte, .int i, w => BitIO.writeBits w (Wire.toTwos 8 i) 8
  | .utf8, .int i, w => BitIO.writeBits w (Wire.toTwos 8 i) 8
  | .void n, _, w => BitIO.writeBits w 0 n
  | .farr e _, .arr vs, w => encRepW (fun v w => encW e v w) vs w
  | .varr e cap, .arr vs, w =>
      encRepW (fun v w => encW e v w) vs (BitIO.writeBits w vs.length (Wire.lenBits cap))
  | .struct fs m, .recd vs, w => wrapDelimW m w fun w => BitIO.alignTo (encFieldsW fs vs w) 8
  | .union fs m, .var tag v, w =>
      wrapDelimW m w fun w =>
        BitIO.alignTo (encVariantW fs tag v (BitIO.writeBits w tag (Wire.tagBits fs.length))) 8
  | _, _, w => w
/-- `for field in schema.fields: writer.align_to(field alignment); <field>` -/
def encFieldsW : List Ty → List Val → W → W
  | t :: ts, v :: vs, w => encFieldsW ts vs (encW t v (BitIO.alignTo w t.align))
  | _, _, w => w
def encVariantW : List Ty → Nat → Val → W → W
  | t :: _, 0, v, w => encW t v w
  | _ :: ts, n+1, v, w => encVariantW ts n v w
  | [], _, _, w => w
end

/-- `serialize(schema, obj, with_delimiter_header=hdr)` after input coercion: the bytes returned by `finish()`,
    as bits -/
def serializeW (t : Ty) (v : Val) (hdr : Bool) : List Bool :=
  (encW (if hdr then t else t.inner) v ⟨[], 0⟩).buf

/-! ## Reader side -/

/-- `for _ in range(k): bytes_data.append(reader.read_bits(8))` -/
def readBytes : Nat → Rd → List Nat × Rd
  | 0, r => ([], r)
  | k+1, r =>
      let (x, r1) := BitIO.readBits r 8
      let (xs, r2) := readBytes k r1
      (x :: xs, r2)

/-- `int.from_bytes(bs, "little")`: the bit pattern `struct.unpack` interprets -/
def leNat : List Nat → Nat
  | [] => 0
  | b :: bs => b + 256 * leNat bs

/-- `for _ in range(length): elements.append(_deserialize_element(reader, element_type))` -/
def decRepR (f : Rd → Except Err (Val × Rd)) : Nat → Rd → Except Err (List Val × Rd)
  | 0, r => .ok ([], r)
  | n+1, r => do
      let (v, r1) ← f r
      let (vs, r2) ← decRepR f n r1
      pure (v :: vs, r2)

/-- `_deserialize_composite`: the DelimitedType branch or the in-place branch.  In the delimited branch the result
    reader is the parent as advanced by `bounded_subreader`, whatever the sub-reader consumed. -/
def unwrapDelimR (m : Mode) (r : Rd) (body : Rd → Except Err (Val × Rd)) : Except Err (Val × Rd) :=
  match m with
  | .sealed => body r
  | .delimited _ =>
      let (bytes, r1) := BitIO.readBits r Wire.headerBits
      if bytes * 8 > r1.remaining then .error .delimiterHeader else
        let (sub, parent) := r1.sub (bytes * 8)
        do let (v, _) ← body sub
           pure (v, parent)

mutual
/-- `_deserialize_primitive` / `_deserialize_array` / `_deserialize_composite` -/
def decR : Ty → Rd → Except Err (Val × Rd)
  | .bool, r => let (x, r') := BitIO.readBits r 1; .ok (.bool (x != 0), r')
  | .uint n _, r => let (x, r') := BitIO.readBits r n; .ok (.int x, r')
  | .sint n _, r => let (x, r') := BitIO.readBits r n; .ok (.int (Wire.ofTwos n x), r')
  | .float n _, r => let (bs, r') := readBytes (n / 8) r; .ok (.flt (leNat bs), r')
  | .byte, r => let (x, r') := BitIO.readBits r 8; .ok (.int x, r')
  | .utf8, r => let (x, r') := BitIO.readBits r 8; .ok (.int x, r')
  | .void n, r => let (_, r') := BitIO.readBits r n; .ok (.unit, r')
  | .farr e cap, r => do
      let (vs, r') ← decRepR (fun q => decR e q) cap r
      pure (.arr vs, r')
  | .varr e cap, r =>
      let (len, r1) := BitIO.readBits r (Wire.lenBits cap)
      if len > cap then .error .arrayLength else do
        let (vs, r') ← decRepR (fun q => decR e q) len r1
        if e.isUtf8 && !Wire.validUtf8 (vs.map Val.byteOf) then .error .value else pure (.arr vs, r')
  | .struct fs m, r =>
      unwrapDelimR m r fun q => do
        let (vs, r') ← decFieldsR fs q
        pure (.recd vs, r'.alignTo 8)
  | .union fs m, r =>
      unwrapDelimR m r fun q =>
        let (tag, r1) := BitIO.readBits q (Wire.tagBits fs.length)
        if tag ≥ fs.length then .error .unionTag else do
          let (v, r') ← decVariantR fs tag r1
          pure (.var tag v, r'.alignTo 8)
/-- `for field in schema.fields: reader.align_to(field alignment); <field>` -/
def decFieldsR : List Ty → Rd → Except Err (List Val × Rd)
  | [], r => .ok ([], r)
  | t :: ts, r => do
      let (v, r1) ← decR t (r.alignTo t.align)
      let (vs, r2) ← decFieldsR ts r1
      pure (v :: vs, r2)
/-- `field = schema.fields[tag]; _deserialize_field_value(reader, field.data_type)` -/
def decVariantR : List Ty → Nat → Rd → Except Err (Val × Rd)
  | [], _, _ => .error .unionTag
  | t :: _, 0, r => decR t r
  | _ :: ts, n+1, r => decVariantR ts n r
end

/-- `deserialize(schema, data, with_delimiter_header=hdr)` on `_BitReader(bytes(data))` -/
def deserializeR (t : Ty) (bits : List Bool) (hdr : Bool) : Except Err Val :=
  if hdr && !t.isDelimited then .error .value else do
    let (v, _) ← decR (if hdr then t else t.inner) ⟨bits, 0, 0, none⟩
    pure v

end WireIO
