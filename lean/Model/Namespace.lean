/-
  Model of the namespace layer of pydsdl:

    pydsdl/_dsdl_definition.py   DSDLDefinition.__init__ (file name -> name, version, port-ID), DSDLDefinition.read
                                 (cache, lookup list minus self), __eq__/__hash__ (= (full name, version))
    pydsdl/_data_type_builder.py DataTypeBuilder.resolve_versioned_data_type, finalize (serialization mode, port-ID
                                 range checks through _port_id_ranges.py)
    pydsdl/_namespace_reader.py  _read_definitions / read_definitions (file pool, direct / transitive, promotion)
    pydsdl/_namespace.py         read_namespace, read_files, _construct_dsdl_definitions_from_namespaces,
                                 _ensure_no_fixed_port_id_collisions, _ensure_minor_version_compatibility(_pairwise),
                                 _ensure_no_namespace_name_collisions_or_nested_root_namespaces
    pydsdl/_dsdl.py              get_definition_ordering_rank / file_sort

  Import-free, total, executable.  What is abstracted:

  * the text of a definition is an ordered list of statements that matter at this layer: a reference to a versioned
    type (absolute or relative name), a primitive field of a given width, `@print`, a statement that violates some
    rule local to the definition (`bad`), plus per section the serialization mode; `garbage` = the text does not parse;
  * the file system is a list of entries (canonical root directory, sub-directories, file name, text); `pathlib`
    resolution, symlinks, the working directory, hash seeds and enumeration order of the real file system are runtime
    notions (the enumeration order is the order of the list, theorems quantify over its permutations);
  * errors are classes (`Err`), not messages or blamed paths;
  * Python `set`s of composites / definitions whose members have pairwise distinct (name, version) are lists; when two
    *targets* have the same (name, version) the library's behaviour depends on set iteration order and on
    `CompositeType.__eq__` (bit length sets): the model does not mirror that region and answers `Err.dupKey`
    (finding F9, DESIGN.md section 6).
-/
namespace Ns

abbrev Path := List String

inductive Err where
  | fileName            -- FileNameFormatError
  | undefinedType       -- UndefinedDataTypeError
  | collision           -- DataTypeCollisionError
  | nameCollision       -- DataTypeNameCollisionError
  | localInvalid        -- a rule local to one definition text is violated (syntax, assert, mode, extent, version, port-ID)
  | portCollision       -- FixedPortIDCollisionError
  | minorKind           -- VersionsOfDifferentKindError
  | minorPortId         -- MinorVersionFixedPortIDError
  | minorExtent         -- ExtentConsistencyError
  | minorSealing        -- SealingConsistencyError
  | nestedRoot          -- NestedRootNamespaceError
  | rootNameCollision   -- RootNamespaceNameCollisionError
  | serviceField        -- a service type used as a field type (library: InvalidTypeError since /repo 1557772; was InternalError, finding F11)
  | assertion           -- a bare `assert` of the library fails
  | dupKey              -- two targets with the same (name, version): not mirrored (finding F9)
  deriving DecidableEq, Repr, Inhabited

/-- The errors that are `InvalidDefinitionError`s in the library. -/
def Err.isInvalid : Err → Bool
  | .assertion | .dupKey => false
  | _ => true

/-! ## File names: `DSDLDefinition.__init__` -/

/-- `str.split(".")` -/
def splitDots : List Char → List (List Char)
  | [] => [[]]
  | c :: cs =>
    if c = '.' then [] :: splitDots cs
    else match splitDots cs with
      | p :: ps => (c :: p) :: ps
      | [] => [[c]]

def isDigits (s : List Char) : Bool := !s.isEmpty && s.all Char.isDigit

/-- Decimal numeral, ASCII digits only.  (CPython's `int()` accepts more: finding F10.) -/
def parseNat (s : List Char) : Option Nat :=
  if isDigits s then some (Nat.ofDigitChars 10 s 0) else none

structure FileName where
  pid : Option Nat
  short : List Char
  major : Nat
  minor : Nat
  deriving DecidableEq, Repr

/-- `[<port-id>.]<ShortName>.<major>.<minor>.<extension>` -/
def parseFileName (s : List Char) : Except Err FileName :=
  match (splitDots s).dropLast with
  | [p, n, ma, mi] =>
    match parseNat p, parseNat ma, parseNat mi with
    | some p, some ma, some mi => .ok ⟨some p, n, ma, mi⟩
    | _, _, _ => .error .fileName
  | [n, ma, mi] =>
    match parseNat ma, parseNat mi with
    | some ma, some mi => .ok ⟨none, n, ma, mi⟩
    | _, _ => .error .fileName
  | _ => .error .fileName

def renderFileName (x : FileName) (ext : List Char) : List Char :=
  (match x.pid with
   | some p => Nat.toDigits 10 p ++ ['.']
   | none => []) ++ x.short ++ ['.'] ++ Nat.toDigits 10 x.major ++ ['.'] ++ Nat.toDigits 10 x.minor ++ ['.'] ++ ext

/-- The two globs of `_construct_dsdl_definitions_from_namespaces`. -/
def isDefinitionFile (fname : String) : Bool := fname.endsWith ".dsdl" || fname.endsWith ".uavcan"

/-! ## Abstract definition text -/

structure Ref where
  name : String      -- as written: contains a dot = absolute, otherwise relative to the referrer's namespace
  major : Nat
  minor : Nat
  deriving DecidableEq, Repr

inductive Stmt where
  | ref (r : Ref)
  | prim (bits : Nat)
  | print (n : Nat)
  | bad
  deriving DecidableEq, Repr

inductive Mode where
  | sealed
  | extent (bits : Nat)
  | none
  deriving DecidableEq, Repr

structure Sect where
  stmts : List Stmt
  mode : Mode
  deriving DecidableEq, Repr

structure Text where
  garbage : Bool
  req : Sect
  resp : Option Sect     -- `some` = service type
  deriving DecidableEq, Repr

/-! ## Definitions (objects of class `DSDLDefinition`) -/

structure FileEntry where
  dir : Path            -- canonical path of the root namespace directory under which the file was enumerated
  sub : List String     -- directories between the root namespace directory and the file
  fname : String
  text : Text
  deriving DecidableEq, Repr

structure Def where
  tgt : Bool            -- constructed for the target list (`true`) or for the lookup list: distinct Python objects
  path : Path           -- canonical file path
  root : Path           -- canonical root namespace directory
  comps : List String   -- name components
  name : String         -- full name
  major : Nat
  minor : Nat
  fpid : Option Nat
  text : Text
  deriving DecidableEq, Repr

/-- `DSDLDefinition.__eq__` / `__hash__` -/
def Def.key (d : Def) : String × Nat × Nat := (d.name, d.major, d.minor)

def joinDots (l : List String) : String := ".".intercalate l

def Def.namespace (d : Def) : String := joinDots d.comps.dropLast

def Def.rootName (d : Def) : String := d.comps.headD ""

def hasDot (s : String) : Bool := s.toList.contains '.'

def mkDef (tgt : Bool) (e : FileEntry) : Except Err Def :=
  let rootName := e.dir.getLast?.getD ""
  if hasDot rootName then .error .fileName
  else match parseFileName e.fname.toList with
    | .error x => .error x
    | .ok fn =>
      if e.sub.any hasDot then .error .fileName
      else
        let comps := rootName :: (e.sub ++ [String.ofList fn.short])
        .ok { tgt := tgt, path := e.dir ++ e.sub ++ [e.fname], root := e.dir, comps := comps, name := joinDots comps,
              major := fn.major, minor := fn.minor, fpid := fn.pid, text := e.text }

/-! ## Ordering: `get_definition_ordering_rank` -/

/-- `(name, -major, -minor) <= (name', -major', -minor')` -/
def keyLe (a b : String × Nat × Nat) : Bool :=
  a.1 < b.1 || (a.1 == b.1 && (a.2.1 > b.2.1 || (a.2.1 == b.2.1 && a.2.2 ≥ b.2.2)))

def sortDefs (l : List Def) : List Def := l.mergeSort (fun a b => keyLe a.key b.key)

/-! ## Composite types as far as this layer observes them -/

structure SecInfo where
  sealed : Bool
  extent : Nat
  shape : List (Option Nat)   -- one entry per field: width of a primitive, `none` for a composite
  deriving DecidableEq, Repr, Inhabited

structure TyInfo where
  name : String
  major : Nat
  minor : Nat
  fpid : Option Nat
  isService : Bool
  req : SecInfo               -- the type itself for a message, the request for a service
  resp : SecInfo              -- the response for a service (copy of `req` for a message)
  path : Path
  root : Path
  deriving DecidableEq, Repr, Inhabited

inductive Ty where
  | mk (info : TyInfo) (nested : List Ty)
  deriving Repr, Inhabited

def Ty.info : Ty → TyInfo
  | .mk i _ => i
def Ty.nested : Ty → List Ty
  | .mk _ n => n

mutual
def Ty.beq : Ty → Ty → Bool
  | .mk i1 n1, .mk i2 n2 => i1 == i2 && Ty.beqs n1 n2
def Ty.beqs : List Ty → List Ty → Bool
  | [], [] => true
  | a :: as, b :: bs => Ty.beq a b && Ty.beqs as bs
  | _, _ => false
end

instance : BEq Ty := ⟨Ty.beq⟩

def TyInfo.key (i : TyInfo) : String × Nat × Nat := (i.name, i.major, i.minor)
def Ty.key (t : Ty) : String × Nat × Nat := t.info.key

/-- maximal serialized length of a field of this type: sealed = its own length, delimited = 32-bit header + extent -/
def Ty.fieldBits (t : Ty) : Nat := if t.info.req.sealed then t.info.req.extent else 32 + t.info.req.extent

def sumBits : List (Option Nat) → Nat
  | [] => 0
  | some b :: r => b + sumBits r
  | none :: r => sumBits r

def sumFieldBits : List Ty → Nat
  | [] => 0
  | t :: r => t.fieldBits + sumFieldBits r

/-- `_make_composite`: serialization mode, `DelimitedType.__init__` extent checks -/
def mkSec (m : Mode) (shape : List (Option Nat)) (nested : List Ty) : Except Err SecInfo :=
  let content := sumBits shape + sumFieldBits nested
  match m with
  | .none => .error .localInvalid
  | .sealed => .ok ⟨true, content, shape⟩
  | .extent e => if e % 8 != 0 || e < content then .error .localInvalid else .ok ⟨false, e, shape⟩

/-- `check_name` without the table of reserved words (generated names avoid them) -/
def compOk (s : String) : Bool :=
  match s.toList with
  | [] => false
  | c :: cs => (c.isAlpha || c == '_') && cs.all (fun x => x.isAlphanum || x == '_')

def versionOk (ma mi : Nat) : Bool := ma ≤ 255 && mi ≤ 255 && ma + mi > 0

/-- `CompositeType.__init__` port-ID check -/
def portOk (isService : Bool) (pid : Nat) : Bool := pid ≤ (if isService then 511 else 8191)

/-- `_port_id_ranges.is_valid_regulated_{subject,service}_id` -/
def regulatedOk (isService : Bool) (rootName : String) (pid : Nat) : Bool :=
  let std := rootName == "uavcan" || rootName == "cyphal"
  if isService then (if std then 384 ≤ pid && pid ≤ 511 else 256 ≤ pid && pid ≤ 383)
  else (if std then 7168 ≤ pid && pid ≤ 8191 else 6144 ≤ pid && pid ≤ 7167)

/-- `DataTypeBuilder.finalize` -/
def finalize (allowUnreg : Bool) (d : Def) (req : SecInfo) (resp : Option SecInfo) (nested : List Ty) : Except Err Ty :=
  let isService := resp.isSome
  if !d.comps.all compOk || !versionOk d.major d.minor then .error .localInvalid
  else
    let pidOk := match d.fpid with
      | none => true
      | some p => portOk isService p && (allowUnreg || regulatedOk isService d.rootName p)
    if !pidOk then .error .localInvalid
    else .ok (.mk { name := d.name, major := d.major, minor := d.minor, fpid := d.fpid, isService := isService,
                    req := req, resp := resp.getD req, path := d.path, root := d.root } nested)

/-! ## Reference resolution: `DataTypeBuilder.resolve_versioned_data_type` -/

def completeName (d : Def) (ref : String) : String :=
  if hasDot ref then ref else joinDots [d.namespace, ref]

def refMatches (full : String) (ma mi : Nat) (x : Def) : Bool :=
  x.name.toLower == full.toLower && x.major == ma && x.minor == mi

/-- the decision on the list `found` -/
def pick (full : String) : List Def → Except Err Def
  | [] => .error .undefinedType
  | [x] => if x.name != full then .error .nameCollision else .ok x
  | x :: y :: _ => if x.name != y.name then .error .nameCollision else .error .collision

def resolve (L : List Def) (d : Def) (r : Ref) : Except Err Def :=
  pick (completeName d r.name) (L.filter (refMatches (completeName d r.name) r.major r.minor))

theorem pick_mem {full : String} {F : List Def} {x : Def} (h : pick full F = .ok x) : x ∈ F := by
  match F, h with
  | [], h => simp [pick] at h
  | [y], h =>
    by_cases hn : (y.name != full) = true
    · simp [pick, hn] at h
    · simp only [pick, hn] at h
      have : y = x := by simpa using h
      exact List.mem_singleton.mpr this.symm
  | y :: z :: _, h =>
    by_cases hn : (y.name != z.name) = true <;> simp [pick, hn] at h

theorem resolve_mem {L : List Def} {d : Def} {r : Ref} {x : Def} (h : resolve L d r = .ok x) : x ∈ L :=
  (List.mem_filter.mp (pick_mem h)).1

/-! ## Reading: `DSDLDefinition.read` -/

structure St where
  cache : List (Def × Ty) := []              -- `_cached_type` of every definition object (a `Def` value is one object)
  prints : List Nat := []                    -- `@print` output in order of emission
  visited : List Def := []                   -- `DefinitionVisitor.on_definition` calls (dependency objects)
  deriving Inhabited

abbrev Res (α : Type) := Except Err α × St

/-- The statements of one section.  `rd` reads a referenced definition (it is `DSDLDefinition.read` of the
    dependency); returns the shape of the fields and the nested composite types in order. -/
def runStmts (L : List Def) (d : Def) (rd : (x : Def) → x ∈ L → St → Res Ty) :
    List Stmt → St → Res (List (Option Nat) × List Ty)
  | [], st => (.ok ([], []), st)
  | .prim b :: rest, st =>
    match runStmts L d rd rest st with
    | (.ok (sh, ns), st') => (.ok (some b :: sh, ns), st')
    | (.error e, st') => (.error e, st')
  | .print n :: rest, st => runStmts L d rd rest { st with prints := st.prints ++ [n] }
  | .bad :: _, st => (.error .localInvalid, st)
  | .ref r :: rest, st =>
    match h : resolve L d r with
    | .error e => (.error e, st)
    | .ok x =>
      match rd x (resolve_mem h) { st with visited := st.visited ++ [x] } with
      | (.error e, st1) => (.error e, st1)
      | (.ok t, st1) =>
        if t.info.isService then (.error .serviceField, st1)
        else match runStmts L d rd rest st1 with
          | (.ok (sh, ns), st2) => (.ok (none :: sh, t :: ns), st2)
          | (.error e, st2) => (.error e, st2)

/-- the end of `DataTypeBuilder.finalize`: sections and composite from the collected fields -/
def assemble (allowUnreg : Bool) (d : Def) (sh1 : List (Option Nat)) (n1 : List Ty)
    (resp : Option (Mode × List (Option Nat) × List Ty)) : Except Err Ty :=
  match resp with
  | none =>
    match mkSec d.text.req.mode sh1 n1 with
    | .error e => .error e
    | .ok s1 => finalize allowUnreg d s1 none n1
  | some (m2, sh2, n2) =>
    match mkSec d.text.req.mode sh1 n1, mkSec m2 sh2 n2 with
    | .ok s1, .ok s2 => finalize allowUnreg d s1 (some s2) (n1 ++ n2)
    | .error e, _ => .error e
    | _, .error e => .error e

/-- Parse + build one definition whose lookup list is `L` (the definition itself already removed). -/
def readBody (allowUnreg : Bool) (L : List Def) (d : Def) (rd : (x : Def) → x ∈ L → St → Res Ty) (st : St) : Res Ty :=
  if d.text.garbage then (.error .localInvalid, st)
  else match runStmts L d rd d.text.req.stmts st with
    | (.error e, st1) => (.error e, st1)
    | (.ok (sh1, n1), st1) =>
      match d.text.resp with
      | none => (assemble allowUnreg d sh1 n1 none, st1)
      | some rs =>
        match runStmts L d rd rs.stmts st1 with
        | (.error e, st2) => (.error e, st2)
        | (.ok (sh2, n2), st2) => (assemble allowUnreg d sh1 n1 (some (rs.mode, sh2, n2)), st2)

def dropKey (L : List Def) (d : Def) : List Def := L.filter (fun y => y.key != d.key)

theorem dropKey_length_lt {L : List Def} {x : Def} (hx : x ∈ L) : (dropKey L x).length < L.length := by
  unfold dropKey
  induction L with
  | nil => cases hx
  | cons a l ih =>
    rw [List.filter_cons]
    cases List.mem_cons.mp hx with
    | inl h =>
      subst h
      have : (x.key != x.key) = false := by simp
      rw [this]
      exact Nat.lt_succ_of_le (List.length_filter_le _ _)
    | inr h =>
      split
      · simp only [List.length_cons]; exact Nat.succ_lt_succ (ih h)
      · exact Nat.lt_succ_of_lt (ih h)

set_option linter.unusedVariables false in
/-- `DSDLDefinition.read`: cache hit, otherwise remove every definition equal to `self` from the lookup list and build;
    the result is cached.  The recursion is on the strictly shrinking lookup list. -/
def readObj (allowUnreg : Bool) (L : List Def) (d : Def) (st : St) : Res Ty :=
  match st.cache.lookup d with
  | some t => (.ok t, st)
  | none =>
    match readBody allowUnreg (dropKey L d) d (fun x hx s => readObj allowUnreg (dropKey L d) x s) st with
    | (.ok t, st') => (.ok t, { st' with cache := (d, t) :: st'.cache })
    | (.error e, st') => (.error e, st')
termination_by (dropKey L d).length
decreasing_by exact dropKey_length_lt hx

/-! ## Direct / transitive bookkeeping: `_namespace_reader._read_definitions` -/

structure Book where
  pool : List (Path × Def) := []     -- `file_pool`: path -> definition object
  direct : List Ty := []
  transitive : List Ty := []
  st : St := {}
  deriving Inhabited

/-- `file_pool.setdefault(d.file_path, d)` -/
def setDefault (pool : List (Path × Def)) (d : Def) : Def × List (Path × Def) :=
  match pool.lookup d.path with
  | some o => (o, pool)
  | none => (d, (d.path, d) :: pool)

def addTy (l : List Ty) (t : Ty) : List Ty := if l.contains t then l else l ++ [t]
def removeTy (l : List Ty) (t : Ty) : List Ty := l.filter (fun x => !(x == t))

/-- `set(pending)` of definition objects: one per key, first occurrence kept -/
def dedupKeys : List Def → List Def
  | [] => []
  | d :: r => d :: (dedupKeys r).filter (fun y => y.key != d.key)

/-- the recursive call at `level + 1`: every pending definition was read while its referrer was built, so the read
    is a cache hit; no further definitions become pending -/
def level1 (allowUnreg : Bool) (L : List Def) : List Def → Book → Except Err Book × St
  | [], b => (.ok b, b.st)
  | p :: rest, b =>
    let (p', pool) := setDefault b.pool p
    let b := { b with pool := pool }
    match b.st.cache.lookup p' with
    | some t =>
      if b.direct.contains t || b.transitive.contains t then level1 allowUnreg L rest b
      else level1 allowUnreg L rest { b with transitive := addTy b.transitive t }
    | none =>
      match readObj allowUnreg L p' b.st with
      | (.error e, st) => (.error e, st)
      | (.ok t, st) => level1 allowUnreg L rest { b with transitive := addTy b.transitive t, st := st }

def level0 (allowUnreg : Bool) (L : List Def) : List Def → Book → Except Err Book × St
  | [], b => (.ok b, b.st)
  | t0 :: rest, b =>
    let (t, pool) := setDefault b.pool t0
    let b := { b with pool := pool }
    let skip : Option Book :=
      match b.st.cache.lookup t with
      | some ty =>
        if b.direct.contains ty then some b
        else if b.transitive.contains ty then
          some { b with transitive := removeTy b.transitive ty, direct := addTy b.direct ty }
        else none
      | none => none
    match skip with
    | some b' => level0 allowUnreg L rest b'
    | none =>
      match readObj allowUnreg L t { b.st with visited := [] } with
      | (.error e, st) => (.error e, st)
      | (.ok ty, st) =>
        let b := { b with direct := addTy b.direct ty, transitive := removeTy b.transitive ty, st := st }
        let pending := dedupKeys (st.visited.filter (fun x => (b.pool.lookup x.path).isNone))
        match level1 allowUnreg L (sortDefs pending) b with
        | (.error e, st) => (.error e, st)
        | (.ok b', _) => level0 allowUnreg L rest b'

def sortTys (l : List Ty) : List Ty := l.mergeSort (fun a b => keyLe a.key b.key)

/-! ## Cross-definition checks -/

/-- `_ensure_no_fixed_port_id_collisions` -/
def portPairBad (a b : TyInfo) : Bool :=
  let differentNames := a.name != b.name
  let differentMajor := a.major != b.major
  let sameKind := a.isService == b.isService
  let bothReleased := a.major > 0 && b.major > 0
  let mustDiffer := sameKind && (differentNames || (differentMajor && bothReleased))
  mustDiffer && (match a.fpid, b.fpid with
    | some p, some q => p == q
    | _, _ => false)

def checkPortIdCollisions (types : List TyInfo) : Except Err Unit :=
  if types.any (fun a => types.any (fun b => portPairBad a b)) then .error .portCollision else .ok ()

/-- extent / sealing part of `_ensure_minor_version_compatibility_pairwise` on one section -/
def secPair (major : Nat) (a b : SecInfo) : Except Err Unit :=
  if major > 0 then
    if a.extent != b.extent then .error .minorExtent
    else if a.sealed != b.sealed then .error .minorSealing
    else .ok ()
  else .ok ()

/-- port-ID part of `_ensure_minor_version_compatibility_pairwise`: same presence -> equal; otherwise the newer
    minor version must be the one that has it -/
def minorPidBad (a b : TyInfo) : Bool :=
  if a.fpid.isSome == b.fpid.isSome then a.fpid != b.fpid
  else !(if a.minor > b.minor then a else b).fpid.isSome

/-- extent / sealing part (for services: the recursion into request and response) -/
def minorSecs (a b : TyInfo) : Except Err Unit :=
  if a.isService && b.isService then
    match secPair a.major a.req b.req with
    | .error e => .error e
    | .ok () => secPair a.major a.resp b.resp
  else secPair a.major a.req b.req

/-- `_ensure_minor_version_compatibility_pairwise` -/
def minorPair (a b : TyInfo) : Except Err Unit :=
  if a.minor == b.minor then .error .assertion
  else if a.isService != b.isService then .error .minorKind
  else if minorPidBad a b then .error .minorPortId
  else minorSecs a b

def firstErr : List (Except Err Unit) → Except Err Unit
  | [] => .ok ()
  | .ok () :: r => firstErr r
  | .error e :: _ => .error e

/-- `_ensure_minor_version_compatibility`: all ordered pairs of distinct list positions with the same name and major -/
def checkMinorVersions (types : List TyInfo) : Except Err Unit :=
  let ix := types.zipIdx
  firstErr (ix.flatMap fun (a, i) => ix.filterMap fun (b, j) =>
    if i != j && a.name == b.name && a.major == b.major then some (minorPair a b) else none)

/-- the two checks at the end of `_complete_read_function` -/
def crossCheck (direct all : List TyInfo) : Except Err Unit :=
  match checkPortIdCollisions direct with
  | .error e => .error e
  | .ok () => checkMinorVersions all

/-! ## Directory arguments: `_ensure_no_namespace_name_collisions_or_nested_root_namespaces` -/

def dirName (p : Path) : String := p.getLast?.getD ""

def dirPairBad (allowCollisions : Bool) (a b : Path) : Option Err :=
  if a == b then none
  else if !allowCollisions && (dirName a).toLower == (dirName b).toLower then some .rootNameCollision
  else if b.isPrefixOf a then some .nestedRoot
  else none

def dirsCheck (dirs : List Path) (allowCollisions : Bool) : Except Err Unit :=
  match (dirs.flatMap fun a => dirs.filterMap fun b => dirPairBad allowCollisions a b) with
  | [] => .ok ()
  | e :: _ => .error e

/-! ## Entry points -/

def mapMDefs (tgt : Bool) : List FileEntry → Except Err (List Def)
  | [] => .ok []
  | e :: r =>
    match mkDef tgt e, mapMDefs tgt r with
    | .ok d, .ok ds => .ok (d :: ds)
    | .error x, _ => .error x
    | _, .error x => .error x

/-- `_construct_dsdl_definitions_from_namespaces(dirs)` over the enumeration `files` -/
def collect (tgt : Bool) (files : List FileEntry) (dirs : List Path) : Except Err (List Def) :=
  match mapMDefs tgt (files.filter fun e => dirs.contains e.dir && isDefinitionFile e.fname) with
  | .ok ds => .ok (sortDefs ds)
  | .error e => .error e

def keysDistinct : List Def → Bool
  | [] => true
  | d :: r => r.all (fun y => y.key != d.key) && keysDistinct r

structure Outcome where
  res : Except Err (List Ty × List Ty)
  prints : List Nat
  deriving Inhabited

def dedupPaths : List Path → List Path
  | [] => []
  | p :: r => if r.contains p then dedupPaths r else p :: dedupPaths r

/-- `_complete_read_function` -/
def completeRead (allowUnreg : Bool) (files : List FileEntry) (targets : List Def) (lookupDirs : List Path) : Outcome :=
  match collect false files lookupDirs with
  | .error e => ⟨.error e, []⟩
  | .ok L =>
    if !keysDistinct targets then ⟨.error .dupKey, []⟩
    else match level0 allowUnreg L targets {} with
      | (.error e, st) => ⟨.error e, st.prints⟩
      | (.ok b, st) =>
        let direct := sortTys b.direct
        let transitive := sortTys b.transitive
        match crossCheck (direct.map Ty.info) ((transitive ++ direct).map Ty.info) with
        | .error e => ⟨.error e, st.prints⟩
        | .ok () => ⟨.ok (direct, transitive), st.prints⟩

/-- `read_namespace` (the caller keeps `.direct`) -/
def readNamespace (files : List FileEntry) (root : Path) (lookups : List Path) (allowCollisions allowUnreg : Bool) : Outcome :=
  let dirs := dedupPaths (lookups ++ [root])
  match dirsCheck dirs allowCollisions with
  | .error e => ⟨.error e, []⟩
  | .ok () =>
    match collect true files [root] with
    | .error e => ⟨.error e, []⟩
    | .ok [] => ⟨.ok ([], []), []⟩
    | .ok targets => completeRead allowUnreg files targets dirs

/-- `read_files`; `targets` are the designated files with the root namespace directory inferred for each,
    `roots` the existing directories among `root_namespace_directories_or_names` -/
def readFiles (files : List FileEntry) (targets : List FileEntry) (roots lookups : List Path) (allowUnreg : Bool) : Outcome :=
  match mapMDefs true targets with
  | .error e => ⟨.error e, []⟩
  | .ok [] => ⟨.ok ([], []), []⟩
  | .ok ts =>
    let dirs := dedupPaths (lookups ++ ts.map Def.root ++ roots)
    match dirsCheck dirs true with
    | .error e => ⟨.error e, []⟩
    | .ok () => completeRead allowUnreg files (sortDefs ts) dirs

end Ns
