/-
  Model of pydsdl/_serdes.py (bit-level codec) over the type model of pydsdl/_serializable/*.py.
  Import-free, total, executable.

  * `Ty`    : the serializable types as the codec sees them.  Alignment (`Ty.align`), the implicit array length
              prefix width (`lenBits`, _array.py VariableLengthArrayType.__init__), the union tag width
              (`tagBits`, _composite.py UnionType._compute_tag_bit_length) and the 32-bit delimiter header
              (_composite.py DelimitedType.__init__) are computed here, not received from the harness.
  * `Val`   : canonical (strict) values = what `deserialize` returns.  Structures are positional (one entry per
              field, padding fields carry `unit`); floats are IEEE-754 bit patterns of the field's width.
  * `enc`   : `_serialize_primitive/_serialize_array/_serialize_composite` on canonical values, as a list of bits
              (LSB first, little endian, two's complement, zero padding before each structure field and at the
              end of each composite, delimited composites serialized from offset 0 into a byte string that is
              prefixed with its byte length).
  * `dec`   : `_deserialize_*` over a reader.
  * `coerce`: what `_serialize_*` does with its *input* before writing bits (numeric cast modes, defaults for
              omitted fields, container checks).  `serialize = enc ∘ coerce`.
  * `normalize` : `_normalize_relaxed_value`.

  The reader.  `_BitReader` is (data, start, offset, limit).  Here it is `R = (off, s)`: the absolute bit offset
  (alignment is computed from it, as in Python) and the window `s` = the bits of `data` from `offset` up to
  `min(start+limit, 8*len(data))`.  Reading past the window yields zeros (`takeZ`), `remaining_bits = s.length`,
  `bounded_subreader(k)` is `(off, s.take k)` and advances the parent by `k`.  Both code paths of
  `_BitReader.read_bits` (aligned fast path, bit-wise slow path) are the same function here; their agreement is
  what the correspondence suite checks at every offset.
-/
namespace Wire

inductive Cast | sat | trunc
  deriving Repr, DecidableEq, Inhabited

inductive Mode | sealed | delimited (extent : Nat)
  deriving Repr, DecidableEq, Inhabited

inductive Ty where
  | bool
  | uint (n : Nat) (c : Cast)
  | sint (n : Nat) (c : Cast)
  | float (n : Nat) (c : Cast)
  | byte
  | utf8
  | void (n : Nat)
  | farr (e : Ty) (cap : Nat)
  | varr (e : Ty) (cap : Nat)
  | struct (fs : List Ty) (m : Mode)
  | union (fs : List Ty) (m : Mode)
  deriving Repr, Inhabited

inductive Val where
  | bool (b : Bool)
  | int (i : Int)
  | flt (bits : Nat)
  | unit
  | arr (vs : List Val)
  | recd (vs : List Val)
  | var (tag : Nat) (v : Val)
  deriving Repr, Inhabited

/-- The SerDesError subclasses of _serdes.py plus ValueError / TypeError. -/
inductive Err | arrayLength | unionTag | delimiterHeader | unionField | value | type
  deriving Repr, DecidableEq, Inhabited

/-! ## Bits -/

/-- `n` bits of `v`, least significant first (`_BitWriter.write_bits(v, n)`; higher bits of `v` are dropped). -/
def natBits : Nat → Nat → List Bool
  | 0, _ => []
  | n+1, v => (v % 2 == 1) :: natBits n (v / 2)

def bitsNat : List Bool → Nat
  | [] => 0
  | b :: bs => (if b then 1 else 0) + 2 * bitsNat bs

def zeros (n : Nat) : List Bool := List.replicate n false

/-- number of pad bits `align_to(a)` inserts at offset `off` -/
def padLen (off a : Nat) : Nat := (a - off % a) % a

/-- zero-extended take: the first `n` bits of `s` followed by as many zeros as are missing -/
def takeZ : Nat → List Bool → List Bool
  | 0, _ => []
  | n+1, [] => false :: takeZ n []
  | n+1, b :: bs => b :: takeZ n bs

/-- `s.length < n` without walking further than `n` -/
def shorter : List Bool → Nat → Bool
  | _, 0 => false
  | [], _+1 => true
  | _ :: s, n+1 => shorter s n

/-- `2 ** ceil(log2(max(8, capacity.bit_length())))` -/
def lenBits (cap : Nat) : Nat :=
  if cap < 2^8 then 8 else if cap < 2^16 then 16 else if cap < 2^32 then 32 else 64

/-- `2 ** ceil(log2(max(8, (n-1).bit_length())))` for `n` variants -/
def tagBits (n : Nat) : Nat :=
  if n ≤ 2^8 then 8 else if n ≤ 2^16 then 16 else if n ≤ 2^32 then 32 else 64

def headerBits : Nat := 32

def Ty.align : Ty → Nat
  | .farr e _ | .varr e _ => e.align
  | .struct _ _ | .union _ _ => 8
  | _ => 1

def Ty.isVoid : Ty → Bool
  | .void _ => true
  | _ => false

def Ty.isUtf8 : Ty → Bool
  | .utf8 => true
  | _ => false

/-- `i & ((1 << n) - 1)` on a Python int -/
def toTwos (n : Nat) (i : Int) : Nat := (i % ((2:Int)^n)).toNat

/-- two's complement reading of an `n`-bit raw value (`_deserialize_primitive`, SignedIntegerType) -/
def ofTwos (n : Nat) (raw : Nat) : Int :=
  if raw ≥ 2^(n-1) then (raw : Int) - (2:Int)^n else raw

/-! ## UTF-8 (CPython's strict decoder: no overlong forms, no surrogates, nothing above U+10FFFF) -/

def isCont (b : Nat) : Bool := 0x80 ≤ b && b ≤ 0xBF

def validUtf8 : List Nat → Bool
  | [] => true
  | b0 :: rest =>
    if b0 < 0x80 then validUtf8 rest
    else if 0xC2 ≤ b0 && b0 ≤ 0xDF then
      match rest with
      | b1 :: r => isCont b1 && validUtf8 r
      | _ => false
    else if 0xE0 ≤ b0 && b0 ≤ 0xEF then
      match rest with
      | b1 :: b2 :: r =>
          (if b0 == 0xE0 then 0xA0 ≤ b1 && b1 ≤ 0xBF
           else if b0 == 0xED then 0x80 ≤ b1 && b1 ≤ 0x9F
           else isCont b1) && isCont b2 && validUtf8 r
      | _ => false
    else if 0xF0 ≤ b0 && b0 ≤ 0xF4 then
      match rest with
      | b1 :: b2 :: b3 :: r =>
          (if b0 == 0xF0 then 0x90 ≤ b1 && b1 ≤ 0xBF
           else if b0 == 0xF4 then 0x80 ≤ b1 && b1 ≤ 0x8F
           else isCont b1) && isCont b2 && isCont b3 && validUtf8 r
      | _ => false
    else false

def Val.byteOf : Val → Nat
  | .int i => i.toNat
  | _ => 0

/-! ## Encoder on canonical values -/

/-- elements of an array, one after another, no padding in between (`_serialize_array`) -/
def encRep (f : Val → Nat → List Bool) : List Val → Nat → List Bool
  | [], _ => []
  | v :: vs, off => let b := f v off; b ++ encRep f vs (off + b.length)

/-- `_serialize_composite`: a sealed composite is written in place and padded to 8 bits; a delimited one is
    serialized by a fresh writer (offset 0), and its byte length goes in front (`DelimitedType` branch). -/
def wrapDelim (m : Mode) (off : Nat) (body : Nat → List Bool) : List Bool :=
  match m with
  | .sealed => body off
  | .delimited _ => let b := body 0; natBits headerBits (b.length / 8) ++ b

/-- pad the composite body that started at `off` to a byte (`writer.align_to(schema.alignment_requirement)`) -/
def padTail (off : Nat) (b : List Bool) : List Bool := b ++ zeros (padLen (off + b.length) 8)

mutual
def enc : Ty → Val → Nat → List Bool
  | .bool, .bool b, _ => [b]
  | .uint n _, .int i, _ => natBits n (toTwos n i)
  | .sint n _, .int i, _ => natBits n (toTwos n i)
  | .float n _, .flt b, _ => natBits n b
  | .byte, .int i, _ => natBits 8 (toTwos 8 i)
  | .utf8, .int i, _ => natBits 8 (toTwos 8 i)
  | .void n, _, _ => zeros n
  | .farr e _, .arr vs, off => encRep (fun v o => enc e v o) vs off
  | .varr e cap, .arr vs, off =>
      natBits (lenBits cap) vs.length ++ encRep (fun v o => enc e v o) vs (off + lenBits cap)
  | .struct fs m, .recd vs, off => wrapDelim m off fun o => padTail o (encFields fs vs o)
  | .union fs m, .var tag v, off =>
      wrapDelim m off fun o =>
        padTail o (natBits (tagBits fs.length) tag ++ encVariant fs tag v (o + tagBits fs.length))
  | _, _, _ => []
/-- structure fields: pad to the field's alignment, then the field -/
def encFields : List Ty → List Val → Nat → List Bool
  | t :: ts, v :: vs, off =>
      let p := padLen off t.align
      let b := enc t v (off + p)
      zeros p ++ b ++ encFields ts vs (off + p + b.length)
  | _, _, _ => []
def encVariant : List Ty → Nat → Val → Nat → List Bool
  | t :: _, 0, v, off => enc t v off
  | _ :: ts, n+1, v, off => encVariant ts n v off
  | [], _, _, _ => []
end

/-! ## Reader and decoder -/

structure R where
  off : Nat
  s : List Bool
  deriving Repr

def R.read (r : R) (n : Nat) : List Bool × R := (takeZ n r.s, ⟨r.off + n, r.s.drop n⟩)
def R.alignTo (r : R) (a : Nat) : R := let p := padLen r.off a; ⟨r.off + p, r.s.drop p⟩

def decRep (f : R → Except Err (Val × R)) : Nat → R → Except Err (List Val × R)
  | 0, r => .ok ([], r)
  | n+1, r => do
      let (v, r1) ← f r
      let (vs, r2) ← decRep f n r1
      pure (v :: vs, r2)

/-- `_deserialize_composite`, DelimitedType branch: header, check against `remaining_bits`, bounded sub-reader;
    the parent continues right after the announced payload whatever the sub-reader consumed. -/
def unwrapDelim (m : Mode) (r : R) (body : R → Except Err (Val × R)) : Except Err (Val × R) :=
  match m with
  | .sealed => body r
  | .delimited _ =>
      let (b, r1) := r.read headerBits
      let bytes := bitsNat b
      if shorter r1.s (bytes * 8) then .error .delimiterHeader else do
        let (v, _) ← body ⟨r1.off, r1.s.take (bytes * 8)⟩
        pure (v, ⟨r1.off + bytes * 8, r1.s.drop (bytes * 8)⟩)

mutual
def dec : Ty → R → Except Err (Val × R)
  | .bool, r => let (b, r') := r.read 1; .ok (.bool (bitsNat b != 0), r')
  | .uint n _, r => let (b, r') := r.read n; .ok (.int (bitsNat b), r')
  | .sint n _, r => let (b, r') := r.read n; .ok (.int (ofTwos n (bitsNat b)), r')
  | .float n _, r => let (b, r') := r.read n; .ok (.flt (bitsNat b), r')
  | .byte, r => let (b, r') := r.read 8; .ok (.int (bitsNat b), r')
  | .utf8, r => let (b, r') := r.read 8; .ok (.int (bitsNat b), r')
  | .void n, r => let (_, r') := r.read n; .ok (.unit, r')
  | .farr e cap, r => do
      let (vs, r') ← decRep (fun q => dec e q) cap r
      pure (.arr vs, r')
  | .varr e cap, r =>
      let (b, r1) := r.read (lenBits cap)
      let len := bitsNat b
      if len > cap then .error .arrayLength else do
        let (vs, r') ← decRep (fun q => dec e q) len r1
        if e.isUtf8 && !validUtf8 (vs.map Val.byteOf) then .error .value else pure (.arr vs, r')
  | .struct fs m, r =>
      unwrapDelim m r fun q => do
        let (vs, r') ← decFields fs q
        pure (.recd vs, r'.alignTo 8)
  | .union fs m, r =>
      unwrapDelim m r fun q =>
        let (b, r1) := q.read (tagBits fs.length)
        let tag := bitsNat b
        do let (v, r') ← decVariant fs tag r1
           pure (.var tag v, r'.alignTo 8)
def decFields : List Ty → R → Except Err (List Val × R)
  | [], r => .ok ([], r)
  | t :: ts, r => do
      let (v, r1) ← dec t (r.alignTo t.align)
      let (vs, r2) ← decFields ts r1
      pure (v :: vs, r2)
def decVariant : List Ty → Nat → R → Except Err (Val × R)
  | [], _, _ => .error .unionTag
  | t :: _, 0, r => dec t r
  | _ :: ts, n+1, r => decVariant ts n r
end

/-! ## Validity of canonical values, well-formed types -/

def Mode.isSealed : Mode → Bool
  | .sealed => true
  | _ => false

mutual
def valid : Ty → Val → Bool
  | .bool, .bool _ => true
  | .uint n _, .int i => decide (0 ≤ i) && decide (i < (2:Int)^n)
  | .sint n _, .int i => decide (-((2:Int)^(n-1)) ≤ i) && decide (i < (2:Int)^(n-1))
  | .float n _, .flt b => decide (b < 2^n)
  | .byte, .int i => decide (0 ≤ i) && decide (i < 256)
  | .utf8, .int i => decide (0 ≤ i) && decide (i < 256)
  | .void _, .unit => true
  | .farr e cap, .arr vs => (vs.length == cap) && vs.all (fun v => valid e v)
  | .varr e cap, .arr vs =>
      decide (vs.length ≤ cap) && vs.all (fun v => valid e v) && (!e.isUtf8 || validUtf8 (vs.map Val.byteOf))
  | .struct fs _, .recd vs => validFields fs vs
  | .union fs _, .var tag v => validVariant fs tag v
  | _, _ => false
def validFields : List Ty → List Val → Bool
  | [], [] => true
  | t :: ts, v :: vs => valid t v && validFields ts vs
  | _, _ => false
def validVariant : List Ty → Nat → Val → Bool
  | t :: _, 0, v => valid t v
  | _ :: ts, n+1, v => validVariant ts n v
  | [], _, _ => false
end

mutual
/-- largest bit length of a serialized representation (`bit_length_set.max`; extent + header for delimited) -/
def Ty.maxLen : Ty → Nat
  | .bool => 1
  | .uint n _ | .sint n _ | .float n _ | .void n => n
  | .byte | .utf8 => 8
  | .farr e cap => cap * e.maxLen
  | .varr e cap => lenBits cap + cap * e.maxLen
  | .struct fs m =>
      match m with
      | .sealed => maxFields fs 0 + padLen (maxFields fs 0) 8
      | .delimited x => headerBits + x
  | .union fs m =>
      match m with
      | .sealed => tagBits fs.length + maxVariants fs + padLen (tagBits fs.length + maxVariants fs) 8
      | .delimited x => headerBits + x
/-- structure body: running maximum with inter-field padding (`StructureType.aggregate_bit_length_sets`) -/
def maxFields : List Ty → Nat → Nat
  | [], acc => acc
  | t :: ts, acc => maxFields ts (acc + padLen acc t.align + t.maxLen)
def maxVariants : List Ty → Nat
  | [] => 0
  | t :: ts => Nat.max t.maxLen (maxVariants ts)
end

/-- extent of the inner (sealed) layout of a composite -/
def Ty.innerMax : Ty → Nat
  | .struct fs _ => (Ty.struct fs .sealed).maxLen
  | .union fs _ => (Ty.union fs .sealed).maxLen
  | t => t.maxLen

def Ty.isComposite : Ty → Bool
  | .struct _ _ | .union _ _ => true
  | _ => false

/-- may appear as a structure field / union variant / array element at all (byte, utf8: arrays only) -/
def Ty.standalone : Ty → Bool
  | .byte | .utf8 => false
  | _ => true

def modeOk (m : Mode) (inner : Nat) : Bool :=
  match m with
  | .sealed => true
  | .delimited x => decide (x % 8 = 0) && decide (inner ≤ x) && decide (x / 8 < 2^32)

mutual
/-- what the constructors of pydsdl accept (and the properties quantify over) -/
def Ty.wf : Ty → Bool
  | .bool | .byte | .utf8 => true
  | .uint n _ => decide (1 ≤ n) && decide (n ≤ 64)
  | .sint n c => decide (2 ≤ n) && decide (n ≤ 64) && (c == .sat)
  | .float n _ => n == 16 || n == 32 || n == 64
  | .void n => decide (1 ≤ n) && decide (n ≤ 64)
  | .farr e cap => e.wf && decide (1 ≤ cap) && !e.isVoid && !e.isUtf8
  | .varr e cap => e.wf && decide (1 ≤ cap) && decide (cap < 2^64) && !e.isVoid
  | .struct fs m => wfFields fs && modeOk m (Ty.struct fs .sealed).maxLen
  | .union fs m =>
      wfFields fs && noVoid fs && decide (2 ≤ fs.length) && decide (fs.length ≤ 2^64) &&
        modeOk m (Ty.union fs .sealed).maxLen
def wfFields : List Ty → Bool
  | [] => true
  | t :: ts => t.wf && t.standalone && wfFields ts
def noVoid : List Ty → Bool
  | [] => true
  | t :: ts => !t.isVoid && noVoid ts
end

/-! ## Defaults, input coercion (`_default_value`, the input half of `_serialize_*`) -/

mutual
def dflt : Ty → Val
  | .bool => .bool false
  | .uint _ _ | .sint _ _ | .byte | .utf8 => .int 0
  | .float _ _ => .flt 0
  | .void _ => .unit
  | .farr e cap => .arr (List.replicate cap (dflt e))
  | .varr _ _ => .arr []
  | .struct fs _ => .recd (dfltFields fs)
  | .union fs _ => .var 0 (dfltFirst fs)
def dfltFields : List Ty → List Val
  | [] => []
  | t :: ts => dflt t :: dfltFields ts
def dfltFirst : List Ty → Val
  | [] => .unit
  | t :: _ => dflt t
end

/-- relaxed / raw input values (`_Value`): dict keys are field indices (position in `fields`) -/
inductive Inp where
  | none
  | bool (b : Bool)
  | int (i : Int)
  | flt (bits : Nat)
  | bytes (bs : List Nat)
  | list (xs : List Inp)
  | dict (kvs : List (Nat × Inp))
  deriving Repr, Inhabited

def clamp (lo hi i : Int) : Int := max lo (min hi i)

/-- unsigned cast: saturated = clamp to `[0, 2^n-1]`, truncated = `& mask` -/
def castU (n : Nat) (c : Cast) (i : Int) : Int :=
  match c with
  | .sat => clamp 0 ((2:Int)^n - 1) i
  | .trunc => i % (2:Int)^n

/-- signed cast: saturated = clamp to `[-2^(n-1), 2^(n-1)-1]`, truncated = low `n` bits read as two's complement -/
def castS (n : Nat) (c : Cast) (i : Int) : Int :=
  match c with
  | .sat => clamp (-((2:Int)^(n-1))) ((2:Int)^(n-1) - 1) i
  | .trunc => ofTwos n (toTwos n i)

def Inp.num? : Inp → Option Int
  | .bool b => some (if b then 1 else 0)
  | .int i => some i
  | _ => Option.none

def lookupKey (k : Nat) : List (Nat × Inp) → Option Inp
  | [] => Option.none
  | (k', x) :: rest => if k == k' then some x else lookupKey k rest

def isField (fs : List Ty) (k : Nat) : Bool :=
  match fs[k]? with
  | some t => !t.isVoid
  | Option.none => false

/-- the sequence an array input denotes: `str`/`bytes` for utf8 and byte arrays, list/tuple for byte and
    all other arrays (`_serialize_array`).  A float leaf arrives as the bit pattern of the field's width (the
    numeric conversion is `struct.pack`'s, outside the model), hence the width check in `coerce`. -/
def seqOf (e : Ty) : Inp → Except Err (List Inp)
  | .bytes bs =>
      match e with
      | .utf8 =>
          if bs.all (fun b => decide (b < 256)) && validUtf8 bs then .ok (bs.map fun (b : Nat) => Inp.int (b : Int))
          else .error .value
      | .byte => .ok (bs.map fun (b : Nat) => Inp.int (b : Int))
      | _ => .error .type
  | .list xs =>
      match e with
      | .utf8 => .error .type
      | _ => .ok xs
  | _ => .error .type

def coerceList (f : Inp → Except Err Val) : List Inp → Except Err (List Val)
  | [] => .ok []
  | x :: xs => do
      let v ← f x
      let vs ← coerceList f xs
      pure (v :: vs)

mutual
def coerce : Ty → Inp → Except Err Val
  | .bool, x =>
      match x with
      | .bool b => .ok (.bool b)
      | .int i => .ok (.bool (i != 0))
      | _ => .error .value
  | .uint n c, x =>
      match x.num? with
      | some i => .ok (.int (castU n c i))
      | Option.none => .error .value
  | .sint n c, x =>
      match x.num? with
      | some i => .ok (.int (castS n c i))
      | Option.none => .error .value
  | .float n _, x =>
      match x with
      | .flt b => if b < 2^n then .ok (.flt b) else .error .value
      | _ => .error .value
  | .byte, x =>
      match x.num? with
      | some i => .ok (.int (castU 8 .trunc i))
      | Option.none => .error .value
  | .utf8, x =>
      match x.num? with
      | some i => .ok (.int (castU 8 .trunc i))
      | Option.none => .error .value
  | .void _, _ => .ok .unit
  | .farr e cap, x => do
      let xs ← seqOf e x
      if xs.length != cap then .error .arrayLength else do
        let vs ← coerceList (fun y => coerce e y) xs
        pure (.arr vs)
  | .varr e cap, x => do
      let xs ← seqOf e x
      if xs.length > cap then .error .arrayLength else do
        let vs ← coerceList (fun y => coerce e y) xs
        pure (.arr vs)
  | .struct fs _, x =>
      match x with
      | .dict kvs =>
          if kvs.all (fun kv => isField fs kv.1) then do
            let vs ← coerceFields fs 0 kvs
            pure (.recd vs)
          else .error .value
      | _ => .error .value
  | .union fs _, x =>
      match x with
      | .dict [(k, y)] =>
          if k < fs.length then do
            let v ← coerceVariant fs k y
            pure (.var k v)
          else .error .unionField
      | _ => .error .value
/-- fields in order; an omitted field takes `_default_value` -/
def coerceFields : List Ty → Nat → List (Nat × Inp) → Except Err (List Val)
  | [], _, _ => .ok []
  | t :: ts, i, kvs => do
      let v ← (if t.isVoid then .ok .unit else
                match lookupKey i kvs with
                | some x => coerce t x
                | Option.none => .ok (dflt t))
      let vs ← coerceFields ts (i+1) kvs
      pure (v :: vs)
def coerceVariant : List Ty → Nat → Inp → Except Err Val
  | t :: _, 0, x => coerce t x
  | _ :: ts, n+1, x => coerceVariant ts n x
  | [], _, _ => .error .unionField
end

/-! ## Relaxed input (`_normalize_relaxed_value`) -/

/-- indices of the non-padding fields (`fields_except_padding`) -/
def nonPad : List Ty → Nat → List Nat
  | [], _ => []
  | t :: ts, i => if t.isVoid then nonPad ts (i+1) else i :: nonPad ts (i+1)

def hasKey (k : Nat) (kvs : List (Nat × Inp)) : Bool := kvs.any fun kv => kv.1 == k

def mapKvs (f : Nat → Inp → Except Err Inp) : List (Nat × Inp) → Except Err (List (Nat × Inp))
  | [] => .ok []
  | (k, x) :: rest => do
      let y ← f k x
      let ys ← mapKvs f rest
      pure ((k, y) :: ys)

def mapInps (f : Inp → Except Err Inp) : List Inp → Except Err (List Inp)
  | [] => .ok []
  | x :: xs => do
      let y ← f x
      let ys ← mapInps f xs
      pure (y :: ys)

mutual
def normalize : Ty → Inp → Except Err Inp
  | .struct fs _, x =>
      let nf := nonPad fs 0
      match x, nf with
      | .dict kvs, [k] =>
          if !kvs.isEmpty && !hasKey k kvs then do
            let y ← normField fs k x
            pure (.dict [(k, y)])
          else do
            let ys ← mapKvs (fun k' y => normField fs k' y) kvs
            pure (.dict ys)
      | .dict kvs, _ => do
          let ys ← mapKvs (fun k' y => normField fs k' y) kvs
          pure (.dict ys)
      | _, [k] => do
          let y ← normField fs k x
          pure (.dict [(k, y)])
      | .list xs, _ =>
          if xs.length > nf.length then .error .value else do
            let ys ← normPos fs 0 xs
            pure (.dict ys)
      | _, _ => .ok x
  | .union fs _, x =>
      match x with
      | .dict [(k, y)] =>
          if k < fs.length then do
            let y' ← normField fs k y
            pure (.dict [(k, y')])
          else .ok x
      | _ => .ok x
  | .farr e _, x =>
      match x with
      | .list xs => do let ys ← mapInps (fun y => normalize e y) xs; pure (.list ys)
      | _ => .ok x
  | .varr e _, x =>
      match x with
      | .list xs => do let ys ← mapInps (fun y => normalize e y) xs; pure (.list ys)
      | _ => .ok x
  | _, x => .ok x
/-- normalise the value of the field with index `k`; values under unknown keys stay as they are -/
def normField : List Ty → Nat → Inp → Except Err Inp
  | [], _, x => .ok x
  | t :: _, 0, x => if t.isVoid then .ok x else normalize t x
  | _ :: ts, k+1, x => normField ts k x
/-- positional values zipped with the non-padding fields -/
def normPos : List Ty → Nat → List Inp → Except Err (List (Nat × Inp))
  | [], _, _ => .ok []
  | t :: ts, i, xs =>
      if t.isVoid then normPos ts (i+1) xs else
      match xs with
      | [] => .ok []
      | x :: xs' => do
          let y ← normalize t x
          let ys ← normPos ts (i+1) xs'
          pure ((i, y) :: ys)
end

/-! ## Entry points (`serialize`, `deserialize`) -/

/-- a delimited type written / read without its header is its inner (sealed-layout) type -/
def Ty.inner : Ty → Ty
  | .struct fs _ => .struct fs .sealed
  | .union fs _ => .union fs .sealed
  | t => t

def Ty.isDelimited : Ty → Bool
  | .struct _ (.delimited _) | .union _ (.delimited _) => true
  | _ => false

/-- `serialize(schema, obj, with_delimiter_header, relaxed)`; the result is a bit list whose length is a multiple
    of 8 for every well-formed composite -/
def serialize (t : Ty) (x : Inp) (hdr relaxed : Bool) : Except Err (Val × List Bool) :=
  if hdr && !t.isDelimited then .error .value else do
    let x' ← if relaxed then normalize t x else pure x
    let v ← coerce t x'
    pure (v, enc (if hdr then t else t.inner) v 0)

def deserialize (t : Ty) (bits : List Bool) (hdr : Bool) : Except Err Val :=
  if hdr && !t.isDelimited then .error .value else do
    let (v, _) ← dec (if hdr then t else t.inner) ⟨0, bits⟩
    pure v

end Wire
