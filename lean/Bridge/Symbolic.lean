import Gen.Symbolic
import Proofs.BlsMinMax
import Bridge.Basic
set_option linter.unusedSimpArgs false
set_option linter.unusedVariables false
/-!
  Bridge between the code GENERATED from `pydsdl/_bit_length_set/_symbolic.py` (`Gen/Symbolic.lean`, rewritten by
  `tools/py2lean.py` from the working tree of /repo on every run) and the hand-written model `Model/Bls.lean`.

  The generated definitions are non-recursive: every method sees its children through the interface record
  `OperatorI`.  `iface` ties the knot once, by structural recursion over the operator tree, exactly as the Python
  constructors nest the objects.  `refines` proves, for every well-formed tree, that the generated methods
  return *without raising* (no assert fires, no division by zero, no `min()` of an empty set, the naturals are never
  left) and that their results are, as finite sets, those of the model.  The C01 theorems about the model therefore
  transfer to what the Python source says today; if the source changes so that this is no longer provable, the
  build of this module breaks and the check starts its failing-input search.
-/
open Bls
open scoped Pointwise

namespace Bridge

/-! ### The knot -/

mutual
/-- The object graph the Python constructors build for an operator tree, seen through the generated methods. -/
def iface : Op → OperatorI
  | .leaf vs =>
      let value := Py.set vs  -- `self._value = set(values)`
      { min := Gen.NullaryOperator.min value, max := Gen.NullaryOperator.max value,
        modulo := Gen.NullaryOperator.modulo value, expand := fun _ => Gen.NullaryOperator.expand value }
  | .pad c a =>
      { min := Gen.PaddingOperator.min (iface c) a, max := Gen.PaddingOperator.max (iface c) a,
        modulo := Gen.PaddingOperator.modulo (iface c) a, expand := fun _ => Gen.PaddingOperator.expand (iface c) a }
  | .cat cs =>
      { min := Gen.ConcatenationOperator.min (ifaces cs), max := Gen.ConcatenationOperator.max (ifaces cs),
        modulo := Gen.ConcatenationOperator.modulo (ifaces cs), expand := fun _ => Gen.ConcatenationOperator.expand (ifaces cs) }
  | .rep c k =>
      { min := Gen.RepetitionOperator.min (iface c) k, max := Gen.RepetitionOperator.max (iface c) k,
        modulo := Gen.RepetitionOperator.modulo (iface c) k, expand := fun _ => Gen.RepetitionOperator.expand (iface c) k }
  | .rrep c k =>
      { min := Gen.RangeRepetitionOperator.min (iface c) k, max := Gen.RangeRepetitionOperator.max (iface c) k,
        modulo := Gen.RangeRepetitionOperator.modulo (iface c) k, expand := fun _ => Gen.RangeRepetitionOperator.expand (iface c) k }
  | .uni cs =>
      { min := Gen.UnionOperator.min (ifaces cs), max := Gen.UnionOperator.max (ifaces cs),
        modulo := Gen.UnionOperator.modulo (ifaces cs), expand := fun _ => Gen.UnionOperator.expand (ifaces cs) }
def ifaces : List Op → List OperatorI
  | [] => []
  | c :: cs => iface c :: ifaces cs
end

theorem ifaces_eq (cs : List Op) : ifaces cs = cs.map iface := by
  induction cs with
  | nil => rfl
  | cons c cs ih => simp [ifaces, ih]

/-- What it means for an interface record to behave like the model of the tree `o`. -/
structure Refines (ci : OperatorI) (o : Op) : Prop where
  min : ci.min = .ok o.min
  max : ci.max = .ok o.max
  modulo : ∀ d, 0 < d → ∃ s, ci.modulo d = .ok s ∧ s.toFinset = (o.modulo d).toFinset
  expand : ∃ s, ci.expand () = .ok s ∧ s.toFinset = o.expand.toFinset

/-! ### One lemma per Python class -/

theorem mapM_ok_fun {ε α β : Type} (l : List α) (g : α → β) :
    l.mapM (fun x => (Except.ok (g x) : Except ε β)) = .ok (l.map g) := mapM_ok l _ g (fun _ _ => rfl)

theorem mem_iff_of_toFinset {s t : List Nat} (h : s.toFinset = t.toFinset) (x : Nat) : x ∈ s ↔ x ∈ t := by
  have := congrArg (fun u => x ∈ u) h; simpa using this

theorem map_toFinset_congr {s t : List Nat} (f : Nat → Nat) (h : s.toFinset = t.toFinset) :
    (s.map f).toFinset = (t.map f).toFinset := by
  ext y; simp only [List.mem_toFinset, List.mem_map, mem_iff_of_toFinset h]

theorem cwrSums_congr {s t : List Nat} (k : Nat) (h : s.toFinset = t.toFinset) :
    ((cwr s k).map List.sum).toFinset = ((cwr t k).map List.sum).toFinset := by
  rw [toFinset_cwr_sums, toFinset_cwr_sums, h]

theorem rep_refines (c : Op) (k : Nat) (ih : Refines (iface c) c) : Refines (iface (.rep c k)) (.rep c k) := by
  refine ⟨?_, ?_, ?_, ?_⟩
  · simp only [iface, Gen.RepetitionOperator.min, ih.min, ok_bind, pure_eq_ok, Op.min]
  · simp only [iface, Gen.RepetitionOperator.max, ih.max, ok_bind, pure_eq_ok, Op.max]
  · intro d hd
    obtain ⟨s, hs, hset⟩ := ih.modulo _ hd
    have hk : (k % d == min k (d + k % d) % d) = true := by
      have := equivK_mod k d; simp only [equivK] at this; simp [this]
    simp only [iface, Gen.RepetitionOperator.modulo, mod_add_comm, mod_pos hd, ok_bind, pure_eq_ok, hs, hk, assert_true, Py.cwr, Py.sum,
      mapM_ok_fun]
    refine ⟨_, rfl, ?_⟩
    simp only [toFinset_set, Op.modulo, cwrSumsMod, toFinset_dedup, equivK]
    have := map_toFinset_congr (· % d) (cwrSums_congr (min k (d + k % d)) hset)
    simpa only [List.map_map, Function.comp_def] using this
  · obtain ⟨s, hs, hset⟩ := ih.expand
    simp only [iface, Gen.RepetitionOperator.expand, hs, ok_bind, pure_eq_ok, Py.cwr, Py.sum]
    refine ⟨_, rfl, ?_⟩
    simp only [toFinset_set, Op.expand, cwrSums, toFinset_dedup]
    exact cwrSums_congr k hset

theorem rangeCwr_congr {s t : List Nat} (K : Nat) (h : s.toFinset = t.toFinset) :
    ((List.range (K + 1)).flatMap fun k => (cwr s k).map List.sum).toFinset
      = ((List.range (K + 1)).flatMap fun k => (cwr t k).map List.sum).toFinset := by
  rw [toFinset_rangeCwr, toFinset_rangeCwr, h]

theorem forEach_ok_fun {α σ : Type} (l : List α) (init : σ) (f : σ → α → σ) :
    Py.forEach l init (fun s x => (Except.ok (f s x) : Py.M σ)) = .ok (l.foldl f init) :=
  forEach_ok l init _ f (fun _ _ _ => rfl)

theorem mem_foldl_foldl_setAdd {α β : Type} (ks : List α) (L : α → List β) (g : α → β → Nat) (init : List Nat) (y : Nat) :
    y ∈ ks.foldl (fun out k => (L k).foldl (fun out el => Py.setAdd out (g k el)) out) init
      ↔ y ∈ init ∨ ∃ k ∈ ks, ∃ el ∈ L k, y = g k el := by
  induction ks generalizing init with
  | nil => simp
  | cons a ks ih =>
    rw [List.foldl_cons, ih, mem_foldl_setAdd]
    simp only [List.mem_cons]; grind

theorem rrep_refines (c : Op) (k : Nat) (ih : Refines (iface c) c) : Refines (iface (.rrep c k)) (.rrep c k) := by
  refine ⟨?_, ?_, ?_, ?_⟩
  · simp only [iface, Gen.RangeRepetitionOperator.min, ok_bind, pure_eq_ok, Op.min]
  · simp only [iface, Gen.RangeRepetitionOperator.max, ih.max, ok_bind, pure_eq_ok, Op.max]
  · intro d hd
    obtain ⟨s, hs, hset⟩ := ih.modulo _ hd
    have hk : (k % d == min k (d + k % d) % d) = true := by
      have := equivK_mod k d; simp only [equivK] at this; simp [this]
    simp only [iface, Gen.RangeRepetitionOperator.modulo, mod_add_comm, mod_pos hd, ok_bind, pure_eq_ok, hs, hk, assert_true, Py.cwr, Py.sum, Py.range,
      forEach_ok_fun]
    refine ⟨_, rfl, ?_⟩
    have := map_toFinset_congr (· % d) (rangeCwr_congr (min k (d + k % d)) hset)
    simp only [Op.modulo, rangeCwrSumsMod, toFinset_dedup, equivK]
    ext y
    have hy := congrArg (fun u => y ∈ u) this
    simp only [List.mem_toFinset, List.mem_map, List.mem_flatMap, List.mem_range] at hy ⊢
    rw [mem_foldl_foldl_setAdd]
    simp only [List.mem_range, List.not_mem_nil, false_or]
    grind
  · obtain ⟨s, hs, hset⟩ := ih.expand
    simp only [iface, Gen.RangeRepetitionOperator.expand, hs, ok_bind, pure_eq_ok, Py.cwr, Py.sum, assert_true, Py.range, forEach_ok_fun]
    refine ⟨_, rfl, ?_⟩
    have := rangeCwr_congr k hset
    simp only [Op.expand, rangeCwrSums, toFinset_dedup]
    ext y
    have hy := congrArg (fun u => y ∈ u) this
    simp only [List.mem_toFinset, List.mem_map, List.mem_flatMap, List.mem_range] at hy ⊢
    rw [mem_foldl_foldl_setAdd]
    simp only [List.mem_range, List.not_mem_nil, false_or]
    grind




theorem py_sum_eq : Py.sum = List.sum := funext fun _ => rfl

theorem minL_map_min (cs : List Op) (h : cs ≠ []) : minL (cs.map Op.min) = minMin cs := by
  obtain ⟨⟨m, hm, hmeq⟩, hle⟩ := minMin_spec cs h
  have hne : cs.map Op.min ≠ [] := by simpa using h
  apply Nat.le_antisymm
  · rw [hmeq]; exact minL_le _ _ (List.mem_map_of_mem hm)
  · obtain ⟨c, hc, hceq⟩ := List.mem_map.mp (minL_mem _ hne)
    rw [← hceq]; exact hle c hc

theorem maxL_map_max (cs : List Op) (h : cs ≠ []) : maxL (cs.map Op.max) = maxMax cs := by
  obtain ⟨⟨m, hm, hmeq⟩, hle⟩ := maxMax_spec cs h
  have hne : cs.map Op.max ≠ [] := by simpa using h
  apply Nat.le_antisymm
  · obtain ⟨c, hc, hceq⟩ := List.mem_map.mp (maxL_mem _ hne)
    rw [← hceq]; exact hle c hc
  · rw [hmeq]; exact le_maxL _ _ (List.mem_map_of_mem hm)

theorem mem_foldl_setUnion {α : Type} (l : List α) (g : α → List Nat) (init : List Nat) (y : Nat) :
    y ∈ l.foldl (fun s x => Py.setUnion s (g x)) init ↔ y ∈ init ∨ ∃ x ∈ l, y ∈ g x := by
  induction l generalizing init with
  | nil => simp
  | cons a l ih => rw [List.foldl_cons, ih]; simp only [mem_setUnion, List.mem_cons]; grind

/-- results of the children, named through `val` -/
theorem children_mapM {β : Type} [Inhabited β] (cs : List Op) (m : OperatorI → Py.M β) (g : Op → β)
    (h : ∀ c ∈ cs, m (iface c) = .ok (g c)) :
    (ifaces cs).mapM (fun ci => m ci) = .ok (cs.map g) := by
  rw [ifaces_eq, mapM_ok (cs.map iface) _ (fun ci => val (m ci))]
  · congr 1
    rw [List.map_map]
    apply List.map_congr_left
    intro c hc
    simp only [Function.comp, h c hc, val]
  · intro ci hci
    obtain ⟨c, hc, rfl⟩ := List.mem_map.mp hci
    exact eq_ok_val (h c hc)

theorem cat_refines (cs : List Op) (ih : ∀ c ∈ cs, Refines (iface c) c) : Refines (iface (.cat cs)) (.cat cs) := by
  refine ⟨?_, ?_, ?_, ?_⟩
  · simp only [iface, Gen.ConcatenationOperator.min, bind_pure, children_mapM cs (·.min) Op.min (fun c hc => (ih c hc).min),
      ok_bind, pure_eq_ok, Op.min, sumMin_eq, Py.sum]
  · simp only [iface, Gen.ConcatenationOperator.max, bind_pure, children_mapM cs (·.max) Op.max (fun c hc => (ih c hc).max),
      ok_bind, pure_eq_ok, Op.max, sumMax_eq, Py.sum]
  · intro d hd
    have hm := children_mapM cs (fun ci => ci.modulo d) (fun c => val ((iface c).modulo d))
      (fun c hc => by obtain ⟨s, hs, _⟩ := (ih c hc).modulo d hd; exact eq_ok_val hs)
    simp only [iface, Gen.ConcatenationOperator.modulo, bind_pure, hm, ok_bind, pure_eq_ok, mod_pos hd, mapM_ok_fun, Py.product, Py.sum, py_sum_eq]
    refine ⟨_, rfl, ?_⟩
    simp only [toFinset_set, Op.modulo, toFinset_dedup]
    apply map_toFinset_congr
    simp only [toFinset_set, toFinset_dedup]
    have e : ∀ l : List (List Nat), (List.map (fun el => el.sum) (product l)) = (product l).map List.sum := fun _ => rfl
    rw [toFinset_product_sums, toFinset_product_sums, modulos_eq, List.map_map, List.map_map]
    congr 1
    apply List.map_congr_left
    intro c hc
    obtain ⟨s, hs, hset⟩ := (ih c hc).modulo d hd
    simp only [Function.comp, hs, val, hset]
  · have hm := children_mapM cs (fun ci => ci.expand ()) (fun c => val ((iface c).expand ()))
      (fun c hc => by obtain ⟨s, hs, _⟩ := (ih c hc).expand; exact eq_ok_val hs)
    simp only [iface, Gen.ConcatenationOperator.expand, bind_pure, hm, ok_bind, pure_eq_ok, Py.product, Py.sum, py_sum_eq]
    refine ⟨_, rfl, ?_⟩
    simp only [toFinset_set, Op.expand, toFinset_dedup]
    have e : ∀ l : List (List Nat), (List.map (fun el => el.sum) (product l)) = (product l).map List.sum := fun _ => rfl
    rw [e, toFinset_product_sums, toFinset_product_sums, expands_eq, List.map_map, List.map_map]
    congr 1
    apply List.map_congr_left
    intro c hc
    obtain ⟨s, hs, hset⟩ := (ih c hc).expand
    simp only [Function.comp, hs, val, hset]

theorem uni_refines (cs : List Op) (hne : cs ≠ []) (ih : ∀ c ∈ cs, Refines (iface c) c) : Refines (iface (.uni cs)) (.uni cs) := by
  refine ⟨?_, ?_, ?_, ?_⟩
  · simp only [iface, Gen.UnionOperator.min, bind_pure, children_mapM cs (·.min) Op.min (fun c hc => (ih c hc).min),
      ok_bind, pure_eq_ok, Op.min, minOf_ne_nil (show cs.map Op.min ≠ [] by simpa using hne), minL_map_min cs hne]
  · simp only [iface, Gen.UnionOperator.max, bind_pure, children_mapM cs (·.max) Op.max (fun c hc => (ih c hc).max),
      ok_bind, pure_eq_ok, Op.max, maxOf_ne_nil (show cs.map Op.max ≠ [] by simpa using hne), maxL_map_max cs hne]
  · intro d hd
    simp only [iface, Gen.UnionOperator.modulo, ok_bind, pure_eq_ok, ifaces_eq]
    rw [forEach_ok _ [] _ (fun out ci => Py.setUnion out (val (ci.modulo d)))]
    · refine ⟨_, rfl, ?_⟩
      ext y
      simp only [List.mem_toFinset, mem_foldl_setUnion, List.not_mem_nil, false_or, Op.modulo, mem_dedup, List.mem_flatten, modulos_eq,
        List.mem_map, exists_exists_and_eq_and]
      constructor
      · rintro ⟨c, hc, hy⟩
        obtain ⟨s, hs, hset⟩ := (ih c hc).modulo d hd
        rw [hs] at hy
        exact ⟨c, hc, (mem_iff_of_toFinset hset y).mp hy⟩
      · rintro ⟨c, hc, hy⟩
        obtain ⟨s, hs, hset⟩ := (ih c hc).modulo d hd
        refine ⟨c, hc, ?_⟩
        rw [hs]
        exact (mem_iff_of_toFinset hset y).mpr hy
    · intro ci hci out
      obtain ⟨c, hc, rfl⟩ := List.mem_map.mp hci
      obtain ⟨s, hs, _⟩ := (ih c hc).modulo d hd
      simp only [hs, ok_bind, pure_eq_ok, val]
  · simp only [iface, Gen.UnionOperator.expand, ok_bind, pure_eq_ok, ifaces_eq]
    rw [forEach_ok _ [] _ (fun out ci => Py.setUnion out (val (ci.expand ())))]
    · refine ⟨_, rfl, ?_⟩
      ext y
      simp only [List.mem_toFinset, mem_foldl_setUnion, List.not_mem_nil, false_or, Op.expand, mem_dedup, List.mem_flatten, expands_eq,
        List.mem_map, exists_exists_and_eq_and]
      constructor
      · rintro ⟨c, hc, hy⟩
        obtain ⟨s, hs, hset⟩ := (ih c hc).expand
        rw [hs] at hy
        exact ⟨c, hc, (mem_iff_of_toFinset hset y).mp hy⟩
      · rintro ⟨c, hc, hy⟩
        obtain ⟨s, hs, hset⟩ := (ih c hc).expand
        refine ⟨c, hc, ?_⟩
        rw [hs]
        exact (mem_iff_of_toFinset hset y).mpr hy
    · intro ci hci out
      obtain ⟨c, hc, rfl⟩ := List.mem_map.mp hci
      obtain ⟨s, hs, _⟩ := (ih c hc).expand
      simp only [hs, ok_bind, pure_eq_ok, val]

theorem pad_ok (ci : OperatorI) {a : Nat} (ha : 1 ≤ a) (x : Nat) : Gen.PaddingOperator.pad ci a x = .ok (padTo a x) := by
  simp only [Gen.PaddingOperator.pad, sub_le (show 1 ≤ x + a by omega), floordiv_pos (show 0 < a by omega), ok_bind, pure_eq_ok, padTo]

theorem pad_refines (c : Op) (a : Nat) (hc : c.wf = true) (ha : 1 ≤ a) (ih : Refines (iface c) c) : Refines (iface (.pad c a)) (.pad c a) := by
  refine ⟨?_, ?_, ?_, ?_⟩
  · simp only [iface, Gen.PaddingOperator.min, ih.min, pad_ok _ ha, ok_bind, pure_eq_ok, Op.min]
  · simp only [iface, Gen.PaddingOperator.max, ih.max, pad_ok _ ha, ok_bind, pure_eq_ok, Op.max]
  · intro d hd
    have hl : 0 < Nat.lcm a d := Nat.lcm_pos (by omega) hd
    obtain ⟨s, hs, hset⟩ := ih.modulo _ hl
    have hmem : ∀ x, x ∈ s ↔ x ∈ c.modulo (Nat.lcm a d) := fun x => by
      have := congrArg (fun t => x ∈ t) hset; simpa using this
    have hass := asserts_never_fire (.pad c a) (by simp [Op.wf, hc, ha]) d hd
    simp only [Op.assertsOk, Bool.and_eq_true, List.all_eq_true, decide_eq_true_eq] at hass
    simp only [iface, Gen.PaddingOperator.modulo, Gen.PaddingOperator.max, Gen.least_common_multiple, Py.lcm, ih.max, pad_ok _ ha,
      ok_bind, pure_eq_ok, hs]
    rw [forEach_ok s [] _ (fun out x => Py.setAdd out (padTo a x % d))]
    · refine ⟨_, rfl, ?_⟩
      ext y
      simp only [List.mem_toFinset, mem_foldl_setAdd, Op.modulo, mem_dedup, List.mem_map, hmem]
      simp; grind
    · intro x hx out
      have := hass.2 x ((hmem x).mp hx)
      simp only [this.1, this.2, decide_true, Bool.and_self, assert_true, ok_bind, pad_ok _ ha, mod_pos hd, pure_eq_ok]
  · obtain ⟨s, hs, hset⟩ := ih.expand
    simp only [iface, Gen.PaddingOperator.expand, hs, ok_bind, pure_eq_ok]
    rw [mapM_ok _ _ (padTo a) (fun x _ => pad_ok _ ha x)]
    refine ⟨_, rfl, ?_⟩
    simp only [toFinset_set, Op.expand, toFinset_dedup]
    exact map_toFinset_congr _ hset

theorem leaf_refines (vs : List Nat) (h : vs ≠ []) : Refines (iface (.leaf vs)) (.leaf vs) := by
  have hs : Py.set vs ≠ [] := set_ne_nil h
  refine ⟨?_, ?_, ?_, ?_⟩
  · simp only [iface, Gen.NullaryOperator.min, minOf_ne_nil hs, ok_bind, pure_eq_ok, Op.min]
    rw [minL_eq_of_toFinset (toFinset_set vs) hs]
  · simp only [iface, Gen.NullaryOperator.max, maxOf_ne_nil hs, ok_bind, pure_eq_ok, Op.max]
    rw [maxL_eq_of_toFinset (toFinset_set vs) hs]
  · intro d hd
    simp only [iface, Gen.NullaryOperator.modulo, mod_pos hd, ok_bind, pure_eq_ok]
    rw [mapM_ok _ _ (fun x => x % d) (fun x _ => rfl)]
    refine ⟨_, rfl, ?_⟩
    simp only [Op.modulo, toFinset_set, toFinset_dedup]
    ext y; simp [Py.set]
  · refine ⟨_, rfl, ?_⟩
    simp [Op.expand, Py.set]

/-- **The generated code refines the model**: for every well-formed operator tree, every method translated from
    `_symbolic.py` returns normally and yields the model's answer (sets compared as finite sets). -/
theorem refines : ∀ o : Op, o.wf = true → Refines (iface o) o := by
  intro o
  induction o using Op.induct with
  | leaf vs =>
    intro h
    simp only [Op.wf, Bool.not_eq_true', List.isEmpty_eq_false_iff] at h
    exact leaf_refines vs h
  | pad c a ih =>
    intro h
    simp only [Op.wf, Bool.and_eq_true, decide_eq_true_eq] at h
    exact pad_refines c a h.1 h.2 (ih h.1)
  | cat cs ih =>
    intro h
    simp only [Op.wf, Bool.and_eq_true, wfs_iff] at h
    exact cat_refines cs fun c hc => ih c hc (h.2 c hc)
  | rep c k ih => intro h; exact rep_refines c k (ih (by simpa [Op.wf] using h))
  | rrep c k ih => intro h; exact rrep_refines c k (ih (by simpa [Op.wf] using h))
  | uni cs ih =>
    intro h
    simp only [Op.wf, Bool.and_eq_true, wfs_iff, Bool.not_eq_true', List.isEmpty_eq_false_iff] at h
    exact uni_refines cs h.1 fun c hc => ih c hc (h.2 c hc)

end Bridge
