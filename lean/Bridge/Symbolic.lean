import Gen.Symbolic
import Proofs.BlsMinMax
import Bridge.Basic
set_option linter.unusedSimpArgs false
set_option linter.unusedVariables false
/-!
  Bridge between the code GENERATED from `pydsdl/_bit_length_set/_symbolic.py` (`Gen/Symbolic.lean`, rewritten by
  `tools/py2lean.py` from the working tree of /repo on every run) and the hand-written model `Model/Bls.lean`.

  The generated definitions are non-recursive: every method sees its children through the interface record
  `OperatorI`.  `iface` ties the knot once, by structural recursion over the operator tree, exactly as the Python
  constructors nest the objects.  `refines` proves, for every well-formed tree, that the generated methods
  return *without raising* (no assert fires, no division by zero, no `min()` of an empty set, the naturals are never
  left) and that their results are, as finite sets, those of the model.  The C01 theorems about the model therefore
  transfer to what the Python source says today; if the source changes so that this is no longer provable, the
  build of this module breaks and the check starts its failing-input search.
-/
open Bls
open scoped Pointwise

namespace Bridge

/-! ### The knot -/

mutual
/-- The object graph the Python constructors build for an operator tree, seen through the generated methods. -/
def iface : Op → OperatorI
  | .leaf vs =>
      let value := Py.set vs  -- `self._value = set(values)`
      { min := Gen.NullaryOperator.min value, max := Gen.NullaryOperator.max value,
        modulo := Gen.NullaryOperator.modulo value, expand := fun _ => Gen.NullaryOperator.expand value }
  | .pad c a =>
      { min := Gen.PaddingOperator.min (iface c) a, max := Gen.PaddingOperator.max (iface c) a,
        modulo := Gen.PaddingOperator.modulo (iface c) a, expand := fun _ => Gen.PaddingOperator.expand (iface c) a }
  | .cat cs =>
      { min := Gen.ConcatenationOperator.min (ifaces cs), max := Gen.ConcatenationOperator.max (ifaces cs),
        modulo := Gen.ConcatenationOperator.modulo (ifaces cs), expand := fun _ => Gen.ConcatenationOperator.expand (ifaces cs) }
  | .rep c k =>
      { min := Gen.RepetitionOperator.min (iface c) k, max := Gen.RepetitionOperator.max (iface c) k,
        modulo := Gen.RepetitionOperator.modulo (iface c) k, expand := fun _ => Gen.RepetitionOperator.expand (iface c) k }
  | .rrep c k =>
      { min := Gen.RangeRepetitionOperator.min (iface c) k, max := Gen.RangeRepetitionOperator.max (iface c) k,
        modulo := Gen.RangeRepetitionOperator.modulo (iface c) k, expand := fun _ => Gen.RangeRepetitionOperator.expand (iface c) k }
  | .uni cs =>
      { min := Gen.UnionOperator.min (ifaces cs), max := Gen.UnionOperator.max (ifaces cs),
        modulo := Gen.UnionOperator.modulo (ifaces cs), expand := fun _ => Gen.UnionOperator.expand (ifaces cs) }
def ifaces : List Op → List OperatorI
  | [] => []
  | c :: cs => iface c :: ifaces cs
end

theorem ifaces_eq (cs : List Op) : ifaces cs = cs.map iface := by
  induction cs with
  | nil => rfl
  | cons c cs ih => simp [ifaces, ih]

/-- What it means for an interface record to behave like the model of the tree `o`. -/
structure Refines (ci : OperatorI) (o : Op) : Prop where
  min : ci.min = .ok o.min
  max : ci.max = .ok o.max
  modulo : ∀ d, 0 < d → ∃ s, ci.modulo d = .ok s ∧ s.toFinset = (o.modulo d).toFinset
  expand : ∃ s, ci.expand () = .ok s ∧ s.toFinset = o.expand.toFinset

/-! ### Normal forms

  The proofs below never follow the shape of today's generated term.  `gen_simp [defs, facts]` rewrites a generated definition with
  (a) the facts about its inputs, (b) the closed forms of the PyLib primitives whose side conditions (`0 < divisor`, `1 ≤ x + r`, …)
  `omega` finds in the context, (c) the lemmas that give every spelling of one value the same normal form (`padTo`, `equivK`, casts
  pulled out of `Int` arithmetic), and (d) the loop lemmas, until the program is `Except.ok <pure term>`; private helpers are inlined
  by the translator, so there is nothing to unfold by name.  What remains is a statement about finite sets. -/

theorem equivK_form1 (k d : Nat) : min k (d + k % d) = equivK k d := rfl
theorem equivK_form2 (k d : Nat) : min (d + k % d) k = equivK k d := Nat.min_comm _ _
theorem equivK_beq (k d : Nat) : (k % d == equivK k d % d) = true := by
  have := equivK_mod k d; simp [this]
theorem equivK_beq' (k d : Nat) : (equivK k d % d == k % d) = true := by
  have := equivK_mod k d; simp [this]
theorem one_add_comm (n : Nat) : 1 + n = n + 1 := Nat.add_comm 1 n
theorem py_sum_eq : Py.sum = List.sum := funext fun _ => rfl

open Lean.Parser.Tactic in
macro "gen_simp" " [" ts:simpLemma,* "]" : tactic =>
  `(tactic| simp (disch := omega) only [$ts,*, ok_bind, pure_eq_ok, bind_pure, assert_true, mod_pos, floordiv_pos, sub_le,
      imod_natCast, ifloordiv_natCast, imod_neg_natCast, ifloordiv_neg_natCast, toNat_natCast, natCast_add_symm, natCast_mul_symm,
      int_neg_neg, int_neg_mul_neg, padTo_form1, padTo_form2, padTo_form3, padTo_form4, padTo_form5, padTo_form6,
      ite_le_eq_min, ite_lt_eq_min, mod_add_comm, equivK_form1, equivK_form2, equivK_beq, equivK_beq', one_add_comm,
      mapM_ok_fun, forEach_ok_fun, Py.cwr, Py.sum, Py.range, Py.product, Py.lcm, py_sum_eq,
      decide_true, decide_false, Bool.and_self, Bool.and_true, Bool.true_and, Bool.not_true, Bool.not_false, decide_eq_true_eq,
      Nat.not_lt_zero, if_true, if_false, ite_true, ite_false, Bool.false_eq_true, beq_self_eq_true, bne_self_eq_false])

/-! ### One lemma per Python class -/

theorem mem_iff_of_toFinset {s t : List Nat} (h : s.toFinset = t.toFinset) (x : Nat) : x ∈ s ↔ x ∈ t := by
  have := congrArg (fun u => x ∈ u) h; simpa using this

theorem map_toFinset_congr {s t : List Nat} (f : Nat → Nat) (h : s.toFinset = t.toFinset) :
    (s.map f).toFinset = (t.map f).toFinset := by
  ext y; simp only [List.mem_toFinset, List.mem_map, mem_iff_of_toFinset h]

theorem cwrSums_congr {s t : List Nat} (k : Nat) (h : s.toFinset = t.toFinset) :
    ((cwr s k).map List.sum).toFinset = ((cwr t k).map List.sum).toFinset := by
  rw [toFinset_cwr_sums, toFinset_cwr_sums, h]

theorem rep_refines (c : Op) (k : Nat) (ih : Refines (iface c) c) : Refines (iface (.rep c k)) (.rep c k) := by
  refine ⟨?_, ?_, ?_, ?_⟩
  · gen_simp [iface, Gen.RepetitionOperator.min, ih.min, Op.min, Nat.mul_comm k]
  · gen_simp [iface, Gen.RepetitionOperator.max, ih.max, Op.max, Nat.mul_comm k]
  · intro d hd
    obtain ⟨s, hs, hset⟩ := ih.modulo _ hd
    gen_simp [iface, Gen.RepetitionOperator.modulo, hs]
    refine ⟨_, rfl, ?_⟩
    simp only [toFinset_foldl_setAdd, Op.modulo, cwrSumsMod, toFinset_dedup]
    have := map_toFinset_congr (· % d) (cwrSums_congr (equivK k d) hset)
    simpa only [List.map_map, Function.comp_def] using this
  · obtain ⟨s, hs, hset⟩ := ih.expand
    gen_simp [iface, Gen.RepetitionOperator.expand, hs]
    refine ⟨_, rfl, ?_⟩
    simp only [toFinset_foldl_setAdd, Op.expand, cwrSums, toFinset_dedup]
    exact cwrSums_congr k hset

theorem rangeCwr_congr {s t : List Nat} (K : Nat) (h : s.toFinset = t.toFinset) :
    ((List.range (K + 1)).flatMap fun k => (cwr s k).map List.sum).toFinset
      = ((List.range (K + 1)).flatMap fun k => (cwr t k).map List.sum).toFinset := by
  rw [toFinset_rangeCwr, toFinset_rangeCwr, h]

theorem flatMap_map_mod (ks : List Nat) (L : Nat → List (List Nat)) (d : Nat) :
    (ks.flatMap fun k => (L k).map fun el => el.sum % d) = (ks.flatMap fun k => (L k).map List.sum).map (· % d) := by
  simp only [List.map_flatMap, List.map_map, Function.comp_def]

theorem rrep_refines (c : Op) (k : Nat) (ih : Refines (iface c) c) : Refines (iface (.rrep c k)) (.rrep c k) := by
  refine ⟨?_, ?_, ?_, ?_⟩
  · gen_simp [iface, Gen.RangeRepetitionOperator.min, Op.min]
  · gen_simp [iface, Gen.RangeRepetitionOperator.max, ih.max, Op.max, Nat.mul_comm k]
  · intro d hd
    obtain ⟨s, hs, hset⟩ := ih.modulo _ hd
    gen_simp [iface, Gen.RangeRepetitionOperator.modulo, hs]
    refine ⟨_, rfl, ?_⟩
    simp only [toFinset_foldl_foldl_setAdd, Op.modulo, rangeCwrSumsMod, toFinset_dedup, flatMap_map_mod]
    exact map_toFinset_congr (· % d) (rangeCwr_congr (equivK k d) hset)
  · obtain ⟨s, hs, hset⟩ := ih.expand
    gen_simp [iface, Gen.RangeRepetitionOperator.expand, hs]
    refine ⟨_, rfl, ?_⟩
    simp only [toFinset_foldl_foldl_setAdd, Op.expand, rangeCwrSums, toFinset_dedup]
    exact rangeCwr_congr k hset

theorem minL_map_min (cs : List Op) (h : cs ≠ []) : minL (cs.map Op.min) = minMin cs := by
  obtain ⟨⟨m, hm, hmeq⟩, hle⟩ := minMin_spec cs h
  have hne : cs.map Op.min ≠ [] := by simpa using h
  apply Nat.le_antisymm
  · rw [hmeq]; exact minL_le _ _ (List.mem_map_of_mem hm)
  · obtain ⟨c, hc, hceq⟩ := List.mem_map.mp (minL_mem _ hne)
    rw [← hceq]; exact hle c hc

theorem maxL_map_max (cs : List Op) (h : cs ≠ []) : maxL (cs.map Op.max) = maxMax cs := by
  obtain ⟨⟨m, hm, hmeq⟩, hle⟩ := maxMax_spec cs h
  have hne : cs.map Op.max ≠ [] := by simpa using h
  apply Nat.le_antisymm
  · obtain ⟨c, hc, hceq⟩ := List.mem_map.mp (maxL_mem _ hne)
    rw [← hceq]; exact hle c hc
  · rw [hmeq]; exact le_maxL _ _ (List.mem_map_of_mem hm)

/-- results of the children, named through `val` -/
theorem children_mapM {β : Type} [Inhabited β] (cs : List Op) (m : OperatorI → Py.M β) (g : Op → β)
    (h : ∀ c ∈ cs, m (iface c) = .ok (g c)) :
    (ifaces cs).mapM (fun ci => m ci) = .ok (cs.map g) := by
  rw [ifaces_eq, mapM_ok (cs.map iface) _ (fun ci => val (m ci))]
  · congr 1
    rw [List.map_map]
    apply List.map_congr_left
    intro c hc
    simp only [Function.comp, h c hc, val]
  · intro ci hci
    obtain ⟨c, hc, rfl⟩ := List.mem_map.mp hci
    exact eq_ok_val (h c hc)

/-- a loop over the children whose body is a function of the child's (successful) answer -/
theorem children_forEach {β σ : Type} [Inhabited β] (cs : List Op) (m : OperatorI → Py.M β) (step : σ → β → Py.M σ) (f : σ → β → σ)
    (init : σ) (h : ∀ c ∈ cs, ∃ b, m (iface c) = .ok b) (hstep : ∀ s b, step s b = .ok (f s b)) :
    Py.forEach (ifaces cs) init (fun s ci => m ci >>= fun b => step s b) = .ok (cs.foldl (fun s c => f s (val (m (iface c)))) init) := by
  rw [ifaces_eq, forEach_ok _ init _ (fun s ci => f s (val (m ci)))]
  · rw [List.foldl_map]
  · intro ci hci s
    obtain ⟨c, hc, rfl⟩ := List.mem_map.mp hci
    obtain ⟨b, hb⟩ := h c hc
    rw [hb, ok_bind, hstep]; rfl

theorem cat_refines (cs : List Op) (ih : ∀ c ∈ cs, Refines (iface c) c) : Refines (iface (.cat cs)) (.cat cs) := by
  refine ⟨?_, ?_, ?_, ?_⟩
  · gen_simp [iface, Gen.ConcatenationOperator.min, children_mapM cs (·.min) Op.min (fun c hc => (ih c hc).min), Op.min, sumMin_eq]
  · gen_simp [iface, Gen.ConcatenationOperator.max, children_mapM cs (·.max) Op.max (fun c hc => (ih c hc).max), Op.max, sumMax_eq]
  · intro d hd
    have hm := children_mapM cs (fun ci => ci.modulo d) (fun c => val ((iface c).modulo d))
      (fun c hc => by obtain ⟨s, hs, _⟩ := (ih c hc).modulo d hd; exact eq_ok_val hs)
    gen_simp [iface, Gen.ConcatenationOperator.modulo, hm]
    refine ⟨_, rfl, ?_⟩
    simp only [toFinset_foldl_setAdd, Op.modulo, toFinset_dedup]
    apply map_toFinset_congr
    simp only [toFinset_foldl_setAdd, toFinset_dedup]
    rw [toFinset_product_sums, toFinset_product_sums, modulos_eq, List.map_map, List.map_map]
    congr 1
    apply List.map_congr_left
    intro c hc
    obtain ⟨s, hs, hset⟩ := (ih c hc).modulo d hd
    simp only [Function.comp, hs, val, hset]
  · have hm := children_mapM cs (fun ci => ci.expand ()) (fun c => val ((iface c).expand ()))
      (fun c hc => by obtain ⟨s, hs, _⟩ := (ih c hc).expand; exact eq_ok_val hs)
    gen_simp [iface, Gen.ConcatenationOperator.expand, hm]
    refine ⟨_, rfl, ?_⟩
    simp only [toFinset_foldl_setAdd, Op.expand, toFinset_dedup]
    rw [toFinset_product_sums, toFinset_product_sums, expands_eq, List.map_map, List.map_map]
    congr 1
    apply List.map_congr_left
    intro c hc
    obtain ⟨s, hs, hset⟩ := (ih c hc).expand
    simp only [Function.comp, hs, val, hset]

theorem uni_refines (cs : List Op) (hne : cs ≠ []) (ih : ∀ c ∈ cs, Refines (iface c) c) : Refines (iface (.uni cs)) (.uni cs) := by
  refine ⟨?_, ?_, ?_, ?_⟩
  · gen_simp [iface, Gen.UnionOperator.min, children_mapM cs (·.min) Op.min (fun c hc => (ih c hc).min), Op.min,
      minOf_ne_nil (show cs.map Op.min ≠ [] by simpa using hne), minL_map_min cs hne]
  · gen_simp [iface, Gen.UnionOperator.max, children_mapM cs (·.max) Op.max (fun c hc => (ih c hc).max), Op.max,
      maxOf_ne_nil (show cs.map Op.max ≠ [] by simpa using hne), maxL_map_max cs hne]
  · intro d hd
    gen_simp [iface, Gen.UnionOperator.modulo, ifaces_eq]
    rw [forEach_ok _ [] _ (fun out ci => Py.setUnion out (val (ci.modulo d)))]
    · refine ⟨_, rfl, ?_⟩
      ext y
      simp only [List.mem_toFinset, mem_foldl_setUnion, List.not_mem_nil, false_or, Op.modulo, mem_dedup, List.mem_flatten, modulos_eq,
        List.mem_map, exists_exists_and_eq_and]
      constructor
      · rintro ⟨c, hc, hy⟩
        obtain ⟨s, hs, hset⟩ := (ih c hc).modulo d hd
        rw [hs] at hy
        exact ⟨c, hc, (mem_iff_of_toFinset hset y).mp hy⟩
      · rintro ⟨c, hc, hy⟩
        obtain ⟨s, hs, hset⟩ := (ih c hc).modulo d hd
        refine ⟨c, hc, ?_⟩
        rw [hs]
        exact (mem_iff_of_toFinset hset y).mpr hy
    · intro ci hci out
      obtain ⟨c, hc, rfl⟩ := List.mem_map.mp hci
      obtain ⟨s, hs, _⟩ := (ih c hc).modulo d hd
      gen_simp [hs, val, Py.setUnion]
  · gen_simp [iface, Gen.UnionOperator.expand, ifaces_eq]
    rw [forEach_ok _ [] _ (fun out ci => Py.setUnion out (val (ci.expand ())))]
    · refine ⟨_, rfl, ?_⟩
      ext y
      simp only [List.mem_toFinset, mem_foldl_setUnion, List.not_mem_nil, false_or, Op.expand, mem_dedup, List.mem_flatten, expands_eq,
        List.mem_map, exists_exists_and_eq_and]
      constructor
      · rintro ⟨c, hc, hy⟩
        obtain ⟨s, hs, hset⟩ := (ih c hc).expand
        rw [hs] at hy
        exact ⟨c, hc, (mem_iff_of_toFinset hset y).mp hy⟩
      · rintro ⟨c, hc, hy⟩
        obtain ⟨s, hs, hset⟩ := (ih c hc).expand
        refine ⟨c, hc, ?_⟩
        rw [hs]
        exact (mem_iff_of_toFinset hset y).mpr hy
    · intro ci hci out
      obtain ⟨c, hc, rfl⟩ := List.mem_map.mp hci
      obtain ⟨s, hs, _⟩ := (ih c hc).expand
      gen_simp [hs, val, Py.setUnion]

theorem pad_refines (c : Op) (a : Nat) (hc : c.wf = true) (ha : 1 ≤ a) (ih : Refines (iface c) c) : Refines (iface (.pad c a)) (.pad c a) := by
  refine ⟨?_, ?_, ?_, ?_⟩
  · gen_simp [iface, Gen.PaddingOperator.min, ih.min, Op.min]
  · gen_simp [iface, Gen.PaddingOperator.max, ih.max, Op.max]
  · intro d hd
    have hl : 0 < Nat.lcm a d := Nat.lcm_pos (by omega) hd
    obtain ⟨s, hs, hset⟩ := ih.modulo _ hl
    have hmem : ∀ x, x ∈ s ↔ x ∈ c.modulo (Nat.lcm a d) := mem_iff_of_toFinset hset
    have hass := asserts_never_fire (.pad c a) (by simp [Op.wf, hc, ha]) d hd
    simp only [Op.assertsOk, Bool.and_eq_true, List.all_eq_true, decide_eq_true_eq] at hass
    gen_simp [iface, Gen.PaddingOperator.modulo, Gen.PaddingOperator.max, ih.max, Nat.lcm_comm d a, hs]
    rw [forEach_ok s [] _ (fun out x => Py.setAdd out (padTo a x % d))]
    · refine ⟨_, rfl, ?_⟩
      simp only [toFinset_foldl_setAdd, Op.modulo, toFinset_dedup]
      exact map_toFinset_congr _ hset
    · intro x hx out
      have h1 := (hass.2 x ((hmem x).mp hx)).1
      have h2 := (hass.2 x ((hmem x).mp hx)).2
      gen_simp [h1, h2]
  · obtain ⟨s, hs, hset⟩ := ih.expand
    gen_simp [iface, Gen.PaddingOperator.expand, hs]
    refine ⟨_, rfl, ?_⟩
    simp only [toFinset_foldl_setAdd, Op.expand, toFinset_dedup]
    exact map_toFinset_congr _ hset

theorem leaf_refines (vs : List Nat) (h : vs ≠ []) : Refines (iface (.leaf vs)) (.leaf vs) := by
  have hs : Py.set vs ≠ [] := set_ne_nil h
  refine ⟨?_, ?_, ?_, ?_⟩
  · gen_simp [iface, Gen.NullaryOperator.min, minOf_ne_nil hs, Op.min]
    rw [minL_eq_of_toFinset (toFinset_set vs) hs]
  · gen_simp [iface, Gen.NullaryOperator.max, maxOf_ne_nil hs, Op.max]
    rw [maxL_eq_of_toFinset (toFinset_set vs) hs]
  · intro d hd
    gen_simp [iface, Gen.NullaryOperator.modulo]
    refine ⟨_, rfl, ?_⟩
    simp only [toFinset_foldl_setAdd, Op.modulo, toFinset_dedup]
    exact map_toFinset_congr _ (toFinset_set vs)
  · gen_simp [iface, Gen.NullaryOperator.expand]
    refine ⟨_, rfl, ?_⟩
    simp only [Op.expand, toFinset_set, toFinset_dedup]

/-- **The generated code refines the model**: for every well-formed operator tree, every method translated from
    `_symbolic.py` returns normally and yields the model's answer (sets compared as finite sets). -/
theorem refines : ∀ o : Op, o.wf = true → Refines (iface o) o := by
  intro o
  induction o using Op.induct with
  | leaf vs =>
    intro h
    simp only [Op.wf, Bool.not_eq_true', List.isEmpty_eq_false_iff] at h
    exact leaf_refines vs h
  | pad c a ih =>
    intro h
    simp only [Op.wf, Bool.and_eq_true, decide_eq_true_eq] at h
    exact pad_refines c a h.1 h.2 (ih h.1)
  | cat cs ih =>
    intro h
    simp only [Op.wf, Bool.and_eq_true, wfs_iff] at h
    exact cat_refines cs fun c hc => ih c hc (h.2 c hc)
  | rep c k ih => intro h; exact rep_refines c k (ih (by simpa [Op.wf] using h))
  | rrep c k ih => intro h; exact rrep_refines c k (ih (by simpa [Op.wf] using h))
  | uni cs ih =>
    intro h
    simp only [Op.wf, Bool.and_eq_true, wfs_iff, Bool.not_eq_true', List.isEmpty_eq_false_iff] at h
    exact uni_refines cs h.1 fun c hc => ih c hc (h.2 c hc)

end Bridge
