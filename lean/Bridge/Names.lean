import Gen.Names
import Model.Rules
import Bridge.Basic
/-!
  Bridge for the name rules of `pydsdl/_serializable/_name.py` (`Gen/Names.lean`, rewritten from the working tree of /repo on
  every run: the character-set constants, the table `_DISALLOWED_NAME_PATTERNS` with every `re.compile` pattern parsed from
  its source text, and `check_name` itself): for EVERY string the generated `check_name` returns normally exactly when the
  model's `Rules.checkName` says `true` and raises `InvalidNameError` otherwise - never another exception, and never the
  translation's own "non-ASCII" failure (the primitives `Py.strLower` / `Py.Pat.match` are only reached with ASCII subjects).

  Every generated pattern is proved equivalent, as a function of the subject, to the hand-written matcher of the model it
  corresponds to (`void\d*`, `u?int\d*`, `u?q\d+_\d+`, `float\d*`, `com\d`, `lpt\d`, `_.*_`, each with the final `$` of
  `Pattern.match`); the lemmas are stated about the literal regex terms, so a changed pattern leaves `check_name_eq` unprovable.
  The final comparison of the two disjunctions is modulo associativity / commutativity: the order of the table is immaterial.
-/
set_option linter.unusedSimpArgs false
set_option linter.unnecessarySeqFocus false
set_option linter.unusedVariables false
open Rules Py Py.Rx

namespace Bridge.Names

/-! ### characters -/

theorem isDigit_eq : Py.Rx.isDigit = Rules.isDigit := rfl

theorem char_le_iff (a b : Char) : a ≤ b ↔ a.toNat ≤ b.toNat := by
  rw [Char.le_def]; simp only [UInt32.le_iff_toNat_le]; exact Iff.rfl

theorem mem_iff_toNat_mem (c : Char) (l : List Char) : c ∈ l ↔ c.toNat ∈ l.map Char.toNat := by
  induction l with
  | nil => simp
  | cons a l ih =>
    simp only [List.mem_cons, List.map_cons, ih]
    constructor
    · rintro (h | h)
      · exact .inl (by rw [h])
      · exact .inr h
    · rintro (h | h)
      · exact .inl (Char.toNat_inj.mp h)
      · exact .inr h

/-- `string.ascii_letters + "_"` is the model's `validFirst` -/
theorem charIn_first (c : Char) : Py.charIn c Gen.Names.VALID_FIRST_CHARACTERS_OF_NAME = validFirst c := by
  rw [Bool.eq_iff_iff]
  simp only [Py.charIn, List.contains_iff_mem, mem_iff_toNat_mem, Gen.Names.VALID_FIRST_CHARACTERS_OF_NAME, validFirst, isUpper,
    isLower, Bool.or_eq_true, Bool.and_eq_true, decide_eq_true_eq, beq_iff_eq, char_le_iff, ← Char.toNat_inj]
  simp only [List.map_cons, List.map_nil, List.mem_cons, List.not_mem_nil, or_false, Char.reduceToNat]
  omega

/-- `string.ascii_letters + "_" + string.digits` is the model's `validCont` -/
theorem charIn_cont (c : Char) : Py.charIn c Gen.Names.VALID_CONTINUATION_CHARACTERS_OF_NAME = validCont c := by
  rw [Bool.eq_iff_iff]
  simp only [Py.charIn, List.contains_iff_mem, mem_iff_toNat_mem, Gen.Names.VALID_CONTINUATION_CHARACTERS_OF_NAME, validCont,
    validFirst, isUpper, isLower, Rules.isDigit, Bool.or_eq_true, Bool.and_eq_true, decide_eq_true_eq, beq_iff_eq, char_le_iff,
    ← Char.toNat_inj]
  simp only [List.map_cons, List.map_nil, List.mem_cons, List.not_mem_nil, or_false, Char.reduceToNat]
  omega

theorem validCont_toNat {c : Char} (h : validCont c = true) :
    (65 ≤ c.toNat ∧ c.toNat ≤ 90) ∨ (97 ≤ c.toNat ∧ c.toNat ≤ 122) ∨ c.toNat = 95 ∨ (48 ≤ c.toNat ∧ c.toNat ≤ 57) := by
  simp only [validCont, validFirst, isUpper, isLower, Rules.isDigit, Bool.or_eq_true, Bool.and_eq_true, decide_eq_true_eq,
    beq_iff_eq, char_le_iff, ← Char.toNat_inj, Char.reduceToNat] at h
  omega

theorem lowerChar_eq : Py.lowerChar = Rules.lowerChar := by
  funext c
  unfold Py.lowerChar Rules.lowerChar
  split <;> first | rfl | (split <;> first | rfl | (rename_i h; exact absurd rfl (by assumption)))

/-! ### the generated patterns against the hand-written matchers (for every subject) -/

/-- a literal prefix in front of an expression, as the translator's parser nests it -/
def lit : List Char → Rx → Rx
  | [], r => r
  | c :: p, r => .seq (.chr c) (lit p r)

theorem matchPrefixDigits_nil (s : List Char) : matchPrefixDigits [] s = s.all Rules.isDigit := by
  simp [matchPrefixDigits]

theorem matchPrefixDigits_cons_nil (c : Char) (p : List Char) : matchPrefixDigits (c :: p) [] = false := by
  simp [matchPrefixDigits]

theorem matchPrefixDigits_cons_cons (c : Char) (p : List Char) (d : Char) (s : List Char) :
    matchPrefixDigits (c :: p) (d :: s) = (d == c && matchPrefixDigits p s) := by
  simp only [matchPrefixDigits, List.isPrefixOf, List.length_cons, List.drop_succ_cons, Bool.and_assoc]
  rw [Bool.beq_comm]

theorem matchPrefixDigit_nil (s : List Char) : matchPrefixDigit [] s = (match s with | [d] => Rules.isDigit d | _ => false) := by
  simp [matchPrefixDigit]
  rcases s with _ | ⟨d, _ | ⟨e, t⟩⟩ <;> rfl

theorem matchPrefixDigit_cons_nil (c : Char) (p : List Char) : matchPrefixDigit (c :: p) [] = false := by
  simp [matchPrefixDigit]

theorem matchPrefixDigit_cons_cons (c : Char) (p : List Char) (d : Char) (s : List Char) :
    matchPrefixDigit (c :: p) (d :: s) = (d == c && matchPrefixDigit p s) := by
  simp only [matchPrefixDigit, List.isPrefixOf, List.length_cons, List.drop_succ_cons, Bool.and_assoc]
  rw [Bool.beq_comm]

/-- `<prefix>\d*` -/
theorem fullmatch_lit_digits (p s : List Char) : (lit p (.star .digit)).fullmatch s = matchPrefixDigits p s := by
  induction p generalizing s with
  | nil => rw [lit, fullmatch_star_digit, matchPrefixDigits_nil, isDigit_eq]
  | cons c p ih =>
    cases s with
    | nil => rw [lit, fullmatch_chr_seq_nil, matchPrefixDigits_cons_nil]
    | cons d s => rw [lit, fullmatch_chr_seq_cons, matchPrefixDigits_cons_cons, ih]

/-- `<prefix>\d` -/
theorem fullmatch_lit_digit (p s : List Char) : (lit p .digit).fullmatch s = matchPrefixDigit p s := by
  induction p generalizing s with
  | nil =>
    rw [lit, fullmatch_digit, matchPrefixDigit_nil, isDigit_eq]
    rcases s with _ | ⟨d, _ | ⟨e, t⟩⟩ <;> rfl
  | cons c p ih =>
    cases s with
    | nil => rw [lit, fullmatch_chr_seq_nil, matchPrefixDigit_cons_nil]
    | cons d s => rw [lit, fullmatch_chr_seq_cons, matchPrefixDigit_cons_cons, ih]

/-- `void\d*` -/
theorem pat_void (s : List Char) :
    (Rx.seq (.chr 'v') (.seq (.chr 'o') (.seq (.chr 'i') (.seq (.chr 'd') (.star .digit))))).fullmatch s =
      matchPrefixDigits "void".toList s :=
  fullmatch_lit_digits ['v', 'o', 'i', 'd'] s

/-- `float\d*` -/
theorem pat_float (s : List Char) :
    (Rx.seq (.chr 'f') (.seq (.chr 'l') (.seq (.chr 'o') (.seq (.chr 'a') (.seq (.chr 't') (.star .digit)))))).fullmatch s =
      matchPrefixDigits "float".toList s :=
  fullmatch_lit_digits ['f', 'l', 'o', 'a', 't'] s

/-- `u?int\d*` -/
theorem pat_int (s : List Char) :
    (Rx.seq (.opt (.chr 'u')) (.seq (.chr 'i') (.seq (.chr 'n') (.seq (.chr 't') (.star .digit))))).fullmatch s =
      (matchPrefixDigits "uint".toList s || matchPrefixDigits "int".toList s) := by
  rw [fullmatch_opt_seq]
  exact congrArg₂ (· || ·) (fullmatch_lit_digits ['u', 'i', 'n', 't'] s) (fullmatch_lit_digits ['i', 'n', 't'] s)

/-- `com\d` -/
theorem pat_com (s : List Char) :
    (Rx.seq (.chr 'c') (.seq (.chr 'o') (.seq (.chr 'm') .digit))).fullmatch s = matchPrefixDigit "com".toList s :=
  fullmatch_lit_digit ['c', 'o', 'm'] s

/-- `lpt\d` -/
theorem pat_lpt (s : List Char) :
    (Rx.seq (.chr 'l') (.seq (.chr 'p') (.seq (.chr 't') .digit))).fullmatch s = matchPrefixDigit "lpt".toList s :=
  fullmatch_lit_digit ['l', 'p', 't'] s

/-- `\d+_\d+` -/
theorem fullmatch_dud (s : List Char) :
    (Rx.seq (.plus .digit) (.seq (.chr '_') (.plus .digit))).fullmatch s = matchDigitsUnderscoreDigits s := by
  have tail : ∀ u : List Char, (Rx.plus .digit).fullmatch u = (!u.isEmpty && u.all Rules.isDigit) := by
    intro u
    cases u with
    | nil => rfl
    | cons e w => rw [fullmatch_digit_seq_cons, fullmatch_star_digit, isDigit_eq]; rfl
  have hR : ∀ v : List Char, (Rx.seq (.chr '_') (.plus .digit)).fullmatch v =
      (match v with | '_' :: t => !t.isEmpty && t.all Rules.isDigit | _ => false) := by
    intro v
    cases v with
    | nil => rfl
    | cons x u =>
      rw [fullmatch_chr_seq_cons, tail]
      by_cases hx : x = '_'
      · subst hx; rfl
      · have : (x == '_') = false := by simpa using hx
        rw [this, Bool.false_and]
        split
        · rename_i heq; cases heq; exact absurd rfl hx
        · rfl
  have hno : ∀ c s, Py.Rx.isDigit c = true → (Rx.seq (.chr '_') (.plus .digit)).fullmatch (c :: s) = false := by
    intro c s hc
    rw [fullmatch_chr_seq_cons]
    have : (c == '_') = false := by
      rw [beq_eq_false_iff_ne]; rintro rfl; exact absurd hc (by decide)
    rw [this, Bool.false_and]
  rw [fullmatch_seq_assoc]
  unfold matchDigitsUnderscoreDigits
  cases s with
  | nil => rfl
  | cons c t =>
    rw [fullmatch_digit_seq_cons,
      fullmatch_star_char_seq (a := .digit) (p := Py.Rx.isDigit) rfl _ hno, hR, isDigit_eq]
    cases hc : Rules.isDigit c
    · simp [List.takeWhile, hc]
    · simp [List.takeWhile, List.dropWhile, hc]
      rfl

/-- `u?q\d+_\d+` -/
theorem pat_q (s : List Char) :
    (Rx.seq (.opt (.chr 'u')) (.seq (.chr 'q') (.seq (.plus .digit) (.seq (.chr '_') (.plus .digit))))).fullmatch s = matchQ s := by
  rw [fullmatch_opt_seq]
  unfold matchQ
  split
  · simp [fullmatch_dud]
  · simp [fullmatch_dud]
  · rename_i h1 h2
    cases s with
    | nil => rfl
    | cons c t =>
      rw [fullmatch_chr_seq_cons, fullmatch_chr_seq_cons]
      have hq : (c == 'q') = false := by
        rw [beq_eq_false_iff_ne]; rintro rfl; exact h2 t rfl
      rw [hq, Bool.false_and, Bool.or_false]
      cases t with
      | nil => simp [nullable]
      | cons d t =>
        rw [fullmatch_chr_seq_cons]
        by_cases hu : c = 'u'
        · subst hu
          have hd : (d == 'q') = false := by
            rw [beq_eq_false_iff_ne]; rintro rfl; exact h1 t rfl
          simp [hd]
        · have : (c == 'u') = false := by simpa using hu
          simp [this]

/-- `_.*_` on a subject without line feeds (`.` does not match one; the model's matcher does not look) -/
theorem pat_underscores (s : List Char) (hs : ∀ c ∈ s, c ≠ '\n') :
    (Rx.seq (.chr '_') (.seq (.star .any) (.chr '_'))).fullmatch s = matchUnderscores s := by
  have key : ∀ t : List Char, (∀ c ∈ t, c ≠ '\n') →
      (Rx.seq (.star .any) (.chr '_')).fullmatch t = (match t.getLast? with | some '_' => true | _ => false) := by
    intro t ht
    rw [Bool.eq_iff_iff, fullmatch_seq_iff]
    simp only [fullmatch_star_any, fullmatch_iff, matches_chr]
    constructor
    · rintro ⟨s1, s2, rfl, _, rfl⟩
      simp
    · intro h
      split at h
      · rename_i hl
        obtain ⟨ys, rfl⟩ := List.getLast?_eq_some_iff.mp hl
        refine ⟨ys, ['_'], rfl, ?_, rfl⟩
        simp only [List.all_eq_true, bne_iff_ne]
        exact fun c hc => ht c (by simp [hc])
      · cases h
  unfold matchUnderscores
  cases s with
  | nil => rfl
  | cons c t =>
    rw [fullmatch_chr_seq_cons, key t fun c hc => hs c (by simp [hc])]
    by_cases hc : c = '_'
    · subst hc; rfl
    · have : (c == '_') = false := by simpa using hc
      rw [this, Bool.false_and]
      split
      · rename_i heq; cases heq; exact absurd rfl hc
      · rfl

/-! ### `check_name` -/

/-- what `check_name` raises -/
def E : Py.Err := .other "InvalidNameError"

@[simp] theorem throw_eq {α : Type} (e : Py.Err) : (throw e : Py.M α) = Except.error e := rfl
@[simp] theorem error_bind {α β : Type} (e : Py.Err) (f : α → Py.M β) : (Except.error e >>= f) = Except.error e := rfl

/-- a checking loop: the first element on which the body raises decides -/
theorem forEach_check {α : Type} (l : List α) (p : α → Bool) (e : Py.Err) (body : Unit → α → Py.M Unit)
    (h : ∀ x, body () x = if p x then .error e else .ok ()) :
    Py.forEach l () body = if l.any p then .error e else .ok () := by
  unfold Py.forEach
  induction l with
  | nil => rfl
  | cons a l ih =>
    rw [List.foldlM_cons, h a]
    by_cases hp : p a = true
    · simp [hp]
    · simp only [hp, Bool.false_eq_true, if_false, ok_bind, List.any_cons, Bool.false_or]
      simpa using ih

theorem isAscii_of_validCont {c : Char} (h : validCont c = true) : Py.isAscii c = true := by
  have := validCont_toNat h
  simp only [Py.isAscii, decide_eq_true_eq]; omega

theorem ne_newline_of_validCont {c : Char} (h : validCont c = true) : c ≠ '\n' := by
  rintro rfl; exact absurd h (by decide)

theorem validCont_lowerChar {c : Char} (h : validCont c = true) : validCont (Rules.lowerChar c) = true := by
  unfold Rules.lowerChar
  split <;> first | decide | exact h

/-- the verdict of the model on the characters of a name (`Rules.checkName` is this function of `name.toList`) -/
def verdict (s : List Char) : Bool :=
  match s with
  | [] => false
  | c :: rest =>
    validFirst c && (c :: rest).all validCont &&
      !(reservedWords.any fun w => w.toList == lower (c :: rest)) && !matchesPattern (lower (c :: rest))

theorem checkName_eq_verdict (name : String) : checkName name = verdict name.toList := rfl

/-- what one entry of the generated table does with the (lower-cased) name -/
def hits (n : List Char) : Py.Pat → Bool
  | .str w => w == n
  | .re r dollar => r.pyMatch dollar n

/-- The generated table - plain words and parsed patterns, in the order of the source - hits a name of valid characters
    exactly when the model's word list or one of its hand-written matchers does. -/
theorem table_any (n : List Char) (hclean : ∀ x ∈ n, validCont x = true) :
    Gen.Names.DISALLOWED_NAME_PATTERNS.any (hits n) = ((reservedWords.any fun w => w.toList == n) || matchesPattern n) := by
  have hnl : ∀ x ∈ n, x ≠ '\n' := fun x hx => ne_newline_of_validCont (hclean x hx)
  have hlast : n.getLast? ≠ some '\n' := by
    intro h
    exact hnl _ (List.mem_of_getLast? h) rfl
  simp only [Gen.Names.DISALLOWED_NAME_PATTERNS, reservedWords, matchesPattern, List.any_cons, List.any_nil, hits,
    pyMatch_dollar_eq _ _ hlast, pat_void, pat_int, pat_q, pat_float, pat_com, pat_lpt, pat_underscores n hnl, Bool.or_false,
    String.reduceToList]
  ac_rfl

/-- The generated `check_name`, on every string: it returns exactly when the model accepts the name, and raises
    `InvalidNameError` - nothing else - when it does not. -/
theorem check_name_list (s : List Char) :
    Gen.Names.check_name s = if verdict s then .ok () else .error E := by
  cases s with
  | nil => rfl
  | cons c rest =>
    simp only [Gen.Names.check_name, List.isEmpty_cons, Bool.false_eq_true, if_false, Py.strIndex, Py.index,
      List.getElem?_cons_zero, pure_eq_ok, ok_bind, charIn_first]
    by_cases hf : validFirst c = true
    · simp only [hf, Bool.not_true, Bool.false_eq_true, if_false]
      rw [forEach_check (c :: rest) (fun ch => !validCont ch) E]
      · by_cases hall : (c :: rest).all validCont = true
        · have hany : (c :: rest).any (fun ch => !validCont ch) = false := by
            rw [List.any_eq_false]; intro x hx; simpa using List.all_eq_true.mp hall x hx
          have hasc : (c :: rest).all Py.isAscii = true :=
            List.all_eq_true.mpr fun x hx => isAscii_of_validCont (List.all_eq_true.mp hall x hx)
          rw [hany]
          simp only [Bool.false_eq_true, if_false, ok_bind, Py.strLower, hasc, if_true, pure_eq_ok, lowerChar_eq]
          have hclean : ∀ x ∈ lower (c :: rest), validCont x = true := by
            intro x hx
            obtain ⟨y, hy, rfl⟩ := List.mem_map.mp hx
            exact validCont_lowerChar (List.all_eq_true.mp hall y hy)
          have hasc' : (lower (c :: rest)).all Py.isAscii = true :=
            List.all_eq_true.mpr fun x hx => isAscii_of_validCont (hclean x hx)
          change (Py.forEach Gen.Names.DISALLOWED_NAME_PATTERNS () _ >>= fun _ => Except.ok ()) = _
          rw [forEach_check Gen.Names.DISALLOWED_NAME_PATTERNS (hits (lower (c :: rest))) E]
          · rw [table_any _ hclean]
            simp only [verdict, hf, hall, Bool.true_and]
            generalize (reservedWords.any fun w => w.toList == lower (c :: rest)) = A
            generalize matchesPattern (lower (c :: rest)) = B
            cases A <;> cases B <;> rfl
          · intro p
            cases p with
            | str w =>
              simp only [Pat.isStr, if_true, Pat.eqStr, hits]
              by_cases h : (w == List.map Rules.lowerChar (c :: rest)) = true <;> simp [h, E, lower]
            | re r d =>
              have hasc'' : (List.map Rules.lowerChar (c :: rest)).all Py.isAscii = true := hasc'
              simp only [Pat.isStr, Bool.false_eq_true, if_false, Pat.match, hasc'', if_true, hits, pure_eq_ok, ok_bind]
              by_cases h : r.pyMatch d (List.map Rules.lowerChar (c :: rest)) = true <;> simp [h, E, lower]
        · have hany : (c :: rest).any (fun ch => !validCont ch) = true := by
            rw [List.any_eq_true]
            simp only [List.all_eq_true, not_forall] at hall
            obtain ⟨x, hx, hv⟩ := hall
            exact ⟨x, hx, by simpa using hv⟩
          have hall' : (c :: rest).all validCont = false := by simpa using hall
          rw [hany]
          simp [verdict, hall']
      · intro ch
        rw [charIn_cont]
        by_cases h : validCont ch = true <;> simp [h, E]
    · have hf' : validFirst c = false := by simpa using hf
      simp [hf', verdict, E]

/-- the same for the model's `checkName : String → Bool` -/
theorem check_name_eq (name : String) :
    Gen.Names.check_name name.toList = if checkName name then .ok () else .error E := by
  rw [checkName_eq_verdict]; exact check_name_list name.toList

end Bridge.Names
