import Gen.Names
import Model.Rules
import Bridge.Basic
/-!
  Bridge for the name rules of `pydsdl/_serializable/_name.py` (`Gen/Names.lean`, rewritten from the working tree of /repo on
  every run: `check_name` as a term of `Py.M` with the module constants folded into their use sites, every `re.compile` pattern
  parsed from its source text): for EVERY string the generated `check_name` returns normally exactly when the model's
  `Rules.checkName` says `true` and raises `InvalidNameError` otherwise - never another exception, and never the translation's
  own "non-ASCII" failure (the primitives `Py.strLower` / `Py.Pat.match` are only reached with ASCII subjects).

  Every generated pattern is proved equivalent, as a function of the subject, to the hand-written matcher of the model it
  corresponds to (`void\d*`, `u?int\d*`, `u?q\d+_\d+`, `float\d*`, `com\d`, `lpt\d`, `_.*_`, each with the final `$` of
  `Pattern.match`); the lemmas are stated about the literal regex terms, so a changed pattern leaves `check_name_list` unprovable.

  The proof of `check_name_list` does not follow the shape of today's function.  It computes the weakest precondition `wp` of the
  generated term by rewriting (`names_wp`: one rule per primitive - bind, `if`, `raise`, `s[0]`, `lower()`, `match`, loops and
  comprehensions over a table unrolled entry by entry, a loop over the characters of the name through the first character on which
  its body raises) under the facts of the case at hand (empty / bad first character / some bad character / all characters valid),
  folds consecutive checks that raise the same exception into one disjunction and compares that disjunction with the model's
  modulo associativity and commutativity.  So the order of the table, the split of the table into several constants, a loop
  turned into a comprehension / `next(...)` / `any(...)`, renamed or extracted locals and helpers, reworded messages change nothing.
-/
set_option linter.unusedSimpArgs false
set_option linter.unnecessarySeqFocus false
set_option linter.unusedVariables false
open Rules Py Py.Rx

namespace Bridge.Names

/-! ### characters -/

theorem isDigit_eq : Py.Rx.isDigit = Rules.isDigit := rfl

theorem char_le_iff (a b : Char) : a ≤ b ↔ a.toNat ≤ b.toNat := by
  rw [Char.le_def]; simp only [UInt32.le_iff_toNat_le]; exact Iff.rfl

theorem mem_iff_toNat_mem (c : Char) (l : List Char) : c ∈ l ↔ c.toNat ∈ l.map Char.toNat := by
  induction l with
  | nil => simp
  | cons a l ih =>
    simp only [List.mem_cons, List.map_cons, ih]
    constructor
    · rintro (h | h)
      · exact .inl (by rw [h])
      · exact .inr h
    · rintro (h | h)
      · exact .inl (Char.toNat_inj.mp h)
      · exact .inr h

/-- `string.ascii_letters + "_"`, as the translator folds it into `x in …` (sorted, distinct), is the model's `validFirst` -/
theorem charIn_first (c : Char) :
    Py.charIn c ['A', 'B', 'C', 'D', 'E', 'F', 'G', 'H', 'I', 'J', 'K', 'L', 'M', 'N', 'O', 'P', 'Q', 'R', 'S', 'T', 'U', 'V', 'W', 'X',
      'Y', 'Z', '_', 'a', 'b', 'c', 'd', 'e', 'f', 'g', 'h', 'i', 'j', 'k', 'l', 'm', 'n', 'o', 'p', 'q', 'r', 's', 't', 'u', 'v', 'w',
      'x', 'y', 'z'] = validFirst c := by
  rw [Bool.eq_iff_iff]
  simp only [Py.charIn, List.contains_iff_mem, mem_iff_toNat_mem, validFirst, isUpper,
    isLower, Bool.or_eq_true, Bool.and_eq_true, decide_eq_true_eq, beq_iff_eq, char_le_iff, ← Char.toNat_inj]
  simp only [List.map_cons, List.map_nil, List.mem_cons, List.not_mem_nil, or_false, Char.reduceToNat]
  omega

/-- `string.ascii_letters + "_" + string.digits` (sorted, distinct) is the model's `validCont` -/
theorem charIn_cont (c : Char) :
    Py.charIn c ['0', '1', '2', '3', '4', '5', '6', '7', '8', '9', 'A', 'B', 'C', 'D', 'E', 'F', 'G', 'H', 'I', 'J', 'K', 'L', 'M', 'N',
      'O', 'P', 'Q', 'R', 'S', 'T', 'U', 'V', 'W', 'X', 'Y', 'Z', '_', 'a', 'b', 'c', 'd', 'e', 'f', 'g', 'h', 'i', 'j', 'k', 'l', 'm',
      'n', 'o', 'p', 'q', 'r', 's', 't', 'u', 'v', 'w', 'x', 'y', 'z'] = validCont c := by
  rw [Bool.eq_iff_iff]
  simp only [Py.charIn, List.contains_iff_mem, mem_iff_toNat_mem, validCont,
    validFirst, isUpper, isLower, Rules.isDigit, Bool.or_eq_true, Bool.and_eq_true, decide_eq_true_eq, beq_iff_eq, char_le_iff,
    ← Char.toNat_inj]
  simp only [List.map_cons, List.map_nil, List.mem_cons, List.not_mem_nil, or_false, Char.reduceToNat]
  omega

theorem validCont_toNat {c : Char} (h : validCont c = true) :
    (65 ≤ c.toNat ∧ c.toNat ≤ 90) ∨ (97 ≤ c.toNat ∧ c.toNat ≤ 122) ∨ c.toNat = 95 ∨ (48 ≤ c.toNat ∧ c.toNat ≤ 57) := by
  simp only [validCont, validFirst, isUpper, isLower, Rules.isDigit, Bool.or_eq_true, Bool.and_eq_true, decide_eq_true_eq,
    beq_iff_eq, char_le_iff, ← Char.toNat_inj, Char.reduceToNat] at h
  omega

theorem lowerChar_eq : Py.lowerChar = Rules.lowerChar := by
  funext c
  unfold Py.lowerChar Rules.lowerChar
  split <;> first | rfl | (split <;> first | rfl | (rename_i h; exact absurd rfl (by assumption)))

/-! ### the generated patterns against the hand-written matchers (for every subject) -/

/-- a literal prefix in front of an expression, as the translator's parser nests it -/
def lit : List Char → Rx → Rx
  | [], r => r
  | c :: p, r => .seq (.chr c) (lit p r)

theorem matchPrefixDigits_nil (s : List Char) : matchPrefixDigits [] s = s.all Rules.isDigit := by
  simp [matchPrefixDigits]

theorem matchPrefixDigits_cons_nil (c : Char) (p : List Char) : matchPrefixDigits (c :: p) [] = false := by
  simp [matchPrefixDigits]

theorem matchPrefixDigits_cons_cons (c : Char) (p : List Char) (d : Char) (s : List Char) :
    matchPrefixDigits (c :: p) (d :: s) = (d == c && matchPrefixDigits p s) := by
  simp only [matchPrefixDigits, List.isPrefixOf, List.length_cons, List.drop_succ_cons, Bool.and_assoc]
  rw [Bool.beq_comm]

theorem matchPrefixDigit_nil (s : List Char) : matchPrefixDigit [] s = (match s with | [d] => Rules.isDigit d | _ => false) := by
  simp [matchPrefixDigit]
  rcases s with _ | ⟨d, _ | ⟨e, t⟩⟩ <;> rfl

theorem matchPrefixDigit_cons_nil (c : Char) (p : List Char) : matchPrefixDigit (c :: p) [] = false := by
  simp [matchPrefixDigit]

theorem matchPrefixDigit_cons_cons (c : Char) (p : List Char) (d : Char) (s : List Char) :
    matchPrefixDigit (c :: p) (d :: s) = (d == c && matchPrefixDigit p s) := by
  simp only [matchPrefixDigit, List.isPrefixOf, List.length_cons, List.drop_succ_cons, Bool.and_assoc]
  rw [Bool.beq_comm]

/-- `<prefix>\d*` -/
theorem fullmatch_lit_digits (p s : List Char) : (lit p (.star .digit)).fullmatch s = matchPrefixDigits p s := by
  induction p generalizing s with
  | nil => rw [lit, fullmatch_star_digit, matchPrefixDigits_nil, isDigit_eq]
  | cons c p ih =>
    cases s with
    | nil => rw [lit, fullmatch_chr_seq_nil, matchPrefixDigits_cons_nil]
    | cons d s => rw [lit, fullmatch_chr_seq_cons, matchPrefixDigits_cons_cons, ih]

/-- `<prefix>\d` -/
theorem fullmatch_lit_digit (p s : List Char) : (lit p .digit).fullmatch s = matchPrefixDigit p s := by
  induction p generalizing s with
  | nil =>
    rw [lit, fullmatch_digit, matchPrefixDigit_nil, isDigit_eq]
    rcases s with _ | ⟨d, _ | ⟨e, t⟩⟩ <;> rfl
  | cons c p ih =>
    cases s with
    | nil => rw [lit, fullmatch_chr_seq_nil, matchPrefixDigit_cons_nil]
    | cons d s => rw [lit, fullmatch_chr_seq_cons, matchPrefixDigit_cons_cons, ih]

/-- `void\d*` -/
theorem pat_void (s : List Char) :
    (Rx.seq (.chr 'v') (.seq (.chr 'o') (.seq (.chr 'i') (.seq (.chr 'd') (.star .digit))))).fullmatch s =
      matchPrefixDigits "void".toList s :=
  fullmatch_lit_digits ['v', 'o', 'i', 'd'] s

/-- `float\d*` -/
theorem pat_float (s : List Char) :
    (Rx.seq (.chr 'f') (.seq (.chr 'l') (.seq (.chr 'o') (.seq (.chr 'a') (.seq (.chr 't') (.star .digit)))))).fullmatch s =
      matchPrefixDigits "float".toList s :=
  fullmatch_lit_digits ['f', 'l', 'o', 'a', 't'] s

/-- `u?int\d*` -/
theorem pat_int (s : List Char) :
    (Rx.seq (.opt (.chr 'u')) (.seq (.chr 'i') (.seq (.chr 'n') (.seq (.chr 't') (.star .digit))))).fullmatch s =
      (matchPrefixDigits "uint".toList s || matchPrefixDigits "int".toList s) := by
  rw [fullmatch_opt_seq]
  exact congrArg₂ (· || ·) (fullmatch_lit_digits ['u', 'i', 'n', 't'] s) (fullmatch_lit_digits ['i', 'n', 't'] s)

/-- `com\d` -/
theorem pat_com (s : List Char) :
    (Rx.seq (.chr 'c') (.seq (.chr 'o') (.seq (.chr 'm') .digit))).fullmatch s = matchPrefixDigit "com".toList s :=
  fullmatch_lit_digit ['c', 'o', 'm'] s

/-- `lpt\d` -/
theorem pat_lpt (s : List Char) :
    (Rx.seq (.chr 'l') (.seq (.chr 'p') (.seq (.chr 't') .digit))).fullmatch s = matchPrefixDigit "lpt".toList s :=
  fullmatch_lit_digit ['l', 'p', 't'] s

/-- `\d+_\d+` -/
theorem fullmatch_dud (s : List Char) :
    (Rx.seq (.plus .digit) (.seq (.chr '_') (.plus .digit))).fullmatch s = matchDigitsUnderscoreDigits s := by
  have tail : ∀ u : List Char, (Rx.plus .digit).fullmatch u = (!u.isEmpty && u.all Rules.isDigit) := by
    intro u
    cases u with
    | nil => rfl
    | cons e w => rw [fullmatch_digit_seq_cons, fullmatch_star_digit, isDigit_eq]; rfl
  have hR : ∀ v : List Char, (Rx.seq (.chr '_') (.plus .digit)).fullmatch v =
      (match v with | '_' :: t => !t.isEmpty && t.all Rules.isDigit | _ => false) := by
    intro v
    cases v with
    | nil => rfl
    | cons x u =>
      rw [fullmatch_chr_seq_cons, tail]
      by_cases hx : x = '_'
      · subst hx; rfl
      · have : (x == '_') = false := by simpa using hx
        rw [this, Bool.false_and]
        split
        · rename_i heq; cases heq; exact absurd rfl hx
        · rfl
  have hno : ∀ c s, Py.Rx.isDigit c = true → (Rx.seq (.chr '_') (.plus .digit)).fullmatch (c :: s) = false := by
    intro c s hc
    rw [fullmatch_chr_seq_cons]
    have : (c == '_') = false := by
      rw [beq_eq_false_iff_ne]; rintro rfl; exact absurd hc (by decide)
    rw [this, Bool.false_and]
  rw [fullmatch_seq_assoc]
  unfold matchDigitsUnderscoreDigits
  cases s with
  | nil => rfl
  | cons c t =>
    rw [fullmatch_digit_seq_cons,
      fullmatch_star_char_seq (a := .digit) (p := Py.Rx.isDigit) rfl _ hno, hR, isDigit_eq]
    cases hc : Rules.isDigit c
    · simp [List.takeWhile, hc]
    · simp [List.takeWhile, List.dropWhile, hc]
      rfl

/-- `u?q\d+_\d+` -/
theorem pat_q (s : List Char) :
    (Rx.seq (.opt (.chr 'u')) (.seq (.chr 'q') (.seq (.plus .digit) (.seq (.chr '_') (.plus .digit))))).fullmatch s = matchQ s := by
  rw [fullmatch_opt_seq]
  unfold matchQ
  split
  · simp [fullmatch_dud]
  · simp [fullmatch_dud]
  · rename_i h1 h2
    cases s with
    | nil => rfl
    | cons c t =>
      rw [fullmatch_chr_seq_cons, fullmatch_chr_seq_cons]
      have hq : (c == 'q') = false := by
        rw [beq_eq_false_iff_ne]; rintro rfl; exact h2 t rfl
      rw [hq, Bool.false_and, Bool.or_false]
      cases t with
      | nil => simp [nullable]
      | cons d t =>
        rw [fullmatch_chr_seq_cons]
        by_cases hu : c = 'u'
        · subst hu
          have hd : (d == 'q') = false := by
            rw [beq_eq_false_iff_ne]; rintro rfl; exact h1 t rfl
          simp [hd]
        · have : (c == 'u') = false := by simpa using hu
          simp [this]

/-- `_.*_` on a subject without line feeds (`.` does not match one; the model's matcher does not look) -/
theorem pat_underscores (s : List Char) (hs : ∀ c ∈ s, c ≠ '\n') :
    (Rx.seq (.chr '_') (.seq (.star .any) (.chr '_'))).fullmatch s = matchUnderscores s := by
  have key : ∀ t : List Char, (∀ c ∈ t, c ≠ '\n') →
      (Rx.seq (.star .any) (.chr '_')).fullmatch t = (match t.getLast? with | some '_' => true | _ => false) := by
    intro t ht
    rw [Bool.eq_iff_iff, fullmatch_seq_iff]
    simp only [fullmatch_star_any, fullmatch_iff, matches_chr]
    constructor
    · rintro ⟨s1, s2, rfl, _, rfl⟩
      simp
    · intro h
      split at h
      · rename_i hl
        obtain ⟨ys, rfl⟩ := List.getLast?_eq_some_iff.mp hl
        refine ⟨ys, ['_'], rfl, ?_, rfl⟩
        simp only [List.all_eq_true, bne_iff_ne]
        exact fun c hc => ht c (by simp [hc])
      · cases h
  unfold matchUnderscores
  cases s with
  | nil => rfl
  | cons c t =>
    rw [fullmatch_chr_seq_cons, key t fun c hc => hs c (by simp [hc])]
    by_cases hc : c = '_'
    · subst hc; rfl
    · have : (c == '_') = false := by simpa using hc
      rw [this, Bool.false_and]
      split
      · rename_i heq; cases heq; exact absurd rfl hc
      · rfl


/-! ### `check_name` -/

def E : Py.Err := .other "InvalidNameError"

/-! ### weakest preconditions -/
def wp {α : Type} (x : Py.M α) (Q : α → Prop) (R : Py.Err → Prop) : Prop :=
  match x with
  | .ok a => Q a
  | .error e => R e

theorem wp_ok {α : Type} (a : α) (Q : α → Prop) (R : Py.Err → Prop) : wp (Except.ok a) Q R = Q a := rfl
theorem wp_error {α : Type} (e : Py.Err) (Q : α → Prop) (R : Py.Err → Prop) : wp (Except.error e : Py.M α) Q R = R e := rfl
theorem wp_pure {α : Type} (a : α) (Q : α → Prop) (R : Py.Err → Prop) : wp (pure a : Py.M α) Q R = Q a := rfl
theorem wp_throw {α : Type} (e : Py.Err) (Q : α → Prop) (R : Py.Err → Prop) : wp (throw e : Py.M α) Q R = R e := rfl
theorem wp_bind {α β : Type} (x : Py.M α) (f : α → Py.M β) (Q : β → Prop) (R : Py.Err → Prop) :
    wp (x >>= f) Q R = wp x (fun a => wp (f a) Q R) R := by
  cases x <;> rfl
theorem wp_ite {α : Type} (c : Prop) [Decidable c] (x y : Py.M α) (Q : α → Prop) (R : Py.Err → Prop) :
    wp (if c then x else y) Q R = if c then wp x Q R else wp y Q R := by
  split <;> rfl

theorem eq_of_wp (x : Py.M Unit) (v : Bool) (h : wp x (fun _ => v = true) (fun e => e = E ∧ v = false)) :
    x = if v then .ok () else .error E := by
  cases x with
  | ok a => simp only [wp] at h; simp [h]
  | error e => simp only [wp] at h; simp [h.1, h.2]

theorem wp_strIndex_cons_zero (c : Char) (s : List Char) (Q : Char → Prop) (R : Py.Err → Prop) :
    wp (Py.strIndex (c :: s) 0) Q R = Q c := rfl
theorem wp_strIndex_nil (i : Nat) (Q : Char → Prop) (R : Py.Err → Prop) :
    wp (Py.strIndex [] i) Q R = R (.other "IndexError") := rfl
theorem wp_strLower (s : List Char) (Q : Py.Str → Prop) (R : Py.Err → Prop) :
    wp (Py.strLower s) Q R = if s.all Py.isAscii = true then Q (lower s) else R (.other "non-ASCII") := by
  unfold Py.strLower lower
  rw [lowerChar_eq]
  split <;> rfl
theorem wp_match_re (r : Rx) (d : Bool) (s : List Char) (Q : Bool → Prop) (R : Py.Err → Prop) :
    wp (Py.Pat.match (.re r d) s) Q R = if s.all Py.isAscii = true then Q (r.pyMatch d s) else R (.other "non-ASCII") := by
  show wp (if s.all Py.isAscii = true then pure (r.pyMatch d s) else throw (.other "non-ASCII")) Q R = _
  rw [wp_ite]; rfl
theorem wp_match_str (w : Py.Str) (s : List Char) (Q : Bool → Prop) (R : Py.Err → Prop) :
    wp (Py.Pat.match (.str w) s) Q R = R (.other "AttributeError") := rfl
theorem wp_fullmatch_re (r : Rx) (d : Bool) (s : List Char) (Q : Bool → Prop) (R : Py.Err → Prop) :
    wp (Py.Pat.fullmatch (.re r d) s) Q R = if s.all Py.isAscii = true then Q (r.fullmatch s) else R (.other "non-ASCII") := by
  show wp (if s.all Py.isAscii = true then pure (r.fullmatch s) else throw (.other "non-ASCII")) Q R = _
  rw [wp_ite]; rfl
theorem wp_fullmatch_str (w : Py.Str) (s : List Char) (Q : Bool → Prop) (R : Py.Err → Prop) :
    wp (Py.Pat.fullmatch (.str w) s) Q R = R (.other "AttributeError") := rfl

/-! loops over a table: unrolled -/
theorem forEach_pat_nil (body : Unit → Py.Pat → Py.M Unit) : Py.forEach ([] : List Py.Pat) () body = pure () := rfl
theorem forEach_pat_cons (a : Py.Pat) (l : List Py.Pat) (body : Unit → Py.Pat → Py.M Unit) :
    Py.forEach (a :: l) () body = body () a >>= fun _ => Py.forEach l () body := by
  unfold Py.forEach; rw [List.foldlM_cons]
theorem filterM_pat_nil (f : Py.Pat → Py.M Bool) : Py.filterM ([] : List Py.Pat) f = pure [] := rfl
theorem filterM_pat_cons (a : Py.Pat) (l : List Py.Pat) (f : Py.Pat → Py.M Bool) :
    Py.filterM (a :: l) f = f a >>= fun b => Py.filterM l f >>= fun r => pure (if b then a :: r else r) := rfl
theorem anyM_pat_nil (f : Py.Pat → Py.M Bool) : Py.anyM ([] : List Py.Pat) f = pure false := rfl
theorem anyM_pat_cons (a : Py.Pat) (l : List Py.Pat) (f : Py.Pat → Py.M Bool) :
    Py.anyM (a :: l) f = f a >>= fun b => if b then pure true else Py.anyM l f := rfl
theorem allM_pat_nil (f : Py.Pat → Py.M Bool) : Py.allM ([] : List Py.Pat) f = pure true := rfl
theorem allM_pat_cons (a : Py.Pat) (l : List Py.Pat) (f : Py.Pat → Py.M Bool) :
    Py.allM (a :: l) f = f a >>= fun b => if b then Py.allM l f else pure false := rfl

/-! the same over the characters of the name, when the condition cannot raise -/
theorem filterM_pure {α : Type} (l : List α) (p : α → Bool) : Py.filterM l (fun x => (pure (p x))) = pure (l.filter p) := by
  induction l with
  | nil => rfl
  | cons a l ih => simp only [Py.filterM, ih, List.filter_cons]; cases p a <;> rfl
theorem anyM_pure {α : Type} (l : List α) (p : α → Bool) : Py.anyM l (fun x => (pure (p x))) = pure (l.any p) := by
  induction l with
  | nil => rfl
  | cons a l ih => simp only [Py.anyM, ih, List.any_cons]; cases p a <;> rfl
theorem allM_pure {α : Type} (l : List α) (p : α → Bool) : Py.allM l (fun x => (pure (p x))) = pure (l.all p) := by
  induction l with
  | nil => rfl
  | cons a l ih => simp only [Py.allM, ih, List.all_cons]; cases p a <;> rfl

theorem filter_pat_nil (p : Py.Pat → Bool) : ([] : List Py.Pat).filter p = [] := rfl
theorem filter_pat_cons (a : Py.Pat) (l : List Py.Pat) (p : Py.Pat → Bool) :
    (a :: l).filter p = if p a = true then a :: l.filter p else l.filter p := List.filter_cons

theorem isEmpty_ite_cons {α : Type} (b : Bool) (a : α) (r : List α) : (if b = true then a :: r else r).isEmpty = (!b && r.isEmpty) := by
  cases b <;> simp

/-! loops over the characters of the name: the first character on which the body raises decides -/
def errOf (x : Py.M Unit) : Option Py.Err :=
  match x with
  | .ok _ => none
  | .error e => some e
def optCase (o : Option Py.Err) (Q : Prop) (R : Py.Err → Prop) : Prop :=
  match o with
  | none => Q
  | some e => R e

theorem errOf_pure : errOf (pure ()) = none := rfl
theorem errOf_ok : errOf (.ok ()) = none := rfl
theorem errOf_throw (e : Py.Err) : errOf (throw e) = some e := rfl
theorem errOf_error (e : Py.Err) : errOf (.error e) = some e := rfl
theorem errOf_ite (c : Prop) [Decidable c] (x y : Py.M Unit) : errOf (if c then x else y) = if c then errOf x else errOf y := by
  split <;> rfl
theorem errOf_bind (x : Py.M Unit) (f : Unit → Py.M Unit) : errOf (x >>= f) = (errOf x).orElse fun _ => errOf (f ()) := by
  cases x <;> rfl
theorem optCase_none (Q : Prop) (R : Py.Err → Prop) : optCase none Q R = Q := rfl
theorem optCase_some (e : Py.Err) (Q : Prop) (R : Py.Err → Prop) : optCase (some e) Q R = R e := rfl
theorem optCase_ite (c : Prop) [Decidable c] (a b : Option Py.Err) (Q : Prop) (R : Py.Err → Prop) :
    optCase (if c then a else b) Q R = if c then optCase a Q R else optCase b Q R := by
  split <;> rfl

theorem wp_forEach_chars (l : List Char) (body : Unit → Char → Py.M Unit) (Q : Unit → Prop) (R : Py.Err → Prop) :
    wp (Py.forEach l () body) Q R = optCase (l.findSome? fun x => errOf (body () x)) (Q ()) R := by
  unfold Py.forEach
  induction l with
  | nil => rfl
  | cons a l ih =>
    rw [List.foldlM_cons, wp_bind, List.findSome?_cons]
    cases h : body () a with
    | ok u => simp only [wp, errOf]; exact ih
    | error e => simp only [wp, errOf, optCase]

theorem findSome?_ite {α β : Type} (l : List α) (p : α → Bool) (e : β) :
    (l.findSome? fun x => if p x = true then some e else none) = if l.any p = true then some e else none := by
  induction l with
  | nil => rfl
  | cons a l ih =>
    rw [List.findSome?_cons, List.any_cons]
    cases h : p a <;> simp [ih]

theorem findSome?_ite' {α β : Type} (l : List α) (p : α → Bool) (e : β) :
    (l.findSome? fun x => if p x = true then none else some e) = if l.all p = true then none else some e := by
  induction l with
  | nil => rfl
  | cons a l ih =>
    rw [List.findSome?_cons, List.all_cons]
    cases h : p a <;> simp [ih]

theorem isAscii_of_validCont {c : Char} (h : validCont c = true) : Py.isAscii c = true := by
  have := validCont_toNat h
  simp only [Py.isAscii, decide_eq_true_eq]; omega

theorem ne_newline_of_validCont {c : Char} (h : validCont c = true) : c ≠ '\n' := by
  rintro rfl; exact absurd h (by decide)

theorem validCont_lowerChar {c : Char} (h : validCont c = true) : validCont (Rules.lowerChar c) = true := by
  unfold Rules.lowerChar
  split <;> first | decide | exact h

def verdict (s : List Char) : Bool :=
  match s with
  | [] => false
  | c :: rest =>
    validFirst c && (c :: rest).all validCont &&
      !(reservedWords.any fun w => w.toList == lower (c :: rest)) && !matchesPattern (lower (c :: rest))

theorem checkName_eq_verdict (name : String) : checkName name = verdict name.toList := rfl

/-! facts about table entries, as proper rewrite rules (not `rfl`-lemmas: `simp` must rebuild the `Decidable` instances of the
    conditions it rewrites) -/
theorem isStr_str (w : Py.Str) : (Pat.str w).isStr = true := id rfl
theorem isStr_re (r : Rx) (d : Bool) : (Pat.re r d).isStr = false := id rfl
theorem eqStr_str (w s : Py.Str) : (Pat.str w).eqStr s = (w == s) := id rfl
theorem eqStr_re (r : Rx) (d : Bool) (s : Py.Str) : (Pat.re r d).eqStr s = false := id rfl
theorem strInTable_nil (s : Py.Str) : Py.strInTable s [] = false := id rfl
theorem strInTable_cons (s : Py.Str) (p : Py.Pat) (t : List Py.Pat) : Py.strInTable s (p :: t) = (p.eqStr s || Py.strInTable s t) := id rfl

/-! the end of the computation: a decision tree over boolean conditions whose leaves say what the verdict must be -/
theorem ite_push (c v a b : Bool) : (if c = true then v = a else v = b) = (v = bif c then a else b) := by
  cases c <;> rfl
theorem cond_true_left' (c b : Bool) : (bif c then true else b) = (c || b) := by cases c <;> rfl
theorem cond_false_left' (c b : Bool) : (bif c then false else b) = (!c && b) := by cases c <;> rfl
theorem cond_true_right' (c a : Bool) : (bif c then a else true) = (!c || a) := by cases c <;> cases a <;> rfl
theorem cond_false_right' (c a : Bool) : (bif c then a else false) = (c && a) := by cases c <;> cases a <;> rfl

/-- evaluate the weakest precondition of the generated `check_name` under the given facts about the name -/
macro "names_wp" "[" hs:Lean.Parser.Tactic.simpLemma,* "]" : tactic =>
  `(tactic| simp only [Gen.Names.check_name, wp_bind, wp_ite, wp_pure, wp_throw, wp_ok, wp_error, wp_strIndex_cons_zero,
      wp_strIndex_nil, wp_strLower, wp_match_re, wp_match_str, wp_fullmatch_re, wp_fullmatch_str, forEach_pat_nil,
      forEach_pat_cons, filterM_pat_nil, filterM_pat_cons, anyM_pat_nil, anyM_pat_cons, allM_pat_nil, allM_pat_cons,
      wp_forEach_chars, errOf_pure, errOf_ok, errOf_throw, errOf_error, errOf_ite, errOf_bind, findSome?_ite, findSome?_ite',
      optCase_none, optCase_some, optCase_ite, charIn_first, charIn_cont, List.isEmpty_cons, List.isEmpty_nil,
      Bool.false_eq_true, Bool.not_true, Bool.not_false, Bool.not_not, if_false, if_true, isStr_str, isStr_re, eqStr_str, eqStr_re,
      strInTable_nil, strInTable_cons, Option.isSome_none, Option.isNone_none, Option.isSome_some, Option.isNone_some,
      isEmpty_ite_cons, filterM_pure, anyM_pure, allM_pure, filter_pat_cons, filter_pat_nil, List.head?_cons, List.head?_nil, $hs,*])

theorem check_name_list (s : List Char) :
    Gen.Names.check_name s = if verdict s then .ok () else .error E := by
  apply eq_of_wp
  cases s with
  | nil =>
    names_wp []
    simp [E, verdict]
  | cons c rest =>
    by_cases hf : validFirst c = true
    · by_cases hall : (c :: rest).all validCont = true
      · have h1 : (c :: rest).any (fun ch => !validCont ch) = false := by
          rw [List.any_eq_false]; intro x hx; simpa using List.all_eq_true.mp hall x hx
        have h2 : (c :: rest).filter (fun ch => !validCont ch) = [] := by
          rw [List.filter_eq_nil_iff]; intro x hx; simpa using List.all_eq_true.mp hall x hx
        have h3 : (c :: rest).find? (fun ch => !validCont ch) = none := by
          rw [List.find?_eq_none]; intro x hx; simpa using List.all_eq_true.mp hall x hx
        have hasc : (c :: rest).all Py.isAscii = true :=
          List.all_eq_true.mpr fun x hx => isAscii_of_validCont (List.all_eq_true.mp hall x hx)
        have hclean : ∀ x ∈ lower (c :: rest), validCont x = true := by
          intro x hx
          obtain ⟨y, hy, rfl⟩ := List.mem_map.mp hx
          exact validCont_lowerChar (List.all_eq_true.mp hall y hy)
        have hasc' : (lower (c :: rest)).all Py.isAscii = true :=
          List.all_eq_true.mpr fun x hx => isAscii_of_validCont (hclean x hx)
        have hnl : ∀ x ∈ lower (c :: rest), x ≠ '\n' := fun x hx => ne_newline_of_validCont (hclean x hx)
        have hlast : (lower (c :: rest)).getLast? ≠ some '\n' := fun h => hnl _ (List.mem_of_getLast? h) rfl
        names_wp [hf, h1, h2, h3, hall, hasc, hasc']
        -- a tree of `if`s whose leaves are `verdict = true` (falls off the end) / `InvalidNameError ∧ verdict = false`
        simp only [E, true_and, ite_push]
        -- both sides in negation normal form over the same atoms: words `w == n` and the model's matchers
        simp only [verdict, hf, hall, reservedWords, matchesPattern, List.any_cons, List.any_nil, pyMatch_dollar_eq _ _ hlast,
          pat_void, pat_int, pat_q, pat_float, pat_com, pat_lpt, pat_underscores _ hnl, String.reduceToList,
          cond_true_left', cond_false_left', cond_true_right', cond_false_right', Bool.not_or, Bool.not_and, Bool.not_not,
          Bool.not_true, Bool.not_false, Bool.or_false, Bool.false_or, Bool.and_true, Bool.true_and, Bool.or_true, Bool.true_or,
          Bool.and_false, Bool.false_and]
        ac_rfl
      · have hall' : (c :: rest).all validCont = false := by simpa using hall
        have h1 : (c :: rest).any (fun ch => !validCont ch) = true := by
          rw [List.any_eq_true]
          simp only [List.all_eq_true, not_forall] at hall
          obtain ⟨x, hx, hv⟩ := hall
          exact ⟨x, hx, by simpa using hv⟩
        have h2 : ((c :: rest).filter (fun ch => !validCont ch)).isEmpty = false := by
          rw [List.isEmpty_eq_false_iff, Ne, List.filter_eq_nil_iff]
          intro h
          obtain ⟨x, hx, hv⟩ := List.any_eq_true.mp h1
          exact h x hx hv
        have h3 : ((c :: rest).find? (fun ch => !validCont ch)).isSome = true := by
          rw [List.find?_isSome]; exact List.any_eq_true.mp h1
        have h3' : ((c :: rest).find? (fun ch => !validCont ch)).isNone = false := by
          rw [← Option.not_isSome, h3]; rfl
        names_wp [hf, h1, h2, h3, h3', hall']
        simp [E, verdict, hall']
    · have hf' : validFirst c = false := by simpa using hf
      names_wp [hf']
      simp [E, verdict, hf']

/-- what one entry of a table does with the (lower-cased) name -/
def hits (n : List Char) : Py.Pat → Bool
  | .str w => w == n
  | .re r dollar => r.pyMatch dollar n

/-- Every string and pattern `check_name` consults (`Gen.Names.reserved`: the entries of the module-level tables it uses, parsed
    from the source) - together they hit a name of valid characters exactly when the model's word list or one of its hand-written
    matchers does. -/
theorem table_any (n : List Char) (hclean : ∀ x ∈ n, validCont x = true) :
    Gen.Names.reserved.any (hits n) = ((reservedWords.any fun w => w.toList == n) || matchesPattern n) := by
  have hnl : ∀ x ∈ n, x ≠ '\n' := fun x hx => ne_newline_of_validCont (hclean x hx)
  have hlast : n.getLast? ≠ some '\n' := fun h => hnl _ (List.mem_of_getLast? h) rfl
  simp only [Gen.Names.reserved, reservedWords, matchesPattern, List.any_cons, List.any_nil, hits,
    pyMatch_dollar_eq _ _ hlast, pat_void, pat_int, pat_q, pat_float, pat_com, pat_lpt, pat_underscores n hnl, Bool.or_false,
    String.reduceToList]
  ac_rfl

/-- the same for the model's `checkName : String → Bool` -/
theorem check_name_eq (name : String) :
    Gen.Names.check_name name.toList = if checkName name then .ok () else .error E := by
  rw [checkName_eq_verdict]; exact check_name_list name.toList

end Bridge.Names
