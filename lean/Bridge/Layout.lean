import Gen.Layout
import Props.C02
import Bridge.Basic
/-!
  Bridge between the layout code GENERATED from `pydsdl/_serializable/_array.py` and `_composite.py`
  (`Gen/Layout.lean`, rewritten by `tools/py2lean.py` from the working tree of /repo on every run) and the hand-written
  model `Model/Layout.lean`.

  Every generated definition is a whole method or a constructor slice, parameterised by what it reads from `self`; a
  serializable type is the record `TypeI`.  One lemma per definition shows that on constructible types it returns
  normally -- no `if …: raise` guard and no `assert` fires -- with exactly the model's value; `genTy` ties the knot over
  the type tree and `genTy_ok` is the statement for whole types.
-/
set_option linter.unusedSimpArgs false
set_option linter.unusedVariables false
open Bls Layout

namespace Bridge
open Robust

/-- reducible: a comparison under `decide` keeps its `Decidable` instance when `(tyI t).extent` is rewritten to `t.extent` -/
@[reducible] def tyI (t : Ty) : TypeI := ⟨t.align, t.bls, t.extent⟩

theorem tyI_align (t : Ty) : (tyI t).alignment_requirement = t.align := rfl
theorem tyI_bls (t : Ty) : (tyI t).bit_length_set = t.bls := rfl
theorem tyI_extent (t : Ty) : (tyI t).extent = t.extent := rfl

/-! ### Arithmetic of the prefix / tag widths, in either spelling

  `2 ** math.ceil(math.log2(x))` and `1 << (x - 1).bit_length()` are both `nextPow2 x` for `x ≥ 1` (the second identity is
  proved here, not assumed: `two_pow_bitLength_pred`). -/

theorem pow_ceilLog2Aux (x f e p : Nat) (hp : p = 2 ^ e) : 2 ^ Py.ceilLog2Aux x f e p = nextPow2Aux x f p := by
  induction f generalizing e p with
  | zero => simp [Py.ceilLog2Aux, nextPow2Aux, hp]
  | succ f ih =>
    simp only [Py.ceilLog2Aux, nextPow2Aux]
    split
    · exact hp.symm
    · exact ih (e + 1) (2 * p) (by rw [hp, Nat.pow_succ]; omega)

theorem two_pow_ceilLog2 (x : Nat) : 2 ^ Py.ceilLog2Aux x x 0 1 = nextPow2 x := pow_ceilLog2Aux x x 0 1 rfl

theorem ceilLog2_ok (x : Nat) (hx : 1 ≤ x) : ∃ e, Py.ceilLog2 x = .ok e ∧ 2 ^ e = nextPow2 x :=
  ⟨_, ceilLog2_pos hx, two_pow_ceilLog2 x⟩

theorem nextPow2Aux_eq (x f e k : Nat) (hk : x ≤ 2 ^ k) (hmin : ∀ j, j < k → 2 ^ j < x) (he : e ≤ k) (hf : k ≤ e + f) :
    nextPow2Aux x f (2 ^ e) = 2 ^ k := by
  induction f generalizing e with
  | zero => have : e = k := by omega
            subst this; rfl
  | succ f ih =>
    simp only [nextPow2Aux]
    split
    · next hle =>
      have : ¬ e < k := fun hlt => absurd (hmin e hlt) (by omega)
      have : e = k := by omega
      subst this; rfl
    · next hnle =>
      have hlt : e < k := by
        by_contra hge
        have : 2 ^ k ≤ 2 ^ e := Nat.pow_le_pow_right (by omega) (by omega)
        omega
      have h2 : 2 * 2 ^ e = 2 ^ (e + 1) := by rw [Nat.pow_succ]; omega
      rw [h2]
      exact ih (e + 1) (by omega) (by omega)

theorem bitLength_eq (n : Nat) : Py.bitLength n = Layout.bitLength n := rfl

/-- `1 << (x - 1).bit_length()` is the least power of two that is `≥ x`, for every `x ≥ 1` -/
theorem two_pow_bitLength_pred (x : Nat) (hx : 1 ≤ x) : 2 ^ Py.bitLength (x - 1) = nextPow2 x := by
  rw [bitLength_eq]
  have hk : x ≤ 2 ^ Layout.bitLength (x - 1) := by
    have := (bitLength_le_iff (x - 1) (Layout.bitLength (x - 1))).mp (Nat.le_refl _)
    omega
  have hmin : ∀ j, j < Layout.bitLength (x - 1) → 2 ^ j < x := by
    intro j hj
    have : ¬ (x - 1 < 2 ^ j) := fun h => absurd ((bitLength_le_iff (x - 1) j).mpr h) (by omega)
    omega
  have hf : Layout.bitLength (x - 1) ≤ 0 + x := by
    have : x - 1 < 2 ^ x := by
      have := @Nat.lt_two_pow_self x
      omega
    have := (bitLength_le_iff (x - 1) x).mpr this
    omega
  symm
  exact nextPow2Aux_eq x x 0 _ hk hmin (Nat.zero_le _) hf

theorem foldl_max_align (a : Nat) (fs : List Ty) : fs.foldl (fun r x => max r x.align) a = max a (maxAlign fs) := by
  induction fs generalizing a with
  | nil => simp [maxAlign]
  | cons f fs ih => simp only [List.foldl_cons, maxAlign, ih]; omega

/-! ### PyLib operations at an alignment: never zero -/

theorem blsPad_align (a : Op) (t : Ty) : Py.blsPad a t.align = .ok (.pad a t.align) := blsPad_pos a (one_le_align t)
theorem isAligned_align (a : Op) (t : Ty) : Py.blsIsAlignedAt a t.align = .ok (isAlignedAt a t.align) := isAligned_pos a (one_le_align t)
theorem mod_align (a : Nat) (t : Ty) : Py.mod a t.align = .ok (a % t.align) := mod_pos (one_le_align t) a
theorem floordiv_align (a : Nat) (t : Ty) : Py.floordiv a t.align = .ok (a / t.align) := floordiv_pos (one_le_align t) a
theorem blsPad_ok (a : Op) {n : Nat} (hn : 1 ≤ n) : Py.blsPad a n = .ok (.pad a n) := blsPad_pos a hn
theorem isAligned_ok (a : Op) {d : Nat} (hd : 1 ≤ d) : Py.blsIsAlignedAt a d = .ok (isAlignedAt a d) := isAligned_pos a hd

/-- the layout instance of `py_simp`: widths in either spelling, alignments are positive.  (`Py.bitLength` is kept as it is: rewriting it
    under a `decide` would leave the `Decidable` instance behind; the model's `Layout.bitLength` is turned into it instead.) -/
macro "layout_simp" "[" ts:Lean.Parser.Tactic.simpLemma,* "]" : tactic =>
  `(tactic| py_simp [tyI, two_pow_ceilLog2, two_pow_bitLength_pred, foldl_max_align,
      blsPad_align, isAligned_align, mod_align, floordiv_align, $ts,*])

theorem alignment_requirement_ok (fs : List Ty) :
    Gen.CompositeType.alignment_requirement (fs.map tyI) = .ok (max 8 (maxAlign fs)) := by
  unfold Gen.CompositeType.alignment_requirement
  layout_simp []

theorem tagBits_mem (fs : List Ty) (h64 : tagBits fs ≤ 64) : tagBits fs = 8 ∨ tagBits fs = 16 ∨ tagBits fs = 32 ∨ tagBits fs = 64 := by
  have hs : stdWidth (fs.length - 1) ≤ 64 := le_trans (Nat.le_max_left _ _) h64
  have := stdWidth_mem _ hs
  have hm : maxAlign fs ≤ 8 := maxAlign_le fs (fun f _ => align_cases f)
  simp only [tagBits, List.mem_cons, List.not_mem_nil, or_false] at this ⊢
  omega

/-- `_compute_tag_bit_length` returns the model's tag width whenever the union is constructible (≥ 2 variants, tag ≤ 64 bits). -/
theorem compute_tag_ok (fs : List Ty) (h2 : 2 ≤ fs.length) (h64 : tagBits fs ≤ 64) :
    Gen.UnionType.compute_tag_bit_length (fs.map tyI) = .ok (tagBits fs) := by
  have hmem := tagBits_mem fs h64
  simp only [tagBits, stdWidth, ← bitLength_eq] at hmem ⊢
  unfold Gen.UnionType.compute_tag_bit_length
  layout_simp []


theorem foldl_aggStruct (fs : List Ty) (acc : Op) :
    fs.foldl (fun acc x => Op.cat [.pad acc x.align, x.bls]) acc = aggStructFrom acc fs := by
  induction fs generalizing acc with
  | nil => simp [aggStructFrom]
  | cons f fs ih => simp only [List.foldl_cons, aggStructFrom]; exact ih _

theorem aggStruct_ok (fs : List Ty) :
    Gen.StructureType.aggregate_bit_length_sets (fs.map tyI) = .ok (aggStruct fs) := by
  unfold Gen.StructureType.aggregate_bit_length_sets
  cases fs with
  | nil => layout_simp [aggStruct]
  | cons f fs => layout_simp [aggStruct, foldl_aggStruct]

theorem struct_bls_ok (fs : List Ty) :
    Gen.StructureType.bls (max 8 (maxAlign fs)) (fs.map tyI) = .ok (Ty.bls (.struct fs)) := by
  unfold Gen.StructureType.bls
  layout_simp [aggStruct_ok, Ty.bls]

theorem blsList_eq' (fs : List Ty) : blsList fs = fs.map (fun x => x.bls) := blsList_eq fs

theorem aggUnion_ok (fs : List Ty) (h2 : 2 ≤ fs.length) (h64 : tagBits fs ≤ 64) :
    Gen.UnionType.aggregate_bit_length_sets (fs.map tyI) = .ok (aggUnion fs) := by
  match fs, h2, h64 with
  | f :: g :: fs, h2, h64 =>
    have ht := compute_tag_ok _ h2 h64
    unfold Gen.UnionType.aggregate_bit_length_sets
    simp only [List.map_cons] at ht
    layout_simp [ht, aggUnion, blsList_eq']

theorem union_bls_ok (fs : List Ty) (h2 : 2 ≤ fs.length) (h64 : tagBits fs ≤ 64) :
    Gen.UnionType.bls (max 8 (maxAlign fs)) (fs.map tyI) = .ok (Ty.bls (.union fs)) := by
  unfold Gen.UnionType.bls
  layout_simp [aggUnion_ok fs h2 h64, Ty.bls]

theorem farr_bls_ok (e : Ty) (cap : Nat) (h : (Ty.farr e cap).wf = true) :
    Gen.FixedLengthArrayType.bls (tyI e) cap = .ok (Ty.bls (.farr e cap)) := by
  have ha := C02.constructor_asserts _ h
  simp only [ctorAssertsOk, Ty.bls] at ha
  unfold Gen.FixedLengthArrayType.bls
  layout_simp [ha, Ty.bls]

theorem varr_bls_ok (e : Ty) (cap : Nat) (h : (Ty.varr e cap).wf = true) :
    Gen.VariableLengthArrayType.bls (tyI e) cap = .ok (Ty.bls (.varr e cap)) := by
  have ha := C02.constructor_asserts _ h
  simp only [ctorAssertsOk, Ty.bls, Bool.and_eq_true, decide_eq_true_eq] at ha
  simp only [lenBits, stdWidth, ← bitLength_eq] at ha
  obtain ⟨ha1, ha2⟩ := ha
  have hpos := one_le_align e
  unfold Gen.VariableLengthArrayType.bls
  simp only [Ty.bls, lenBits, stdWidth, ← bitLength_eq]
  layout_simp [max_comm' e.align, ha1, ha2]

theorem length_field_ok (e : Ty) (cap : Nat) (h : (Ty.varr e cap).wf = true) :
    Gen.VariableLengthArrayType.length_field_length (tyI e) cap = .ok (lenBits e cap) := by
  have ha := C02.constructor_asserts _ h
  simp only [ctorAssertsOk, Ty.bls, Bool.and_eq_true, decide_eq_true_eq] at ha
  simp only [lenBits, stdWidth, ← bitLength_eq] at ha
  obtain ⟨ha1, ha2⟩ := ha
  have hpos := one_le_align e
  unfold Gen.VariableLengthArrayType.length_field_length
  simp only [lenBits, stdWidth, ← bitLength_eq]
  layout_simp [max_comm' e.align, ha1, ha2]

theorem delim_bls_ok (inner : Ty) (ext : Nat) (h : (Ty.delim inner ext).wf = true) :
    Gen.DelimitedType.bls inner.align (tyI inner) ext = .ok (Ty.bls (.delim inner ext)) := by
  have ha := C02.constructor_asserts _ h
  simp only [ctorAssertsOk, Bool.and_eq_true, decide_eq_true_eq] at ha
  obtain ⟨⟨⟨⟨⟨h8, hal⟩, hext⟩, ha8⟩, haa⟩, hmax⟩ := ha
  have hpos := one_le_align inner
  have hext' : inner.extent ≤ ext := by
    simp only [Ty.wf, Bool.and_eq_true, decide_eq_true_eq] at h
    have : inner.extent = inner.bls.max := by
      obtain ⟨⟨⟨_, hk⟩, _⟩, _⟩ := h
      cases inner <;> simp_all [Ty.extent]
    omega
  have hbls : Ty.bls (.delim inner ext) = Op.cat [.leaf [max 32 inner.align], .rrep (.leaf [inner.align]) (ext / inner.align)] := by
    simp only [Ty.bls, hdrBits]
  rw [hbls] at ha8 haa hmax ⊢
  simp only [hdrBits] at hmax
  have hm : (Op.cat [Op.leaf [max 32 inner.align], (Op.leaf [inner.align]).rrep (ext / inner.align)]).max
      = max 32 inner.align + inner.align * (ext / inner.align) := by
    simp [Op.max, sumMax, maxL]
  rw [hm] at hmax
  unfold Gen.DelimitedType.bls
  layout_simp [max_comm' inner.align, ha8, haa, hm]

theorem foldl_structOffsets (fs : List Ty) (cur : Op) (ys : List Op) :
    (fs.foldl (fun (st : Op × List Op) t => (Op.cat [Op.pad st.1 t.align, t.bls], st.2 ++ [Op.pad st.1 t.align])) (cur, ys)).2
      = ys ++ structOffsetsFrom cur fs := by
  induction fs generalizing cur ys with
  | nil => simp [structOffsetsFrom]
  | cons f fs ih =>
    simp only [List.foldl_cons, structOffsetsFrom]
    rw [ih]
    simp

theorem struct_iterate_ok (fs : List Ty) (base : Op) :
    Gen.StructureType.iterate_fields_with_offsets (max 8 (maxAlign fs)) (fs.map tyI) base
      = .ok (fieldOffsets base (.struct fs)) := by
  unfold Gen.StructureType.iterate_fields_with_offsets
  layout_simp [foldl_structOffsets, fieldOffsets]

open scoped Pointwise in
theorem aligned_cat2 (a b : Op) (ha : a.wf = true) (hb : b.wf = true) (d : Nat) (hd : 1 ≤ d)
    (h1 : ∀ x ∈ den a, d ∣ x) (h2 : ∀ x ∈ den b, d ∣ x) : isAlignedAt (.cat [a, b]) d = true := by
  have hw : (Op.cat [a, b]).wf = true := by simp [Op.wf, wfs, ha, hb]
  rw [C01.aligned_exact _ hw d hd]
  intro x hx
  simp only [den, denSum] at hx
  obtain ⟨y, hy, z, hz, rfl⟩ := Finset.mem_add.mp hx
  obtain ⟨z', hz', w, hw', rfl⟩ := Finset.mem_add.mp hz
  simp only [Finset.mem_singleton] at hw'
  subst hw'
  exact Dvd.dvd.add (h1 y hy) (by simpa using h2 z' hz')

theorem dvd_pad (base : Op) (a d : Nat) (hda : d ∣ a) : ∀ x ∈ den (Op.pad base a), d ∣ x := by
  intro x hx
  simp only [den, Finset.mem_image] at hx
  obtain ⟨y, _, rfl⟩ := hx
  exact Dvd.dvd.trans hda (padTo_dvd a y)

theorem foldl_append_const {α β : Type} (l : List α) (o : β) (ys : List β) :
    l.foldl (fun ys _ => ys ++ [o]) ys = ys ++ l.map (fun _ => o) := by
  induction l generalizing ys with
  | nil => simp
  | cons a l ih => simp [ih]

theorem foldl_append_map {α β : Type} (l : List α) (g : α → β) (ys : List β) :
    l.foldl (fun ys x => ys ++ [g x]) ys = ys ++ l.map g := by
  induction l generalizing ys with
  | nil => simp
  | cons a l ih => simp [ih]

theorem union_iterate_ok (fs : List Ty) (base : Op) (hb : base.wf = true) (h64 : tagBits fs ≤ 64) :
    Gen.UnionType.iterate_fields_with_offsets (max 8 (maxAlign fs)) (tagBits fs) (fs.map tyI) base
      = .ok (fieldOffsets base (.union fs)) := by
  have h8 : max 8 (maxAlign fs) = 8 := comp_align fs
  have htag := tagBits_mem fs h64
  have hal : ∀ f : Ty, isAlignedAt (Op.cat [Op.pad base (max 8 (maxAlign fs)), Op.leaf [tagBits fs]]) f.align = true := by
    intro f
    have hfd : f.align ∣ 8 := by rcases align_cases f with h | h <;> simp [h]
    apply aligned_cat2 _ _ (by simp [Op.wf, hb]) (by simp [Op.wf]) _ (one_le_align f)
    · exact dvd_pad base _ _ (by rw [h8]; exact hfd)
    · intro x hx
      simp only [den, List.toFinset_cons, List.toFinset_nil, insert_empty_eq, Finset.mem_singleton] at hx
      subst hx
      apply Dvd.dvd.trans hfd
      rcases htag with h | h | h | h <;> simp [h]
  unfold Gen.UnionType.iterate_fields_with_offsets
  layout_simp [hal, foldl_append_const, fieldOffsets]

/-- `DelimitedType.iterate_fields_with_offsets` delegates to the inner type with the header added to the base. -/
theorem delim_iterate_ok (hdr : Op) (inner : Op → Py.M (List Op)) (base : Op) :
    Gen.DelimitedType.iterate_fields_with_offsets hdr inner base = inner (Op.cat [base, hdr]) := by
  unfold Gen.DelimitedType.iterate_fields_with_offsets
  layout_simp []

theorem delim_struct_iterate_ok (fs : List Ty) (ext : Nat) (base : Op) :
    Gen.DelimitedType.iterate_fields_with_offsets (Op.leaf [hdrBits (.struct fs)])
        (Gen.StructureType.iterate_fields_with_offsets (max 8 (maxAlign fs)) (fs.map tyI)) base
      = .ok (fieldOffsets base (.delim (.struct fs) ext)) := by
  rw [delim_iterate_ok, struct_iterate_ok]
  simp only [fieldOffsets]

theorem delim_union_iterate_ok (fs : List Ty) (ext : Nat) (base : Op) (hb : base.wf = true) (h64 : tagBits fs ≤ 64) :
    Gen.DelimitedType.iterate_fields_with_offsets (Op.leaf [hdrBits (.union fs)])
        (Gen.UnionType.iterate_fields_with_offsets (max 8 (maxAlign fs)) (tagBits fs) (fs.map tyI)) base
      = .ok (fieldOffsets base (.delim (.union fs) ext)) := by
  rw [delim_iterate_ok, union_iterate_ok _ _ (by simp [Op.wf, wfs, hb]) h64]
  simp only [fieldOffsets]

open scoped Pointwise in
theorem elements_ok (e : Ty) (cap : Nat) (base : Op) (he : e.wf = true) (hb : base.wf = true) :
    Gen.FixedLengthArrayType.enumerate_elements_with_offsets (tyI e) cap base = .ok (elementOffsets base e cap) := by
  have hal : ∀ i : Nat, isAlignedAt (Op.cat [Op.pad base e.align, Op.rep e.bls i]) e.align = true := by
    intro i
    apply aligned_cat2 _ _ (by simp [Op.wf, hb, one_le_align e]) (by simp [Op.wf, bls_wf e he]) _ (one_le_align e)
    · exact dvd_pad base _ _ (dvd_refl _)
    · intro x hx
      simp only [den] at hx
      exact dvd_of_mem_nsmul _ _ _ (fun y hy => align_dvd_len e he y (by rw [← den_bls e he]; exact hy)) x hx
  unfold Gen.FixedLengthArrayType.enumerate_elements_with_offsets
  layout_simp [hal, foldl_append_map, elementOffsets]

/-! ### The knot: the object graph of a type, built with the generated constructors -/

mutual
/-- What the constructors of `_serializable` compute for a type tree (alignment, bit length set, extent), using the
    generated slices for every array / composite node.  Primitive and void types are `BitLengthSet(bit_length)`, alignment 1. -/
def genTy : Ty → Py.M TypeI
  | .prim n => pure ⟨1, .leaf [n], n⟩
  | .void n => pure ⟨1, .leaf [n], n⟩
  | .farr e cap => do
      let ei ← genTy e
      let b ← Gen.FixedLengthArrayType.bls ei cap
      pure ⟨ei.alignment_requirement, b, b.max⟩
  | .varr e cap => do
      let ei ← genTy e
      let b ← Gen.VariableLengthArrayType.bls ei cap
      pure ⟨ei.alignment_requirement, b, b.max⟩
  | .struct fs => do
      let fi ← genTys fs
      let a ← Gen.CompositeType.alignment_requirement fi
      let b ← Gen.StructureType.bls a fi
      pure ⟨a, b, b.max⟩
  | .union fs => do
      let fi ← genTys fs
      let a ← Gen.CompositeType.alignment_requirement fi
      let b ← Gen.UnionType.bls a fi
      pure ⟨a, b, b.max⟩
  | .delim inner ext => do
      let ii ← genTy inner
      let b ← Gen.DelimitedType.bls ii.alignment_requirement ii ext
      pure ⟨ii.alignment_requirement, b, ext⟩
def genTys : List Ty → Py.M (List TypeI)
  | [] => pure []
  | f :: fs => do
      let fi ← genTy f
      let rest ← genTys fs
      pure (fi :: rest)
end

theorem extent_sealed (t : Ty) (h : ∀ i e, t ≠ .delim i e) : t.extent = t.bls.max := by
  cases t <;> simp_all [Ty.extent]

theorem genTys_ok (fs : List Ty) (h : ∀ f ∈ fs, genTy f = .ok (tyI f)) : genTys fs = .ok (fs.map tyI) := by
  induction fs with
  | nil => rfl
  | cons f fs ih =>
    simp only [genTys, h f (by simp), ok_bind, ih (fun g hg => h g (by simp [hg])), pure_eq_ok, List.map_cons]

/-- For every constructible type, building it with the generated constructor slices succeeds (no guard, no assert fires)
    and yields the model's alignment, bit length set expression and extent. -/
theorem genTy_ok : ∀ t : Ty, t.wf = true → genTy t = .ok (tyI t) := by
  intro t
  induction t using Ty.induct with
  | prim n => intro _; simp only [genTy, pure_eq_ok, tyI, Ty.align, Ty.bls, Ty.extent, Op.max, maxL, List.foldl_nil]
  | void n => intro _; simp only [genTy, pure_eq_ok, tyI, Ty.align, Ty.bls, Ty.extent, Op.max, maxL, List.foldl_nil]
  | farr e cap ih =>
    intro h
    have he : e.wf = true := by simp only [Ty.wf, Bool.and_eq_true] at h; exact h.1
    simp only [genTy, ih he, ok_bind, farr_bls_ok e cap h, pure_eq_ok, tyI_align]
    simp only [tyI, Ty.align, extent_sealed (.farr e cap) (by intros; simp)]
  | varr e cap ih =>
    intro h
    have he : e.wf = true := by simp only [Ty.wf, Bool.and_eq_true] at h; exact h.1.1
    simp only [genTy, ih he, ok_bind, varr_bls_ok e cap h, pure_eq_ok, tyI_align]
    simp only [tyI, Ty.align, extent_sealed (.varr e cap) (by intros; simp)]
  | struct fs ih =>
    intro h
    have hf : ∀ f ∈ fs, f.wf = true := by simpa only [Ty.wf, wfList_iff] using h
    simp only [genTy, genTys_ok fs (fun f hf' => ih f hf' (hf f hf')), ok_bind, alignment_requirement_ok, struct_bls_ok, pure_eq_ok]
    simp only [tyI, Ty.align, extent_sealed (.struct fs) (by intros; simp)]
  | union fs ih =>
    intro h
    simp only [Ty.wf, Bool.and_eq_true, wfList_iff, decide_eq_true_eq] at h
    obtain ⟨⟨hf, h2⟩, h64⟩ := h
    simp only [genTy, genTys_ok fs (fun f hf' => ih f hf' (hf f hf')), ok_bind, alignment_requirement_ok, union_bls_ok fs h2 h64, pure_eq_ok]
    simp only [tyI, Ty.align, extent_sealed (.union fs) (by intros; simp)]
  | delim inner ext ih =>
    intro h
    have hi : inner.wf = true := by simp only [Ty.wf, Bool.and_eq_true] at h; exact h.1.1.1
    simp only [genTy, ih hi, ok_bind, tyI_align, delim_bls_ok inner ext h, pure_eq_ok]
    simp only [tyI, Ty.align, Ty.extent]

end Bridge
