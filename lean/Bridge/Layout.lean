import Gen.Layout
import Props.C02
import Bridge.Basic
/-!
  Bridge between the layout code GENERATED from `pydsdl/_serializable/_array.py` and `_composite.py`
  (`Gen/Layout.lean`, rewritten by `tools/py2lean.py` from the working tree of /repo on every run) and the hand-written
  model `Model/Layout.lean`.

  Every generated definition is a whole method or a constructor slice, parameterised by what it reads from `self`; a
  serializable type is the record `TypeI`.  One lemma per definition shows that on constructible types it returns
  normally -- no `if …: raise` guard and no `assert` fires -- with exactly the model's value; `genTy` ties the knot over
  the type tree and `genTy_ok` is the statement for whole types.
-/
set_option linter.unusedSimpArgs false
set_option linter.unusedVariables false
open Bls Layout

namespace Bridge

def tyI (t : Ty) : TypeI := ⟨t.align, t.bls, t.extent⟩

theorem pow_ceilLog2Aux (x f e p : Nat) (hp : p = 2 ^ e) : 2 ^ Py.ceilLog2Aux x f e p = nextPow2Aux x f p := by
  induction f generalizing e p with
  | zero => simp [Py.ceilLog2Aux, nextPow2Aux, hp]
  | succ f ih =>
    simp only [Py.ceilLog2Aux, nextPow2Aux]
    split
    · exact hp.symm
    · exact ih (e + 1) (2 * p) (by rw [hp, Nat.pow_succ]; omega)

theorem ceilLog2_ok (x : Nat) (hx : 1 ≤ x) : ∃ e, Py.ceilLog2 x = .ok e ∧ 2 ^ e = nextPow2 x := by
  refine ⟨Py.ceilLog2Aux x x 0 1, ?_, pow_ceilLog2Aux x x 0 1 rfl⟩
  unfold Py.ceilLog2; rw [if_neg (by omega)]; rfl

theorem foldl_max_maxAlign (a : Nat) (fs : List Ty) : (fs.map Ty.align).foldl max a = max a (maxAlign fs) := by
  induction fs generalizing a with
  | nil => simp [maxAlign]
  | cons f fs ih => simp only [List.map_cons, List.foldl_cons, maxAlign, ih]; omega

theorem maxOf_cons_map (a : Nat) (fs : List Ty) : Py.maxOf ([a] ++ fs.map Ty.align) = .ok (max a (maxAlign fs)) := by
  have : [a] ++ fs.map Ty.align ≠ [] := by simp
  rw [maxOf_ne_nil this]
  simp only [maxL, List.singleton_append, foldl_max_maxAlign]

theorem alignment_requirement_ok (fs : List Ty) :
    Gen.CompositeType.alignment_requirement (fs.map tyI) = .ok (max 8 (maxAlign fs)) := by
  simp only [Gen.CompositeType.alignment_requirement, List.map_map, Function.comp_def, tyI]
  rw [maxOf_cons_map]

theorem bitLength_eq (n : Nat) : Py.bitLength n = Layout.bitLength n := rfl

/-- `_compute_tag_bit_length` returns the model's tag width whenever the union is constructible (≥ 2 variants, tag ≤ 64 bits). -/
theorem compute_tag_ok (fs : List Ty) (h2 : 2 ≤ fs.length) (h64 : tagBits fs ≤ 64) :
    Gen.UnionType.compute_tag_bit_length (fs.map tyI) = .ok (tagBits fs) := by
  obtain ⟨e, he, hpow⟩ := ceilLog2_ok (max 8 (Layout.bitLength (fs.length - 1))) (by omega)
  have hmem : tagBits fs ∈ [8, 16, 32, 64] := by
    have hs : stdWidth (fs.length - 1) ≤ 64 := le_trans (Nat.le_max_left _ _) h64
    have := stdWidth_mem _ hs
    have hm : maxAlign fs ≤ 8 := maxAlign_le fs (fun f _ => align_cases f)
    simp only [tagBits, List.mem_cons, List.not_mem_nil, or_false] at this ⊢
    omega
  have hdec : ((tagBits fs == 8) || (tagBits fs == 16) || (tagBits fs == 32) || (tagBits fs == 64)) = true := by
    simp only [List.mem_cons, List.not_mem_nil, or_false] at hmem
    rcases hmem with h | h | h | h <;> simp [h]
  simp only [Gen.UnionType.compute_tag_bit_length, List.length_map, show decide (fs.length > 1) = true by simp; omega,
    assert_true, ok_bind, pure_eq_ok, sub_le (show 1 ≤ fs.length by omega), bitLength_eq, he, hpow, List.map_map, Function.comp_def,
    tyI, maxOf_cons_map]
  have : max (nextPow2 (max 8 (Layout.bitLength (fs.length - 1)))) (maxAlign fs) = tagBits fs := rfl
  simp only [this, hdec, assert_true, ok_bind]

theorem blsPad_ok (a : Op) {n : Nat} (hn : 1 ≤ n) : Py.blsPad a n = .ok (.pad a n) := by
  unfold Py.blsPad; rw [if_neg (by omega)]; rfl

theorem foldl_aggStruct (fs : List Ty) (acc : Op) :
    (fs.map tyI).foldl (fun acc t => Op.cat [.pad acc t.alignment_requirement, t.bit_length_set]) acc = aggStructFrom acc fs := by
  induction fs generalizing acc with
  | nil => simp [aggStructFrom]
  | cons f fs ih => simp only [List.map_cons, List.foldl_cons, aggStructFrom, tyI] at ih ⊢; exact ih _

theorem aggStruct_ok (fs : List Ty) :
    Gen.StructureType.aggregate_bit_length_sets (fs.map tyI) = .ok (aggStruct fs) := by
  cases fs with
  | nil => simp [Gen.StructureType.aggregate_bit_length_sets, Py.forEach, aggStruct, Py.blsOfInt]
  | cons f fs =>
    simp only [Gen.StructureType.aggregate_bit_length_sets, List.length_map, List.length_cons, show decide (fs.length + 1 > 0) = true by simp,
      if_true, List.map_cons, Py.index, List.getElem?_cons_zero, ok_bind, pure_eq_ok, List.drop_succ_cons, List.drop_zero]
    rw [forEach_ok _ _ _ (fun acc t => Op.cat [.pad acc t.alignment_requirement, t.bit_length_set])]
    · simp only [ok_bind, foldl_aggStruct, aggStruct, tyI]
    · intro t ht acc
      obtain ⟨g, _, rfl⟩ := List.mem_map.mp ht
      simp only [tyI, blsPad_ok _ (one_le_align g), ok_bind, pure_eq_ok, Py.blsAdd]

theorem struct_bls_ok (fs : List Ty) :
    Gen.StructureType.bls (max 8 (maxAlign fs)) (fs.map tyI) = .ok (Ty.bls (.struct fs)) := by
  simp only [Gen.StructureType.bls, List.map_map, Function.comp_def, List.map_id']
  have : (fs.map fun x => tyI x) = fs.map tyI := rfl
  simp only [this, aggStruct_ok, ok_bind, blsPad_ok _ (show 1 ≤ max 8 (maxAlign fs) by omega), pure_eq_ok, Ty.bls]

theorem map_bls_tyI (fs : List Ty) : (fs.map tyI).map (fun x => x.bit_length_set) = blsList fs := by
  rw [blsList_eq, List.map_map]; rfl

theorem aggUnion_ok (fs : List Ty) (h2 : 2 ≤ fs.length) (h64 : tagBits fs ≤ 64) :
    Gen.UnionType.aggregate_bit_length_sets (fs.map tyI) = .ok (aggUnion fs) := by
  match fs, h2, h64 with
  | f :: g :: fs, h2, h64 =>
    have hne : (blsList (f :: g :: fs)).isEmpty = false := by simp [blsList]
    simp only [Gen.UnionType.aggregate_bit_length_sets, map_bls_tyI, compute_tag_ok _ h2 h64, ok_bind, pure_eq_ok]
    have hl : (blsList (f :: g :: fs)).length = fs.length + 2 := by simp [blsList_eq]
    simp only [hl, show ((fs.length + 2 == 0) = false) by simp, show ((fs.length + 2 == 1) = false) by simp, Bool.false_eq_true, if_false,
      Py.blsUnite, hne, ok_bind, pure_eq_ok, Py.blsAdd, Py.blsOfInt, aggUnion]

theorem union_bls_ok (fs : List Ty) (h2 : 2 ≤ fs.length) (h64 : tagBits fs ≤ 64) :
    Gen.UnionType.bls (max 8 (maxAlign fs)) (fs.map tyI) = .ok (Ty.bls (.union fs)) := by
  simp only [Gen.UnionType.bls, List.map_map, Function.comp_def]
  have : (fs.map fun x => tyI x) = fs.map tyI := rfl
  simp only [this, aggUnion_ok fs h2 h64, ok_bind, blsPad_ok _ (show 1 ≤ max 8 (maxAlign fs) by omega), pure_eq_ok, Ty.bls]

theorem isAligned_ok (a : Op) {d : Nat} (hd : 1 ≤ d) : Py.blsIsAlignedAt a d = .ok (isAlignedAt a d) := by
  unfold Py.blsIsAlignedAt; rw [if_neg (by omega)]; rfl

theorem farr_bls_ok (e : Ty) (cap : Nat) (h : (Ty.farr e cap).wf = true) :
    Gen.FixedLengthArrayType.bls (tyI e) cap = .ok (Ty.bls (.farr e cap)) := by
  have ha := C02.constructor_asserts _ h
  simp only [ctorAssertsOk, Ty.bls] at ha
  simp only [Gen.FixedLengthArrayType.bls, tyI, Py.blsRepeat, isAligned_ok _ (one_le_align e), ok_bind, ha, assert_true, pure_eq_ok, Ty.bls]

theorem varr_bls_ok (e : Ty) (cap : Nat) (h : (Ty.varr e cap).wf = true) :
    Gen.VariableLengthArrayType.bls (tyI e) cap = .ok (Ty.bls (.varr e cap)) := by
  have ha := C02.constructor_asserts _ h
  simp only [ctorAssertsOk, Ty.bls, Bool.and_eq_true, decide_eq_true_eq] at ha
  obtain ⟨e', he, hpow⟩ := ceilLog2_ok (max 8 (Layout.bitLength cap)) (by omega)
  have hlen : max (nextPow2 (max 8 (Layout.bitLength cap))) e.align = lenBits e cap := rfl
  simp only [Gen.VariableLengthArrayType.bls, tyI, bitLength_eq, he, ok_bind, hpow, hlen, mod_pos (one_le_align e), ha.1,
    beq_self_eq_true, assert_true, Py.blsAdd, Py.blsOfInt, Py.blsRepeatRange, isAligned_ok _ (one_le_align e), ha.2, pure_eq_ok, Ty.bls]

theorem length_field_ok (e : Ty) (cap : Nat) (h : (Ty.varr e cap).wf = true) :
    Gen.VariableLengthArrayType.length_field_length (tyI e) cap = .ok (lenBits e cap) := by
  have ha := C02.constructor_asserts _ h
  simp only [ctorAssertsOk, Ty.bls, Bool.and_eq_true, decide_eq_true_eq] at ha
  obtain ⟨e', he, hpow⟩ := ceilLog2_ok (max 8 (Layout.bitLength cap)) (by omega)
  have hlen : max (nextPow2 (max 8 (Layout.bitLength cap))) e.align = lenBits e cap := rfl
  simp only [Gen.VariableLengthArrayType.length_field_length, tyI, bitLength_eq, he, ok_bind, hpow, hlen, mod_pos (one_le_align e), ha.1,
    beq_self_eq_true, assert_true, pure_eq_ok]

theorem delim_bls_ok (inner : Ty) (ext : Nat) (h : (Ty.delim inner ext).wf = true) :
    Gen.DelimitedType.bls inner.align (tyI inner) ext = .ok (Ty.bls (.delim inner ext)) := by
  have ha := C02.constructor_asserts _ h
  simp only [ctorAssertsOk, Bool.and_eq_true, decide_eq_true_eq] at ha
  obtain ⟨⟨⟨⟨⟨h8, hal⟩, hext⟩, ha8⟩, haa⟩, hmax⟩ := ha
  have hpos := one_le_align inner
  have hext' : (tyI inner).extent ≤ ext := by
    simp only [Ty.wf, Bool.and_eq_true, decide_eq_true_eq] at h
    have : inner.extent = inner.bls.max := by
      obtain ⟨⟨⟨_, hk⟩, _⟩, _⟩ := h
      cases inner <;> simp_all [Ty.extent]
    show inner.extent ≤ ext
    omega
  have hbls : Ty.bls (.delim inner ext) = Op.cat [.leaf [max 32 inner.align], .rrep (.leaf [inner.align]) (ext / inner.align)] := by
    simp only [Ty.bls, hdrBits]
  rw [hbls] at ha8 haa hmax
  simp only [hdrBits] at hmax
  have hm : (Op.cat [Op.leaf [max 32 inner.align], (Op.leaf [inner.align]).rrep (ext / inner.align)]).max
      = max 32 inner.align + inner.align * (ext / inner.align) := by
    simp [Op.max, sumMax, maxL]
  rw [hm] at hmax
  simp only [Gen.DelimitedType.bls, mod_pos hpos, hal, ok_bind, bne_self_eq_false, Bool.false_eq_true, if_false,
    decide_eq_false (show ¬ ext < (tyI inner).extent by omega), floordiv_pos hpos, Py.blsAdd, Py.blsOfInt, Py.blsRepeatRange,
    mod_pos (show 0 < 8 by omega), h8, beq_self_eq_true, assert_true, decide_eq_true (show ext ≥ (tyI inner).extent from hext'),
    isAligned_ok _ (show 1 ≤ 8 by omega), isAligned_ok _ hpos, ha8, haa, pure_eq_ok, hbls, hm,
    sub_le (show max 32 inner.align ≤ max 32 inner.align + inner.align * (ext / inner.align) by omega),
    decide_eq_true (show ext ≥ max 32 inner.align + inner.align * (ext / inner.align) - max 32 inner.align by omega)]

@[simp] theorem tyI_align (t : Ty) : (tyI t).alignment_requirement = t.align := rfl
@[simp] theorem tyI_bls (t : Ty) : (tyI t).bit_length_set = t.bls := rfl

theorem foldl_structOffsets (fs : List Ty) (cur : Op) (ys : List Op) :
    ((fs.map tyI).foldl (fun (st : Op × List Op) t =>
        (Op.cat [Op.pad st.1 t.alignment_requirement, t.bit_length_set], st.2 ++ [Op.pad st.1 t.alignment_requirement])) (cur, ys)).2
      = ys ++ structOffsetsFrom cur fs := by
  induction fs generalizing cur ys with
  | nil => simp [structOffsetsFrom]
  | cons f fs ih =>
    simp only [List.map_cons, List.foldl_cons, tyI_align, tyI_bls, structOffsetsFrom]
    rw [ih]
    simp

theorem struct_iterate_ok (fs : List Ty) (base : Op) :
    Gen.StructureType.iterate_fields_with_offsets (max 8 (maxAlign fs)) (fs.map tyI) base
      = .ok (fieldOffsets base (.struct fs)) := by
  simp only [Gen.StructureType.iterate_fields_with_offsets, blsPad_ok _ (show 1 ≤ max 8 (maxAlign fs) by omega), ok_bind]
  rw [forEach_ok _ _ _ (fun (st : Op × List Op) t =>
        (Op.cat [Op.pad st.1 t.alignment_requirement, t.bit_length_set], st.2 ++ [Op.pad st.1 t.alignment_requirement]))]
  · simp only [ok_bind, pure_eq_ok, foldl_structOffsets, List.nil_append, fieldOffsets]
  · intro t ht st
    obtain ⟨g, _, rfl⟩ := List.mem_map.mp ht
    obtain ⟨o, ys⟩ := st
    simp only [tyI_align, tyI_bls, blsPad_ok _ (one_le_align g), ok_bind, pure_eq_ok, Py.blsAdd]

open scoped Pointwise in
theorem aligned_cat2 (a b : Op) (ha : a.wf = true) (hb : b.wf = true) (d : Nat) (hd : 1 ≤ d)
    (h1 : ∀ x ∈ den a, d ∣ x) (h2 : ∀ x ∈ den b, d ∣ x) : isAlignedAt (.cat [a, b]) d = true := by
  have hw : (Op.cat [a, b]).wf = true := by simp [Op.wf, wfs, ha, hb]
  rw [C01.aligned_exact _ hw d hd]
  intro x hx
  simp only [den, denSum] at hx
  obtain ⟨y, hy, z, hz, rfl⟩ := Finset.mem_add.mp hx
  obtain ⟨z', hz', w, hw', rfl⟩ := Finset.mem_add.mp hz
  simp only [Finset.mem_singleton] at hw'
  subst hw'
  exact Dvd.dvd.add (h1 y hy) (by simpa using h2 z' hz')

theorem dvd_pad (base : Op) (a d : Nat) (hda : d ∣ a) : ∀ x ∈ den (Op.pad base a), d ∣ x := by
  intro x hx
  simp only [den, Finset.mem_image] at hx
  obtain ⟨y, _, rfl⟩ := hx
  exact Dvd.dvd.trans hda (padTo_dvd a y)

theorem foldl_append_const {α β : Type} (l : List α) (o : β) (ys : List β) :
    l.foldl (fun ys _ => ys ++ [o]) ys = ys ++ l.map (fun _ => o) := by
  induction l generalizing ys with
  | nil => simp
  | cons a l ih => simp [ih]

theorem union_iterate_ok (fs : List Ty) (base : Op) (hb : base.wf = true) (h64 : tagBits fs ≤ 64) :
    Gen.UnionType.iterate_fields_with_offsets (max 8 (maxAlign fs)) (tagBits fs) (fs.map tyI) base
      = .ok (fieldOffsets base (.union fs)) := by
  have h8 : max 8 (maxAlign fs) = 8 := comp_align fs
  have htag : tagBits fs ∈ [8, 16, 32, 64] := by
    have hs : stdWidth (fs.length - 1) ≤ 64 := le_trans (Nat.le_max_left _ _) h64
    have := stdWidth_mem _ hs
    have hm : maxAlign fs ≤ 8 := maxAlign_le fs (fun f _ => align_cases f)
    simp only [tagBits, List.mem_cons, List.not_mem_nil, or_false] at this ⊢
    omega
  have hal : ∀ f : Ty, isAlignedAt (Op.cat [Op.pad base (max 8 (maxAlign fs)), Op.leaf [tagBits fs]]) f.align = true := by
    intro f
    have hfd : f.align ∣ 8 := by rcases align_cases f with h | h <;> simp [h]
    apply aligned_cat2 _ _ (by simp [Op.wf, hb]) (by simp [Op.wf]) _ (one_le_align f)
    · exact dvd_pad base _ _ (by rw [h8]; exact hfd)
    · intro x hx
      simp only [den, List.toFinset_cons, List.toFinset_nil, insert_empty_eq, Finset.mem_singleton] at hx
      subst hx
      apply Dvd.dvd.trans hfd
      simp only [List.mem_cons, List.not_mem_nil, or_false] at htag
      rcases htag with h | h | h | h <;> simp [h]
  simp only [Gen.UnionType.iterate_fields_with_offsets, blsPad_ok _ (show 1 ≤ max 8 (maxAlign fs) by omega), ok_bind, Py.blsAdd, Py.blsOfInt]
  rw [forEach_ok _ _ _ (fun ys (_ : TypeI) => ys ++ [Op.cat [Op.pad base (max 8 (maxAlign fs)), Op.leaf [tagBits fs]]])]
  · simp only [ok_bind, pure_eq_ok, fieldOffsets]
    rw [foldl_append_const]
    simp only [List.nil_append, List.map_map, Function.comp_def]
  · intro t ht ys
    obtain ⟨g, _, rfl⟩ := List.mem_map.mp ht
    simp only [tyI_align, isAligned_ok _ (one_le_align g), hal g, ok_bind, assert_true, pure_eq_ok]

/-- `DelimitedType.iterate_fields_with_offsets` delegates to the inner type with the header added to the base. -/
theorem delim_iterate_ok (hdr : Op) (inner : Op → Py.M (List Op)) (base : Op) :
    Gen.DelimitedType.iterate_fields_with_offsets hdr inner base = inner (Op.cat [base, hdr]) := by
  simp only [Gen.DelimitedType.iterate_fields_with_offsets, Py.blsAdd, bind_pure]

theorem delim_struct_iterate_ok (fs : List Ty) (ext : Nat) (base : Op) :
    Gen.DelimitedType.iterate_fields_with_offsets (Op.leaf [hdrBits (.struct fs)])
        (Gen.StructureType.iterate_fields_with_offsets (max 8 (maxAlign fs)) (fs.map tyI)) base
      = .ok (fieldOffsets base (.delim (.struct fs) ext)) := by
  rw [delim_iterate_ok, struct_iterate_ok]
  simp only [fieldOffsets]

theorem delim_union_iterate_ok (fs : List Ty) (ext : Nat) (base : Op) (hb : base.wf = true) (h64 : tagBits fs ≤ 64) :
    Gen.DelimitedType.iterate_fields_with_offsets (Op.leaf [hdrBits (.union fs)])
        (Gen.UnionType.iterate_fields_with_offsets (max 8 (maxAlign fs)) (tagBits fs) (fs.map tyI)) base
      = .ok (fieldOffsets base (.delim (.union fs) ext)) := by
  rw [delim_iterate_ok, union_iterate_ok _ _ (by simp [Op.wf, wfs, hb]) h64]
  simp only [fieldOffsets]

open scoped Pointwise in
theorem elements_ok (e : Ty) (cap : Nat) (base : Op) (he : e.wf = true) (hb : base.wf = true) :
    Gen.FixedLengthArrayType.enumerate_elements_with_offsets (tyI e) cap base = .ok (elementOffsets base e cap) := by
  have hal : ∀ i : Nat, isAlignedAt (Op.cat [Op.pad base e.align, Op.rep e.bls i]) e.align = true := by
    intro i
    apply aligned_cat2 _ _ (by simp [Op.wf, hb, one_le_align e]) (by simp [Op.wf, bls_wf e he]) _ (one_le_align e)
    · exact dvd_pad base _ _ (dvd_refl _)
    · intro x hx
      simp only [den] at hx
      exact dvd_of_mem_nsmul _ _ _ (fun y hy => align_dvd_len e he y (by rw [← den_bls e he]; exact hy)) x hx
  simp only [Gen.FixedLengthArrayType.enumerate_elements_with_offsets, tyI_align, tyI_bls, blsPad_ok _ (one_le_align e), ok_bind, Py.range]
  rw [forEach_ok _ _ _ (fun ys i => ys ++ [Op.cat [Op.pad base e.align, Op.rep e.bls i]])]
  · simp only [ok_bind, pure_eq_ok, elementOffsets]
    congr 1
    generalize List.range cap = l
    have : ∀ ys : List Op, l.foldl (fun ys i => ys ++ [Op.cat [Op.pad base e.align, Op.rep e.bls i]]) ys
        = ys ++ l.map (fun i => Op.cat [Op.pad base e.align, Op.rep e.bls i]) := by
      induction l with
      | nil => simp
      | cons a l ih => intro ys; simp [ih]
    simpa using this []
  · intro i _ ys
    simp only [Py.blsAdd, Py.blsRepeat, isAligned_ok _ (one_le_align e), hal i, ok_bind, assert_true, pure_eq_ok]

/-! ### The knot: the object graph of a type, built with the generated constructors -/

mutual
/-- What the constructors of `_serializable` compute for a type tree (alignment, bit length set, extent), using the
    generated slices for every array / composite node.  Primitive and void types are `BitLengthSet(bit_length)`, alignment 1. -/
def genTy : Ty → Py.M TypeI
  | .prim n => pure ⟨1, .leaf [n], n⟩
  | .void n => pure ⟨1, .leaf [n], n⟩
  | .farr e cap => do
      let ei ← genTy e
      let b ← Gen.FixedLengthArrayType.bls ei cap
      pure ⟨ei.alignment_requirement, b, b.max⟩
  | .varr e cap => do
      let ei ← genTy e
      let b ← Gen.VariableLengthArrayType.bls ei cap
      pure ⟨ei.alignment_requirement, b, b.max⟩
  | .struct fs => do
      let fi ← genTys fs
      let a ← Gen.CompositeType.alignment_requirement fi
      let b ← Gen.StructureType.bls a fi
      pure ⟨a, b, b.max⟩
  | .union fs => do
      let fi ← genTys fs
      let a ← Gen.CompositeType.alignment_requirement fi
      let b ← Gen.UnionType.bls a fi
      pure ⟨a, b, b.max⟩
  | .delim inner ext => do
      let ii ← genTy inner
      let b ← Gen.DelimitedType.bls ii.alignment_requirement ii ext
      pure ⟨ii.alignment_requirement, b, ext⟩
def genTys : List Ty → Py.M (List TypeI)
  | [] => pure []
  | f :: fs => do
      let fi ← genTy f
      let rest ← genTys fs
      pure (fi :: rest)
end

theorem extent_sealed (t : Ty) (h : ∀ i e, t ≠ .delim i e) : t.extent = t.bls.max := by
  cases t <;> simp_all [Ty.extent]

theorem genTys_ok (fs : List Ty) (h : ∀ f ∈ fs, genTy f = .ok (tyI f)) : genTys fs = .ok (fs.map tyI) := by
  induction fs with
  | nil => rfl
  | cons f fs ih =>
    simp only [genTys, h f (by simp), ok_bind, ih (fun g hg => h g (by simp [hg])), pure_eq_ok, List.map_cons]

/-- For every constructible type, building it with the generated constructor slices succeeds (no guard, no assert fires)
    and yields the model's alignment, bit length set expression and extent. -/
theorem genTy_ok : ∀ t : Ty, t.wf = true → genTy t = .ok (tyI t) := by
  intro t
  induction t using Ty.induct with
  | prim n => intro _; simp only [genTy, pure_eq_ok, tyI, Ty.align, Ty.bls, Ty.extent, Op.max, maxL, List.foldl_nil]
  | void n => intro _; simp only [genTy, pure_eq_ok, tyI, Ty.align, Ty.bls, Ty.extent, Op.max, maxL, List.foldl_nil]
  | farr e cap ih =>
    intro h
    have he : e.wf = true := by simp only [Ty.wf, Bool.and_eq_true] at h; exact h.1
    simp only [genTy, ih he, ok_bind, farr_bls_ok e cap h, pure_eq_ok, tyI_align]
    simp only [tyI, Ty.align, extent_sealed (.farr e cap) (by intros; simp)]
  | varr e cap ih =>
    intro h
    have he : e.wf = true := by simp only [Ty.wf, Bool.and_eq_true] at h; exact h.1.1
    simp only [genTy, ih he, ok_bind, varr_bls_ok e cap h, pure_eq_ok, tyI_align]
    simp only [tyI, Ty.align, extent_sealed (.varr e cap) (by intros; simp)]
  | struct fs ih =>
    intro h
    have hf : ∀ f ∈ fs, f.wf = true := by simpa only [Ty.wf, wfList_iff] using h
    simp only [genTy, genTys_ok fs (fun f hf' => ih f hf' (hf f hf')), ok_bind, alignment_requirement_ok, struct_bls_ok, pure_eq_ok]
    simp only [tyI, Ty.align, extent_sealed (.struct fs) (by intros; simp)]
  | union fs ih =>
    intro h
    simp only [Ty.wf, Bool.and_eq_true, wfList_iff, decide_eq_true_eq] at h
    obtain ⟨⟨hf, h2⟩, h64⟩ := h
    simp only [genTy, genTys_ok fs (fun f hf' => ih f hf' (hf f hf')), ok_bind, alignment_requirement_ok, union_bls_ok fs h2 h64, pure_eq_ok]
    simp only [tyI, Ty.align, extent_sealed (.union fs) (by intros; simp)]
  | delim inner ext ih =>
    intro h
    have hi : inner.wf = true := by simp only [Ty.wf, Bool.and_eq_true] at h; exact h.1.1.1
    simp only [genTy, ih hi, ok_bind, tyI_align, delim_bls_ok inner ext h, pure_eq_ok]
    simp only [tyI, Ty.align, Ty.extent]

end Bridge
