import Bridge.ExprOps.Algebra
import Bridge.ExprOps.Attr
/-!
  Bridge for the operator semantics of the constant-expression evaluator: the definitions that `tools/py2lean_expr.py`
  generates from `pydsdl/_expression/{_any,_primitive,_container,_operator}.py` (`Gen/ExprOps.lean`, re-generated on every run)
  against the hand-written model `Model/Expr.lean`.

  * `Bridge/ExprOps/Prim.lean`: primitives (`gen_scBin`: all 17 binary operators on all 9 pairs of primitive kinds, for every
    environment; `gen_evalUn`), the `_auto_swap` wrapper;
  * `Bridge/ExprOps/Sets.lean`: `__hash__` / `__eq__` of the primitives as set elements, `Set.__init__`, `Set._elementwise`;
  * `Bridge/ExprOps/Elementwise.lean`: a set and a primitive, both orientations;
  * `Bridge/ExprOps/Algebra.lean`: two sets;
  * `Bridge/ExprOps/Attr.lean`: the attribute operator;
  * this file: the summary theorems.

  The environment `Gen.Ex.env nfc (n + 1)` is the generated late-binding record with a call budget of at least one: every
  statement holds for every budget `n`, so no outcome on model values is a `RecursionError` of the budget.
-/
set_option linter.unusedSimpArgs false
set_option linter.unusedVariables false
namespace BridgeEx
open Py Ex PyEx Bridge

section
variable (nfc : List Nat → List Nat) (n : Nat)

local notation "env1" => Gen.Ex.env nfc (n + 1)
local notation "SN" => (StrNorm.mk nfc)
local notation "normS" => @normSc (StrNorm.mk nfc)

/-- **Every binary operator on every pair of model values.**  `oa`, `ob`: Python objects that denote the model values `a`, `b`
    (`Abs`: primitives exactly, sets element-wise up to the normal form of string elements).  The operator function of
    `_operator.py`, as translated from the working tree, returns an object that denotes the model's result, or raises the
    exception class of the model's error. -/
theorem gen_evalBin (hl : NfcLaws nfc) (op : BinOp) (oa ob : Obj) (a b : Val) (ha : Abs nfc oa a) (hb : Abs nfc ob b) :
    Agree nfc (genBin op env1 oa ob) (@evalBin SN op a b) := by
  cases ha with
  | sc x => cases hb with
    | sc y =>
      show Agree nfc _ ((@scBin SN op x y).map Val.sc)
      rw [gen_scBin0 nfc (n + 1) op x y]
      cases @scBin SN op x y with
      | error e => rfl
      | ok s => exact ⟨_, rfl, Abs.sc s⟩
    | set rb hb => exact gen_sc_set nfc n hl op rb x
  | set ra ha => cases hb with
    | sc y => exact gen_set_sc nfc n hl op ra y
    | set rb hb => exact gen_set_set nfc n ra rb ha hb op

theorem abs_emb_sc (s : Scalar) : Abs nfc (emb (.sc s)) (.sc s) := Abs.sc s

/-- **Unary operators.** -/
theorem gen_evalUn' (env : Py.Env) (op : UnOp) (oa : Obj) (a : Val) (ha : Abs nfc oa a) :
    Agree nfc (genUn op env oa) (evalUn op a) := by
  cases ha with
  | sc x =>
    have := gen_evalUn env op (.sc x)
    show Agree nfc (genUn op env (emb (.sc x))) _
    rw [this]
    cases x <;> cases op <;> first | rfl | exact ⟨_, rfl, abs_emb_sc nfc _⟩
  | set ra ha =>
    have := gen_evalUn env op (.set ra)
    show Agree nfc (genUn op env (emb (.set ra))) _
    rw [this]
    cases op <;> rfl

/-- **The attribute operator.** -/
theorem gen_evalAttr (oa : Obj) (a : Val) (ha : Abs nfc oa a) (name : String)
    (hnorm : name = "min" ∨ name = "max" → ∀ raw, oa = setObj raw → ∀ x ∈ raw, normS x = x) :
    Agree nfc (Gen.Ex.attribute env1 oa (nameObj name)) (@evalAttr SN a name) := by
  cases ha with
  | sc x => exact gen_attr_scalar nfc n x name
  | set ra ha => exact gen_attr_set nfc n ra ha name (fun h => hnorm h ra rfl)

/-- **Set literals** of primitives: `Set([...])` against `mkSet`. -/
theorem gen_set_literal (scs : List Scalar) :
    Agree nfc (Gen.Ex.Set.__new__ env1 (.list (scs.map embS))) (@mkSet SN (scs.map Val.sc)) := by
  have hm : @mkSet SN (scs.map Val.sc) = mkSetS (scs.map normS) := by
    cases scs with
    | nil => rfl
    | cons x xs =>
      simp [mkSet, List.filterMap_map, Function.comp_def]
  rw [hm, set_new_ewRes]
  exact agree_ewRes nfc (.ok scs)

/-- **The parser's operator table.**  The function that `_ParseTreeProcessor.visit_op2_…` / `visit_op1_form_…` (`_parser.py`) bind
    to the terminal of an operator rule of grammar.parsimonious is the function the bridge theorems are about (`genBin` /
    `genUn` of the model's operator whose token `Sym.text` it is). -/
theorem operator_table (env : Py.Env) :
    (∀ op : BinOp, Gen.Ex.binaryOperator env (String.ofList op.sym.text) = some (genBin op env)) ∧
    (∀ op : UnOp, Gen.Ex.unaryOperator env (String.ofList op.sym.text) = some (genUn op env)) := by
  constructor
  · intro op; cases op <;> rfl
  · intro op; cases op <;> rfl

/-- the identity satisfies the laws (so do all idempotent normalisations that are congruences for concatenation: NFC) -/
theorem nfcLaws_id : NfcLaws id := ⟨fun _ _ => rfl, fun _ _ => rfl⟩

end
end BridgeEx
