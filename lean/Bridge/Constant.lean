import Gen.Constant
import Model.Const
import Bridge.Basic
import Proofs.Const
/-!
  Bridge for the constant compliance rules (`Gen/Constant.lean`, rewritten from the working tree of /repo on every run: `Constant.__init__`
  of `_serializable/_attribute.py`, the constructors / `inclusive_value_range` / class hierarchy of `_serializable/_primitive.py`,
  `Rational` / `String` of `_expression/_primitive.py`).

  `genConst ty v` is the generated code run the way a definition `<type> NAME = <initialiser>` runs it: the constructor of the type
  named by `ty`, then `Constant.__init__` on the object and the value.  `gen_const` proves, for every type descriptor and every value of
  the model, that it returns exactly what `Ex.constCheck` predicts: the same stored value when the model accepts, and a named pydsdl
  exception (`errName`, always a subclass of `InvalidDefinitionError`) when the model rejects - never an `assert`, an `AttributeError`,
  a `KeyError` or a step outside the translated fragment.
-/
set_option linter.unusedSimpArgs false
set_option linter.unusedVariables false
set_option linter.unnecessarySeqFocus false
set_option linter.unusedTactic false
set_option linter.unreachableTactic false
set_option exponentiation.threshold 2000
open Ex

namespace Bridge

@[simp] theorem attr_some {α : Type} (x : α) : Py.attr (some x) = .ok x := rfl
@[simp] theorem throwC {α : Type} (e : Py.Err) : (throw e : Py.M α) = Except.error e := rfl
@[simp] theorem error_bindC {α β : Type} (e : Py.Err) (f : α → Py.M β) : (Except.error e >>= f) = Except.error e := rfl

/-! ### The correspondence between the model's descriptors and the objects of the code -/

def pyMode : CastMode → Py.CastMode
  | .saturated => .SATURATED
  | .truncated => .TRUNCATED

def pyVal : Val → Py.Value
  | .sc (.rat q) => .Rational q
  | .sc (.bool b) => .Boolean b
  | .sc (.str cs) => .String cs
  | .set _ => .Set

/-- what the parser constructs for the type expression on the left of a constant definition (`.other`: any class that is not
    defined in `_primitive.py`: void, arrays, composites) -/
def mkTy : CTy → Py.M Py.Ty
  | .bool => Gen.Cst.BooleanType.new
  | .uint n m => Gen.Cst.UnsignedIntegerType.new (n : Int) (pyMode m)
  | .int n m => Gen.Cst.SignedIntegerType.new (n : Int) (pyMode m)
  | .float n m => Gen.Cst.FloatType.new (n : Int) (pyMode m)
  | .other => pure (.other "VoidType")

/-- `<type> NAME = <initialiser>`: the type is constructed, then the constant -/
def genConst (ty : CTy) (v : Val) : Py.M Py.Value := do
  let t ← mkTy ty
  Gen.Cst.Constant.init t (pyVal v)

/-- the exception class of a rejection -/
def errName (ty : CTy) (v : Val) : String :=
  match ty with
  | .bool => "InvalidConstantValueError"
  | .uint n _ => if 1 ≤ n ∧ n ≤ 64 then "InvalidConstantValueError" else "InvalidBitLengthError"
  | .int n m =>
      if 2 ≤ n ∧ n ≤ 64 then (if m = .saturated then "InvalidConstantValueError" else "InvalidCastModeError")
      else "InvalidBitLengthError"
  | .float n _ => if n = 16 ∨ n = 32 ∨ n = 64 then "InvalidConstantValueError" else "InvalidBitLengthError"
  | .other => match v with
    | .set _ => "InvalidConstantValueError"
    | _ => "InvalidTypeError"

/-- the model's prediction in the vocabulary of the code -/
def expected (ty : CTy) (v : Val) : Py.M Py.Value :=
  match constCheck ty v with
  | .ok v' => .ok (pyVal v')
  | .error _ => .error (.other (errName ty v))

/-! ### Constructors -/

theorem prim_init (n : Int) (cm : Py.CastMode) :
    Gen.Cst.PrimitiveType.init n cm =
      if 1 ≤ n ∧ n ≤ 64 then .ok { bit_length := some n, cast_mode := some cm } else .error (.other "InvalidBitLengthError") := by
  simp only [Gen.Cst.PrimitiveType.init, attr_some, ok_bind, pure_eq_ok]
  by_cases h1 : n < 1 <;> by_cases h2 : n > 64 <;> simp [h1, h2] <;> omega

theorem arith_init (n : Int) (cm : Py.CastMode) : Gen.Cst.ArithmeticType.init n cm = Gen.Cst.PrimitiveType.init n cm := by
  simp only [Gen.Cst.ArithmeticType.init]

theorem integer_init (n : Int) (cm : Py.CastMode) : Gen.Cst.IntegerType.init n cm = Gen.Cst.PrimitiveType.init n cm := by
  simp only [Gen.Cst.IntegerType.init, arith_init]

theorem uint_init (n : Int) (cm : Py.CastMode) : Gen.Cst.UnsignedIntegerType.init n cm = Gen.Cst.PrimitiveType.init n cm := by
  simp only [Gen.Cst.UnsignedIntegerType.init, integer_init]

theorem bool_new : Gen.Cst.BooleanType.new = .ok (.prim .BooleanType { bit_length := some 1, cast_mode := some .SATURATED }) := by
  simp [Gen.Cst.BooleanType.new, Gen.Cst.BooleanType.init, prim_init]

theorem byte_new : Gen.Cst.ByteType.new = .ok (.prim .ByteType { bit_length := some 8, cast_mode := some .TRUNCATED }) := by
  simp [Gen.Cst.ByteType.new, Gen.Cst.ByteType.init, uint_init, prim_init]

theorem utf8_new : Gen.Cst.UTF8Type.new = .ok (.prim .UTF8Type { bit_length := some 8, cast_mode := some .TRUNCATED }) := by
  simp [Gen.Cst.UTF8Type.new, Gen.Cst.UTF8Type.init, uint_init, prim_init]

theorem uint_new (n : Int) (cm : Py.CastMode) :
    Gen.Cst.UnsignedIntegerType.new n cm =
      if 1 ≤ n ∧ n ≤ 64 then .ok (.prim .UnsignedIntegerType { bit_length := some n, cast_mode := some cm })
      else .error (.other "InvalidBitLengthError") := by
  simp only [Gen.Cst.UnsignedIntegerType.new, uint_init, prim_init]
  split <;> rfl

theorem int_new (n : Int) (cm : Py.CastMode) :
    Gen.Cst.SignedIntegerType.new n cm =
      if 2 ≤ n ∧ n ≤ 64 then
        (if cm = .SATURATED then .ok (.prim .SignedIntegerType { bit_length := some n, cast_mode := some cm })
         else .error (.other "InvalidCastModeError"))
      else .error (.other "InvalidBitLengthError") := by
  simp only [Gen.Cst.SignedIntegerType.new, Gen.Cst.SignedIntegerType.init, integer_init, prim_init]
  by_cases h1 : 1 ≤ n ∧ n ≤ 64
  · by_cases h2 : n < 2
    · have : ¬ (2 ≤ n ∧ n ≤ 64) := by omega
      simp [h1, h2, this]
    · have : 2 ≤ n ∧ n ≤ 64 := by omega
      cases cm <;> simp [h1, h2, this]
  · have : ¬ (2 ≤ n ∧ n ≤ 64) := by omega
    simp [h1, this]

theorem float_new (n : Nat) (cm : Py.CastMode) :
    Gen.Cst.FloatType.new (n : Int) cm =
      if n = 16 ∨ n = 32 ∨ n = 64 then
        .ok (.prim .FloatType { bit_length := some (n : Int), cast_mode := some cm, magnitude := some (floatMagnitude n) })
      else .error (.other "InvalidBitLengthError") := by
  by_cases h16 : n = 16
  · subst h16
    simp [Gen.Cst.FloatType.new, Gen.Cst.FloatType.init, arith_init, prim_init, Py.tryExcept, Py.intPow, Py.fracPow, Gen.Cst.PrimitiveType.bit_length,
      Py.dictIndex, floatMagnitude]
    norm_num
  by_cases h32 : n = 32
  · subst h32
    simp [Gen.Cst.FloatType.new, Gen.Cst.FloatType.init, arith_init, prim_init, Py.tryExcept, Py.intPow, Py.fracPow, Gen.Cst.PrimitiveType.bit_length,
      Py.dictIndex, floatMagnitude]
    norm_num
  by_cases h64 : n = 64
  · subst h64
    simp [Gen.Cst.FloatType.new, Gen.Cst.FloatType.init, arith_init, prim_init, Py.tryExcept, Py.intPow, Py.fracPow, Gen.Cst.PrimitiveType.bit_length,
      Py.dictIndex, floatMagnitude]
    norm_num
  have e16 : ((16 : Int) == (n : Int)) = false := by simp; omega
  have e32 : ((32 : Int) == (n : Int)) = false := by simp; omega
  have e64 : ((64 : Int) == (n : Int)) = false := by simp; omega
  by_cases hr : 1 ≤ n ∧ n ≤ 64
  · simp [Gen.Cst.FloatType.new, Gen.Cst.FloatType.init, arith_init, prim_init, Py.tryExcept, Py.intPow, Py.fracPow, Gen.Cst.PrimitiveType.bit_length,
      Py.dictIndex, hr, e16, e32, e64, h16, h32, h64, Py.Err.isKeyError]
  · simp [Gen.Cst.FloatType.new, Gen.Cst.FloatType.init, arith_init, prim_init, hr, h16, h32, h64]

/-! ### Value ranges -/

theorem intShl_nat (a : Int) (n : Nat) : Py.intShl a (n : Int) = .ok (a * 2 ^ n) := by
  simp [Py.intShl]

theorem intPow_nat (a : Int) (n : Nat) : Py.intPow a (n : Int) = .ok (a ^ n) := by
  simp [Py.intPow]

theorem intFloordiv_two (a : Int) : Py.intFloordiv a 2 = .ok (a / 2) := by
  simp [Py.intFloordiv, Int.fdiv_eq_ediv_of_nonneg]

theorem intShr_nonneg (a n : Int) (h : 0 ≤ n) : Py.intShr a n = .ok (a / 2 ^ n.toNat) := by
  simp [Py.intShr, not_lt.mpr h, Int.shiftRight_eq_div_pow]

theorem intShr_one (a : Int) : Py.intShr a 1 = .ok (a / 2) := by
  simpa using intShr_nonneg a 1 (by decide)

theorem shl_cast (n : Nat) : (((1 <<< n : Nat) : Nat) : Int) = 2 ^ n := by
  simp [Nat.one_shiftLeft]

theorem uint_range (n : Nat) (cm : Option Py.CastMode) :
    Gen.Cst.UnsignedIntegerType.inclusive_value_range { bit_length := some (n : Int), cast_mode := cm } =
      .ok ((((uintRange n).1 : Int) : Rat), (((uintRange n).2 : Int) : Rat)) := by
  simp only [Gen.Cst.UnsignedIntegerType.inclusive_value_range, Gen.Cst.PrimitiveType.bit_length, attr_some, ok_bind, pure_eq_ok,
    intShl_nat, intPow_nat, uintRange, shl_cast, one_mul] <;>
  first
  | rfl
  | (congr 2 <;> (push_cast; ring_nf); done)
  | (-- spellings that test the sign of `2 ^ n - 1` (never negative)
     have hp : (1 : Int) ≤ 2 ^ n := one_le_pow₀ (by norm_num)
     have h1 : (0 : Int) ≤ 2 ^ n - 1 := by omega
     have h2 : (0 : Int) ≤ -1 + 2 ^ n := by omega
     have h3 : ¬ ((2 : Int) ^ n - 1 < 0) := by omega
     have h4 : ¬ (-1 + (2 : Int) ^ n < 0) := by omega
     have h5 : ¬ ((2 : Int) ^ n < 1) := by omega
     simp [h1, h2, h3, h4, h5, hp]
     try (congr 2 <;> (push_cast; ring_nf)))

theorem int_range (n : Nat) (cm : Option Py.CastMode) :
    Gen.Cst.SignedIntegerType.inclusive_value_range { bit_length := some (n : Int), cast_mode := cm } =
      .ok ((((intRange n).1 : Int) : Rat), (((intRange n).2 : Int) : Rat)) := by
  simp only [Gen.Cst.SignedIntegerType.inclusive_value_range, Gen.Cst.PrimitiveType.bit_length, attr_some, ok_bind, pure_eq_ok,
    intShl_nat, intPow_nat, intFloordiv_two, intShr_one, intRange, shl_cast, one_mul] <;>
  first
  | rfl
  | (congr 2 <;> (push_cast; ring_nf))

theorem float_range (bl : Option Int) (cm : Option Py.CastMode) (q : Rat) :
    Gen.Cst.FloatType.inclusive_value_range { bit_length := bl, cast_mode := cm, magnitude := some q } = .ok (-q, q) := by
  simp only [Gen.Cst.FloatType.inclusive_value_range, attr_some, ok_bind, pure_eq_ok]

/-! ### `Constant.__init__` -/

theorem den_beq (q : Rat) : (Py.fracDenominator q == 1) = Rat.isInt' q := by
  simp only [Py.fracDenominator, Rat.isInt']
  by_cases h : q.den = 1 <;> simp [h]

theorem utf8Encode1_length (c : Nat) : (Py.utf8Encode1 c).length = utf8Len c := by
  unfold Py.utf8Encode1 utf8Len
  split <;> [rfl; (split <;> [rfl; (split <;> rfl)])]

theorem encode_length (cs : List Nat) : (Py.encodeUtf8Surrogatepass cs).length = (cs.map utf8Len).sum := by
  induction cs with
  | nil => rfl
  | cons c cs ih =>
    simp only [Py.encodeUtf8Surrogatepass, List.map_cons, List.flatten_cons, List.length_append, List.sum_cons, utf8Encode1_length] at ih ⊢
    rw [ih]

/-- the six class tests of `Constant.__init__` on an object of each concrete class -/
theorem ty_isinstance (cls : Py.PrimCls) (o : Py.Obj) (c : String) :
    Py.Ty.isinstance Gen.Cst.Primitive.mro (.prim cls o) c = (Gen.Cst.Primitive.mro cls).contains c := rfl

/-- closes a goal that compares two spellings of "`q` is (an integer and) inside `[lo, hi]`" by deciding the three atoms; independent of
    how the source spells the comparison (chained, negated, as a disjunction of strict inequalities) -/
macro "decide_range" i:term "," lo:term "," hi:term "," q:term : tactic =>
  `(tactic| (
    simp only [← not_le, gt_iff_lt, ge_iff_le]
    by_cases h1 : $lo ≤ $q <;> by_cases h2 : $q ≤ $hi <;> cases h0 : ($i : Bool) <;> first | (simp at h0; done) | simp [h1, h2, h0]))

section
variable (n : Nat) (cm : Option Py.CastMode)

theorem init_set (t : Py.Ty) : Gen.Cst.Constant.init t .Set = .error (.other "InvalidConstantValueError") := by
  simp [Gen.Cst.Constant.init, Py.Value.isinstance, Gen.Cst.Expression.mro, Py.Value.cls]

theorem init_uint_rat (m : CastMode) (q : Rat) :
    Gen.Cst.Constant.init (.prim .UnsignedIntegerType { bit_length := some (n : Int), cast_mode := cm }) (.Rational q) =
      if Rat.isInt' q && inRange (.uint n m) q then .ok (.Rational q) else .error (.other "InvalidConstantValueError") := by
  simp [Gen.Cst.Constant.init, ty_isinstance, Gen.Cst.Primitive.mro, Py.Value.isinstance, Gen.Cst.Expression.mro, Py.Value.cls, Py.Value.asRational,
    Gen.Cst.Rational.is_integer, den_beq, Gen.Cst.Ty.inclusive_value_range, uint_range, Gen.Cst.Rational.native_value, inRange, CTy.range]
  decide_range Rat.isInt' q, (((uintRange n).1 : Int) : Rat), (((uintRange n).2 : Int) : Rat), q

theorem init_uint_bool (b : Bool) :
    Gen.Cst.Constant.init (.prim .UnsignedIntegerType { bit_length := some (n : Int), cast_mode := cm }) (.Boolean b) =
      .error (.other "InvalidConstantValueError") := by
  simp [Gen.Cst.Constant.init, ty_isinstance, Gen.Cst.Primitive.mro, Py.Value.isinstance, Gen.Cst.Expression.mro, Py.Value.cls]

theorem init_uint_str (cs : List Nat) :
    Gen.Cst.Constant.init (.prim .UnsignedIntegerType { bit_length := some (n : Int), cast_mode := cm }) (.String cs) =
      if (cs.map utf8Len).sum != 1 then .error (.other "InvalidConstantValueError")
      else if n != 8 then .error (.other "InvalidConstantValueError")
      else match cs with
        | [c] => .ok (.Rational ((c : Nat) : Rat))
        | _ => .error (.other "InvalidConstantValueError") := by
  by_cases hl : (cs.map utf8Len).sum = 1
  · obtain ⟨c, rfl, hc⟩ := (utf8_sum_eq_one cs).mp hl
    by_cases h8 : n = 8
    · subst h8
      have hr : Gen.Cst.UnsignedIntegerType.inclusive_value_range { bit_length := some 8, cast_mode := cm } = .ok (0, 255) := by
        have := uint_range 8 cm
        simpa [uintRange] using this
      have g0 : (0 : Rat) ≤ (c : Rat) := by exact_mod_cast Nat.zero_le c
      have g255 : (c : Rat) ≤ 255 := by exact_mod_cast (show c ≤ 255 by omega)
      have h0 : ¬ ((c : Rat) < 0) := not_lt.mpr g0
      have h255 : ¬ ((255 : Rat) < (c : Rat)) := not_lt.mpr g255
      have g0' : (0 : Rat) ≤ ((c : Int) : Rat) := by exact_mod_cast Nat.zero_le c
      have g255' : ((c : Int) : Rat) ≤ 255 := by exact_mod_cast (show c ≤ 255 by omega)
      have h0' : ¬ (((c : Int) : Rat) < 0) := not_lt.mpr g0'
      have h255' : ¬ ((255 : Rat) < ((c : Int) : Rat)) := not_lt.mpr g255'
      have i0 : (0 : Int) ≤ (c : Int) := by omega
      have i255 : (c : Int) ≤ 255 := by omega
      have j0 : ¬ ((c : Int) < 0) := by omega
      have j255 : ¬ ((255 : Int) < (c : Int)) := by omega
      have k0 : (0 : Nat) ≤ c := by omega
      have k255 : c ≤ 255 := by omega
      have l255 : ¬ (255 < c) := by omega
      simp [Gen.Cst.Constant.init, ty_isinstance, Gen.Cst.Primitive.mro, Py.Value.isinstance, Gen.Cst.Expression.mro, Py.Value.cls, Py.Value.asString,
        Gen.Cst.String.native_value, Py.encodeUtf8Surrogatepass, Py.utf8Encode1, hc, Gen.Cst.Ty.bit_length, Gen.Cst.PrimitiveType.bit_length,
        Py.ordBytes, Gen.Cst.Rational.new, Py.Value.asRational, Gen.Cst.Ty.inclusive_value_range, hr, Gen.Cst.Rational.native_value,
        (utf8Len_eq_one c).mpr hc, h0, h255, g0, g255, h0', h255', g0', g255', i0, i255, j0, j255, k0, k255, l255]
    · have h8' : ¬ ((n : Int) = 8) := by omega
      -- however the source spells "the bit length is not 8"
      rcases Nat.lt_or_gt_of_ne h8 with hlt | hgt
      · have a1 : ¬ (8 < n) := by omega
        have a2 : ¬ (8 ≤ n) := by omega
        have a3 : n ≤ 8 := by omega
        simp [Gen.Cst.Constant.init, ty_isinstance, Gen.Cst.Primitive.mro, Py.Value.isinstance, Gen.Cst.Expression.mro, Py.Value.cls,
          Py.Value.asString, Gen.Cst.String.native_value, Py.encodeUtf8Surrogatepass, Py.utf8Encode1, hc, Gen.Cst.Ty.bit_length,
          Gen.Cst.PrimitiveType.bit_length, h8, h8', (utf8Len_eq_one c).mpr hc, hlt, a1, a2, a3]
      have b1 : ¬ (n < 8) := by omega
      have b2 : ¬ (n ≤ 8) := by omega
      have b3 : 8 ≤ n := by omega
      simp [Gen.Cst.Constant.init, ty_isinstance, Gen.Cst.Primitive.mro, Py.Value.isinstance, Gen.Cst.Expression.mro, Py.Value.cls, Py.Value.asString,
        Gen.Cst.String.native_value, Py.encodeUtf8Surrogatepass, Py.utf8Encode1, hc, Gen.Cst.Ty.bit_length, Gen.Cst.PrimitiveType.bit_length, h8, h8', (utf8Len_eq_one c).mpr hc, hgt, b1, b2, b3]
  · simp [Gen.Cst.Constant.init, ty_isinstance, Gen.Cst.Primitive.mro, Py.Value.isinstance, Gen.Cst.Expression.mro, Py.Value.cls, Py.Value.asString,
      Gen.Cst.String.native_value, encode_length, hl]

theorem init_int_rat (m : CastMode) (q : Rat) :
    Gen.Cst.Constant.init (.prim .SignedIntegerType { bit_length := some (n : Int), cast_mode := cm }) (.Rational q) =
      if Rat.isInt' q && inRange (.int n m) q then .ok (.Rational q) else .error (.other "InvalidConstantValueError") := by
  simp [Gen.Cst.Constant.init, ty_isinstance, Gen.Cst.Primitive.mro, Py.Value.isinstance, Gen.Cst.Expression.mro, Py.Value.cls, Py.Value.asRational,
    Gen.Cst.Rational.is_integer, den_beq, Gen.Cst.Ty.inclusive_value_range, int_range, Gen.Cst.Rational.native_value, inRange, CTy.range]
  decide_range Rat.isInt' q, (((intRange n).1 : Int) : Rat), (((intRange n).2 : Int) : Rat), q

theorem init_int_bool (b : Bool) :
    Gen.Cst.Constant.init (.prim .SignedIntegerType { bit_length := some (n : Int), cast_mode := cm }) (.Boolean b) =
      .error (.other "InvalidConstantValueError") := by
  simp [Gen.Cst.Constant.init, ty_isinstance, Gen.Cst.Primitive.mro, Py.Value.isinstance, Gen.Cst.Expression.mro, Py.Value.cls]

theorem init_int_str (cs : List Nat) :
    Gen.Cst.Constant.init (.prim .SignedIntegerType { bit_length := some (n : Int), cast_mode := cm }) (.String cs) =
      .error (.other "InvalidConstantValueError") := by
  by_cases hl : ((Py.encodeUtf8Surrogatepass cs).length : Int) = 1 <;>
  simp [Gen.Cst.Constant.init, ty_isinstance, Gen.Cst.Primitive.mro, Py.Value.isinstance, Gen.Cst.Expression.mro, Py.Value.cls, Py.Value.asString,
    Gen.Cst.String.native_value, hl]

theorem init_float_rat (m : CastMode) (q : Rat) :
    Gen.Cst.Constant.init (.prim .FloatType { bit_length := some (n : Int), cast_mode := cm, magnitude := some (floatMagnitude n) }) (.Rational q) =
      if inRange (.float n m) q then .ok (.Rational q) else .error (.other "InvalidConstantValueError") := by
  simp [Gen.Cst.Constant.init, ty_isinstance, Gen.Cst.Primitive.mro, Py.Value.isinstance, Gen.Cst.Expression.mro, Py.Value.cls, Py.Value.asRational,
    Gen.Cst.Ty.inclusive_value_range, float_range, Gen.Cst.Rational.native_value, inRange, CTy.range]
  decide_range true, (-floatMagnitude n), (floatMagnitude n), q

theorem init_float_bool (mg : Option Rat) (b : Bool) :
    Gen.Cst.Constant.init (.prim .FloatType { bit_length := some (n : Int), cast_mode := cm, magnitude := mg }) (.Boolean b) =
      .error (.other "InvalidConstantValueError") := by
  simp [Gen.Cst.Constant.init, ty_isinstance, Gen.Cst.Primitive.mro, Py.Value.isinstance, Gen.Cst.Expression.mro, Py.Value.cls]

theorem init_float_str (mg : Option Rat) (cs : List Nat) :
    Gen.Cst.Constant.init (.prim .FloatType { bit_length := some (n : Int), cast_mode := cm, magnitude := mg }) (.String cs) =
      .error (.other "InvalidConstantValueError") := by
  simp [Gen.Cst.Constant.init, ty_isinstance, Gen.Cst.Primitive.mro, Py.Value.isinstance, Gen.Cst.Expression.mro, Py.Value.cls]

theorem init_bool_bool (o : Py.Obj) (b : Bool) : Gen.Cst.Constant.init (.prim .BooleanType o) (.Boolean b) = .ok (.Boolean b) := by
  simp [Gen.Cst.Constant.init, ty_isinstance, Gen.Cst.Primitive.mro, Py.Value.isinstance, Gen.Cst.Expression.mro, Py.Value.cls]

theorem init_bool_rat (o : Py.Obj) (q : Rat) :
    Gen.Cst.Constant.init (.prim .BooleanType o) (.Rational q) = .error (.other "InvalidConstantValueError") := by
  simp [Gen.Cst.Constant.init, ty_isinstance, Gen.Cst.Primitive.mro, Py.Value.isinstance, Gen.Cst.Expression.mro, Py.Value.cls]

theorem init_bool_str (o : Py.Obj) (cs : List Nat) :
    Gen.Cst.Constant.init (.prim .BooleanType o) (.String cs) = .error (.other "InvalidConstantValueError") := by
  simp [Gen.Cst.Constant.init, ty_isinstance, Gen.Cst.Primitive.mro, Py.Value.isinstance, Gen.Cst.Expression.mro, Py.Value.cls]

/-- a type of a class outside `_primitive.py` carries no constant: `InvalidTypeError` for every primitive value -/
theorem init_other (name : String) (v : Py.Value) (hv : Py.Value.isinstance Gen.Cst.Expression.mro v "Primitive" = true) :
    Gen.Cst.Constant.init (.other name) v = .error (.other "InvalidTypeError") := by
  cases v <;> simp [Gen.Cst.Constant.init, Py.Ty.isinstance, Py.Value.isinstance, Gen.Cst.Expression.mro, Py.Value.cls] at hv ⊢

end

/-! ### The whole decision -/

theorem gen_const (ty : CTy) (v : Val) : genConst ty v = expected ty v := by
  cases ty with
  | bool =>
    rcases v with (q | b | cs) | es <;>
      simp [genConst, mkTy, bool_new, expected, constCheck, CTy.wf, pyVal, errName, inval, init_bool_bool, init_bool_rat, init_bool_str,
        init_set]
  | other =>
    rcases v with (q | b | cs) | es <;>
      simp [genConst, mkTy, expected, constCheck, CTy.wf, pyVal, errName, inval, init_set] <;>
      exact init_other _ _ rfl
  | uint n m =>
    by_cases hn : 1 ≤ n ∧ n ≤ 64
    · have hn' : 1 ≤ (n : Int) ∧ (n : Int) ≤ 64 := by omega
      have hwf : (CTy.uint n m).wf = true := by simp [CTy.wf, hn]
      have hmk : mkTy (.uint n m) = .ok (.prim .UnsignedIntegerType { bit_length := some (n : Int), cast_mode := some (pyMode m) }) := by
        simp [mkTy, uint_new, hn']
      rcases v with (q | b | cs) | es
      · simp only [genConst, hmk, ok_bind, pyVal, init_uint_rat n _ m, expected, constCheck, hwf]
        by_cases hc : (Rat.isInt' q && inRange (.uint n m) q) = true <;> simp [hc, errName, hn, inval, pyVal]
      · simp [genConst, hmk, pyVal, init_uint_bool, expected, constCheck, hwf, errName, hn, inval]
      · simp only [genConst, hmk, ok_bind, pyVal, init_uint_str, expected, constCheck, hwf]
        by_cases h1 : ((cs.map utf8Len).sum != 1) = true
        · simp [h1, errName, hn, inval]
        · by_cases h8 : (n != 8) = true
          · simp [h1, h8, errName, hn, inval]
          · rcases cs with _ | ⟨c, _ | ⟨d, r⟩⟩
            · simp [h1, h8, errName, hn, inval, pyVal]
            · have hu : utf8Len c = 1 := by simpa using h1
              simp [h8, hu, errName, hn, inval, pyVal]
            · simp [h1, h8, errName, hn, inval, pyVal]
      · simp [genConst, hmk, pyVal, init_set, expected, constCheck, hwf, errName, hn, inval]
    · have hn' : ¬ (1 ≤ (n : Int) ∧ (n : Int) ≤ 64) := by omega
      have hwf : (CTy.uint n m).wf = false := by simp [CTy.wf, hn]
      simp [genConst, mkTy, uint_new, hn', expected, constCheck, hwf, errName, inval, hn]
  | int n m =>
    by_cases hn : 2 ≤ n ∧ n ≤ 64
    · have hn' : 2 ≤ (n : Int) ∧ (n : Int) ≤ 64 := by omega
      cases m with
      | saturated =>
        have hwf : (CTy.int n .saturated).wf = true := by simp [CTy.wf, hn]
        have hmk : mkTy (.int n .saturated) =
            .ok (.prim .SignedIntegerType { bit_length := some (n : Int), cast_mode := some .SATURATED }) := by
          simp [mkTy, int_new, hn', pyMode]
        rcases v with (q | b | cs) | es
        · simp only [genConst, hmk, ok_bind, pyVal, init_int_rat n _ .saturated, expected, constCheck, hwf]
          by_cases hc : (Rat.isInt' q && inRange (.int n .saturated) q) = true <;> simp [hc, errName, hn, inval, pyVal]
        · simp [genConst, hmk, pyVal, init_int_bool, expected, constCheck, hwf, errName, hn, inval]
        · simp [genConst, hmk, pyVal, init_int_str, expected, constCheck, hwf, errName, hn, inval]
        · simp [genConst, hmk, pyVal, init_set, expected, constCheck, hwf, errName, hn, inval]
      | truncated =>
        have hwf : (CTy.int n .truncated).wf = false := by simp [CTy.wf]
        simp [genConst, mkTy, int_new, hn', pyMode, expected, constCheck, hwf, errName, inval, hn]
    · have hn' : ¬ (2 ≤ (n : Int) ∧ (n : Int) ≤ 64) := by omega
      have hwf : (CTy.int n m).wf = false := by simp [CTy.wf, hn]
      simp [genConst, mkTy, int_new, hn', expected, constCheck, hwf, errName, inval, hn]
  | float n m =>
    by_cases hn : n = 16 ∨ n = 32 ∨ n = 64
    · have hwf : (CTy.float n m).wf = true := by rcases hn with rfl | rfl | rfl <;> rfl
      have hmk : mkTy (.float n m) = .ok (.prim .FloatType
          { bit_length := some (n : Int), cast_mode := some (pyMode m), magnitude := some (floatMagnitude n) }) := by
        simp [mkTy, float_new, hn]
      rcases v with (q | b | cs) | es
      · simp only [genConst, hmk, ok_bind, pyVal, init_float_rat n _ m, expected, constCheck, hwf]
        by_cases hc : inRange (.float n m) q = true <;> simp [hc, errName, hn, inval, pyVal]
      · simp [genConst, hmk, pyVal, init_float_bool, expected, constCheck, hwf, errName, hn, inval]
      · simp [genConst, hmk, pyVal, init_float_str, expected, constCheck, hwf, errName, hn, inval]
      · simp [genConst, hmk, pyVal, init_set, expected, constCheck, hwf, errName, hn, inval]
    · have hwf : (CTy.float n m).wf = false := by
        simp only [not_or] at hn
        simp [CTy.wf, hn]
      simp [genConst, mkTy, float_new, expected, constCheck, hwf, errName, inval, hn]

/-! ### Consequences -/

/-- the pydsdl exception classes a rejected constant definition is reported with (all derive from `InvalidDefinitionError`) -/
def rejectionClasses : List String :=
  ["InvalidConstantValueError", "InvalidTypeError", "InvalidBitLengthError", "InvalidCastModeError"]

theorem errName_mem (ty : CTy) (v : Val) : errName ty v ∈ rejectionClasses := by
  cases ty with
  | bool => simp [errName, rejectionClasses]
  | other => cases v <;> simp [errName, rejectionClasses]
  | uint n m => by_cases h : 1 ≤ n ∧ n ≤ 64 <;> simp [errName, rejectionClasses, h]
  | int n m => by_cases h : 2 ≤ n ∧ n ≤ 64 <;> cases m <;> simp [errName, rejectionClasses, h]
  | float n m => by_cases h : n = 16 ∨ n = 32 ∨ n = 64 <;> simp [errName, rejectionClasses, h]

theorem gen_const_ok {ty : CTy} {v v' : Val} (h : constCheck ty v = .ok v') : genConst ty v = .ok (pyVal v') := by
  rw [gen_const, expected, h]

theorem gen_const_error {ty : CTy} {v : Val} {e : Ex.Err} (h : constCheck ty v = .error e) :
    genConst ty v = .error (.other (errName ty v)) := by
  rw [gen_const, expected, h]

theorem gen_const_ok_inv {ty : CTy} {v : Val} {w : Py.Value} (h : genConst ty v = .ok w) :
    ∃ v', constCheck ty v = .ok v' ∧ w = pyVal v' := by
  rw [gen_const, expected] at h
  cases hc : constCheck ty v with
  | ok v' => rw [hc] at h; exact ⟨v', rfl, by cases h; rfl⟩
  | error e => rw [hc] at h; cases h

theorem pyVal_sc_inj {s : Scalar} {v : Val} (h : pyVal (.sc s) = pyVal v) : v = .sc s := by
  rcases v with (q | b | cs) | es <;> rcases s with q' | b' | cs' <;> simp [pyVal] at h <;> simp [h]

/-- `Constant.__init__` does not tell `byte` / `utf8` from `uint8`: on an object of `ByteType` or `UTF8Type` it decides exactly as on an
    `UnsignedIntegerType` with the same attributes (that these types cannot carry a constant is decided elsewhere, by
    `_check_aggregation`, when the attribute is added to a composite). -/
theorem init_byte (o : Py.Obj) (v : Py.Value) :
    Gen.Cst.Constant.init (.prim .ByteType o) v = Gen.Cst.Constant.init (.prim .UnsignedIntegerType o) v := by
  simp [Gen.Cst.Constant.init, ty_isinstance, Gen.Cst.Primitive.mro, Gen.Cst.Ty.bit_length, Gen.Cst.Ty.inclusive_value_range]

theorem init_utf8 (o : Py.Obj) (v : Py.Value) :
    Gen.Cst.Constant.init (.prim .UTF8Type o) v = Gen.Cst.Constant.init (.prim .UnsignedIntegerType o) v := by
  simp [Gen.Cst.Constant.init, ty_isinstance, Gen.Cst.Primitive.mro, Gen.Cst.Ty.bit_length, Gen.Cst.Ty.inclusive_value_range]

/-- a serializable type used as an initialiser is an `Any` but not a `Primitive`: rejected for every type -/
theorem init_type_value (t : Py.Ty) : Gen.Cst.Constant.init t .SerializableType = .error (.other "InvalidConstantValueError") := by
  simp [Gen.Cst.Constant.init, Py.Value.isinstance, Gen.Cst.Expression.mro, Py.Value.cls]

end Bridge
