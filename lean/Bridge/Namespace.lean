import Gen.Namespace
import Model.Namespace
import Bridge.Basic
/-!
  Bridge between the cross-definition checks GENERATED from `pydsdl/_namespace.py` (`Gen/Namespace.lean`, rewritten from
  the working tree of /repo on every run) and the model `Model/Namespace.lean`:
  `_ensure_no_fixed_port_id_collisions` and `_ensure_minor_version_compatibility_pairwise` (the latter translated twice, for
  composites and for the request / response sections it recurses into).  The grouping by name and major version in
  `_ensure_minor_version_compatibility` (a `defaultdict` loop) is hand-modelled (`checkMinorVersions`).
  Exception classes are compared, not just accept / reject (`errOf`).
-/
set_option linter.unusedSimpArgs false
set_option linter.unusedVariables false
open Ns

namespace Bridge
open Robust

def secI (t : TyInfo) (s : SecInfo) : SecI := ⟨t.name, t.major, t.minor, false, none, s.extent, !s.sealed⟩
def compI (t : TyInfo) : CompI :=
  ⟨t.name, t.major, t.minor, t.isService, t.fpid.isSome, t.fpid, t.req.extent, !t.req.sealed, secI t t.req, secI t t.resp⟩

def errOf : Err → Py.Err
  | .minorKind => .other "VersionsOfDifferentKindError"
  | .minorPortId => .other "MinorVersionFixedPortIDError"
  | .minorExtent => .other "ExtentConsistencyError"
  | .minorSealing => .other "SealingConsistencyError"
  | .portCollision => .other "FixedPortIDCollisionError"
  | .assertion => .assertion
  | _ => .other "?"

def lift : Except Err Unit → Py.M Unit
  | .ok () => .ok ()
  | .error e => .error (errOf e)

def genPair (a b : CompI) : Py.M Unit :=
  Gen.Namespace.pairwise (Gen.Namespace.pairwise_section (fun _ _ => throw (.other "unreachable"))) a b


@[simp] theorem throw_eq {α : Type} (e : Py.Err) : (throw e : Py.M α) = Except.error e := rfl
@[simp] theorem error_bind {α β : Type} (e : Py.Err) (f : α → Py.M β) : (Except.error e >>= f) = Except.error e := rfl

theorem assert_false : Py.assert false = .error .assertion := rfl

/-! ### The pairwise minor-version check

  Both sides are evaluated outright: the major version is a numeral pattern (zero / successor), every other atom of the rule (service
  flags, port-IDs, order of the minor versions, extents, sealing) a case, and `simp` computes the generated program and the model in each
  case.  Nothing depends on how the generated `if`s are nested, which branch is the `else`, or whether an early `return` is used. -/

theorem lift_ite (c : Prop) [Decidable c] (x y : Except Err Unit) : lift (if c then x else y) = if c then lift x else lift y := by
  split <;> rfl
theorem lift_ok : lift (.ok ()) = .ok () := rfl
theorem lift_error (e : Err) : lift (.error e) = .error (errOf e) := rfl
theorem lift_bind_ok (x : Except Err Unit) (y : Py.M Unit) :
    (lift x >>= fun _ => y) = match x with | .ok () => y | .error e => .error (errOf e) := by
  cases x with
  | ok u => cases u; rfl
  | error e => rfl

theorem section_ok (a b : TyInfo) (sa sb : SecInfo) (hn : a.name = b.name) (hm : a.major = b.major) (hmin : a.minor ≠ b.minor) :
    Gen.Namespace.pairwise_section (fun _ _ => throw (.other "unreachable")) (secI a sa) (secI b sb)
      = lift (secPair a.major sa sb) := by
  have hbe : (a.minor == b.minor) = false := by simp [hmin]
  unfold Gen.Namespace.pairwise_section
  rcases hM : b.major with _ | k <;> by_cases he : sa.extent = sb.extent <;> cases hsa : sa.sealed <;> cases hsb : sb.sealed <;>
    simp [secI, secPair, hn, hm, hM, hbe, he, hsa, hsb, lift, errOf, bne, ↓decide_eq_true_eq, throw_err, err_bind]

/-- `_ensure_minor_version_compatibility_pairwise` as generated (two levels: a service recurses once into its request and
    response sections) computes the model's `minorPair`, error class by error class. -/
theorem pair_ok (a b : TyInfo) (hn : a.name = b.name) (hm : a.major = b.major) :
    genPair (compI a) (compI b) = lift (minorPair a b) := by
  by_cases hmin : a.minor = b.minor
  · simp [genPair, Gen.Namespace.pairwise, compI, hn, hm, hmin, minorPair, lift, errOf, assert_false]
  have hbe : (a.minor == b.minor) = false := by simp [hmin]
  have hsec := fun sa sb => section_ok a b sa sb hn hm hmin
  unfold genPair Gen.Namespace.pairwise
  simp only [compI, secI, minorPair, minorSecs, minorPidBad, hm] at hsec ⊢
  by_cases hk : a.isService = b.isService
  · cases hs : b.isService
    · -- two messages: the port-ID rule, then the extent / sealing rule on the types themselves
      rcases ha : a.fpid with _ | p <;> rcases hbf : b.fpid with _ | q <;> by_cases hgt : a.minor > b.minor <;>
        rcases hM : b.major with _ | k <;> by_cases he : a.req.extent = b.req.extent <;> by_cases hse : a.req.sealed = b.req.sealed <;>
        simp [secPair, lift, errOf, hn, hk, hs, hM, hbe, hgt, he, hse, ha, hbf, bne, ↓decide_eq_true_eq, throw_err, err_bind] <;>
        (try split) <;> simp_all <;> omega
    · -- two services: the port-ID rule, then whatever the recursion into request and response says
      simp only [hsec]
      generalize secPair b.major a.req b.req = x
      generalize secPair b.major a.resp b.resp = y
      rcases ha : a.fpid with _ | p <;> rcases hbf : b.fpid with _ | q <;> by_cases hgt : a.minor > b.minor <;>
        rcases x with e | ⟨⟨⟩⟩ <;> rcases y with e' | ⟨⟨⟩⟩ <;>
        simp [lift, errOf, hn, hk, hs, hbe, hgt, ha, hbf, bne, ↓decide_eq_true_eq, throw_err, err_bind] <;>
        (try split) <;> simp_all <;> omega
  · have : (a.isService == b.isService) = false := by simp [hk]
    simp [hn, hbe, this, lift, errOf, bne, throw_err, err_bind]

/-! ### The port-ID collision check

  The generated function is a pair of nested loops that only check.  Whatever its shape (a boolean expression, nested `if`s, a chain of
  early `continue`s, a pre-filtered candidate list), it raises nothing but `FixedPortIDCollisionError` (`only_throws`, structural), and
  whether it raises is a boolean formula over the pairs (`raises_forEach_unit`, `raises_ite`, …: computed by `simp`), which is compared with
  the model's `portPairBad` pair by pair, by cases on the atoms. -/

theorem collisions_ok (ts : List TyInfo) :
    Gen.Namespace.ensure_no_fixed_port_id_collisions (ts.map compI) = lift (checkPortIdCollisions ts) := by
  have hE : onlyThrows (.other "FixedPortIDCollisionError") (Gen.Namespace.ensure_no_fixed_port_id_collisions (ts.map compI)) := by
    unfold Gen.Namespace.ensure_no_fixed_port_id_collisions
    only_throws
  have hR : raises (Gen.Namespace.ensure_no_fixed_port_id_collisions (ts.map compI))
      = ts.any (fun a => ts.any (fun b => portPairBad a b)) := by
    unfold Gen.Namespace.ensure_no_fixed_port_id_collisions
    simp only [↓raises_ite, ↓decide_eq_true_eq, raises_bind_unit, raises_forEach_unit, raises_ok, raises_pure, raises_throw, raises_error,
      pure_eq_ok, throw_err, Bool.or_false, Bool.false_or, List.any_map, List.any_filter, Function.comp_def, and_any, List.filter_map]
    apply any_any_congr
    intro a b
    obtain ⟨an, aM, am, af, asv, ar, ars, ap, aroot⟩ := a
    obtain ⟨bn, bM, bm, bf, bsv, br, brs, bp, broot⟩ := b
    simp only [compI, portPairBad]
    cases af <;> cases bf <;> cases asv <;> cases bsv <;>
      by_cases hn : an = bn <;> by_cases hm : aM = bM <;> by_cases ha : 0 < aM <;> by_cases hb : 0 < bM <;>
      simp_all [Nat.lt_min, bne, Bool.beq_eq_decide_eq] <;> omega
  rw [eq_of_onlyThrows hE, hR]
  unfold checkPortIdCollisions
  by_cases h : (ts.any fun a => ts.any fun b => portPairBad a b) = true <;> simp [h, lift, errOf]

end Bridge
