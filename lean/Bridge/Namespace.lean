import Gen.Namespace
import Model.Namespace
import Bridge.Basic
/-!
  Bridge between the cross-definition checks GENERATED from `pydsdl/_namespace.py` (`Gen/Namespace.lean`, rewritten from
  the working tree of /repo on every run) and the model `Model/Namespace.lean`:
  `_ensure_no_fixed_port_id_collisions` and `_ensure_minor_version_compatibility_pairwise` (the latter translated twice, for
  composites and for the request / response sections it recurses into).  The grouping by name and major version in
  `_ensure_minor_version_compatibility` (a `defaultdict` loop) is hand-modelled (`checkMinorVersions`).
  Exception classes are compared, not just accept / reject (`errOf`).
-/
set_option linter.unusedSimpArgs false
set_option linter.unusedVariables false
open Ns

namespace Bridge

def secI (t : TyInfo) (s : SecInfo) : SecI := ⟨t.name, t.major, t.minor, false, none, s.extent, !s.sealed⟩
def compI (t : TyInfo) : CompI :=
  ⟨t.name, t.major, t.minor, t.isService, t.fpid.isSome, t.fpid, t.req.extent, !t.req.sealed, secI t t.req, secI t t.resp⟩

def errOf : Err → Py.Err
  | .minorKind => .other "VersionsOfDifferentKindError"
  | .minorPortId => .other "MinorVersionFixedPortIDError"
  | .minorExtent => .other "ExtentConsistencyError"
  | .minorSealing => .other "SealingConsistencyError"
  | .portCollision => .other "FixedPortIDCollisionError"
  | .assertion => .assertion
  | _ => .other "?"

def lift : Except Err Unit → Py.M Unit
  | .ok () => .ok ()
  | .error e => .error (errOf e)

def genPair (a b : CompI) : Py.M Unit :=
  Gen.Namespace.pairwise (Gen.Namespace.pairwise_section (fun _ _ => throw (.other "unreachable"))) a b


@[simp] theorem throw_eq {α : Type} (e : Py.Err) : (throw e : Py.M α) = Except.error e := rfl
@[simp] theorem error_bind {α β : Type} (e : Py.Err) (f : α → Py.M β) : (Except.error e >>= f) = Except.error e := rfl

theorem assert_false : Py.assert false = .error .assertion := rfl

theorem section_ok (a b : TyInfo) (sa sb : SecInfo) (hn : a.name = b.name) (hm : a.major = b.major) (hmin : a.minor ≠ b.minor) :
    Gen.Namespace.pairwise_section (fun _ _ => throw (.other "unreachable")) (secI a sa) (secI b sb)
      = lift (secPair a.major sa sb) := by
  have hb : (a.minor != b.minor) = true := by simp [hmin]
  simp only [Gen.Namespace.pairwise_section, secI, hn, hm, hb, beq_self_eq_true, assert_true, ok_bind, bne_iff_ne, ne_eq, hmin,
    not_false_eq_true, decide_true, bne_self_eq_false, Bool.false_eq_true, if_false, if_true, Bool.and_self, Bool.not_true, secPair]
  by_cases h0 : b.major > 0 <;> by_cases he : sa.extent = sb.extent <;> by_cases hs : sa.sealed = sb.sealed <;>
    simp [h0, he, hs, hb, lift, errOf]

theorem lift_bind_ok (x : Except Err Unit) (y : Py.M Unit) :
    (lift x >>= fun _ => y) = match x with | .ok () => y | .error e => .error (errOf e) := by
  cases x with
  | ok u => cases u; rfl
  | error e => rfl

/-- `_ensure_minor_version_compatibility_pairwise` as generated (two levels: a service recurses once into its request and
    response sections) computes the model's `minorPair`, error class by error class. -/
theorem pair_ok (a b : TyInfo) (hn : a.name = b.name) (hm : a.major = b.major) :
    genPair (compI a) (compI b) = lift (minorPair a b) := by
  by_cases hmin : a.minor = b.minor
  · simp [genPair, Gen.Namespace.pairwise, compI, hn, hm, hmin, minorPair, lift, errOf, assert_false]
  have hb : (a.minor != b.minor) = true := by simp [hmin]
  have hbe : (a.minor == b.minor) = false := by simp [hmin]
  simp only [genPair, Gen.Namespace.pairwise, minorPair, hbe, Bool.false_eq_true, if_false]
  simp only [compI, hn, hm, hb, beq_self_eq_true, assert_true, ok_bind]
  by_cases hk : a.isService = b.isService
  · simp only [hk, bne_self_eq_false, Bool.false_eq_true, if_false, ok_bind, Bool.and_self]
    simp only [section_ok a b _ _ hn hm hmin, minorPidBad, minorSecs, hk, Bool.and_self]
    cases hs : b.isService <;> cases ha : a.fpid <;> cases hbf : b.fpid <;> by_cases hgt : a.minor > b.minor <;>
      by_cases h0 : b.major > 0 <;> by_cases he : a.req.extent = b.req.extent <;> by_cases hse : a.req.sealed = b.req.sealed <;>
      by_cases her : a.resp.extent = b.resp.extent <;> by_cases hsr : a.resp.sealed = b.resp.sealed <;>
      simp [secPair, lift, errOf, hm, hgt, h0, he, hse, her, hsr, ha, hbf, lift_bind_ok] <;>
      (try split) <;> simp_all
  · have : (a.isService != b.isService) = true := by simp [hk]
    simp [this, lift, errOf]

/-- a checking loop: the first element on which the body raises decides -/
theorem forEach_check {α : Type} (l : List α) (p : α → Bool) (e : Py.Err) (body : Unit → α → Py.M Unit)
    (h : ∀ x, body () x = if p x then .error e else .ok ()) :
    Py.forEach l () body = if l.any p then .error e else .ok () := by
  unfold Py.forEach
  induction l with
  | nil => rfl
  | cons a l ih =>
    rw [List.foldlM_cons, h a]
    by_cases hp : p a = true
    · simp [hp]
    · simp only [hp, Bool.false_eq_true, if_false, ok_bind, List.any_cons, Bool.false_or]
      simpa using ih

def collidesI (a b : CompI) : Bool :=
  ((a.is_service == b.is_service) && ((a.full_name != b.full_name) || ((a.major != b.major) && (decide (a.major > 0) && decide (b.major > 0)))))
    && (a.has_fixed_port_id && b.has_fixed_port_id) && (a.fixed_port_id == b.fixed_port_id)

theorem collidesI_compI (a b : TyInfo) : collidesI (compI a) (compI b) = portPairBad a b := by
  simp only [collidesI, compI, portPairBad]
  cases a.fpid <;> cases b.fpid <;> simp

theorem collisions_ok (ts : List TyInfo) :
    Gen.Namespace.ensure_no_fixed_port_id_collisions (ts.map compI) = lift (checkPortIdCollisions ts) := by
  simp only [Gen.Namespace.ensure_no_fixed_port_id_collisions]
  rw [forEach_check (ts.map compI) (fun a => (ts.map compI).any (collidesI a)) (.other "FixedPortIDCollisionError")]
  · simp only [checkPortIdCollisions, List.any_map, Function.comp_def, collidesI_compI]
    by_cases h : (ts.any fun a => ts.any fun b => portPairBad a b) = true <;> simp [h, lift, errOf]
  · intro a
    rw [forEach_check (ts.map compI) (collidesI a) (.other "FixedPortIDCollisionError")]
    · by_cases h : ((ts.map compI).any (collidesI a)) = true <;> simp [h]
    · intro b
      simp only [collidesI]
      by_cases h1 : (a.is_service == b.is_service &&
            (a.full_name != b.full_name || a.major != b.major && (decide (a.major > 0) && decide (b.major > 0)))) = true <;>
        by_cases h2 : (a.has_fixed_port_id && b.has_fixed_port_id) = true <;>
        by_cases h3 : (a.fixed_port_id == b.fixed_port_id) = true <;> simp [h1, h2, h3]

end Bridge
