import Bridge.Serdes
import Gen.Codec
import Model.WireIO
/-!
  Bridge for the CODEC FUNCTIONS of `pydsdl/_serdes.py` (`deserialize`, `_deserialize_primitive / _array / _element / _composite /
  _field_value`), translated into `Gen/Codec.lean` on every run (tools/py2lean_codec.py).

  The generated functions work on schema objects (`Py.Obj`: dynamic attribute access, `isinstance` along the class hierarchy), return
  Python values (`Py.Value`), thread the `_BitReader` state (`Gen.ReaderS`) explicitly and recurse with fuel (one unit per Python
  frame).  `Model/WireIO.lean` is the hand-written codec over the type descriptors `Wire.Ty`, canonical values `Wire.Val` and the
  bit-level reader model `BitIO.Rd`.

  * `tyOf`    : the type descriptor a schema object denotes (names, stored layout attributes forgotten);
  * `okT`     : the object graph is one that pydsdl's constructors build: `length_field_type` / `tag_field_type` /
                `delimiter_header_type` are unsigned integers of the widths `_array.py` / `_composite.py` compute, composites are
                byte-aligned, `fields` are `Field` / `PaddingField` objects, padding fields carry void types and only they do, a
                delimited type wraps a structure or a union;
  * `valueOf` : the Python value that stands for a canonical value of a type (dict by field name without padding, one-entry dict
                for a union, `str` / `bytes` / list for arrays, …);
  * `Agree`   : the generated outcome is the model's: same value and the same reader moved forward, or the same error class.

  Main theorem `gen_deserialize`: for every schema object with `okT` whose descriptor is well-formed (`Ty.wf`), every reader state
  whose data are bytes and whose position is not before its start, and enough fuel for the depth of the type, the generated
  deserializer returns exactly what `WireIO.decR` returns.  (This file imports `Bridge.Serdes`: the codec functions call the
  generated `_BitReader` methods, whose bridge lemmas are used, not re-proved; both are about the same source file.)
-/
set_option linter.unusedSimpArgs false
set_option linter.unusedVariables false
open BitIO Py

namespace Bridge
open Wire (Ty Val Mode Cast)
open WireIO

/-! ### Schema objects and type descriptors -/

def castOf : CastMode → Cast
  | .saturated => .sat
  | .truncated => .trunc

mutual
/-- the type descriptor a schema object denotes -/
def tyOf : Obj → Ty
  | .boolean => .bool
  | .signed n c => .sint n (castOf c)
  | .unsigned n c => .uint n (castOf c)
  | .byte => .byte
  | .utf8 => .utf8
  | .float n c => .float n (castOf c)
  | .void n => .void n
  | .fixedArray e cap => .farr (tyOf e) cap
  | .varArray e cap _ => .varr (tyOf e) cap
  | .structure fs _ _ => .struct (tysOf fs) .sealed
  | .union fs _ _ _ => .union (tysOf fs) .sealed
  | .delimited i _ x _ =>
      match tyOf i with
      | .struct fs _ => .struct fs (.delimited x)
      | .union fs _ => .union fs (.delimited x)
      | t => t
  | .service _ _ _ => .void 0
  | .field d _ => tyOf d
  | .paddingField d => tyOf d
def tysOf : List Obj → List Ty
  | [] => []
  | o :: os => tyOf o :: tysOf os
end

/-- `UnsignedIntegerType` of the given width (the implicit length / tag / delimiter header fields) -/
def isUnsignedOf (o : Obj) (n : Nat) : Bool :=
  match o with
  | .unsigned m _ => m == n
  | _ => false

def isStructOrUnion : Obj → Bool
  | .structure _ _ _ | .union _ _ _ _ => true
  | _ => false

mutual
/-- the object graph is one that the constructors of `pydsdl._serializable` build (see the header) -/
def okT : Obj → Bool
  | .boolean | .byte | .utf8 | .signed _ _ | .unsigned _ _ | .float _ _ | .void _ => true
  | .fixedArray e _ => okT e
  | .varArray e cap l => okT e && isUnsignedOf l (Wire.lenBits cap)
  | .structure fs a _ => okFs fs && a == 8
  | .union fs t a _ => okFs fs && a == 8 && isUnsignedOf t (Wire.tagBits fs.length)
  | .delimited i h _ a => okT i && isStructOrUnion i && a == 8 && isUnsignedOf h Wire.headerBits
  | _ => false
/-- `fields`: `Field` objects with non-void types, `PaddingField` objects with void types -/
def okFs : List Obj → Bool
  | [] => true
  | .field d _ :: fs => okT d && !(tyOf d).isVoid && okFs fs
  | .paddingField d :: fs => okT d && (tyOf d).isVoid && okFs fs
  | _ :: _ => false
end

mutual
/-- the number of Python frames the (de)serializer needs below the frame that receives the object -/
def depth : Obj → Nat
  | .fixedArray e _ => depth e + 2
  | .varArray e _ _ => depth e + 2
  | .structure fs _ _ => depthFs fs + 2
  | .union fs _ _ _ => depthFs fs + 2
  | .delimited i _ _ _ => depth i + 1
  | .field d _ => depth d
  | .paddingField d => depth d
  | _ => 0
def depthFs : List Obj → Nat
  | [] => 0
  | o :: os => max (depth o) (depthFs os)
end

/-! ### Values -/

/-- the Python value of an array whose elements are `vals` (`_deserialize_array`: str, bytes or list) -/
def arrValue (e : Obj) (vs : List Val) (vals : List Value) : Value :=
  match e with
  | .utf8 => .str (vs.map Val.byteOf)
  | .byte => .bytes (vs.map Val.byteOf)
  | _ => .list vals

mutual
/-- the Python value that stands for the canonical value `v` of the type of the schema object -/
def valueOf : Obj → Val → Value
  | .boolean, .bool b => .bool b
  | .signed _ _, .int i => .int i
  | .unsigned _ _, .int i => .int i
  | .byte, .int i => .int i
  | .utf8, .int i => .int i
  | .float _ _, .flt b => .float b
  | .void _, _ => .none
  | .fixedArray e _, .arr vs => arrValue e vs (valuesOf e vs)
  | .varArray e _ _, .arr vs => arrValue e vs (valuesOf e vs)
  | .structure fs _ _, .recd vs => .dict (structDict fs vs [])
  | .union fs _ _ _, .var tag v => variantValue fs tag v
  | .delimited i _ _ _, v => valueOf i v
  | .field d _, v => valueOf d v
  | .paddingField d, v => valueOf d v
  | _, _ => .none
def valuesOf : Obj → List Val → List Value
  | _, [] => []
  | e, v :: vs => valueOf e v :: valuesOf e vs
/-- `result[field.name] = value` over the fields, padding skipped -/
def structDict : List Obj → List Val → List (String × Value) → List (String × Value)
  | .field d n :: fs, v :: vs, acc => structDict fs vs (Py.dictSet acc n (valueOf d v))
  | _ :: fs, _ :: vs, acc => structDict fs vs acc
  | _, _, acc => acc
/-- `{field.name: value}` for `field = fields[tag]` -/
def variantValue : List Obj → Nat → Val → Value
  | .field d n :: _, 0, v => .dict [(n, valueOf d v)]
  | _ :: fs, k + 1, v => variantValue fs k v
  | _, _, _ => .none
end

def errOf : Wire.Err → Py.Err
  | .arrayLength => .other "ArrayLengthError"
  | .unionTag => .other "UnionTagError"
  | .delimiterHeader => .other "DelimiterHeaderError"
  | .unionField => .other "UnionFieldError"
  | .value => .valueError
  | .type => .typeError

/-- The generated outcome `x` (started in state `g`) is the model's outcome `y` (started in `toRd g`): the same error class, or
    the value `f v` for the model's value `v` and the same reader moved forward to the model's resulting reader. -/
def AgreeWith {α β : Type} (f : α → β) (g : Gen.ReaderS) (x : Py.M (β × Gen.ReaderS)) (y : Except Wire.Err (α × Rd)) : Prop :=
  match y with
  | .ok (v, r') => ∃ k, x = .ok (f v, advance g k) ∧ toRd (advance g k) = r'
  | .error e => x = .error (errOf e)

abbrev Agree (s : Obj) := AgreeWith (valueOf s)

theorem advance_advance (g : Gen.ReaderS) (a b : Nat) : advance (advance g a) b = advance g (a + b) := by
  simp only [advance, Gen.ReaderS.mk.injEq, true_and, and_true]; omega

theorem advance_zero (g : Gen.ReaderS) : advance g 0 = g := by
  simp only [advance, Nat.add_zero]

/-- sequencing: a generated step that agrees, followed by continuations that agree from every later state -/
theorem AgreeWith.bind {α β α' β' : Type} {f : α → β} {f' : α' → β'} {g : Gen.ReaderS}
    {x : Py.M (β × Gen.ReaderS)} {y : Except Wire.Err (α × Rd)}
    {kx : β × Gen.ReaderS → Py.M (β' × Gen.ReaderS)} {ky : α × Rd → Except Wire.Err (α' × Rd)}
    (h : AgreeWith f g x y)
    (hk : ∀ v k, AgreeWith f' (advance g k) (kx (f v, advance g k)) (ky (v, toRd (advance g k)))) :
    AgreeWith f' g (x >>= kx) (y >>= ky) := by
  cases y with
  | error e =>
    have hx : x = .error (errOf e) := h
    subst hx
    exact (rfl : (Except.error (errOf e) : Py.M (β' × Gen.ReaderS)) = _)
  | ok p =>
    obtain ⟨v, r'⟩ := p
    obtain ⟨k, hx, hr⟩ := h
    subst hx; subst hr
    have := hk v k
    show AgreeWith f' g (kx (f v, advance g k)) (ky (v, toRd (advance g k)))
    cases hy : ky (v, toRd (advance g k)) with
    | error e => rw [hy] at this; exact this
    | ok q =>
      obtain ⟨w, r2⟩ := q
      rw [hy] at this
      obtain ⟨k2, e1, e2⟩ := this
      exact ⟨k + k2, by rw [e1, advance_advance], by rw [← advance_advance]; exact e2⟩

theorem AgreeWith.mono {α β : Type} {f : α → β} {g : Gen.ReaderS} {k : Nat} {x : Py.M (β × Gen.ReaderS)}
    {y : Except Wire.Err (α × Rd)} (h : AgreeWith f (advance g k) x y) : AgreeWith f g x y := by
  cases y with
  | error e => exact h
  | ok p =>
    obtain ⟨v, r'⟩ := p
    obtain ⟨k2, e1, e2⟩ := h
    exact ⟨k + k2, by rw [e1, advance_advance], by rw [← advance_advance]; exact e2⟩

/-! ### Reader steps -/

theorem readBits_lt (r : Rd) (n : Nat) (h : r.start ≤ r.off) : (readBits r n).1 < 2 ^ n := by
  rw [(readBits_spec r n h).1]
  have := ofBits_lt (takeZ n r.window)
  rwa [takeZ_length] at this

/-- `reader.read_bits(n)` in the generated code, in the form the codec proofs use -/
theorem read_step (g : Gen.ReaderS) (n : Nat) (hg : RdOk g) :
    Gen.BitReader.read_bits g n = .ok ((readBits (toRd g) n).1, advance g n) ∧
      toRd (advance g n) = (readBits (toRd g) n).2 ∧ RdOk (advance g n) :=
  ⟨(gen_read_bits g n hg).1, (gen_read_bits g n hg).2, rdOk_advance hg n⟩

theorem readBits_eta (r : Rd) (n : Nat) : readBits r n = ((readBits r n).1, (readBits r n).2) := rfl

/-! ### `_deserialize_primitive` -/

theorem prim_boolean (g : Gen.ReaderS) (hg : RdOk g) :
    Agree .boolean g (Gen.Codec.deserialize_primitive g .boolean) (decR (tyOf .boolean) (toRd g)) := by
  obtain ⟨e1, e2, _⟩ := read_step g 1 hg
  simp (config := {decide := true}) only [Gen.Codec.deserialize_primitive, Py.isinstance, if_true, if_false, e1, ok_bind, pure_eq_ok,
    tyOf, decR, Agree, AgreeWith, valueOf]
  exact ⟨1, rfl, e2⟩

theorem prim_unsigned (g : Gen.ReaderS) (hg : RdOk g) (n : Nat) (c : CastMode) :
    Agree (.unsigned n c) g (Gen.Codec.deserialize_primitive g (.unsigned n c)) (decR (tyOf (.unsigned n c)) (toRd g)) := by
  obtain ⟨e1, e2, _⟩ := read_step g n hg
  simp (config := {decide := true}) only [Gen.Codec.deserialize_primitive, Py.isinstance, if_true, if_false, Obj.bit_length, e1, ok_bind,
    pure_eq_ok, tyOf, decR, Agree, AgreeWith, valueOf]
  exact ⟨n, rfl, e2⟩

theorem prim_byte (g : Gen.ReaderS) (hg : RdOk g) :
    Agree .byte g (Gen.Codec.deserialize_primitive g .byte) (decR (tyOf .byte) (toRd g)) := by
  obtain ⟨e1, e2, _⟩ := read_step g 8 hg
  simp (config := {decide := true}) only [Gen.Codec.deserialize_primitive, Py.isinstance, if_true, if_false, Obj.bit_length, e1, ok_bind,
    pure_eq_ok, tyOf, decR, Agree, AgreeWith, valueOf]
  exact ⟨8, rfl, e2⟩

theorem prim_utf8 (g : Gen.ReaderS) (hg : RdOk g) :
    Agree .utf8 g (Gen.Codec.deserialize_primitive g .utf8) (decR (tyOf .utf8) (toRd g)) := by
  obtain ⟨e1, e2, _⟩ := read_step g 8 hg
  simp (config := {decide := true}) only [Gen.Codec.deserialize_primitive, Py.isinstance, if_true, if_false, Obj.bit_length, e1, ok_bind,
    pure_eq_ok, tyOf, decR, Agree, AgreeWith, valueOf]
  exact ⟨8, rfl, e2⟩

theorem prim_void (g : Gen.ReaderS) (hg : RdOk g) (n : Nat) :
    Agree (.void n) g (Gen.Codec.deserialize_primitive g (.void n)) (decR (tyOf (.void n)) (toRd g)) := by
  obtain ⟨e1, e2, _⟩ := read_step g n hg
  simp (config := {decide := true}) only [Gen.Codec.deserialize_primitive, Py.isinstance, if_true, if_false, Obj.bit_length, e1, ok_bind,
    pure_eq_ok, tyOf, decR, Agree, AgreeWith, valueOf]
  exact ⟨n, rfl, e2⟩

theorem forEach_range_succ_const {σ : Type} (n : Nat) (init : σ) (body : σ → Nat → Py.M σ) (b : σ → Py.M σ)
    (hb : ∀ s i, body s i = b s) :
    Py.forEach (Py.range (n + 1)) init body = b init >>= fun s => Py.forEach (Py.range n) s body := by
  have hbody : body = fun s _ => b s := funext fun s => funext fun i => hb s i
  subst hbody
  unfold Py.forEach Py.range
  rw [List.range_succ_eq_map, List.foldlM_cons]
  simp only [List.foldlM_map]

theorem shiftCount_pred (n : Nat) (h : 1 ≤ n) : Py.shiftCount (Int.ofNat n - Int.ofNat 1) = .ok (n - 1) := by
  unfold Py.shiftCount
  have : (0 : Int) ≤ Int.ofNat n - Int.ofNat 1 := by simp only [Int.ofNat_eq_natCast]; omega
  rw [if_pos this]
  simp only [pure_eq_ok, Int.ofNat_eq_natCast]
  congr 1
  omega

theorem prim_signed (g : Gen.ReaderS) (hg : RdOk g) (n : Nat) (c : CastMode) (hn : 1 ≤ n) :
    Agree (.signed n c) g (Gen.Codec.deserialize_primitive g (.signed n c)) (decR (tyOf (.signed n c)) (toRd g)) := by
  obtain ⟨e1, e2, _⟩ := read_step g n hg
  simp (config := {decide := true}) only [Gen.Codec.deserialize_primitive, Py.isinstance, if_true, if_false, Obj.bit_length, e1, ok_bind, pure_eq_ok,
    tyOf, decR, Agree, AgreeWith, valueOf, shiftCount_pred n hn, Wire.ofTwos, Nat.one_shiftLeft]
  by_cases h : (readBits (toRd g) n).1 ≥ 2 ^ (n - 1)
  · simp only [h, decide_true, if_true, valueOf]
    exact ⟨n, by simp, e2⟩
  · simp only [h, decide_false, if_false, valueOf, Bool.false_eq_true]
    exact ⟨n, rfl, e2⟩

theorem leNat_eq (l : List Nat) : leNat l = Py.fromBytesLittle l := by
  induction l with
  | nil => rfl
  | cons a l ih => simp only [leNat, Py.fromBytesLittle, ih]

theorem readBytes_length (k : Nat) (r : Rd) : (readBytes k r).1.length = k := by
  induction k generalizing r with
  | zero => rfl
  | succ k ih => simp only [readBytes, List.length_cons, ih]

theorem bytes_loop (k : Nat) (g : Gen.ReaderS) (hg : RdOk g) (acc : List Nat)
    (body : List Nat × Gen.ReaderS → Nat → Py.M (List Nat × Gen.ReaderS))
    (hb : ∀ s i, body s i = (do
      let x ← Gen.BitReader.read_bits s.2 8
      let t ← Py.appendByte s.1 x.1
      Except.ok (t, x.2))) :
    Py.forEach (Py.range k) (acc, g) body = .ok (acc ++ (readBytes k (toRd g)).1, advance g (8 * k)) ∧
      toRd (advance g (8 * k)) = (readBytes k (toRd g)).2 := by
  induction k generalizing g acc with
  | zero => exact ⟨by simp [Py.forEach, Py.range, readBytes, advance_zero], by simp [readBytes, advance_zero]⟩
  | succ k ih =>
    obtain ⟨e1, e2, e3⟩ := read_step g 8 hg
    have hlt : (readBits (toRd g) 8).1 < 256 := readBits_lt (toRd g) 8 hg.2
    obtain ⟨i1, i2⟩ := ih (advance g 8) e3 (acc ++ [(readBits (toRd g) 8).1])
    rw [forEach_range_succ_const k (acc, g) body _ hb]
    simp only [e1, ok_bind, Py.appendByte, hlt, if_true, pure_eq_ok, i1, readBytes, e2, advance_advance, List.append_assoc,
      List.singleton_append]
    refine ⟨by congr 3; omega, ?_⟩
    rw [← e2, ← i2, advance_advance]; congr 2; omega

theorem prim_float (g : Gen.ReaderS) (hg : RdOk g) (n : Nat) (c : CastMode) (hn : n = 16 ∨ n = 32 ∨ n = 64) :
    Agree (.float n c) g (Gen.Codec.deserialize_primitive g (.float n c)) (decR (tyOf (.float n c)) (toRd g)) := by
  have hlen := readBytes_length (n / 8) (toRd g)
  rcases hn with rfl | rfl | rfl <;>
  · simp (config := {decide := true}) only [Gen.Codec.deserialize_primitive, Py.isinstance, if_true, if_false, Obj.bit_length, ok_bind,
      pure_eq_ok, tyOf, decR, Agree, AgreeWith, valueOf]
    rw [(bytes_loop _ g hg [] _ (fun s i => rfl)).1]
    simp only [ok_bind, List.nil_append, Py.structUnpackFloat, hlen, leNat_eq, if_true, pure_eq_ok]
    exact ⟨_, rfl, (bytes_loop _ g hg [] _ (fun s i => rfl)).2⟩

/-- the classes `_deserialize_primitive` handles -/
def isPrimObj : Obj → Bool
  | .boolean | .signed _ _ | .unsigned _ _ | .byte | .utf8 | .float _ _ | .void _ => true
  | _ => false

/-- **`_deserialize_primitive`**: for every primitive / void schema object with a well-formed descriptor -/
theorem gen_primitive (s : Obj) (hp : isPrimObj s = true) (hw : (tyOf s).wf = true) (g : Gen.ReaderS) (hg : RdOk g) :
    Agree s g (Gen.Codec.deserialize_primitive g s) (decR (tyOf s) (toRd g)) := by
  cases s with
  | boolean => exact prim_boolean g hg
  | signed n c =>
    simp only [tyOf, Ty.wf, Bool.and_eq_true, decide_eq_true_eq] at hw
    exact prim_signed g hg n c (by omega)
  | unsigned n c => exact prim_unsigned g hg n c
  | byte => exact prim_byte g hg
  | utf8 => exact prim_utf8 g hg
  | float n c =>
    simp only [tyOf, Ty.wf, Bool.or_eq_true, beq_iff_eq] at hw
    exact prim_float g hg n c (by rcases hw with (h | h) | h <;> simp [h])
  | void n => exact prim_void g hg n
  | _ => simp [isPrimObj] at hp

/-! ### Dispatch, arrays, composites -/


def isArrObj : Obj → Bool
  | .fixedArray _ _ | .varArray _ _ _ => true
  | _ => false
def isCompObj : Obj → Bool
  | .structure _ _ _ | .union _ _ _ _ | .delimited _ _ _ _ => true
  | _ => false

/-- what the recursion promises about a schema object: each of the three decoders, on the objects it is responsible for -/
def Good (s : Obj) : Prop := ∀ (g : Gen.ReaderS), RdOk g →
  (isPrimObj s = true → Agree s g (Gen.Codec.deserialize_primitive g s) (decR (tyOf s) (toRd g))) ∧
  (isArrObj s = true → ∀ fuel, depth s ≤ fuel →
    Agree s g (Gen.Codec.deserialize_array_rec fuel g s) (decR (tyOf s) (toRd g))) ∧
  (isCompObj s = true → ∀ fuel, depth s ≤ fuel →
    Agree s g (Gen.Codec.deserialize_composite_rec fuel g s) (decR (tyOf s) (toRd g)))

theorem agree_bind_pair {s : Obj} {g : Gen.ReaderS} {x : Py.M (Value × Gen.ReaderS)} {y : Except Wire.Err (Val × Rd)}
    (h : Agree s g x y) : Agree s g (x >>= fun p => pure (p.1, p.2)) y := by
  cases y with
  | error e => have hx : x = .error (errOf e) := h; subst hx; exact (rfl : (Except.error (errOf e) : Py.M _) = _)
  | ok p => obtain ⟨v, r'⟩ := p; obtain ⟨k, hx, hr⟩ := h; subst hx; exact ⟨k, rfl, hr⟩

/-- **`_deserialize_field_value`** dispatches to the decoder that is responsible -/
theorem gen_field_value (s : Obj) (hs : okT s = true) (hG : Good s) (g : Gen.ReaderS) (hg : RdOk g) (fuel : Nat)
    (hf : depth s + 1 ≤ fuel) :
    Agree s g (Gen.Codec.deserialize_field_value_rec fuel g s) (decR (tyOf s) (toRd g)) := by
  obtain ⟨m, rfl⟩ : ∃ m, fuel = m + 1 := ⟨fuel - 1, by omega⟩
  obtain ⟨h1, h2, h3⟩ := hG g hg
  cases s <;> first
    | (simp (config := {decide := true}) only [Gen.Codec.deserialize_field_value_rec, Py.isinstance, if_true, if_false, Bool.or_self]
       exact agree_bind_pair (h1 rfl))
    | (simp (config := {decide := true}) only [Gen.Codec.deserialize_field_value_rec, Py.isinstance, if_true, if_false, Bool.or_self]
       exact agree_bind_pair (h2 rfl m (by omega)))
    | (simp (config := {decide := true}) only [Gen.Codec.deserialize_field_value_rec, Py.isinstance, if_true, if_false, Bool.or_self]
       exact agree_bind_pair (h3 rfl m (by omega)))
    | (simp [okT] at hs)

/-- **`_deserialize_element`** likewise -/
theorem gen_element (s : Obj) (hs : okT s = true) (hG : Good s) (g : Gen.ReaderS) (hg : RdOk g) (fuel : Nat)
    (hf : depth s + 1 ≤ fuel) :
    Agree s g (Gen.Codec.deserialize_element_rec fuel g s) (decR (tyOf s) (toRd g)) := by
  obtain ⟨m, rfl⟩ : ∃ m, fuel = m + 1 := ⟨fuel - 1, by omega⟩
  obtain ⟨h1, h2, h3⟩ := hG g hg
  cases s <;> first
    | (simp (config := {decide := true}) only [Gen.Codec.deserialize_element_rec, Py.isinstance, if_true, if_false, Bool.or_self]
       exact agree_bind_pair (h1 rfl))
    | (simp (config := {decide := true}) only [Gen.Codec.deserialize_element_rec, Py.isinstance, if_true, if_false, Bool.or_self]
       exact agree_bind_pair (h2 rfl m (by omega)))
    | (simp (config := {decide := true}) only [Gen.Codec.deserialize_element_rec, Py.isinstance, if_true, if_false, Bool.or_self]
       exact agree_bind_pair (h3 rfl m (by omega)))
    | (simp [okT] at hs)


theorem isi_boolean (c : Cls) : isinstance .boolean c = (c == .BooleanType || c == .PrimitiveType || c == .SerializableType) := rfl
theorem isi_signed (n : Nat) (m : CastMode) (c : Cls) : isinstance (.signed n m) c =
    (c == .SignedIntegerType || c == .IntegerType || c == .ArithmeticType || c == .PrimitiveType || c == .SerializableType) := rfl
theorem isi_unsigned (n : Nat) (m : CastMode) (c : Cls) : isinstance (.unsigned n m) c =
    (c == .UnsignedIntegerType || c == .IntegerType || c == .ArithmeticType || c == .PrimitiveType || c == .SerializableType) := rfl
theorem isi_byte (c : Cls) : isinstance .byte c =
    (c == .ByteType || c == .UnsignedIntegerType || c == .IntegerType || c == .ArithmeticType || c == .PrimitiveType ||
      c == .SerializableType) := rfl
theorem isi_utf8 (c : Cls) : isinstance .utf8 c =
    (c == .UTF8Type || c == .UnsignedIntegerType || c == .IntegerType || c == .ArithmeticType || c == .PrimitiveType ||
      c == .SerializableType) := rfl
theorem isi_float (n : Nat) (m : CastMode) (c : Cls) : isinstance (.float n m) c =
    (c == .FloatType || c == .ArithmeticType || c == .PrimitiveType || c == .SerializableType) := rfl
theorem isi_void (n : Nat) (c : Cls) : isinstance (.void n) c = (c == .VoidType || c == .SerializableType) := rfl
theorem isi_fixedArray (e : Obj) (n : Nat) (c : Cls) : isinstance (.fixedArray e n) c =
    (c == .FixedLengthArrayType || c == .ArrayType || c == .SerializableType) := rfl
theorem isi_varArray (e : Obj) (n : Nat) (l : Obj) (c : Cls) : isinstance (.varArray e n l) c =
    (c == .VariableLengthArrayType || c == .ArrayType || c == .SerializableType) := rfl
theorem isi_structure (fs : List Obj) (a : Nat) (n : String) (c : Cls) : isinstance (.structure fs a n) c =
    (c == .StructureType || c == .CompositeType || c == .SerializableType) := rfl
theorem isi_union (fs : List Obj) (t : Obj) (a : Nat) (n : String) (c : Cls) : isinstance (.union fs t a n) c =
    (c == .UnionType || c == .CompositeType || c == .SerializableType) := rfl
theorem isi_delimited (i h : Obj) (x a : Nat) (c : Cls) : isinstance (.delimited i h x a) c =
    (c == .DelimitedType || c == .CompositeType || c == .SerializableType) := rfl
theorem isi_service (a b : Obj) (n : String) (c : Cls) : isinstance (.service a b n) c =
    (c == .ServiceType || c == .CompositeType || c == .SerializableType) := rfl
theorem isi_field (d : Obj) (n : String) (c : Cls) : isinstance (.field d n) c = (c == .Field || c == .Attribute) := rfl
theorem isi_paddingField (d : Obj) (c : Cls) : isinstance (.paddingField d) c =
    (c == .PaddingField || c == .Field || c == .Attribute) := rfl

@[simp] theorem error_bind {ε α β : Type} (e : ε) (f : α → Except ε β) : (Except.error e >>= f) = .error e := rfl
@[simp] theorem throw_eq {ε α : Type} (e : ε) : (throw e : Except ε α) = .error e := rfl

/-- `x = f(); return x` and `return f()` have the same normal form -/
theorem bind_ok_self {ε α : Type} (x : Except ε α) : (x >>= fun a => Except.ok a) = x := by
  cases x <;> rfl

/-- the same for a pair that is taken apart and put together again -/
theorem bind_ok_pair {ε α β : Type} (x : Except ε (α × β)) : (x >>= fun p => Except.ok (p.1, p.2)) = x := by
  cases x <;> rfl

theorem ite_bind {ε α β : Type} (c : Prop) [Decidable c] (x y : Except ε α) (f : α → Except ε β) :
    ((if c then x else y) >>= f) = if c then x >>= f else y >>= f := by
  split <;> rfl

theorem except_bind_assoc {ε α β γ : Type} (x : Except ε α) (f : α → Except ε β) (g : β → Except ε γ) :
    (x >>= f >>= g) = x >>= fun a => f a >>= g := by
  cases x <;> rfl

/-- unfold generated code one level and NORMALISE it: class tests on known constructors are decided, binds are associated to the
    right, `x >>= ok` is `x`, `throw` / `pure` are constructors, lookups in constant tables and on `Option`s are evaluated, the
    private helpers the translator found through the call graph (`codec_helper`) are unfolded -/
macro "codec_simp" "[" args:Lean.Parser.Tactic.simpLemma,* "]" : tactic =>
  `(tactic| simp (config := {decide := true}) only [isi_boolean, isi_signed, isi_unsigned, isi_byte, isi_utf8, isi_float, isi_void,
      isi_fixedArray, isi_varArray, isi_structure, isi_union, isi_delimited, isi_service, isi_field, isi_paddingField,
      if_true, if_false, ok_bind, pure_eq_ok, error_bind, throw_eq, Bool.or_self, Bool.or_false, Bool.false_or,
      bind_ok_self, bind_ok_pair, except_bind_assoc, Py.constLookup, Py.optGet, Option.isNone, Option.isSome, codec_helper,
      $args,*])


theorem AgreeWith.elim {α β : Type} {f : α → β} {g : Gen.ReaderS} {x : Py.M (β × Gen.ReaderS)} {y : Except Wire.Err (α × Rd)}
    (h : AgreeWith f g x y) :
    (∃ e, y = .error e ∧ x = .error (errOf e)) ∨ (∃ v k, y = .ok (v, toRd (advance g k)) ∧ x = .ok (f v, advance g k)) := by
  cases y with
  | error e => exact Or.inl ⟨e, rfl, h⟩
  | ok p =>
    obtain ⟨v, r'⟩ := p
    obtain ⟨k, hx, hr⟩ := h
    exact Or.inr ⟨v, k, by rw [hr], hx⟩

theorem AgreeWith.intro_ok {α β : Type} {f : α → β} {g : Gen.ReaderS} (v : α) (k : Nat) :
    AgreeWith f g (.ok (f v, advance g k)) (.ok (v, toRd (advance g k))) := ⟨k, rfl, rfl⟩

theorem AgreeWith.intro_err {α β : Type} {f : α → β} {g : Gen.ReaderS} (e : Wire.Err) :
    AgreeWith f g (.error (errOf e) : Py.M (β × Gen.ReaderS)) (.error e) := rfl

/-- `for _ in range(length): elements.append(_deserialize_element(reader, schema.element_type))` -/
theorem elems_loop (e : Obj) (he : okT e = true) (hG : Good e) (m : Nat) (hm : depth e + 1 ≤ m) (n : Nat) :
    ∀ (g : Gen.ReaderS), RdOk g → ∀ (acc : List Value) (body : List Value × Gen.ReaderS → Nat → Py.M (List Value × Gen.ReaderS)),
      (∀ s i, body s i = (do
        let x ← Gen.Codec.deserialize_element_rec m s.2 e
        Except.ok (s.1 ++ [x.1], x.2))) →
      AgreeWith (fun vs => acc ++ valuesOf e vs) g (Py.forEach (Py.range n) (acc, g) body)
        (decRepR (fun q => decR (tyOf e) q) n (toRd g)) := by
  induction n with
  | zero =>
    intro g hg acc body hb
    refine ⟨0, ?_, by rw [advance_zero]⟩
    simp [Py.forEach, Py.range, valuesOf, advance_zero]
  | succ n ih =>
    intro g hg acc body hb
    rw [forEach_range_succ_const n (acc, g) body _ hb]
    rcases (gen_element e he hG g hg m hm).elim with ⟨e0, hy, hx⟩ | ⟨v, k, hy, hx⟩
    · simp only [decRepR, hy, hx, error_bind]
      exact AgreeWith.intro_err e0
    · simp only [decRepR, hy, hx, ok_bind]
      have := ih (advance g k) (rdOk_advance hg k) (acc ++ [valueOf e v]) body hb
      rcases this.elim with ⟨e1, hy1, hx1⟩ | ⟨vs, k1, hy1, hx1⟩
      · simp only [hy1, hx1, error_bind]
        exact AgreeWith.intro_err e1
      · simp only [hy1, hx1, ok_bind, pure_eq_ok, advance_advance]
        refine ⟨k + k1, ?_, rfl⟩
        simp only [valuesOf, List.append_assoc, List.singleton_append]

/-- the model's values of a `byte` / `utf8` array are byte values -/
def AreBytes (vs : List Val) : Prop := ∀ v ∈ vs, ∃ x : Nat, x < 256 ∧ v = .int x

theorem decRep_bytes (t : Ty) (ht : t = .byte ∨ t = .utf8) (n : Nat) :
    ∀ (r : Rd), r.start ≤ r.off → ∀ vs r', decRepR (fun q => decR t q) n r = .ok (vs, r') → AreBytes vs := by
  induction n with
  | zero =>
    intro r _ vs r' h
    simp only [decRepR, Except.ok.injEq, Prod.mk.injEq] at h
    intro v hv; rw [← h.1] at hv; cases hv
  | succ n ih =>
    intro r hr vs r' h
    have hd : decR t r = .ok (.int (readBits r 8).1, (readBits r 8).2) := by
      rcases ht with rfl | rfl <;> simp only [decR]
    simp only [decRepR, hd, ok_bind] at h
    cases h2 : decRepR (fun q => decR t q) n (readBits r 8).2 with
    | error e => rw [h2] at h; cases h
    | ok p =>
      obtain ⟨ws, r2⟩ := p
      rw [h2] at h
      simp only [ok_bind, pure_eq_ok, Except.ok.injEq, Prod.mk.injEq] at h
      have hr2 : (readBits r 8).2.start ≤ (readBits r 8).2.off := by
        rw [(readBits_spec r 8 hr).2.1]; simp only; omega
      have := ih _ hr2 ws r2 h2
      intro v hv
      rw [← h.1] at hv
      rcases List.mem_cons.mp hv with rfl | hv
      · exact ⟨_, readBits_lt r 8 hr, rfl⟩
      · exact this v hv

theorem bytesOfValues_bytes (e : Obj) (he : e = .byte ∨ e = .utf8) (vs : List Val) (h : AreBytes vs) :
    Py.bytesOfValues (valuesOf e vs) = .ok (vs.map Val.byteOf) := by
  induction vs with
  | nil => simp [valuesOf, Py.bytesOfValues]
  | cons v vs ih =>
    obtain ⟨x, hx, rfl⟩ := h v (by simp)
    have := ih (fun w hw => h w (by simp [hw]))
    rcases he with rfl | rfl <;>
    · simp only [valuesOf, valueOf, Py.bytesOfValues, this, ok_bind, pure_eq_ok, List.map_cons, Val.byteOf]
      rw [if_pos (by omega)]

/-- the tail of `_deserialize_array`: str for UTF-8 arrays, bytes for byte arrays, the list otherwise -/
@[reducible] def arrFinish (e : Obj) (p : List Value × Gen.ReaderS) : Py.M (Value × Gen.ReaderS) :=
  if isinstance e Cls.UTF8Type = true then do
    let t13 ← bytesOfValues p.1
    let t14 ← decodeUtf8 t13
    Except.ok (t14, p.2)
  else
    if isinstance e Cls.ByteType = true then do
      let t16 ← bytesOfValues p.1
      Except.ok (Value.bytes t16, p.2)
    else Except.ok (Value.list p.1, p.2)

theorem arrFinish_other (e : Obj) (he : okT e = true) (h1 : e ≠ .utf8) (h2 : e ≠ .byte) (p : List Value × Gen.ReaderS) :
    arrFinish e p = .ok (.list p.1, p.2) := by
  cases e <;> first
    | (exfalso; exact h1 rfl)
    | (exfalso; exact h2 rfl)
    | (simp [okT] at he; done)
    | (codec_simp [arrFinish])

theorem arrValue_other (e : Obj) (h1 : e ≠ .utf8) (h2 : e ≠ .byte) (vs : List Val) (vals : List Value) :
    arrValue e vs vals = .list vals := by
  cases e <;> first
    | (exfalso; exact h1 rfl)
    | (exfalso; exact h2 rfl)
    | rfl

/-- the descriptor of a delimited type: the inner structure / union with mode `delimited` -/
theorem tyOf_delimited (i h : Obj) (x a : Nat) (hs : okT (.delimited i h x a) = true) :
    okT i = true ∧ a = 8 ∧ isUnsignedOf h Wire.headerBits = true ∧
    ((∃ fs al n, i = .structure fs al n ∧ tyOf (.delimited i h x a) = .struct (tysOf fs) (.delimited x)) ∨
     (∃ fs t al n, i = .union fs t al n ∧ tyOf (.delimited i h x a) = .union (tysOf fs) (.delimited x))) := by
  simp only [okT, Bool.and_eq_true, beq_iff_eq] at hs
  obtain ⟨⟨⟨h1, h2⟩, h3⟩, h4⟩ := hs
  refine ⟨h1, h3, h4, ?_⟩
  cases i <;> simp only [isStructOrUnion, Bool.false_eq_true] at h2
  · exact Or.inl ⟨_, _, _, rfl, by simp only [tyOf]⟩
  · exact Or.inr ⟨_, _, _, _, rfl, by simp only [tyOf]⟩

theorem tyOf_utf8 (e : Obj) (he : okT e = true) (h : (tyOf e).isUtf8 = true) : e = .utf8 := by
  cases e <;> first
    | rfl
    | (simp [okT] at he; done)
    | (simp [tyOf, Ty.isUtf8] at h; done)
    | skip
  rename_i i hd x a
  obtain ⟨_, _, _, h1 | h1⟩ := tyOf_delimited i hd x a he
  · obtain ⟨fs, al, n, _, e2⟩ := h1; rw [e2] at h; simp [Ty.isUtf8] at h
  · obtain ⟨fs, t, al, n, _, e2⟩ := h1; rw [e2] at h; simp [Ty.isUtf8] at h

theorem arr_tail (e : Obj) (he : okT e = true) (vs : List Val) (g' : Gen.ReaderS)
    (hb : e = .byte ∨ e = .utf8 → AreBytes vs) (hu : e = .utf8 → Wire.validUtf8 (vs.map Val.byteOf) = true) :
    arrFinish e (valuesOf e vs, g') = .ok (arrValue e vs (valuesOf e vs), g') := by
  by_cases h1 : e = .utf8
  · subst h1
    codec_simp [arrFinish, bytesOfValues_bytes .utf8 (Or.inr rfl) vs (hb (Or.inr rfl)), Py.decodeUtf8, hu rfl, arrValue]
  · by_cases h2 : e = .byte
    · subst h2
      codec_simp [arrFinish, bytesOfValues_bytes .byte (Or.inl rfl) vs (hb (Or.inl rfl)), arrValue]
    · rw [arrFinish_other e he h1 h2, arrValue_other e h1 h2]

theorem tyOf_byte (e : Obj) (h : e = .byte ∨ e = .utf8) : tyOf e = .byte ∨ tyOf e = .utf8 := by
  rcases h with rfl | rfl
  · exact Or.inl (by simp only [tyOf])
  · exact Or.inr (by simp only [tyOf])

/-- **`_deserialize_array`**, fixed-length arrays -/
theorem gen_fixedArray (e : Obj) (cap : Nat) (hs : okT (.fixedArray e cap) = true) (hw : (tyOf (.fixedArray e cap)).wf = true)
    (hG : Good e) (g : Gen.ReaderS) (hg : RdOk g) (fuel : Nat) (hf : depth (.fixedArray e cap) ≤ fuel) :
    Agree (.fixedArray e cap) g (Gen.Codec.deserialize_array_rec fuel g (.fixedArray e cap))
      (decR (tyOf (.fixedArray e cap)) (toRd g)) := by
  simp only [depth] at hf
  obtain ⟨m, rfl⟩ : ∃ m, fuel = m + 1 := ⟨fuel - 1, by omega⟩
  have he : okT e = true := by simpa only [okT] using hs
  simp only [tyOf, Ty.wf, Bool.and_eq_true, Bool.not_eq_true', decide_eq_true_eq] at hw
  have hnu : e ≠ .utf8 := by
    rintro rfl; simp [tyOf, Ty.isUtf8] at hw
  codec_simp [Gen.Codec.deserialize_array_rec, Obj.capacity, Obj.element_type, tyOf, decR]
  rcases (elems_loop e he hG m (by omega) cap g hg [] _ (fun s i => rfl)).elim with ⟨e0, hy, hx⟩ | ⟨vs, k, hy, hx⟩
  · simp only [hy, hx, error_bind]
    exact AgreeWith.intro_err e0
  · simp only [hy, hx, ok_bind, List.nil_append]
    have hb : e = .byte ∨ e = .utf8 → AreBytes vs := fun h =>
      decRep_bytes (tyOf e) (tyOf_byte e h) cap (toRd g) hg.2 vs _ hy
    have := arr_tail e he vs (advance g k) hb (fun h => absurd h hnu)
    simp only [arrFinish] at this
    rw [this]
    exact ⟨k, by simp only [valueOf], rfl⟩

theorem isUnsignedOf_elim {o : Obj} {n : Nat} (h : isUnsignedOf o n = true) : ∃ c, o = .unsigned n c := by
  cases o <;> simp only [isUnsignedOf, Bool.false_eq_true, beq_iff_eq] at h
  exact ⟨_, by rw [h]⟩

theorem isUtf8_tyOf (e : Obj) (he : okT e = true) : (tyOf e).isUtf8 = true ↔ e = .utf8 :=
  ⟨tyOf_utf8 e he, fun h => by subst h; simp only [tyOf, Ty.isUtf8]⟩

/-- **`_deserialize_array`**, variable-length arrays: length prefix, capacity check, elements, UTF-8 validation -/
theorem gen_varArray (e : Obj) (cap : Nat) (l : Obj) (hs : okT (.varArray e cap l) = true)
    (hG : Good e) (g : Gen.ReaderS) (hg : RdOk g) (fuel : Nat) (hf : depth (.varArray e cap l) ≤ fuel) :
    Agree (.varArray e cap l) g (Gen.Codec.deserialize_array_rec fuel g (.varArray e cap l))
      (decR (tyOf (.varArray e cap l)) (toRd g)) := by
  simp only [depth] at hf
  obtain ⟨m, rfl⟩ : ∃ m, fuel = m + 1 := ⟨fuel - 1, by omega⟩
  simp only [okT, Bool.and_eq_true] at hs
  obtain ⟨he, hl⟩ := hs
  obtain ⟨c, rfl⟩ := isUnsignedOf_elim hl
  obtain ⟨e1, e2, e3⟩ := read_step g (Wire.lenBits cap) hg
  codec_simp [Gen.Codec.deserialize_array_rec, Obj.capacity, Obj.element_type, Obj.length_field_type, Obj.bit_length, tyOf, decR, e1]
  by_cases hc : (readBits (toRd g) (Wire.lenBits cap)).1 > cap
  · rw [if_pos (decide_eq_true hc), if_pos hc]
    exact AgreeWith.intro_err .arrayLength
  · rw [if_neg (by rw [decide_eq_false hc]; exact Bool.false_ne_true), if_neg hc]
    refine AgreeWith.mono (k := Wire.lenBits cap) ?_
    rw [← e2]
    rcases (elems_loop e he hG m (by omega) (readBits (toRd g) (Wire.lenBits cap)).1 (advance g (Wire.lenBits cap)) e3 [] _
        (fun s i => rfl)).elim with
      ⟨e0, hy, hx⟩ | ⟨vs, k, hy, hx⟩
    · simp only [hy, hx, error_bind]
      exact AgreeWith.intro_err e0
    · simp only [hy, hx, ok_bind, List.nil_append]
      have hb : e = .byte ∨ e = .utf8 → AreBytes vs := fun h =>
        decRep_bytes (tyOf e) (tyOf_byte e h) _ _ e3.2 vs _ hy
      by_cases hu : (tyOf e).isUtf8 = true ∧ Wire.validUtf8 (vs.map Val.byteOf) = false
      · have hutf : e = .utf8 := (isUtf8_tyOf e he).mp hu.1
        subst hutf
        simp only [hu.1, hu.2, Bool.not_false, Bool.and_self, if_true]
        codec_simp [bytesOfValues_bytes .utf8 (Or.inr rfl) vs (hb (Or.inr rfl)), Py.decodeUtf8, hu.2]
        exact AgreeWith.intro_err .value
      · have hcond : ((tyOf e).isUtf8 && !Wire.validUtf8 (vs.map Val.byteOf)) = false := by
          cases h1 : (tyOf e).isUtf8 <;> cases h2 : Wire.validUtf8 (vs.map Val.byteOf) <;> simp_all
        have hvalid : e = .utf8 → Wire.validUtf8 (vs.map Val.byteOf) = true := by
          intro h
          have := (isUtf8_tyOf e he).mpr h
          cases h2 : Wire.validUtf8 (vs.map Val.byteOf)
          · exact absurd ⟨this, h2⟩ hu
          · rfl
        have := arr_tail e he vs (advance (advance g (Wire.lenBits cap)) k) hb hvalid
        simp only [arrFinish] at this
        simp only [hcond, Bool.false_eq_true, if_false, this, pure_eq_ok]
        exact ⟨k, by simp only [valueOf], rfl⟩


/-- `x.alignment_requirement` of a well-formed type object is the descriptor's alignment -/
theorem align_ok : ∀ (d : Obj), okT d = true → Obj.alignment_requirement d = .ok (tyOf d).align
  | .boolean, _ | .signed _ _, _ | .unsigned _ _, _ | .byte, _ | .utf8, _ | .float _ _, _ | .void _, _ => by
      simp only [Obj.alignment_requirement, tyOf, Ty.align, pure_eq_ok]
  | .fixedArray e _, h => by
      simp only [okT] at h
      simp only [Obj.alignment_requirement, tyOf, Ty.align, align_ok e h]
  | .varArray e _ _, h => by
      simp only [okT, Bool.and_eq_true] at h
      simp only [Obj.alignment_requirement, tyOf, Ty.align, align_ok e h.1]
  | .structure _ a _, h => by
      simp only [okT, Bool.and_eq_true, beq_iff_eq] at h
      simp only [Obj.alignment_requirement, tyOf, Ty.align, pure_eq_ok, h.2]
  | .union _ _ a _, h => by
      simp only [okT, Bool.and_eq_true, beq_iff_eq] at h
      simp only [Obj.alignment_requirement, tyOf, Ty.align, pure_eq_ok, h.1.2]
  | .delimited i hd x a, h => by
      obtain ⟨_, ha, _, h1 | h1⟩ := tyOf_delimited i hd x a h
      · obtain ⟨fs, al, n, _, e2⟩ := h1
        rw [e2]; simp only [Obj.alignment_requirement, Ty.align, pure_eq_ok, ha]
      · obtain ⟨fs, t, al, n, _, e2⟩ := h1
        rw [e2]; simp only [Obj.alignment_requirement, Ty.align, pure_eq_ok, ha]
  | .service _ _ _, h | .field _ _, h | .paddingField _, h => by simp [okT] at h

theorem void_of (d : Obj) (hd : okT d = true) (hv : (tyOf d).isVoid = true) : ∃ w, d = .void w := by
  cases d <;> first
    | exact ⟨_, rfl⟩
    | (simp [okT] at hd; done)
    | (simp [tyOf, Ty.isVoid] at hv; done)
    | skip
  rename_i i h x a
  obtain ⟨_, _, _, h1 | h1⟩ := tyOf_delimited i h x a hd
  · obtain ⟨fs, al, n, _, e2⟩ := h1; rw [e2] at hv; simp [Ty.isVoid] at hv
  · obtain ⟨fs, t, al, n, _, e2⟩ := h1; rw [e2] at hv; simp [Ty.isVoid] at hv

theorem depth_le_depthFs {f : Obj} {fs : List Obj} (h : f ∈ fs) : depth f ≤ depthFs fs := by
  induction fs with
  | nil => cases h
  | cons a fs ih =>
    simp only [depthFs]
    rcases List.mem_cons.mp h with rfl | h
    · omega
    · have := ih h; omega

/-- the body of the field loop of `_deserialize_composite` (compared with the generated term by `rfl`) -/
@[reducible] def structBody (m : Nat) (x : List (String × Value) × Gen.ReaderS) (field : Obj) :
    Py.M (List (String × Value) × Gen.ReaderS) := do
  let t32 ← field.data_type
  let t33 ← t32.alignment_requirement
  let reader ← Gen.BitReader.align_to x.2 t33
  if isinstance field Cls.PaddingField = true then do
      let t34 ← field.data_type
      let t35 ← t34.bit_length
      let __x ← Gen.BitReader.read_bits reader t35
      Except.ok (x.1, __x.2)
    else do
      let t38 ← field.data_type
      let __x ← Gen.Codec.deserialize_field_value_rec m reader t38
      let t41 ← field.name
      Except.ok (dictSet x.1 t41 __x.1, __x.2)

theorem forEach_cons {α σ : Type} (a : α) (l : List α) (init : σ) (body : σ → α → Py.M σ) :
    Py.forEach (a :: l) init body = body init a >>= fun s => Py.forEach l s body := rfl

/-- `for field in schema.fields: reader.align_to(...); <padding | field value>` -/
theorem fields_loop (m : Nat) : ∀ (fs : List Obj), okFs fs = true → Wire.wfFields (tysOf fs) = true →
    (∀ d n, Obj.field d n ∈ fs → Good d) → depthFs fs + 1 ≤ m →
    ∀ (g : Gen.ReaderS), RdOk g → ∀ acc,
      AgreeWith (fun vs => structDict fs vs acc) g (Py.forEach fs (acc, g) (structBody m)) (decFieldsR (tysOf fs) (toRd g)) := by
  intro fs
  induction fs with
  | nil =>
    intro _ _ _ _ g hg acc
    exact ⟨0, by simp [Py.forEach, structDict, advance_zero], by simp only [advance_zero, tysOf, decFieldsR]⟩
  | cons f fs ih =>
    intro hok hwf hG hm g hg acc
    simp only [depthFs] at hm
    simp only [tysOf, Wire.wfFields, Bool.and_eq_true] at hwf
    rw [forEach_cons]
    cases f with
    | field d n =>
      simp only [okFs, Bool.and_eq_true, Bool.not_eq_true'] at hok
      obtain ⟨⟨hd, hnv⟩, hrest⟩ := hok
      obtain ⟨k, a1, a2⟩ := gen_reader_align_to g (tyOf d).align
      codec_simp [structBody, Obj.data_type, Obj.name, align_ok d hd, a1, tysOf, tyOf, decFieldsR]
      rw [← a2]
      have hGd := hG d n (by simp)
      simp only [depth] at hm
      rcases (gen_field_value d hd hGd (advance g k) (rdOk_advance hg k) m (by omega)).elim with
        ⟨e0, hy, hx⟩ | ⟨v, k1, hy, hx⟩
      · simp only [hy, hx, error_bind]
        exact AgreeWith.intro_err e0
      · simp only [hy, hx, ok_bind, advance_advance]
        have := ih hrest hwf.2 (fun d' n' h' => hG d' n' (by simp [h'])) (by omega) (advance g (k + k1))
          (rdOk_advance hg _) (dictSet acc n (valueOf d v))
        rcases this.elim with ⟨e1, hy1, hx1⟩ | ⟨vs, k2, hy1, hx1⟩
        · simp only [hy1, hx1, error_bind]
          exact AgreeWith.intro_err e1
        · simp only [hy1, hx1, ok_bind, pure_eq_ok, advance_advance]
          exact ⟨k + k1 + k2, by simp only [structDict], rfl⟩
    | paddingField d =>
      simp only [okFs, Bool.and_eq_true] at hok
      obtain ⟨⟨hd, hv⟩, hrest⟩ := hok
      obtain ⟨w, rfl⟩ := void_of d hd hv
      obtain ⟨k, a1, a2⟩ := gen_reader_align_to g (Ty.void w).align
      obtain ⟨e1, e2, e3⟩ := read_step (advance g k) w (rdOk_advance hg k)
      codec_simp [structBody, Obj.data_type, Obj.bit_length, align_ok (.void w) hd, a1, e1, tysOf, tyOf, decFieldsR, decR]
      rw [← a2, ← e2, advance_advance]
      have := ih hrest hwf.2 (fun d' n' h' => hG d' n' (by simp [h'])) (by omega) (advance g (k + w))
        (rdOk_advance hg _) acc
      rcases this.elim with ⟨e1, hy1, hx1⟩ | ⟨vs, k2, hy1, hx1⟩
      · simp only [hy1, hx1, error_bind]
        exact AgreeWith.intro_err e1
      · simp only [hy1, hx1, ok_bind, pure_eq_ok, advance_advance]
        exact ⟨k + w + k2, by simp only [structDict], rfl⟩
    | _ => simp [okFs] at hok

theorem tysOf_length (fs : List Obj) : (tysOf fs).length = fs.length := by
  induction fs with
  | nil => rfl
  | cons f fs ih => simp only [tysOf, List.length_cons, ih]

/-- **`_deserialize_composite`**, StructureType branch -/
theorem gen_structure (fs : List Obj) (a : Nat) (n : String) (hs : okT (.structure fs a n) = true)
    (hw : (tyOf (.structure fs a n)).wf = true) (hG : ∀ d n, Obj.field d n ∈ fs → Good d)
    (g : Gen.ReaderS) (hg : RdOk g) (fuel : Nat) (hf : depth (.structure fs a n) ≤ fuel) :
    Agree (.structure fs a n) g (Gen.Codec.deserialize_composite_rec fuel g (.structure fs a n))
      (decR (tyOf (.structure fs a n)) (toRd g)) := by
  simp only [depth] at hf
  obtain ⟨m, rfl⟩ : ∃ m, fuel = m + 1 := ⟨fuel - 1, by omega⟩
  simp only [okT, Bool.and_eq_true, beq_iff_eq] at hs
  obtain ⟨hfs, rfl⟩ := hs
  simp only [tyOf, Ty.wf, Bool.and_eq_true] at hw
  codec_simp [Gen.Codec.deserialize_composite_rec, Obj.fields, Obj.alignment_requirement, tyOf, decR, unwrapDelimR]
  have hl := fields_loop m fs hfs hw.1 hG (by omega) g hg []
  rcases hl.elim with ⟨e0, hy, hx⟩ | ⟨vs, k, hy, hx⟩
  · simp only [hy, hx, error_bind]
    exact AgreeWith.intro_err e0
  · obtain ⟨k2, a1, a2⟩ := gen_reader_align_to (advance g k) 8
    simp only [hy, hx, ok_bind, a1, advance_advance]
    refine ⟨k + k2, by simp only [valueOf], ?_⟩
    rw [← a2, advance_advance]

theorem index_cons_succ {α : Type} (a : α) (l : List α) (i : Nat) : Py.index (a :: l) (i + 1) = Py.index l i := by
  simp only [Py.index, List.getElem?_cons_succ]

theorem index_cons_zero {α : Type} (a : α) (l : List α) : Py.index (a :: l) 0 = .ok a := rfl

/-- `field = schema.fields[tag]` of a union: a `Field` (unions have no padding), whose type the model's `decVariantR` decodes -/
theorem variant_lookup : ∀ (fs : List Obj) (tag : Nat), okFs fs = true → Wire.noVoid (tysOf fs) = true → tag < fs.length →
    ∃ d n, Py.index fs tag = .ok (.field d n) ∧ Obj.field d n ∈ fs ∧ okT d = true ∧
      (∀ r, decVariantR (tysOf fs) tag r = decR (tyOf d) r) ∧ (∀ v, variantValue fs tag v = .dict [(n, valueOf d v)])
  | [], _, _, _, h => by simp at h
  | .field d n :: fs, 0, hok, _, _ => by
      simp only [okFs, Bool.and_eq_true] at hok
      exact ⟨d, n, rfl, by simp, hok.1.1, fun r => by simp only [tysOf, tyOf, decVariantR], fun v => by simp only [variantValue]⟩
  | .field d n :: fs, tag + 1, hok, hnv, h => by
      simp only [okFs, Bool.and_eq_true] at hok
      simp only [tysOf, Wire.noVoid, Bool.and_eq_true] at hnv
      obtain ⟨d', n', h1, h2, h3, h4, h5⟩ := variant_lookup fs tag hok.2 hnv.2 (by simpa using h)
      exact ⟨d', n', by rw [index_cons_succ, h1], by simp [h2], h3, fun r => by simp only [tysOf, decVariantR, h4],
        fun v => by simp only [variantValue, h5]⟩
  | .paddingField d :: fs, _, hok, hnv, _ => by
      simp only [okFs, Bool.and_eq_true] at hok
      simp only [tysOf, tyOf, Wire.noVoid, Bool.and_eq_true, Bool.not_eq_true'] at hnv
      rw [hok.1.2] at hnv
      exact absurd hnv.1 (by simp)
  | .boolean :: _, _, hok, _, _ | .signed _ _ :: _, _, hok, _, _ | .unsigned _ _ :: _, _, hok, _, _ | .byte :: _, _, hok, _, _
  | .utf8 :: _, _, hok, _, _ | .float _ _ :: _, _, hok, _, _ | .void _ :: _, _, hok, _, _ | .fixedArray _ _ :: _, _, hok, _, _
  | .varArray _ _ _ :: _, _, hok, _, _ | .structure _ _ _ :: _, _, hok, _, _ | .union _ _ _ _ :: _, _, hok, _, _
  | .delimited _ _ _ _ :: _, _, hok, _, _ | .service _ _ _ :: _, _, hok, _, _ => by simp [okFs] at hok

/-- **`_deserialize_composite`**, UnionType branch -/
theorem gen_union (fs : List Obj) (t : Obj) (a : Nat) (n : String) (hs : okT (.union fs t a n) = true)
    (hw : (tyOf (.union fs t a n)).wf = true) (hG : ∀ d n, Obj.field d n ∈ fs → Good d)
    (g : Gen.ReaderS) (hg : RdOk g) (fuel : Nat) (hf : depth (.union fs t a n) ≤ fuel) :
    Agree (.union fs t a n) g (Gen.Codec.deserialize_composite_rec fuel g (.union fs t a n))
      (decR (tyOf (.union fs t a n)) (toRd g)) := by
  simp only [depth] at hf
  obtain ⟨m, rfl⟩ : ∃ m, fuel = m + 1 := ⟨fuel - 1, by omega⟩
  simp only [okT, Bool.and_eq_true, beq_iff_eq] at hs
  obtain ⟨⟨hfs, rfl⟩, ht⟩ := hs
  obtain ⟨c, rfl⟩ := isUnsignedOf_elim ht
  simp only [tyOf, Ty.wf, Bool.and_eq_true] at hw
  obtain ⟨e1, e2, e3⟩ := read_step g (Wire.tagBits fs.length) hg
  codec_simp [Gen.Codec.deserialize_composite_rec, Obj.fields, Obj.alignment_requirement, Obj.tag_field_type, Obj.full_name,
    Obj.bit_length, tyOf, decR, unwrapDelimR, tysOf_length, e1]
  by_cases hc : (readBits (toRd g) (Wire.tagBits fs.length)).1 ≥ fs.length
  · rw [if_pos (decide_eq_true hc), if_pos hc]
    exact AgreeWith.intro_err .unionTag
  · rw [if_neg (by rw [decide_eq_false hc]; exact Bool.false_ne_true), if_neg hc]
    obtain ⟨d, nm, h1, h2, h3, h4, h5⟩ := variant_lookup fs _ hfs hw.1.1.1.2 (by omega : (readBits (toRd g) (Wire.tagBits fs.length)).1 < fs.length)
    refine AgreeWith.mono (k := Wire.tagBits fs.length) ?_
    rw [← e2, h4]
    have hd : depth d ≤ depthFs fs := by
      have := depth_le_depthFs h2; simpa only [depth] using this
    codec_simp [h1, Obj.data_type, Obj.name]
    rcases (gen_field_value d h3 (hG d nm h2) (advance g (Wire.tagBits fs.length)) e3 m (by omega)).elim with
      ⟨e0, hy, hx⟩ | ⟨v, k, hy, hx⟩
    · simp only [hy, hx, error_bind]
      exact AgreeWith.intro_err e0
    · obtain ⟨k2, a1, a2⟩ := gen_reader_align_to (advance (advance g (Wire.tagBits fs.length)) k) 8
      simp only [hy, hx, ok_bind, a1, pure_eq_ok]
      refine ⟨k + k2, by simp only [valueOf, h5, advance_advance, Nat.add_assoc], ?_⟩
      rw [← a2]; simp only [advance_advance, Nat.add_assoc]

theorem decR_delimited (i h : Obj) (x a : Nat) (hs : okT (.delimited i h x a) = true) (r : Rd) :
    decR (tyOf (.delimited i h x a)) r = unwrapDelimR (.delimited x) r (fun q => decR (tyOf i) q) := by
  obtain ⟨_, _, _, h1 | h1⟩ := tyOf_delimited i h x a hs
  · obtain ⟨fs, al, n, rfl, e2⟩ := h1
    rw [e2]; simp only [tyOf, decR, unwrapDelimR]
  · obtain ⟨fs, t, al, n, rfl, e2⟩ := h1
    rw [e2]; simp only [tyOf, decR, unwrapDelimR]

theorem message_name_ok (i : Obj) (h : isStructOrUnion i = true) :
    ∃ s, (if i.hasattr "full_name" = true then i.full_name else Except.ok "") = .ok s := by
  cases i <;> simp only [isStructOrUnion, Bool.false_eq_true] at h
  all_goals
    cases hh : Obj.hasattr _ "full_name"
    · exact ⟨"", by simp only [Bool.false_eq_true, if_false]⟩
    · exact ⟨_, by simp only [if_true, Obj.full_name, pure_eq_ok]; rfl⟩

/-- **`_deserialize_composite`**, DelimitedType branch: header, check against `remaining_bits`, bounded sub-reader -/
theorem gen_delimited (i h : Obj) (x a : Nat) (hs : okT (.delimited i h x a) = true) (hG : Good i)
    (g : Gen.ReaderS) (hg : RdOk g) (fuel : Nat) (hf : depth (.delimited i h x a) ≤ fuel) :
    Agree (.delimited i h x a) g (Gen.Codec.deserialize_composite_rec fuel g (.delimited i h x a))
      (decR (tyOf (.delimited i h x a)) (toRd g)) := by
  simp only [depth] at hf
  obtain ⟨m, rfl⟩ : ∃ m, fuel = m + 1 := ⟨fuel - 1, by omega⟩
  rw [decR_delimited i h x a hs]
  have hs' := hs
  simp only [okT, Bool.and_eq_true, beq_iff_eq] at hs'
  obtain ⟨⟨⟨hi, hsu⟩, _⟩, hh⟩ := hs'
  obtain ⟨c, rfl⟩ := isUnsignedOf_elim hh
  obtain ⟨e1, e2, e3⟩ := read_step g Wire.headerBits hg
  have hrem := gen_remaining_bits (advance g Wire.headerBits) e3.2
  codec_simp [Gen.Codec.deserialize_composite_rec, Obj.delimiter_header_type, Obj.inner_type, Obj.bit_length, e1, hrem, unwrapDelimR]
  rw [← e2]
  by_cases hc : (readBits (toRd g) Wire.headerBits).1 * 8 > (toRd (advance g Wire.headerBits)).remaining
  · -- the guard, in whichever orientation the source spells it
    have hc1 : decide ((toRd (advance g Wire.headerBits)).remaining < (readBits (toRd g) Wire.headerBits).1 * 8) = true :=
      decide_eq_true hc
    have hc2 : decide ((readBits (toRd g) Wire.headerBits).1 * 8 ≤ (toRd (advance g Wire.headerBits)).remaining) = false :=
      decide_eq_false (by omega)
    obtain ⟨s, hmsg⟩ := message_name_ok i hsu
    simp only [hc, hc1, hc2, decide_true, decide_false, if_true, if_false, Bool.false_eq_true, hmsg, ok_bind, hrem, error_bind]
    exact AgreeWith.intro_err .delimiterHeader
  · have hc1 : decide ((toRd (advance g Wire.headerBits)).remaining < (readBits (toRd g) Wire.headerBits).1 * 8) = false :=
      decide_eq_false hc
    have hc2 : decide ((readBits (toRd g) Wire.headerBits).1 * 8 ≤ (toRd (advance g Wire.headerBits)).remaining) = true :=
      decide_eq_true (by omega)
    obtain ⟨b1, b2, b3⟩ := gen_bounded_subreader (advance g Wire.headerBits) ((readBits (toRd g) Wire.headerBits).1 * 8)
    have hcomp : isCompObj i = true := by
      cases i <;> simp only [isStructOrUnion, Bool.false_eq_true] at hsu <;> rfl
    have hsubok : RdOk ⟨(advance g Wire.headerBits).data, (advance g Wire.headerBits).bit_offset,
        (advance g Wire.headerBits).bit_offset, some ((readBits (toRd g) Wire.headerBits).1 * 8)⟩ := ⟨e3.1, Nat.le_refl _⟩
    have := ((hG _ hsubok).2.2 hcomp m (by omega))
    simp only [hc, hc1, hc2, decide_true, decide_false, if_true, if_false, Bool.false_eq_true, b1, ok_bind]
    rw [← b2, ← b3]
    rcases this.elim with ⟨e0, hy, hx⟩ | ⟨v, k, hy, hx⟩
    · simp only [hy, hx, error_bind]
      exact AgreeWith.intro_err e0
    · simp only [hy, hx, ok_bind, pure_eq_ok, advance_advance]
      exact ⟨_, by simp only [valueOf], rfl⟩

theorem wf_inner_of_delimited (i h : Obj) (x a : Nat) (hs : okT (.delimited i h x a) = true)
    (hw : (tyOf (.delimited i h x a)).wf = true) : (tyOf i).wf = true := by
  obtain ⟨_, _, _, h1 | h1⟩ := tyOf_delimited i h x a hs
  · obtain ⟨fs, al, n, rfl, e2⟩ := h1
    rw [e2] at hw
    simp only [Ty.wf, Bool.and_eq_true] at hw
    simp only [tyOf, Ty.wf, Wire.modeOk, hw.1, Bool.and_self]
  · obtain ⟨fs, t, al, n, rfl, e2⟩ := h1
    rw [e2] at hw
    simp only [Ty.wf, Bool.and_eq_true] at hw
    simp only [tyOf, Ty.wf, Wire.modeOk, hw.1.1.1.1, hw.1.1.1.2, hw.1.1.2, hw.1.2, Bool.and_self]

mutual
/-- **Every decoder on every well-formed schema object**: by recursion over the object graph -/
theorem good : ∀ (s : Obj), okT s = true → (tyOf s).wf = true → Good s
  | .boolean, _, hw | .signed _ _, _, hw | .unsigned _ _, _, hw | .byte, _, hw | .utf8, _, hw | .float _ _, _, hw | .void _, _, hw =>
      fun g hg => ⟨fun _ => gen_primitive _ rfl hw g hg, fun h => by simp [isArrObj] at h, fun h => by simp [isCompObj] at h⟩
  | .fixedArray e cap, hs, hw => fun g hg =>
      have he : okT e = true := by simpa only [okT] using hs
      have hwe : (tyOf e).wf = true := by
        simp only [tyOf, Ty.wf, Bool.and_eq_true] at hw; exact hw.1.1.1
      ⟨fun h => by simp [isPrimObj] at h, fun _ fuel hf => gen_fixedArray e cap hs hw (good e he hwe) g hg fuel hf,
        fun h => by simp [isCompObj] at h⟩
  | .varArray e cap l, hs, hw => fun g hg =>
      have he : okT e = true := by simp only [okT, Bool.and_eq_true] at hs; exact hs.1
      have hwe : (tyOf e).wf = true := by
        simp only [tyOf, Ty.wf, Bool.and_eq_true] at hw; exact hw.1.1.1
      ⟨fun h => by simp [isPrimObj] at h, fun _ fuel hf => gen_varArray e cap l hs (good e he hwe) g hg fuel hf,
        fun h => by simp [isCompObj] at h⟩
  | .structure fs a n, hs, hw => fun g hg =>
      have hfs : okFs fs = true := by simp only [okT, Bool.and_eq_true] at hs; exact hs.1
      have hwf : Wire.wfFields (tysOf fs) = true := by
        simp only [tyOf, Ty.wf, Bool.and_eq_true] at hw; exact hw.1
      ⟨fun h => by simp [isPrimObj] at h, fun h => by simp [isArrObj] at h,
        fun _ fuel hf => gen_structure fs a n hs hw (good_all fs hfs hwf) g hg fuel hf⟩
  | .union fs t a n, hs, hw => fun g hg =>
      have hfs : okFs fs = true := by simp only [okT, Bool.and_eq_true] at hs; exact hs.1.1
      have hwf : Wire.wfFields (tysOf fs) = true := by
        simp only [tyOf, Ty.wf, Bool.and_eq_true] at hw; exact hw.1.1.1.1
      ⟨fun h => by simp [isPrimObj] at h, fun h => by simp [isArrObj] at h,
        fun _ fuel hf => gen_union fs t a n hs hw (good_all fs hfs hwf) g hg fuel hf⟩
  | .delimited i h x a, hs, hw => fun g hg =>
      have hi : okT i = true := (tyOf_delimited i h x a hs).1
      ⟨fun h => by simp [isPrimObj] at h, fun h => by simp [isArrObj] at h,
        fun _ fuel hf => gen_delimited i h x a hs (good i hi (wf_inner_of_delimited i h x a hs hw)) g hg fuel hf⟩
  | .service _ _ _, hs, _ | .field _ _, hs, _ | .paddingField _, hs, _ => by simp [okT] at hs
theorem good_all : ∀ (fs : List Obj), okFs fs = true → Wire.wfFields (tysOf fs) = true →
    ∀ d n, Obj.field d n ∈ fs → Good d
  | [], _, _, _, _, h => by cases h
  | .field d' n' :: fs, hok, hwf, d, n, h => by
      simp only [okFs, Bool.and_eq_true] at hok
      simp only [tysOf, tyOf, Wire.wfFields, Bool.and_eq_true] at hwf
      rcases List.mem_cons.mp h with h | h
      · cases h
        exact good d' hok.1.1 hwf.1.1
      · exact good_all fs hok.2 hwf.2 d n h
  | .paddingField d' :: fs, hok, hwf, d, n, h => by
      simp only [okFs, Bool.and_eq_true] at hok
      simp only [tysOf, Wire.wfFields, Bool.and_eq_true] at hwf
      rcases List.mem_cons.mp h with h | h
      · cases h
      · exact good_all fs hok.2 hwf.2 d n h
  | .boolean :: _, hok, _, _, _, _ | .signed _ _ :: _, hok, _, _, _, _ | .unsigned _ _ :: _, hok, _, _, _, _
  | .byte :: _, hok, _, _, _, _ | .utf8 :: _, hok, _, _, _, _ | .float _ _ :: _, hok, _, _, _, _ | .void _ :: _, hok, _, _, _, _
  | .fixedArray _ _ :: _, hok, _, _, _, _ | .varArray _ _ _ :: _, hok, _, _, _, _ | .structure _ _ _ :: _, hok, _, _, _, _
  | .union _ _ _ _ :: _, hok, _, _, _, _ | .delimited _ _ _ _ :: _, hok, _, _, _, _ | .service _ _ _ :: _, hok, _, _, _, _ => by
      simp [okFs] at hok
end


/-- the outcome of `deserialize` that corresponds to an outcome of the model -/
def liftTop (s : Obj) : Except Wire.Err Val → Py.M Value
  | .ok v => .ok (valueOf s v)
  | .error e => .error (errOf e)

theorem rdOk_initial (data : List Nat) (hb : IsBytes data) : RdOk ⟨data, 0, 0, none⟩ := ⟨hb, Nat.le_refl _⟩

theorem toRd_initial (data : List Nat) : toRd ⟨data, 0, 0, none⟩ = ⟨bytesToBits data, 0, 0, none⟩ := rfl

/-- running a decoder from the initial reader and dropping the final reader -/
theorem top_of_agree {s : Obj} {g : Gen.ReaderS} {x : Py.M (Value × Gen.ReaderS)} {y : Except Wire.Err (Val × Rd)}
    (h : Agree s g x y) :
    (x >>= fun p => Except.ok p.1) = liftTop s (y >>= fun p => pure p.1) := by
  rcases h.elim with ⟨e0, hy, hx⟩ | ⟨v, k, hy, hx⟩
  · rw [hy, hx]; rfl
  · rw [hy, hx]; rfl

theorem inner_sealed (s : Obj) (hs : okT s = true) (h : isStructOrUnion s = true) :
    (tyOf s).inner = tyOf s ∧ (tyOf s).isDelimited = false := by
  cases s <;> simp only [isStructOrUnion, Bool.false_eq_true] at h
  · exact ⟨by simp only [tyOf, Ty.inner], by simp only [tyOf, Ty.isDelimited]⟩
  · exact ⟨by simp only [tyOf, Ty.inner], by simp only [tyOf, Ty.isDelimited]⟩

theorem inner_delimited (i h : Obj) (x a : Nat) (hs : okT (.delimited i h x a) = true) :
    (tyOf (.delimited i h x a)).inner = tyOf i ∧ (tyOf (.delimited i h x a)).isDelimited = true := by
  obtain ⟨_, _, _, h1 | h1⟩ := tyOf_delimited i h x a hs
  · obtain ⟨fs, al, n, rfl, e2⟩ := h1
    rw [e2]; exact ⟨by simp only [tyOf, Ty.inner], by simp only [Ty.isDelimited]⟩
  · obtain ⟨fs, t, al, n, rfl, e2⟩ := h1
    rw [e2]; exact ⟨by simp only [tyOf, Ty.inner], by simp only [Ty.isDelimited]⟩

/-- **`deserialize`** on a structure or union type -/
theorem gen_deserialize_sealed (s : Obj) (hs : okT s = true) (hsu : isStructOrUnion s = true) (hw : (tyOf s).wf = true)
    (hd : depth s ≤ Py.recursionLimit) (data : List Nat) (hb : IsBytes data) (hdr : Bool) :
    Gen.Codec.deserialize s data hdr = liftTop s (deserializeR (tyOf s) (bytesToBits data) hdr) := by
  obtain ⟨hin, hdl⟩ := inner_sealed s hs hsu
  have hcomp : isCompObj s = true := by
    cases s <;> simp only [isStructOrUnion, Bool.false_eq_true] at hsu <;> rfl
  have hA := ((good s hs hw) _ (rdOk_initial data hb)).2.2 hcomp _ hd
  rw [toRd_initial] at hA
  cases hdr with
  | true =>
    cases s <;> simp only [isStructOrUnion, Bool.false_eq_true] at hsu <;>
    · simp only [deserializeR, hdl, Bool.not_false, Bool.and_self, if_true]
      codec_simp [Gen.Codec.deserialize]
      rfl
  | false =>
    have := top_of_agree hA
    simp only [deserializeR, Bool.false_and, Bool.false_eq_true, if_false, hin]
    rw [← this]
    cases s <;> simp only [isStructOrUnion, Bool.false_eq_true] at hsu <;>
    · codec_simp [Gen.Codec.deserialize, Gen.Codec.deserialize_composite, Gen.BitReader.init, Bool.false_and]

theorem valueOf_delimited (i h : Obj) (x a : Nat) (v : Val) : valueOf (.delimited i h x a) v = valueOf i v := by
  cases v <;> simp only [valueOf]

theorem liftTop_delimited (i h : Obj) (x a : Nat) (y : Except Wire.Err Val) : liftTop (.delimited i h x a) y = liftTop i y := by
  cases y with
  | error e => rfl
  | ok v => simp only [liftTop, valueOf_delimited]

/-- **`deserialize`** on a delimited type, with or without the delimiter header -/
theorem gen_deserialize_delimited (i h : Obj) (x a : Nat) (hs : okT (.delimited i h x a) = true)
    (hw : (tyOf (.delimited i h x a)).wf = true) (hd : depth (.delimited i h x a) ≤ Py.recursionLimit)
    (data : List Nat) (hb : IsBytes data) (hdr : Bool) :
    Gen.Codec.deserialize (.delimited i h x a) data hdr =
      liftTop (.delimited i h x a) (deserializeR (tyOf (.delimited i h x a)) (bytesToBits data) hdr) := by
  obtain ⟨hin, hdl⟩ := inner_delimited i h x a hs
  have hs' := hs
  simp only [okT, Bool.and_eq_true, beq_iff_eq] at hs'
  obtain ⟨⟨⟨hi, hsu⟩, _⟩, hh⟩ := hs'
  have hcomp : isCompObj i = true := by
    cases i <;> simp only [isStructOrUnion, Bool.false_eq_true] at hsu <;> rfl
  have hGi := good i hi (wf_inner_of_delimited i h x a hs hw)
  simp only [depth] at hd
  rw [liftTop_delimited]
  cases hdr with
  | false =>
    have hA := (hGi _ (rdOk_initial data hb)).2.2 hcomp Py.recursionLimit (by omega)
    rw [toRd_initial] at hA
    have := top_of_agree hA
    simp only [deserializeR, Bool.false_and, Bool.false_eq_true, if_false, hin]
    rw [← this]
    codec_simp [Gen.Codec.deserialize, Gen.Codec.deserialize_composite, Gen.BitReader.init, Bool.false_and, Obj.inner_type]
  | true =>
    -- with the header the entry point is the DelimitedType branch of `_deserialize_composite` on the initial reader, whether it
    -- spells that branch out once more (one frame less) or delegates to it
    have key : ∃ F, depth i + 1 ≤ F ∧ Gen.Codec.deserialize (.delimited i h x a) data true =
        (Gen.Codec.deserialize_composite_rec F ⟨data, 0, 0, none⟩ (.delimited i h x a) >>= fun p => Except.ok p.1) := by
      first
        | (refine ⟨Py.recursionLimit, hd, ?_⟩
           codec_simp [Gen.Codec.deserialize, Gen.Codec.deserialize_composite, Gen.BitReader.init, Obj.inner_type, Bool.not_true,
             Bool.and_false, Bool.false_eq_true, ite_bind]
           done)
        | (refine ⟨Py.recursionLimit + 1, by omega, ?_⟩
           codec_simp [Gen.Codec.deserialize, Gen.Codec.deserialize_composite, Gen.BitReader.init, Obj.inner_type,
             Obj.delimiter_header_type, Gen.Codec.deserialize_composite_rec, Bool.not_true, Bool.and_false, Bool.false_eq_true,
             ite_bind]
           done)
    obtain ⟨F, hF, hEq⟩ := key
    have hGs := good (.delimited i h x a) hs hw
    have hA := (hGs _ (rdOk_initial data hb)).2.2 rfl F (by simp only [depth]; exact hF)
    rw [toRd_initial] at hA
    have := top_of_agree hA
    rw [liftTop_delimited] at this
    simp only [deserializeR, hdl, Bool.not_true, Bool.and_false, Bool.false_eq_true, if_false, if_true]
    rw [hEq, this]

/-- **`deserialize`**: for every well-formed composite schema object (structure, union, or delimited) whose nesting depth fits
    into CPython's recursion limit, every byte string and both values of `with_delimiter_header`, the generated function returns
    what the model's `deserializeR` returns: the Python value of the model's value, or the exception of the model's error class. -/
theorem gen_deserialize (s : Obj) (hs : okT s = true) (hc : isCompObj s = true) (hw : (tyOf s).wf = true)
    (hd : depth s ≤ Py.recursionLimit) (data : List Nat) (hb : IsBytes data) (hdr : Bool) :
    Gen.Codec.deserialize s data hdr = liftTop s (deserializeR (tyOf s) (bytesToBits data) hdr) := by
  match s, hs, hc, hw, hd with
  | .structure fs a n, hs, _, hw, hd => exact gen_deserialize_sealed _ hs rfl hw hd data hb hdr
  | .union fs t a n, hs, _, hw, hd => exact gen_deserialize_sealed _ hs rfl hw hd data hb hdr
  | .delimited i h x a, hs, _, hw, hd => exact gen_deserialize_delimited i h x a hs hw hd data hb hdr


/-! ### The equality test used to evaluate examples is sound -/

mutual
theorem beq_sound : ∀ (a b : Value), a.beq b = true → a = b
  | .none, .none, _ => rfl
  | .sentinel, .sentinel, _ => rfl
  | .bool a, .bool b, h => by simp only [Value.beq, beq_iff_eq] at h; rw [h]
  | .int a, .int b, h => by simp only [Value.beq, beq_iff_eq] at h; rw [h]
  | .float a, .float b, h => by simp only [Value.beq, beq_iff_eq] at h; rw [h]
  | .str a, .str b, h => by simp only [Value.beq, beq_iff_eq] at h; rw [h]
  | .bytes a, .bytes b, h => by simp only [Value.beq, beq_iff_eq] at h; rw [h]
  | .list a, .list b, h => by simp only [Value.beq] at h; rw [beqList_sound a b h]
  | .dict a, .dict b, h => by simp only [Value.beq] at h; rw [beqDict_sound a b h]
  | .none, .bool _, h | .none, .int _, h => by simp [Value.beq] at h
theorem beqList_sound : ∀ (a b : List Value), Value.beqList a b = true → a = b
  | [], [], _ => rfl
  | x :: xs, y :: ys, h => by
      simp only [Value.beqList, Bool.and_eq_true] at h
      rw [beq_sound x y h.1, beqList_sound xs ys h.2]
  | [], _ :: _, h | _ :: _, [], h => by simp [Value.beqList] at h
theorem beqDict_sound : ∀ (a b : List (String × Value)), Value.beqDict a b = true → a = b
  | [], [], _ => rfl
  | (k, x) :: xs, (l, y) :: ys, h => by
      simp only [Value.beqDict, Bool.and_eq_true, beq_iff_eq] at h
      rw [h.1.1, beq_sound x y h.1.2, beqDict_sound xs ys h.2]
  | [], _ :: _, h | _ :: _, [], h => by simp [Value.beqDict] at h
end

/-- `Py.sameOutcome x y = true` means `x = y` -/
theorem sameOutcome_sound {x y : Py.M Value} (h : Py.sameOutcome x y = true) : x = y := by
  cases x with
  | ok a => cases y with
    | ok b => simp only [Py.sameOutcome] at h; rw [beq_sound a b h]
    | error f => simp [Py.sameOutcome] at h
  | error e => cases y with
    | ok b => simp [Py.sameOutcome] at h
    | error f => simp only [Py.sameOutcome, beq_iff_eq] at h; rw [h]

end Bridge
