import Bridge.Basic
import Gen.Reader
import Proofs.Reader
/-!
  Bridge for the comment / attribute / line-number automaton of the pydsdl front end (`_ParseTreeProcessor` and `parse` of
  `_parser.py`, `DataTypeBuilder`, `DataSchemaBuilder`, `Error.set_error_location_if_unknown`), translated into
  `Gen/Reader.lean` on every run, against the hand-written model `Model/Reader.lean`.

  The generated code is parametric in the opaque payloads (paths `P`, types `T`, expression values `V`, attribute objects `A`,
  the lookup definitions `L`, the print handler `H`), in the opaque callees (`Env`) and in the meaning `ext` of the visitors
  that are not translated.  The bridge instantiates them from the model: an attribute statement's type payload is the model
  attribute it will become (with the number of its line and the flag "its constructor raises"), an expression value is what the
  model records of it, the lookup definitions are the model's cache, the print handler is the list of deliveries, and the
  untranslated visitors do what the model says a statement's children do (`Ext`: a fault, the resolution of an identifier
  against the constants of the current schema, the evaluation of `_offset_`, the read of a referenced definition).

  `events k l` is the event stream of the abstract line `l` with number `k` in the order the visitors run; `docEvents` that of
  a document.  Main theorem `gen_parse`: running the generated `parse` over the stream of a document computes exactly what
  `Reader.runLines` followed by the end-of-text `Reader.flush` computes -- the same schemas with the same attributes in the same
  order with the same doc comments, the same header comments, the same pending state, the same `@print` deliveries with the same
  lines, the same cache; and when the model fails, the generated code raises an `_error.Error` whose path and line (after
  `DSDLDefinition.read` has filled in a missing path) are the model's, with the same deliveries made.
-/
set_option linter.unusedSimpArgs false
set_option linter.unusedVariables false
open Reader Gen.Reader
open Py hiding M Err

namespace Bridge.Rd

/-! ### the instantiation -/

/-- the type payload of an attribute statement: the model attribute it becomes, and whether its constructor raises -/
abbrev TyP := Attr × Bool
/-- an expression value: what the builder sees of it, and its rendering -/
abbrev ValP := EVal × String
abbrev LookP := List (Nat × Composite)
abbrev HandP := List Print

abbrev GErr := ErrorS Nat
abbrev GExc := Gen.Reader.Exc Nat
abbrev GSchema := SchemaS Attr
abbrev GBuilder := BuilderS Nat TyP ValP Attr LookP HandP
abbrev GParser := ParserS Nat TyP ValP Attr LookP HandP

/-- what the untranslated visitors do to the statement stream processor -/
inductive Ext where
  /-- the statement's own fault (`Phase.pre`, `Phase.mid`) -/
  | fail
  /-- `resolve_top_level_identifier(r)` -/
  | resolve (r : String)
  /-- `resolve_top_level_identifier("_offset_")` -/
  | offset
  /-- `resolve_versioned_data_type` of definition `j` -/
  | dep (j : Nat)
  deriving Repr, DecidableEq

abbrev GEvent := Event TyP ValP Ext

def blank : GErr := ⟨none, none⟩

def viewOf : EVal → ExprView
  | .boolean b => .boolean b
  | .rational _ => .rational
  | .other => .other

def mkAttr (t : TyP) (doc : Str) : Except GExc Attr :=
  if t.2 then .error (.dsdl blank) else .ok { t.1 with doc := String.ofList doc }

def env (c : Ctx) : Env Nat TyP ValP Attr HandP where
  Field t _ doc := mkAttr t doc
  PaddingField t doc := mkAttr t doc
  Constant t _ _ doc := mkAttr t doc
  parse_string_literal _ := .ok (.other, "")
  view v := viewOf v.1
  as_native_integer v := match v.1 with
    | .rational n => .ok n
    | _ => .error (.dsdl blank)
  str v := v.2.toList
  call_print_output_handler h line text := h ++ [⟨c.printFile, line, String.ofList text⟩]

def ofMode : Mode → SerializationMode
  | .sealed => .SealedSerializationMode
  | .extent n => .DelimitedSerializationMode n

def ofSchema (sc : Schema) : GSchema :=
  { fields := sc.fields, constants := sc.consts, serialization_mode := sc.mode.map ofMode, is_union := sc.union,
    bit_length_computed_at_least_once := sc.offsetUsed, doc := sc.doc.toList }

def ofPending (p : Attr × Bool) : Callback TyP ValP :=
  match p.1.core.kind with
  | .field => .on_field p p.1.core.name.toList
  | .padding => .on_padding_field p
  | .const => .on_constant p p.1.core.name.toList (.other, p.1.core.value)

/-- the builder that corresponds to a model state -/
def ofB (c : Ctx) (s : St) : GBuilder :=
  { definition_file_path := c.self, lookup_definitions := s.w.cached, print_output_handler := s.w.prints,
    element_callback := s.pending.map ofPending, structs := (s.done ++ [s.cur]).map ofSchema, is_deprecated := s.deprecated }

/-- the visitor that corresponds to a model state on line `k` with `br` line breaks seen inside string literals -/
def ofSt (c : Ctx) (strict : Bool) (s : St) (k br : Nat) : GParser :=
  { statement_stream_processor := ofB c s, current_line_number := k, comment := s.comment.toList, comment_is_header := s.header,
    last_attribute_line_number := s.lastAttrLine, line_breaks_inside_literals := br, strict := strict }

def worldOf (g : GParser) : W := ⟨g.statement_stream_processor.lookup_definitions, g.statement_stream_processor.print_output_handler⟩

/-- the meaning of the untranslated visitors, from the model (`resolveRefs`, `markOffs`, `readDeps`, the fault markers) -/
def ext (c : Ctx) : Ext → SM GBuilder GExc Unit
  | .fail => SM.throw (.dsdl blank)
  | .resolve r => fun b =>
    match b.structs.getLast? with
    | some sc => if (sc.constants.any fun a => a.core.name == r) then (.ok (), b) else (.error (.dsdl blank), b)
    | none => (.error (.dsdl blank), b)
  | .offset => fun b =>
    match b.structs.getLast? with
    | some sc => (.ok (), { b with structs := b.structs.dropLast ++ [{ sc with bit_length_computed_at_least_once := true }] })
    | none => (.error (.dsdl blank), b)
  | .dep j => fun b =>
    if c.ndefs ≤ j then (.error (.dsdl blank), b)
    else match c.depRead ⟨b.lookup_definitions, b.print_output_handler⟩ j with
      | (w', none) => (.ok (), { b with lookup_definitions := w'.cached, print_output_handler := w'.prints })
      | (w', some e) => (.error (.dsdl ⟨some e.file, e.line⟩), { b with lookup_definitions := w'.cached, print_output_handler := w'.prints })


/-! ### `Error` and `DataSchemaBuilder`: closed forms (for every instantiation) -/

section generic
variable {P T V A L H : Type}

theorem run_set_location (e : ErrorS P) (p : Option P) (l : Option Nat) :
    (Error.set_error_location_if_unknown p l : SM (ErrorS P) (Gen.Reader.Exc P) Unit).run e =
      (.ok (), { path := if e.path.isSome then e.path else p,
                 line := if truthyOptInt e.line then e.line else if truthyOptInt l then l else e.line }) := by
  obtain ⟨ep, el⟩ := e
  cases ep <;> cases p <;> cases hl : truthyOptInt el <;> cases hl2 : truthyOptInt l <;>
    simp [Error.set_error_location_if_unknown, hl, hl2, SM.run_ite, py_helper]

theorem run_path (e : ErrorS P) : (Error.path : SM (ErrorS P) (Gen.Reader.Exc P) _).run e = (.ok e.path, e) := by
  simp [Error.path, py_helper]

variable (t : SchemaS A)

@[simp] theorem run_union : (DataSchemaBuilder.union : SM (SchemaS A) (Gen.Reader.Exc P) _).run t = (.ok t.is_union, t) := by
  simp [DataSchemaBuilder.union, py_helper]
@[simp] theorem run_serialization_mode :
    (DataSchemaBuilder.serialization_mode : SM (SchemaS A) (Gen.Reader.Exc P) _).run t = (.ok t.serialization_mode, t) := by
  simp [DataSchemaBuilder.serialization_mode, py_helper]
@[simp] theorem run_attributes :
    (DataSchemaBuilder.attributes : SM (SchemaS A) (Gen.Reader.Exc P) _).run t = (.ok (t.fields ++ t.constants), t) := by
  simp [DataSchemaBuilder.attributes, DataSchemaBuilder.fields, DataSchemaBuilder.constants, py_helper]
@[simp] theorem run_set_comment (d : Str) :
    (DataSchemaBuilder.set_comment d : SM (SchemaS A) (Gen.Reader.Exc P) _).run t = (.ok (), { t with doc := d }) := by
  simp [DataSchemaBuilder.set_comment, py_helper]
theorem run_add_field (a : A) :
    (DataSchemaBuilder.add_field a : SM (SchemaS A) (Gen.Reader.Exc P) _).run t =
      if t.is_union && t.bit_length_computed_at_least_once then (.error (.dsdl ⟨none, none⟩), t)
      else (.ok (), { t with fields := t.fields ++ [a] }) := by
  cases h1 : t.is_union <;> cases h2 : t.bit_length_computed_at_least_once <;>
    simp [DataSchemaBuilder.add_field, h1, h2, SM.run_ite, Error.init, py_helper]
@[simp] theorem run_add_constant (a : A) :
    (DataSchemaBuilder.add_constant a : SM (SchemaS A) (Gen.Reader.Exc P) _).run t = (.ok (), { t with constants := t.constants ++ [a] }) := by
  simp [DataSchemaBuilder.add_constant, py_helper]
theorem run_set_serialization_mode (m : SerializationMode) (h : t.serialization_mode = none) :
    (DataSchemaBuilder.set_serialization_mode m : SM (SchemaS A) (Gen.Reader.Exc P) _).run t =
      (.ok (), { t with serialization_mode := some m }) := by
  simp [DataSchemaBuilder.set_serialization_mode, h, py_helper]
theorem run_make_union (h : t.is_union = false) :
    (DataSchemaBuilder.make_union : SM (SchemaS A) (Gen.Reader.Exc P) _).run t = (.ok (), { t with is_union := true }) := by
  simp [DataSchemaBuilder.make_union, h, py_helper]

end generic


/-! ### the builder against the model -/

theorem ofB_structs (c : Ctx) (s : St) : (ofB c s).structs = s.done.map ofSchema ++ [ofSchema s.cur] := by
  simp [ofB]

/-- a method of `self._structs[-1]` runs on the current schema -/
theorem zoomLast_ofB {α : Type} (c : Ctx) (s : St) (x : SM GSchema GExc α) :
    (SM.zoomLast (fun self : GBuilder => self.structs) (fun self v => { self with structs := v }) x).run (ofB c s) =
      ((x.run (ofSchema s.cur)).1, { ofB c s with structs := s.done.map ofSchema ++ [(x.run (ofSchema s.cur)).2] }) :=
  SM.run_zoomLast_concat _ _ x (ofB c s) (s.done.map ofSchema) (ofSchema s.cur) (ofB_structs c s)

theorem ofB_cur (c : Ctx) (s : St) (sc : Schema) :
    ({ ofB c s with structs := s.done.map ofSchema ++ [ofSchema sc] } : GBuilder) = ofB c { s with cur := sc } := by
  simp [ofB]

/-- the outcome of a builder method that either returns with the builder of the new model state or raises an error
    without location, the builder unchanged -/
def resB (c : Ctx) (s : St) : M St → Res GBuilder GExc Unit
  | .ok s' => (.ok (), ofB c s')
  | .error _ => (.error (.dsdl blank), ofB c s)

@[simp] theorem resB_ok (c : Ctx) (s s' : St) : resB c s (.ok s') = (.ok (), ofB c s') := rfl
@[simp] theorem resB_error (c : Ctx) (s : St) (e : Err × W) : resB c s (.error e) = (.error (.dsdl blank), ofB c s) := rfl

theorem ofSchema_addField (sc : Schema) (a : Attr) :
    ({ ofSchema sc with fields := (ofSchema sc).fields ++ [a] } : GSchema) = ofSchema { sc with fields := sc.fields ++ [a] } := rfl
theorem ofSchema_addConst (sc : Schema) (a : Attr) :
    ({ ofSchema sc with constants := (ofSchema sc).constants ++ [a] } : GSchema) = ofSchema { sc with consts := sc.consts ++ [a] } := rfl

/-- calling the queued callback = `commitAttr` (the callback is still stored afterwards) -/
theorem gen_callback_call (c : Ctx) (el : Nat) (s : St) (a : Attr) (bad : Bool) (doc : Str) :
    (DataTypeBuilder.element_callback_call (env c) (ofPending (a, bad)) doc).run (ofB c s) =
      match commitAttr c el s a bad (String.ofList doc) with
      | .ok s' => (.ok (), ofB c { s' with pending := s.pending })
      | .error _ => (.error (.dsdl blank), ofB c s) := by
  unfold commitAttr ofPending
  cases bad <;> cases hk : a.core.kind <;> cases hu : s.cur.union <;> cases ho : s.cur.offsetUsed <;>
    simp [DataTypeBuilder.element_callback_call, env, mkAttr, hk, zoomLast_ofB, run_add_field, ofSchema_addField, ofSchema_addConst,
      ofB_cur, raise, hu, ho, ofSchema, blank, Error.init, py_helper]
  all_goals simp [ofB, ofSchema, hu, ho]


theorem commitAttr_pending {c el s a bad doc s'} (h : commitAttr c el s a bad doc = .ok s') : s'.pending = none := by
  unfold commitAttr at h
  cases bad <;> cases hk : a.core.kind <;> cases hu : s.cur.union <;> cases ho : s.cur.offsetUsed <;>
    simp [hk, hu, ho, raise] at h <;> subst h <;> rfl

theorem ofB_pending_none (c : Ctx) (s : St) :
    ({ ofB c s with element_callback := none } : GBuilder) = ofB c { s with pending := none } := by
  simp [ofB]

/-- `_flush_attribute(doc)` = `flushAttr` -/
theorem gen_flush_attribute (c : Ctx) (el : Nat) (s : St) (doc : Str) :
    (DataTypeBuilder.flush_attribute (env c) doc).run (ofB c s) = resB c s (flushAttr c el s (String.ofList doc)) := by
  unfold flushAttr
  cases hp : s.pending with
  | none =>
    have : (ofB c s).element_callback = none := by simp [ofB, hp]
    simp [DataTypeBuilder.flush_attribute, this, py_helper]
    all_goals simp [ofB, hp]
  | some p =>
    obtain ⟨a, bad⟩ := p
    have : (ofB c s).element_callback = some (ofPending (a, bad)) := by simp [ofB, hp]
    simp only [DataTypeBuilder.flush_attribute, SM.run_bind, SM.run_get, Res.andThen_ok, this, gen_callback_call c el, py_helper]
    cases hc : commitAttr c el s a bad (String.ofList doc) with
    | error e => simp
    | ok s' =>
      have hn := commitAttr_pending hc
      simp [ofB_pending_none]
      all_goals (cases s'; simp_all)

@[simp] theorem ofSchema_fields (sc : Schema) : (ofSchema sc).fields = sc.fields := rfl
@[simp] theorem ofSchema_constants (sc : Schema) : (ofSchema sc).constants = sc.consts := rfl
@[simp] theorem ofSchema_mode (sc : Schema) : (ofSchema sc).serialization_mode = sc.mode.map ofMode := rfl
@[simp] theorem ofSchema_union (sc : Schema) : (ofSchema sc).is_union = sc.union := rfl
@[simp] theorem ofSchema_offs (sc : Schema) : (ofSchema sc).bit_length_computed_at_least_once = sc.offsetUsed := rfl
@[simp] theorem ofSchema_doc (sc : Schema) : (ofSchema sc).doc = sc.doc.toList := rfl

theorem isDelimited_ofMode (m : Option Mode) :
    SerializationMode.isDelimitedSerializationMode (m.map ofMode) = Mode.isExtent m := by
  cases m with
  | none => rfl
  | some m => cases m <;> rfl

theorem ofB_same (c : Ctx) (s : St) :
    ({ ofB c s with structs := s.done.map ofSchema ++ [ofSchema s.cur] } : GBuilder) = ofB c s := by
  simp [ofB]

/-- `_on_attribute()` -/
theorem gen_on_attribute (c : Ctx) (s : St) :
    (DataTypeBuilder.on_attribute (env c)).run (ofB c s) =
      if Mode.isExtent s.cur.mode then (.error (.dsdl blank), ofB c s) else (.ok (), ofB c s) := by
  cases h : Mode.isExtent s.cur.mode <;>
    simp [DataTypeBuilder.on_attribute, zoomLast_ofB, ofB_same, isDelimited_ofMode, h, SM.run_ite, blank, Error.init, py_helper]

/-- `on_field` / `on_constant` / `on_padding_field`: the builder half of `onAttr` -/
theorem gen_on_attr (c : Ctx) (k : Nat) (s : St) (p : Attr × Bool) :
    (match p.1.core.kind with
      | .field => DataTypeBuilder.on_field (env c) p p.1.core.name.toList
      | .padding => DataTypeBuilder.on_padding_field (env c) p
      | .const => DataTypeBuilder.on_constant (env c) p p.1.core.name.toList (.other, p.1.core.value)).run (ofB c s) =
      if Mode.isExtent s.cur.mode then (.error (.dsdl blank), ofB c s)
      else resB c s ((flushAttr c k s "").map fun s' => { s' with pending := some p }) := by
  have hq : ∀ cb, (DataTypeBuilder.queue_attribute (env c) cb).run (ofB c s) =
      match flushAttr c k s "" with
      | .ok s' => (.ok (), { ofB c s' with element_callback := some cb })
      | .error _ => (.error (.dsdl blank), ofB c s) := by
    intro cb
    have := gen_flush_attribute c k s []
    simp only [DataTypeBuilder.queue_attribute, SM.run_bind, this, py_helper]
    cases flushAttr c k s (String.ofList []) <;> simp
  have hcb : ∀ s' : St, ({ ofB c s' with element_callback := some (ofPending p) } : GBuilder) = ofB c { s' with pending := some p } := by
    intro s'; simp [ofB]
  cases h : Mode.isExtent s.cur.mode <;> cases hk : p.1.core.kind <;>
    simp [DataTypeBuilder.on_field, DataTypeBuilder.on_padding_field, DataTypeBuilder.on_constant, gen_on_attribute, h, hq, py_helper] <;>
    (cases hf : flushAttr c k s "" <;> simp [Except.map, ← hcb, ofPending, hk])


/-- `on_header_comment` -/
theorem gen_on_header_comment (c : Ctx) (s : St) (d : Str) :
    (DataTypeBuilder.on_header_comment (env c) d).run (ofB c s) =
      (.ok (), ofB c { s with cur := { s.cur with doc := String.ofList d } }) := by
  simp [DataTypeBuilder.on_header_comment, zoomLast_ofB, py_helper]
  all_goals simp [ofB, ofSchema]

theorem init_eq_empty : (DataSchemaBuilder.init : GSchema) = ofSchema Schema.empty := rfl

/-- `on_service_response_marker` -/
theorem gen_on_marker (c : Ctx) (k : Nat) (s : St) :
    (DataTypeBuilder.on_service_response_marker (env c)).run (ofB c s) =
      resB c s ((onMarker c k s).map fun s' => { s' with header := s.header }) := by
  unfold onMarker
  cases hd : s.done with
  | nil =>
    simp [DataTypeBuilder.on_service_response_marker, ofB_structs, hd, SM.run_ite, Except.map, init_eq_empty, py_helper]
    all_goals simp [ofB, hd]
  | cons x xs =>
    simp [DataTypeBuilder.on_service_response_marker, ofB_structs, hd, SM.run_ite, Except.map, raise, blank, Error.init, py_helper]

theorem toList_beq (a b : String) : (a.toList == b.toList) = decide (a = b) := by
  by_cases h : a = b
  · subst h; simp
  · simp only [h, decide_false, beq_eq_false_iff_ne, ne_eq]
    exact fun h2 => h (String.toList_inj.mp h2)

/-- the error `on_directive` raises: without location, except for a failed assertion (own path, the directive's line) -/
def dirErr (c : Ctx) (k : Nat) (name : String) (e : Option EVal) : GErr :=
  if name = "assert" ∧ e = some (.boolean false) then ⟨some c.self, some k⟩ else blank

theorem hasAttrs_eq (sc : Schema) : (sc.fields ++ sc.consts).isEmpty = !sc.hasAttrs := by
  cases hf : sc.fields <;> cases hc : sc.consts <;> simp [Schema.hasAttrs, hf, hc]

/-- `on_directive` = `onDirective` -/
theorem gen_on_directive (c : Ctx) (k : Nat) (s : St) (name : String) (e : Option EVal) (text : String)
    (ht : e = none → text = "") :
    (DataTypeBuilder.on_directive (env c) k name.toList (e.map fun v => (v, text))).run (ofB c s) =
      match onDirective c k s name e text with
      | .ok s' => (.ok (), ofB c s')
      | .error _ => (.error (.dsdl (dirErr c k name e)), ofB c s) := by
  have l1 : (['p', 'r', 'i', 'n', 't'] : Str) = "print".toList := rfl
  have l2 : (['a', 's', 's', 'e', 'r', 't'] : Str) = "assert".toList := rfl
  have l3 : (['e', 'x', 't', 'e', 'n', 't'] : Str) = "extent".toList := rfl
  have l4 : (['s', 'e', 'a', 'l', 'e', 'd'] : Str) = "sealed".toList := rfl
  have l5 : (['u', 'n', 'i', 'o', 'n'] : Str) = "union".toList := rfl
  have l6 : (['d', 'e', 'p', 'r', 'e', 'c', 'a', 't', 'e', 'd'] : Str) = "deprecated".toList := rfl
  unfold onDirective dirErr DataTypeBuilder.on_directive
  simp only [l1, l2, l3, l4, l5, l6, toList_beq]
  by_cases h1 : name = "print"
  · subst h1
    cases e with
    | none => simp [DataTypeBuilder.on_print_directive, env, strOfOpt, ht rfl, py_helper]; simp [ofB]
    | some v => simp [DataTypeBuilder.on_print_directive, env, strOfOpt, py_helper]; simp [ofB]
  by_cases h2 : name = "assert"
  · subst h2
    rcases e with _ | (b | n | _)
    · simp [DataTypeBuilder.on_assert_directive, env, optView, ExprView.isBoolean, SM.run_ite, raise, blank, Error.init, py_helper]
    · cases b <;>
        simp [DataTypeBuilder.on_assert_directive, env, optView, viewOf, ExprView.isBoolean, ExprView.nativeBool, SM.run_ite, raise, blank, Error.init, ofB, py_helper]
    · simp [DataTypeBuilder.on_assert_directive, env, optView, viewOf, ExprView.isBoolean, SM.run_ite, raise, blank, Error.init, py_helper]
    · simp [DataTypeBuilder.on_assert_directive, env, optView, viewOf, ExprView.isBoolean, SM.run_ite, raise, blank, Error.init, py_helper]
  by_cases h3 : name = "extent"
  · subst h3
    cases hm : s.cur.mode with
    | some m => simp [DataTypeBuilder.on_extent_directive, zoomLast_ofB, ofB_same, hm, SM.run_ite, raise, blank, Error.init, py_helper]
    | none =>
      rcases e with _ | (b | n | _) <;>
        simp [DataTypeBuilder.on_extent_directive, zoomLast_ofB, ofB_same, hm, SM.run_ite, raise, blank, Error.init, env, optView, viewOf,
          ExprView.isRational, unwrap, run_set_serialization_mode, py_helper]
      simp [ofB, ofSchema, hm, ofMode]
  by_cases h4 : name = "sealed"
  · subst h4
    cases hm : s.cur.mode with
    | some m => simp [DataTypeBuilder.on_sealed_directive, zoomLast_ofB, ofB_same, hm, SM.run_ite, raise, blank, Error.init, py_helper]
    | none =>
      cases e <;>
        simp [DataTypeBuilder.on_sealed_directive, zoomLast_ofB, ofB_same, hm, SM.run_ite, raise, blank, Error.init, run_set_serialization_mode, py_helper]
      simp [ofB, ofSchema, hm, ofMode]
  by_cases h5 : name = "union"
  · subst h5
    cases e with
    | some v => simp [DataTypeBuilder.on_union_directive, SM.run_ite, raise, blank, Error.init, py_helper]
    | none =>
      cases hu : s.cur.union <;> cases hf : s.cur.fields <;> cases hc : s.cur.consts <;>
        simp [DataTypeBuilder.on_union_directive, zoomLast_ofB, ofB_same, SM.run_ite, raise, blank, Error.init, hu, hf, hc, Schema.hasAttrs,
          run_make_union, py_helper]
      simp [ofB, ofSchema, hu, hf, hc]
  by_cases h6 : name = "deprecated"
  · subst h6
    cases e with
    | some v => simp [DataTypeBuilder.on_deprecated_directive, SM.run_ite, raise, blank, Error.init, py_helper]
    | none =>
      cases hd : s.deprecated <;> cases hdn : s.done <;> cases hf : s.cur.fields <;> cases hc : s.cur.consts <;>
        simp [DataTypeBuilder.on_deprecated_directive, zoomLast_ofB, ofB_same, SM.run_ite, raise, blank, Error.init, hd, hdn, hf, hc,
          Schema.hasAttrs, ofB_structs, py_helper]
      all_goals simp [ofB, hd, hdn]
  simp [h1, h2, h3, h4, h5, h6, raise, blank, Error.init, py_helper]


/-! ### the visitor against the model -/

variable (c : Ctx) (strict : Bool)

@[simp] theorem ofSt_proc (s : St) (k br : Nat) : (ofSt c strict s k br).statement_stream_processor = ofB c s := rfl
@[simp] theorem ofSt_line (s : St) (k br : Nat) : (ofSt c strict s k br).current_line_number = k := rfl
@[simp] theorem ofSt_comment (s : St) (k br : Nat) : (ofSt c strict s k br).comment = s.comment.toList := rfl
@[simp] theorem ofSt_header (s : St) (k br : Nat) : (ofSt c strict s k br).comment_is_header = s.header := rfl
@[simp] theorem ofSt_last (s : St) (k br : Nat) : (ofSt c strict s k br).last_attribute_line_number = s.lastAttrLine := rfl
@[simp] theorem ofSt_br (s : St) (k br : Nat) : (ofSt c strict s k br).line_breaks_inside_literals = br := rfl

/-- the builder changed, the visitor's own attributes did not -/
theorem ofSt_setB (s s' : St) (k br : Nat) :
    ({ ofSt c strict s k br with statement_stream_processor := ofB c s' } : GParser) =
      ofSt c strict { s' with comment := s.comment, header := s.header, lastAttrLine := s.lastAttrLine } k br := rfl

theorem setLoc_blank (la : Nat) :
    (Error.set_error_location_if_unknown none (intOrNone la) : SM GErr GExc Unit).run blank = (.ok (), ⟨none, intOrNone la⟩) := by
  rw [run_set_location]
  by_cases h : la = 0 <;> simp [blank, intOrNone, truthyOptInt, h]

theorem commitAttr_frame {c el s a bad doc s'} (h : commitAttr c el s a bad doc = .ok s') :
    s'.lastAttrLine = s.lastAttrLine ∧ s'.comment = s.comment ∧ s'.header = s.header ∧ s'.w = s.w ∧ s'.deprecated = s.deprecated := by
  unfold commitAttr at h
  cases bad <;> cases hk : a.core.kind <;> cases hu : s.cur.union <;> cases ho : s.cur.offsetUsed <;>
    simp [hk, hu, ho, raise] at h <;> subst h <;> simp

theorem flushAttr_frame {c el s doc s'} (h : flushAttr c el s doc = .ok s') :
    s'.lastAttrLine = s.lastAttrLine ∧ s'.comment = s.comment ∧ s'.header = s.header ∧ s'.w = s.w ∧ s'.deprecated = s.deprecated := by
  unfold flushAttr at h
  cases hp : s.pending with
  | none => simp [hp] at h; subst h; simp
  | some p => simp [hp] at h; exact commitAttr_frame h

/-- `_flush_comment` = `flush`; a failed commit leaves with the line of the attribute that was waiting (if any) -/
theorem gen_flush_comment (s : St) (k br : Nat) :
    (ParseTreeProcessor.flush_comment (env c)).run (ofSt c strict s k br) =
      match flush c k s with
      | .ok s' => (.ok (), ofSt c strict s' k br)
      | .error _ => (.error (.dsdl ⟨none, intOrNone s.lastAttrLine⟩), ofSt c strict s k br) := by
  unfold flush
  cases hh : s.header with
  | true =>
    simp [ParseTreeProcessor.flush_comment, hh, SM.run_ite, gen_on_header_comment, ofSt_setB, py_helper]
    all_goals simp [ofSt, ofB, hh]
  | false =>
    have := gen_flush_attribute c (if s.lastAttrLine = 0 then k else s.lastAttrLine) s s.comment.toList
    rw [String.ofList_toList] at this
    have this : (DataTypeBuilder.on_attribute_comment (env c) s.comment.toList).run (ofB c s) =
        resB c s (flushAttr c (if s.lastAttrLine = 0 then k else s.lastAttrLine) s s.comment) := by
      rw [← this]; simp [DataTypeBuilder.on_attribute_comment, py_helper]
    simp only [ParseTreeProcessor.flush_comment, SM.run_bind, SM.run_get, Res.andThen_ok, ofSt_header, hh, SM.run_ite, Bool.false_eq_true,
      if_false, SM.run_tryCatch, SM.run_zoom, ofSt_proc, ofSt_comment, this, py_helper]
    cases hf : flushAttr c (if s.lastAttrLine = 0 then k else s.lastAttrLine) s s.comment with
    | ok s' =>
      simp [Except.map, ofSt_setB]
      all_goals simp [ofSt, ofB, (flushAttr_frame hf).1]
    | error e =>
      simp [Except.map, ofSt_setB, setLoc_blank]
      cases s; simp at hh; subst hh; rfl


/-! ### simulation -/

/-- the location an error has when it leaves `_parser.parse` (a line is attached only to an error that names no file yet and
    has no line yet) and `DSDLDefinition.read` has filled in a missing path -/
def finalErr (k : Nat) (ge : GErr) : Reader.Err :=
  ⟨ge.path.getD c.self, if ge.path.isSome then ge.line else if truthyOptInt ge.line then ge.line else some k⟩

/-- the generated visitor, started in the state that corresponds to a model state on line `k`, does what the model does:
    it returns in the state that corresponds to the model's result, or raises an `_error.Error` whose final location is the
    model's, having made the same `@print` deliveries and read the same definitions; the line counter is untouched -/
def Sim (k br : Nat) (r : Res GParser GExc Unit) (m : Reader.M St) : Prop :=
  match m with
  | .ok s' => r = (.ok (), ofSt c strict s' k br)
  | .error (e, w') => ∃ ge g', r = (.error (.dsdl ge), g') ∧ finalErr c k ge = e ∧ worldOf g' = w' ∧ g'.current_line_number = k

theorem Sim.bind {k br br' : Nat} {x : Res GParser GExc Unit} {m : Reader.M St} {f : GParser → Res GParser GExc Unit}
    {n : St → Reader.M St} (h1 : Sim c strict k br x m) (h2 : ∀ s', Sim c strict k br' (f (ofSt c strict s' k br)) (n s')) :
    Sim c strict k br' (x.andThen fun _ g => f g) (m >>= n) := by
  cases m with
  | ok s' =>
    simp only [Sim] at h1
    rw [h1]; exact h2 s'
  | error e =>
    obtain ⟨e, w'⟩ := e
    obtain ⟨ge, g', hr, h⟩ := h1
    rw [hr]; exact ⟨ge, g', rfl, h⟩

theorem Sim.raise (k br br' : Nat) (s : St) (hk : 0 < k) :
    Sim c strict k br' ((.error (.dsdl blank), ofSt c strict s k br) : Res GParser GExc Unit) (Reader.raise c s (some k)) :=
  ⟨blank, _, rfl, by simp [finalErr, blank, truthyOptInt], rfl, rfl⟩

theorem commitAttr_err {c el s a bad doc e w} (h : commitAttr c el s a bad doc = .error (e, w)) : e = ⟨c.self, some el⟩ ∧ w = s.w := by
  unfold commitAttr at h
  cases bad <;> cases hk : a.core.kind <;> cases hu : s.cur.union <;> cases ho : s.cur.offsetUsed <;>
    simp [hk, hu, ho, raise] at h <;> exact ⟨h.1.symm, h.2.symm⟩

theorem flushAttr_err {c el s doc e w} (h : flushAttr c el s doc = .error (e, w)) : e = ⟨c.self, some el⟩ ∧ w = s.w := by
  unfold flushAttr at h
  cases hp : s.pending with
  | none => simp [hp] at h
  | some p => simp [hp] at h; exact commitAttr_err h

theorem flush_err {c k s e w} (h : flush c k s = .error (e, w)) :
    e = ⟨c.self, some (if s.lastAttrLine = 0 then k else s.lastAttrLine)⟩ ∧ w = s.w := by
  unfold flush at h
  cases hh : s.header with
  | true => simp [hh] at h
  | false =>
    simp only [hh, Bool.false_eq_true, if_false] at h
    cases hf : flushAttr c (if s.lastAttrLine = 0 then k else s.lastAttrLine) s s.comment with
    | ok s' => simp [hf, Except.map] at h
    | error e' =>
      obtain ⟨e', w'⟩ := e'
      simp [hf, Except.map] at h
      obtain ⟨h1, h2⟩ := flushAttr_err hf
      rw [← h.1, ← h.2]; exact ⟨h1, h2⟩

/-- `_flush_comment` simulates `flush` -/
theorem Sim.flush (k br : Nat) (s : St) :
    Sim c strict k br ((ParseTreeProcessor.flush_comment (env c)).run (ofSt c strict s k br)) (Reader.flush c k s) := by
  rw [gen_flush_comment]
  cases hf : Reader.flush c k s with
  | ok s' => rfl
  | error e =>
    obtain ⟨e, w⟩ := e
    obtain ⟨h1, h2⟩ := flush_err hf
    refine ⟨_, _, rfl, ?_, h2.symm, rfl⟩
    rw [h1]
    by_cases h0 : s.lastAttrLine = 0 <;> simp [finalErr, intOrNone, truthyOptInt, h0]


/-! ### single events -/

theorem bind_pure_M (m : Reader.M St) : (m >>= fun s' => (.ok s' : Reader.M St)) = m := by
  cases m <;> rfl

abbrev step (ev : GEvent) : SM GParser GExc Unit := ParseTreeProcessor.visit (env c) (ext c) ev

/-- `visit_identifier`: the pending comment is flushed -/
theorem Sim.identifier (k br : Nat) (s : St) (t : Str) (ht : t ≠ []) :
    Sim c strict k br ((step c (.identifier t)).run (ofSt c strict s k br)) (Reader.flush c k s) := by
  have h := Sim.flush c strict k br s
  have e : (step c (.identifier t)).run (ofSt c strict s k br) =
      ((ParseTreeProcessor.flush_comment (env c)).run (ofSt c strict s k br)).andThen fun _ g => (.ok (), g) := by
    cases t with
    | nil => exact absurd rfl ht
    | cons a t => simp [step, ParseTreeProcessor.visit, ParseTreeProcessor.visit_identifier, py_helper]
  rw [e]
  have := Sim.bind c strict (f := fun g => (.ok (), g)) (n := fun s' => .ok s') h (fun s' => rfl)
  rwa [bind_pure_M] at this


/-- a sequence of events -/
def runEvs (evs : List GEvent) (g : GParser) : Res GParser GExc Unit := (SM.forEach evs (step c)).run g

@[simp] theorem runEvs_nil (g : GParser) : runEvs c [] g = (.ok (), g) := rfl
theorem runEvs_cons (ev : GEvent) (evs : List GEvent) (g : GParser) :
    runEvs c (ev :: evs) g = ((step c ev).run g).andThen fun _ g' => runEvs c evs g' := by
  simp [runEvs]
theorem runEvs_append (a b : List GEvent) (g : GParser) :
    runEvs c (a ++ b) g = (runEvs c a g).andThen fun _ g' => runEvs c b g' := by
  induction a generalizing g with
  | nil => simp
  | cons ev a ih => simp [runEvs_cons, ih]
theorem runEvs_single (ev : GEvent) (g : GParser) : runEvs c [ev] g = (step c ev).run g := by
  rw [runEvs_cons]
  rcases (step c ev).run g with ⟨_ | _, _⟩ <;> rfl

theorem Sim.seq {k br br' : Nat} {a b : List GEvent} {g : GParser} {m : Reader.M St} {n : St → Reader.M St}
    (h1 : Sim c strict k br (runEvs c a g) m)
    (h2 : ∀ s', Sim c strict k br' (runEvs c b (ofSt c strict s' k br)) (n s')) :
    Sim c strict k br' (runEvs c (a ++ b) g) (m >>= n) := by
  rw [runEvs_append]
  exact Sim.bind c strict h1 h2

theorem Sim.nil (k br : Nat) (s : St) : Sim c strict k br (runEvs c [] (ofSt c strict s k br)) (.ok s) := rfl

theorem step_other (x : Ext) (s : St) (k br : Nat) :
    (step c (.other x)).run (ofSt c strict s k br) =
      (((ext c x).run (ofB c s)).1, { ofSt c strict s k br with statement_stream_processor := ((ext c x).run (ofB c s)).2 }) := by
  simp [step, ParseTreeProcessor.visit, py_helper]

theorem getLast_ofB (s : St) : (ofB c s).structs.getLast? = some (ofSchema s.cur) := by
  simp [ofB_structs]

/-- the statement's own fault -/
theorem Sim.fail (k br : Nat) (s : St) (hk : 0 < k) :
    Sim c strict k br (runEvs c [.other .fail] (ofSt c strict s k br)) (Reader.raise c s (some k)) := by
  rw [runEvs_single, step_other]
  exact Sim.raise c strict k br br s hk

/-- `resolve_top_level_identifier(r)` -/
theorem Sim.resolve (k br : Nat) (s : St) (r : String) (hk : 0 < k) :
    Sim c strict k br (runEvs c [.other (.resolve r)] (ofSt c strict s k br))
      (if (s.cur.consts.any fun a => a.core.name == r) then .ok s else Reader.raise c s (some k)) := by
  rw [runEvs_single, step_other]
  cases h : (s.cur.consts.any fun a => a.core.name == r)
  · simp only [ext, SM.run, getLast_ofB, ofSchema_constants, h]
    exact Sim.raise c strict k br br s hk
  · simp only [ext, SM.run, getLast_ofB, ofSchema_constants, h]
    rfl

theorem Sim.resolveRefs (k br : Nat) (hk : 0 < k) (rs : List String) (s : St) :
    Sim c strict k br (runEvs c (rs.map fun r => .other (.resolve r)) (ofSt c strict s k br)) (Reader.resolveRefs c k s rs) := by
  induction rs generalizing s with
  | nil => rfl
  | cons r rs ih =>
    have h := Sim.seq c strict (br' := br) (Sim.resolve c strict k br s r hk) (fun s' => ih s')
    have e : Reader.resolveRefs c k s (r :: rs) =
        ((if (s.cur.consts.any fun a => a.core.name == r) then .ok s else Reader.raise c s (some k)) >>= fun s' =>
          Reader.resolveRefs c k s' rs) := by
      simp only [Reader.resolveRefs]; split <;> rfl
    rw [e]; exact h

/-- `_offset_` is evaluated -/
theorem Sim.offset (k br : Nat) (s : St) :
    Sim c strict k br (runEvs c [.other .offset] (ofSt c strict s k br))
      (.ok { s with cur := { s.cur with offsetUsed := true } }) := by
  rw [runEvs_single, step_other]
  simp only [ext, SM.run, getLast_ofB, Sim]
  all_goals simp [ofSt, ofB, ofSchema]

/-- one referenced definition is read -/
def depStep (k : Nat) (s : St) (j : Nat) : Reader.M St :=
  if c.ndefs ≤ j then Reader.raise c s (some k)
  else match c.depRead s.w j with
    | (w', none) => .ok { s with w := w' }
    | (w', some e) => .error (e, w')

theorem readDeps_cons (k : Nat) (s : St) (j : Nat) (js : List Nat) :
    Reader.readDeps c k s (j :: js) = (depStep c k s j >>= fun s' => Reader.readDeps c k s' js) := by
  simp only [Reader.readDeps, depStep]
  split
  · rfl
  · rcases c.depRead s.w j with ⟨w', _ | e⟩ <;> rfl

theorem Sim.dep (k br : Nat) (s : St) (j : Nat) (hk : 0 < k) :
    Sim c strict k br (runEvs c [.other (.dep j)] (ofSt c strict s k br)) (depStep c k s j) := by
  rw [runEvs_single, step_other]
  unfold depStep
  by_cases hj : c.ndefs ≤ j
  · simp only [ext, SM.run, hj, if_true]
    exact Sim.raise c strict k br br s hk
  · simp only [ext, SM.run, hj, if_false]
    have hw : (⟨(ofB c s).lookup_definitions, (ofB c s).print_output_handler⟩ : W) = s.w := rfl
    rw [hw]
    rcases c.depRead s.w j with ⟨w', _ | e⟩
    · simp only [Sim]
      simp [ofSt, ofB]
    · exact ⟨_, _, rfl, by simp [finalErr], rfl, rfl⟩

theorem Sim.readDeps (k br : Nat) (hk : 0 < k) (js : List Nat) (s : St) :
    Sim c strict k br (runEvs c (js.map fun j => .other (.dep j)) (ofSt c strict s k br)) (Reader.readDeps c k s js) := by
  induction js generalizing s with
  | nil => rfl
  | cons j js ih =>
    rw [readDeps_cons]
    exact Sim.seq c strict (br' := br) (Sim.dep c strict k br s j hk) (fun s' => ih s')


/-- a string literal with `n` raw line breaks -/
theorem step_literal (k br n : Nat) (s : St) :
    runEvs c [.literal_string_double_quoted (List.replicate n '\n')] (ofSt c strict s k br) = (.ok (), ofSt c strict s k (br + n)) := by
  rw [runEvs_single]
  simp [step, ParseTreeProcessor.visit, ParseTreeProcessor.visit_literal_string_double_quoted, ParseTreeProcessor.visit_literal_string, env,
    strCountChar, py_helper]
  rfl

theorem clean_toList (t : String) :
    (if strStartsWith ('#' :: t.toList) ['#', ' '] then ('#' :: t.toList).drop 2 else ('#' :: t.toList).drop 1) = (cleanComment t).toList := by
  unfold cleanComment strStartsWith
  rcases h : t.toList with _ | ⟨a, r⟩
  · simp [h]
  · by_cases ha : a = ' '
    · subst ha; simp
    · have ha2 : ¬ (' ' = a) := fun h => ha h.symm
      rw [if_neg (by simp [List.isPrefixOf, ha2])]
      split
      · rename_i heq; simp at heq; exact absurd heq.1 ha
      · simp [h]

/-- `visit_comment` = `St.addComment` -/
theorem step_comment (k br : Nat) (s : St) (t : String) :
    runEvs c [.comment ('#' :: t.toList)] (ofSt c strict s k br) = (.ok (), ofSt c strict (s.addComment t) k br) := by
  rw [runEvs_single]
  simp only [step, ParseTreeProcessor.visit, ParseTreeProcessor.visit_comment, SM.run_bind, SM.run_get, SM.run_modify, Res.andThen_ok,
    clean_toList, py_helper]
  unfold St.addComment
  by_cases h : s.comment = ""
  · simp [ofSt, ofB, h]
  · have h2 : s.comment.toList ≠ [] := fun h2 => h (String.toList_inj.mp (by rw [h2]; rfl))
    simp [ofSt, ofB, h, h2]

/-- `visit_line` -/
theorem Sim.line (k br : Nat) (s : St) (e : Bool) :
    Sim c strict k br (runEvs c [.line (if e then [] else ['x'])] (ofSt c strict s k br))
      (if e then Reader.flush c k s else .ok s) := by
  rw [runEvs_single]
  cases e with
  | true =>
    have : (step c (.line [])).run (ofSt c strict s k br) = (ParseTreeProcessor.flush_comment (env c)).run (ofSt c strict s k br) := by
      simp [step, ParseTreeProcessor.visit, ParseTreeProcessor.visit_line, SM.run_ite, py_helper]
    simp only [if_true, this]
    exact Sim.flush c strict k br s
  | false =>
    simp [step, ParseTreeProcessor.visit, ParseTreeProcessor.visit_line, SM.run_ite, Sim, py_helper]

/-- `visit_end_of_line` -/
theorem step_eol (k br : Nat) (s : St) :
    runEvs c [.end_of_line] (ofSt c strict s k br) = (.ok (), ofSt c strict s (k + 1 + br) 0) := by
  rw [runEvs_single]
  simp [step, ParseTreeProcessor.visit, ParseTreeProcessor.visit_end_of_line, ofSt, py_helper]
  all_goals omega


/-! ### statements -/

def attrEvent (k : Nat) (core : Core) (bad : Bool) : GEvent :=
  match core.kind with
  | .field => .statement_field (⟨core, "", k⟩, bad) core.name.toList
  | .padding => .statement_padding_field (⟨core, "", k⟩, bad)
  | .const => .statement_constant (⟨core, "", k⟩, bad) core.name.toList (.other, core.value)

def stmtEvent (k : Nat) (l : Line) : Stmt → GEvent
  | .attr core => attrEvent k core (l.fault == some .commit)
  | .directive name none _ => .statement_directive_without_expression name.toList
  | .directive name (some v) text => .statement_directive_with_expression name.toList (v, text)
  | .marker => .statement_service_response_marker

theorem toList_ne_nil {t : String} (h : t ≠ "") : t.toList ≠ [] :=
  fun h2 => h (String.toList_inj.mp (by rw [h2]; rfl))

theorem isEmpty_toList {t : String} (h : t ≠ "") : t.toList.isEmpty = false := by
  cases h2 : t.toList with
  | nil => exact absurd h2 (toList_ne_nil h)
  | cons a r => rfl

/-- what follows the flush in `visit_statement_field` / `_constant` / `_padding_field` -/
theorem Sim.onAttr (k br : Nat) (s : St) (core : Core) (bad : Bool) (hk : 0 < k)
    (x : SM GBuilder GExc Unit)
    (hx : x.run (ofB c s) = if Mode.isExtent s.cur.mode then (.error (.dsdl blank), ofB c s)
      else resB c s ((flushAttr c k s "").map fun s' => { s' with pending := some (⟨core, "", k⟩, bad) })) :
    Sim c strict k br
      ((do
        SM.zoom (fun self : GParser => self.statement_stream_processor) (fun self v => { self with statement_stream_processor := v }) x
        let t1 ← ParseTreeProcessor.current_line_number (env c)
        SM.modify fun self => { self with last_attribute_line_number := t1 } : SM GParser GExc Unit).run (ofSt c strict s k br))
      (Reader.onAttr c k s core bad) := by
  have hk' : decide (k > 0) = true := by simpa using hk
  unfold Reader.onAttr
  simp only [SM.run_bind, SM.run_zoom, ofSt_proc, hx]
  cases hm : Mode.isExtent s.cur.mode with
  | true =>
    simp only [if_true, Res.andThen_error]
    exact Sim.raise c strict k br br s hk
  | false =>
    simp only [Bool.false_eq_true, if_false]
    cases hf : flushAttr c k s "" with
    | ok s' =>
      obtain ⟨f1, f2, f3, _, _⟩ := flushAttr_frame hf
      simp [Except.map, ParseTreeProcessor.current_line_number, hk', Sim, py_helper]
      all_goals simp [ofSt, ofB, f2, f3]
    | error e =>
      obtain ⟨e, w⟩ := e
      obtain ⟨h1, h2⟩ := flushAttr_err hf
      simp only [Except.map, resB_error, Res.andThen_error]
      exact ⟨blank, _, rfl, by simp [finalErr, blank, truthyOptInt, h1], by rw [h2]; rfl, rfl⟩

theorem Sim.attr (k br : Nat) (s : St) (core : Core) (bad : Bool) (hk : 0 < k) (hn : core.kind ≠ .padding → core.name ≠ "") :
    Sim c strict k br (runEvs c [attrEvent k core bad] (ofSt c strict s k br))
      (Reader.flush c k s >>= fun s4 => Reader.onAttr c k s4 core bad) := by
  rw [runEvs_single]
  unfold attrEvent
  cases hkd : core.kind with
  | field =>
    have hne := isEmpty_toList (hn (by simp [hkd]))
    simp only [step, ParseTreeProcessor.visit, ParseTreeProcessor.visit_statement_field, SM.run_bind, hne, Bool.not_false,
      SM.run_assert_true, Res.andThen_ok, py_helper]
    refine Sim.bind c strict (Sim.flush c strict k br s) fun s4 => ?_
    have h := gen_on_attr c k s4 (⟨core, "", k⟩, bad)
    simp only [hkd] at h
    exact Sim.onAttr c strict k br s4 core bad hk _ h
  | const =>
    have hne := isEmpty_toList (hn (by simp [hkd]))
    simp only [step, ParseTreeProcessor.visit, ParseTreeProcessor.visit_statement_constant, SM.run_bind, hne, Bool.not_false,
      SM.run_assert_true, Res.andThen_ok, py_helper]
    refine Sim.bind c strict (Sim.flush c strict k br s) fun s4 => ?_
    have h := gen_on_attr c k s4 (⟨core, "", k⟩, bad)
    simp only [hkd] at h
    exact Sim.onAttr c strict k br s4 core bad hk _ h
  | padding =>
    simp only [step, ParseTreeProcessor.visit, ParseTreeProcessor.visit_statement_padding_field, SM.run_bind, py_helper]
    refine Sim.bind c strict (Sim.flush c strict k br s) fun s4 => ?_
    have h := gen_on_attr c k s4 (⟨core, "", k⟩, bad)
    simp only [hkd] at h
    exact Sim.onAttr c strict k br s4 core bad hk _ h


theorem onDirective_err {k s name e text err w} (h : onDirective c k s name e text = .error (err, w)) :
    err = ⟨c.self, some k⟩ ∧ w = s.w := by
  unfold onDirective at h
  repeat' split at h
  all_goals first
    | (simp [Reader.raise] at h; exact ⟨h.1.symm, h.2.symm⟩)
    | (exfalso; simp at h)

theorem onDirective_frame {k s name e text s'} (h : onDirective c k s name e text = .ok s') :
    s'.comment = s.comment ∧ s'.header = s.header ∧ s'.lastAttrLine = s.lastAttrLine := by
  unfold onDirective at h
  repeat' split at h
  all_goals first
    | (simp [Reader.raise] at h; subst h; simp)
    | (exfalso; simp [Reader.raise] at h)

theorem finalErr_dirErr (k : Nat) (name : String) (e : Option EVal) (hk : 0 < k) : finalErr c k (dirErr c k name e) = ⟨c.self, some k⟩ := by
  unfold dirErr
  split <;> simp [finalErr, blank, truthyOptInt]

/-- what follows the flush in the directive visitors -/
theorem Sim.onDirective (k br : Nat) (s : St) (name : String) (e : Option EVal) (text : String) (hk : 0 < k)
    (ht : e = none → text = "") :
    Sim c strict k br
      ((do
        let t1 ← ParseTreeProcessor.current_line_number (env c)
        SM.zoom (fun self : GParser => self.statement_stream_processor) (fun self v => { self with statement_stream_processor := v })
          (DataTypeBuilder.on_directive (env c) t1 name.toList (e.map fun v => (v, text))) : SM GParser GExc Unit).run (ofSt c strict s k br))
      (Reader.onDirective c k s name e text) := by
  have hk' : decide (k > 0) = true := by simpa using hk
  simp [ParseTreeProcessor.current_line_number, hk, gen_on_directive c k s name e text ht, py_helper]
  cases hd : Reader.onDirective c k s name e text with
  | ok s' =>
    simp only [Sim]
    obtain ⟨f1, f2, f3⟩ := onDirective_frame c hd
    simp [ofSt, f1, f2, f3]
  | error er =>
    obtain ⟨er, w⟩ := er
    obtain ⟨h1, h2⟩ := onDirective_err c hd
    exact ⟨dirErr c k name e, ofSt c strict s k br, rfl, by rw [finalErr_dirErr c k name e hk, h1], by rw [h2]; rfl, rfl⟩


theorem Sim.directive (k br : Nat) (s : St) (l : Line) (name : String) (e : Option EVal) (text : String) (hk : 0 < k)
    (hn : name ≠ "") (ht : e = none → text = "") :
    Sim c strict k br (runEvs c [stmtEvent k l (.directive name e text)] (ofSt c strict s k br))
      (Reader.flush c k s >>= fun s4 => Reader.onDirective c k s4 name e text) := by
  rw [runEvs_single]
  have hne := isEmpty_toList hn
  cases e with
  | none =>
    simp only [stmtEvent, step, ParseTreeProcessor.visit, ParseTreeProcessor.visit_statement_directive_without_expression, SM.run_bind, hne,
      Bool.not_false, SM.run_assert_true, Res.andThen_ok, py_helper]
    refine Sim.bind c strict (Sim.flush c strict k br s) fun s4 => ?_
    exact Sim.onDirective c strict k br s4 name none text hk ht
  | some v =>
    simp only [stmtEvent, step, ParseTreeProcessor.visit, ParseTreeProcessor.visit_statement_directive_with_expression, SM.run_bind, hne,
      Bool.not_false, SM.run_assert_true, Res.andThen_ok, py_helper]
    refine Sim.bind c strict (Sim.flush c strict k br s) fun s4 => ?_
    exact Sim.onDirective c strict k br s4 name (some v) text hk ht

theorem Sim.marker (k br : Nat) (s : St) (l : Line) (hk : 0 < k) :
    Sim c strict k br (runEvs c [stmtEvent k l .marker] (ofSt c strict s k br))
      (Reader.flush c k s >>= fun s4 => Reader.onMarker c k s4) := by
  rw [runEvs_single]
  simp only [stmtEvent, step, ParseTreeProcessor.visit, ParseTreeProcessor.visit_statement_service_response_marker, SM.run_bind, py_helper]
  refine Sim.bind c strict (Sim.flush c strict k br s) fun s4 => ?_
  have h := gen_on_marker c k s4
  have e1 : ∀ g : GParser, ({ g with comment_is_header := true } : GParser).statement_stream_processor = g.statement_stream_processor :=
    fun _ => rfl
  simp only [SM.run_modify, Res.andThen_ok, SM.run_zoom, e1, ofSt_proc, h]
  unfold Reader.onMarker
  cases hd : s4.done with
  | nil =>
    simp [Except.map, Sim]
    all_goals simp [ofSt, ofB]
  | cons x xs =>
    simp only [Except.map, List.isEmpty_cons, Bool.not_false, if_true, Reader.raise, resB_error]
    exact ⟨blank, { ofSt c strict s4 k br with comment_is_header := true }, rfl, by simp [finalErr, blank, truthyOptInt], rfl, rfl⟩


/-! ### lines -/

def litEvs (l : Line) : List GEvent :=
  if l.inner = 0 then [] else [.literal_string_double_quoted (List.replicate l.inner '\n')]
def identEvs (l : Line) (st : Stmt) : List GEvent :=
  if st.hasIdent || !l.refs.isEmpty || !l.deps.isEmpty then [.identifier ['x']] else []
def offsEvs (l : Line) : List GEvent := if l.offs then [.other .offset] else []
def midEvs (l : Line) : List GEvent := if l.fault = some .mid then [.other .fail] else []

/-- the visitors of the children of a statement, in the order they run: string literals, the type constructor that raises
    (`pre`), the first identifier (which flushes), the identifiers and `_offset_` that are resolved, the referenced definitions that
    are read, the expression or type that raises (`mid`) -/
def childEvents (l : Line) (st : Stmt) : List GEvent :=
  litEvs l ++
    (if l.fault = some .pre then [.other .fail]
     else identEvs l st ++ ((l.refs.map fun r => .other (.resolve r)) ++ (offsEvs l ++ ((l.deps.map fun j => .other (.dep j)) ++ midEvs l))))

/-- the events of one line: `line = statement? _? comment?` visited children first, then `visit_line` -/
def lineEvents (k : Nat) (l : Line) : List GEvent :=
  (match l.stmt with
    | some st => childEvents l st ++ [stmtEvent k l st]
    | none => []) ++
  ((match l.comment with
    | some t => [.comment ('#' :: t.toList)]
    | none => []) ++
  [.line (if l.textEmpty then [] else ['x'])])

def StmtOk : Stmt → Prop
  | .attr core => core.kind ≠ .padding → core.name ≠ ""
  | .directive name e text => name ≠ "" ∧ (e = none → text = "")
  | .marker => True

/-- what the grammar guarantees of a line (and the one fault phase that has no counterpart in the code: `emit` is never used) -/
def LineOk (l : Line) : Prop :=
  l.fault ≠ some .emit ∧ (l.stmt = none → l.inner = 0) ∧ (match l.stmt with | some st => StmtOk st | none => True)

instance (st : Stmt) : Decidable (StmtOk st) := by
  cases st <;> unfold StmtOk <;> infer_instance
instance (l : Line) : Decidable (LineOk l) := by
  unfold LineOk
  cases l.stmt <;> infer_instance

theorem Sim.lit (k br : Nat) (s : St) (l : Line) :
    Sim c strict k (br + l.inner) (runEvs c (litEvs l) (ofSt c strict s k br)) (.ok s) := by
  unfold litEvs
  by_cases h : l.inner = 0
  · simp [h, Sim]
  · simp only [h, if_false, step_literal]; rfl

theorem Sim.children (k br : Nat) (s : St) (l : Line) (st : Stmt) (hk : 0 < k) :
    Sim c strict k (br + l.inner) (runEvs c (childEvents l st) (ofSt c strict s k br)) (visitChildren c k l st s) := by
  unfold childEvents
  have h0 : visitChildren c k l st s = ((.ok s : Reader.M St) >>= fun s0 => visitChildren c k l st s0) := rfl
  rw [h0]
  refine Sim.seq c strict (br := br + l.inner) (Sim.lit c strict k br s l) fun s0 => ?_
  generalize br + l.inner = br'
  unfold visitChildren
  by_cases hp : l.fault = some .pre
  · simp only [hp, if_true]
    exact Sim.fail c strict k br' s0 hk
  · simp only [hp, if_false]
    refine Sim.seq c strict (br := br') ?_ fun s1 => Sim.seq c strict (br := br') (Sim.resolveRefs c strict k br' hk l.refs s1) fun s2 => ?_
    · unfold identEvs
      cases (st.hasIdent || !l.refs.isEmpty || !l.deps.isEmpty)
      · exact Sim.nil c strict k br' s0
      · rw [if_pos rfl, if_pos rfl, runEvs_single]
        exact Sim.identifier c strict k br' s0 ['x'] (by simp)
    · have h1 : (Reader.readDeps c k (markOffs l s2) l.deps >>= fun s3 => if l.fault = some .mid then Reader.raise c s3 (some k) else .ok s3) =
          ((.ok (markOffs l s2) : Reader.M St) >>= fun s2' => Reader.readDeps c k s2' l.deps >>= fun s3 =>
            if l.fault = some .mid then Reader.raise c s3 (some k) else .ok s3) := rfl
      rw [h1]
      refine Sim.seq c strict (br := br') ?_ fun s2' => Sim.seq c strict (br := br') (Sim.readDeps c strict k br' hk l.deps s2') fun s3 => ?_
      · unfold offsEvs markOffs
        cases l.offs
        · exact Sim.nil c strict k br' s2
        · exact Sim.offset c strict k br' s2
      · unfold midEvs
        by_cases hm : l.fault = some .mid
        · simp only [hm, if_true]; exact Sim.fail c strict k br' s3 hk
        · simp only [hm, if_false]; exact Sim.nil c strict k br' s3


theorem Sim.stmt (k br : Nat) (s : St) (l : Line) (st : Stmt) (hk : 0 < k) (hf : l.fault ≠ some .emit) (hs : StmtOk st) :
    Sim c strict k br (runEvs c [stmtEvent k l st] (ofSt c strict s k br)) (emitStmt c k l st s) := by
  unfold emitStmt
  cases st with
  | attr core =>
    simp only [hf, if_false]
    exact Sim.attr c strict k br s core _ hk hs
  | directive name e text =>
    simp only [hf, if_false]
    exact Sim.directive c strict k br s l name e text hk hs.1 hs.2
  | marker =>
    simp only [hf, if_false]
    exact Sim.marker c strict k br s l hk

/-- one line: the generated visitors run over its events do what `stepLine` does -/
theorem Sim.stepLine (k : Nat) (s : St) (l : Line) (hk : 0 < k) (hl : LineOk l) :
    Sim c strict k l.inner (runEvs c (lineEvents k l) (ofSt c strict s k 0)) (Reader.stepLine c k s l) := by
  obtain ⟨hf, hin, hst⟩ := hl
  unfold lineEvents Reader.stepLine
  have tail : ∀ (br : Nat) (s1 : St), Sim c strict k br
      (runEvs c ((match l.comment with | some t => [.comment ('#' :: t.toList)] | none => []) ++ [.line (if l.textEmpty then [] else ['x'])])
        (ofSt c strict s1 k br))
      (if l.textEmpty then Reader.flush c k (addLineComment l s1) else .ok (addLineComment l s1)) := by
    intro br s1
    have h2 : ∀ s2, Sim c strict k br (runEvs c [.line (if l.textEmpty then [] else ['x'])] (ofSt c strict s2 k br))
        (if l.textEmpty then Reader.flush c k s2 else .ok s2) := fun s2 => Sim.line c strict k br s2 l.textEmpty
    unfold addLineComment
    cases l.comment with
    | none => simpa using h2 s1
    | some t =>
      have h1 : Sim c strict k br (runEvs c [.comment ('#' :: t.toList)] (ofSt c strict s1 k br)) (.ok (s1.addComment t)) := by
        rw [step_comment]; rfl
      exact Sim.seq c strict h1 h2
  cases hs : l.stmt with
  | none =>
    have := tail 0 s
    rw [hin hs]
    simpa using this
  | some st =>
    refine Sim.seq c strict (br := 0 + l.inner) ?_ fun s1 => by simpa using tail (0 + l.inner) s1
    unfold Reader.visitStmt
    rw [hs] at hst
    exact Sim.seq c strict (Sim.children c strict k 0 s l st hk) fun s' => Sim.stmt c strict k (0 + l.inner) s' l st hk hf hst


/-! ### documents -/

/-- the event stream of a document whose first line has number `k`: `definition = line (end_of_line line)*` -/
def docEvents : Nat → List Line → List GEvent
  | _, [] => []
  | k, [l] => lineEvents k l
  | k, l :: l' :: ls => lineEvents k l ++ (.end_of_line :: docEvents (l.next k) (l' :: ls))

/-- the line breaks inside the string literals of the last line (not yet added to the line counter at the end of the text) -/
def lastInner : List Line → Nat
  | [] => 0
  | [l] => l.inner
  | _ :: l' :: ls => lastInner (l' :: ls)

/-- like `Sim`, for a run over several lines: the line counter ends at `kEnd`; an error carries the location it gets on the
    line where it was raised -/
def DocSim (kEnd brEnd : Nat) (r : Res GParser GExc Unit) (m : Reader.M St) : Prop :=
  match m with
  | .ok s' => r = (.ok (), ofSt c strict s' kEnd brEnd)
  | .error (e, w') => ∃ ge g', r = (.error (.dsdl ge), g') ∧ finalErr c g'.current_line_number ge = e ∧ worldOf g' = w' ∧
      0 < g'.current_line_number

theorem DocSim.of_sim {k br : Nat} {r : Res GParser GExc Unit} {m : Reader.M St} (hk : 0 < k) (h : Sim c strict k br r m) :
    DocSim c strict k br r m := by
  cases m with
  | ok s' => exact h
  | error e =>
    obtain ⟨e, w'⟩ := e
    obtain ⟨ge, g', hr, he, hw, hl⟩ := h
    exact ⟨ge, g', hr, by rw [hl]; exact he, hw, by rw [hl]; exact hk⟩

theorem le_lastLine (ls : List Line) : ∀ k, k ≤ lastLine k ls := by
  induction ls with
  | nil => intro k; exact Nat.le_refl _
  | cons l ls ih =>
    intro k
    cases ls with
    | nil => exact Nat.le_refl _
    | cons l' ls =>
      have := ih (l.next k)
      simp only [lastLine]
      unfold Line.next at this ⊢
      omega

/-- all lines: the generated visitors run over the events of a document do what `runLines` does -/
theorem docSim (ls : List Line) (hls : ∀ l ∈ ls, LineOk l) : ∀ (k : Nat) (s : St), 0 < k →
    DocSim c strict (lastLine k ls) (lastInner ls) (runEvs c (docEvents k ls) (ofSt c strict s k 0)) (runLines c k s ls) := by
  induction ls with
  | nil => intro k s _; rfl
  | cons l ls ih =>
    intro k s hk
    have hl := Sim.stepLine c strict k s l hk (hls l (by simp))
    cases ls with
    | nil =>
      have e : runLines c k s [l] = Reader.stepLine c k s l := by
        simp only [runLines]; exact bind_pure_M _
      rw [e]
      exact DocSim.of_sim c strict hk hl
    | cons l' ls =>
      have ih' := ih (fun x hx => hls x (by simp [hx])) (l.next k)
      simp only [docEvents, lastLine, lastInner, runLines, runEvs_append]
      cases hm : Reader.stepLine c k s l with
      | ok s1 =>
        rw [hm] at hl
        simp only [Sim] at hl
        rw [hl]
        have h2 := ih' s1 (by unfold Line.next; omega)
        have e2 : runEvs c (Event.end_of_line :: docEvents (l.next k) (l' :: ls)) (ofSt c strict s1 k l.inner) =
            runEvs c (docEvents (l.next k) (l' :: ls)) (ofSt c strict s1 (l.next k) 0) := by
          have := step_eol c strict k l.inner s1
          rw [runEvs_single] at this
          rw [runEvs_cons, this]; rfl
        simp only [Res.andThen_ok, e2]
        exact h2
      | error e =>
        rw [hm] at hl
        obtain ⟨e, w'⟩ := e
        obtain ⟨ge, g', hr, he, hw, hlk⟩ := hl
        rw [hr]
        exact ⟨ge, g', rfl, by rw [hlk]; exact he, hw, by rw [hlk]; exact hk⟩


/-! ### `parse` -/

theorem init_eq (w : W) : ParseTreeProcessor.init (ofB c (St.init w)) strict = ofSt c strict (St.init w) 1 0 := rfl

/-- the location an error has when it has left `parse` and `DSDLDefinition.read` has filled in a missing path -/
def readErr (ge : GErr) : Reader.Err := ⟨ge.path.getD c.self, ge.line⟩

/-- the handler of `parse`: `if ex.path is None: ex.set_error_location_if_unknown(line=pr.current_line_number)` -/
theorem parse_handler (ge : GErr) (g : GParser) (hk : 0 < g.current_line_number) :
    ∃ ge', ((do
        let mut ex := ge
        let t1 ← SM.onObj ex (Error.path)
        if (t1.1).isNone then
          let t2 ← ParseTreeProcessor.current_line_number (env c)
          let t3 ← SM.onObj ex (Error.set_error_location_if_unknown none (some t2))
          ex := t3.2
        SM.throw (.dsdl ex) : SM GParser GExc Unit).run g) = (.error (.dsdl ge'), g) ∧
      readErr c ge' = finalErr c g.current_line_number ge := by
  obtain ⟨p, ln⟩ := ge
  cases p with
  | some p =>
    refine ⟨⟨some p, ln⟩, ?_, by simp [readErr, finalErr]⟩
    simp [run_path, SM.run_ite]
  | none =>
    have h0 : g.current_line_number ≠ 0 := by omega
    have h1 : truthyOptInt (some g.current_line_number) = true := by simp [truthyOptInt, h0]
    refine ⟨⟨none, if truthyOptInt ln then ln else some g.current_line_number⟩, ?_, by simp [readErr, finalErr]⟩
    cases ht : truthyOptInt ln <;>
      simp [run_path, SM.run_ite, ParseTreeProcessor.current_line_number, hk, run_set_location, ht, h1, py_helper]

/-- the body of the `try` statement of `parse` -/
def parseBody (evs : List GEvent) (b : GBuilder) : Res GParser GExc Unit :=
  (runEvs c evs (ParseTreeProcessor.init b strict)).andThen fun _ g => (ParseTreeProcessor.flush_comment (env c)).run g

theorem parse_ok (evs : List GEvent) (b : GBuilder) (g : GParser) (h : parseBody c strict evs b = (.ok (), g)) :
    parse (env c) (ext c) evs b strict = (.ok (), g) := by
  have : parse (env c) (ext c) evs b strict = Res.orElse (parseBody c strict evs b) _ := rfl
  rw [this, h]; rfl

theorem parse_dsdl (evs : List GEvent) (b : GBuilder) (ge : GErr) (g : GParser) (h : parseBody c strict evs b = (.error (.dsdl ge), g)) :
    parse (env c) (ext c) evs b strict = ((do
        let mut ex := ge
        let t1 ← SM.onObj ex (Error.path)
        if (t1.1).isNone then
          let t2 ← ParseTreeProcessor.current_line_number (env c)
          let t3 ← SM.onObj ex (Error.set_error_location_if_unknown none (some t2))
          ex := t3.2
        SM.throw (.dsdl ex) : SM GParser GExc Unit).run g) := by
  have : parse (env c) (ext c) evs b strict = Res.orElse (parseBody c strict evs b) _ := rfl
  rw [this, h]; rfl

/-- **The generated `parse` is the model.**  For every document whose lines satisfy what the grammar guarantees, running the
    generated `parse` -- the constructor of the visitor, every visitor over the event stream of the document, the end-of-text
    flush, the handler that injects the line -- on the builder of the initial model state yields what `runLines` followed by the
    end-of-text `flush` yields: on success the state that corresponds to the model's (same schemas, attributes, doc comments,
    header comments, queue, line of the last attribute, deliveries, cache), with the line counter on the last line; on
    failure an `_error.Error` whose location is the model's, the deliveries made and the definitions read being the model's. -/
theorem gen_parse (ls : List Line) (w : W) (hls : ∀ l ∈ ls, LineOk l) :
    match runLines c 1 (St.init w) ls >>= fun s => Reader.flush c (lastLine 1 ls) s with
    | .ok s' => parse (env c) (ext c) (docEvents 1 ls) (ofB c (St.init w)) strict = (.ok (), ofSt c strict s' (lastLine 1 ls) (lastInner ls))
    | .error (e, w') => ∃ ge g', parse (env c) (ext c) (docEvents 1 ls) (ofB c (St.init w)) strict = (.error (.dsdl ge), g') ∧
        readErr c ge = e ∧ worldOf g' = w' := by
  have hd := docSim c strict ls hls 1 (St.init w) (by decide)
  have hK : 0 < lastLine 1 ls := Nat.lt_of_lt_of_le (by decide) (le_lastLine ls 1)
  rw [← init_eq] at hd
  cases hr : runLines c 1 (St.init w) ls with
  | error e =>
    obtain ⟨e, w'⟩ := e
    rw [hr] at hd
    obtain ⟨ge, g', h1, h2, h3, h4⟩ := hd
    obtain ⟨ge', h5, h6⟩ := parse_handler c ge g' h4
    show ∃ ge g', parse (env c) (ext c) (docEvents 1 ls) (ofB c (St.init w)) strict = (.error (.dsdl ge), g') ∧
        readErr c ge = e ∧ worldOf g' = w'
    refine ⟨ge', g', ?_, by rw [h6, h2], h3⟩
    rw [parse_dsdl c strict _ _ ge g' (by unfold parseBody; rw [h1]; rfl)]
    exact h5
  | ok s1 =>
    rw [hr] at hd
    simp only [DocSim] at hd
    have hf := Sim.flush c strict (lastLine 1 ls) (lastInner ls) s1
    rw [show ((Except.ok s1 : Reader.M St) >>= fun s => Reader.flush c (lastLine 1 ls) s) = Reader.flush c (lastLine 1 ls) s1 from rfl]
    cases hfl : Reader.flush c (lastLine 1 ls) s1 with
    | ok s' =>
      rw [hfl] at hf
      simp only [Sim] at hf
      exact parse_ok c strict _ _ _ (by unfold parseBody; rw [hd]; exact hf)
    | error e =>
      obtain ⟨e, w'⟩ := e
      rw [hfl] at hf
      obtain ⟨ge, g', h1, h2, h3, h4⟩ := hf
      obtain ⟨ge', h5, h6⟩ := parse_handler c ge g' (by rw [h4]; exact hK)
      show ∃ ge g', parse (env c) (ext c) (docEvents 1 ls) (ofB c (St.init w)) strict = (.error (.dsdl ge), g') ∧
          readErr c ge = e ∧ worldOf g' = w'
      refine ⟨ge', g', ?_, by rw [h6, h4, h2], h3⟩
      rw [parse_dsdl c strict _ _ ge g' (by unfold parseBody; rw [hd]; exact h1)]
      exact h5


/-! ### `DSDLDefinition.read` over the generated `parse` -/

def toMode : SerializationMode → Mode
  | .SealedSerializationMode => .sealed
  | .DelimitedSerializationMode n => .extent n

def toSchema (g : GSchema) : Schema :=
  ⟨g.fields, g.constants, g.serialization_mode.map toMode, g.is_union, String.ofList g.doc, g.bit_length_computed_at_least_once⟩

def toPending : Callback TyP ValP → Attr × Bool
  | .on_field p _ => p
  | .on_padding_field p => p
  | .on_constant p _ _ => p

/-- the model state a generated visitor stands for -/
def toSt (g : GParser) : St :=
  let b := g.statement_stream_processor
  { done := b.structs.dropLast.map toSchema, cur := (b.structs.getLast?.map toSchema).getD Schema.empty,
    pending := b.element_callback.map toPending, comment := String.ofList g.comment, header := g.comment_is_header,
    deprecated := b.is_deprecated, lastAttrLine := g.last_attribute_line_number, w := worldOf g }

theorem toSchema_ofSchema (sc : Schema) : toSchema (ofSchema sc) = sc := by
  obtain ⟨f, k, m, u, d, o⟩ := sc
  simp only [toSchema, ofSchema, Option.map_map, String.ofList_toList]
  congr
  cases m with
  | none => rfl
  | some m => cases m <;> rfl

theorem toPending_ofPending (p : Attr × Bool) : toPending (ofPending p) = p := by
  unfold ofPending
  cases p.1.core.kind <;> rfl

theorem toSt_ofSt (s : St) (k br : Nat) : toSt (ofSt c strict s k br) = s := by
  obtain ⟨d, cu, p, co, h, de, la, w⟩ := s
  simp only [toSt, ofSt, ofB, worldOf, List.map_append, List.map_cons, List.map_nil, List.dropLast_concat, List.getLast?_concat,
    List.map_map, Option.map_map, String.ofList_toList, Option.map_some, Option.getD_some, toSchema_ofSchema]
  congr
  · have : (toSchema ∘ ofSchema) = id := funext toSchema_ofSchema
    rw [this, List.map_id]
  · cases p with
    | none => rfl
    | some p => simp [toPending_ofPending]

/-- `DSDLDefinition.read` (grammar check, `parse`, `finalize`, path injection) with the GENERATED `parse` in the middle; the
    grammar check and `finalize` (`_make_composite` and the constructors of the composite types) are the model's -/
def genRead (ls : List Line) (w : W) : Reader.M (Composite × W) :=
  match firstSyntaxError 1 ls with
  | some k => .error (⟨c.self, some k⟩, w)
  | none =>
    match parse (env c) (ext c) (docEvents 1 ls) (ofB c (St.init w)) strict with
    | (.ok (), g) => (finalize c (toSt g)).map fun comp => (comp, worldOf g)
    | (.error (.dsdl ge), g) => .error (readErr c ge, worldOf g)
    | (.error (.py _), g) => .error (⟨c.self, none⟩, worldOf g)

/-- **`read` over the generated automaton is the model's `readText`.** -/
theorem genRead_eq (ls : List Line) (w : W) (hls : ∀ l ∈ ls, LineOk l) : genRead c strict ls w = readText c ls w := by
  unfold genRead readText
  cases firstSyntaxError 1 ls with
  | some k => rfl
  | none =>
    have h := gen_parse c strict ls w hls
    simp only
    cases hr : (runLines c 1 (St.init w) ls >>= fun s => Reader.flush c (lastLine 1 ls) s) with
    | ok s' =>
      rw [hr] at h
      simp only at h
      rw [h]
      simp only [toSt_ofSt]
      have e : (runLines c 1 (St.init w) ls >>= fun s => Reader.flush c (lastLine 1 ls) s >>= fun s' =>
          (finalize c s').map fun comp => (comp, s'.w)) =
          ((runLines c 1 (St.init w) ls >>= fun s => Reader.flush c (lastLine 1 ls) s) >>= fun s' =>
            (finalize c s').map fun comp => (comp, s'.w)) := by
        cases runLines c 1 (St.init w) ls <;> rfl
      rw [e, hr]; rfl
    | error e =>
      obtain ⟨e, w'⟩ := e
      rw [hr] at h
      obtain ⟨ge, g', h1, h2, h3⟩ := h
      rw [h1]
      simp only
      have e' : (runLines c 1 (St.init w) ls >>= fun s => Reader.flush c (lastLine 1 ls) s >>= fun s' =>
          (finalize c s').map fun comp => (comp, s'.w)) =
          ((runLines c 1 (St.init w) ls >>= fun s => Reader.flush c (lastLine 1 ls) s) >>= fun s' =>
            (finalize c s').map fun comp => (comp, s'.w)) := by
        cases runLines c 1 (St.init w) ls <;> rfl
      rw [e', hr, h2, h3]; rfl

/-- a successful `genRead` is a successful generated `parse`, and the schemas of the composite are the schema builders of
    the generated `DataTypeBuilder`, in order -/
theorem genRead_ok (ls : List Line) (w w' : W) (comp : Composite) (h : genRead c strict ls w = .ok (comp, w')) :
    ∃ g, parse (env c) (ext c) (docEvents 1 ls) (ofB c (St.init w)) strict = (.ok (), g) ∧
      comp.schemas = (toSt g).done ++ [(toSt g).cur] ∧ comp.deprecated = g.statement_stream_processor.is_deprecated ∧ w' = worldOf g := by
  unfold genRead at h
  cases hf : firstSyntaxError 1 ls with
  | some k => simp [hf] at h
  | none =>
    simp only [hf] at h
    rcases hp : parse (env c) (ext c) (docEvents 1 ls) (ofB c (St.init w)) strict with ⟨⟨ge | pe⟩ | _, g⟩
    · rw [hp] at h; simp at h
    · rw [hp] at h; simp at h
    · rw [hp] at h
      simp only [map_ok] at h
      obtain ⟨comp', hfin, he⟩ := h
      cases he
      refine ⟨g, rfl, ?_, ?_, rfl⟩
      · simp only [finalize] at hfin
        split at hfin
        · simp [Reader.raise] at hfin
        · cases hfin; rfl
      · simp only [finalize] at hfin
        split at hfin
        · simp [Reader.raise] at hfin
        · cases hfin; rfl


theorem lineOk_emptyLine (b : Bool) : LineOk (emptyLine b) := by
  cases b <;> decide

/-- `docEvents` gives every statement ONE identifier event; a statement with several identifiers produces several, and they
    change nothing: on a state in which a queued attribute implies that the header comment is done (true of every state the
    reader reaches), a second `visit_identifier` directly behind the first is a no-op. -/
theorem identifier_idem (k br : Nat) (s : St) (t1 t2 : Str) (h1 : t1 ≠ []) (h2 : t2 ≠ [])
    (hi : s.pending.isSome → s.header = false) :
    runEvs c [.identifier t1, .identifier t2] (ofSt c strict s k br) = runEvs c [.identifier t1] (ofSt c strict s k br) := by
  have e : ∀ (t : Str), t ≠ [] → ∀ g, (step c (.identifier t)).run g =
      ((ParseTreeProcessor.flush_comment (env c)).run g).andThen fun _ g => (.ok (), g) := by
    intro t ht g
    cases t with
    | nil => exact absurd rfl ht
    | cons a t => simp [step, ParseTreeProcessor.visit, ParseTreeProcessor.visit_identifier, py_helper]
  rw [runEvs_cons, runEvs_single, e t1 h1, gen_flush_comment]
  cases hf : Reader.flush c k s with
  | error x => rfl
  | ok s' =>
    simp only [Res.andThen_ok, runEvs_single]
    rw [e t2 h2, gen_flush_comment, Reader.flush_flush hf hi]
    rfl

/-! ### facts about the generated visitor that hold for EVERY instantiation (no model involved) -/

section frame
variable {P T V A L H X : Type} (en : Env P T V A H) (ex : X → SM (BuilderS P T V A L H) (Gen.Reader.Exc P) Unit)

/-- the visitor's own bookkeeping: line counter, line of the waiting attribute, line breaks seen in literals -/
def Book (g g' : ParserS P T V A L H) : Prop :=
  g'.current_line_number = g.current_line_number ∧ g'.last_attribute_line_number = g.last_attribute_line_number ∧
    g'.line_breaks_inside_literals = g.line_breaks_inside_literals

theorem Book.rfl' (g : ParserS P T V A L H) : Book g g := ⟨rfl, rfl, rfl⟩
theorem Book.trans' {g g' g'' : ParserS P T V A L H} (a : Book g g') (b : Book g' g'') : Book g g'' :=
  ⟨b.1.trans a.1, b.2.1.trans a.2.1, b.2.2.trans a.2.2⟩

/-- `_flush_comment` touches neither the line counter nor the line of the waiting attribute -/
theorem flush_comment_book (g : ParserS P T V A L H) : Book g ((ParseTreeProcessor.flush_comment en).run g).2 := by
  cases hh : g.comment_is_header with
  | true =>
    simp only [ParseTreeProcessor.flush_comment, SM.run_bind, SM.run_get, Res.andThen_ok, hh, SM.run_ite, if_true, SM.run_zoom, py_helper]
    rcases (DataTypeBuilder.on_header_comment en g.comment).run g.statement_stream_processor with ⟨_ | _, b'⟩ <;> exact ⟨rfl, rfl, rfl⟩
  | false =>
    simp only [ParseTreeProcessor.flush_comment, SM.run_bind, SM.run_get, Res.andThen_ok, hh, SM.run_ite, Bool.false_eq_true, if_false,
      SM.run_tryCatch, SM.run_zoom, py_helper]
    rcases (DataTypeBuilder.on_attribute_comment en g.comment).run g.statement_stream_processor with ⟨e | _, b'⟩
    · cases e with
      | dsdl e0 => simp [run_set_location]; exact ⟨rfl, rfl, rfl⟩
      | py e0 => exact ⟨rfl, rfl, rfl⟩
    · exact ⟨rfl, rfl, rfl⟩

/-- **A failed lazy commit carries the line of the attribute that was waiting.**  Whatever the payloads and the opaque
    callees are: if the statement stream processor raises an `_error.Error` without a line while it commits the queued attribute
    (`on_attribute_comment`), `_flush_comment` re-raises it with the recorded line of that attribute's statement -- not with the
    line the visitor is on --, path untouched, the visitor's bookkeeping untouched. -/
theorem flush_comment_commit_error (g : ParserS P T V A L H) (e0 : ErrorS P) (b' : BuilderS P T V A L H)
    (hh : g.comment_is_header = false) (hl : truthyOptInt e0.line = false) (hla : g.last_attribute_line_number ≠ 0)
    (h : (DataTypeBuilder.on_attribute_comment en g.comment).run g.statement_stream_processor = (.error (.dsdl e0), b')) :
    (ParseTreeProcessor.flush_comment en).run g =
      (.error (.dsdl ⟨e0.path, some g.last_attribute_line_number⟩), { g with statement_stream_processor := b' }) := by
  simp only [ParseTreeProcessor.flush_comment, SM.run_bind, SM.run_get, Res.andThen_ok, hh, SM.run_ite, Bool.false_eq_true, if_false,
    SM.run_tryCatch, SM.run_zoom, h, py_helper]
  have e1 : intOrNone g.last_attribute_line_number = some g.last_attribute_line_number := by simp [intOrNone, hla]
  have e2 : truthyOptInt (some g.last_attribute_line_number) = true := by simp [truthyOptInt, hla]
  obtain ⟨p, l⟩ := e0
  simp only at hl
  cases p <;> simp [run_set_location, hl, e1, e2]

theorem queue_attribute_callback (b b' : BuilderS P T V A L H) (cb : Callback T V)
    (h : (DataTypeBuilder.queue_attribute en cb).run b = (.ok (), b')) : b'.element_callback = some cb := by
  simp only [DataTypeBuilder.queue_attribute, SM.run_bind, SM.run_modify, py_helper] at h
  rcases hf : (DataTypeBuilder.flush_attribute en ([] : Str)).run b with ⟨e | _, b1⟩
  · rw [hf] at h; simp at h
  · rw [hf] at h; simp at h; rw [← h]

/-- after `on_field` / `on_constant` / `on_padding_field` returned, the attribute is queued, not committed -/
theorem on_attr_callback (b b' : BuilderS P T V A L H) (x : SM (BuilderS P T V A L H) (Gen.Reader.Exc P) Unit) (cb : Callback T V)
    (hx : x = (do DataTypeBuilder.on_attribute en; DataTypeBuilder.queue_attribute en cb))
    (h : x.run b = (.ok (), b')) : b'.element_callback = some cb := by
  subst hx
  simp only [SM.run_bind] at h
  rcases ha : (DataTypeBuilder.on_attribute en).run b with ⟨e | _, b1⟩
  · rw [ha] at h; simp at h
  · rw [ha] at h; simp only [Res.andThen_ok] at h
    exact queue_attribute_callback en b1 b' cb h

/-- **An attribute statement records its own line.**  Whatever the payloads and the opaque callees are: when the visitor of a
    field / constant / padding statement returns, the attribute is queued (not yet committed) and
    `_last_attribute_line_number` is the number of the line the visitor is on -- the statement's own line; the line counter has
    not moved. -/
theorem attr_statement_line (g g' : ParserS P T V A L H) (x : SM (BuilderS P T V A L H) (Gen.Reader.Exc P) Unit) (cb : Callback T V)
    (hx : x = (do DataTypeBuilder.on_attribute en; DataTypeBuilder.queue_attribute en cb))
    (h : ((do
        ParseTreeProcessor.flush_comment en
        SM.zoom (fun self : ParserS P T V A L H => self.statement_stream_processor) (fun self v => { self with statement_stream_processor := v }) x
        let t1 ← ParseTreeProcessor.current_line_number en
        SM.modify fun self => { self with last_attribute_line_number := t1 } : SM (ParserS P T V A L H) (Gen.Reader.Exc P) Unit).run g) =
      (.ok (), g')) :
    g'.last_attribute_line_number = g.current_line_number ∧ g'.current_line_number = g.current_line_number ∧
      g'.statement_stream_processor.element_callback = some cb := by
  have hb := flush_comment_book en g
  simp only [SM.run_bind] at h
  rcases hf : (ParseTreeProcessor.flush_comment en).run g with ⟨e | _, g1⟩
  · rw [hf] at h; simp at h
  · rw [hf] at h hb
    simp only [Res.andThen_ok, SM.run_zoom] at h
    rcases hz : x.run g1.statement_stream_processor with ⟨e | _, b2⟩
    · rw [hz] at h; simp at h
    · rw [hz] at h
      have hcb := on_attr_callback en _ _ x cb hx hz
      by_cases hk : g1.current_line_number > 0
      · simp [ParseTreeProcessor.current_line_number, hk, py_helper] at h
        rw [← h]
        exact ⟨hb.1, hb.1, hcb⟩
      · simp [ParseTreeProcessor.current_line_number, hk, py_helper] at h

/-- the text of a comment node without its `#` and without ONE blank behind it -/
def stripComment : Str → Str
  | ' ' :: r => r
  | t => t

/-- **`visit_comment`**, whatever the payloads: the comment node `#t` appends `t` without one leading blank to the pending
    comment, behind a line feed unless the pending comment is empty; nothing else changes. -/
theorem visit_comment_run (g : ParserS P T V A L H) (t : Str) :
    (ParseTreeProcessor.visit_comment en ('#' :: t)).run g =
      (.ok (), { g with comment := g.comment ++ (if g.comment = [] then [] else ['\n']) ++ stripComment t }) := by
  have e : (if strStartsWith ('#' :: t) ['#', ' '] then ('#' :: t).drop 2 else ('#' :: t).drop 1) = stripComment t := by
    unfold strStartsWith stripComment
    rcases t with _ | ⟨a, r⟩
    · simp
    · by_cases ha : a = ' '
      · subst ha; simp
      · have ha2 : ¬ (' ' = a) := fun h => ha h.symm
        rw [if_neg (by simp [List.isPrefixOf, ha2])]
        split
        · rename_i heq; simp at heq; exact absurd heq.1 ha
        · simp
  simp only [ParseTreeProcessor.visit_comment, SM.run_bind, SM.run_get, SM.run_modify, Res.andThen_ok, e, py_helper]
  by_cases h : g.comment = [] <;> simp [h]

end frame

end Bridge.Rd
